import ModVerif.Drv.MainLoop
import ModVerif.Drv.Edit
open ModVerif.Drv
/-! fallback driver: hand model only -/
def main : IO Unit := runMain [("edit", Edit.handle)]
