import ModVerif.Drv.MainLoop
import ModVerif.Drv.Tlog
import ModVerif.Drv.Tile
open ModVerif.Drv
/-! fallback driver: hand model only -/
def main : IO Unit := runMain [("tlog", Tlog.handle), ("tile", Tile.handle)]
