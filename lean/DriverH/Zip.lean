import ModVerif.Drv.MainLoop
import ModVerif.Drv.Zip
import ModVerif.Drv.ZipSpell
import ModVerif.Drv.Dirhash
open ModVerif.Drv
/-! fallback driver: hand model only -/
def main : IO Unit := runMain [("zip", fun op args => (Zip.handle op args) <|> (ZipSpell.handle op args)), ("dirhash", Dirhash.handle)]
