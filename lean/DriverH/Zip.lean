import ModVerif.Drv.MainLoop
import ModVerif.Drv.Zip
import ModVerif.Drv.Dirhash
open ModVerif.Drv
/-! fallback driver: hand model only -/
def main : IO Unit := runMain [("zip", Zip.handle), ("dirhash", Dirhash.handle)]
