import ModVerif.Drv.MainLoop
import ModVerif.Drv.Modfile
open ModVerif.Drv
/-! fallback driver: hand model only (the token-level and comparator ops, whose model side lives next to the regenerated
    side, answer bad-op here and are not compared) -/
def main : IO Unit := runMain [("modfile", Modfile.handle)]
