import ModVerif.Drv.MainLoop
import ModVerif.Drv.Client
open ModVerif.Drv
/-! fallback driver: hand model only -/
def main : IO Unit := runMain [("client", Client.handle)]
