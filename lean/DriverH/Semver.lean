import ModVerif.Drv.MainLoop
import ModVerif.Drv.Semver
open ModVerif.Drv
/-! fallback driver: hand model only (used when the regenerated code of this group does not build) -/
def main : IO Unit := runMain [("semver", Semver.handle)]
