import ModVerif.Drv.MainLoop
import ModVerif.Drv.Module
open ModVerif.Drv
/-! fallback driver: hand model only -/
def main : IO Unit := runMain [("module", Module.handle)]
