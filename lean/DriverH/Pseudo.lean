import ModVerif.Drv.MainLoop
import ModVerif.Drv.Pseudo
open ModVerif.Drv
/-! fallback driver: hand model only -/
def main : IO Unit := runMain [("pseudo", Pseudo.handle)]
