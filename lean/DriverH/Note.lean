import ModVerif.Drv.MainLoop
import ModVerif.Drv.Note
open ModVerif.Drv
/-! fallback driver: hand model only -/
def main : IO Unit := runMain [("note", Note.handle)]
