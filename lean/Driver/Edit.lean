import ModVerif.Drv.MainLoop
import ModVerif.Drv.Edit
open ModVerif.Drv

def main : IO Unit := runMain [("edit", Edit.handle)]
