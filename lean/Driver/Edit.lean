import ModVerif.Drv.MainLoop
import ModVerif.Drv.Edit
import ModVerif.Drv.GenEdit
open ModVerif.Drv

def main : IO Unit := runMain [("edit", Edit.handle), ("gedit", GenEdit.handle)]
