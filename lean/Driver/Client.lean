import ModVerif.Drv.MainLoop
import ModVerif.Drv.Client
open ModVerif.Drv

def main : IO Unit := runMain [("client", Client.handle)]
