import ModVerif.Drv.MainLoop
import ModVerif.Drv.Client
import ModVerif.Drv.GenClient
open ModVerif.Drv

def main : IO Unit := runMain [("client", Client.handle), ("gclient", GenClient.handle)]
