import ModVerif.Drv.MainLoop
import ModVerif.Drv.Semver
import ModVerif.Drv.GenSemver
open ModVerif.Drv

def main : IO Unit := runMain [("semver", Semver.handle), ("gsemver", GenSemver.handle)]
