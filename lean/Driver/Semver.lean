import ModVerif.Drv.MainLoop
import ModVerif.Drv.Semver
open ModVerif.Drv

def main : IO Unit := runMain [("semver", Semver.handle)]
