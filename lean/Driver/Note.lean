import ModVerif.Drv.MainLoop
import ModVerif.Drv.Note
import ModVerif.Drv.GenNote
import ModVerif.Drv.GenNoteKey
open ModVerif.Drv

def main : IO Unit := runMain [("note", Note.handle), ("gnote", fun op args => (GenNote.handle op args) <|> (GenNoteKey.handle op args))]
