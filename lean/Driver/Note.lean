import ModVerif.Drv.MainLoop
import ModVerif.Drv.Note
import ModVerif.Drv.GenNote
open ModVerif.Drv

def main : IO Unit := runMain [("note", Note.handle), ("gnote", GenNote.handle)]
