import ModVerif.Drv.MainLoop
import ModVerif.Drv.Note
open ModVerif.Drv

def main : IO Unit := runMain [("note", Note.handle)]
