import ModVerif.Drv.MainLoop
import ModVerif.Drv.Zip
import ModVerif.Drv.ZipSpell
import ModVerif.Drv.Dirhash
import ModVerif.Drv.GenZip
import ModVerif.Drv.GenZipIO
import ModVerif.Drv.GenZipDir
import ModVerif.Drv.GenModule
import ModVerif.Drv.GenDirhash
open ModVerif.Drv

def gzip : Handler := fun op args =>
  (GenZip.handle op args) <|> (GenZip.handleCf Zip.parseFiles Zip.realEnv.cfp GenModule.equalFoldI op args)
    <|> (GenZipIO.handle Zip.realEnv.cfp GenModule.equalFoldI ModVerif.Semver.canonicalVersion
          (fun p v => match ModVerif.Module.check p v with | .ok _ => true | .error _ => false) op args)
    <|> (GenZipDir.handle Zip.realEnv.cfp GenModule.equalFoldI ModVerif.Semver.canonicalVersion
          (fun p v => match ModVerif.Module.check p v with | .ok _ => true | .error _ => false) op args)

def main : IO Unit := runMain [("zip", fun op args => (Zip.handle op args) <|> (ZipSpell.handle op args)), ("dirhash", Dirhash.handle), ("gzip", gzip), ("gdirhash", fun op args => (GenDirhash.handle op args) <|> (GenDirhash.handleDir op args))]
