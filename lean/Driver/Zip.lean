import ModVerif.Drv.MainLoop
import ModVerif.Drv.Zip
import ModVerif.Drv.Dirhash
import ModVerif.Drv.GenZip
open ModVerif.Drv

def main : IO Unit := runMain [("zip", Zip.handle), ("dirhash", Dirhash.handle), ("gzip", GenZip.handle)]
