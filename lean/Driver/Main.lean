/-
  mvdriver: line-protocol driver.  Reads one operation per line on stdin, prints one
  result line per operation.  No logic here: dispatch on the prefix to ModVerif.Drv.*.
-/
import ModVerif.Drv.All

open ModVerif.Drv

def dispatch (line : String) : String :=
  let toks := (line.trimAscii.toString.splitOn " ").filter (· ≠ "")
  match toks with
  | [] => "bad-op"
  | head :: args =>
    match head.splitOn "." with
    | [pfx, op] =>
      match handlers.lookup pfx with
      | some h => (h op args).getD "bad-op"
      | none => "bad-op"
    | _ => "bad-op"

partial def loop (hin hout : IO.FS.Stream) : IO Unit := do
  let line ← hin.getLine
  if line.isEmpty then return ()
  hout.putStrLn (dispatch line)
  loop hin hout

def main : IO Unit := do
  let hin ← IO.getStdin
  let hout ← IO.getStdout
  loop hin hout
  hout.flush
