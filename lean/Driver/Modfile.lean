import ModVerif.Drv.MainLoop
import ModVerif.Drv.Modfile
import ModVerif.Drv.GenModfile
import ModVerif.Drv.LexOps
import ModVerif.Drv.GenPrint
import ModVerif.Drv.CmpOps
import ModVerif.Drv.GenParse
import ModVerif.Drv.GenRule
open ModVerif.Drv

def modfileH : Handler := fun op args => (LexOps.handleModel op args) <|> (CmpOps.handleModel op args) <|> (GenParse.handleModel op args) <|> (Modfile.handle op args)
def gmodfileH : Handler := fun op args => (LexOps.handleGen op args) <|> (CmpOps.handleGen op args) <|> (GenPrint.handle op args) <|> (GenModfile.handle op args) <|> (GenParse.handle op args) <|> (GenRule.handle op args)

def main : IO Unit := runMain [("modfile", modfileH), ("gmodfile", gmodfileH)]
