import ModVerif.Drv.MainLoop
import ModVerif.Drv.Modfile
import ModVerif.Drv.GenModfile
open ModVerif.Drv

def main : IO Unit := runMain [("modfile", Modfile.handle), ("gmodfile", GenModfile.handle)]
