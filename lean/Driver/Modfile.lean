import ModVerif.Drv.MainLoop
import ModVerif.Drv.Modfile
open ModVerif.Drv

def main : IO Unit := runMain [("modfile", Modfile.handle)]
