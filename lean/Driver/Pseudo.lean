import ModVerif.Drv.MainLoop
import ModVerif.Drv.Pseudo
open ModVerif.Drv

def main : IO Unit := runMain [("pseudo", Pseudo.handle)]
