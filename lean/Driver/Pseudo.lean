import ModVerif.Drv.MainLoop
import ModVerif.Drv.Pseudo
import ModVerif.Drv.GenModule
open ModVerif.Drv

def main : IO Unit := runMain [("pseudo", Pseudo.handle), ("gpseudo", GenModule.handlePseudo)]
