import ModVerif.Drv.MainLoop
import ModVerif.Drv.Module
import ModVerif.Drv.GenModule
open ModVerif.Drv

def main : IO Unit := runMain [("module", Module.handle), ("gmodule", GenModule.handle)]
