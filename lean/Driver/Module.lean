import ModVerif.Drv.MainLoop
import ModVerif.Drv.Module
open ModVerif.Drv

def main : IO Unit := runMain [("module", Module.handle)]
