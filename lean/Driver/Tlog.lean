import ModVerif.Drv.MainLoop
import ModVerif.Drv.Tlog
import ModVerif.Drv.Tile
import ModVerif.Drv.GenTlog
import ModVerif.Drv.GenTile
open ModVerif.Drv

def main : IO Unit := runMain [("tlog", Tlog.handle), ("tile", Tile.handle), ("gtlog", GenTlog.handle), ("gtile", GenTile.handle)]
