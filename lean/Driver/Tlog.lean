import ModVerif.Drv.MainLoop
import ModVerif.Drv.Tlog
import ModVerif.Drv.Tile
import ModVerif.Drv.GenTlog
import ModVerif.Drv.GenTile
open ModVerif.Drv

def gtlog : Handler := fun op args => (GenTlog.handle op args) <|> (GenTlogNote.handle op args)

def main : IO Unit := runMain [("tlog", Tlog.handle), ("tile", Tile.handle), ("gtlog", gtlog), ("gtile", GenTile.handle)]
