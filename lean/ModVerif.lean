-- Root of the library: everything that `lake build ModVerif` (bin/setup) should build.
import ModVerif.Basic.Bytes
import ModVerif.Model.Semver
import ModVerif.Props.C04
import ModVerif.Tie.Semver
import ModVerif.Model.Dirhash
import ModVerif.Props.C19
import ModVerif.Tie.Dirhash
