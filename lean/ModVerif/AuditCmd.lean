/-
  `#audit_module M` prints one line `AUDIT <theorem> [axioms]` for every theorem declared in
  module `M`.  bin/check parses these lines: the obligations counted in the evidence file are the
  theorems listed here, and any axiom outside {propext, Classical.choice, Quot.sound} fails the check.
-/
import Lean
open Lean Elab Command

elab "#audit_module " id:ident : command => do
  let env ← getEnv
  let modName := id.getId
  match env.getModuleIdx? modName with
  | none => throwError "unknown module {modName}"
  | some idx =>
    let names := env.header.moduleData[idx.toNat]!.constNames
    for n in names do
      if let some (.thmInfo _) := env.find? n then
        if !n.isInternalDetail then
          let axs ← liftCoreM (Lean.collectAxioms n)
          let axs := axs.qsort (fun a b => a.toString < b.toString)
          logInfo m!"AUDIT {n} {axs.toList}"
