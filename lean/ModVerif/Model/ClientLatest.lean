/-
  ClientLatest — the latest-tree-head protocol of sumdb/client.go (`mergeLatest`, `mergeLatestMem`, the configuration
  compare-and-swap loop, `ErrWriteConflict` retry, `SecurityError`), abstracted over the verification layer, for any
  number of goroutines and any number of clients sharing the configuration file, as an interleaved small-step machine.

  Abstraction
    * `M`  raw signed-note messages; `parse : M → Option T` is `note.Open` + `tlog.ParseTree` (`none` = an error return).
    * `T`  tree heads (`tlog.Tree`, i.e. size and hash) with `size`; `zero` is the initial `c.latest` ({N:0, empty hash}).
    * `chk older newer : List Res` — the possible outcomes of `checkTrees(older, newer)`: `ok` (hash recomputed from the newer
      tree's authenticated tiles equals the older hash), `fork` (it differs: `SecurityError` is called and `ErrSecurity`
      returned) or `error` (tiles unavailable / not authentic).  The tile reads it performs are not modelled here (C10).
    * `latestMu` critical sections contain no blocking operation; each is ONE atomic step (mutex under sequential consistency).
    * external operations (`ReadConfig`, `WriteConfig`) are atomic steps on the shared `config`; `WriteConfig(old,new)` is a
      compare-and-swap.  A restart is a new client index (fresh `latest = zero`) over the same `config`.

  A thread `t` executes `Client.Lookup`'s entry test followed by ONE call `mergeLatest(presented t)` on client `cl t`
  (the call made by `initWork` with the configuration content, or by `Lookup` with the tree note of a response).

      func (c *Client) mergeLatest(msg []byte) error {
          when, err := c.mergeLatestMem(msg)                      -- start, then memRead/memCheck/memInstall (outer = first)
          if err != nil { return err }
          if when != msgFuture { return nil }
          for {
              msg, err := c.ops.ReadConfig(c.name + "/latest")    -- readConfig
              when, err := c.mergeLatestMem(msg)                  -- memRead/memCheck/memInstall (outer = loop)
              if when != msgPast { return nil }
              c.latestMu.Lock(); latestMsg := c.latestMsg; c.latestMu.Unlock()        -- readLatestMsg
              if err := c.ops.WriteConfig(c.name+"/latest", msg, latestMsg); err != ErrWriteConflict { return err }  -- writeConfig
          }
      }
      func (c *Client) mergeLatestMem(msg []byte) (when int, err error) {
          if len(msg) == 0 { lock; latest := c.latest; unlock; if latest.N == 0 { return msgNow } ; return msgPast }   -- memRead
          note.Open / ParseTree (errors returned)
          lock; latest := c.latest; latestMsg := c.latestMsg; unlock                                            -- memRead
          for {
              if tree.N <= latest.N { checkTrees(tree, msg, latest, latestMsg); past if tree.N < latest.N else now }  -- memCheck
              checkTrees(latest, latestMsg, tree, msg)                                                         -- memCheck
              lock; if c.latest == latest { c.latest = tree; c.latestMsg = msg; installed } else { latest = c.latest; latestMsg = c.latestMsg }; unlock  -- memInstall
              if installed { return msgFuture }
          }
      }
  Core Lean only.
-/
namespace ModVerif.ClientLatest

inductive Res | ok | fork | error
  deriving DecidableEq, Repr, Inhabited

inductive Outer | first | loop
  deriving DecidableEq, Repr, Inhabited

inductive Result | ok | err | security | gonosumdb
  deriving DecidableEq, Repr, Inhabited

inductive When | past | now | future
  deriving DecidableEq, Repr

inductive PC
  | entry | start | memRead (o : Outer) | memCheck (o : Outer) | memInstall (o : Outer)
  | readConfig | readLatestMsg | writeConfig | done (r : Result)
  deriving DecidableEq, Repr, Inhabited

structure Params (M T : Type) where
  parse : M → Option T
  size  : T → Nat
  zero  : T
  chk   : T → T → List Res

/-- thread-local variables of `mergeLatest` / `mergeLatestMem` -/
structure Loc (M T : Type) where
  pc        : PC
  msg       : Option M   -- argument of the current mergeLatestMem call
  tree      : T          -- parsed from msg
  latest    : T          -- local snapshot of c.latest
  latestMsg : Option M   -- local snapshot of c.latestMsg
  cfg       : Option M   -- value returned by the last ReadConfig
  lm        : Option M   -- c.latestMsg read just before WriteConfig
  ops       : Nat        -- ghost: external operations performed (ReadConfig, WriteConfig, checkTrees, SecurityError)

structure St (M T : Type) where
  config    : Option M                 -- the shared <name>/latest configuration file (none = empty)
  latest    : Nat → T                  -- per client: c.latest
  latestMsg : Nat → Option M           -- per client: c.latestMsg
  th        : Nat → Loc M T
  sec       : List (Nat × Option M × Option M)   -- SecurityError calls: (thread, olderNote, newerNote), newest first
  writes    : List (Option M × Option M)         -- successful WriteConfig calls (old, new), newest first

def upd {α : Type} (f : Nat → α) (i : Nat) (v : α) : Nat → α := fun j => if j = i then v else f j

@[simp] theorem upd_same {α} (f : Nat → α) (i : Nat) (v : α) : upd f i v i = v := by simp [upd]
@[simp] theorem upd_other {α} (f : Nat → α) (i j : Nat) (v : α) (h : j ≠ i) : upd f i v j = f j := by simp [upd, h]

variable {M T : Type}

def init (P : Params M T) (c0 : Option M) : St M T :=
  { config := c0, latest := fun _ => P.zero, latestMsg := fun _ => none,
    th := fun _ => { pc := .entry, msg := none, tree := P.zero, latest := P.zero, latestMsg := none, cfg := none, lm := none, ops := 0 },
    sec := [], writes := [] }

/-- where `mergeLatest` continues after `mergeLatestMem` returned `w` -/
def afterMem (o : Outer) (w : When) : PC :=
  match o, w with
  | .first, .future => .readConfig
  | .first, _ => .done .ok
  | .loop, .past => .readLatestMsg
  | .loop, _ => .done .ok

/-- The action of thread `t` in state `s`.  `r` resolves the two nondeterministic points: the outcome of `checkTrees`
(must be one of `P.chk older newer`) and whether an external configuration operation fails with a non-conflict error
(`r = error`).  `none` = not enabled. -/
def step [DecidableEq M] [DecidableEq T] (P : Params M T) (cl : Nat → Nat) (presented : Nat → Option M) (priv : Nat → Bool)
    (s : St M T) (t : Nat) (r : Res) : Option (St M T) :=
  let l := s.th t
  let c := cl t
  let setL (l' : Loc M T) : St M T := { s with th := upd s.th t l' }
  match l.pc with
  | .entry => some (setL { l with pc := if priv t then .done .gonosumdb else .start })      -- Lookup: skip(path) before init
  | .start => some (setL { l with pc := .memRead .first, msg := presented t })
  | .memRead o =>
      match l.msg with
      | none => some (setL { l with pc := afterMem o (if P.size (s.latest c) = 0 then .now else .past) })
      | some m =>
        match P.parse m with
        | none => some (setL { l with pc := .done .err })
        | some tr => some (setL { l with pc := .memCheck o, tree := tr, latest := s.latest c, latestMsg := s.latestMsg c })
  | .memCheck o =>
      if P.size l.tree ≤ P.size l.latest then
        if r ∈ P.chk l.tree l.latest then
          match r with
          | .ok => some (setL { l with pc := afterMem o (if P.size l.tree < P.size l.latest then .past else .now), ops := l.ops + 1 })
          | .fork => some { s with th := upd s.th t { l with pc := .done .security, ops := l.ops + 2 },
                                   sec := (t, l.msg, l.latestMsg) :: s.sec }
          | .error => some (setL { l with pc := .done .err, ops := l.ops + 1 })
        else none
      else
        if r ∈ P.chk l.latest l.tree then
          match r with
          | .ok => some (setL { l with pc := .memInstall o, ops := l.ops + 1 })
          | .fork => some { s with th := upd s.th t { l with pc := .done .security, ops := l.ops + 2 },
                                   sec := (t, l.latestMsg, l.msg) :: s.sec }
          | .error => some (setL { l with pc := .done .err, ops := l.ops + 1 })
        else none
  | .memInstall o =>
      if s.latest c = l.latest then
        some { s with latest := upd s.latest c l.tree, latestMsg := upd s.latestMsg c l.msg,
                      th := upd s.th t { l with pc := afterMem o .future } }
      else some (setL { l with pc := .memCheck o, latest := s.latest c, latestMsg := s.latestMsg c })
  | .readConfig =>
      if r = .error then some (setL { l with pc := .done .err, ops := l.ops + 1 })
      else some (setL { l with pc := .memRead .loop, cfg := s.config, msg := s.config, ops := l.ops + 1 })
  | .readLatestMsg => some (setL { l with pc := .writeConfig, lm := s.latestMsg c })
  | .writeConfig =>
      if r = .error then some (setL { l with pc := .done .err, ops := l.ops + 1 })
      else if s.config = l.cfg then
        some { s with config := l.lm, writes := (l.cfg, l.lm) :: s.writes, th := upd s.th t { l with pc := .done .ok, ops := l.ops + 1 } }
      else some (setL { l with pc := .readConfig, ops := l.ops + 1 })                        -- ErrWriteConflict: go around again
  | .done _ => none

section
variable [DecidableEq M] [DecidableEq T]

inductive Reachable (P : Params M T) (cl : Nat → Nat) (presented : Nat → Option M) (priv : Nat → Bool) (c0 : Option M) : St M T → Prop
  | init : Reachable P cl presented priv c0 (init P c0)
  | step {s s' : St M T} (t : Nat) (r : Res) :
      Reachable P cl presented priv c0 s → step P cl presented priv s t r = some s' → Reachable P cl presented priv c0 s'

/-- run a schedule of (thread, choice) pairs -/
def run (P : Params M T) (cl : Nat → Nat) (presented : Nat → Option M) (priv : Nat → Bool) :
    St M T → List (Nat × Res) → Option (St M T)
  | s, [] => some s
  | s, (t, r) :: rest => match step P cl presented priv s t r with
    | none => none
    | some s' => run P cl presented priv s' rest

theorem run_reachable (P : Params M T) (cl : Nat → Nat) (presented : Nat → Option M) (priv : Nat → Bool) (c0 : Option M) :
    ∀ (sched : List (Nat × Res)) (s s' : St M T), Reachable P cl presented priv c0 s →
      run P cl presented priv s sched = some s' → Reachable P cl presented priv c0 s' := by
  intro sched
  induction sched with
  | nil => intro s s' h hr; simp [run] at hr; subst hr; exact h
  | cons x rest ih =>
    intro s s' h hr
    obtain ⟨t, r⟩ := x
    simp only [run] at hr
    cases hs : step P cl presented priv s t r with
    | none => simp [hs] at hr
    | some s1 => simp [hs] at hr; exact ih s1 s' (Reachable.step t r h hs) hr
end

/-- the tree a configuration value stands for (`none`, the empty file, is the empty tree) -/
def cfgTree (P : Params M T) : Option M → T
  | none => P.zero
  | some m => (P.parse m).getD P.zero

/-! ## A concrete instance: two logs A (branch 0) and B (branch 1) sharing their first `p` records.
A head is `(branch, size)`; messages are heads (every message verifies).  Used for non-vacuity, for the
no-rollback witness and by the driver's trace validation. -/

abbrev Head := Nat × Nat

/-- `a` is a prefix of `b` in the pair of logs with common prefix `p` -/
def forkLe (p : Nat) (a b : Head) : Bool := a.2 ≤ b.2 && (a.1 == b.1 || a.2 ≤ p)

/-- honest tiles: `checkTrees` answers exactly whether the older tree is a prefix of the newer one;
`hostile = true` additionally allows an `error` outcome (the server withholds or corrupts tiles). -/
def forkParams (p : Nat) (hostile : Bool) : Params Head Head :=
  { parse := fun m => some (if m.2 ≤ p then (0, m.2) else m),   -- below the fork point both logs have the same tree
    size := fun t => t.2,
    zero := (0, 0),
    chk := fun a b => (if forkLe p a b then [Res.ok] else [Res.fork]) ++ (if hostile then [Res.error] else []) }

end ModVerif.ClientLatest
