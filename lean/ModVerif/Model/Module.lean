/-
  Model of golang.org/x/mod/module (module.go).  One def per Go function.
-/
import ModVerif.Basic.Bytes
import ModVerif.Model.Semver
namespace ModVerif.Module
open ModVerif

/-- CanonicalVersion: semver.Canonical, but keeps exactly the "+incompatible" build suffix. -/
def canonicalVersion (v : Bytes) : Bytes :=
  let cv := Semver.canonical v
  if Semver.build v == B "+incompatible" then cv ++ B "+incompatible" else cv

end ModVerif.Module
