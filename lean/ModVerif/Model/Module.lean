/-
  Model of golang.org/x/mod/module (module.go): path validity, path/version matching, escaping,
  GOPRIVATE prefix patterns.  One def per Go function, same branch order, errors as data.
  Strings are byte lists; `for _, r := range s` is `Utf8.runes s`.
  `isLetter` (unicode.IsLetter) and `glob` (path.Match) are parameters of the functions that use
  them; the driver instantiates them with `UnicodeLetter.isLetter` and `PathMatch.pathMatch`.
-/
import ModVerif.Basic.Bytes
import ModVerif.Basic.Utf8
import ModVerif.Model.Semver
namespace ModVerif.Module
open ModVerif

/-- decidable equality of results, so that concrete instances close by `decide` -/
instance instDecidableEqExcept {ε α : Type} [DecidableEq ε] [DecidableEq α] : DecidableEq (Except ε α)
  | .ok a, .ok b => if h : a = b then isTrue (by rw [h]) else isFalse (fun e => h (by injection e))
  | .error a, .error b => if h : a = b then isTrue (by rw [h]) else isFalse (fun e => h (by injection e))
  | .ok _, .error _ => isFalse (fun e => by injection e)
  | .error _, .ok _ => isFalse (fun e => by injection e)

/-- pathKind -/
inductive Kind where
  | module | import_ | file
  deriving Repr, DecidableEq

/-- the error returns of checkPath / checkElem / CheckPath, one constructor per `fmt.Errorf` site,
    in source order.  (The `default: panic` of checkElem's kind switch has no counterpart:
    `Kind` has exactly the three constructors of the Go constant block.) -/
inductive PathErr where
  | invalidUtf8        -- "invalid UTF-8"
  | emptyString        -- "empty string"
  | leadingDash        -- "leading dash"
  | doubleSlash        -- "double slash"
  | trailingSlash      -- "trailing slash"
  | emptyElem          -- "empty path element"
  | allDots            -- "invalid path element %q"
  | leadingDot         -- "leading dot in path element"
  | trailingDot        -- "trailing dot in path element"
  | invalidChar        -- "invalid char %q"
  | windows            -- "%q disallowed as path element component on Windows"
  | tildeDigits        -- "trailing tilde and digits in path element"
  | leadingSlash       -- "leading slash"
  | missingDot         -- "missing dot in first path element"
  | leadingDashFirst   -- "leading dash in first path element"
  | invalidCharFirst   -- "invalid char %q in first path element"
  | invalidVersion     -- "invalid version"
  deriving Repr, DecidableEq

def PathErr.name : PathErr → String
  | .invalidUtf8 => "utf8" | .emptyString => "empty" | .leadingDash => "leading-dash"
  | .doubleSlash => "double-slash" | .trailingSlash => "trailing-slash" | .emptyElem => "empty-elem"
  | .allDots => "all-dots" | .leadingDot => "leading-dot" | .trailingDot => "trailing-dot"
  | .invalidChar => "char" | .windows => "windows" | .tildeDigits => "tilde-digits"
  | .leadingSlash => "leading-slash" | .missingDot => "missing-dot"
  | .leadingDashFirst => "leading-dash-first" | .invalidCharFirst => "char-first"
  | .invalidVersion => "version"

/-! ### character classes (regenerated from source and tied in Tie/Module.lean) -/

/-- firstPathOK -/
def firstPathOK (r : Nat) : Bool :=
  r == 45 || r == 46 || (48 ≤ r && r ≤ 57) || (97 ≤ r && r ≤ 122)

/-- modPathOK -/
def modPathOK (r : Nat) : Bool :=
  if r < 128 then
    r == 45 || r == 46 || r == 95 || r == 126 ||
    (48 ≤ r && r ≤ 57) || (65 ≤ r && r ≤ 90) || (97 ≤ r && r ≤ 122)
  else false

/-- importPathOK -/
def importPathOK (r : Nat) : Bool := modPathOK r || r == 43

/-- the constant `allowed` of fileNameOK: "!#$%&()+,-.=@[]^_{}~ " -/
def fileNameAllowed : List Nat :=
  [33, 35, 36, 37, 38, 40, 41, 43, 44, 45, 46, 61, 64, 91, 93, 94, 95, 123, 125, 126, 32]

/-- fileNameOK -/
def fileNameOK (isLetter : Nat → Bool) (r : Nat) : Bool :=
  if r < 128 then
    if (48 ≤ r && r ≤ 57) || (65 ≤ r && r ≤ 90) || (97 ≤ r && r ≤ 122) then true
    else fileNameAllowed.elem r
  else isLetter r

/-- the `switch kind` of checkElem -/
def charOK (isLetter : Nat → Bool) : Kind → Nat → Bool
  | .module => modPathOK
  | .import_ => importPathOK
  | .file => fileNameOK isLetter

/-- badWindowsNames -/
def badWindowsNames : List Bytes :=
  [B "CON", B "PRN", B "AUX", B "NUL",
   B "COM1", B "COM2", B "COM3", B "COM4", B "COM5", B "COM6", B "COM7", B "COM8", B "COM9",
   B "LPT1", B "LPT2", B "LPT3", B "LPT4", B "LPT5", B "LPT6", B "LPT7", B "LPT8", B "LPT9"]

def isDigit (c : UInt8) : Bool := 48 ≤ c && c ≤ 57

def toUpperAscii (c : UInt8) : UInt8 := if 97 ≤ c && c ≤ 122 then c - 32 else c

/-- strings.EqualFold(bad, short) for `bad` ∈ badWindowsNames.  Every reserved name consists of
    upper-case ASCII letters other than K and S, and digits (tie theorem
    `badWindowsNames_fold_simple`); the only non-ASCII runes whose simple-fold orbit meets ASCII are
    U+212A (K) and U+017F (S), so for these names EqualFold is ASCII-case-insensitive byte equality. -/
def equalFoldAscii (bad short : Bytes) : Bool := short.map toUpperAscii == bad

/-- `short := elem; if i := strings.Index(short, "."); i >= 0 { short = short[:i] }` -/
def shortOf (elem : Bytes) : Bytes := elem.takeWhile (· != 46)

/-- the part of `short` after its last '~' (`short[tilde+1:]`), or none when there is no '~'. -/
def afterLastTilde (short : Bytes) : Option Bytes :=
  if short.contains 126 then some (short.reverse.takeWhile (· != 126)).reverse else none

/-- the Windows short-name test at the end of checkElem: a '~' that is not last, followed only by digits. -/
def looksLikeShortName (short : Bytes) : Bool :=
  match afterLastTilde short with
  | none => false
  | some suffix => !suffix.isEmpty && suffix.all isDigit

/-- checkElem -/
def checkElem (isLetter : Nat → Bool) (kind : Kind) (elem : Bytes) : Except PathErr Unit :=
  if elem.isEmpty then .error .emptyElem
  else if elem.all (· == 46) then .error .allDots             -- strings.Count(elem, ".") == len(elem)
  else if elem.head? == some 46 && kind == .module then .error .leadingDot
  else if elem.getLast? == some 46 then .error .trailingDot
  else if !(Utf8.runes elem).all (charOK isLetter kind) then .error .invalidChar
  else
    let short := shortOf elem
    if badWindowsNames.any (equalFoldAscii · short) then .error .windows
    else if kind == .file then .ok ()
    else if looksLikeShortName short then .error .tildeDigits
    else .ok ()

/-- strings.Contains(path, "//") -/
def hasDoubleSlash : Bytes → Bool
  | 47 :: 47 :: _ => true
  | _ :: rest => hasDoubleSlash rest
  | [] => false

/-- the element loop of checkPath: first failing element decides. -/
def checkElems (isLetter : Nat → Bool) (kind : Kind) : List Bytes → Except PathErr Unit
  | [] => .ok ()
  | e :: es =>
    match checkElem isLetter kind e with
    | .error x => .error x
    | .ok () => checkElems isLetter kind es

/-- checkPath.  The `for i, r := range path { if r == '/' … }` loop cuts the path at every '/'
    rune; in a string that passed utf8.ValidString these are exactly the 0x2F bytes. -/
def checkPath (isLetter : Nat → Bool) (kind : Kind) (path : Bytes) : Except PathErr Unit :=
  if !Utf8.validString path then .error .invalidUtf8
  else if path.isEmpty then .error .emptyString
  else if path.head? == some 45 && kind != .file then .error .leadingDash
  else if hasDoubleSlash path then .error .doubleSlash
  else if path.getLast? == some 47 then .error .trailingSlash
  else checkElems isLetter kind (splitOn 47 path)

/-- splitGopkgIn: (prefix, pathMajor, ok) -/
def splitGopkgIn (path : Bytes) : Bytes × Bytes × Bool :=
  if !isPrefixOfB (B "gopkg.in/") path then (path, [], false) else
  let rev := path.reverse
  let uns := hasSuffixB path (B "-unstable")
  let rev1 := if uns then rev.drop 9 else rev           -- i -= len("-unstable")
  let digs := rev1.takeWhile isDigit                     -- path[i:end] scanned backwards
  if digs.isEmpty then (path, [], false) else            -- i == end: no major number
  match rev1.dropWhile isDigit with
  | 118 :: 46 :: pre =>                                  -- path[i-1] == 'v' && path[i-2] == '.'
    let num := digs.reverse
    let pathMajor := 46 :: 118 :: (num ++ (if uns then B "-unstable" else []))
    if pathMajor.length ≤ 2 || (pathMajor[2]? == some 48 && pathMajor != B ".v0") then (path, [], false)
    else (pre.reverse, pathMajor, true)
  | _ => (path, [], false)                               -- includes i <= 1

/-- SplitPathVersion: (prefix, pathMajor, ok) -/
def splitPathVersion (path : Bytes) : Bytes × Bytes × Bool :=
  if isPrefixOfB (B "gopkg.in/") path then splitGopkgIn path else
  let rev := path.reverse
  let tl := rev.takeWhile (fun c => isDigit c || c == 46)
  let dot := tl.contains 46
  if tl.isEmpty then (path, [], true) else              -- i == len(path)
  match rev.dropWhile (fun c => isDigit c || c == 46) with
  | 118 :: 47 :: pre =>                                  -- path[i-1] == 'v' && path[i-2] == '/'
    let pathMajor := 47 :: 118 :: tl.reverse
    if dot || pathMajor.length ≤ 2 || pathMajor[2]? == some 48 || pathMajor == B "/v1" then (path, [], false)
    else (pre.reverse, pathMajor, true)
  | _ => (path, [], true)                                -- includes i <= 1

/-- CheckPath (module paths) -/
def checkModPath (path : Bytes) : Except PathErr Unit :=
  match checkPath (fun _ => false) .module path with
  | .error e => .error e
  | .ok () =>
    let first := path.takeWhile (· != 47)                -- path[:i]
    if first.isEmpty then .error .leadingSlash
    else if !first.contains 46 then .error .missingDot
    else if path.head? == some 45 then .error .leadingDashFirst
    else if !(Utf8.runes first).all firstPathOK then .error .invalidCharFirst
    else if !(splitPathVersion path).2.2 then .error .invalidVersion
    else .ok ()

/-- CheckImportPath -/
def checkImportPath (path : Bytes) : Except PathErr Unit := checkPath (fun _ => false) .import_ path

/-- CheckFilePath -/
def checkFilePath (isLetter : Nat → Bool) (path : Bytes) : Except PathErr Unit := checkPath isLetter .file path

def trimSuffixB (s suf : Bytes) : Bytes :=
  if hasSuffixB s suf then s.take (s.length - suf.length) else s

/-- CheckPathMajor: true = nil error -/
def checkPathMajor (v pathMajor : Bytes) : Bool :=
  let pathMajor :=
    if isPrefixOfB (B ".v") pathMajor && hasSuffixB pathMajor (B "-unstable")
    then trimSuffixB pathMajor (B "-unstable") else pathMajor
  if isPrefixOfB (B "v0.0.0-") v && pathMajor == B ".v1" then true
  else
    let m := Semver.major v
    match pathMajor with
    | [] => m == B "v0" || m == B "v1" || Semver.build v == B "+incompatible"
    | c :: rest => if c == 47 || c == 46 then m == rest else false

/-- MatchPathMajor -/
def matchPathMajor (v pathMajor : Bytes) : Bool := checkPathMajor v pathMajor

/-- PathMajorPrefix: `none` = panic -/
def pathMajorPrefix (pathMajor : Bytes) : Option Bytes :=
  match pathMajor with
  | [] => some []
  | c :: _ =>
    if c != 47 && c != 46 then none else
    let pathMajor :=
      if isPrefixOfB (B ".v") pathMajor && hasSuffixB pathMajor (B "-unstable")
      then trimSuffixB pathMajor (B "-unstable") else pathMajor
    let m := pathMajor.drop 1
    if m != Semver.major m then none else some m

inductive CheckErr where
  | path (e : PathErr)     -- CheckPath failed
  | notSemver              -- "not a semantic version"
  | major                  -- CheckPathMajor failed
  deriving Repr, DecidableEq

/-- Check -/
def check (path version : Bytes) : Except CheckErr Unit :=
  match checkModPath path with
  | .error e => .error (.path e)
  | .ok () =>
    if !Semver.isValid version then .error .notSemver
    else if !checkPathMajor version (splitPathVersion path).2.1 then .error .major
    else .ok ()

/-! ### escaping -/

inductive EscErr where
  | path (e : PathErr)     -- EscapePath: CheckPath failed
  | disallowed             -- EscapeVersion: "disallowed version string"
  | internal               -- escapeString: "internal error: inconsistency in EscapePath"
  deriving Repr, DecidableEq

/-- the second loop of escapeString -/
def escapeRunes : List Nat → Bytes
  | [] => []
  | r :: rs =>
    if 65 ≤ r && r ≤ 90 then 33 :: UInt8.ofNat (r + 32) :: escapeRunes rs
    else UInt8.ofNat r :: escapeRunes rs

/-- escapeString: `none` = the internal-error return -/
def escapeString (s : Bytes) : Option Bytes :=
  let rs := Utf8.runes s
  if rs.any (fun r => r == 33 || r ≥ 128) then none
  else if !rs.any (fun r => 65 ≤ r && r ≤ 90) then some s      -- !haveUpper
  else some (escapeRunes rs)

/-- EscapePath -/
def escapePath (path : Bytes) : Except EscErr Bytes :=
  match checkModPath path with
  | .error e => .error (.path e)
  | .ok () =>
    match escapeString path with
    | none => .error .internal
    | some e => .ok e

/-- EscapeVersion -/
def escapeVersion (isLetter : Nat → Bool) (v : Bytes) : Except EscErr Bytes :=
  let elemOK := match checkElem isLetter .file v with
    | .ok () => true
    | .error _ => false
  if !elemOK || v.contains 33 then .error .disallowed
  else match escapeString v with
    | none => .error .internal
    | some e => .ok e

/-- the loop of unescapeString over the runes, `bang` as in the code; `none` = ok false -/
def unescapeRunes : Bool → List Nat → Option Bytes
  | bang, [] => if bang then none else some []
  | bang, r :: rs =>
    if r ≥ 128 then none
    else if bang then
      if r < 97 || 122 < r then none
      else (unescapeRunes false rs).map (UInt8.ofNat (r - 32) :: ·)
    else if r == 33 then unescapeRunes true rs
    else if 65 ≤ r && r ≤ 90 then none
    else (unescapeRunes false rs).map (UInt8.ofNat r :: ·)

/-- unescapeString -/
def unescapeString (escaped : Bytes) : Option Bytes := unescapeRunes false (Utf8.runes escaped)

inductive UnescErr where
  | escaped                -- unescapeString returned !ok
  | invalid (e : PathErr)  -- the unescaped string fails CheckPath / checkElem
  deriving Repr, DecidableEq

/-- UnescapePath -/
def unescapePath (escaped : Bytes) : Except UnescErr Bytes :=
  match unescapeString escaped with
  | none => .error .escaped
  | some path =>
    match checkModPath path with
    | .error e => .error (.invalid e)
    | .ok () => .ok path

/-- UnescapeVersion -/
def unescapeVersion (isLetter : Nat → Bool) (escaped : Bytes) : Except UnescErr Bytes :=
  match unescapeString escaped with
  | none => .error .escaped
  | some v =>
    match checkElem isLetter .file v with
    | .error e => .error (.invalid e)
    | .ok () => .ok v

/-! ### MatchPrefixPatterns -/

/-- the inner `for i := 0; i < len(target); i++` walk: the part of `target` before its (n+1)-th
    slash, the whole target when it has exactly n slashes, `none` when it has fewer (`n > 0` after the loop). -/
def cutPrefix : Nat → Bytes → Option Bytes
  | n, [] => if n == 0 then some [] else none
  | n, c :: rest =>
    if c == 47 then
      match n with
      | 0 => some []
      | k + 1 => (cutPrefix k rest).map (c :: ·)
    else (cutPrefix n rest).map (c :: ·)

/-- one iteration of the outer loop on the comma-separated item `g` -/
def matchOne (glob : Bytes → Bytes → Bool) (g target : Bytes) : Bool :=
  let g := trimSuffixB g [47]
  if g.isEmpty then false
  else match cutPrefix (g.count 47) target with
    | none => false
    | some pre => glob g pre

/-- MatchPrefixPatterns -/
def matchPrefixPatterns (glob : Bytes → Bytes → Bool) (globs target : Bytes) : Bool :=
  (splitOn 44 globs).any (fun g => matchOne glob g target)

end ModVerif.Module
