/-
  Model of /repo/sumdb/tlog/tile.go as of the `fix:` commits 939e2a3 (`nstx`: the parent-authentication
  loop starts at the number of tree-hash tiles) and da3c0ec (empty tree: return before fetching).

  * Tile data is a list of hashes (`List H`); the byte layer `len(data) == W*HashSize` is the list length.
  * `Tile.L = -1` (data tiles) is the flag `data := true` (then `l = 0`); every other field is a `Nat`
    (negative `H`, `N`, `W` are not representable — the harness never sends them).
  * Go's "no such tile" value `Tile{}` is `Tile.zero`, exactly as in the code (it is used as a map key there).
  * The `tileOrder` map is an association list with the latest binding first (`List.lookup` = map read).
  * `readHashes` is split into `plan` / `authenticate` / `extract`; the environment is
    `serve : Tile → Option (List H)` (`none` = ReadTiles fails); the result records what was passed to
    `SaveTiles` (`saved = none`: SaveTiles was not called).
-/
import ModVerif.Basic.Bytes
import ModVerif.Basic.Decimal
import ModVerif.Model.Tlog
namespace ModVerif.Tile
open ModVerif ModVerif.Tlog

structure Tile where
  h : Nat
  l : Nat
  n : Nat
  w : Nat
  data : Bool := false
  deriving DecidableEq, Repr

/-- Go's `Tile{}` -/
def Tile.zero : Tile := { h := 0, l := 0, n := 0, w := 0 }

section
variable {H : Type}

/-- `tileForIndex(h, index) = (t, start, end)`; `start`/`end` count hashes (the code multiplies by HashSize).
    `h = 0`: integer division by zero in the code (TileForIndex panics explicitly for `h ≤ 0`). -/
def tileForIndex (h index : Nat) : Except Err (Tile × Nat × Nat) :=
  if h == 0 then .error .panic else do
    let (level, n) ← splitStoredHashIndex index
    let L := level / h
    let level := level - L * h                       -- now level within tile
    let N := (n <<< level) >>> h
    let n := n - ((N <<< h) >>> level)               -- now n within tile at level
    let W := (n + 1) <<< level
    pure ({ h := h, l := L, n := N, w := W }, n <<< level, (n + 1) <<< level)

/-- `TileForIndex` -/
def tileForIndexPub (h index : Nat) : Except Err Tile := (tileForIndex h index).map (·.1)

/-- `tileHash(data)`.  Only ever applied to `2^k` hashes (see `hashFromTile`, `authenticate`);
    on other lengths the byte-level code splits inside a hash and panics or returns garbage — the list
    model is not meaningful there. Fuel = length. -/
def tileHashF (node : H → H → H) : Nat → List H → Except Err H
  | 0, _ => .error .panic
  | f + 1, d =>
    match d with
    | [] => .error .panic
    | [x] => .ok x
    | _ => do
      let n := d.length / 2
      let a ← tileHashF node f (d.take n)
      let b ← tileHashF node f (d.drop n)
      pure (node a b)

def tileHash (node : H → H → H) (d : List H) : Except Err H := tileHashF node d.length d

/-- `HashFromTile(t, data, index)` -/
def hashFromTile (node : H → H → H) (t : Tile) (data : List H) (index : Nat) : Except Err H :=
  if t.h < 1 || t.h > 30 || t.data || t.l ≥ 64 || t.w < 1 || t.w > 2 ^ t.h then .error .badTile
  else if data.length < t.w then .error .badTile
  else do
    let (t1, start, end_) ← tileForIndex t.h index
    if t.l != t1.l || t.n != t1.n || t.w < t1.w then .error .badTile
    else tileHash node ((data.take end_).drop start)

/-- the loop body of NewTiles for one level -/
def newTilesLevel (h level old new : Nat) : List Tile :=
  let oldN := old >>> (h * level)
  let newN := new >>> (h * level)
  if oldN == newN then [] else
    let full := (List.range ((newN >>> h) - (oldN >>> h))).map fun i =>
      ({ h := h, l := level, n := (oldN >>> h) + i, w := 2 ^ h } : Tile)
    let n := newN >>> h
    let w := newN - (n <<< h)
    if w > 0 then full ++ [{ h := h, l := level, n := n, w := w }] else full

/-- `for level := uint(0); newTreeSize>>(H*level) > 0; level++` -/
def newTilesF (h old new : Nat) : Nat → Nat → Except Err (List Tile)
  | 0, level => if new >>> (h * level) > 0 then .error .fuel else .ok []
  | f + 1, level =>
    if new >>> (h * level) > 0 then do
      let rest ← newTilesF h old new f (level + 1)
      pure (newTilesLevel h level old new ++ rest)
    else .ok []

/-- `NewTiles(h, oldTreeSize, newTreeSize)`; `h = 0` panics in the code. -/
def newTiles (h old new : Nat) : Except Err (List Tile) :=
  if h == 0 then .error .panic else newTilesF h old new (new.log2 + 2) 0

/-- `ReadTileData(t, r)` (as a list of hashes) -/
def readTileData (t : Tile) (r : HashReader H) : Except Err (List H) :=
  let size := if t.w == 0 then 2 ^ t.h else t.w
  let start := t.n <<< t.h
  let indexes := (List.range size).map fun i => storedHashIndex (t.h * t.l) (start + i)
  readChecked r indexes

/-! ### paths -/

def pathBase : Nat := 1000

/-- `for n >= pathBase { n /= pathBase; nStr = fmt.Sprintf("x%03d/%s", n%pathBase, nStr) }` -/
def pathN : Nat → Nat → Bytes → Bytes
  | 0, _, acc => acc
  | f + 1, n, acc =>
    if n ≥ pathBase then
      let n := n / pathBase
      pathN f n ([120] ++ Decimal.pad3 (n % pathBase) ++ [47] ++ acc)
    else acc

/-- `Tile.Path` -/
def tilePath (t : Tile) : Bytes :=
  let nStr := pathN t.n t.n (Decimal.pad3 (t.n % pathBase))
  let pStr := if t.w != 2 ^ t.h then B ".p/" ++ Decimal.formatNat t.w else []
  let L := if t.data then B "data" else Decimal.formatNat t.l
  B "tile/" ++ Decimal.formatNat t.h ++ [47] ++ L ++ [47] ++ nStr ++ pStr

/-- `strings.TrimPrefix(s, "x")` -/
def trimX : Bytes → Bytes
  | 120 :: rest => rest
  | s => s

/-- the `for _, s := range f` loop of ParseTilePath -/
def parseN : List Bytes → Nat → Option Nat
  | [], n => some n
  | s :: rest, n =>
    match Decimal.parseInt64 (trimX s) with
    | none => none
    | some nn => if nn < 0 || nn ≥ 1000 then none else parseN rest (n * pathBase + nn.toNat)

/-- `ParseTilePath`; `none` = badPathError.
    int64: the code computes `n = n*pathBase + nn` with wrap-around and then rejects the path because
    `t.Path()` of the wrapped value differs from the input; here `n` is unbounded and a value that does not
    fit int64 is rejected directly. -/
def parseTilePath (path : Bytes) : Option Tile :=
  let f := splitOn 47 path
  if f.length < 4 || f[0]? != some (B "tile") then none else
  let h? := (f[1]?).bind Decimal.parseInt64
  let isData := f[2]? == some (B "data")
  let f := if isData then f.set 2 (B "0") else f
  let l? := (f[2]?).bind Decimal.parseInt64
  match h?, l? with
  | some h, some l =>
    if h < 1 || l < 0 || h > 30 then none else
    let w : Int := 2 ^ h.toNat
    let dotP := (f[f.length - 2]?).getD []
    let wf? : Option (Int × List Bytes) :=
      if hasSuffixB dotP (B ".p") then
        match (f[f.length - 1]?).bind Decimal.parseInt64 with
        | none => none
        | some ww =>
          if ww ≤ 0 || ww ≥ w then none
          else some (ww, (f.set (f.length - 2) (dotP.take (dotP.length - 2))).take (f.length - 1))
      else some (w, f)
    match wf? with
    | none => none
    | some (w, f) =>
      match parseN (f.drop 3) 0 with
      | none => none
      | some n =>
        if n ≥ 2 ^ 63 then none else
        let t : Tile := { h := h.toNat, l := if isData then 0 else l.toNat, n := n, w := w.toNat, data := isData }
        if path != tilePath t then none else some t
  | _, _ => none

/-! ### tileHashReader.ReadHashes -/

/-- `tileParent(t, k, n)`; `Tile.zero` = no such parent -/
def tileParent (t : Tile) (k n : Nat) : Tile :=
  let l := t.l + k
  let tn := t.n >>> (k * t.h)
  let w := 2 ^ t.h
  let max := n >>> (l * t.h)
  if (tn <<< t.h) + w ≥ max then
    if (tn <<< t.h) ≥ max then Tile.zero
    else { t with l := l, n := tn, w := max - (tn <<< t.h) }
  else { t with l := l, n := tn, w := w }

structure Plan where
  tiles : List Tile
  order : List (Tile × Nat)       -- the tileOrder map, latest binding first
  stx : List Nat
  stxTileOrder : List Nat
  nstx : Nat
  indexTileOrder : List Nat
  deriving Repr

/-- first planning loop: tiles needed to recompute the tree hash (de-duplicated through the map) -/
def planStx (h N : Nat) : List Nat → List Tile × List (Tile × Nat) × List Nat →
    Except Err (List Tile × List (Tile × Nat) × List Nat)
  | [], acc => .ok acc
  | x :: xs, (tiles, order, sto) => do
    let (tile, _, _) ← tileForIndex h x
    let tile := tileParent tile 0 N
    match order.lookup tile with
    | some j => planStx h N xs (tiles, order, sto ++ [j])
    | none => planStx h N xs (tiles ++ [tile], (tile, tiles.length) :: order, sto ++ [tiles.length])

/-- `for ; ; k++ { p := tileParent(tile, k, N); if j, ok := tileOrder[p]; ok {…break} }`: returns `(k, j)`.
    The Go loop has no bound; fuel exhaustion = the loop would not terminate. -/
def walkUp (N : Nat) (order : List (Tile × Nat)) (tile : Tile) : Nat → Nat → Except Err (Nat × Nat)
  | 0, _ => .error .fuel
  | f + 1, k =>
    match order.lookup (tileParent tile k N) with
    | some j => .ok (k, j)
    | none => walkUp N order tile f (k + 1)

/-- `for k--; k >= 0; k-- {…}`: called with the `k` found by `walkUp`, handles parents `k-1 … 0`.
    State: tiles, order, the index-tile position if it has been set. -/
def walkDown (N : Nat) (tile : Tile) : Nat → List Tile × List (Tile × Nat) × Option Nat →
    Except Err (List Tile × List (Tile × Nat) × Option Nat)
  | 0, st => .ok st
  | k + 1, (tiles, order, ito) =>
    let p := tileParent tile k N
    if p.w != 2 ^ p.h then .error .badMath     -- "bad math in tileHashReader: … must be full"
    else walkDown N tile k (tiles ++ [p], (p, tiles.length) :: order, if k == 0 then some tiles.length else ito)

/-- second planning loop, one requested index -/
def planIndex (h N : Nat) (st : List Tile × List (Tile × Nat) × List Nat) (x : Nat) :
    Except Err (List Tile × List (Tile × Nat) × List Nat) := do
  let (tiles, order, ito) := st
  if x ≥ storedHashIndex 0 N then .error .indexRange
  else do
    let (tile, _, _) ← tileForIndex h x
    let (k, j) ← walkUp N order tile (N.log2 + 2) 0
    let (tiles, order, pos) ← walkDown N tile k (tiles, order, if k == 0 then some j else none)
    match pos with
    | some p => pure (tiles, order, ito ++ [p])
    | none => .error .panic                    -- unreachable: k = 0 sets it above, k > 0 in walkDown

def planIndexes (h N : Nat) : List Nat → List Tile × List (Tile × Nat) × List Nat →
    Except Err (List Tile × List (Tile × Nat) × List Nat)
  | [], st => .ok st
  | x :: xs, st => do
    let st' ← planIndex h N st x
    planIndexes h N xs st'

/-- the planning part of ReadHashes -/
def plan (h N : Nat) (indexes : List Nat) : Except Err Plan := do
  let stx ← subTreeIndex 0 N
  let (tiles, order, sto) ← planStx h N stx ([], [], [])
  let nstx := tiles.length
  let (tiles, order, ito) ← planIndexes h N indexes (tiles, order, [])
  pure { tiles := tiles, order := order, stx := stx, stxTileOrder := sto, nstx := nstx, indexTileOrder := ito }

/-- `HashFromTile(tiles[j], data[j], x)`; a bad `j` is a Go index-out-of-range panic -/
def hashAt (node : H → H → H) (tiles : List Tile) (data : List (List H)) (j x : Nat) : Except Err H :=
  match tiles[j]?, data[j]? with
  | some t, some d => hashFromTile node t d x
  | _, _ => .error .panic

/-- `th = HashFromTile(last); for i := len(stx)-2; i >= 0; i-- { h = HashFromTile(i); th = NodeHash(h, th) }`
    over the (index, tile position) pairs reversed. -/
def stxFold (node : H → H → H) (tiles : List Tile) (data : List (List H)) : List (Nat × Nat) → H → Except Err H
  | [], th => .ok th
  | (x, j) :: rest, th => do
    let h ← hashAt node tiles data j x
    stxFold node tiles data rest (node h th)

/-- "Authenticate full tiles against their parents": tiles `i = nstx + d`, `d < fuel` -/
def authChildren [DecidableEq H] (node : H → H → H) (N : Nat) (p : Plan) (data : List (List H)) : Nat → Nat → Except Err Unit
  | 0, _ => .ok ()
  | f + 1, i =>
    match p.tiles[i]?, data[i]? with
    | some tile, some di =>
      let par := tileParent tile 1 N
      match p.order.lookup par with
      | none => .error .badMath                                   -- "lost parent of"
      | some j =>
        match data[j]? with
        | none => .error .panic
        | some dj =>
          match hashFromTile node par dj (storedHashIndex (par.l * par.h) tile.n) with
          | .error .panic => .error .panic
          | .error .fuel => .error .fuel
          | .error _ => .error .badMath                           -- "lost hash of"
          | .ok h => do
            let th ← tileHash node di
            if h != th then .error .inconsistent
            else authChildren node N p data f (i + 1)
    | _, _ => .error .panic

/-- the authentication part of ReadHashes -/
def authenticate [DecidableEq H] (node : H → H → H) (N : Nat) (treeHash : H) (p : Plan) (data : List (List H)) :
    Except Err Unit := do
  match (p.stx.zip p.stxTileOrder).reverse with
  | [] => .error .panic                        -- stx[len(stx)-1] with len(stx) = 0 (N = 0)
  | (x, j) :: rest =>
    let th ← hashAt node p.tiles data j x
    let th ← stxFold node p.tiles data rest th
    if th != treeHash then .error .inconsistent
    else authChildren node N p data (p.tiles.length - p.nstx) p.nstx

/-- "Pull out the requested hashes." -/
def extract (node : H → H → H) (p : Plan) (data : List (List H)) : List (Nat × Nat) → Except Err (List H)
  | [] => .ok []
  | (x, j) :: rest =>
    match hashAt node p.tiles data j x with
    | .error .panic => .error .panic
    | .error .fuel => .error .fuel
    | .error _ => .error .badMath                                 -- "lost hash"
    | .ok h => do
      let hs ← extract node p data rest
      pure (h :: hs)

structure ReadOut (H : Type) where
  saved : Option (List (Tile × List H))      -- arguments of SaveTiles, `none` if it was not called
  result : Except Err (List H)

/-- the `len(data[i]) != tile.W*HashSize` check -/
def widthsOk : List Tile → List (List H) → Bool
  | [], [] => true
  | t :: ts, d :: ds => d.length == t.w && widthsOk ts ds
  | _, _ => false

/-- `tileHashReader.ReadHashes(indexes)` for tree `(N, treeHash)`, tile height `h`, environment `serve`. -/
def readHashes [DecidableEq H] (node : H → H → H) (N : Nat) (treeHash : H) (h : Nat) (indexes : List Nat)
    (serve : Tile → Option (List H)) : ReadOut H :=
  match plan h N indexes with
  | .error e => { saved := none, result := .error e }
  | .ok p =>
    -- `if len(stx) == 0 { return make([]Hash, len(indexes)), nil }` (fix da3c0ec): the tree is empty, so every
    -- index was rejected by `plan` and `indexes = []` here (`Proofs/TlogBasic.plan_stx_nil`): the result is `[]`.
    if p.stx.isEmpty then { saved := none, result := .ok [] } else
    match p.tiles.mapM serve with
    | none => { saved := none, result := .error .reader }
    | some data =>
      if !widthsOk p.tiles data then { saved := none, result := .error .badTile } else
      match authenticate node N treeHash p data with
      | .error e => { saved := none, result := .error e }
      | .ok () =>
        { saved := some (p.tiles.zip data)
          result := extract node p data (indexes.zip p.indexTileOrder) }

/-- the honest environment over the true store -/
def trueTile (store : List H) (t : Tile) : Option (List H) :=
  match readTileData t (storeReader store) with
  | .ok d => some d
  | .error _ => none

end
end ModVerif.Tile
