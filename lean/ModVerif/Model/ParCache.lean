import Std.Data.HashSet
/-
  ParCache — `parCache.Do` of sumdb/cache.go as a small-step machine.

      func (c *parCache) Do(key, f) interface{} {
          entryIface, ok := c.m.Load(key)                                  -- pc load
          if !ok { entryIface, _ = c.m.LoadOrStore(key, new(cacheEntry)) }  -- pc loadOrStore
          e := entryIface.(*cacheEntry)
          if atomic.LoadUint32(&e.done) == 0 {                             -- pc loadDone1
              e.mu.Lock()                                                  -- pc lock
              if atomic.LoadUint32(&e.done) == 0 {                         -- pc loadDone2
                  e.result = f()                                           -- pc runF
                  atomic.StoreUint32(&e.done, 1)                           -- pc storeDone
              }
              e.mu.Unlock()                                                -- pc unlock
          }
          return e.result                                                  -- pc ret
      }

  Any number of callers (indexed by `Nat`) and keys (`Nat`).  Each caller performs ONE call of `Do` with the
  key `key i`; `fval i` is the value `f` returns if it is caller `i` that runs it (different callers may pass
  closures that would return different values — the theorem says only one of them ever runs).
  `sync.Map`, `sync.Mutex` and `atomic` are taken as linearizable: each of their operations is one atomic step.
  An entry is never removed or replaced, so "the entry `e` a caller holds" is "the entry of its key".

  Ghost state (not in the Go code): `runs k` counts the executions of `f` for key `k`, `ran k` is the value
  produced by the first of them, `got i` is the value `Do` returned to caller `i`.
  Core Lean only.
-/
namespace ModVerif.ParCache

inductive PC
  | idle | load | loadOrStore | loadDone1 | lock | loadDone2 | runF | storeDone | unlock | ret | returned
  deriving DecidableEq, Repr, Inhabited

structure Entry (V : Type) where
  present : Bool := false   -- stored in the sync.Map
  done    : Bool := false   -- e.done
  locked  : Bool := false   -- e.mu held
  result  : Option V := none
  deriving DecidableEq, Repr

structure St (V : Type) where
  pc    : Nat → PC
  entry : Nat → Entry V
  got   : Nat → Option V
  runs  : Nat → Nat
  ran   : Nat → Option V

def upd {α : Type} (f : Nat → α) (i : Nat) (v : α) : Nat → α := fun j => if j = i then v else f j

@[simp] theorem upd_same {α} (f : Nat → α) (i : Nat) (v : α) : upd f i v i = v := by simp [upd]
@[simp] theorem upd_other {α} (f : Nat → α) (i j : Nat) (v : α) (h : j ≠ i) : upd f i v j = f j := by simp [upd, h]

def init (V : Type) : St V :=
  { pc := fun _ => .idle, entry := fun _ => {}, got := fun _ => none, runs := fun _ => 0, ran := fun _ => none }

variable {V : Type}

/-- The one action caller `i` can take in state `s` (its program counter determines it); `none` = not enabled
(blocked on the entry's mutex, or finished). -/
def step (key : Nat → Nat) (fval : Nat → V) (s : St V) (i : Nat) : Option (St V) :=
  let k := key i
  let e := s.entry k
  match s.pc i with
  | .idle => some { s with pc := upd s.pc i .load }                                   -- Do is called
  | .load => some { s with pc := upd s.pc i (if e.present then .loadDone1 else .loadOrStore) }
  | .loadOrStore =>
      if e.present then some { s with pc := upd s.pc i .loadDone1 }
      else some { s with pc := upd s.pc i .loadDone1,
                         entry := upd s.entry k { present := true, done := false, locked := false, result := none } }
  | .loadDone1 => some { s with pc := upd s.pc i (if e.done then .ret else .lock) }
  | .lock => if e.locked then none
             else some { s with pc := upd s.pc i .loadDone2, entry := upd s.entry k { e with locked := true } }
  | .loadDone2 => some { s with pc := upd s.pc i (if e.done then .unlock else .runF) }
  | .runF => some { s with pc := upd s.pc i .storeDone,
                           entry := upd s.entry k { e with result := some (fval i) },
                           runs := upd s.runs k (s.runs k + 1),
                           ran := upd s.ran k (match s.ran k with | none => some (fval i) | some v => some v) }
  | .storeDone => some { s with pc := upd s.pc i .unlock, entry := upd s.entry k { e with done := true } }
  | .unlock => some { s with pc := upd s.pc i .ret, entry := upd s.entry k { e with locked := false } }
  | .ret => some { s with pc := upd s.pc i .returned, got := upd s.got i e.result }
  | .returned => none

/-- States reachable from the initial state by any interleaving of any callers' steps. -/
inductive Reachable (key : Nat → Nat) (fval : Nat → V) : St V → Prop
  | init : Reachable key fval (init V)
  | step {s s' : St V} (i : Nat) : Reachable key fval s → step key fval s i = some s' → Reachable key fval s'

/-- run a schedule (list of caller indices); `none` if some step is not enabled -/
def run (key : Nat → Nat) (fval : Nat → V) : St V → List Nat → Option (St V)
  | s, [] => some s
  | s, i :: rest => match step key fval s i with
    | none => none
    | some s' => run key fval s' rest

theorem run_reachable (key : Nat → Nat) (fval : Nat → V) :
    ∀ (sched : List Nat) (s s' : St V), Reachable key fval s → run key fval s sched = some s' → Reachable key fval s' := by
  intro sched
  induction sched with
  | nil => intro s s' h hr; simp [run] at hr; subst hr; exact h
  | cons i rest ih =>
    intro s s' h hr
    simp only [run] at hr
    cases hs : step key fval s i with
    | none => simp [hs] at hr
    | some s1 => simp [hs] at hr; exact ih s1 s' (Reachable.step i h hs) hr

/-! ## Trace validation (used by the driver)

The Go side observes, per key: `call i` (the goroutine entered the lookup that calls `Do`), `frun i` (the first
external operation inside `f`, attributed to goroutine `i`) and `ret i` (the lookup returned).  Everything else
is internal.  `accepts` decides whether a sequence of visible events is the projection of a run of the machine,
by exploring the internal steps (breadth-first over snapshots of the finitely many callers and keys named in
the trace).  On every explored state the proved invariant (`runs ≤ 1`, returned values equal the run's value)
is re-checked. -/

inductive Vis
  | call (i : Nat) | frun (i : Nat) | ret (i : Nat)
  deriving DecidableEq, Repr

/-- the visible event (if any) emitted by caller `i`'s step out of program counter `pc` -/
def visOf (pc : PC) (i : Nat) : Option Vis :=
  match pc with
  | .idle => some (.call i)
  | .runF => some (.frun i)
  | .ret => some (.ret i)
  | _ => none

def encPC : PC → Nat
  | .idle => 0 | .load => 1 | .loadOrStore => 2 | .loadDone1 => 3 | .lock => 4 | .loadDone2 => 5
  | .runF => 6 | .storeDone => 7 | .unlock => 8 | .ret => 9 | .returned => 10

abbrev Snap := List Nat

def snap (callers keys : List Nat) (s : St Nat) : Snap :=
  callers.map (fun i => encPC (s.pc i)) ++
  keys.flatMap (fun k => [(s.entry k).present.toNat, (s.entry k).done.toNat, (s.entry k).locked.toNat, s.runs k])

def invOK (callers keys : List Nat) (key : Nat → Nat) (s : St Nat) : Bool :=
  keys.all (fun k => s.runs k ≤ 1) &&
  callers.all (fun i => s.pc i != .returned || (s.got i == s.ran (key i) && (s.ran (key i)).isSome && s.runs (key i) == 1))

def insertNew (callers keys : List Nat) (acc : List (Snap × St Nat)) (s : St Nat) : List (Snap × St Nat) × Bool :=
  let sn := snap callers keys s
  if acc.any (fun p => p.1 == sn) then (acc, false) else (acc ++ [(sn, s)], true)

/-- successors by one internal (invisible) step -/
def tauSucc (callers : List Nat) (key : Nat → Nat) (fval : Nat → Nat) (s : St Nat) : List (St Nat) :=
  callers.filterMap (fun i => match visOf (s.pc i) i with
    | some _ => none
    | none => step key fval s i)

/-- closure under internal steps: worklist with a hash set of snapshots; `fuel` bounds the number of expansions -/
def closureLoop (callers keys : List Nat) (key : Nat → Nat) (fval : Nat → Nat) :
    Nat → Std.HashSet Snap → List (St Nat) → List (St Nat) → List (St Nat)
  | 0, _, acc, _ => acc
  | _, _, acc, [] => acc
  | fuel + 1, seen, acc, s :: work =>
    let (seen', fresh) := (tauSucc callers key fval s).foldl (fun (st : Std.HashSet Snap × List (St Nat)) s' =>
      let sn := snap callers keys s'
      if st.1.contains sn then st else (st.1.insert sn, s' :: st.2)) (seen, [])
    closureLoop callers keys key fval fuel seen' (fresh ++ acc) (fresh ++ work)

def tauClosure (callers keys : List Nat) (key : Nat → Nat) (fval : Nat → Nat) (pool : List (Snap × St Nat)) :
    List (Snap × St Nat) :=
  let seen : Std.HashSet Snap := pool.foldl (fun h p => h.insert p.1) {}
  let sts := pool.map (·.2)
  (closureLoop callers keys key fval 200000 seen sts sts).map (fun s => (snap callers keys s, s))

def visStep (callers keys : List Nat) (key : Nat → Nat) (fval : Nat → Nat) (states : List (Snap × St Nat)) (v : Vis) :
    List (Snap × St Nat) :=
  let i := match v with | .call i => i | .frun i => i | .ret i => i
  states.foldl (fun acc p =>
    if visOf (p.2.pc i) i == some v then
      match step key fval p.2 i with
      | none => acc
      | some s' => (insertNew callers keys acc s').1
    else acc) []

/-- `accepts` returns `none` if the visible trace is a trace of the machine on which the invariant holds throughout,
and `some n` (the index of the first event that cannot be matched, or at which the invariant fails) otherwise. -/
def acceptsFrom (callers keys : List Nat) (key : Nat → Nat) (fval : Nat → Nat) :
    List (Snap × St Nat) → List Vis → Nat → Option Nat
  | _, [], _ => none
  | states, v :: rest, n =>
    let cl := tauClosure callers keys key fval states
    let next := visStep callers keys key fval cl v
    if next.isEmpty then some n
    else if !(next.all (fun p => invOK callers keys key p.2)) then some n
    else acceptsFrom callers keys key fval next rest (n + 1)

def accepts (callers keys : List Nat) (key : Nat → Nat) (trace : List Vis) : Option Nat :=
  let s0 := init Nat
  acceptsFrom callers keys key (fun i => i + 1) [(snap callers keys s0, s0)] trace 0

end ModVerif.ParCache
