/-
  Model of /repo/sumdb/client.go (as of the `fix:` commits listed by `git -C /repo log`): the SEQUENTIAL client.

  One `def` per Go function, same branch order.  What is abstracted:

  * The external world (`ClientOps`) is an environment `Env σ`: a state machine with an arbitrary state type `σ` whose
    operations are arbitrary functions (`readRemote`, `readCache`, `readConfig` answer whatever they like and may
    change the state; `writeCache`, `writeConfig`, `securityError` are told the arguments and may change the state;
    `writeConfig` additionally chooses its result: nil / ErrWriteConflict / any other error).  An environment can
    therefore depend on the whole history of the run.  The theorems quantify over `σ`, the environment and its state.
  * Every external operation is appended to the effect trace (`World.tr`, oldest first).
  * Hashes are abstract (`Params.leaf`, `node`, `empty` = SHA-256 of the empty string); a tile file is decoded
    into hashes in chunks of `hashSize` bytes (`HashSize = 32` in the code) by `dec`; `enc` is `Hash.String`'s input
    (only used for the text of the SecurityError message).
  * Concurrency: `ReadTiles` starts one goroutine per tile and waits for all of them; here the tiles are read one
    after the other in list order (all of them, also after a failure — as the code waits for every goroutine) and the
    first error in list order is returned, as in the code.  `parCache.Do` is a lookup in an association list
    (errors are cached too, as in the code).  `mergeLatestMem`'s retry loop never goes around in a sequential run
    (`c.latest == latest` holds: nothing else changes it); the interleaved protocol is Model/ClientLatest.lean.
  * `mergeLatest`'s `for` loop is unbounded (a hostile `WriteConfig` can answer ErrWriteConflict forever): fuel
    `Params.retries`, `Err.fuel` = the Go loop would still be running.
  * `1 << uint(tile.H)` is `2 ^ tile.h` (tile heights ≥ 64 are not representable in the code).
  Core Lean only.
-/
import ModVerif.Basic.Bytes
import ModVerif.Basic.GoStrings
import ModVerif.Model.Tlog
import ModVerif.Model.TlogNote
import ModVerif.Model.Tile
import ModVerif.Model.Note
import ModVerif.Model.Module
namespace ModVerif.Client
open ModVerif ModVerif.Tlog ModVerif.Tile

/-- canonical error kinds of a `Client.Lookup` -/
inductive Err where
  | gonosumdb                  -- ErrGONOSUMDB
  | security                   -- ErrSecurity (after SecurityError has been called)
  | config                     -- ReadConfig failed / WriteConfig failed with something else than ErrWriteConflict
  | key (e : Note.KeyErr)      -- note.NewVerifier failed
  | escape                     -- module.EscapePath / EscapeVersion failed
  | remote                     -- ReadRemote failed
  | recordSyntax               -- tlog.ParseRecord failed
  | recordId                   -- "cannot validate record %d in tree of size %d"
  | recordHash                 -- "cannot authenticate record data in server response"
  | note                       -- "reading tree note" (note.Open) / "reading tree" (tlog.ParseTree)
  | tileLen                    -- "TileReader returned bad result slice"
  | tlog (e : Tlog.Err)        -- an error (or panic) of the tlog layer
  | panic                      -- a Go panic site of client.go
  | fuel                       -- model only: the ErrWriteConflict loop did not end within `retries` rounds
  deriving DecidableEq, Repr

/-- `tlog.Tree` with the hash as an abstract value; sizes are never negative (`ParseTree` rejects them) -/
structure Head (H : Type) where
  n : Nat
  hash : H
  deriving DecidableEq, Repr

inductive WriteRes | ok | conflict | error
  deriving DecidableEq, Repr

inductive ReadKind | remote | cache | config
  deriving DecidableEq, Repr

/-- the external operations performed, in order -/
inductive Effect where
  | writeCache (file data : Bytes)
  | writeConfig (file old new : Bytes) (res : WriteRes)
  | securityError (msg : Bytes)
  | read (kind : ReadKind) (file : Bytes) (ok : Bool)        -- log of the read operations (result: nil error or not)
  deriving DecidableEq, Repr

/-- `ClientOps` as an arbitrary state machine -/
structure Env (σ : Type) where
  readRemote : σ → Bytes → Option Bytes × σ
  readCache : σ → Bytes → Option Bytes × σ
  readConfig : σ → Bytes → Option Bytes × σ
  writeCache : σ → Bytes → Bytes → σ
  writeConfig : σ → Bytes → Bytes → Bytes → WriteRes × σ
  securityError : σ → Bytes → σ

structure Params (H : Type) where
  leaf : Bytes → H                    -- tlog.RecordHash
  node : H → H → H                    -- tlog.NodeHash
  empty : H                           -- tlog.TreeHash(0, nil)
  hashSize : Nat                      -- tlog.HashSize
  dec : Bytes → H                     -- a `hashSize`-byte chunk of a tile / the decoded hash of a tree head, as a hash
  enc : H → Bytes                     -- the bytes of a hash
  height : Nat                        -- SetTileHeight (0 = not called)
  nosumdb : Bytes                     -- SetGONOSUMDB
  isLetter : Nat → Bool               -- unicode.IsLetter (module.EscapeVersion)
  glob : Bytes → Bytes → Bool         -- path.Match (module.MatchPrefixPatterns)
  sha : Bytes → Bytes                 -- SHA-256 as used for the key hash (note.NewVerifier)
  edVerify : Bytes → Bytes → Bytes → Bool    -- ed25519.Verify
  retries : Nat                       -- fuel of the ErrWriteConflict loop

/-- the fields of `Client` -/
structure Client (H : Type) where
  inited : Option (Option Err)                   -- initOnce not yet run / run, with initErr
  name : Bytes
  verifiers : List Note.Verifier
  latest : Head H
  latestMsg : Bytes
  record : List (Bytes × Except Err Bytes)       -- parCache keyed by file
  tileCache : List (Tile × Except Err Bytes)     -- parCache keyed by tile
  tileSaved : List Tile

structure World (σ H : Type) where
  s : σ
  c : Client H
  tr : List Effect

section
variable {σ H : Type}

/-- `NewClient`.  (`latest.Hash` is the zero hash until `initWork` replaces it by `TreeHash(0, nil)`; nothing reads
    it in between, so it is `empty` from the start here.) -/
def newClient (P : Params H) : Client H :=
  { inited := none, name := [], verifiers := [], latest := ⟨0, P.empty⟩, latestMsg := [],
    record := [], tileCache := [], tileSaved := [] }

/-- `if c.tileHeight == 0 { c.tileHeight = 8 }` -/
def tileHeight (P : Params H) : Nat := if P.height == 0 then 8 else P.height

/-! ### external operations -/

def readRemote (E : Env σ) (w : World σ H) (path : Bytes) : Option Bytes × World σ H :=
  let r := E.readRemote w.s path
  (r.1, { w with s := r.2, tr := w.tr ++ [.read .remote path r.1.isSome] })

def readCache (E : Env σ) (w : World σ H) (file : Bytes) : Option Bytes × World σ H :=
  let r := E.readCache w.s file
  (r.1, { w with s := r.2, tr := w.tr ++ [.read .cache file r.1.isSome] })

def readConfig (E : Env σ) (w : World σ H) (file : Bytes) : Option Bytes × World σ H :=
  let r := E.readConfig w.s file
  (r.1, { w with s := r.2, tr := w.tr ++ [.read .config file r.1.isSome] })

def writeCache (E : Env σ) (w : World σ H) (file data : Bytes) : World σ H :=
  { w with s := E.writeCache w.s file data, tr := w.tr ++ [.writeCache file data] }

def writeConfig (E : Env σ) (w : World σ H) (file old new : Bytes) : WriteRes × World σ H :=
  let r := E.writeConfig w.s file old new
  (r.1, { w with s := r.2, tr := w.tr ++ [.writeConfig file old new r.1] })

def securityError (E : Env σ) (w : World σ H) (msg : Bytes) : World σ H :=
  { w with s := E.securityError w.s msg, tr := w.tr ++ [.securityError msg] }

/-! ### tiles -/

/-- `c.tileCacheKey(tile)` -/
def tileCacheKey (name : Bytes) (t : Tile) : Bytes := name ++ [47] ++ tilePath t

/-- `c.tileRemotePath(tile)` -/
def tileRemotePath (t : Tile) : Bytes := [47] ++ tilePath t

/-- `c.markTileSaved(tile)` -/
def markTileSaved (w : World σ H) (t : Tile) : World σ H :=
  { w with c := { w.c with tileSaved := t :: w.c.tileSaved } }

/-- `data[:len(data)/full.W*tile.W]` -/
def cutFull (data : Bytes) (fullW tileW : Nat) : Bytes := data.take (data.length / fullW * tileW)

/-- the function passed to `c.tileCache.Do` in `readTile` -/
def readTileWork (E : Env σ) (w : World σ H) (tile : Tile) : Except Err Bytes × World σ H :=
  -- Try the requested tile in on-disk cache.
  let r1 := readCache E w (tileCacheKey w.c.name tile)
  match r1.1 with
  | some data => (.ok data, markTileSaved r1.2 tile)
  | none =>
    -- Try the full tile in on-disk cache (if requested tile not already full).
    let full : Tile := { tile with w := 2 ^ tile.h }
    let r2 := if tile != full then readCache E r1.2 (tileCacheKey w.c.name full) else (none, r1.2)
    match r2.1 with
    | some data => (.ok (cutFull data full.w tile.w), markTileSaved r2.2 tile)
    | none =>
      -- Try requested tile from server.
      let r3 := readRemote E r2.2 (tileRemotePath tile)
      match r3.1 with
      | some data => (.ok data, r3.2)
      | none =>
        -- Try full tile on server.
        let r4 := if tile != full then readRemote E r3.2 (tileRemotePath full) else (none, r3.2)
        match r4.1 with
        | some data => (.ok (cutFull data full.w tile.w), r4.2)
        | none => (.error .remote, r4.2)     -- the error from the server fetch for the requested tile

/-- `c.readTile(tile)`: `c.tileCache.Do(tile, …)` -/
def readTile (E : Env σ) (w : World σ H) (tile : Tile) : Except Err Bytes × World σ H :=
  match w.c.tileCache.lookup tile with
  | some r => (r, w)
  | none =>
    let r := readTileWork E w tile
    (r.1, { r.2 with c := { r.2.c with tileCache := (tile, r.1) :: r.2.c.tileCache } })

/-- the goroutines of `tileReader.ReadTiles`, one after the other; every tile is read -/
def readTilesAll (E : Env σ) : World σ H → List Tile → List (Except Err Bytes) × World σ H
  | w, [] => ([], w)
  | w, t :: ts =>
    let r := readTile E w t
    let rs := readTilesAll E r.2 ts
    (r.1 :: rs.1, rs.2)

/-- `for _, err := range errs { if err != nil { return nil, err } }; return data, nil` -/
def firstError : List (Except Err Bytes) → Except Err (List Bytes)
  | [] => .ok []
  | .error e :: _ => .error e
  | .ok d :: rest =>
    match firstError rest with
    | .error e => .error e
    | .ok ds => .ok (d :: ds)

/-- `tileReader.ReadTiles(tiles)` -/
def readTiles (E : Env σ) (w : World σ H) (tiles : List Tile) : Except Err (List Bytes) × World σ H :=
  let r := readTilesAll E w tiles
  (firstError r.1, r.2)

/-- `tileReader.SaveTiles(tiles, data)`: every tile not yet marked is marked and written, in order -/
def saveTiles (E : Env σ) : World σ H → List (Tile × Bytes) → World σ H
  | w, [] => w
  | w, (t, d) :: rest =>
    if w.c.tileSaved.contains t then saveTiles E w rest
    else saveTiles E (writeCache E (markTileSaved w t) (tileCacheKey w.c.name t) d) rest

/-- a tile file as a list of `size`-byte chunks (fuel: the length) -/
def chunksF (size : Nat) : Nat → Bytes → List Bytes
  | 0, _ => []
  | f + 1, d => if d.isEmpty then [] else d.take size :: chunksF size f (d.drop size)

def chunks (size : Nat) (d : Bytes) : List Bytes := chunksF size d.length d

/-- the hashes of a tile file -/
def decodeTile (P : Params H) (d : Bytes) : List H := (chunks P.hashSize d).map P.dec

/-- `len(data[i]) != tile.W*HashSize` for every tile -/
def bytesWidthsOk (size : Nat) : List Tile → List Bytes → Bool
  | [], [] => true
  | t :: ts, d :: ds => d.length == t.w * size && bytesWidthsOk size ts ds
  | _, _ => false

/-- `Except.mapError` for the tlog layer -/
def liftTlog {α : Type} : Except Tlog.Err α → Except Err α
  | .ok a => .ok a
  | .error e => .error (.tlog e)

variable [DecidableEq H]

/-- `tlog.TileHashReader(tree, &c.tileReader).ReadHashes(indexes)`: the planned tiles are fetched through
    `ReadTiles`; the rest is the pure `Tile.readHashes` over the fetched table; `SaveTiles` is called exactly when that
    reports it. -/
def readHashes (P : Params H) (E : Env σ) (w : World σ H) (tree : Head H) (indexes : List Nat) :
    Except Err (List H) × World σ H :=
  let h := tileHeight P
  match plan h tree.n indexes with
  | .error e => (.error (.tlog e), w)
  | .ok p =>
    if p.stx.isEmpty then (.ok [], w) else
    let r := readTiles E w p.tiles
    match r.1 with
    | .error e => (.error e, r.2)
    | .ok datas =>
      if !bytesWidthsOk P.hashSize p.tiles datas then (.error .tileLen, r.2) else
      let table := p.tiles.zip (datas.map (decodeTile P))
      let out := Tile.readHashes P.node tree.n tree.hash h indexes (fun t => table.lookup t)
      match out.saved with
      | some _ => (liftTlog out.result, saveTiles E r.2 (p.tiles.zip datas))
      | none => (liftTlog out.result, r.2)

/-- `tlog.TreeHash(n, thr)` with `thr` the tile hash reader of `tree`: one `ReadHashes` call (none for `n = 0`) -/
def treeHashVia (P : Params H) (E : Env σ) (w : World σ H) (n : Nat) (tree : Head H) : Except Err H × World σ H :=
  if n == 0 then (.ok P.empty, w) else
  match subTreeIndex 0 n with
  | .error e => (.error (.tlog e), w)
  | .ok indexes =>
    let r := readHashes P E w tree indexes
    match r.1 with
    | .error e => (.error e, r.2)
    | .ok hs => (liftTlog (Tlog.treeHash P.node P.empty n (fun _ => some hs)), r.2)

/-- `tlog.ProveTree(t, n, thr)`: one `ReadHashes` call unless the index list is empty or the arguments are invalid -/
def proveTreeVia (P : Params H) (E : Env σ) (w : World σ H) (t n : Nat) (tree : Head H) :
    Except Err (List H) × World σ H :=
  if t < 1 || n < 1 || n > t then (.error (.tlog .invalid), w) else
  match treeProofIndex 0 t n with
  | .error e => (.error (.tlog e), w)
  | .ok indexes =>
    if indexes.length == 0 then (.ok [], w) else
    let r := readHashes P E w tree indexes
    match r.1 with
    | .error e => (.error e, r.2)
    | .ok hs => (liftTlog (Tlog.proveTree P.node (t : Int) (n : Int) (fun _ => some hs)), r.2)

/-! ### checkTrees -/

/-- `bytes.Replace(b, "\n", "\n\t", -1)` -/
def indent : Bytes → Bytes
  | [] => []
  | c :: rest => if c == 10 then 10 :: 9 :: indent rest else c :: indent rest

/-- the canonical name of an error inside the SecurityError text (`%v` of the Go error: the harness maps the Go text
    to the same names) -/
def Err.name : Err → String
  | .gonosumdb => "err:gonosumdb"
  | .security => "err:security"
  | .config => "err:other"
  | .key _ => "err:other"
  | .escape => "err:other"
  | .remote => "err:remote"
  | .recordSyntax => "err:record-syntax"
  | .recordId => "err:record-id"
  | .recordHash => "err:record-hash"
  | .note => "err:note"
  | .tileLen => "err:tile-len"
  | .tlog .inconsistent => "err:tile"
  | .tlog .badMath => "err:internal"
  | .tlog .panic => "panic"
  | .tlog .fuel => "hang"
  | .tlog _ => "err:other"
  | .panic => "panic"
  | .fuel => "hang"

/-- the report up to and including the recomputed hash -/
def securityHead (P : Params H) (olderNote newerNote : Bytes) (h : H) : Bytes :=
  B "SECURITY ERROR\n" ++ B "go.sum database server misbehavior detected!\n\n" ++
  B "old database:\n\t" ++ indent olderNote ++ [10] ++
  B "new database:\n\t" ++ indent newerNote ++ [10] ++
  B "proof of misbehavior:\n\t" ++ TlogNote.hashString (P.enc h)

/-- `for _, h := range p { fmt.Fprintf(&buf, "\n\t%v", h) }` -/
def proofLines (P : Params H) : List H → Bytes
  | [] => []
  | h :: rest => [10, 9] ++ TlogNote.hashString (P.enc h) ++ proofLines P rest

/-- `c.checkTrees(older, olderNote, newer, newerNote)` -/
def checkTrees (P : Params H) (E : Env σ) (w : World σ H) (older : Head H) (olderNote : Bytes) (newer : Head H)
    (newerNote : Bytes) : Except Err Unit × World σ H :=
  let r := treeHashVia P E w older.n newer
  match r.1 with
  | .error e => (.error e, r.2)
  | .ok h =>
    if h = older.hash then (.ok (), r.2) else
    -- Detected a fork in the tree timeline.
    let pr := proveTreeVia P E r.2 newer.n older.n newer
    let tail : Bytes :=
      match pr.1 with
      | .error e => B "\tinternal error: " ++ B e.name ++ [10]
      | .ok p =>
        match Tlog.checkTree P.node p (newer.n : Int) newer.hash (older.n : Int) h with
        | .error _ => B "\tinternal error: generated inconsistent proof\n"
        | .ok () => proofLines P p
    (.error .security, securityError E pr.2 (securityHead P olderNote newerNote h ++ tail))

/-! ### the latest tree head -/

inductive When | past | now | future
  deriving DecidableEq, Repr

/-- `note.Open(msg, c.verifiers)` then `tlog.ParseTree(note.Text)` -/
def openTree (P : Params H) (verifiers : List Note.Verifier) (msg : Bytes) : Except Err (Head H) :=
  match Note.Open msg (Note.VerifierList verifiers) with
  | .error _ => .error .note
  | .ok nt =>
    match TlogNote.parseTree nt.text with
    | none => .error .note
    | some t => .ok ⟨t.n.toNat, P.dec t.hash⟩

/-- `c.mergeLatestMem(msg)` -/
def mergeLatestMem (P : Params H) (E : Env σ) (w : World σ H) (msg : Bytes) : Except Err When × World σ H :=
  if msg.isEmpty then
    -- Accept empty msg as the unsigned, empty timeline.
    (.ok (if w.c.latest.n == 0 then .now else .past), w)
  else
    match openTree P w.c.verifiers msg with
    | .error e => (.error e, w)
    | .ok tree =>
      let latest := w.c.latest
      let latestMsg := w.c.latestMsg
      if tree.n ≤ latest.n then
        -- If the tree head looks old, check that it is on our timeline.
        let r := checkTrees P E w tree msg latest latestMsg
        match r.1 with
        | .error e => (.error e, r.2)
        | .ok () => (.ok (if tree.n < latest.n then .past else .now), r.2)
      else
        -- The tree head looks new. Check that we are on its timeline and try to move our timeline forward.
        let r := checkTrees P E w latest latestMsg tree msg
        match r.1 with
        | .error e => (.error e, r.2)
        | .ok () => (.ok .future, { r.2 with c := { r.2.c with latest := tree, latestMsg := msg } })

/-- `B "/latest"` appended to the verifier name -/
def latestFile (name : Bytes) : Bytes := name ++ B "/latest"

/-- the `for` loop of `mergeLatest` -/
def mergeLatestLoop (P : Params H) (E : Env σ) : Nat → World σ H → Except Err Unit × World σ H
  | 0, w => (.error .fuel, w)
  | f + 1, w =>
    let rc := readConfig E w (latestFile w.c.name)
    match rc.1 with
    | none => (.error .config, rc.2)
    | some msg =>
      let r := mergeLatestMem P E rc.2 msg
      match r.1 with
      | .error e => (.error e, r.2)
      | .ok when =>
        if when != .past then (.ok (), r.2) else
        -- msg (== config) is in the past, so we need to update it.
        let wr := writeConfig E r.2 (latestFile r.2.c.name) msg r.2.c.latestMsg
        match wr.1 with
        | .conflict => mergeLatestLoop P E f wr.2
        | .ok => (.ok (), wr.2)
        | .error => (.error .config, wr.2)

/-- `c.mergeLatest(msg)` -/
def mergeLatest (P : Params H) (E : Env σ) (w : World σ H) (msg : Bytes) : Except Err Unit × World σ H :=
  let r := mergeLatestMem P E w msg
  match r.1 with
  | .error e => (.error e, r.2)
  | .ok when =>
    if when != .future then (.ok (), r.2)
    else mergeLatestLoop P E P.retries r.2

/-! ### initialisation -/

def setInit (w : World σ H) (e : Option Err) : World σ H := { w with c := { w.c with inited := some e } }

/-- `c.initWork()` -/
def initWork (P : Params H) (E : Env σ) (w : World σ H) : World σ H :=
  let rk := readConfig E w (B "key")
  match rk.1 with
  | none => setInit rk.2 (some .config)
  | some vkey =>
    match Note.NewVerifier P.sha P.edVerify (GoStrings.trimSpace vkey) with
    | .error e => setInit rk.2 (some (.key e))
    | .ok v =>
      let w1 : World σ H := { rk.2 with c := { rk.2.c with verifiers := [v], name := v.name } }
      let rl := readConfig E w1 (latestFile v.name)
      match rl.1 with
      | none => setInit rl.2 (some .config)
      | some data =>
        let r := mergeLatest P E rl.2 data
        match r.1 with
        | .error e => setInit r.2 (some e)
        | .ok () => setInit r.2 none

/-- `c.init()`: `c.initOnce.Do(c.initWork)`, then `c.initErr` -/
def init (P : Params H) (E : Env σ) (w : World σ H) : World σ H :=
  match w.c.inited with
  | some _ => w
  | none => initWork P E w

/-! ### Lookup -/

/-- `c.checkRecord(id, data)`.  `StoredHashIndex(0, id)` is 0 for a negative `id` (both loops do nothing). -/
def checkRecord (P : Params H) (E : Env σ) (w : World σ H) (id : Int) (data : Bytes) : Except Err Unit × World σ H :=
  let latest := w.c.latest
  if id ≥ (latest.n : Int) then (.error .recordId, w) else
  let idx := if id < 0 then 0 else storedHashIndex 0 id.toNat
  let r := readHashes P E w latest [idx]
  match r.1 with
  | .error e => (.error e, r.2)
  | .ok hs =>
    match hs with
    | [] => (.error .panic, r.2)              -- hashes[0] on an empty slice
    | h :: _ => if h = P.leaf data then (.ok (), r.2) else (.error .recordHash, r.2)

/-- the function passed to `c.record.Do(file, …)` in `Lookup` -/
def lookupWork (P : Params H) (E : Env σ) (w : World σ H) (file remotePath : Bytes) : Except Err Bytes × World σ H :=
  -- Try the on-disk cache, or else get from web.
  let rc := readCache E w file
  let got : Option (Bytes × Bool) × World σ H :=
    match rc.1 with
    | some data => (some (data, false), rc.2)
    | none =>
      let rr := readRemote E rc.2 remotePath
      match rr.1 with
      | some data => (some (data, true), rr.2)
      | none => (none, rr.2)
  match got.1 with
  | none => (.error .remote, got.2)
  | some (data, wc) =>
    -- Validate the record before using it for anything.
    match TlogNote.parseRecord data with
    | none => (.error .recordSyntax, got.2)
    | some (id, text, treeMsg) =>
      let rm := mergeLatest P E got.2 treeMsg
      match rm.1 with
      | .error e => (.error e, rm.2)
      | .ok () =>
        let rk := checkRecord P E rm.2 id text
        match rk.1 with
        | .error e => (.error e, rk.2)
        | .ok () =>
          -- Now that we've validated the record, save it to the on-disk cache (unless that's where it came from).
          (.ok data, if wc then writeCache E rk.2 file data else rk.2)

/-- `strings.TrimSuffix(vers, "/go.mod")` -/
def trimGoMod (vers : Bytes) : Bytes := Module.trimSuffixB vers (B "/go.mod")

/-- the lines of `data` that start with `prefix` -/
def filterLines (pre data : Bytes) : List Bytes := (splitOn 10 data).filter (fun line => isPrefixOfB pre line)

/-- `c.Lookup(path, vers)` -/
def lookup (P : Params H) (E : Env σ) (w : World σ H) (path vers : Bytes) : Except Err (List Bytes) × World σ H :=
  if Module.matchPrefixPatterns P.glob P.nosumdb path then (.error .gonosumdb, w) else
  let w := init P E w
  match w.c.inited with
  | some (some e) => (.error e, w)
  | _ =>
    -- Prepare encoded cache filename / URL.
    match Module.escapePath path with
    | .error _ => (.error .escape, w)
    | .ok epath =>
      match Module.escapeVersion P.isLetter (trimGoMod vers) with
      | .error _ => (.error .escape, w)
      | .ok evers =>
        let remotePath := B "/lookup/" ++ epath ++ [64] ++ evers
        let file := w.c.name ++ remotePath
        -- Fetch the data.
        let res : Except Err Bytes × World σ H :=
          match w.c.record.lookup file with
          | some r => (r, w)
          | none =>
            let r := lookupWork P E w file remotePath
            (r.1, { r.2 with c := { r.2.c with record := (file, r.1) :: r.2.c.record } })
        match res.1 with
        | .error e => (.error e, res.2)
        | .ok data =>
          -- Extract the lines for the specific version we want (with or without /go.mod).
          (.ok (filterLines (path ++ [32] ++ vers ++ [32]) data), res.2)

end
end ModVerif.Client
