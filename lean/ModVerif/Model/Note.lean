/-
  Model of golang.org/x/mod/sumdb/note (note.go).  One def per Go function, same branch order,
  errors as data.  Keys are abstract (`Verifier.verify`, `Signer.sign` are functions); SHA-256 and the
  Ed25519 operations are parameters of `NewVerifier` / `NewSigner`.
  Core-only.
-/
import ModVerif.Basic.Bytes
import ModVerif.Basic.Base64Note
namespace ModVerif.Note
open ModVerif ModVerif.B64

/-! ## byte-level helpers (strings.Index, bytes.LastIndex, binary.BigEndian) -/

/-- strings.Index(s, sep): index of the first occurrence -/
def indexOf (sep : Bytes) : Bytes → Option Nat
  | [] => if sep.isEmpty then some 0 else none
  | c :: rest =>
    if isPrefixOfB sep (c :: rest) then some 0
    else (indexOf sep rest).map (· + 1)

/-- bytes.LastIndex(s, sep): index of the last occurrence -/
def lastIndexOf (sep : Bytes) : Bytes → Option Nat
  | [] => if sep.isEmpty then some 0 else none
  | c :: rest =>
    match lastIndexOf sep rest with
    | some i => some (i + 1)
    | none => if isPrefixOfB sep (c :: rest) then some 0 else none

/-- binary.BigEndian.Uint32 of the first four bytes; `none` = the Go code would panic (short slice) -/
def be32 : Bytes → Option UInt32
  | a :: b :: c :: d :: _ =>
    some (UInt32.ofNat (a.toNat * 16777216 + b.toNat * 65536 + c.toNat * 256 + d.toNat))
  | _ => none

/-- binary.BigEndian.PutUint32 -/
def putU32 (h : UInt32) : Bytes :=
  [UInt8.ofNat (h.toNat / 16777216), UInt8.ofNat (h.toNat / 65536 % 256),
   UInt8.ofNat (h.toNat / 256 % 256), UInt8.ofNat (h.toNat % 256)]

/-! ## UTF-8 (unicode/utf8 accept table) and unicode.IsSpace -/

def isCont (b : UInt8) : Bool := 0x80 ≤ b.toNat && b.toNat ≤ 0xBF

/-- The runes of a well-formed UTF-8 string; `none` when some position decodes to (RuneError, 1),
    i.e. exactly when `utf8.Valid` is false.  Surrogates, overlong forms, > U+10FFFF are ill-formed. -/
def runesOf : Bytes → Option (List Nat)
  | [] => some []
  | b0 :: rest =>
    let x := b0.toNat
    if x < 0x80 then (runesOf rest).map (x :: ·)
    else if x < 0xC2 then none
    else if x < 0xE0 then
      match rest with
      | b1 :: r =>
        if isCont b1 then (runesOf r).map (((x - 0xC0) * 64 + (b1.toNat - 0x80)) :: ·) else none
      | [] => none
    else if x < 0xF0 then
      match rest with
      | b1 :: b2 :: r =>
        let lo := if x == 0xE0 then 0xA0 else 0x80
        let hi := if x == 0xED then 0x9F else 0xBF
        if lo ≤ b1.toNat && b1.toNat ≤ hi && isCont b2 then
          (runesOf r).map (((x - 0xE0) * 4096 + (b1.toNat - 0x80) * 64 + (b2.toNat - 0x80)) :: ·)
        else none
      | _ => none
    else if x < 0xF5 then
      match rest with
      | b1 :: b2 :: b3 :: r =>
        let lo := if x == 0xF0 then 0x90 else 0x80
        let hi := if x == 0xF4 then 0x8F else 0xBF
        if lo ≤ b1.toNat && b1.toNat ≤ hi && isCont b2 && isCont b3 then
          (runesOf r).map (((x - 0xF0) * 262144 + (b1.toNat - 0x80) * 4096 + (b2.toNat - 0x80) * 64 + (b3.toNat - 0x80)) :: ·)
        else none
      | _ => none
    else none

/-- unicode.IsSpace (White_Space property) -/
def isSpace (r : Nat) : Bool :=
  r == 0x09 || r == 0x0A || r == 0x0B || r == 0x0C || r == 0x0D || r == 0x20 || r == 0x85 || r == 0xA0 ||
  r == 0x1680 || (0x2000 ≤ r && r ≤ 0x200A) || r == 0x2028 || r == 0x2029 || r == 0x202F ||
  r == 0x205F || r == 0x3000

/-! ## constants -/

def algEd25519 : Nat := 1
def sigSplit : Bytes := [10, 10]
/-- "— " (U+2014 EM DASH, space) -/
def sigPrefix : Bytes := [0xE2, 0x80, 0x94, 0x20]
/-- the cap on signature lines in `Open` -/
def maxSigs : Nat := 100

/-! ## names, key strings -/

/-- isValidName: non-empty, valid UTF-8, no Unicode space, no '+', no ASCII control character -/
def isValidName (name : Bytes) : Bool :=
  !name.isEmpty &&
  (match runesOf name with
   | none => false
   | some rs => !rs.any isSpace) &&
  !name.contains 43 &&
  (match runesOf name with
   | none => true     -- strings.IndexFunc sees RuneError (0xFFFD) at ill-formed bytes; excluded above
   | some rs => !rs.any (fun r => r < 0x20))

/-- chop: split at the first occurrence of sep; (s, "") when absent -/
def chop (s sep : Bytes) : Bytes × Bytes :=
  match indexOf sep s with
  | none => (s, [])
  | some i => (s.take i, s.drop (i + sep.length))

structure Verifier where
  name : Bytes
  hash : UInt32
  verify : Bytes → Bytes → Bool

structure Signer where
  name : Bytes
  hash : UInt32
  /-- `none` = Sign returned an error -/
  sign : Bytes → Option Bytes

inductive KeyErr where
  | id      -- errVerifierID / errSignerID   "malformed verifier id"
  | alg     -- errVerifierAlg / errSignerAlg "unknown verifier algorithm"
  | hash    -- errVerifierHash / errSignerHash "invalid verifier hash"
  | panic   -- a slice operation in the Go code would panic (only with a `sha` returning < 4 bytes)
  deriving DecidableEq, Repr

/-- keyHash: first four bytes (big endian) of sha(name ‖ "\n" ‖ key) -/
def keyHash (sha : Bytes → Bytes) (name key : Bytes) : Option UInt32 :=
  be32 (sha (name ++ [10] ++ key))

def hexDigitVal (c : UInt8) : Option Nat :=
  let x := c.toNat
  if 48 ≤ x ∧ x ≤ 57 then some (x - 48)
  else if 97 ≤ x ∧ x ≤ 102 then some (x - 87)
  else if 65 ≤ x ∧ x ≤ 70 then some (x - 55)
  else none

def parseHexAux : Nat → Bytes → Option Nat
  | acc, [] => some acc
  | acc, c :: rest =>
    match hexDigitVal c with
    | none => none
    | some v => parseHexAux (acc * 16 + v) rest

/-- `len(hash16) == 8 && strconv.ParseUint(hash16, 16, 32)` succeeds: exactly eight hex digits (either case) -/
def parseHash16 (h : Bytes) : Option UInt32 :=
  if h.length != 8 then none else (parseHexAux 0 h).map UInt32.ofNat

/-- NewVerifier.  `edVerify pub msg sig` stands for ed25519.Verify. -/
def NewVerifier (sha : Bytes → Bytes) (edVerify : Bytes → Bytes → Bytes → Bool) (vkey : Bytes) :
    Except KeyErr Verifier :=
  let (name, vkey1) := chop vkey [43]
  let (hash16, key64) := chop vkey1 [43]
  match parseHash16 hash16, b64dec key64 with
  | some hash, some key =>
    if !isValidName name || key.isEmpty then .error .id else
    match keyHash sha name key with
    | none => .error .panic
    | some kh =>
      if hash != kh then .error .hash else
      match key with
      | [] => .error .id   -- excluded above
      | alg :: pub =>
        if alg.toNat != algEd25519 then .error .alg
        else if pub.length != 32 then .error .id
        else .ok { name := name, hash := hash, verify := edVerify pub }
  | _, _ => .error .id

/-- NewSigner.  `edPub seed` = the 32-byte public key of ed25519.NewKeyFromSeed(seed);
    `edSign seed msg` = ed25519.Sign(NewKeyFromSeed(seed), msg). -/
def NewSigner (sha : Bytes → Bytes) (edPub : Bytes → Bytes) (edSign : Bytes → Bytes → Bytes) (skey : Bytes) :
    Except KeyErr Signer :=
  let (priv1, s1) := chop skey [43]
  let (priv2, s2) := chop s1 [43]
  let (name, s3) := chop s2 [43]
  let (hash16, key64) := chop s3 [43]
  match parseHash16 hash16, b64dec key64 with
  | some hash, some key =>
    if priv1 != B "PRIVATE" || priv2 != B "KEY" || !isValidName name || key.isEmpty then .error .id else
    match key with
    | [] => .error .id
    | alg :: seed =>
      if alg.toNat != algEd25519 then .error .alg
      else if seed.length != 32 then .error .id
      else
        let pubkey := UInt8.ofNat algEd25519 :: edPub seed
        match keyHash sha name pubkey with
        | none => .error .panic
        | some kh =>
          if hash != kh then .error .hash
          else .ok { name := name, hash := hash, sign := fun msg => some (edSign seed msg) }
  | _, _ => .error .id

/-! ## Verifiers -/

/-- result of `Verifiers.Verifier(name, hash)` -/
inductive Lookup where
  | found (v : Verifier)
  | unknown      -- *UnknownVerifierError
  | ambiguous    -- *ambiguousVerifierError (VerifierList)
  | otherErr     -- any other error

abbrev Verifiers := Bytes → UInt32 → Lookup

/-- VerifierList(list...).Verifier(name, hash) -/
def VerifierList (list : List Verifier) : Verifiers := fun name hash =>
  match list.filter (fun v => v.name == name && v.hash == hash) with
  | [] => .unknown
  | [v] => .found v
  | _ :: _ :: _ => .ambiguous

/-! ## notes -/

structure Signature where
  name : Bytes
  hash : UInt32
  base64 : Bytes
  deriving DecidableEq, Repr

structure Note where
  text : Bytes
  sigs : List Signature := []
  unverifiedSigs : List Signature := []
  deriving DecidableEq, Repr

inductive OpenErr where
  | malformed                                        -- errMalformedNote
  | unverified (n : Note)                            -- *UnverifiedNoteError{n}
  | invalidSignature (name : Bytes) (hash : UInt32)  -- *InvalidSignatureError
  | ambiguous (name : Bytes) (hash : UInt32)         -- error returned by known.Verifier (VerifierList)
  | mismatchedVerifier                               -- errMismatchedVerifier
  | other                                            -- any other error returned by known.Verifier
  deriving DecidableEq, Repr

/-- The first loop of Open: every position decodes, and no rune is an ASCII control other than '\n'. -/
def validMsg (msg : Bytes) : Bool :=
  match runesOf msg with
  | none => false
  | some rs => rs.all fun r => !(r < 0x20 && r != 10)

/-- the lines of a signature block that is empty or ends in '\n' (loop `IndexByte(sigs, '\n')`) -/
def sigLines : Bytes → List Bytes
  | [] => []
  | c :: rest =>
    if c == 10 then [] :: sigLines rest
    else match sigLines rest with
      | [] => [[c]]               -- unreachable when the block ends in '\n'
      | l :: ls => (c :: l) :: ls

structure SigLine where
  name : Bytes
  b64 : Bytes
  hash : UInt32
  sig : Bytes      -- decoded signature without the 4-byte key hash
  line : Bytes     -- the line after the "— " prefix (key of seenUnverified)

/-- one signature line: prefix, chop at the first space, base64, name, ≥ 5 decoded bytes -/
def parseSigLine (line : Bytes) : Option SigLine :=
  if !isPrefixOfB sigPrefix line then none else
  let line := line.drop sigPrefix.length
  let (name, b64) := chop line [32]
  match b64dec b64 with
  | none => none
  | some sig =>
    if !isValidName name || b64.isEmpty || sig.length < 5 then none else
    match be32 sig with
    | none => none            -- excluded by the length test
    | some hash => some { name := name, b64 := b64, hash := hash, sig := sig.drop 4, line := line }

structure LoopState where
  seen : List (Bytes × UInt32) := []
  seenUnverified : List Bytes := []
  numSig : Nat := 0
  sigs : List Signature := []
  unverifiedSigs : List Signature := []

/-- `Signature{Name, Hash, Base64}` of a parsed line -/
def SigLine.toSig (p : SigLine) : Signature := ⟨p.name, p.hash, p.b64⟩

/-- one iteration of the signature loop of Open -/
def openStep (known : Verifiers) (text : Bytes) (st : LoopState) (line : Bytes) : Except OpenErr LoopState :=
  match parseSigLine line with
  | none => .error .malformed
  | some p =>
    let numSig := st.numSig + 1
    if numSig > maxSigs then .error .malformed else
    let st := { st with numSig := numSig }
    match known p.name p.hash with
    | .unknown =>
      -- Drop repeated identical unverified signatures.
      if st.seenUnverified.contains p.line then .ok st
      else .ok { st with seenUnverified := p.line :: st.seenUnverified,
                         unverifiedSigs := st.unverifiedSigs ++ [p.toSig] }
    | .ambiguous => .error (.ambiguous p.name p.hash)
    | .otherErr => .error .other
    | .found v =>
      -- Check that known.Verifier returned the right verifier.
      if v.name != p.name || v.hash != p.hash then .error .mismatchedVerifier
      -- Drop repeated signatures by a single verifier.
      else if st.seen.contains (p.name, p.hash) then .ok st
      else if !v.verify text p.sig then .error (.invalidSignature p.name p.hash)
      else .ok { st with seen := (p.name, p.hash) :: st.seen, sigs := st.sigs ++ [p.toSig] }

/-- the signature loop of Open -/
def openLoop (known : Verifiers) (text : Bytes) : List Bytes → LoopState → Except OpenErr LoopState
  | [], st => .ok st
  | line :: rest, st =>
    match openStep known text st line with
    | .error e => .error e
    | .ok st' => openLoop known text rest st'

/-- Open(msg, known) -/
def Open (msg : Bytes) (known : Verifiers) : Except OpenErr Note :=
  if !validMsg msg then .error .malformed else
  match lastIndexOf sigSplit msg with
  | none => .error .malformed
  | some split =>
    let text := msg.take (split + 1)
    let sigs := msg.drop (split + 2)
    if sigs.isEmpty || sigs.getLast? != some 10 then .error .malformed else
    match openLoop known text (sigLines sigs) {} with
    | .error e => .error e
    | .ok st =>
      let n : Note := { text := text, sigs := st.sigs, unverifiedSigs := st.unverifiedSigs }
      if st.sigs.isEmpty then .error (.unverified n) else .ok n

inductive SignErr where
  | malformed       -- errMalformedNote
  | invalidSigner   -- errInvalidSigner
  | signFailed      -- the error returned by Signer.Sign
  deriving DecidableEq, Repr

def sigLine (name b64 : Bytes) : Bytes := sigPrefix ++ name ++ [32] ++ b64 ++ [10]

/-- first loop of Sign: the new signature lines -/
def signNew (text : Bytes) : List Signer → Except SignErr Bytes
  | [] => .ok []
  | s :: rest =>
    if !isValidName s.name then .error .invalidSigner else
    match s.sign text with
    | none => .error .signFailed
    | some sig =>
      match signNew text rest with
      | .error e => .error e
      | .ok r => .ok (sigLine s.name (b64enc (putU32 s.hash ++ sig)) ++ r)

/-- second loop of Sign: existing signatures not replaced by new ones -/
def signExisting (have_ : List (Bytes × UInt32)) : List Signature → Except SignErr Bytes
  | [] => .ok []
  | sg :: rest =>
    if !isValidName sg.name then .error .malformed
    else if have_.contains (sg.name, sg.hash) then signExisting have_ rest
    else match b64dec sg.base64 with
      | none => .error .malformed
      | some raw =>
        if raw.length < 4 || be32 raw != some sg.hash then .error .malformed else
        match signExisting have_ rest with
        | .error e => .error e
        | .ok r => .ok (sigLine sg.name sg.base64 ++ r)

/-- Sign(n, signers...) -/
def Sign (n : Note) (signers : List Signer) : Except SignErr Bytes :=
  if !hasSuffixB n.text [10] then .error .malformed else
  match signNew n.text signers with
  | .error e => .error e
  | .ok sigs =>
    match signExisting (signers.map fun s => (s.name, s.hash)) (n.sigs ++ n.unverifiedSigs) with
    | .error e => .error e
    | .ok ex => .ok (n.text ++ [10] ++ ex ++ sigs)

end ModVerif.Note
