/-
  Model of /repo/sumdb/tlog/note.go and of the text encodings of `Hash` in tlog.go
  (`Hash.String`, `MarshalJSON`, `UnmarshalJSON`, `ParseHash`).
  A hash is its 32 bytes here (`Bytes` of length `HashSize`); the functions that produce hashes
  check the length as the code does.
-/
import ModVerif.Basic.Bytes
import ModVerif.Basic.Base64
import ModVerif.Basic.Decimal
import ModVerif.Basic.Utf8
import ModVerif.Model.Tlog
namespace ModVerif.TlogNote
open ModVerif ModVerif.Tlog

/-- `type Tree struct { N int64; Hash Hash }` -/
structure Tree where
  n : Int
  hash : Bytes
  deriving DecidableEq, Repr

/-! ### Hash text forms -/

/-- `Hash.String` -/
def hashString (h : Bytes) : Bytes := Base64.encodeStd h

/-- `ParseHash` -/
def parseHash (s : Bytes) : Option Bytes :=
  match Base64.decodeStd s with
  | some data => if data.length != HashSize then none else some data
  | none => none

/-- `Hash.MarshalJSON` -/
def marshalJSON (h : Bytes) : Bytes := [34] ++ hashString h ++ [34]

/-- `Hash.UnmarshalJSON`: `len(data) != 1+44+1 || data[0] != '"' || data[len-2] != '=' || data[len-1] != '"'`,
    then RawStdEncoding on `data[1:len-2]`, `n != HashSize`. -/
def unmarshalJSON (data : Bytes) : Option Bytes :=
  if data.length != 1 + 44 + 1 then none
  else if data[0]? != some 34 || data[data.length - 2]? != some 61 || data[data.length - 1]? != some 34 then none
  else
    match Base64.decodeRawStd ((data.take (data.length - 2)).drop 1) with
    | some tmp => if tmp.length != HashSize then none else some tmp
    | none => none

/-! ### tree heads -/

def treePrefix : Bytes := B "go.sum database tree\n"

/-- `FormatTree`: `fmt.Sprintf("go.sum database tree\n%d\n%s\n", tree.N, tree.Hash)` -/
def formatTree (t : Tree) : Bytes :=
  treePrefix ++ Decimal.formatInt t.n ++ [10] ++ hashString t.hash ++ [10]

def countNL (s : Bytes) : Nat := (s.filter (· == 10)).length

/-- `strings.SplitN(s, "\n", k)`: at most `k` pieces, the last one unsplit. -/
def splitN : Nat → Bytes → List Bytes
  | 0, _ => []
  | 1, s => [s]
  | k + 2, s =>
    match s.span (· != 10) with
    | (a, []) => [a]
    | (a, _ :: rest) => a :: splitN (k + 1) rest

/-- `ParseTree` -/
def parseTree (text : Bytes) : Option Tree :=
  if !isPrefixOfB treePrefix text || countNL text < 3 || text.length > 1000000 then none
  else
    match splitN 4 text with
    | _ :: l1 :: l2 :: _ =>
      match Decimal.parseInt64 l1 with
      | none => none
      | some n =>
        if n < 0 || l1 != Decimal.formatInt n then none
        else
          match Base64.decodeStd l2 with
          | none => none
          | some h => if h.length != HashSize then none else some { n := n, hash := h }
    | _ => none      -- unreachable: at least three newlines give four pieces

/-! ### records -/

/-- `isValidRecordText`; first argument = bytes of the current rune still to skip, second = `last`. -/
def isValidRecordTextAux : Nat → Nat → Bytes → Bool
  | _, last, [] => last == 10
  | k + 1, last, _ :: rest => isValidRecordTextAux k last rest
  | 0, last, b :: rest =>
    match Utf8.decode (b :: rest) with
    | none => false                              -- r == utf8.RuneError && size == 1
    | some (r, w) =>
      if (r < 0x20 && r != 10) || (last == 10 && r == 10) then false
      else isValidRecordTextAux (w - 1) r rest

def isValidRecordText (text : Bytes) : Bool := isValidRecordTextAux 0 0 text

/-- `FormatRecord(id, text)`; `none` = errMalformedRecord -/
def formatRecord (id : Int) (text : Bytes) : Option Bytes :=
  if !isValidRecordText text then none
  else some (Decimal.formatInt id ++ [10] ++ text ++ [10])

/-- `bytes.Index(msg, "\n\n")`: the text before the first blank line and the text after it -/
def splitBlank : Bytes → Option (Bytes × Bytes)
  | [] => none
  | [_] => none
  | a :: b :: rest =>
    if a == 10 && b == 10 then some ([], rest)
    else match splitBlank (b :: rest) with
      | none => none
      | some (pre, post) => some (a :: pre, post)

/-- `ParseRecord(msg) = (id, text, rest)`; `none` = errMalformedRecord -/
def parseRecord (msg : Bytes) : Option (Int × Bytes × Bytes) :=
  match msg.span (· != 10) with
  | (_, []) => none                                   -- no newline
  | (idText, _ :: msg) =>
    match Decimal.parseInt64 idText with
    | none => none
    | some id =>
      match splitBlank msg with
      | none => none
      | some (pre, rest) =>
        let text := pre ++ [10]                        -- msg[:i+1]
        if !isValidRecordText text then none else some (id, text, rest)

end ModVerif.TlogNote
