/-
  Model of golang.org/x/mod/zip (zip.go).  One def per Go function, same branch order, errors as data.

  Abstractions (DESIGN §4): an archive is a list of entries `(name, declared size, content)`; a file
  given to Create/CheckFiles is `(path, mode, size, content, goGe124)`; a directory is a tree of nodes
  walked in lexical order; the file system under the extraction target is the list of effects performed.
  `module.CheckFilePath`, `module.Check`+`module.CanonicalVersion` and the case-folding key `strToFold`
  are parameters (`Env`): theorems hold for every instance; the driver plugs the executable ones
  (`Module.checkFilePath`, `Module.check`, `Semver.canonicalVersion`, `strToFold` over `FoldTable`).
  The go version of the root go.mod enters as the boolean "≥ go1.24" (`version.Compare(vers,"go1.24") >= 0`),
  computed by the harness from real go.mod contents (`goGe124` of the file).
  Core-only.
-/
import ModVerif.Basic.Bytes
import ModVerif.Basic.PathClean
import ModVerif.Basic.Utf8
import ModVerif.Basic.FoldTable
namespace ModVerif.Zip
open ModVerif ModVerif.PathClean

/-! ## constants -/

def MaxZipFile : Nat := 500 * 2 ^ 20
def MaxGoMod : Nat := 16 * 2 ^ 20
def MaxLICENSE : Nat := 16 * 2 ^ 20

def goModName : Bytes := [103, 111, 46, 109, 111, 100]                  -- "go.mod"
def licenseName : Bytes := [76, 73, 67, 69, 78, 83, 69]                  -- "LICENSE"
def hgArchivalName : Bytes := [46, 104, 103, 95, 97, 114, 99, 104, 105, 118, 97, 108, 46, 116, 120, 116] -- ".hg_archival.txt"
def vendorSlash : Bytes := [118, 101, 110, 100, 111, 114, 47]            -- "vendor/"
def slashVendorSlash : Bytes := 47 :: vendorSlash                        -- "/vendor/"
def vendorModulesTxt : Bytes :=
  vendorSlash ++ [109, 111, 100, 117, 108, 101, 115, 46, 116, 120, 116]  -- "vendor/modules.txt"
/-- ".bzr", ".git", ".hg", ".svn" -/
def vcsDirs : List Bytes := [[46, 98, 122, 114], [46, 103, 105, 116], [46, 104, 103], [46, 115, 118, 110]]

/-! ## parameters -/

structure Env where
  /-- `module.CheckFilePath p == nil` -/
  cfp : Bytes → Bool
  /-- `strToFold` -/
  toFold : Bytes → Bytes
  /-- `module.CanonicalVersion(v) == v && module.Check(path, v) == nil` -/
  modOK : Bytes → Bytes → Bool

/-! ## strings helpers -/

def asciiLower (c : UInt8) : UInt8 := if 65 ≤ c.toNat ∧ c.toNat ≤ 90 then c + 32 else c

def lowerAscii (s : Bytes) : Bytes := s.map asciiLower

/-- `strings.EqualFold(s, "go.mod")`: none of `g o . m d` has a non-ASCII simple-folding partner, so
    this is ASCII case-insensitive equality. -/
def equalFoldGoMod (s : Bytes) : Bool := lowerAscii s == goModName

/-- `strings.ToLower(p) == "go.mod"`: no non-ASCII rune lowers to one of `g o . m d`. -/
def toLowerIsGoMod (s : Bytes) : Bool := lowerAscii s == goModName

def contains (s : Bytes) (c : UInt8) : Bool := s.any (· == c)

/-- strings.Index -/
def indexOf (pat : Bytes) : Bytes → Option Nat
  | [] => if pat.isEmpty then some 0 else none
  | c :: rest =>
    if isPrefixOfB pat (c :: rest) then some 0
    else (indexOf pat rest).map (· + 1)

/-- executable `strToFold` (zip.go 1041–1072). -/
def strToFold (s : Bytes) : Bytes :=
  if s.all (fun c => c.toNat < 0x80 && !(65 ≤ c.toNat && c.toNat ≤ 90)) then s
  else
    (Utf8.runes s).flatMap fun r =>
      let m := FoldTable.foldMin r
      let m := if 65 ≤ m ∧ m ≤ 90 then m + 32 else m
      Utf8.encode m

/-! ## files and reports -/

inductive Mode where
  | regular | dir | symlink | irregular | lstatErr
  deriving DecidableEq, Repr, Inhabited

/-- reasons for omission / invalidity (one enum for both lists) -/
inductive Reason where
  | notClean | notRelative | vendored | submoduleFile | hgArchival | filePath | goModCase | lstat
  | caseCollision | fileAndDir | multiple | symlink | notRegular | goModSize | licenseSize
  | vcs | submoduleDir                 -- listFilesInDir only
  | noPrefix | goModNotRoot            -- checkZip only
  | panic                              -- collisionChecker.check recursion that does not end (absolute path)
  deriving DecidableEq, Repr, Inhabited

structure FileInfo where
  path : Bytes
  mode : Mode
  size : Int
  /-- what `Open` yields (regular files) -/
  content : Bytes := []
  /-- "this content, read as a go.mod, declares go ≥ 1.24" (harness-derived) -/
  goGe124 : Bool := false
  deriving DecidableEq, Repr, Inhabited

structure CheckedFiles where
  valid : List Bytes := []
  omitted : List (Bytes × Reason) := []
  invalid : List (Bytes × Reason) := []
  sizeError : Bool := false
  deriving DecidableEq, Repr, Inhabited

inductive ErrKind where
  | size | invalid
  deriving DecidableEq, Repr

/-- CheckedFiles.Err -/
def CheckedFiles.err (cf : CheckedFiles) : Option ErrKind :=
  if cf.sizeError then some .size
  else if !cf.invalid.isEmpty then some .invalid
  else none

/-! ## isVendoredPackage (zip.go 794–829) -/

def isVendoredPackage (name : Bytes) (ge124 : Bool) : Bool :=
  if ge124 && name == vendorModulesTxt then true
  else if isPrefixOfB vendorSlash name then contains (name.drop 7) 47
  else
    match indexOf slashVendorSlash name with
    | some j =>
      let i := if ge124 then j + 8 else 8
      contains (name.drop i) 47
    | none => false

/-! ## collisionChecker (zip.go 913–943) -/

structure PathInfo where
  fold : Bytes
  path : Bytes
  isDir : Bool
  deriving DecidableEq, Repr

abbrev CC := List PathInfo

def CC.find (cc : CC) (fold : Bytes) : Option PathInfo := List.find? (fun e => e.fold == fold) cc

/-- the part of `collisionChecker.check` before the recursive call: look the folded path up; report a
    clash, or register the path. -/
def ccStep (toFold : Bytes → Bytes) (cc : CC) (p : Bytes) (isDir : Bool) : CC × Option Reason :=
  match cc.find (toFold p) with
  | some other =>
    if p != other.path then (cc, some .caseCollision)
    else if isDir != other.isDir then (cc, some .fileAndDir)
    else if !isDir then (cc, some .multiple)
    else (cc, none)
  | none => (cc ++ [⟨toFold p, p, isDir⟩], none)

/-- `collisionChecker.check`; the recursion on `path.Dir` is bounded by `fuel` (`p.length + 1` suffices
    for relative paths; an absolute path makes the Go code recurse forever — `Reason.panic`). -/
def ccCheck (toFold : Bytes → Bytes) : Nat → CC → Bytes → Bool → CC × Option Reason
  | 0, cc, _, _ => (cc, some .panic)
  | fuel + 1, cc, p, isDir =>
    match ccStep toFold cc p isDir with
    | (cc', some e) => (cc', some e)
    | (cc', none) =>
      if pathDir p != [46] then ccCheck toFold fuel cc' (pathDir p) true
      else (cc', none)

def ccCheckTop (toFold : Bytes → Bytes) (cc : CC) (p : Bytes) (isDir : Bool) : CC × Option Reason :=
  ccCheck toFold (p.length + 1) cc p isDir

/-! ## checkFiles (zip.go 217–353) -/

/-- all prefixes of `p` that end in a slash, shortest first: the directories visited by `inSubmodule`.
    `racc` = the bytes already passed, reversed. -/
def dirPrefixesAux (racc : Bytes) : Bytes → List Bytes
  | [] => []
  | c :: rest =>
    if c == 47 then (c :: racc).reverse :: dirPrefixesAux (c :: racc) rest
    else dirPrefixesAux (c :: racc) rest

def dirPrefixes (p : Bytes) : List Bytes := dirPrefixesAux [] p

/-- the closure `inSubmodule` of checkFiles: some proper directory prefix of `p` holds a go.mod. -/
def inSubmodule (haveGoMod : List Bytes) (p : Bytes) : Bool :=
  (dirPrefixes p).any (fun d => haveGoMod.contains d)

structure St where
  cf : CheckedFiles := {}
  errPaths : List Bytes := []
  validFiles : List FileInfo := []
  cc : CC := []
  maxSize : Int := MaxZipFile
  deriving Repr

/-- the closure `addError` of checkFiles: only the first report for a path is kept. -/
def St.addError (s : St) (path : Bytes) (omitted : Bool) (r : Reason) : St :=
  if s.errPaths.contains path then s
  else
    let s := { s with errPaths := s.errPaths ++ [path] }
    if omitted then { s with cf := { s.cf with omitted := s.cf.omitted ++ [(path, r)] } }
    else { s with cf := { s.cf with invalid := s.cf.invalid ++ [(path, r)] } }

/-- state of the first loop: directories holding a go.mod, go version flag, early lstat errors. -/
structure Pre where
  st : St := {}
  haveGoMod : List Bytes := []
  ge124 : Bool := false

def preStep (a : Pre) (f : FileInfo) : Pre :=
  let p := f.path
  let (dir, base) := pathSplit p
  if equalFoldGoMod base then
    if f.mode == .lstatErr then { a with st := a.st.addError p false .lstat }
    else if f.mode != .regular then a
    else
      let a := { a with haveGoMod := a.haveGoMod ++ [dir] }
      if base == goModName && dir == [] then { a with ge124 := f.goGe124 } else a
  else a

def prePass (files : List FileInfo) : Pre := files.foldl preStep {}

/-- `size >= 0 && size <= maxSize` then `maxSize -= size`, else SizeError. -/
def St.account (s : St) (size : Int) : St :=
  if 0 ≤ size ∧ size ≤ s.maxSize then { s with maxSize := s.maxSize - size }
  else { s with cf := { s.cf with sizeError := true } }

def St.pushValid (s : St) (f : FileInfo) : St :=
  { s with cf := { s.cf with valid := s.cf.valid ++ [f.path] }, validFiles := s.validFiles ++ [f] }

def St.setCC (s : St) (cc : CC) : St := { s with cc := cc }

/-- a regular file whose name passed every check: size accounting and the two per-file limits. -/
def stepSized (s : St) (f : FileInfo) : St :=
  if f.path == goModName && f.size > MaxGoMod then (s.account f.size).addError f.path false .goModSize
  else if f.path == licenseName && f.size > MaxLICENSE then (s.account f.size).addError f.path false .licenseSize
  else (s.account f.size).pushValid f

/-- after the collision check: symbolic links and other irregular files are omitted. -/
def stepMode (s : St) (f : FileInfo) : St :=
  if f.mode == .symlink then s.addError f.path true .symlink
  else if f.mode != .regular then s.addError f.path true .notRegular
  else stepSized s f

/-- `Lstat` and the collision check. -/
def stepStat (E : Env) (s : St) (f : FileInfo) : St :=
  if f.mode == .lstatErr then s.addError f.path false .lstat
  else
    match ccCheckTop E.toFold s.cc f.path (f.mode == .dir) with
    | (cc', some e) => (s.setCC cc').addError f.path false e
    | (cc', none) => stepMode (s.setCC cc') f

/-- body of the second loop for one file. -/
def stepFile (E : Env) (ge124 : Bool) (haveGoMod : List Bytes) (s : St) (f : FileInfo) : St :=
  if f.path != pathClean f.path then s.addError f.path false .notClean
  else if isAbs f.path then s.addError f.path false .notRelative
  else if isVendoredPackage f.path ge124 then s.addError f.path true .vendored
  else if inSubmodule haveGoMod f.path then s.addError f.path true .submoduleFile
  else if f.path == hgArchivalName then s.addError f.path true .hgArchival
  else if !E.cfp f.path then s.addError f.path false .filePath
  else if toLowerIsGoMod f.path && f.path != goModName then s.addError f.path false .goModCase
  else stepStat E s f

/-- second loop with the go version flag and the go.mod directories given. -/
def mainPass (E : Env) (ge124 : Bool) (haveGoMod : List Bytes) (s0 : St) (files : List FileInfo) : St :=
  files.foldl (stepFile E ge124 haveGoMod) s0

/-- `checkFiles` with the go-version flag supplied (DESIGN §4: the harness re-derives it). -/
def checkFilesSt (E : Env) (files : List FileInfo) (ge124 : Bool) : St :=
  let pre := prePass files
  mainPass E ge124 pre.haveGoMod pre.st files

def checkFiles (E : Env) (files : List FileInfo) (ge124 : Bool) : CheckedFiles :=
  (checkFilesSt E files ge124).cf

/-- the flag `checkFiles` itself derives: the last regular root `go.mod` of the list decides. -/
def goVers (files : List FileInfo) : Bool := (prePass files).ge124

/-- `checkFiles` as the Go function computes it (flag taken from the root go.mod in the list). -/
def checkFilesV (E : Env) (files : List FileInfo) : CheckedFiles := checkFiles E files (goVers files)

/-! ## Create (zip.go 516–572) -/

structure Entry where
  name : Bytes
  /-- `UncompressedSize64` as declared in the header -/
  declSize : Nat
  content : Bytes
  deriving DecidableEq, Repr, Inhabited

inductive CreateErr where
  | badModule | size | invalid | contentLarger | nameTooLong
  deriving DecidableEq, Repr

/-- "<module>@<version>/" -/
def zipPrefix (mpath mvers : Bytes) : Bytes := mpath ++ [64] ++ mvers ++ [47]

/-- the loop over `validFiles`: `addFile`.  archive/zip refuses names longer than 65535 bytes. -/
def addFiles (pfx : Bytes) : List FileInfo → Except CreateErr (List Entry)
  | [] => .ok []
  | f :: rest =>
    if (pfx ++ f.path).length > 65535 then .error .nameTooLong
    else if (f.content.length : Int) ≥ f.size + 1 then .error .contentLarger
    else
      match addFiles pfx rest with
      | .error e => .error e
      | .ok es => .ok (⟨pfx ++ f.path, f.content.length, f.content⟩ :: es)

def create (E : Env) (mpath mvers : Bytes) (files : List FileInfo) : Except CreateErr (List Entry) :=
  if !E.modOK mpath mvers then .error .badModule
  else
    let st := checkFilesSt E files (goVers files)
    match st.cf.err with
    | some .size => .error .size
    | some .invalid => .error .invalid
    | none => addFiles (zipPrefix mpath mvers) st.validFiles

/-! ## checkZip (zip.go 417–505) -/

/-- `int64(zf.UncompressedSize64)` -/
def int64OfU64 (n : Nat) : Int := if n < 2 ^ 63 then (n : Int) else (n : Int) - (2 : Int) ^ 64

structure ZSt where
  cf : CheckedFiles := {}
  cc : CC := []
  size : Int := 0
  deriving Repr

def ZSt.addError (s : ZSt) (name : Bytes) (r : Reason) : ZSt :=
  { s with cf := { s.cf with invalid := s.cf.invalid ++ [(name, r)] } }

def hasSlashSuffix (s : Bytes) : Bool := s.getLast? == some 47

def ZSt.account (s : ZSt) (sz : Int) : ZSt :=
  if 0 ≤ sz ∧ (MaxZipFile : Int) - s.size ≥ sz then { s with size := s.size + sz }
  else { s with cf := { s.cf with sizeError := true } }

def ZSt.pushValid (s : ZSt) (name : Bytes) : ZSt :=
  { s with cf := { s.cf with valid := s.cf.valid ++ [name] } }

def ZSt.setCC (s : ZSt) (cc : CC) : ZSt := { s with cc := cc }

/-- a file entry whose name passed the path and collision checks: go.mod placement and sizes.
    `name` = path below the prefix. -/
def zipSized (s : ZSt) (zf : Entry) (name : Bytes) : ZSt :=
  if equalFoldGoMod (pathBase name) && pathBase name != name then s.addError zf.name .goModNotRoot
  else if equalFoldGoMod (pathBase name) && name != goModName then s.addError zf.name .goModCase
  else if name == goModName && int64OfU64 zf.declSize > MaxGoMod then
    (s.account (int64OfU64 zf.declSize)).addError zf.name .goModSize
  else if name == licenseName && int64OfU64 zf.declSize > MaxLICENSE then
    (s.account (int64OfU64 zf.declSize)).addError zf.name .licenseSize
  else (s.account (int64OfU64 zf.declSize)).pushValid zf.name

/-- checks on the path `name` below the prefix (`isDir`: it had a trailing slash, already removed). -/
def zipNamed (E : Env) (s : ZSt) (zf : Entry) (name : Bytes) (isDir : Bool) : ZSt :=
  if pathClean name != name then s.addError zf.name .notClean
  else if !E.cfp name then s.addError zf.name .filePath
  else
    match ccCheckTop E.toFold s.cc name isDir with
    | (cc', some e) => (s.setCC cc').addError zf.name e
    | (cc', none) => if isDir then s.setCC cc' else zipSized (s.setCC cc') zf name

def zipStep (E : Env) (pfx : Bytes) (s : ZSt) (zf : Entry) : ZSt :=
  if !isPrefixOfB pfx zf.name then s.addError zf.name .noPrefix
  else if zf.name.drop pfx.length == [] then s
  else if hasSlashSuffix (zf.name.drop pfx.length) then zipNamed E s zf (zf.name.drop pfx.length).dropLast true
  else zipNamed E s zf (zf.name.drop pfx.length) false

inductive ZipErr where
  | badModule
  deriving DecidableEq, Repr

/-- `checkZip`: `.error` = the module path/version is rejected (or, in Go, the container is unreadable);
    otherwise the report (whose `.err` is the returned error).  `zipSize` = size of the archive file. -/
def checkZip (E : Env) (mpath mvers : Bytes) (zipSize : Nat) (entries : List Entry) : Except ZipErr CheckedFiles :=
  if !E.modOK mpath mvers then .error .badModule
  else if zipSize > MaxZipFile then .ok { sizeError := true }
  else .ok (entries.foldl (zipStep E (zipPrefix mpath mvers)) {}).cf

/-! ## Unzip (zip.go 840–906) as a list of file-system effects -/

inductive Effect where
  | mkdirAll (p : Bytes)
  /-- `os.OpenFile(p, O_WRONLY|O_CREATE|O_EXCL)` followed by the copy; `none` = the copy failed (what
      was written is unspecified) -/
  | createExcl (p : Bytes) (content : Option Bytes)
  deriving DecidableEq, Repr

def Effect.path : Effect → Bytes
  | .mkdirAll p => p
  | .createExcl p _ => p

inductive Target where
  | missing | emptyDir | nonEmptyDir | notDir
  deriving DecidableEq, Repr

inductive UnzipErr where
  | notEmpty | badModule | size | invalid | mkdir | exists | contentSize
  deriving DecidableEq, Repr

/-- filepath.Join(dir, name) on a slash-separated system -/
def fpJoin (dir name : Bytes) : Bytes :=
  if dir == [] then pathClean name
  else if name == [] then pathClean dir
  else pathClean (dir ++ [47] ++ name)

/-- files created so far -/
def createdFiles : List Effect → List Bytes
  | [] => []
  | .createExcl p _ :: rest => p :: createdFiles rest
  | .mkdirAll _ :: rest => createdFiles rest

/-- directories that exist because of a `mkdirAll` so far: the argument and every ancestor. -/
def ancestorsAndSelf (p : Bytes) : List Bytes := (dirPrefixes p).map List.dropLast ++ [p]

def createdDirs : List Effect → List Bytes
  | [] => []
  | .mkdirAll p :: rest => ancestorsAndSelf p ++ createdDirs rest
  | .createExcl _ _ :: rest => createdDirs rest

/-- `dst := filepath.Join(dir, name)` for the entry -/
def dstOf (dir pfx : Bytes) (zf : Entry) : Bytes := fpJoin dir (zf.name.drop pfx.length)

/-- one file entry: `MkdirAll(filepath.Dir(dst))`, `OpenFile(dst, O_EXCL)`, copy.  `fx` = effects so far. -/
def unzipEntry (dir pfx : Bytes) (fx : List Effect) (zf : Entry) : List Effect × Option UnzipErr :=
  -- os.MkdirAll(filepath.Dir(dst)): fails if the directory or an ancestor is an existing file
  if (ancestorsAndSelf (pathDir (dstOf dir pfx zf))).any (fun d => (createdFiles fx).contains d) then
    (fx, some .mkdir)
  -- O_EXCL: fails if dst exists (as a file or as a directory)
  else if (createdFiles (fx ++ [.mkdirAll (pathDir (dstOf dir pfx zf))])).contains (dstOf dir pfx zf)
      || (createdDirs (fx ++ [.mkdirAll (pathDir (dstOf dir pfx zf))])).contains (dstOf dir pfx zf) then
    (fx ++ [.mkdirAll (pathDir (dstOf dir pfx zf))], some .exists)
  else if zf.content.length != zf.declSize then
    (fx ++ [.mkdirAll (pathDir (dstOf dir pfx zf)), .createExcl (dstOf dir pfx zf) none], some .contentSize)
  else
    (fx ++ [.mkdirAll (pathDir (dstOf dir pfx zf)), .createExcl (dstOf dir pfx zf) (some zf.content)], none)

/-- entries `Unzip` skips: the prefix alone, and directory entries -/
def skipEntry (pfx : Bytes) (zf : Entry) : Bool :=
  zf.name.drop pfx.length == [] || hasSlashSuffix (zf.name.drop pfx.length)

/-- the extraction loop: `fx` = effects so far. -/
def unzipLoop (dir : Bytes) (pfx : Bytes) : List Effect → List Entry → List Effect × Option UnzipErr
  | fx, [] => (fx, none)
  | fx, zf :: rest =>
    if skipEntry pfx zf then unzipLoop dir pfx fx rest
    else
      match unzipEntry dir pfx fx zf with
      | (fx', some e) => (fx', some e)
      | (fx', none) => unzipLoop dir pfx fx' rest

structure UnzipResult where
  effects : List Effect
  err : Option UnzipErr
  deriving Repr

def unzip (E : Env) (dir : Bytes) (target : Target) (mpath mvers : Bytes) (zipSize : Nat)
    (entries : List Entry) : UnzipResult :=
  if target == .nonEmptyDir then ⟨[], some .notEmpty⟩
  else
    match checkZip E mpath mvers zipSize entries with
    | .error _ => ⟨[], some .badModule⟩
    | .ok cf =>
      match cf.err with
      | some .size => ⟨[], some .size⟩
      | some .invalid => ⟨[], some .invalid⟩
      | none =>
        if target == .notDir then ⟨[], some .mkdir⟩
        else
          let (fx, e) := unzipLoop dir (zipPrefix mpath mvers) [.mkdirAll dir] entries
          ⟨fx, e⟩

/-! ## directory trees: listFilesInDir (zip.go 948–1014), CheckDir, CreateFromDir -/

inductive Node where
  | file (mode : Mode) (size : Int) (content : Bytes) (goGe124 : Bool)
  | dir (children : List (Bytes × Node))
  deriving Repr, Inhabited

def Node.isDir : Node → Bool
  | .dir _ => true
  | .file .. => false

/-- `os.Lstat(filepath.Join(filePath, "go.mod"))` succeeds with a non-directory -/
def hasGoModFile (children : List (Bytes × Node)) : Bool :=
  children.any (fun c => c.1 == goModName && !c.2.isDir)

def childPath (rel name : Bytes) : Bytes := if rel == [] then name else rel ++ [47] ++ name

structure Listing where
  files : List FileInfo := []
  omitted : List (Bytes × Reason) := []
  deriving Repr

def Listing.append (a b : Listing) : Listing := ⟨a.files ++ b.files, a.omitted ++ b.omitted⟩

mutual
/-- the walk function applied to the entry `slashPath` (not the root) and, unless skipped, its subtree. -/
def walkNode (ge124 : Bool) (slashPath base : Bytes) : Node → Listing
  | .file mode size content g =>
    if isVendoredPackage slashPath ge124 then ⟨[], [(slashPath, .vendored)]⟩
    else if mode != .regular then ⟨[], [(slashPath, .notRegular)]⟩
    else ⟨[⟨slashPath, mode, size, content, g⟩], []⟩
  | .dir children =>
    if isVendoredPackage slashPath ge124 then
      -- `return nil` for a directory does not skip it: the walk continues below
      Listing.append ⟨[], [(slashPath, .vendored)]⟩ (walkChildren ge124 slashPath children)
    else if vcsDirs.contains base then ⟨[], [(slashPath, .vcs)]⟩
    else if hasGoModFile children then ⟨[], [(slashPath, .submoduleDir)]⟩
    else walkChildren ge124 slashPath children

def walkChildren (ge124 : Bool) (rel : Bytes) : List (Bytes × Node) → Listing
  | [] => {}
  | (name, n) :: rest =>
    Listing.append (walkNode ge124 (childPath rel name) name n) (walkChildren ge124 rel rest)
end

/-- `listFilesInDir`: `children` = entries of the root directory in lexical order; `ge124` = flag of the
    root go.mod as `os.ReadFile` sees it. -/
def listFilesInDir (ge124 : Bool) (children : List (Bytes × Node)) : Listing :=
  walkChildren ge124 [] children

/-- `CheckDir` with paths kept relative to the directory (the Go code joins them with `dir`). -/
def checkDir (E : Env) (ge124 : Bool) (children : List (Bytes × Node)) : CheckedFiles :=
  let l := listFilesInDir ge124 children
  let cf := checkFilesV E l.files
  { cf with omitted := cf.omitted ++ l.omitted }

def createFromDir (E : Env) (mpath mvers : Bytes) (ge124 : Bool) (children : List (Bytes × Node)) :
    Except CreateErr (List Entry) :=
  create E mpath mvers (listFilesInDir ge124 children).files

/-! ### building a tree from a flat listing (decoding for the driver; keeps children sorted by name) -/

/-- insert or update the child `name` in a name-sorted child list. -/
def modifyChild (name : Bytes) (f : Option Node → Node) : List (Bytes × Node) → List (Bytes × Node)
  | [] => [(name, f none)]
  | (k, v) :: rest =>
    if k == name then (k, f (some v)) :: rest
    else if bytesLt name k then (name, f none) :: (k, v) :: rest
    else (k, v) :: modifyChild name f rest

def childrenOf : Option Node → List (Bytes × Node)
  | some (.dir cs) => cs
  | _ => []

/-- put `leaf` at the component path `comps` below a directory with children `cs`. -/
def insertPath : List Bytes → Node → List (Bytes × Node) → List (Bytes × Node)
  | [], _, cs => cs
  | [c], leaf, cs => modifyChild c (fun old => match leaf, old with
      | .dir _, some (.dir existing) => .dir existing     -- directory listed after its contents
      | _, _ => leaf) cs
  | c :: c' :: rest, leaf, cs =>
    modifyChild c (fun old => .dir (insertPath (c' :: rest) leaf (childrenOf old))) cs

def treeOfList (items : List (Bytes × Node)) : List (Bytes × Node) :=
  items.foldl (fun cs it => insertPath (splitOn 47 it.1) it.2 cs) []

end ModVerif.Zip
