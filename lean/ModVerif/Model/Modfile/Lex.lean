/-
  Lexer of modfile/read.go: `input` state, `readRune` (line / rune-in-line / byte tracking),
  `readToken` (spaces, `//` comments classified whole-line vs suffix, `/* */` rejection, quoted
  strings, punctuation, identifiers), `lex`/`peek`.

  `in.Error` panics with the error list and `parse` recovers it: the parse stops at the first
  syntax error.  Here every function returns `Except SynErr …`; the error carries `in.pos` at the
  time of the call.  Go's "internal lexer error"/"internal parse error"/recovered-panic branches
  are the `SynErrKind.internal` constructor, so their unreachability can be stated.

  All loops call `readRune` and recurse on explicit fuel (`remaining.length + 1` suffices because
  every iteration consumes at least one byte); running out of fuel is `internal .fuel`.
-/
import ModVerif.Basic.Utf8
import ModVerif.Basic.UnicodePrint
import ModVerif.Basic.GoStrings
import ModVerif.Model.Modfile.Syntax
namespace ModVerif.Modfile
open ModVerif

inductive InternalTag where
  | readRuneAtEOF      -- "internal lexer error: readRune at EOF"
  | parseLineAtEOL     -- "internal parse error: parseLine at end of line"
  | fuel               -- model only: a loop ran out of fuel (never happens; see Proofs)
  deriving Repr, DecidableEq, Inhabited

/-- syntax-layer error kinds (one per `in.Error` call site). -/
inductive SynErrKind where
  | blockComment       -- "mod files must use // comments (not /* */ comments)"
  | eofInString        -- "unexpected EOF in string"
  | newlineInString    -- "unexpected newline in string"
  | badChar            -- "unexpected input character %#q"
  | unterminatedBlock  -- "syntax error (unterminated block started at …)"
  | afterRParen        -- "syntax error (expected newline after closing paren)"
  | internal (tag : InternalTag)
  deriving Repr, DecidableEq, Inhabited

structure SynErr where
  pos : Position
  kind : SynErrKind
  deriving Repr, DecidableEq, Inhabited

/-- read.go `tokenKind`: negative constants and ASCII codes of newline / punctuation. -/
inductive TokKind where
  | eof | eolComment | ident | string | comment
  | punct (c : UInt8)       -- '\n' ( ) [ ] { } ,
  deriving Repr, DecidableEq, Inhabited

def TokKind.isComment : TokKind → Bool
  | .comment | .eolComment => true
  | _ => false

def TokKind.isEOL : TokKind → Bool
  | .eof | .eolComment => true
  | .punct c => c == 10
  | _ => false

structure Token where
  kind : TokKind := .eof
  pos : Position := {}
  endPos : Position := {}
  text : Bytes := []
  deriving Repr, DecidableEq, Inhabited

/-- read.go `input` (lexing state).  `complete[:pos.Byte]` is `consumedRev.reverse`;
    `tokenStart[:len(tokenStart)-len(remaining)]` is `tokRev.reverse`; `comments` is kept reversed. -/
structure Input where
  consumedRev : Bytes := []
  remaining : Bytes := []
  tokRev : Bytes := []
  token : Token := {}
  pos : Position := { line := 1, lineRune := 1, byte := 0 }
  commentsRev : List Comment := []
  nextId : Nat := 0
  deriving Repr, Inhabited

def newInput (data : Bytes) : Input := { remaining := data }

def Input.error (i : Input) (k : SynErrKind) : SynErr := ⟨i.pos, k⟩

def Input.eof (i : Input) : Bool := i.remaining.isEmpty

/-- peekRune: 0 at EOF. -/
def Input.peekRune (i : Input) : Nat :=
  match i.remaining with
  | [] => 0
  | _ :: _ => (Utf8.decodeRune i.remaining).1

def Input.peekPrefix (i : Input) (p : Bytes) : Bool := isPrefixOfB p i.remaining

/-- readRune: consume one rune, advance the position. -/
def readRune (i : Input) : Except SynErr (Nat × Input) :=
  match i.remaining with
  | [] => .error (i.error (.internal .readRuneAtEOF))
  | _ :: _ =>
    let rw := Utf8.decodeRune i.remaining
    let r := rw.1
    let size := rw.2
    let taken := (i.remaining.take size).reverse
    let pos : Position :=
      if r == 10 then { line := i.pos.line + 1, lineRune := 1, byte := i.pos.byte + size }
      else { line := i.pos.line, lineRune := i.pos.lineRune + 1, byte := i.pos.byte + size }
    .ok (r, { i with remaining := i.remaining.drop size, consumedRev := taken ++ i.consumedRev,
                     tokRev := taken ++ i.tokRev, pos := pos })

def startToken (i : Input) : Input :=
  { i with tokRev := [], token := { i.token with text := [], pos := i.pos } }

/-- endToken: a single trailing LF or CRLF is removed from comment tokens. -/
def endToken (kind : TokKind) (i : Input) : Input :=
  let rev := if kind.isComment then
      match i.tokRev with
      | 10 :: 13 :: r => r
      | 10 :: r => r
      | r => r
    else i.tokRev
  { i with token := { kind := kind, pos := i.token.pos, endPos := i.pos, text := rev.reverse } }

/-- the runes isIdent excludes before the IsSpace/IsPrint test: `' ', '(', ')', '[', ']', '{', '}', ','` -/
def identExcluded : List Nat := [32, 40, 41, 91, 93, 123, 125, 44]

/-- isIdent -/
def isIdent (c : Nat) : Bool :=
  if identExcluded.contains c then false
  else !UnicodePrint.isSpace c && UnicodePrint.isPrint c

/-- the punctuation runes of readToken's `switch`: `'\n', '(', ')', '[', ']', '{', '}', ','` -/
def punctRunes : List Nat := [10, 40, 41, 91, 93, 123, 125, 44]

/-- the string quote runes of readToken's `switch`: `'"'`, backquote -/
def quoteRunes : List Nat := [34, 96]

def isPunct (c : Nat) : Bool := punctRunes.contains c

/-- skip ' ', '\t', '\r' -/
def skipSpaces : Nat → Input → Except SynErr Input
  | 0, i => .error (i.error (.internal .fuel))
  | fuel + 1, i =>
    if i.eof then .ok i else
    let c := i.peekRune
    if c == 32 || c == 9 || c == 13 then do
      let (_, i) ← readRune i
      skipSpaces fuel i
    else .ok i

/-- `for len(in.remaining) > 0 && in.readRune() != '\n' {}` -/
def consumeLine : Nat → Input → Except SynErr Input
  | 0, i => .error (i.error (.internal .fuel))
  | fuel + 1, i =>
    if i.eof then .ok i else do
      let (r, i) ← readRune i
      if r == 10 then .ok i else consumeLine fuel i

/-- the `//` branch of readToken -/
def readComment (i : Input) : Except SynErr Input := do
  let i := startToken i
  -- Is this comment the only thing on its line?
  let linePrefix := (i.consumedRev.takeWhile (· != 10)).reverse
  let suffix := !(GoStrings.trimSpace linePrefix).isEmpty
  let (_, i) ← readRune i
  let (_, i) ← readRune i
  let i ← consumeLine (i.remaining.length + 1) i
  if !suffix then
    .ok (endToken .comment i)
  else
    let i := endToken .eolComment i
    .ok { i with commentsRev := { start := i.token.pos, token := i.token.text, suffix := true } :: i.commentsRev }

/-- the body of a quoted string after the opening quote -/
def readString (quote : Nat) : Nat → Input → Except SynErr Input
  | 0, i => .error (i.error (.internal .fuel))
  | fuel + 1, i =>
    if i.eof then .error ⟨i.token.pos, .eofInString⟩
    else if i.peekRune == 10 then .error (i.error .newlineInString)
    else do
      let (c, i) ← readRune i
      if c == quote then .ok i
      else if c == 92 && quote != 96 then
        if i.eof then .error ⟨i.token.pos, .eofInString⟩
        else do
          let (_, i) ← readRune i
          readString quote fuel i
      else readString quote fuel i

/-- `for isIdent(in.peekRune()) { … in.readRune() }` -/
def readIdent : Nat → Input → Except SynErr Input
  | 0, i => .error (i.error (.internal .fuel))
  | fuel + 1, i =>
    if isIdent i.peekRune then
      if i.peekPrefix [47, 47] then .ok i
      else if i.peekPrefix [47, 42] then .error (i.error .blockComment)
      else do
        let (_, i) ← readRune i
        readIdent fuel i
    else .ok i

/-- readToken: lex the next token into `in.token`. -/
def readToken (i : Input) : Except SynErr Input := do
  let i ← skipSpaces (i.remaining.length + 1) i
  if !i.eof && i.peekPrefix [47, 47] then readComment i
  else if !i.eof && i.peekPrefix [47, 42] then .error (i.error .blockComment)
  else
    let i := startToken i
    if i.eof then .ok (endToken .eof i)
    else
      let c := i.peekRune
      if isPunct c then do
        let (_, i) ← readRune i
        .ok (endToken (.punct (UInt8.ofNat c)) i)
      else if quoteRunes.contains c then do
        let (_, i) ← readRune i
        let i ← readString c (i.remaining.length + 1) i
        .ok (endToken .string i)
      else if !isIdent c then .error (i.error .badChar)
      else do
        let i ← readIdent (i.remaining.length + 1) i
        .ok (endToken .ident i)

def Input.peek (i : Input) : TokKind := i.token.kind

/-- lex: return the pending token and read the next one. -/
def lex (i : Input) : Except SynErr (Token × Input) := do
  let tok := i.token
  let i ← readToken i
  .ok (tok, i)

end ModVerif.Modfile
