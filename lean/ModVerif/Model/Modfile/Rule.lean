/-
  Directive layer of modfile/rule.go, parsing half: `parseToFile` (Parse / ParseLax), `File.add`,
  `parseReplace`, `parseVersionInterval`, `parseString`, `parseVersion`, `modulePathMajor`,
  `parseDirectiveComment`, `parseDeprecation`, `isIndirect`, `IsDirectoryPath`, `MustQuote`,
  `AutoQuote`, `fixRetract`, the regexps (hand-translated matchers) and `ModulePath` (read.go).

  Go's directive parser REWRITES the tokens of the syntax tree in place (`*s = AutoQuote(t)`,
  `*s = t`, `args[0] = m[1]`): every function that takes a `*string`/`*[]string` returns the new
  token(s) next to its result, and `parseToFile` rebuilds the lines.  Typed entries refer to their
  syntax line by `Line.id`.

  Errors are `RuleErr` = position + kind (one kind per message family), never texts.
  A version fixer is a parameter `Option Fixer`; `filepath.Separator` is '/' (the harness runs on
  Linux).
-/
import ModVerif.Basic.GoStrings
import ModVerif.Basic.Quote
import ModVerif.Model.Semver
import ModVerif.Model.Module
import ModVerif.Model.Modfile.Comments
import ModVerif.Model.Modfile.Print
namespace ModVerif.Modfile
open ModVerif

/-! ### error kinds -/

inductive RuleErrKind where
  | syn (k : SynErrKind)        -- the syntax layer's error, passed through
  | unknownBlock                -- "unknown block type: %s"
  | unknownDirective            -- "unknown directive: %s"
  | repeatedGo                  -- "repeated go statement"
  | goArgs                      -- "go directive expects exactly one argument"
  | invalidGoVersion            -- "invalid go version '%s': must match format 1.23.0"
  | repeatedToolchain           -- "repeated toolchain statement"
  | toolchainArgs               -- "toolchain directive expects exactly one argument"
  | invalidToolchain            -- "invalid toolchain version '%s': …"
  | repeatedModule              -- "repeated module statement"
  | moduleUsage                 -- "usage: module module/path"
  | invalidQuotedString         -- "invalid quoted string: %v"
  | godebugUsage                -- "usage: godebug key=value"
  | requireUsage                -- "usage: %s module/path v1.2.3"
  | versionString               -- parseVersion: parseString failed (InvalidVersionError)
  | versionNotCanonical         -- parseVersion: "must be of the form v1.2.3"
  | fixError                    -- parseVersion: the fixer returned a plain error
  | fixModuleError              -- parseVersion: the fixer returned a *module.ModuleError
  | invalidModulePath           -- modulePathMajor: "invalid module path"
  | pathMajorMismatch           -- module.CheckPathMajor: "should be %s, not %s"
  | replaceUsage                -- "usage: %s module/path [v1.2.3] => …"
  | replaceAtVersion            -- "replacement module must match format 'path version', not 'path@version'"
  | replaceNeedsDir             -- "replacement module without version must be directory path …"
  | replaceWindowsPath          -- "replacement directory appears to be Windows path …"
  | replaceDirWithVersion       -- "replacement module directory path %q cannot have version"
  | intervalStart               -- "expected '[' or version"
  | intervalAfterLBracket       -- "expected version after '['"
  | intervalComma               -- "expected ',' after version"
  | intervalAfterComma          -- "expected version after ','"
  | intervalRBracket            -- "expected ']' after version"
  | tokenAfterVersion           -- "unexpected token after version: %q"
  | toolArgs                    -- "tool directive expects exactly one argument"
  | useUsage                    -- "usage: %s local/dir"
  | retractNoModule             -- "no module directive found, so retract cannot be used"
  deriving Repr, DecidableEq, Inhabited

structure RuleErr where
  pos : Position
  kind : RuleErrKind
  deriving Repr, DecidableEq, Inhabited

/-! ### typed file -/

/-- module.Version -/
structure ModVersion where
  path : Bytes := []
  version : Bytes := []
  deriving Repr, DecidableEq, Inhabited

structure Module where
  mod : ModVersion := {}
  deprecated : Bytes := []
  lineId : Nat            -- `Line.id` of the syntax line (Go: `Syntax *Line`)
  deriving Repr, DecidableEq, Inhabited

structure Go where
  version : Bytes
  lineId : Nat
  deriving Repr, DecidableEq, Inhabited

structure Toolchain where
  name : Bytes
  lineId : Nat
  deriving Repr, DecidableEq, Inhabited

structure Godebug where
  key : Bytes
  value : Bytes
  lineId : Nat
  deriving Repr, DecidableEq, Inhabited

structure Require where
  mod : ModVersion
  indirect : Bool
  lineId : Nat
  deriving Repr, DecidableEq, Inhabited

structure Exclude where
  mod : ModVersion
  lineId : Nat
  deriving Repr, DecidableEq, Inhabited

structure Replace where
  old : ModVersion
  new : ModVersion
  lineId : Nat
  deriving Repr, DecidableEq, Inhabited

structure VersionInterval where
  low : Bytes := []
  high : Bytes := []
  deriving Repr, DecidableEq, Inhabited

structure Retract where
  interval : VersionInterval
  rationale : Bytes
  lineId : Nat
  deriving Repr, DecidableEq, Inhabited

structure Tool where
  path : Bytes
  lineId : Nat
  deriving Repr, DecidableEq, Inhabited

/-- rule.go `File`.  Lists are in append order. -/
structure File where
  module : Option Module := none
  go : Option Go := none
  toolchain : Option Toolchain := none
  godebug : List Godebug := []
  require : List Require := []
  exclude : List Exclude := []
  replace : List Replace := []
  retract : List Retract := []
  tool : List Tool := []
  syn : FileSyntax := {}   -- Go: `Syntax *FileSyntax`
  deriving Repr, DecidableEq, Inhabited

/-- a VersionFixer's failure: a plain error or a `*module.ModuleError` (unwrapped by parseVersion) -/
inductive FixErr where
  | plain | moduleError
  deriving Repr, DecidableEq, Inhabited

/-- `VersionFixer`: path → version → fixed version -/
abbrev Fixer := Bytes → Bytes → Except FixErr Bytes

/-! ### regexps (hand-translated; the source texts are pinned by Tie/Modfile) -/

def isDigit (c : UInt8) : Bool := 48 ≤ c && c ≤ 57
def isLower (c : UInt8) : Bool := 97 ≤ c && c ≤ 122

/-- `[1-9][0-9]*` at the head: (digits, rest) -/
def reNumNZ (s : Bytes) : Option (Bytes × Bytes) :=
  match s with
  | c :: rest => if 49 ≤ c && c ≤ 57 then some (c :: rest.takeWhile isDigit, rest.dropWhile isDigit) else none
  | [] => none

/-- `(0|[1-9][0-9]*)` at the head, when the next character is known not to be a digit:
    the maximal digit run, which must be "0" or start with a non-zero digit. -/
def reNum (s : Bytes) : Option (Bytes × Bytes) :=
  match s with
  | 48 :: rest => if (rest.head?.map isDigit).getD false then none else some ([48], rest)
  | _ => reNumNZ s

def goVersionRESrc : String := "^([1-9][0-9]*)\\.(0|[1-9][0-9]*)(\\.(0|[1-9][0-9]*))?([a-z]+[0-9]+)?$"

/-- GoVersionRE.MatchString -/
def goVersionRE (s : Bytes) : Bool :=
  match reNumNZ s with
  | some (_, 46 :: s1) =>
    match reNum s1 with
    | some (_, s2) =>
      -- optional `\.(0|[1-9][0-9]*)`
      let s3 : Option Bytes := match s2 with
        | 46 :: t => (reNum t).map (·.2)
        | _ => some s2
      match s3 with
      | none => false
      | some s3 =>
        -- optional `[a-z]+[0-9]+`, then end
        if s3.isEmpty then true else
        let letters := s3.takeWhile isLower
        let s4 := s3.dropWhile isLower
        let ds := s4.takeWhile isDigit
        let s5 := s4.dropWhile isDigit
        !letters.isEmpty && !ds.isEmpty && s5.isEmpty
    | none => false
  | _ => false

def laxGoVersionRESrc : String := "^v?(([1-9][0-9]*)\\.(0|[1-9][0-9]*))([^0-9].*)$"

/-- laxGoVersionRE.FindStringSubmatch: `m[1]`, the `major.minor` prefix, if the string matches. -/
def laxGoVersionRE (s : Bytes) : Option Bytes :=
  let s0 := match s with
    | 118 :: t => t
    | _ => s
  match reNumNZ s0 with
  | some (maj, 46 :: s1) =>
    match reNum s1 with
    | some (min, c :: rest) =>
      -- `[^0-9]` then `.*` (no newline) up to the end
      if !isDigit c && !rest.contains 10 then some (maj ++ [46] ++ min) else none
    | _ => none
  | _ => none

def toolchainRESrc : String := "^default$|^go1($|\\.)"

/-- ToolchainRE.MatchString -/
def toolchainRE (s : Bytes) : Bool :=
  s == B "default" ||
  (isPrefixOfB (B "go1") s && (match s.drop 3 with
    | [] => true
    | c :: _ => c == 46))

def deprecatedRESrc : String := "(?s)(?:^|\\n\\n)Deprecated: *(.*?)(?:$|\\n\\n)"

/-- text up to the first "\n\n" or the end (`(.*?)(?:$|\n\n)` with `(?s)`) -/
def upToBlankLine : Bytes → Bytes
  | [] => []
  | 10 :: 10 :: _ => []
  | c :: rest => c :: upToBlankLine rest

/-- search for the leftmost `(?:^|\n\n)Deprecated:`; `atStart` = position 0 -/
def deprecatedFind : Bytes → Bool → Option Bytes
  | [], _ => none
  | c :: rest, atStart =>
    let s := c :: rest
    if atStart && isPrefixOfB (B "Deprecated:") s then some (s.drop 11)
    else if isPrefixOfB (B "\n\nDeprecated:") s then some (s.drop 13)
    else deprecatedFind rest false

/-- deprecatedRE.FindStringSubmatch: `m[1]` if there is a match -/
def deprecatedRE (text : Bytes) : Option Bytes :=
  (deprecatedFind text true).map fun after => upToBlankLine (after.dropWhile (· == 32))

/-! ### leaf functions -/

/-- IsDirectoryPath -/
def isDirectoryPath (ns : Bytes) : Bool :=
  ns == B "." || isPrefixOfB (B "./") ns || isPrefixOfB (B ".\\") ns ||
  ns == B ".." || isPrefixOfB (B "../") ns || isPrefixOfB (B "..\\") ns ||
  isPrefixOfB (B "/") ns || isPrefixOfB (B "\\") ns ||
  (match ns with
   | c0 :: c1 :: _ => ((65 ≤ c0 && c0 ≤ 90) || (97 ≤ c0 && c0 ≤ 122)) && c1 == 58
   | _ => false)

/-- MustQuote: runes that always force quoting: `' ', '"', '\'', backquote` -/
def mustQuoteAlways : List Nat := [32, 34, 39, 96]

/-- MustQuote: runes that force quoting when `len(s) > 1`: `'(', ')', '[', ']', '{', '}', ','` -/
def mustQuoteIfLong : List Nat := [40, 41, 91, 93, 123, 125, 44]

/-- the rune loop of MustQuote: true = `return true` inside the loop -/
def mustQuoteRunes (len : Nat) : List Nat → Bool
  | [] => false
  | r :: rest =>
    if mustQuoteAlways.contains r then true
    else if mustQuoteIfLong.contains r then
      if len > 1 then true else mustQuoteRunes len rest
    else if !UnicodePrint.isPrint r then true
    else mustQuoteRunes len rest

/-- MustQuote -/
def mustQuote (s : Bytes) : Bool :=
  mustQuoteRunes s.length (Utf8.runes s) ||
  s.isEmpty || GoStrings.contains s [47, 47] || GoStrings.contains s [47, 42]

/-- AutoQuote -/
def autoQuote (s : Bytes) : Bytes := if mustQuote s then Quote.quote s else s

/-- parseString: (value, new token).  `none` = error (the token is left alone). -/
def parseString (tok : Bytes) : Option (Bytes × Bytes) :=
  if isPrefixOfB [34] tok then
    match Quote.unquote tok with
    | none => none
    | some t => some (t, autoQuote t)
  else if GoStrings.containsAny tok [34, 39, 96] then none
  else some (tok, autoQuote tok)

/-- parseVersion: (new token, result) -/
def parseVersion (path : Bytes) (tok : Bytes) (fix : Option Fixer) : Bytes × Except RuleErrKind Bytes :=
  match parseString tok with
  | none => (tok, .error .versionString)
  | some (t, tok1) =>
    match fix with
    | some fx =>
      match fx path t with
      | .error .moduleError => (tok1, .error .fixModuleError)
      | .error .plain => (tok1, .error .fixError)
      | .ok fixed => (fixed, .ok fixed)
    | none =>
      let cv := Semver.canonicalVersion t
      if cv.isEmpty then (tok1, .error .versionNotCanonical)
      else (cv, .ok cv)

/-- dontFixRetract -/
def dontFixRetract : Fixer := fun _ vers => .ok vers

/-- modulePathMajor -/
def modulePathMajor (path : Bytes) : Option Bytes :=
  let (_, major, ok) := Module.splitPathVersion path
  if ok then some major else none

/-- parseVersionInterval: (all tokens after in-place updates, result with the remaining args) -/
def parseVersionInterval (path : Bytes) (toks : List Bytes) (fix : Option Fixer) :
    List Bytes × Except RuleErrKind (VersionInterval × List Bytes) :=
  match toks with
  | [] => (toks, .error .intervalStart)
  | t0 :: rest =>
    if t0 == [40] then (toks, .error .intervalStart)
    else if t0 != [91] then
      match parseVersion path t0 fix with
      | (t0', .error e) => (t0' :: rest, .error e)
      | (t0', .ok v) => (t0' :: rest, .ok ({ low := v, high := v }, rest))
    else
      match rest with
      | [] => (toks, .error .intervalAfterLBracket)
      | t1 :: rest1 =>
        match parseVersion path t1 fix with
        | (t1', .error e) => (t0 :: t1' :: rest1, .error e)
        | (t1', .ok low) =>
          match rest1 with
          | [] => (t0 :: t1' :: rest1, .error .intervalComma)
          | c :: rest2 =>
            if c != [44] then (t0 :: t1' :: rest1, .error .intervalComma) else
            match rest2 with
            | [] => (t0 :: t1' :: rest1, .error .intervalAfterComma)
            | t2 :: rest3 =>
              match parseVersion path t2 fix with
              | (t2', .error e) => (t0 :: t1' :: c :: t2' :: rest3, .error e)
              | (t2', .ok high) =>
                match rest3 with
                | [] => (t0 :: t1' :: c :: t2' :: rest3, .error .intervalRBracket)
                | r :: rest4 =>
                  if r != [93] then (t0 :: t1' :: c :: t2' :: rest3, .error .intervalRBracket)
                  else (t0 :: t1' :: c :: t2' :: r :: rest4, .ok ({ low := low, high := high }, rest4))

/-- parseDirectiveComment; `block` = the comments of the enclosing block, if any -/
def parseDirectiveComment (block : Option Comments) (line : Comments) : Bytes :=
  let comments := match block with
    | some bc => if line.before.isEmpty && line.suffix.isEmpty then bc else line
    | none => line
  let lines := (comments.before ++ comments.suffix).filterMap fun c =>
    if isPrefixOfB [47, 47] c.token then some (GoStrings.trimSpace (c.token.drop 2)) else none
  GoStrings.join lines [10]

/-- parseDeprecation -/
def parseDeprecation (block : Option Comments) (line : Comments) : Bytes :=
  (deprecatedRE (parseDirectiveComment block line)).getD []

/-- isIndirect -/
def isIndirect (line : Line) : Bool :=
  match line.comments.suffix with
  | [] => false
  | c :: _ =>
    match GoStrings.fields (GoStrings.trimPrefix c.token [47, 47]) with
    | [f0] => f0 == B "indirect"
    | f0 :: _ :: _ => f0 == B "indirect;"
    | [] => false

/-- parseReplace: (new args, result); errors carry their kind (all at `line.Start`). -/
def parseReplace (lineId : Nat) (args : List Bytes) (fix : Option Fixer) :
    List Bytes × Except RuleErrKind Replace :=
  let arrow := if args.length ≥ 2 && args[1]? == some (B "=>") then 1 else 2
  if args.length < arrow + 2 || args.length > arrow + 3 || args[arrow]? != some (B "=>") then
    (args, .error .replaceUsage)
  else
  match args with
  | [] => (args, .error .replaceUsage)     -- unreachable: length ≥ 3
  | a0 :: rest0 =>
  match parseString a0 with
  | none => (args, .error .invalidQuotedString)
  | some (s, a0') =>
  match modulePathMajor s with
  | none => (a0' :: rest0, .error .invalidModulePath)
  | some pathMajor =>
  -- optional old version (arrow == 2)
  let old : List Bytes × Except RuleErrKind Bytes :=
    if arrow == 2 then
      match rest0 with
      | a1 :: rest1 =>
        match parseVersion s a1 fix with
        | (a1', .error e) => (a1' :: rest1, .error e)
        | (a1', .ok v) =>
          if !Module.checkPathMajor v pathMajor then (a1' :: rest1, .error .pathMajorMismatch)
          else (a1' :: rest1, .ok v)
      | [] => (rest0, .error .replaceUsage)   -- unreachable
    else (rest0, .ok [])
  match old with
  | (rest0', .error e) => (a0' :: rest0', .error e)
  | (rest0', .ok v) =>
  -- rest0' = [v]? "=>" ns [nv]
  let pre := rest0'.take arrow         -- tokens up to and including "=>" (after a0)
  match rest0'.drop arrow with
  | [] => (a0' :: rest0', .error .replaceUsage)   -- unreachable
  | nsTok :: tail =>
  match parseString nsTok with
  | none => (a0' :: rest0', .error .invalidQuotedString)
  | some (ns, nsTok') =>
  let argsNow := a0' :: (pre ++ nsTok' :: tail)
  if args.length == arrow + 2 && !isDirectoryPath ns then
    if GoStrings.contains ns [64] then (argsNow, .error .replaceAtVersion)
    else (argsNow, .error .replaceNeedsDir)
  else if args.length == arrow + 2 && GoStrings.contains ns [92] then
    (argsNow, .error .replaceWindowsPath)
  else if args.length == arrow + 3 then
    match tail with
    | [] => (argsNow, .error .replaceUsage)   -- unreachable
    | nvTok :: tail2 =>
      match parseVersion ns nvTok fix with
      | (nvTok', .error e) => (a0' :: (pre ++ nsTok' :: nvTok' :: tail2), .error e)
      | (nvTok', .ok nv) =>
        let argsNow := a0' :: (pre ++ nsTok' :: nvTok' :: tail2)
        if isDirectoryPath ns then (argsNow, .error .replaceDirWithVersion)
        else (argsNow, .ok { old := { path := s, version := v }, new := { path := ns, version := nv }, lineId := lineId })
  else
    (argsNow, .ok { old := { path := s, version := v }, new := { path := ns, version := [] }, lineId := lineId })

/-! ### File.add -/

/-- state threaded through `add`: the typed file so far and the error list (reversed) -/
structure AddState where
  file : File := {}
  errsRev : List RuleErr := []
  deriving Repr, Inhabited

def AddState.err (st : AddState) (pos : Position) (k : RuleErrKind) : AddState :=
  { st with errsRev := ⟨pos, k⟩ :: st.errsRev }

/-- the verbs `File.add` keeps when `strict` is false -/
def laxVerbs : List String := ["go", "module", "retract", "require"]

/-- the verbs of `File.add`'s main switch -/
def addVerbs : List String := ["go", "toolchain", "module", "godebug", "require", "exclude", "replace", "retract", "tool"]

/-- the block verbs of `parseToFile` -/
def blockVerbs : List String := ["module", "godebug", "require", "exclude", "replace", "retract", "tool"]

/-- the verbs of `WorkFile.add` -/
def workVerbs : List String := ["go", "toolchain", "godebug", "use", "replace"]

/-- the block verbs of `ParseWork` -/
def workBlockVerbs : List String := ["godebug", "use", "replace"]

def verbIn (verb : Bytes) (l : List String) : Bool := l.any fun s => B s == verb

/-- the shared `go` / `toolchain` / `godebug` cases (identical in File.add and WorkFile.add except
    for the lax go-version fix).  Returns none when the verb is not one of the three. -/
def addGodebug (args : List Bytes) : Option (Bytes × Bytes) :=
  match args with
  | [a] =>
    if GoStrings.containsAny a [34, 96, 39, 44] then none else GoStrings.cut a 61
  | _ => none

/-- File.add: returns the new state and the (possibly rewritten) args. -/
def File.add (st : AddState) (block : Option Comments) (line : Line) (verb : Bytes) (args : List Bytes)
    (fix : Option Fixer) (strict : Bool) : AddState × List Bytes :=
  if !strict && !verbIn verb laxVerbs then (st, args) else
  let f := st.file
  let pos := line.start
  if verb == B "go" then
    if f.go.isSome then (st.err pos .repeatedGo, args) else
    match args with
    | [a] =>
      if goVersionRE a then ({ st with file := { f with go := some { version := a, lineId := line.id } } }, args)
      else
        match (if strict then none else laxGoVersionRE a) with
        | some m1 => ({ st with file := { f with go := some { version := m1, lineId := line.id } } }, [m1])
        | none => (st.err pos .invalidGoVersion, args)
    | _ => (st.err pos .goArgs, args)
  else if verb == B "toolchain" then
    if f.toolchain.isSome then (st.err pos .repeatedToolchain, args) else
    match args with
    | [a] =>
      if !toolchainRE a then (st.err pos .invalidToolchain, args)
      else ({ st with file := { f with toolchain := some { name := a, lineId := line.id } } }, args)
    | _ => (st.err pos .toolchainArgs, args)
  else if verb == B "module" then
    if f.module.isSome then (st.err pos .repeatedModule, args) else
    let deprecated := parseDeprecation block line.comments
    let m : Module := { lineId := line.id, deprecated := deprecated }
    let st := { st with file := { f with module := some m } }
    match args with
    | [a] =>
      match parseString a with
      | none => (st.err pos .invalidQuotedString, args)
      | some (s, a') => ({ st with file := { st.file with module := some { m with mod := { path := s } } } }, [a'])
    | _ => (st.err pos .moduleUsage, args)
  else if verb == B "godebug" then
    match addGodebug args with
    | none => (st.err pos .godebugUsage, args)
    | some (k, v) => ({ st with file := { f with godebug := f.godebug ++ [{ key := k, value := v, lineId := line.id }] } }, args)
  else if verb == B "require" || verb == B "exclude" then
    match args with
    | [a0, a1] =>
      match parseString a0 with
      | none => (st.err pos .invalidQuotedString, args)
      | some (s, a0') =>
        match parseVersion s a1 fix with
        | (a1', .error e) => (st.err pos e, [a0', a1'])
        | (a1', .ok v) =>
          match modulePathMajor s with
          | none => (st.err pos .invalidModulePath, [a0', a1'])
          | some pathMajor =>
            if !Module.checkPathMajor v pathMajor then (st.err pos .pathMajorMismatch, [a0', a1'])
            else if verb == B "require" then
              ({ st with file := { f with require := f.require ++
                  [{ mod := { path := s, version := v }, indirect := isIndirect line, lineId := line.id }] } }, [a0', a1'])
            else
              ({ st with file := { f with exclude := f.exclude ++
                  [{ mod := { path := s, version := v }, lineId := line.id }] } }, [a0', a1'])
    | _ => (st.err pos .requireUsage, args)
  else if verb == B "replace" then
    match parseReplace line.id args fix with
    | (args', .error e) => (st.err pos e, args')
    | (args', .ok r) => ({ st with file := { f with replace := f.replace ++ [r] } }, args')
  else if verb == B "retract" then
    let rationale := parseDirectiveComment block line.comments
    match parseVersionInterval [] args (some dontFixRetract) with
    | (args', .error e) =>
      -- Only report errors parsing intervals in the main module.
      if strict then (st.err pos e, args') else (st, args')
    | (args', .ok (vi, rest)) =>
      if !rest.isEmpty && strict then (st.err pos .tokenAfterVersion, args')
      else ({ st with file := { f with retract := f.retract ++
              [{ interval := vi, rationale := rationale, lineId := line.id }] } }, args')
  else if verb == B "tool" then
    match args with
    | [a] =>
      match parseString a with
      | none => (st.err pos .invalidQuotedString, args)
      | some (s, a') => ({ st with file := { f with tool := f.tool ++ [{ path := s, lineId := line.id }] } }, [a'])
    | _ => (st.err pos .toolArgs, args)
  else (st.err pos .unknownDirective, args)

/-! ### parseToFile -/

/-- the lines of a known block -/
def addBlockLines (block : Comments) (verb : Bytes) (fix : Option Fixer) (strict : Bool) :
    AddState → List Line → AddState × List Line
  | st, [] => (st, [])
  | st, l :: ls =>
    let (st, toks) := File.add st (some block) l verb l.token fix strict
    let (st, ls) := addBlockLines block verb fix strict st ls
    (st, { l with token := toks } :: ls)

/-- the statement loop of parseToFile -/
def addStmts (fix : Option Fixer) (strict : Bool) : AddState → List Expr → AddState × List Expr
  | st, [] => (st, [])
  | st, x :: xs =>
    let (st, x) : AddState × Expr := match x with
      | .line l =>
        match l.token with
        | verb :: args =>
          let (st, args) := File.add st none l verb args fix strict
          (st, .line { l with token := verb :: args })
        | [] => (st, x)        -- a parsed Line always has a token (Go would panic on Token[0])
      | .lineBlock b =>
        match b.token with
        | [verb] =>
          if verbIn verb blockVerbs then
            let (st, ls) := addBlockLines b.comments verb fix strict st b.lines
            (st, .lineBlock { b with lines := ls })
          else (if strict then st.err b.start .unknownBlock else st, x)
        | _ => (if strict then st.err b.start .unknownBlock else st, x)
      | _ => (st, x)
    let (st, xs) := addStmts fix strict st xs
    (st, x :: xs)

/-- apply `g` to the line with the given id -/
def updateLineIn (id : Nat) (g : Line → Line) : List Line → List Line
  | [] => []
  | l :: ls => if l.id == id then g l :: ls else l :: updateLineIn id g ls

def FileSyntax.updateLine (fs : FileSyntax) (id : Nat) (g : Line → Line) : FileSyntax :=
  { fs with stmts := fs.stmts.map fun
      | .line l => if l.id == id then .line (g l) else .line l
      | .lineBlock b => .lineBlock { b with lines := updateLineIn id g b.lines }
      | x => x }

def FileSyntax.findLine (fs : FileSyntax) (id : Nat) : Option Line :=
  fs.allLines.find? (·.id == id)

/-- the loop of fixRetract over `f.Retract` (path ≠ "") -/
def fixRetractLoop (path : Bytes) (fx : Fixer) : List Retract → FileSyntax → List RuleErr →
    List Retract × FileSyntax × List RuleErr
  | [], fs, errsRev => ([], fs, errsRev)
  | r :: rs, fs, errsRev =>
    match fs.findLine r.lineId with
    | none => -- unreachable: every Retract refers to a line of the tree
      let (rs, fs, errsRev) := fixRetractLoop path fx rs fs errsRev
      (r :: rs, fs, errsRev)
    | some l =>
      let (keep, args) := match l.token with
        | t0 :: rest => if t0 == B "retract" then ([t0], rest) else ([], l.token)
        | [] => ([], [])
      let (args', res) := parseVersionInterval path args (some fx)
      let fs := fs.updateLine r.lineId fun l => { l with token := keep ++ args' }
      let (vi, errsRev) := match res with
        | .error e => (({} : VersionInterval), (⟨l.start, e⟩ : RuleErr) :: errsRev)
        | .ok (vi, _) => (vi, errsRev)
      let (rs, fs, errsRev) := fixRetractLoop path fx rs fs errsRev
      ({ r with interval := vi } :: rs, fs, errsRev)

/-- fixRetract -/
def fixRetract (st : AddState) (fix : Option Fixer) : AddState :=
  match fix with
  | none => st
  | some fx =>
    let path := match st.file.module with
      | some m => m.mod.path
      | none => []
    match st.file.retract with
    | [] => st
    | r :: _ =>
      if path.isEmpty then
        -- only print the first one of these
        let pos := ((st.file.syn.findLine r.lineId).map (·.start)).getD {}
        st.err pos .retractNoModule
      else
        let (rs, fs, errsRev) := fixRetractLoop path fx st.file.retract st.file.syn st.errsRev
        { file := { st.file with retract := rs, syn := fs }, errsRev := errsRev }

/-- parseToFile: Parse (`strict = true`) and ParseLax (`strict = false`). -/
def parseToFile (name data : Bytes) (fix : Option Fixer) (strict : Bool) : Except (List RuleErr) File :=
  match parse name data with
  | .error e => .error [⟨e.pos, .syn e.kind⟩]
  | .ok fs =>
    let (st, stmts) := addStmts fix strict { file := { syn := fs } } fs.stmts
    let st := { st with file := { st.file with syn := { fs with stmts := stmts } } }
    -- the deferred fixRetract runs on both return paths
    let st := fixRetract st fix
    if st.errsRev.isEmpty then .ok st.file else .error st.errsRev.reverse

def parseStrict (name data : Bytes) (fix : Option Fixer) := parseToFile name data fix true
def parseLax (name data : Bytes) (fix : Option Fixer) := parseToFile name data fix false

/-! ### ModulePath (read.go): the quick line scanner -/

/-- one line of ModulePath: `none` = continue with the next line, `some p` = return p -/
def modulePathLine (line : Bytes) : Option Bytes :=
  let line := match GoStrings.index line [47, 47] with
    | some i => line.take i
    | none => line
  let line := GoStrings.trimSpace line
  if !isPrefixOfB (B "module") line then none else
  let line := line.drop 6
  let n := line.length
  let line := GoStrings.trimSpace line
  if line.length == n || line.isEmpty then none else
  match line with
  | c :: _ =>
    if c == 34 || c == 96 then
      match Quote.unquote line with
      | none => some []        -- malformed quoted string or multiline module path
      | some p => some p
    else some line
  | [] => none

def modulePathLines : List Bytes → Bytes
  | [] => []
  | l :: ls =>
    match modulePathLine l with
    | some p => p
    | none => modulePathLines ls

/-- ModulePath -/
def modulePath (mod : Bytes) : Bytes := modulePathLines (splitOn 10 mod)

end ModVerif.Modfile

namespace ModVerif.Modfile
open ModVerif

/-- A simple deterministic version fixer implemented identically by the Go harness
    (`c20FixStub`); it exists so that the `fix ≠ nil` paths are exercised by the correspondence.
    Valid semantic versions are canonicalised; a few symbolic names resolve to versions (one of them
    depending on the path); `bad…` fails with a plain error, `modbad…` with a `*module.ModuleError`;
    everything else fails with a plain error. -/
def fixStub : Fixer := fun path v =>
  if isPrefixOfB (B "bad") v then .error .plain
  else if isPrefixOfB (B "modbad") v then .error .moduleError
  else if Semver.isValid v then .ok (Semver.canonicalVersion v)
  else if v == B "latest" then .ok (B "v1.0.0")
  else if v == B "master" then .ok (B "v0.0.0-20200101000000-000000000000")
  else if v == B "pathlen" then .ok (B ("v1." ++ toString path.length ++ ".0"))
  else .error .plain

end ModVerif.Modfile
