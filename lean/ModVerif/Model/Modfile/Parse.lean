/-
  Parser of modfile/read.go: parseFile / parseStmt / parseLineBlock / parseLine over the one-token
  look-ahead lexer.  The result of `parseFile` is the statement list before comment assignment
  (`Comments.lean`); `parse` in `Comments.lean` is the whole of Go's `parse`.

  Fuel: each loop iteration consumes at least one token; `fuel = data.length + 2` per loop.
  Line identities (`Line.id`) are assigned from `Input.nextId` in creation (= source) order.
-/
import ModVerif.Model.Modfile.Lex
namespace ModVerif.Modfile
open ModVerif

/-- parseLine's loop after the first token -/
def parseLineLoop : Nat → Input → Position → Position → List Bytes → Except SynErr (Line × Input)
  | 0, i, _, _, _ => .error (i.error (.internal .fuel))
  | fuel + 1, i, start, «end», tokensRev => do
    let (tok, i) ← lex i
    if tok.kind.isEOL then
      .ok ({ id := i.nextId, start := start, token := tokensRev.reverse, «end» := «end», inBlock := true },
           { i with nextId := i.nextId + 1 })
    else parseLineLoop fuel i start tok.endPos (tok.text :: tokensRev)

def parseLine (fuel : Nat) (i : Input) : Except SynErr (Line × Input) := do
  let (tok, i) ← lex i
  if tok.kind.isEOL then .error (i.error (.internal .parseLineAtEOL))
  else parseLineLoop fuel i tok.pos tok.endPos [tok.text]

/-- the loop of parseLineBlock; `x` is the block so far (lines reversed), `comments` reversed. -/
def parseLineBlockLoop : Nat → Input → LineBlock → List Line → List Comment → Except SynErr (LineBlock × Input)
  | 0, i, _, _, _ => .error (i.error (.internal .fuel))
  | fuel + 1, i, x, linesRev, commentsRev =>
    match i.peek with
    | .eolComment => do
      -- Suffix comment, will be attached later by assignComments.
      let (_, i) ← lex i
      parseLineBlockLoop fuel i x linesRev commentsRev
    | .punct 10 => do
      -- Blank line. Add an empty comment to preserve it.
      let (_, i) ← lex i
      let add := match commentsRev with
        | [] => !linesRev.isEmpty
        | c :: _ => !c.token.isEmpty
      parseLineBlockLoop fuel i x linesRev (if add then ({} : Comment) :: commentsRev else commentsRev)
    | .comment => do
      let (tok, i) ← lex i
      parseLineBlockLoop fuel i x linesRev ({ start := tok.pos, token := tok.text } :: commentsRev)
    | .eof => .error (i.error .unterminatedBlock)
    | .punct 41 => do
      let (rparen, i) ← lex i
      let x := { x with lines := linesRev.reverse,
                        rparen := { comments := { before := commentsRev.reverse }, pos := rparen.pos } }
      if !i.peek.isEOL then .error (i.error .afterRParen)
      else do
        let (_, i) ← lex i
        .ok (x, i)
    | _ => do
      let (l, i) ← parseLine (fuel + 1) i
      let l := { l with comments := { l.comments with before := commentsRev.reverse } }
      parseLineBlockLoop fuel i x (l :: linesRev) []

def parseLineBlock (fuel : Nat) (i : Input) (start : Position) (token : List Bytes) (lparen : Token) :
    Except SynErr (LineBlock × Input) :=
  parseLineBlockLoop fuel i { start := start, token := token, lparen := { pos := lparen.pos } } [] []

/-- the loop of parseStmt after the first token; returns the statement. -/
def parseStmtLoop : Nat → Input → Position → Position → List Bytes → Except SynErr (Expr × Input)
  | 0, i, _, _, _ => .error (i.error (.internal .fuel))
  | fuel + 1, i, start, «end», tokensRev => do
    let (tok, i) ← lex i
    if tok.kind.isEOL then
      .ok (.line { id := i.nextId, start := start, token := tokensRev.reverse, «end» := «end» },
           { i with nextId := i.nextId + 1 })
    else if tok.kind == .punct 40 then
      let next := i.peek
      if next.isEOL then do
        -- Start of block: no more tokens on this line.
        let (b, i) ← parseLineBlock (fuel + 1) i start tokensRev.reverse tok
        .ok (.lineBlock b, i)
      else if next == .punct 41 then do
        let (rparen, i) ← lex i
        if i.peek.isEOL then do
          -- Empty block.
          let (_, i) ← lex i
          .ok (.lineBlock { start := start, token := tokensRev.reverse,
                            lparen := { pos := tok.pos }, rparen := { pos := rparen.pos } }, i)
        else
          -- '( )' in the middle of the line, not a block.
          parseStmtLoop fuel i start «end» (rparen.text :: tok.text :: tokensRev)
      else
        -- '(' in the middle of the line, not a block.
        parseStmtLoop fuel i start «end» (tok.text :: tokensRev)
    else parseStmtLoop fuel i start tok.endPos (tok.text :: tokensRev)

def parseStmt (fuel : Nat) (i : Input) : Except SynErr (Expr × Input) := do
  let (tok, i) ← lex i
  parseStmtLoop fuel i tok.pos tok.endPos [tok.text]

/-- parseFile's loop: statements reversed, `cb` the pending comment block. -/
def parseFileLoop : Nat → Input → List Expr → Option CommentBlock → Except SynErr (List Expr × Input)
  | 0, i, _, _ => .error (i.error (.internal .fuel))
  | fuel + 1, i, stmtsRev, cb =>
    match i.peek with
    | .punct 10 => do
      let (_, i) ← lex i
      match cb with
      | some c => parseFileLoop fuel i (.commentBlock c :: stmtsRev) none
      | none => parseFileLoop fuel i stmtsRev none
    | .comment => do
      let (tok, i) ← lex i
      let c : CommentBlock := match cb with
        | some c => c
        | none => { start := tok.pos }
      let c := { c with comments := { c.comments with before := c.comments.before ++ [{ start := tok.pos, token := tok.text }] } }
      parseFileLoop fuel i stmtsRev (some c)
    | .eof =>
      match cb with
      | some c => .ok ((.commentBlock c :: stmtsRev).reverse, i)
      | none => .ok (stmtsRev.reverse, i)
    | _ => do
      let (s, i) ← parseStmt (fuel + 1) i
      match cb with
      | some c => parseFileLoop fuel i (s.setComments { s.comments with before := c.comments.before } :: stmtsRev) none
      | none => parseFileLoop fuel i (s :: stmtsRev) none

/-- `in.readToken(); in.parseFile()`: statements before comment assignment, and the final input
    state (whose `commentsRev` holds the suffix comments). -/
def parseFile (data : Bytes) : Except SynErr (List Expr × Input) := do
  let i ← readToken (newInput data)
  parseFileLoop (data.length + 2) i [] none

end ModVerif.Modfile
