/-
  Syntax tree of go.mod / go.work files: the datatypes of modfile/read.go.

  Go's tree is a graph of pointers (`*Line` is shared between `FileSyntax.Stmt`/`LineBlock.Line`
  and the typed entries `Require.Syntax`, …).  The model is a plain value tree; pointer identity is
  modelled by `Line.id : Nat`, a unique identity the parser assigns from a counter (first line
  parsed = 0, in source order).  Typed entries of `Rule.lean` carry the `id` of their syntax line.

  `Line.token = []` models Go's `Token == nil` (a line marked removed); the parser never produces it.
  Lines created by edit operations have zero positions.
-/
import ModVerif.Basic.Bytes
namespace ModVerif.Modfile
open ModVerif

/-- read.go `Position`: line and rune-in-line start at 1, byte offset at 0.  The zero value
    `⟨0,0,0⟩` appears in blank-line placeholder comments and in lines added by edits. -/
structure Position where
  line : Nat := 0
  lineRune : Nat := 0
  byte : Nat := 0
  deriving Repr, DecidableEq, Inhabited

/-- read.go `Comment`: one `//` comment; `token` excludes the trailing newline; `token = []` with a
    zero `start` is the blank-line placeholder used inside blocks. -/
structure Comment where
  start : Position := {}
  token : Bytes := []
  suffix : Bool := false
  deriving Repr, DecidableEq, Inhabited

/-- read.go `Comments`. -/
structure Comments where
  before : List Comment := []
  suffix : List Comment := []
  after : List Comment := []
  deriving Repr, DecidableEq, Inhabited

/-- read.go `CommentBlock`: a top-level block of whole-line comments (in `comments.before`). -/
structure CommentBlock where
  comments : Comments := {}
  start : Position := {}
  deriving Repr, DecidableEq, Inhabited

/-- read.go `Line`, plus `id` (pointer identity, see the header). -/
structure Line where
  id : Nat := 0
  comments : Comments := {}
  start : Position := {}
  token : List Bytes := []
  inBlock : Bool := false
  «end» : Position := {}
  deriving Repr, DecidableEq, Inhabited

/-- read.go `LParen`: holds suffix comments after `(`. -/
structure LParen where
  comments : Comments := {}
  pos : Position := {}
  deriving Repr, DecidableEq, Inhabited

/-- read.go `RParen`: holds whole-line comments before `)`. -/
structure RParen where
  comments : Comments := {}
  pos : Position := {}
  deriving Repr, DecidableEq, Inhabited

/-- read.go `LineBlock`: `token ( lines… )`. -/
structure LineBlock where
  comments : Comments := {}
  start : Position := {}
  lparen : LParen := {}
  token : List Bytes := []
  lines : List Line := []
  rparen : RParen := {}
  deriving Repr, DecidableEq, Inhabited

/-- read.go `Expr` (the dynamic types that occur: `*CommentBlock`, `*Line`, `*LineBlock`, `*LParen`,
    `*RParen`; `*FileSyntax` is kept separate).  Only the first three occur in `FileSyntax.stmts`. -/
inductive Expr where
  | commentBlock (x : CommentBlock)
  | line (x : Line)
  | lineBlock (x : LineBlock)
  | lparen (x : LParen)
  | rparen (x : RParen)
  deriving Repr, DecidableEq, Inhabited

/-- read.go `FileSyntax`. -/
structure FileSyntax where
  name : Bytes := []
  comments : Comments := {}
  stmts : List Expr := []
  deriving Repr, DecidableEq, Inhabited

/-- `Position.add(")")`‐style advance by one single-byte, non-newline rune. -/
def Position.add1 (p : Position) : Position :=
  { p with byte := p.byte + 1, lineRune := p.lineRune + 1 }

/-- `Expr.Comment()` -/
def Expr.comments : Expr → Comments
  | .commentBlock x => x.comments
  | .line x => x.comments
  | .lineBlock x => x.comments
  | .lparen x => x.comments
  | .rparen x => x.comments

/-- replace the comments of an expression -/
def Expr.setComments (c : Comments) : Expr → Expr
  | .commentBlock x => .commentBlock { x with comments := c }
  | .line x => .line { x with comments := c }
  | .lineBlock x => .lineBlock { x with comments := c }
  | .lparen x => .lparen { x with comments := c }
  | .rparen x => .rparen { x with comments := c }

/-- `Expr.Span()` -/
def Expr.span : Expr → Position × Position
  | .commentBlock x => (x.start, x.start)
  | .line x => (x.start, x.«end»)
  | .lineBlock x => (x.start, x.rparen.pos.add1)
  | .lparen x => (x.pos, x.pos.add1)
  | .rparen x => (x.pos, x.pos.add1)

/-- `FileSyntax.Span()` -/
def FileSyntax.span (f : FileSyntax) : Position × Position :=
  match f.stmts.head?, f.stmts.getLast? with
  | some a, some b => (a.span.1, b.span.2)
  | _, _ => ({}, {})

/-- all lines of a file in source order (top-level lines and block lines) -/
def FileSyntax.allLines (f : FileSyntax) : List Line :=
  f.stmts.flatMap fun
    | .line l => [l]
    | .lineBlock b => b.lines
    | _ => []

end ModVerif.Modfile
