/-
  go.work files (modfile/work.go, parsing half): `ParseWork` and `WorkFile.add` (rule.go).
-/
import ModVerif.Model.Modfile.Rule
namespace ModVerif.Modfile
open ModVerif

structure Use where
  path : Bytes
  modulePath : Bytes := []     -- "Module path in the comment": never set by ParseWork
  lineId : Nat
  deriving Repr, DecidableEq, Inhabited

/-- work.go `WorkFile` -/
structure WorkFile where
  go : Option Go := none
  toolchain : Option Toolchain := none
  godebug : List Godebug := []
  use : List Use := []
  replace : List Replace := []
  syn : FileSyntax := {}
  deriving Repr, DecidableEq, Inhabited

structure WorkState where
  file : WorkFile := {}
  errsRev : List RuleErr := []
  deriving Repr, Inhabited

def WorkState.err (st : WorkState) (pos : Position) (k : RuleErrKind) : WorkState :=
  { st with errsRev := ⟨pos, k⟩ :: st.errsRev }

/-- WorkFile.add: new state and the (possibly rewritten) args -/
def WorkFile.add (st : WorkState) (line : Line) (verb : Bytes) (args : List Bytes) (fix : Option Fixer) :
    WorkState × List Bytes :=
  let f := st.file
  let pos := line.start
  if verb == B "go" then
    if f.go.isSome then (st.err pos .repeatedGo, args) else
    match args with
    | [a] =>
      if !goVersionRE a then (st.err pos .invalidGoVersion, args)
      else ({ st with file := { f with go := some { version := a, lineId := line.id } } }, args)
    | _ => (st.err pos .goArgs, args)
  else if verb == B "toolchain" then
    if f.toolchain.isSome then (st.err pos .repeatedToolchain, args) else
    match args with
    | [a] =>
      if !toolchainRE a then (st.err pos .invalidToolchain, args)
      else ({ st with file := { f with toolchain := some { name := a, lineId := line.id } } }, args)
    | _ => (st.err pos .toolchainArgs, args)
  else if verb == B "godebug" then
    match addGodebug args with
    | none => (st.err pos .godebugUsage, args)
    | some (k, v) => ({ st with file := { f with godebug := f.godebug ++ [{ key := k, value := v, lineId := line.id }] } }, args)
  else if verb == B "use" then
    match args with
    | [a] =>
      match parseString a with
      | none => (st.err pos .invalidQuotedString, args)
      | some (s, a') => ({ st with file := { f with use := f.use ++ [{ path := s, lineId := line.id }] } }, [a'])
    | _ => (st.err pos .useUsage, args)
  else if verb == B "replace" then
    match parseReplace line.id args fix with
    | (args', .error e) => (st.err pos e, args')
    | (args', .ok r) => ({ st with file := { f with replace := f.replace ++ [r] } }, args')
  else (st.err pos .unknownDirective, args)

def workBlockLines (verb : Bytes) (fix : Option Fixer) : WorkState → List Line → WorkState × List Line
  | st, [] => (st, [])
  | st, l :: ls =>
    let (st, toks) := WorkFile.add st l verb l.token fix
    let (st, ls) := workBlockLines verb fix st ls
    (st, { l with token := toks } :: ls)

def workStmts (fix : Option Fixer) : WorkState → List Expr → WorkState × List Expr
  | st, [] => (st, [])
  | st, x :: xs =>
    let (st, x) : WorkState × Expr := match x with
      | .line l =>
        match l.token with
        | verb :: args =>
          let (st, args) := WorkFile.add st l verb args fix
          (st, .line { l with token := verb :: args })
        | [] => (st, x)
      | .lineBlock b =>
        match b.token with
        | [verb] =>
          if verbIn verb workBlockVerbs then
            let (st, ls) := workBlockLines verb fix st b.lines
            (st, .lineBlock { b with lines := ls })
          else (st.err b.start .unknownBlock, x)
        | _ => (st.err b.start .unknownBlock, x)
      | _ => (st, x)
    let (st, xs) := workStmts fix st xs
    (st, x :: xs)

/-- ParseWork -/
def parseWork (name data : Bytes) (fix : Option Fixer) : Except (List RuleErr) WorkFile :=
  match parse name data with
  | .error e => .error [⟨e.pos, .syn e.kind⟩]
  | .ok fs =>
    let (st, stmts) := workStmts fix { file := { syn := fs } } fs.stmts
    if st.errsRev.isEmpty then .ok { st.file with syn := { fs with stmts := stmts } }
    else .error st.errsRev.reverse

end ModVerif.Modfile
