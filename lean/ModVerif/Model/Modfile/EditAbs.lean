/-
  The abstraction function from the modelled `File` / `WorkFile` to the keyed-collection model of
  Spec/EditSpec.lean, and the observable outcome of a whole edit session (what `edit.session` prints):
  per-op results, typed lists after the final Cleanup, the formatted bytes and the strict re-parse.
-/
import ModVerif.Model.Modfile.Edit
import ModVerif.Spec.EditSpec
namespace ModVerif.Modfile.Edit
open ModVerif ModVerif.Modfile ModVerif.EditSpec

/-- the typed lists of a go.mod file as an abstract file (list order = typed list order) -/
def absOf (f : File) : AbsFile :=
  { module := f.module.map (·.mod.path), go := f.go.map (·.version), toolchain := f.toolchain.map (·.name),
    godebug := f.godebug.map fun g => (g.key, g.value),
    require := f.require.map fun r => ⟨r.mod.path, r.mod.version, r.indirect⟩,
    exclude := f.exclude.map fun x => (x.mod.path, x.mod.version),
    replace := f.replace.map fun r => ⟨r.old.path, r.old.version, r.new.path, r.new.version⟩,
    retract := f.retract.map fun r => ⟨r.interval.low, r.interval.high, r.rationale⟩,
    tool := f.tool.map (·.path) }

def absOfWork (f : WorkFile) : AbsFile :=
  { go := f.go.map (·.version), toolchain := f.toolchain.map (·.name),
    godebug := f.godebug.map fun g => (g.key, g.value),
    replace := f.replace.map fun r => ⟨r.old.path, r.old.version, r.new.path, r.new.version⟩,
    use := f.use.map (·.path) }

/-- the model op as a specification op -/
def Op.toSpec : Op → EditSpec.Op
  | .addModule p => .addModule p
  | .addGo v => .addGo v
  | .dropGo => .dropGo
  | .addToolchain n => .addToolchain n
  | .dropToolchain => .dropToolchain
  | .addGodebug k v => .addGodebug k v
  | .dropGodebug k => .dropGodebug k
  | .addRequire p v => .addRequire p v
  | .addNewRequire p v i => .addNewRequire p v i
  | .dropRequire p => .dropRequire p
  | .setRequire w _ => .setRequire (w.map fun x => ⟨x.path, x.vers, x.indirect⟩)
  | .setRequireSeparateIndirect w _ => .setRequireSeparateIndirect (w.map fun x => ⟨x.path, x.vers, x.indirect⟩)
  | .addExclude p v => .addExclude p v
  | .dropExclude p v => .dropExclude p v
  | .addReplace a b c d => .addReplace a b c d
  | .dropReplace a b => .dropReplace a b
  | .addRetract a b c => .addRetract a b c
  | .dropRetract a b => .dropRetract a b
  | .addTool p => .addTool p
  | .dropTool p => .dropTool p
  | .sortBlocks => .sortBlocks
  | .cleanup => .cleanup
  | .addUse d m => .addUse d m
  | .addNewUse d m => .addNewUse d m
  | .dropUse d => .dropUse d
  | .setUse w _ => .setUse w

structure Outcome where
  res : List Bool               -- per op: true = ok, false = returned error
  start : AbsFile               -- typed lists of the starting file
  typed : AbsFile               -- typed lists after the final Cleanup
  tree : FileSyntax             -- syntax tree after the final Cleanup
  out : Bytes                   -- Format
  reparsed : Option AbsFile     -- typed lists of the strict parse of `out`
  deriving Repr

/-- a go.mod session: strict parse, ops, final Cleanup, Format, strict re-parse.
    `none`: the starting file does not parse strictly, an op is not a go.mod op, or a panic. -/
def sessionMod (file : Bytes) (ops : List Op) : Option Outcome :=
  match parseStrict (B "go.mod") file none with
  | .error _ => none
  | .ok f =>
    match runOps applyMod (load f) ops [] 0 with
    | .done e res =>
      let e := cleanup e
      let out := format e.f.syn
      some { res := res, start := absOf f, typed := absOf e.f, tree := e.f.syn, out := out,
             reparsed := match parseStrict (B "go.mod") out none with
               | .ok g => some (absOf g)
               | .error _ => none }
    | _ => none

def sessionWork (file : Bytes) (ops : List Op) : Option Outcome :=
  match parseWork (B "go.work") file none with
  | .error _ => none
  | .ok f =>
    match runOps applyWork (loadWork f) ops [] 0 with
    | .done e res =>
      let e := workCleanup e
      let out := format e.f.syn
      some { res := res, start := absOfWork f, typed := absOfWork e.f, tree := e.f.syn, out := out,
             reparsed := match parseWork (B "go.work") out none with
               | .ok g => some (absOfWork g)
               | .error _ => none }
    | _ => none

/-- the lines of the blocks of a tree, with the block's verb -/
def blocksOf (fs : FileSyntax) : List (List Bytes × List (List Bytes)) :=
  fs.stmts.filterMap fun
    | .lineBlock b => some (b.token, b.lines.map (·.token))
    | _ => none

end ModVerif.Modfile.Edit

namespace ModVerif.Modfile.Edit
/-- a Boolean test on the outcome of a session (`false` when there is no outcome) -/
def outcomeIs (o : Option Outcome) (p : Outcome → Bool) : Bool :=
  match o with
  | some x => p x
  | none => false
end ModVerif.Modfile.Edit
