/-
  Printer of modfile/print.go: `Format`.

  The printer state is the output buffer (kept REVERSED: `bufRev.head?` is the last byte written),
  the pending end-of-line comments and the margin.  `expr` is split by node type (`exprLine`, …)
  because the model's tree is a plain value tree; the shared prologue/epilogue of Go's `expr`
  are `emitBefore` and `queueSuffix`.  The `default: panic("unexpected type")` branch has no
  counterpart.
-/
import ModVerif.Basic.GoStrings
import ModVerif.Model.Modfile.Syntax
namespace ModVerif.Modfile
open ModVerif

structure Printer where
  bufRev : Bytes := []
  comment : List Comment := []
  margin : Nat := 0
  deriving Repr, Inhabited

namespace Printer

/-- printf("%s", s) -/
def write (p : Printer) (s : Bytes) : Printer := { p with bufRev := s.reverse ++ p.bufRev }

def writeByte (p : Printer) (c : UInt8) : Printer := { p with bufRev := c :: p.bufRev }

def tabs (p : Printer) : Printer := { p with bufRev := List.replicate p.margin 9 ++ p.bufRev }

/-- indent: position on the current line. -/
def indent (p : Printer) : Nat := (p.bufRev.takeWhile (· != 10)).length

/-- trim: remove trailing spaces and tabs from the current line. -/
def trim (p : Printer) : Printer := { p with bufRev := p.bufRev.dropWhile fun c => c == 9 || c == 32 }

/-- the pending-comment loop of newline -/
def flushComments (p : Printer) : List Comment → Bool → Printer
  | [], _ => p
  | com :: rest, first =>
    let p := if first then p else ((p.trim.writeByte 10).tabs)
    flushComments (p.write (GoStrings.trimSpace com.token)) rest false

/-- newline: end the current line, flushing end-of-line comments. -/
def newline (p : Printer) : Printer :=
  let p := if p.comment.isEmpty then p else
    { (flushComments (p.writeByte 32) p.comment true) with comment := [] }
  let p := p.trim
  let p := match p.bufRev with
    | [] => p                       -- skip the blank line at top of file
    | 10 :: 10 :: _ => p            -- … or after a blank line
    | _ => p.writeByte 10
  p.tabs

/-- print a list of whole-line comments, each followed by newline -/
def commentLines (p : Printer) : List Comment → Printer
  | [] => p
  | com :: rest => commentLines (p.write (GoStrings.trimSpace com.token)).newline rest

/-- prologue of `expr`: emit line-comments preceding the expression. -/
def emitBefore (p : Printer) (before : List Comment) : Printer :=
  if before.isEmpty then p else
  let p := p.trim
  let p := if p.indent > 0 then p.writeByte 10 else p
  commentLines p.tabs before

/-- epilogue of `expr`: queue end-of-line comments. -/
def queueSuffix (p : Printer) (suffix : List Comment) : Printer := { p with comment := p.comment ++ suffix }

/-- tokens before which no separator is printed: `,` `)` `]` `}` -/
def noSepBefore : List Bytes := [[44], [41], [93], [125]]

/-- tokens after which no separator is printed: `(` `[` `{` -/
def noSepAfter : List Bytes := [[40], [91], [123]]

/-- tokens -/
def tokensAux (p : Printer) : List Bytes → Bytes → Printer
  | [], _ => p
  | t :: rest, sep =>
    let sep := if noSepBefore.contains t then [] else sep
    let p := (p.write sep).write t
    let sep : Bytes := if noSepAfter.contains t then [] else [32]
    tokensAux p rest sep

def tokens (p : Printer) (ts : List Bytes) : Printer := tokensAux p ts []

def exprCommentBlock (p : Printer) (x : CommentBlock) : Printer :=
  (p.emitBefore x.comments.before).queueSuffix x.comments.suffix

def exprLParen (p : Printer) (x : LParen) : Printer :=
  ((p.emitBefore x.comments.before).writeByte 40).queueSuffix x.comments.suffix

def exprRParen (p : Printer) (x : RParen) : Printer :=
  ((p.emitBefore x.comments.before).writeByte 41).queueSuffix x.comments.suffix

def exprLine (p : Printer) (x : Line) : Printer :=
  ((p.emitBefore x.comments.before).tokens x.token).queueSuffix x.comments.suffix

def exprLines (p : Printer) : List Line → Printer
  | [] => p
  | l :: ls => exprLines (p.newline.exprLine l) ls

def exprLineBlock (p : Printer) (x : LineBlock) : Printer :=
  let p := p.emitBefore x.comments.before
  let p := (p.tokens x.token).writeByte 32
  let p := p.exprLParen x.lparen
  let p := { p with margin := p.margin + 1 }
  let p := p.exprLines x.lines
  let p := { p with margin := p.margin - 1 }
  let p := p.newline
  let p := p.exprRParen x.rparen
  p.queueSuffix x.comments.suffix

def expr (p : Printer) : Expr → Printer
  | .commentBlock x => p.exprCommentBlock x
  | .line x => p.exprLine x
  | .lineBlock x => p.exprLineBlock x
  | .lparen x => p.exprLParen x
  | .rparen x => p.exprRParen x

/-- the statement loop of `file` -/
def stmts (p : Printer) : List Expr → Printer
  | [] => p
  | s :: rest =>
    let p := match s with
      | .commentBlock x => p.exprCommentBlock x      -- comments already handled
      | s => (p.expr s).newline
    let p := p.commentLines s.comments.after
    let p := if rest.isEmpty then p else p.newline
    stmts p rest

def file (p : Printer) (f : FileSyntax) : Printer :=
  (p.commentLines f.comments.before).stmts f.stmts

end Printer

/-- remove trailing blank lines: `for len(b) > 0 && b[len-1] == '\n' && (len(b) == 1 || b[len-2] == '\n')` -/
def trimTrailingBlank : Bytes → Bytes
  | 10 :: rest =>
    match rest with
    | [] => []
    | 10 :: _ => trimTrailingBlank rest
    | _ => 10 :: rest
  | b => b

/-- print.go `Format` -/
def format (f : FileSyntax) : Bytes :=
  (trimTrailingBlank ((Printer.file {} f).bufRev)).reverse

end ModVerif.Modfile
