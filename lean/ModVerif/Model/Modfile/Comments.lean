/-
  Comment assignment of modfile/read.go (`order`, `assignComments`) and the top-level `parse`.

  Go builds the preorder and postorder lists of all expressions (pointers) and walks them, moving
  comments from the front of `line` (whole-line comments, by start byte) resp. from the back of
  `suffix` (end-of-line comments, by end byte) into the nodes.  The model performs the same two walks
  directly on the value tree, threading the remaining comment list:

    preorder  = file, then per statement: the statement, and for a block its `(`, lines, `)`
    postorder = per statement: (for a block: `(`, lines, `)`), the statement; finally the file
                — walked BACKWARDS, skipping the file and every node whose span covers two lines.

  `order`'s `default: panic("unexpected type")` has no counterpart: the tree type has no other case.
  Only suffix comments are ever recorded in `in.comments` (whole-line comments are tokens handled by
  the parser), so the whole-line pass never moves anything; it is modelled all the same.
-/
import ModVerif.Model.Modfile.Parse
namespace ModVerif.Modfile
open ModVerif

/-- the inner loop of the preorder pass: move the leading comments with `start.Byte >= c.Start.Byte`
    to `Before` of the node starting at `start`. -/
def takeLine (start : Position) : List Comment → List Comment × List Comment
  | [] => ([], [])
  | c :: rest =>
    if start.byte ≥ c.start.byte then
      let (t, r) := takeLine start rest
      (c :: t, r)
    else ([], c :: rest)

def assignBefore (start : Position) (cs : Comments) (line : List Comment) : Comments × List Comment :=
  let (t, r) := takeLine start line
  ({ cs with before := cs.before ++ t }, r)

/-- the inner loop of the postorder pass on the REVERSED suffix list: take the comments with
    `end.Byte <= c.Start.Byte` from the back.  Returns them in source order (Go appends them in
    reverse and `reverseComments` restores the order). -/
def takeSuffix («end» : Position) : List Comment → List Comment → List Comment × List Comment
  | acc, [] => (acc, [])
  | acc, c :: rest =>
    if «end».byte ≤ c.start.byte then takeSuffix «end» (c :: acc) rest
    else (acc, c :: rest)

/-- one node of the backwards postorder pass; `sufRev` is the remaining suffix list, reversed. -/
def assignSuffix (span : Position × Position) (cs : Comments) (sufRev : List Comment) : Comments × List Comment :=
  if span.1.line != span.2.line then ({ cs with suffix := cs.suffix.reverse }, sufRev) else
  let (t, r) := takeSuffix span.2 [] sufRev
  ({ cs with suffix := (cs.suffix ++ t.reverse).reverse }, r)

/-- preorder pass over the lines of a block -/
def preLines : List Line → List Comment → List Line × List Comment
  | [], line => ([], line)
  | l :: ls, line =>
    let (c, line) := assignBefore l.start l.comments line
    let (ls, line) := preLines ls line
    ({ l with comments := c } :: ls, line)

def preStmt (s : Expr) (line : List Comment) : Expr × List Comment :=
  match s with
  | .lineBlock b =>
    let (c, line) := assignBefore b.start b.comments line
    let (lc, line) := assignBefore b.lparen.pos b.lparen.comments line
    let (ls, line) := preLines b.lines line
    let (rc, line) := assignBefore b.rparen.pos b.rparen.comments line
    (.lineBlock { b with comments := c, lparen := { b.lparen with comments := lc }, lines := ls,
                         rparen := { b.rparen with comments := rc } }, line)
  | s =>
    let (c, line) := assignBefore s.span.1 s.comments line
    (s.setComments c, line)

def preStmts : List Expr → List Comment → List Expr × List Comment
  | [], line => ([], line)
  | s :: ss, line =>
    let (s, line) := preStmt s line
    let (ss, line) := preStmts ss line
    (s :: ss, line)

/-- backwards postorder pass over the lines of a block, given REVERSED -/
def postLinesRev : List Line → List Comment → List Line × List Comment
  | [], suf => ([], suf)
  | l :: ls, suf =>
    let (c, suf) := assignSuffix (l.start, l.«end») l.comments suf
    let (ls, suf) := postLinesRev ls suf
    ({ l with comments := c } :: ls, suf)

def postStmt (s : Expr) (suf : List Comment) : Expr × List Comment :=
  match s with
  | .lineBlock b =>
    let (c, suf) := assignSuffix (Expr.lineBlock b).span b.comments suf
    let (rc, suf) := assignSuffix (Expr.rparen b.rparen).span b.rparen.comments suf
    let (lsRev, suf) := postLinesRev b.lines.reverse suf
    let (lc, suf) := assignSuffix (Expr.lparen b.lparen).span b.lparen.comments suf
    (.lineBlock { b with comments := c, lparen := { b.lparen with comments := lc }, lines := lsRev.reverse,
                         rparen := { b.rparen with comments := rc } }, suf)
  | s =>
    let (c, suf) := assignSuffix s.span s.comments suf
    (s.setComments c, suf)

/-- statements given REVERSED -/
def postStmtsRev : List Expr → List Comment → List Expr × List Comment
  | [], suf => ([], suf)
  | s :: ss, suf =>
    let (s, suf) := postStmt s suf
    let (ss, suf) := postStmtsRev ss suf
    (s :: ss, suf)

/-- assignComments -/
def assignComments (f : FileSyntax) (comments : List Comment) : FileSyntax :=
  -- Split into whole-line comments and suffix comments.
  let line := comments.filter (!·.suffix)
  let suffix := comments.filter (·.suffix)
  -- Assign line comments to syntax immediately following (preorder; the file itself comes first).
  let (fc, line) := assignBefore f.span.1 f.comments line
  let (stmts, line) := preStmts f.stmts line
  -- Remaining line comments go at end of file.
  let fc := { fc with after := fc.after ++ line }
  -- Assign suffix comments to syntax immediately before (postorder, backwards; the file is skipped).
  let (stmtsRev, sufRev) := postStmtsRev stmts.reverse suffix.reverse
  -- Remaining suffix comments go at beginning of file.
  { f with comments := { fc with before := fc.before ++ sufRev.reverse }, stmts := stmtsRev.reverse }

/-- read.go `parse`: the syntax tree or the (single) syntax error. -/
def parse (name : Bytes) (data : Bytes) : Except SynErr FileSyntax := do
  let (stmts, i) ← parseFile data
  .ok (assignComments { name := name, stmts := stmts } i.commentsRev.reverse)

end ModVerif.Modfile
