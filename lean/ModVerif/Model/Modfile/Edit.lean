/-
  Edit operations on go.mod / go.work files: modfile/rule.go (Add*/Drop*/Set*, SortBlocks, removeDups,
  Cleanup, setVersion/setIndirect), modfile/read.go (addLine, updateLine, markRemoved,
  FileSyntax.Cleanup) and modfile/work.go.  One def per Go function, same branch order.

  Pointer identity.  Go's typed entries point at their syntax `*Line`.  Here a typed entry carries the
  `id` of its line.  `load` renumbers a parsed file so that every line id is ≥ 1; id 0 (`nilId`) models
  a nil `Syntax` pointer (a cleared entry `*r = Require{}`).  Dereferencing it is the explicit error
  `EditErr.nilDeref` (a Go panic).  New lines take fresh ids from the counter `next`.

  Go's random map iteration in SetRequire / SetRequireSeparateIndirect / SetUse is the parameter
  `perm` (a reordering of the entries still to be added).
-/
import ModVerif.Model.Modfile.Work
namespace ModVerif.Modfile.Edit
open ModVerif ModVerif.Modfile

inductive EditErr where
  | nilDeref              -- nil pointer dereference (cleared entry reached by a bulk setter)
  | invalidGoVersion
  | invalidToolchain
  | invalidVersion        -- checkCanonicalVersion failed
  | conflictingVersions   -- SetRequire panic: two versions for one path
  | badStatement          -- ensureBlock panic: unexpected statement
  deriving Repr, DecidableEq, Inhabited

def nilId : Nat := 0

/-! ### read.go: tree surgery -/

def mkLine (id : Nat) (tokens : List Bytes) (inBlock : Bool) : Line :=
  { id := id, token := tokens, inBlock := inBlock }

def headIs (toks : List Bytes) (t : Bytes) : Bool := toks.head? == some t

/-- index of the last statement whose first token is `verb` (a live line or any block) -/
def lastStmtWith (verb : Bytes) : List Expr → Nat → Option Nat → Option Nat
  | [], _, acc => acc
  | .line l :: xs, i, acc => lastStmtWith verb xs (i + 1) (if !l.token.isEmpty && headIs l.token verb then some i else acc)
  | .lineBlock b :: xs, i, acc => lastStmtWith verb xs (i + 1) (if headIs b.token verb then some i else acc)
  | _ :: xs, i, acc => lastStmtWith verb xs (i + 1) acc

def insertAt {α : Type} (l : List α) (i : Nat) (x : α) : List α := l.take i ++ x :: l.drop i

/-- insert `new` after the line with id `h` in a block's lines -/
def insertAfterId (h : Nat) (new : Line) : List Line → Option (List Line)
  | [] => none
  | l :: ls =>
    if l.id == h then some (l :: new :: ls)
    else match insertAfterId h new ls with
      | some r => some (l :: r)
      | none => none

/-- what the hint refers to -/
inductive Hint where
  | none
  | line (id : Nat)          -- a `*Line` (top level or inside a block)
  | stmt (i : Nat)           -- the i-th statement itself (found by the no-hint search)
  deriving Repr, DecidableEq

/-- the hinted walk of addLine over the statements: `some stmts'` once the hint was found -/
def addLineWalk (hint : Hint) (tokens : List Bytes) (new : Nat) : List Expr → Nat → Option (List Expr)
  | [], _ => none
  | x :: xs, i =>
    let verb := tokens.head?.getD []
    let after : List Expr := x :: .line (mkLine new tokens false) :: xs
    let rest := fun (_ : Unit) => (addLineWalk hint tokens new xs (i + 1)).map (x :: ·)
    match x with
    | .line l =>
      if hint == .line l.id || hint == .stmt i then
        if l.token.isEmpty || !headIs l.token verb then some after
        else
          -- convert line to line block
          let old : Line := { l with inBlock := true, token := l.token.drop 1 }
          let nl := mkLine new (tokens.drop 1) true
          some (.lineBlock { token := l.token.take 1, lines := [old, nl] } :: xs)
      else rest ()
    | .lineBlock b =>
      if hint == .stmt i then
        if !headIs b.token verb then some after
        else some (.lineBlock { b with lines := b.lines ++ [mkLine new (tokens.drop 1) true] } :: xs)
      else
        match hint with
        | .line h =>
          if b.lines.any (·.id == h) then
            if !headIs b.token verb then some after
            else match insertAfterId h (mkLine new (tokens.drop 1) true) b.lines with
              | some ls => some (.lineBlock { b with lines := ls } :: xs)
              | none => rest ()
          else rest ()
        | _ => rest ()
    | _ => rest ()

/-- FileSyntax.addLine; `hint = none` is Go's nil hint.  Returns the tree; the new line has id `new`. -/
def addLine (fs : FileSyntax) (hint : Option Nat) (tokens : List Bytes) (new : Nat) : FileSyntax :=
  let h : Hint := match hint with
    | some id => .line id
    | none => match lastStmtWith (tokens.head?.getD []) fs.stmts 0 none with
      | some i => .stmt i
      | none => .none
  match h with
  | .none => { fs with stmts := fs.stmts ++ [.line (mkLine new tokens false)] }
  | h =>
    match addLineWalk h tokens new fs.stmts 0 with
    | some stmts => { fs with stmts := stmts }
    | none => { fs with stmts := fs.stmts ++ [.line (mkLine new tokens false)] }

/-- FileSyntax.updateLine -/
def updateLine (fs : FileSyntax) (id : Nat) (tokens : List Bytes) : FileSyntax :=
  fs.updateLine id fun l => { l with token := if l.inBlock then tokens.drop 1 else tokens }

/-- (*Line).markRemoved -/
def markRemoved (fs : FileSyntax) (id : Nat) : FileSyntax :=
  fs.updateLine id fun l => { l with token := [], comments := { l.comments with suffix := [] } }

/-- FileSyntax.Cleanup -/
def cleanupStmts : List Expr → List Expr
  | [] => []
  | .line l :: xs => if l.token.isEmpty then cleanupStmts xs else .line l :: cleanupStmts xs
  | .lineBlock b :: xs =>
    let live := b.lines.filter (!·.token.isEmpty)
    match live with
    | [] => cleanupStmts xs
    | [l] =>
      if b.rparen.comments.before.isEmpty then
        -- collapse block into single line but keep the Line identity
        .line { id := l.id,
                comments := { before := b.comments.before ++ l.comments.before,
                              suffix := l.comments.suffix ++ b.comments.suffix,
                              after := l.comments.after ++ b.comments.after },
                token := b.token ++ l.token } :: cleanupStmts xs
      else .lineBlock { b with lines := live } :: cleanupStmts xs
    | _ => .lineBlock { b with lines := live } :: cleanupStmts xs
  | x :: xs => x :: cleanupStmts xs

def cleanupSyntax (fs : FileSyntax) : FileSyntax := { fs with stmts := cleanupStmts fs.stmts }

/-! ### comparators and SortBlocks -/

/-- lineLess -/
def lineLess : List Bytes → List Bytes → Bool
  | [], [] => false
  | [], _ :: _ => true
  | _ :: _, [] => false
  | a :: as, b :: bs => if a != b then bytesLt a b else lineLess as bs

/-- lineExcludeLess -/
def lineExcludeLess (li lj : List Bytes) : Bool :=
  if li.length != 2 || lj.length != 2 then lineLess li lj
  else
    let pi := li.headD []; let pj := lj.headD []
    if pi != pj then bytesLt pi pj
    else Semver.compare (li.getD 1 []) (lj.getD 1 []) < 0

def retractInterval (t : List Bytes) : VersionInterval :=
  match t with
  | [v] => { low := v, high := v }
  | [a, lo, b, hi, c] => if a == [91] && b == [44] && c == [93] then { low := lo, high := hi } else {}
  | _ => {}

/-- lineRetractLess -/
def lineRetractLess (li lj : List Bytes) : Bool :=
  let vii := retractInterval li
  let vij := retractInterval lj
  let cmp := Semver.compare vii.low vij.low
  if cmp != 0 then cmp > 0 else Semver.compare vii.high vij.high > 0

/-- sort.SliceStable as stable insertion sort -/
def insertLine (less : List Bytes → List Bytes → Bool) (x : Line) : List Line → List Line
  | [] => [x]
  | y :: ys => if less y.token x.token then y :: insertLine less x ys else x :: y :: ys

def stableSort (less : List Bytes → List Bytes → Bool) (l : List Line) : List Line := l.foldr (insertLine less) []

def semanticSortForExcludeVersionV : Bytes := B "v1.21"

def sortStmts (useSemantic : Bool) (work : Bool) (stmts : List Expr) : List Expr :=
  stmts.map fun
    | .lineBlock b =>
      let less :=
        if work then lineLess
        else if headIs b.token (B "exclude") && useSemantic then lineExcludeLess
        else if headIs b.token (B "retract") then lineRetractLess
        else lineLess
      .lineBlock { b with lines := stableSort less b.lines }
    | x => x

/-- "Drop killed statements from the syntax tree" (removeDups) -/
def dropKilled (kill : List Nat) : List Expr → List Expr
  | [] => []
  | .line l :: xs => if kill.contains l.id then dropKilled kill xs else .line l :: dropKilled kill xs
  | .lineBlock b :: xs =>
    let lines := b.lines.filter (fun l => !kill.contains l.id)
    if lines.isEmpty then dropKilled kill xs else .lineBlock { b with lines := lines } :: dropKilled kill xs
  | x :: xs => x :: dropKilled kill xs

/-- first-wins scan: ids of entries whose key was seen before -/
def killLater {α κ : Type} [BEq κ] (key : α → κ) (id : α → Nat) : List α → List κ → List Nat
  | [], _ => []
  | x :: xs, seen => if seen.contains (key x) then id x :: killLater key id xs seen else killLater key id xs (key x :: seen)

/-! ### the go.mod file with its id counter -/

structure EFile where
  f : File
  next : Nat
  deriving Repr, Inhabited

structure EWork where
  f : WorkFile
  next : Nat
  deriving Repr, Inhabited

def shiftLine (l : Line) : Line := { l with id := l.id + 1 }

def shiftSyntax (fs : FileSyntax) : FileSyntax :=
  { fs with stmts := fs.stmts.map fun
      | .line l => .line (shiftLine l)
      | .lineBlock b => .lineBlock { b with lines := b.lines.map shiftLine }
      | x => x }

def maxId (fs : FileSyntax) : Nat := fs.allLines.foldl (fun m l => Nat.max m l.id) 0

/-- renumber a parsed file: ids ≥ 1, fresh counter above every id -/
def load (f : File) : EFile :=
  let syn := shiftSyntax f.syn
  { f := { module := f.module.map fun m => { m with lineId := m.lineId + 1 },
           go := f.go.map fun g => { g with lineId := g.lineId + 1 },
           toolchain := f.toolchain.map fun t => { t with lineId := t.lineId + 1 },
           godebug := f.godebug.map fun g => { g with lineId := g.lineId + 1 },
           require := f.require.map fun r => { r with lineId := r.lineId + 1 },
           exclude := f.exclude.map fun x => { x with lineId := x.lineId + 1 },
           replace := f.replace.map fun r => { r with lineId := r.lineId + 1 },
           retract := f.retract.map fun r => { r with lineId := r.lineId + 1 },
           tool := f.tool.map fun t => { t with lineId := t.lineId + 1 },
           syn := syn },
    next := maxId syn + 1 }

def loadWork (f : WorkFile) : EWork :=
  let syn := shiftSyntax f.syn
  { f := { go := f.go.map fun g => { g with lineId := g.lineId + 1 },
           toolchain := f.toolchain.map fun t => { t with lineId := t.lineId + 1 },
           godebug := f.godebug.map fun g => { g with lineId := g.lineId + 1 },
           use := f.use.map fun u => { u with lineId := u.lineId + 1 },
           replace := f.replace.map fun r => { r with lineId := r.lineId + 1 },
           syn := syn },
    next := maxId syn + 1 }

/-! ### cleared entries (`*r = Require{}` …) -/

def clearedRequire : Require := { mod := {}, indirect := false, lineId := nilId }
def clearedGodebug : Godebug := { key := [], value := [], lineId := nilId }
def clearedExclude : Exclude := { mod := {}, lineId := nilId }
def clearedReplace : Replace := { old := {}, new := {}, lineId := nilId }
def clearedRetract : Retract := { interval := {}, rationale := [], lineId := nilId }
def clearedTool : Tool := { path := [], lineId := nilId }
def clearedUse : Use := { path := [], modulePath := [], lineId := nilId }

/-- mark the syntax lines of the given ids removed -/
def markAll (fs : FileSyntax) (ids : List Nat) : FileSyntax := ids.foldl markRemoved fs

/-! ### setVersion / setIndirect -/

/-- (*Require).setVersion on the line -/
def setVersionLine (v : Bytes) (line : Line) : Line :=
  if line.token.isEmpty then line else
  if line.inBlock then
    let line :=
      match line.comments.before with
      | [c] => if c.token.isEmpty then { line with comments := { line.comments with before := [] } } else line
      | _ => line
    if line.token.length ≥ 2 then { line with token := line.token.set 1 v } else line
  else
    if line.token.length ≥ 3 then { line with token := line.token.set 2 v } else line

def slashSlash : Bytes := [47, 47]
def indirectTok : Bytes := B "// indirect"

/-- the part of setIndirect that rewrites the line (isIndirect(line) ≠ indirect) -/
def setIndirectLine (indirect : Bool) (line : Line) : Line :=
  if isIndirect line == indirect then line else
  if indirect then
    match line.comments.suffix with
    | [] => { line with comments := { line.comments with suffix := [{ token := indirectTok, suffix := true }] } }
    | com :: rest =>
      let text := GoStrings.trimSpace (GoStrings.trimPrefix com.token slashSlash)
      let tok := if text.isEmpty then indirectTok else B "// indirect; " ++ text
      { line with comments := { line.comments with suffix := { com with token := tok } :: rest } }
  else
    match line.comments.suffix with
    | [] => line   -- unreachable: isIndirect was true
    | com :: rest =>
      let f := GoStrings.trimSpace (GoStrings.trimPrefix com.token slashSlash)
      if f == B "indirect" then { line with comments := { line.comments with suffix := [] } }
      else
        let i := (GoStrings.index com.token (B "indirect;")).getD 0
        let tok := slashSlash ++ com.token.drop (i + (B "indirect;").length)
        { line with comments := { line.comments with suffix := { com with token := tok } :: rest } }

/-! ### shared loops -/

/-- dereference of a `Syntax` pointer -/
def deref (id : Nat) : Except EditErr Nat := if id == nilId then .error .nilDeref else .ok id

/-- "the first matching entry is updated, every later one is cleared": new list, id of the first match,
    ids of the cleared ones' lines (all dereferenced) -/
def firstRest {α : Type} (m : α → Bool) (id : α → Nat) (upd : α → α) (cleared : α) :
    List α → Bool → Except EditErr (List α × Option Nat × List Nat)
  | [], _ => .ok ([], none, [])
  | x :: xs, need =>
    if m x then do
      let i ← deref (id x)
      let (rest, first, dead) ← firstRest m id upd cleared xs false
      if need then pure (upd x :: rest, some i, dead) else pure (cleared :: rest, first, i :: dead)
    else do
      let (rest, first, dead) ← firstRest m id upd cleared xs need
      pure (x :: rest, first, dead)

/-- "every matching entry is cleared" -/
def clearAll {α : Type} (m : α → Bool) (id : α → Nat) (cleared : α) : List α → Except EditErr (List α × List Nat)
  | [] => .ok ([], [])
  | x :: xs =>
    if m x then do
      let i ← deref (id x)
      let (rest, dead) ← clearAll m id cleared xs
      pure (cleared :: rest, i :: dead)
    else do
      let (rest, dead) ← clearAll m id cleared xs
      pure (x :: rest, dead)

/-- pointer-hinted addLine: a nil `*Line` passed as `Expr` is a non-nil interface that matches nothing,
    so the line goes to the end of the file (no search for the last block of that kind) -/
def addLinePtr (fs : FileSyntax) (hint : Option Nat) (tokens : List Bytes) (new : Nat) : FileSyntax :=
  match hint with
  | some id => if id == nilId then { fs with stmts := fs.stmts ++ [.line (mkLine new tokens false)] } else addLine fs (some id) tokens new
  | none => { fs with stmts := fs.stmts ++ [.line (mkLine new tokens false)] }

/-- checkCanonicalVersion -/
def checkCanonicalVersion (path vers : Bytes) : Bool :=
  let (_, pathMajor, ok) := Module.splitPathVersion path
  if vers.isEmpty || vers != Semver.canonicalVersion vers then false
  else if ok then Module.checkPathMajor vers pathMajor else true

/-! ### removeDups / SortBlocks -/

/-- last-wins scan for replacements: ids of entries whose `Old` occurs again later -/
def killEarlier : List Replace → List Nat
  | [] => []
  | x :: xs => if xs.any (fun y => y.old == x.old) then x.lineId :: killEarlier xs else killEarlier xs

/-- removeDups(syntax, exclude, replace, tool); `exclude`/`tool` = none for go.work -/
def removeDups (syn : FileSyntax) (exclude : Option (List Exclude)) (replace : List Replace) (tool : Option (List Tool)) :
    FileSyntax × Option (List Exclude) × List Replace × Option (List Tool) :=
  let k1 := match exclude with
    | some ex => killLater (fun x : Exclude => x.mod) (·.lineId) ex []
    | none => []
  let exclude := exclude.map fun ex => ex.filter fun x => !k1.contains x.lineId
  let k2 := k1 ++ killEarlier replace
  let replace := replace.filter fun x => !k2.contains x.lineId
  let k3 := match tool with
    | some tl => k2 ++ killLater (fun t : Tool => t.path) (·.lineId) tl []
    | none => k2
  let tool := tool.map fun tl => tl.filter fun t => !k3.contains t.lineId
  ({ syn with stmts := dropKilled k3 syn.stmts }, exclude, replace, tool)

/-- File.SortBlocks -/
def sortBlocks (e : EFile) : EFile :=
  let (syn, ex, rp, tl) := removeDups e.f.syn (some e.f.exclude) e.f.replace (some e.f.tool)
  let useSemantic := match e.f.go with
    | some g => Semver.compare (118 :: g.version) semanticSortForExcludeVersionV ≥ 0
    | none => false
  { e with f := { e.f with exclude := ex.getD [], replace := rp, tool := tl.getD [],
                           syn := { syn with stmts := sortStmts useSemantic false syn.stmts } } }

/-- File.Cleanup -/
def cleanup (e : EFile) : EFile :=
  { e with f := { e.f with
      godebug := e.f.godebug.filter (!·.key.isEmpty)
      require := e.f.require.filter (!·.mod.path.isEmpty)
      exclude := e.f.exclude.filter (!·.mod.path.isEmpty)
      replace := e.f.replace.filter (!·.old.path.isEmpty)
      retract := e.f.retract.filter (fun r => !r.interval.low.isEmpty || !r.interval.high.isEmpty)
      tool := e.f.tool.filter (!·.path.isEmpty)
      syn := cleanupSyntax e.f.syn } }

/-! ### scalar statements -/

def addModuleStmt (e : EFile) (path : Bytes) : EFile :=
  match e.f.module with
  | none =>
    { f := { e.f with module := some { mod := { path := path }, lineId := e.next },
                      syn := addLine e.f.syn none [B "module", autoQuote path] e.next }, next := e.next + 1 }
  | some m =>
    { e with f := { e.f with module := some { m with mod := { m.mod with path := path } },
                             syn := updateLine e.f.syn m.lineId [B "module", autoQuote path] } }

def addGoStmt (e : EFile) (version : Bytes) : Except EditErr EFile :=
  if !goVersionRE version then .error .invalidGoVersion else
  match e.f.go with
  | none =>
    let hint := e.f.module.map (·.lineId)
    .ok { f := { e.f with go := some { version := version, lineId := e.next },
                          syn := addLine e.f.syn hint [B "go", version] e.next }, next := e.next + 1 }
  | some g =>
    .ok { e with f := { e.f with go := some { g with version := version }, syn := updateLine e.f.syn g.lineId [B "go", version] } }

def dropGoStmt (e : EFile) : EFile :=
  match e.f.go with
  | some g => { e with f := { e.f with go := none, syn := markRemoved e.f.syn g.lineId } }
  | none => e

def dropToolchainStmt (e : EFile) : EFile :=
  match e.f.toolchain with
  | some t => { e with f := { e.f with toolchain := none, syn := markRemoved e.f.syn t.lineId } }
  | none => e

def addToolchainStmt (e : EFile) (name : Bytes) : Except EditErr EFile :=
  if !toolchainRE name then .error .invalidToolchain else
  match e.f.toolchain with
  | none =>
    let hint := match e.f.go with
      | some g => some g.lineId
      | none => e.f.module.map (·.lineId)
    .ok { f := { e.f with toolchain := some { name := name, lineId := e.next },
                          syn := addLine e.f.syn hint [B "toolchain", name] e.next }, next := e.next + 1 }
  | some t =>
    .ok { e with f := { e.f with toolchain := some { t with name := name }, syn := updateLine e.f.syn t.lineId [B "toolchain", name] } }

/-! ### godebug -/

def addGodebugCore (syn : FileSyntax) (gd : List Godebug) (next : Nat) (key value : Bytes) :
    Except EditErr (FileSyntax × List Godebug × Nat) := do
  let tokens := [B "godebug", key ++ [61] ++ value]
  let (gd', first, dead) ← firstRest (fun g : Godebug => g.key == key) (·.lineId) (fun g => { g with value := value }) clearedGodebug gd true
  match first with
  | some i => pure (markAll (updateLine syn i tokens) dead, gd', next)
  | none => pure (addLine syn none tokens next, gd' ++ [{ key := key, value := value, lineId := next }], next + 1)

def addGodebug (e : EFile) (key value : Bytes) : Except EditErr EFile := do
  let (syn, gd, next) ← addGodebugCore e.f.syn e.f.godebug e.next key value
  pure { f := { e.f with godebug := gd, syn := syn }, next := next }

def dropGodebug (e : EFile) (key : Bytes) : Except EditErr EFile := do
  let (gd, dead) ← clearAll (fun g : Godebug => g.key == key) (·.lineId) clearedGodebug e.f.godebug
  pure { e with f := { e.f with godebug := gd, syn := markAll e.f.syn dead } }

/-! ### require -/

/-- AddNewRequire -/
def addNewRequire (e : EFile) (path vers : Bytes) (indirect : Bool) : EFile :=
  let syn := addLine e.f.syn none [B "require", autoQuote path, vers] e.next
  let syn := syn.updateLine e.next (setIndirectLine indirect)
  { f := { e.f with require := e.f.require ++ [{ mod := { path := path, version := vers }, indirect := indirect, lineId := e.next }],
                    syn := syn }, next := e.next + 1 }

def addRequire (e : EFile) (path vers : Bytes) : Except EditErr EFile := do
  let (rq, first, dead) ← firstRest (fun r : Require => r.mod.path == path) (·.lineId)
      (fun r => { r with mod := { r.mod with version := vers } }) clearedRequire e.f.require true
  match first with
  | some i => pure { e with f := { e.f with require := rq, syn := markAll (updateLine e.f.syn i [B "require", autoQuote path, vers]) dead } }
  | none => pure (addNewRequire e path vers false)

def dropRequire (e : EFile) (path : Bytes) : Except EditErr EFile := do
  let (rq, dead) ← clearAll (fun r : Require => r.mod.path == path) (·.lineId) clearedRequire e.f.require
  pure { e with f := { e.f with require := rq, syn := markAll e.f.syn dead } }

/-- a requested requirement -/
structure Want where
  path : Bytes
  vers : Bytes
  indirect : Bool
  deriving Repr, DecidableEq, Inhabited

/-- `need[path] = elem` over the request, as an association list in first-insertion order; a path with
    two different versions is SetRequire's panic -/
def needMap (strictVersions : Bool) : List Want → List Want → Except EditErr (List Want)
  | [], acc => .ok acc
  | w :: ws, acc =>
    match acc.find? (·.path == w.path) with
    | some prev =>
      if strictVersions && prev.vers != w.vers then .error .conflictingVersions
      else needMap strictVersions ws (acc.map fun a => if a.path == w.path then w else a)
    | none => needMap strictVersions ws (acc ++ [w])

/-- the loop of SetRequire over the existing entries -/
def setRequireLoop : List Require → List Want → FileSyntax → Except EditErr (List Require × List Want × FileSyntax)
  | [], need, syn => .ok ([], need, syn)
  | r :: rs, need, syn =>
    match need.find? (·.path == r.mod.path) with
    | some w => do
      let i ← deref r.lineId
      let syn := syn.updateLine i (fun l => setIndirectLine w.indirect (setVersionLine w.vers l))
      let (rs', need', syn') ← setRequireLoop rs (need.filter (·.path != r.mod.path)) syn
      pure ({ r with mod := { r.mod with version := w.vers }, indirect := w.indirect } :: rs', need', syn')
    | none => do
      let i ← deref r.lineId
      -- r.markRemoved(); then delete(need, "")
      let (rs', need', syn') ← setRequireLoop rs (need.filter (!·.path.isEmpty)) (markRemoved syn i)
      pure (clearedRequire :: rs', need', syn')

/-- File.SetRequire; `perm` is the order in which Go's map iteration yields the entries still needed -/
def setRequire (e : EFile) (req : List Want) (perm : List Want → List Want) : Except EditErr EFile := do
  let need ← needMap true req []
  let (rq, need, syn) ← setRequireLoop e.f.require need e.f.syn
  let e := { e with f := { e.f with require := rq, syn := syn } }
  let e := (perm need).foldl (fun e w => addNewRequire e w.path w.vers w.indirect) e
  pure (sortBlocks e)

/-! ### SetRequireSeparateIndirect -/

/-- hasComments: comments other than "indirect" -/
def hasComments (c : Comments) : Bool :=
  !c.before.isEmpty || !c.after.isEmpty || c.suffix.length > 1 ||
  (match c.suffix with
   | [s] => GoStrings.trimSpace (GoStrings.trimPrefix s.token slashSlash) != B "indirect"
   | _ => false)

structure Scan where
  lastDirect : Option Nat := none
  lastIndirect : Option Nat := none
  lastRequire : Option Nat := none
  count : Nat := 0
  lineToBlock : List (Nat × Nat) := []     -- line id ↦ index of its block
  deriving Repr, Inhabited

def scanBlockLines : List Line → Bool → Bool → Bool × Bool
  | [], d, i => (d, i)
  | l :: ls, d, i =>
    if hasComments l.comments then scanBlockLines ls false false
    else if isIndirect l then scanBlockLines ls false i
    else scanBlockLines ls d false

def scanStmts : List Expr → Nat → Scan → Scan
  | [], _, s => s
  | .line l :: xs, i, s =>
    if l.token.isEmpty || !headIs l.token (B "require") then scanStmts xs (i + 1) s else
    let s := { s with lastRequire := some i, count := s.count + 1 }
    let s := if !hasComments l.comments then
        (if isIndirect l then { s with lastIndirect := some i } else { s with lastDirect := some i })
      else s
    scanStmts xs (i + 1) s
  | .lineBlock b :: xs, i, s =>
    if b.token.isEmpty || !headIs b.token (B "require") then scanStmts xs (i + 1) s else
    let s := { s with lastRequire := some i, count := s.count + 1,
                      lineToBlock := s.lineToBlock ++ b.lines.map fun l => (l.id, i) }
    let init := !b.lines.isEmpty && !hasComments b.comments
    let (allDirect, allIndirect) := scanBlockLines b.lines init init
    let s := if allDirect then { s with lastDirect := some i } else s
    let s := if allIndirect then { s with lastIndirect := some i } else s
    scanStmts xs (i + 1) s
  | _ :: xs, i, s => scanStmts xs (i + 1) s

def emptyRequireBlock : Expr := .lineBlock { token := [B "require"] }

/-- ensureBlock: the statement at `i` as a block (a line is wrapped) -/
def ensureBlock (stmts : List Expr) (i : Nat) : Except EditErr (List Expr) :=
  match stmts[i]? with
  | some (.lineBlock _) => .ok stmts
  | some (.line l) =>
    .ok (stmts.set i (.lineBlock { token := [B "require"], lines := [{ l with token := l.token.drop 1, inBlock := true }] }))
  | _ => .error .badStatement

/-- append a line to the block at statement index `i` -/
def appendToBlock (stmts : List Expr) (i : Nat) (l : Line) : List Expr :=
  match stmts[i]? with
  | some (.lineBlock b) => stmts.set i (.lineBlock { b with lines := b.lines ++ [l] })
  | _ => stmts

/-- moveReq for an existing requirement: copy the line into the block under a fresh id, kill the old one -/
def moveExisting (syn : FileSyntax) (lineId : Nat) (blockIdx : Nat) (new : Nat) : FileSyntax :=
  match syn.findLine lineId with
  | none => syn
  | some old =>
    let tok := if !old.inBlock && !old.token.isEmpty && headIs old.token (B "require") then old.token.drop 1 else old.token
    let line : Line := { old with id := new, token := tok, inBlock := true }
    let syn := syn.updateLine lineId fun l => { l with token := [] }
    { syn with stmts := appendToBlock syn.stmts blockIdx line }

structure SepCtx where
  oneFlat : Bool
  directIdx : Nat
  indirectIdx : Nat
  directOrig : Option Nat      -- index the direct block had during the scan (none: new or wrapped line)
  indirectOrig : Option Nat
  lineToBlock : List (Nat × Nat)

def inBlockOrig (ctx : SepCtx) (lineId : Nat) (orig : Option Nat) : Bool :=
  match orig with
  | none => false
  | some k => (ctx.lineToBlock.find? (·.1 == lineId)).map (·.2) == some k

def sepLoop (ctx : SepCtx) (need : List Want) : List Require → List Bytes → FileSyntax → Nat →
    Except EditErr (List Require × List Bytes × FileSyntax × Nat)
  | [], have_, syn, next => .ok ([], have_, syn, next)
  | r :: rs, have_, syn, next =>
    match need.find? (·.path == r.mod.path) with
    | some w =>
      if have_.contains r.mod.path then do
        let i ← deref r.lineId
        let (rs', h', syn', next') ← sepLoop ctx need rs have_ (markRemoved syn i) next
        pure (clearedRequire :: rs', h', syn', next')
      else do
        let i ← deref r.lineId
        let syn := syn.updateLine i (fun l => setIndirectLine w.indirect (setVersionLine w.vers l))
        let r := { r with mod := { r.mod with version := w.vers }, indirect := w.indirect }
        let (r, syn, next) :=
          if w.indirect && (ctx.oneFlat || inBlockOrig ctx i ctx.directOrig) then
            ({ r with lineId := next }, moveExisting syn i ctx.indirectIdx next, next + 1)
          else if !w.indirect && (ctx.oneFlat || inBlockOrig ctx i ctx.indirectOrig) then
            ({ r with lineId := next }, moveExisting syn i ctx.directIdx next, next + 1)
          else (r, syn, next)
        let (rs', h', syn', next') ← sepLoop ctx need rs (r.mod.path :: have_) syn next
        pure (r :: rs', h', syn', next')
    | none => do
      let i ← deref r.lineId
      let (rs', h', syn', next') ← sepLoop ctx need rs have_ (markRemoved syn i) next
      pure (clearedRequire :: rs', h', syn', next')

/-- moveReq for a new requirement -/
def addSepNew (ctx : SepCtx) (e : EFile) (w : Want) : EFile :=
  let line := mkLine e.next [autoQuote w.path, w.vers] true
  let line := if w.indirect then setIndirectLine true line else line
  let idx := if w.indirect then ctx.indirectIdx else ctx.directIdx
  { f := { e.f with require := e.f.require ++ [{ mod := { path := w.path, version := w.vers }, indirect := w.indirect, lineId := e.next }],
                    syn := { e.f.syn with stmts := appendToBlock e.f.syn.stmts idx line } },
    next := e.next + 1 }

/-- File.SetRequireSeparateIndirect -/
def setRequireSeparateIndirect (e : EFile) (req : List Want) (perm : List Want → List Want) : Except EditErr EFile := do
  let stmts := e.f.syn.stmts
  let sc := scanStmts stmts 0 {}
  let oneFlat := sc.count == 1 &&
    (match sc.lastRequire with
     | some i => !hasComments ((stmts[i]?.map Expr.comments).getD {})
     | none => false)
  -- direct block
  let (stmts, directIdx, directOrig, lastIndirect, indirectShift) ←
    match sc.lastDirect with
    | none =>
      match sc.lastIndirect with
      | some j => pure (insertAt stmts j emptyRequireBlock, j, (none : Option Nat), some (j + 1), some j)
      | none =>
        match sc.lastRequire with
        | some k => pure (insertAt stmts (k + 1) emptyRequireBlock, k + 1, none, none, none)
        | none => pure (stmts ++ [emptyRequireBlock], stmts.length, none, none, none)
    | some d => do
      let isBlock := match stmts[d]? with
        | some (.lineBlock _) => true
        | _ => false
      let stmts ← ensureBlock stmts d
      pure (stmts, d, (if isBlock then some d else none), sc.lastIndirect, sc.lastIndirect)
  -- indirect block
  let (stmts, indirectIdx, indirectOrig) ←
    match lastIndirect with
    | none => pure (insertAt stmts (directIdx + 1) emptyRequireBlock, directIdx + 1, (none : Option Nat))
    | some j => do
      let isBlock := match stmts[j]? with
        | some (.lineBlock _) => true
        | _ => false
      let stmts ← ensureBlock stmts j
      pure (stmts, j, (if isBlock then indirectShift else none))
  let ctx : SepCtx := { oneFlat := oneFlat, directIdx := directIdx, indirectIdx := indirectIdx,
                        directOrig := directOrig, indirectOrig := indirectOrig, lineToBlock := sc.lineToBlock }
  let need ← needMap false req []
  let (rq, have_, syn, next) ← sepLoop ctx need e.f.require [] { e.f.syn with stmts := stmts } e.next
  let e : EFile := { f := { e.f with require := rq, syn := syn }, next := next }
  let missing := (perm need).filter fun w => !have_.contains w.path
  let e := missing.foldl (addSepNew ctx) e
  pure (sortBlocks e)

/-! ### exclude / replace / retract / tool -/

def lastWith {α : Type} (m : α → Bool) (id : α → Nat) : List α → Option Nat → Option Nat
  | [], acc => acc
  | x :: xs, acc => lastWith m id xs (if m x then some (id x) else acc)

def addExclude (e : EFile) (path vers : Bytes) : Except EditErr EFile :=
  if !checkCanonicalVersion path vers then .error .invalidVersion else
  -- the loop returns at the first exact match; the hint is the last same-path entry before it
  if e.f.exclude.any (fun x => x.mod.path == path && x.mod.version == vers) then .ok e else
  let hint := lastWith (fun x : Exclude => x.mod.path == path) (·.lineId) e.f.exclude none
  .ok { f := { e.f with exclude := e.f.exclude ++ [{ mod := { path := path, version := vers }, lineId := e.next }],
                        syn := addLinePtr e.f.syn hint [B "exclude", autoQuote path, vers] e.next }, next := e.next + 1 }

def dropExclude (e : EFile) (path vers : Bytes) : Except EditErr EFile := do
  let (ex, dead) ← clearAll (fun x : Exclude => x.mod.path == path && x.mod.version == vers) (·.lineId) clearedExclude e.f.exclude
  pure { e with f := { e.f with exclude := ex, syn := markAll e.f.syn dead } }

/-- addReplace (shared by go.mod and go.work) -/
def addReplaceCore (syn : FileSyntax) (replace : List Replace) (next : Nat) (oldPath oldVers newPath newVers : Bytes) :
    Except EditErr (FileSyntax × List Replace × Nat) := do
  let old : ModVersion := { path := oldPath, version := oldVers }
  let new : ModVersion := { path := newPath, version := newVers }
  let tokens := [B "replace", autoQuote oldPath] ++ (if oldVers.isEmpty then [] else [oldVers]) ++
    [B "=>", autoQuote newPath] ++ (if newVers.isEmpty then [] else [newVers])
  let m := fun (r : Replace) => r.old.path == oldPath && (oldVers.isEmpty || r.old.version == oldVers)
  let (rp, first, dead) ← firstRest m (·.lineId) (fun r => { r with old := old, new := new }) clearedReplace replace true
  match first with
  | some i => pure (markAll (updateLine syn i tokens) dead, rp, next)
  | none =>
    -- need is still true: nothing matched, so nothing was cleared; hint = last entry with the same old path
    let hint := lastWith (fun r : Replace => r.old.path == oldPath) (·.lineId) replace none
    pure (addLinePtr syn hint tokens next, rp ++ [{ old := old, new := new, lineId := next }], next + 1)

def addReplace (e : EFile) (oldPath oldVers newPath newVers : Bytes) : Except EditErr EFile := do
  let (syn, rp, next) ← addReplaceCore e.f.syn e.f.replace e.next oldPath oldVers newPath newVers
  pure { f := { e.f with replace := rp, syn := syn }, next := next }

def dropReplaceCore (syn : FileSyntax) (replace : List Replace) (oldPath oldVers : Bytes) :
    Except EditErr (FileSyntax × List Replace) := do
  let (rp, dead) ← clearAll (fun r : Replace => r.old.path == oldPath && r.old.version == oldVers) (·.lineId) clearedReplace replace
  pure (markAll syn dead, rp)

def dropReplace (e : EFile) (oldPath oldVers : Bytes) : Except EditErr EFile := do
  let (syn, rp) ← dropReplaceCore e.f.syn e.f.replace oldPath oldVers
  pure { e with f := { e.f with replace := rp, syn := syn } }

def addRetract (e : EFile) (vi : VersionInterval) (rationale : Bytes) : Except EditErr EFile :=
  let path := match e.f.module with
    | some m => m.mod.path
    | none => []
  if !checkCanonicalVersion path vi.high then .error .invalidVersion else
  if !checkCanonicalVersion path vi.low then .error .invalidVersion else
  let tokens := if vi.low == vi.high then [B "retract", autoQuote vi.low]
    else [B "retract", [91], autoQuote vi.low, [44], autoQuote vi.high, [93]]
  let syn := addLine e.f.syn none tokens e.next
  let coms : List Comment := if rationale.isEmpty then [] else
    (splitOn 10 rationale).map fun line => { token := B "// " ++ line }
  let syn := syn.updateLine e.next fun l => { l with comments := { l.comments with before := l.comments.before ++ coms } }
  let rat := match syn.findLine e.next with
    | some l => parseDirectiveComment none l.comments
    | none => []
  .ok { f := { e.f with retract := e.f.retract ++ [{ interval := vi, rationale := rat, lineId := e.next }], syn := syn },
        next := e.next + 1 }

def dropRetract (e : EFile) (vi : VersionInterval) : Except EditErr EFile := do
  let (rt, dead) ← clearAll (fun r : Retract => r.interval == vi) (·.lineId) clearedRetract e.f.retract
  pure { e with f := { e.f with retract := rt, syn := markAll e.f.syn dead } }

def addTool (e : EFile) (path : Bytes) : EFile :=
  if e.f.tool.any (·.path == path) then e else
  sortBlocks { f := { e.f with tool := e.f.tool ++ [{ path := path, lineId := e.next }],
                               syn := addLine e.f.syn none [B "tool", path] e.next }, next := e.next + 1 }

def dropTool (e : EFile) (path : Bytes) : Except EditErr EFile := do
  let (tl, dead) ← clearAll (fun t : Tool => t.path == path) (·.lineId) clearedTool e.f.tool
  pure { e with f := { e.f with tool := tl, syn := markAll e.f.syn dead } }

/-! ### go.work -/

def workSortBlocks (e : EWork) : EWork :=
  let (syn, _, rp, _) := removeDups e.f.syn none e.f.replace none
  { e with f := { e.f with replace := rp, syn := { syn with stmts := sortStmts false true syn.stmts } } }

def workCleanup (e : EWork) : EWork :=
  { e with f := { e.f with
      godebug := e.f.godebug.filter (!·.key.isEmpty)
      use := e.f.use.filter (!·.path.isEmpty)
      replace := e.f.replace.filter (!·.old.path.isEmpty)
      syn := cleanupSyntax e.f.syn } }

/-- index of the first statement that is not a comment block -/
def firstNonComment : List Expr → Nat → Nat
  | .commentBlock _ :: xs, i => firstNonComment xs (i + 1)
  | _, i => i

/-- index after the first top-level `go` line, if any -/
def afterGoLine : List Expr → Nat → Option Nat
  | [], _ => none
  | .line l :: xs, i => if !l.token.isEmpty && headIs l.token (B "go") then some (i + 1) else afterGoLine xs (i + 1)
  | _ :: xs, i => afterGoLine xs (i + 1)

def workAddGoStmt (e : EWork) (version : Bytes) : Except EditErr EWork :=
  if !goVersionRE version then .error .invalidGoVersion else
  match e.f.go with
  | none =>
    let stmt := mkLine e.next [B "go", version] false
    let i := firstNonComment e.f.syn.stmts 0
    .ok { f := { e.f with go := some { version := version, lineId := e.next },
                          syn := { e.f.syn with stmts := insertAt e.f.syn.stmts i (.line stmt) } }, next := e.next + 1 }
  | some g =>
    .ok { e with f := { e.f with go := some { g with version := version }, syn := updateLine e.f.syn g.lineId [B "go", version] } }

def workAddToolchainStmt (e : EWork) (name : Bytes) : Except EditErr EWork :=
  if !toolchainRE name then .error .invalidToolchain else
  match e.f.toolchain with
  | none =>
    let stmt := mkLine e.next [B "toolchain", name] false
    let i := match afterGoLine e.f.syn.stmts 0 with
      | some i => i
      | none => firstNonComment e.f.syn.stmts 0
    .ok { f := { e.f with toolchain := some { name := name, lineId := e.next },
                          syn := { e.f.syn with stmts := insertAt e.f.syn.stmts i (.line stmt) } }, next := e.next + 1 }
  | some t =>
    .ok { e with f := { e.f with toolchain := some { t with name := name }, syn := updateLine e.f.syn t.lineId [B "toolchain", name] } }

def workDropGoStmt (e : EWork) : EWork :=
  match e.f.go with
  | some g => { e with f := { e.f with go := none, syn := markRemoved e.f.syn g.lineId } }
  | none => e

def workDropToolchainStmt (e : EWork) : EWork :=
  match e.f.toolchain with
  | some t => { e with f := { e.f with toolchain := none, syn := markRemoved e.f.syn t.lineId } }
  | none => e

def workAddGodebug (e : EWork) (key value : Bytes) : Except EditErr EWork := do
  let (syn, gd, next) ← addGodebugCore e.f.syn e.f.godebug e.next key value
  pure { f := { e.f with godebug := gd, syn := syn }, next := next }

def workDropGodebug (e : EWork) (key : Bytes) : Except EditErr EWork := do
  let (gd, dead) ← clearAll (fun g : Godebug => g.key == key) (·.lineId) clearedGodebug e.f.godebug
  pure { e with f := { e.f with godebug := gd, syn := markAll e.f.syn dead } }

def addNewUse (e : EWork) (diskPath modulePath : Bytes) : EWork :=
  { f := { e.f with use := e.f.use ++ [{ path := diskPath, modulePath := modulePath, lineId := e.next }],
                    syn := addLine e.f.syn none [B "use", autoQuote diskPath] e.next }, next := e.next + 1 }

def addUse (e : EWork) (diskPath modulePath : Bytes) : Except EditErr EWork := do
  let (us, first, dead) ← firstRest (fun u : Use => u.path == diskPath) (·.lineId)
      (fun u => { u with modulePath := modulePath }) clearedUse e.f.use true
  match first with
  | some i => pure { e with f := { e.f with use := us, syn := markAll (updateLine e.f.syn i [B "use", autoQuote diskPath]) dead } }
  | none => pure (addNewUse e diskPath modulePath)

def dropUse (e : EWork) (path : Bytes) : Except EditErr EWork := do
  let (us, dead) ← clearAll (fun u : Use => u.path == path) (·.lineId) clearedUse e.f.use
  pure { e with f := { e.f with use := us, syn := markAll e.f.syn dead } }

/-- `need[d.Path] = d.ModulePath` in first-insertion order -/
def useNeedMap : List (Bytes × Bytes) → List (Bytes × Bytes) → List (Bytes × Bytes)
  | [], acc => acc
  | w :: ws, acc =>
    if acc.any (·.1 == w.1) then useNeedMap ws (acc.map fun a => if a.1 == w.1 then w else a)
    else useNeedMap ws (acc ++ [w])

def setUseLoop : List Use → List (Bytes × Bytes) → FileSyntax → Except EditErr (List Use × List (Bytes × Bytes) × FileSyntax)
  | [], need, syn => .ok ([], need, syn)
  | d :: ds, need, syn =>
    match need.find? (·.1 == d.path) with
    | some w => do
      let (ds', need', syn') ← setUseLoop ds (need.filter (·.1 != d.path)) syn
      pure ({ d with modulePath := w.2 } :: ds', need', syn')
    | none => do
      let i ← deref d.lineId
      let (ds', need', syn') ← setUseLoop ds need (markRemoved syn i)
      pure (clearedUse :: ds', need', syn')

/-- WorkFile.SetUse -/
def setUse (e : EWork) (dirs : List (Bytes × Bytes)) (perm : List (Bytes × Bytes) → List (Bytes × Bytes)) : Except EditErr EWork := do
  let (us, need, syn) ← setUseLoop e.f.use (useNeedMap dirs []) e.f.syn
  let e := { e with f := { e.f with use := us, syn := syn } }
  let e := (perm need).foldl (fun e w => addNewUse e w.1 w.2) e
  pure (workSortBlocks e)

def workAddReplace (e : EWork) (oldPath oldVers newPath newVers : Bytes) : Except EditErr EWork := do
  let (syn, rp, next) ← addReplaceCore e.f.syn e.f.replace e.next oldPath oldVers newPath newVers
  pure { f := { e.f with replace := rp, syn := syn }, next := next }

def workDropReplace (e : EWork) (oldPath oldVers : Bytes) : Except EditErr EWork := do
  let (syn, rp) ← dropReplaceCore e.f.syn e.f.replace oldPath oldVers
  pure { e with f := { e.f with replace := rp, syn := syn } }

/-! ### sessions -/

inductive Op where
  | addModule (path : Bytes)
  | addGo (v : Bytes)
  | dropGo
  | addToolchain (n : Bytes)
  | dropToolchain
  | addGodebug (k v : Bytes)
  | dropGodebug (k : Bytes)
  | addRequire (p v : Bytes)
  | addNewRequire (p v : Bytes) (indirect : Bool)
  | dropRequire (p : Bytes)
  | setRequire (want : List Want) (rev : Bool)
  | setRequireSeparateIndirect (want : List Want) (rev : Bool)
  | addExclude (p v : Bytes)
  | dropExclude (p v : Bytes)
  | addReplace (op ov np nv : Bytes)
  | dropReplace (op ov : Bytes)
  | addRetract (lo hi why : Bytes)
  | dropRetract (lo hi : Bytes)
  | addTool (p : Bytes)
  | dropTool (p : Bytes)
  | sortBlocks
  | cleanup
  | addUse (dir modPath : Bytes)
  | addNewUse (dir modPath : Bytes)
  | dropUse (dir : Bytes)
  | setUse (want : List (Bytes × Bytes)) (rev : Bool)
  deriving Repr, Inhabited

/-- the two map-iteration orders the driver exercises -/
def permOf {α : Type} (rev : Bool) : List α → List α := fun l => if rev then l.reverse else l

/-- result of one op: the new file and whether the Go method returned an error (`false`); `none` of the
    outer option = the op does not exist for this file kind -/
def applyMod (e : EFile) : Op → Option (Except EditErr EFile)
  | .addModule p => some (.ok (addModuleStmt e p))
  | .addGo v => some (addGoStmt e v)
  | .dropGo => some (.ok (dropGoStmt e))
  | .addToolchain n => some (addToolchainStmt e n)
  | .dropToolchain => some (.ok (dropToolchainStmt e))
  | .addGodebug k v => some (addGodebug e k v)
  | .dropGodebug k => some (dropGodebug e k)
  | .addRequire p v => some (addRequire e p v)
  | .addNewRequire p v i => some (.ok (addNewRequire e p v i))
  | .dropRequire p => some (dropRequire e p)
  | .setRequire w rev => some (setRequire e w (permOf rev))
  | .setRequireSeparateIndirect w rev => some (setRequireSeparateIndirect e w (permOf rev))
  | .addExclude p v => some (addExclude e p v)
  | .dropExclude p v => some (dropExclude e p v)
  | .addReplace a b c d => some (addReplace e a b c d)
  | .dropReplace a b => some (dropReplace e a b)
  | .addRetract lo hi why => some (addRetract e { low := lo, high := hi } why)
  | .dropRetract lo hi => some (dropRetract e { low := lo, high := hi })
  | .addTool p => some (.ok (addTool e p))
  | .dropTool p => some (dropTool e p)
  | .sortBlocks => some (.ok (sortBlocks e))
  | .cleanup => some (.ok (cleanup e))
  | _ => none

def applyWork (e : EWork) : Op → Option (Except EditErr EWork)
  | .addGo v => some (workAddGoStmt e v)
  | .dropGo => some (.ok (workDropGoStmt e))
  | .addToolchain n => some (workAddToolchainStmt e n)
  | .dropToolchain => some (.ok (workDropToolchainStmt e))
  | .addGodebug k v => some (workAddGodebug e k v)
  | .dropGodebug k => some (workDropGodebug e k)
  | .addUse d m => some (addUse e d m)
  | .addNewUse d m => some (.ok (addNewUse e d m))
  | .dropUse d => some (dropUse e d)
  | .setUse w rev => some (setUse e w (permOf rev))
  | .addReplace a b c d => some (workAddReplace e a b c d)
  | .dropReplace a b => some (workDropReplace e a b)
  | .sortBlocks => some (.ok (workSortBlocks e))
  | .cleanup => some (.ok (workCleanup e))
  | _ => none

/-- is the error a returned Go `error` (file unchanged) rather than a panic -/
def EditErr.isReturned : EditErr → Bool
  | .invalidGoVersion | .invalidToolchain | .invalidVersion => true
  | _ => false

inductive SessionResult (σ : Type) where
  | done (e : σ) (res : List Bool)      -- per op: true = ok, false = returned error
  | panic (opIndex : Nat)
  | badOp

def runOps {σ : Type} (apply : σ → Op → Option (Except EditErr σ)) : σ → List Op → List Bool → Nat → SessionResult σ
  | e, [], res, _ => .done e res.reverse
  | e, op :: ops, res, i =>
    match apply e op with
    | none => .badOp
    | some (.ok e') => runOps apply e' ops (true :: res) (i + 1)
    | some (.error err) => if err.isReturned then runOps apply e ops (false :: res) (i + 1) else .panic i

end ModVerif.Modfile.Edit
