/-
  Model of /repo/sumdb/tlog/tlog.go (as of the `fix:` commit 8e3ce2a: `maxpow2` has the `l < 62` guard).

  Hashes are abstract: every definition is generic in the hash type `H`; the two hash functions are
  explicit parameters `leaf : Bytes → H` (RecordHash) and `node : H → H → H` (NodeHash).
  Integers: Go `int64` values are `Nat` inside the guarded region and `Int` at the exported entry points
  that validate their arguments (`proveRecord`, `checkRecord`, `proveTree`, `checkTree`).
  A `HashReader` is a function `List Nat → Option (List H)` (`none` = ReadHashes returned an error);
  `storeReader store` is the honest reader over a dense store.

  Every recursion is structural on a fuel argument; the wrappers supply `hi - lo` (each recursive call
  strictly shrinks the interval, so this is always enough) — see `Proofs/Tlog*.lean` for the fuel lemmas.
  Go `panic` sites ("bad math", index out of range) are `Err.panic`; running out of fuel is `Err.fuel`
  (corresponds to non-termination of the Go loop; proved unreachable).
-/
import ModVerif.Basic.Bytes
namespace ModVerif.Tlog
open ModVerif

/-- canonical error kinds of package tlog -/
inductive Err where
  | invalid       -- "tlog: invalid inputs in …"
  | proofFailed   -- errProofFailed
  | reader        -- the HashReader failed or returned the wrong number of hashes
  | indexRange    -- tile reader: "indexes not in tree"
  | badTile       -- tile reader / HashFromTile: invalid tile, short data, index not in tile, bad slice from TileReader
  | inconsistent  -- tile reader: "downloaded inconsistent tile"
  | badMath       -- tile reader: the "bad math in tileHashReader" error returns (not panics)
  | panic         -- a Go panic site
  | fuel          -- model only: fuel exhausted (the Go loop would not terminate)
  deriving DecidableEq, Repr

def Err.toString : Err → String
  | .invalid => "err:invalid"
  | .proofFailed => "err:proof"
  | .reader => "err:reader"
  | .indexRange => "err:range"
  | .badTile => "err:tile"
  | .inconsistent => "err:inconsistent"
  | .badMath => "err:badmath"
  | .panic => "panic"
  | .fuel => "hang"

def HashSize : Nat := 32

/-! ### integer kernels -/

/-- loop of `maxpow2`: `for l < 62 && 1<<uint(l+1) < n { l++ }`; fuel = 62 - l. -/
def maxpow2Go : Nat → Nat → Nat → Nat
  | 0, _, l => l
  | f + 1, n, l => if 2 ^ (l + 1) < n then maxpow2Go f n (l + 1) else l

/-- `maxpow2 n = (k, l)`: the code's result for `n ≥ 0` (for `n ≤ 1`, `(1, 0)`). -/
def maxpow2 (n : Nat) : Nat × Nat :=
  let l := maxpow2Go 62 n 0
  (2 ^ l, l)

/-- second loop of StoredHashIndex: `for ; n > 0; n >>= 1 { i += n }`; fuel `n` suffices. -/
def sumHalves : Nat → Nat → Nat
  | 0, _ => 0
  | f + 1, n => if n > 0 then n + sumHalves f (n / 2) else 0

/-- first loop of StoredHashIndex: `for l := level; l > 0; l-- { n = 2*n + 1 }` -/
def descend : Nat → Nat → Nat
  | 0, n => n
  | l + 1, n => descend l (2 * n + 1)

def storedHashIndex (level n : Nat) : Nat :=
  let n0 := descend level n
  sumHalves n0 n0 + level

/-- bits.TrailingZeros64(uint64(n)) -/
def tzAux : Nat → Nat → Nat
  | 0, _ => 0
  | f + 1, n => if n % 2 == 1 then 0 else 1 + tzAux f (n / 2)

def trailingZeros64 (n : Nat) : Nat := tzAux 64 (n % 2 ^ 64)

/-- loop of SplitStoredHashIndex; returns the final `(n, indexN)`. -/
def splitLoop (index : Nat) : Nat → Nat → Nat → Except Err (Nat × Nat)
  | 0, _, _ => .error .fuel
  | f + 1, n, indexN =>
    let x := indexN + 1 + trailingZeros64 (n + 1)
    if x > index then .ok (n, indexN) else splitLoop index f (n + 1) x

/-- `SplitStoredHashIndex index = (level, n)`. -/
def splitStoredHashIndex (index : Nat) : Except Err (Nat × Nat) :=
  let n := index / 2
  let indexN := storedHashIndex 0 n
  if indexN > index then .error .panic else do
    let (n, indexN) ← splitLoop index (index.log2 + 3) n indexN
    let level := index - indexN
    pure (level, n >>> level)

/-- `for i := uint64(n - 1); i&1 != 0; i >>= 1 { numHash++ }` -/
def trailingOnes : Nat → Nat → Nat
  | 0, _ => 0
  | f + 1, i => if i % 2 == 1 then 1 + trailingOnes f (i / 2) else 0

def storedHashCount (n : Nat) : Nat :=
  if n == 0 then 0 else storedHashIndex 0 (n - 1) + 1 + trailingOnes 64 (n - 1)

/-! ### readers -/

section
variable {H : Type}

abbrev HashReader (H : Type) := List Nat → Option (List H)

/-- the honest reader over a dense store -/
def storeReader (store : List H) : HashReader H := fun idxs => idxs.mapM (store[·]?)

/-- `r.ReadHashes(indexes)` followed by the `len(hashes) != len(indexes)` check. -/
def readChecked (r : HashReader H) (indexes : List Nat) : Except Err (List H) :=
  match r indexes with
  | none => .error .reader
  | some hs => if hs.length != indexes.length then .error .reader else .ok hs

/-! ### StoredHashes -/

/-- `for i := 0; i < m; i++ { h = NodeHash(old[m-1-i], h); hashes = append(hashes, h) }`
    with `olds` = `old` reversed (so in order of `i`). -/
def buildHashes (node : H → H → H) : List H → H → List H
  | [], _ => []
  | o :: os, h => node o h :: buildHashes node os (node o h)

def storedHashesForRecordHash (node : H → H → H) (n : Nat) (h : H) (r : HashReader H) : Except Err (List H) := do
  let m := trailingZeros64 (n + 1)
  -- indexes[m-1-i] = StoredHashIndex(i, n>>uint(i)-1)
  let indexes := ((List.range m).map fun i => storedHashIndex i ((n >>> i) - 1)).reverse
  let old ← readChecked r indexes
  pure (h :: buildHashes node old.reverse h)

def storedHashes (leaf : Bytes → H) (node : H → H → H) (n : Nat) (data : Bytes) (r : HashReader H) :
    Except Err (List H) :=
  storedHashesForRecordHash node n (leaf data) r

/-- Appending records one at a time to a dense store (the usage the documentation prescribes):
    record `store`-relative number `n` is written at position `storedHashIndex 0 n`, which is the
    current length for a well-formed store (C09). -/
def appendRecord (leaf : Bytes → H) (node : H → H → H) (st : Nat × List H) (data : Bytes) : Except Err (Nat × List H) := do
  let hs ← storedHashes leaf node st.1 data (storeReader st.2)
  pure (st.1 + 1, st.2 ++ hs)

def appendAll (leaf : Bytes → H) (node : H → H → H) : List Bytes → Nat × List H → Except Err (Nat × List H)
  | [], st => .ok st
  | d :: ds, st => do
    let st' ← appendRecord leaf node st d
    appendAll leaf node ds st'

/-- the store after appending `records` to the empty log -/
def buildStore (leaf : Bytes → H) (node : H → H → H) (records : List Bytes) : Except Err (List H) :=
  (appendAll leaf node records (0, [])).map (·.2)

/-! ### tree hash -/

/-- `subTreeIndex(lo, hi, need)` returns `need ++ subTreeIndex lo hi`. -/
def subTreeIndexF : Nat → Nat → Nat → Except Err (List Nat)
  | 0, lo, hi => if lo < hi then .error .fuel else .ok []
  | f + 1, lo, hi =>
    if lo < hi then
      let (k, level) := maxpow2 (hi - lo + 1)
      if lo &&& (k - 1) != 0 then .error .panic else do
        let rest ← subTreeIndexF f (lo + k) hi
        pure (storedHashIndex level (lo >>> level) :: rest)
    else .ok []

def subTreeIndex (lo hi : Nat) : Except Err (List Nat) := subTreeIndexF (hi - lo) lo hi

/-- the `numTree` loop of subTreeHash -/
def numTreeF : Nat → Nat → Nat → Except Err Nat
  | 0, lo, hi => if lo < hi then .error .fuel else .ok 0
  | f + 1, lo, hi =>
    if lo < hi then
      let (k, _) := maxpow2 (hi - lo + 1)
      if lo &&& (k - 1) != 0 || lo ≥ hi then .error .panic else do
        let r ← numTreeF f (lo + k) hi
        pure (r + 1)
    else .ok 0

/-- `h := hashes[numTree-1]; for i := numTree-2; i >= 0; i-- { h = NodeHash(hashes[i], h) }` given the
    first `numTree` hashes reversed. -/
def foldRight (node : H → H → H) : List H → Option H
  | [] => none
  | last :: rest => some (rest.foldl (fun h x => node x h) last)

/-- `subTreeHash(lo, hi, hashes) = (hash, leftover)` -/
def subTreeHash (node : H → H → H) (lo hi : Nat) (hashes : List H) : Except Err (H × List H) := do
  let numTree ← numTreeF (hi - lo) lo hi
  if hashes.length < numTree then .error .panic
  else
    match foldRight node (hashes.take numTree).reverse with
    | none => .error .panic            -- numTree = 0: hashes[-1], index out of range
    | some h => .ok (h, hashes.drop numTree)

/-- `TreeHash(n, r)`; `emptyHash` is a parameter (SHA-256 of the empty string in the code). -/
def treeHash (node : H → H → H) (emptyHash : H) (n : Nat) (r : HashReader H) : Except Err H :=
  if n == 0 then .ok emptyHash else do
    let indexes ← subTreeIndex 0 n
    let hashes ← readChecked r indexes
    let (hash, rest) ← subTreeHash node 0 n hashes
    if rest.length != 0 then .error .panic else pure hash

/-! ### record (inclusion) proofs -/

/-- `leafProofIndex(lo, hi, n, need)` returns `need ++ leafProofIndex lo hi n`. -/
def leafProofIndexF : Nat → Nat → Nat → Nat → Except Err (List Nat)
  | 0, _, _, _ => .error .fuel
  | f + 1, lo, hi, n =>
    if !(lo ≤ n && n < hi) then .error .panic
    else if lo + 1 == hi then .ok []
    else
      let (k, _) := maxpow2 (hi - lo)
      if n < lo + k then do
        let a ← leafProofIndexF f lo (lo + k) n
        let b ← subTreeIndex (lo + k) hi
        pure (a ++ b)
      else do
        let a ← subTreeIndex lo (lo + k)
        let b ← leafProofIndexF f (lo + k) hi n
        pure (a ++ b)

def leafProofIndex (lo hi n : Nat) : Except Err (List Nat) := leafProofIndexF (hi - lo) lo hi n

/-- `leafProof(lo, hi, n, hashes) = (proof, leftover)` -/
def leafProofF (node : H → H → H) : Nat → Nat → Nat → Nat → List H → Except Err (List H × List H)
  | 0, _, _, _, _ => .error .fuel
  | f + 1, lo, hi, n, hashes =>
    if !(lo ≤ n && n < hi) then .error .panic
    else if lo + 1 == hi then .ok ([], hashes)
    else
      let (k, _) := maxpow2 (hi - lo)
      if n < lo + k then do
        let (p, hashes) ← leafProofF node f lo (lo + k) n hashes
        let (th, hashes) ← subTreeHash node (lo + k) hi hashes
        pure (p ++ [th], hashes)
      else do
        let (th, hashes) ← subTreeHash node lo (lo + k) hashes
        let (p, hashes) ← leafProofF node f (lo + k) hi n hashes
        pure (p ++ [th], hashes)

def leafProof (node : H → H → H) (lo hi n : Nat) (hashes : List H) : Except Err (List H × List H) :=
  leafProofF node (hi - lo) lo hi n hashes

/-- `ProveRecord(t, n, r)` -/
def proveRecord (node : H → H → H) (t n : Int) (r : HashReader H) : Except Err (List H) :=
  if t < 0 || n < 0 || n ≥ t then .error .invalid else do
    let t := t.toNat
    let n := n.toNat
    let indexes ← leafProofIndex 0 t n
    if indexes.length == 0 then pure [] else do
      let hashes ← readChecked r indexes
      let (p, rest) ← leafProof node 0 t n hashes
      if rest.length != 0 then .error .panic else pure p

/-- `runRecordProof(p, lo, hi, n, leafHash)` -/
def runRecordProofF (node : H → H → H) : Nat → List H → Nat → Nat → Nat → H → Except Err H
  | 0, _, _, _, _, _ => .error .fuel
  | f + 1, p, lo, hi, n, leafHash =>
    if !(lo ≤ n && n < hi) then .error .panic
    else if lo + 1 == hi then
      if p.length != 0 then .error .proofFailed else .ok leafHash
    else
      match p.getLast? with
      | none => .error .proofFailed
      | some last =>
        let (k, _) := maxpow2 (hi - lo)
        if n < lo + k then do
          let th ← runRecordProofF node f p.dropLast lo (lo + k) n leafHash
          pure (node th last)
        else do
          let th ← runRecordProofF node f p.dropLast (lo + k) hi n leafHash
          pure (node last th)

def runRecordProof (node : H → H → H) (p : List H) (lo hi n : Nat) (leafHash : H) : Except Err H :=
  runRecordProofF node (hi - lo) p lo hi n leafHash

/-- `CheckRecord(p, t, th, n, h)`: `.ok ()` = nil error -/
def checkRecord [DecidableEq H] (node : H → H → H) (p : List H) (t : Int) (th : H) (n : Int) (h : H) : Except Err Unit :=
  if t < 0 || n < 0 || n ≥ t then .error .invalid else do
    let th2 ← runRecordProof node p 0 t.toNat n.toNat h
    if th2 = th then pure () else .error .proofFailed

/-! ### tree (consistency) proofs -/

def treeProofIndexF : Nat → Nat → Nat → Nat → Except Err (List Nat)
  | 0, _, _, _ => .error .fuel
  | f + 1, lo, hi, n =>
    if !(lo < n && n ≤ hi) then .error .panic
    else if n == hi then
      if lo == 0 then .ok [] else subTreeIndex lo hi
    else
      let (k, _) := maxpow2 (hi - lo)
      if n ≤ lo + k then do
        let a ← treeProofIndexF f lo (lo + k) n
        let b ← subTreeIndex (lo + k) hi
        pure (a ++ b)
      else do
        let a ← subTreeIndex lo (lo + k)
        let b ← treeProofIndexF f (lo + k) hi n
        pure (a ++ b)

def treeProofIndex (lo hi n : Nat) : Except Err (List Nat) := treeProofIndexF (hi - lo) lo hi n

def treeProofF (node : H → H → H) : Nat → Nat → Nat → Nat → List H → Except Err (List H × List H)
  | 0, _, _, _, _ => .error .fuel
  | f + 1, lo, hi, n, hashes =>
    if !(lo < n && n ≤ hi) then .error .panic
    else if n == hi then
      if lo == 0 then .ok ([], hashes) else do
        let (th, hashes) ← subTreeHash node lo hi hashes
        pure ([th], hashes)
    else
      let (k, _) := maxpow2 (hi - lo)
      if n ≤ lo + k then do
        let (p, hashes) ← treeProofF node f lo (lo + k) n hashes
        let (th, hashes) ← subTreeHash node (lo + k) hi hashes
        pure (p ++ [th], hashes)
      else do
        let (th, hashes) ← subTreeHash node lo (lo + k) hashes
        let (p, hashes) ← treeProofF node f (lo + k) hi n hashes
        pure (p ++ [th], hashes)

def treeProof (node : H → H → H) (lo hi n : Nat) (hashes : List H) : Except Err (List H × List H) :=
  treeProofF node (hi - lo) lo hi n hashes

/-- `ProveTree(t, n, r)` -/
def proveTree (node : H → H → H) (t n : Int) (r : HashReader H) : Except Err (List H) :=
  if t < 1 || n < 1 || n > t then .error .invalid else do
    let t := t.toNat
    let n := n.toNat
    let indexes ← treeProofIndex 0 t n
    if indexes.length == 0 then pure [] else do
      let hashes ← readChecked r indexes
      let (p, rest) ← treeProof node 0 t n hashes
      if rest.length != 0 then .error .panic else pure p

/-- `runTreeProof(p, lo, hi, n, old) = (oldHash, newHash)` -/
def runTreeProofF (node : H → H → H) : Nat → List H → Nat → Nat → Nat → H → Except Err (H × H)
  | 0, _, _, _, _, _ => .error .fuel
  | f + 1, p, lo, hi, n, old =>
    if !(lo < n && n ≤ hi) then .error .panic
    else if n == hi then
      if lo == 0 then
        if p.length != 0 then .error .proofFailed else .ok (old, old)
      else
        match p with
        | [x] => .ok (x, x)
        | _ => .error .proofFailed
    else
      match p.getLast? with
      | none => .error .proofFailed
      | some last =>
        let (k, _) := maxpow2 (hi - lo)
        if n ≤ lo + k then do
          let (oh, th) ← runTreeProofF node f p.dropLast lo (lo + k) n old
          pure (oh, node th last)
        else do
          let (oh, th) ← runTreeProofF node f p.dropLast (lo + k) hi n old
          pure (node last oh, node last th)

def runTreeProof (node : H → H → H) (p : List H) (lo hi n : Nat) (old : H) : Except Err (H × H) :=
  runTreeProofF node (hi - lo) p lo hi n old

/-- `CheckTree(p, t, th, n, h)` -/
def checkTree [DecidableEq H] (node : H → H → H) (p : List H) (t : Int) (th : H) (n : Int) (h : H) : Except Err Unit :=
  if t < 1 || n < 1 || n > t then .error .invalid else do
    let (h2, th2) ← runTreeProof node p 0 t.toNat n.toNat h
    if th2 = th ∧ h2 = h then pure () else .error .proofFailed

end

/-! ### the free term algebra of hashes (collision-free by construction): non-vacuity instance -/

inductive TH where
  | leaf (b : Bytes)
  | node (a b : TH)
  | empty                -- the empty-tree hash
  | junk (n : Nat)       -- arbitrary other values (forged hashes)
  deriving DecidableEq, Repr

end ModVerif.Tlog
