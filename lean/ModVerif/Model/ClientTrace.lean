/-
  ClientTrace — validation of observed runs against the latest-tree-head machine (Model/ClientLatest.lean).

  The Go side runs the real `sumdb.Client` under the deterministic scheduler and linearises the external operations.
  Per `mergeLatest` call (thread) it can observe: every `ReadConfig(<name>/latest)` with the value returned, every
  `WriteConfig(old,new)` with its outcome, every `SecurityError(older,newer)`, and how the call ended.  The `latestMu`
  sections and `checkTrees` are invisible.  `check` decides whether the observed sequence is the visible projection of a
  run of the machine instantiated with the two-log world (`forkParams p hostile`), exploring the invisible steps
  breadth-first; on every state reached it re-checks the proved invariants that are decidable on the instance
  (in-memory heads and stored head only move up in the prefix order, writes form an ascending chain).
  Core Lean only.
-/
import ModVerif.Model.ClientLatest
import Std.Data.HashSet
namespace ModVerif.ClientTrace
open ModVerif.ClientLatest

inductive Ev
  | rcfg (t : Nat) (v : Option Head)
  | wcfg (t : Nat) (old new : Option Head) (okk : Bool)
  | sec (t : Nat) (older newer : Option Head)
  | fin (t : Nat) (k : Nat)        -- 0 ok, 1 security error, 2 gonosumdb, 3 any
  | beg (t : Nat)                  -- the thread enters (its `entry` step): the lookup started / the response arrived
  deriving Repr

def encHead (h : Head) : Nat := 2 * h.2 + h.1 + 1
def encOpt : Option Head → Nat
  | none => 0
  | some h => encHead h

def encPC : PC → Nat
  | .entry => 0 | .start => 1
  | .memRead .first => 2 | .memRead .loop => 3
  | .memCheck .first => 4 | .memCheck .loop => 5
  | .memInstall .first => 6 | .memInstall .loop => 7
  | .readConfig => 8 | .readLatestMsg => 9 | .writeConfig => 10
  | .done .ok => 11 | .done .err => 12 | .done .security => 13 | .done .gonosumdb => 14

def snap (nth ncl : Nat) (s : St Head Head) : List Nat :=
  encOpt s.config :: s.sec.length :: s.writes.length ::
  ((List.range ncl).flatMap (fun c => [encHead (s.latest c), encOpt (s.latestMsg c)]) ++
   (List.range nth).flatMap (fun t => let l := s.th t
      [encPC l.pc, encOpt l.msg, encHead l.tree, encHead l.latest, encOpt l.latestMsg, encOpt l.cfg, encOpt l.lm]))

abbrev Pool := List (List Nat × St Head Head)

def addNew (nth ncl : Nat) (acc : Pool) (s : St Head Head) : Pool × Bool :=
  let sn := snap nth ncl s
  if acc.any (fun p => p.1 == sn) then (acc, false) else (acc ++ [(sn, s)], true)

def invisible : PC → Bool
  | .start | .memRead _ | .memCheck _ | .memInstall _ | .readLatestMsg => true
  | _ => false

structure World where
  p : Nat
  hostile : Bool
  nth : Nat
  ncl : Nat
  cl : Nat → Nat
  presented : Nat → Option Head
  priv : Nat → Bool

def World.params (w : World) : Params Head Head := forkParams w.p w.hostile

def World.step (w : World) (s : St Head Head) (t : Nat) (r : Res) : Option (St Head Head) :=
  ClientLatest.step w.params w.cl w.presented w.priv s t r

/-- is thread `t`'s next step local (touches no shared variable) and without a visible alternative?  `start` always;
`memCheck` when `fork` is not among the possible answers (a `fork` answer is visible through `SecurityError`). -/
def localStep (w : World) (s : St Head Head) (t : Nat) : Bool :=
  let l := s.th t
  match l.pc with
  | .start => true
  | .memCheck _ =>
    if w.params.size l.tree ≤ w.params.size l.latest then !((w.params.chk l.tree l.latest).contains Res.fork)
    else !((w.params.chk l.latest l.tree).contains Res.fork)
  | _ => false

def stepsOf (w : World) (s : St Head Head) (t : Nat) : List (St Head Head) :=
  match (s.th t).pc with
  | .memCheck _ => [Res.ok, Res.error].filterMap (fun r => w.step s t r)
  | pc => if invisible pc then (w.step s t .ok).toList else []

/-- successors of `s` by one invisible step (a `fork` answer is visible through `SecurityError`, so it is not taken here).
Partial-order reduction: a local step commutes with every step of every other thread, so if some thread has one, only
that thread is moved. -/
def tauSucc (w : World) (s : St Head Head) : List (St Head Head) :=
  match (List.range w.nth).find? (fun t => localStep w s t) with
  | some t => stepsOf w s t
  | none => (List.range w.nth).flatMap (fun t => stepsOf w s t)

/-- closure under invisible steps: worklist with a hash set of snapshots; `fuel` bounds the number of expansions -/
def closureLoop (w : World) : Nat → Std.HashSet (List Nat) → List (St Head Head) → List (St Head Head) → List (St Head Head)
  | 0, _, acc, _ => acc
  | _, _, acc, [] => acc
  | fuel + 1, seen, acc, s :: work =>
    let (seen', fresh) := (tauSucc w s).foldl (fun (st : Std.HashSet (List Nat) × List (St Head Head)) s' =>
      let sn := snap w.nth w.ncl s'
      if st.1.contains sn then st else (st.1.insert sn, s' :: st.2)) (seen, [])
    closureLoop w fuel seen' (fresh ++ acc) (fresh ++ work)

def closure (w : World) (pool : Pool) : Pool :=
  let seen : Std.HashSet (List Nat) := pool.foldl (fun h p => h.insert p.1) {}
  let sts := pool.map (·.2)
  (closureLoop w 200000 seen sts sts).map (fun s => (snap w.nth w.ncl s, s))

def finOK (pc : PC) (k : Nat) : Bool :=
  match k with
  | 0 => pc == .done .ok
  | 1 => pc == .done .security
  | 2 => pc == .done .gonosumdb
  | _ => match pc with | .done _ => true | _ => false

def visStep (w : World) (pool : Pool) (e : Ev) : Pool :=
  pool.foldl (fun acc p =>
    let s := p.2
    match e with
    | .rcfg t v =>
      if (s.th t).pc == .readConfig && encOpt s.config == encOpt v then
        match w.step s t .ok with
        | some s' => (addNew w.nth w.ncl acc s').1
        | none => acc
      else acc
    | .wcfg t old new okk =>
      if (s.th t).pc == .writeConfig && encOpt (s.th t).cfg == encOpt old && encOpt (s.th t).lm == encOpt new
          && ((encOpt s.config == encOpt old) == okk) then
        match w.step s t .ok with
        | some s' => (addNew w.nth w.ncl acc s').1
        | none => acc
      else acc
    | .sec t older newer =>
      match (s.th t).pc with
      | .memCheck _ =>
        match w.step s t .fork with
        | some s' =>
          match s'.sec with
          | (t', a, b) :: _ => if t' == t && encOpt a == encOpt older && encOpt b == encOpt newer then (addNew w.nth w.ncl acc s').1 else acc
          | [] => acc
        | none => acc
      | _ => acc
    | .beg t =>
      if (s.th t).pc == .entry then
        match w.step s t .ok with
        | some s' => (addNew w.nth w.ncl acc s').1
        | none => acc
      else acc
    | .fin t k => if finOK (s.th t).pc k then (addNew w.nth w.ncl acc s).1 else acc) []

/-- decidable part of the proved invariants, on the concrete instance -/
def invOK (w : World) (s0 s : St Head Head) : Bool :=
  (List.range w.ncl).all (fun c => forkLe w.p (s0.latest c) (s.latest c)) &&
  forkLe w.p (cfgTree w.params s0.config) (cfgTree w.params s.config) &&
  s.writes.all (fun wr => forkLe w.p (cfgTree w.params wr.1) (cfgTree w.params wr.2)) &&
  (List.range w.nth).all (fun t => !(w.priv t) || (((s.th t).pc == .entry || (s.th t).pc == .done .gonosumdb) && (s.th t).ops == 0))

def checkFrom (w : World) (s0 : St Head Head) : Pool → List Ev → Nat → Option Nat
  | _, [], _ => none
  | pool, e :: rest, n =>
    let cl := closure w pool
    let next := visStep w cl e
    if next.isEmpty then some n
    else if !(next.all (fun p => invOK w s0 p.2)) then some n
    else checkFrom w s0 next rest (n + 1)

/-- `none` = the observed sequence is a trace of the machine and the invariants hold along it; `some n` = event `n`
cannot be matched (or an invariant fails there). -/
def check (w : World) (c0 : Option Head) (evs : List Ev) : Option Nat :=
  let s0 := init w.params c0
  checkFrom w s0 [(snap w.nth w.ncl s0, s0)] evs 0

end ModVerif.ClientTrace
