/-
  Model of golang.org/x/mod/module/pseudo.go.  One def per Go function, same branch order.
  The commit time enters `pseudoVersion` as `ts : Bytes`, the result of
  `t.UTC().Format("20060102150405")`; `formatUnix` computes that string from a Unix instant
  (proleptic Gregorian calendar, UTC) so that the `time` step is differentially checked too.
  Core Lean only.
-/
import ModVerif.Model.Semver
namespace ModVerif.Pseudo
open ModVerif

/-- error kinds of pseudo.go (message texts are not modelled).  `panic` marks Go run-time panic sites. -/
inductive Err where
  | syntax        -- errPseudoSyntax: not a pseudo-version
  | time          -- "malformed time"
  | build         -- "lacks base version, but has build metadata"
  | negative      -- "version before … would have negative patch number"
  | panic         -- index out of range / explicit panic(...)
  deriving Repr, DecidableEq

def Err.show : Err → String
  | .syntax => "err:syntax"
  | .time => "err:time"
  | .build => "err:build"
  | .negative => "err:negative"
  | .panic => "panic"

/-! ### string helpers (strings.LastIndex, TrimSuffix) -/

/-- split at the LAST occurrence of `sep`: `some (v[:i], v[i+1:])`, `none` when `sep` does not occur
    (strings.LastIndex returning -1). -/
def splitLast (sep : UInt8) (v : Bytes) : Option (Bytes × Bytes) :=
  let r := v.reverse
  match r.dropWhile (· != sep) with
  | [] => none
  | _ :: b => some (b.reverse, (r.takeWhile (· != sep)).reverse)

/-- strings.TrimSuffix -/
def trimSuffix (s suf : Bytes) : Bytes :=
  if hasSuffixB s suf then s.take (s.length - suf.length) else s

/-! ### incDecimal / decDecimal -/

/-- the right-to-left loop of incDecimal: trailing '9's become '0', the first other byte is incremented;
    the flag says the loop ran off the left end (every byte was '9'). -/
def incAux : Bytes → Bytes × Bool
  | [] => ([], true)
  | c :: cs =>
    let (r, carry) := incAux cs
    if carry then (if c == 57 then (48 :: r, true) else ((c + 1) :: r, false)) else (c :: r, false)

/-- incDecimal.  `none` = the `digits[0] = '1'` index panic on the empty string. -/
def incDecimal (decimal : Bytes) : Option Bytes :=
  let (r, carry) := incAux decimal
  if carry then
    match r with
    | [] => none
    | _ :: t => some (49 :: t ++ [48])
  else some r

/-- the right-to-left loop of decDecimal: trailing '0's become '9', the first other byte is decremented;
    the flag says every byte was '0'. -/
def decAux : Bytes → Bytes × Bool
  | [] => ([], true)
  | c :: cs =>
    let (r, borrow) := decAux cs
    if borrow then (if c == 48 then (57 :: r, true) else ((c - 1) :: r, false)) else (c :: r, false)

/-- decDecimal: "" when the string is all zeros (or empty); a leading "1" that would become "0" is dropped. -/
def decDecimal (decimal : Bytes) : Bytes :=
  match decimal with
  | [] => []
  | c :: cs =>
    let (r, borrow) := decAux cs
    if borrow then
      (if c == 48 then []                        -- i < 0: all zeros
       else if c == 49 && !cs.isEmpty then r     -- i == 0 && digits[0] == '1' && len > 1
       else (c - 1) :: r)
    else c :: r

/-! ### PseudoVersion -/

/-- PseudoVersion(major, older, t, rev) with `ts = t.UTC().Format(PseudoVersionTimestampFormat)`. -/
def pseudoVersion (major older ts rev : Bytes) : Except Err Bytes :=
  let major := if major.isEmpty then ([118, 48] /- "v0" -/ : Bytes) else major
  let segment := ts ++ [45] ++ rev
  let build := Semver.build older
  let older := Semver.canonical older
  if older.isEmpty then .ok (major ++ ([46, 48, 46, 48, 45] /- ".0.0-" -/ : Bytes) ++ segment)                   -- form (1)
  else if !(Semver.prerelease older).isEmpty then .ok (older ++ ([46, 48, 46] /- ".0." -/ : Bytes) ++ segment ++ build)  -- form (4), (5)
  else
    -- i := strings.LastIndex(older, ".") + 1 ; v, patch := older[:i], older[i:]
    let (v, patch) := match splitLast 46 older with
      | none => (([] : Bytes), older)
      | some (a, b) => (a ++ [46], b)
    match incDecimal patch with
    | none => .error .panic
    | some p => .ok (v ++ p ++ ([45, 48, 46] /- "-0." -/ : Bytes) ++ segment ++ build)                    -- form (2), (3)

/-- time.Time{}.UTC().Format("20060102150405") -/
def zeroTimestamp : Bytes := [48, 48, 48, 49, 48, 49, 48, 49, 48, 48, 48, 48, 48, 48]  -- "00010101000000"

def zeroPseudoVersion (major : Bytes) : Except Err Bytes :=
  pseudoVersion major [] zeroTimestamp (([48, 48, 48, 48, 48, 48, 48, 48, 48, 48, 48, 48] /- "000000000000" -/ : Bytes))

/-! ### IsPseudoVersion: hand-translated matcher for
    `^v[0-9]+\.(0\.0-|\d+\.\d+-([^+]*\.)?0\.)\d{14}-[A-Za-z0-9]+(\+[0-9A-Za-z-]+(\.[0-9A-Za-z-]+)*)?$`

    Why the deterministic matcher below accepts exactly the language of this expression (Go syntax: `$` is end of
    text, `\d` is [0-9], `[^+]` is any character but '+', newline included; on invalid UTF-8 each bad byte is
    one U+FFFD, which `[^+]` matches, and the ASCII bytes the expression names never occur inside a multi-byte
    sequence, so matching bytes and matching runes coincide):
    * everything before the optional last group is '+'-free (`[0-9]`, `.`, `-`, `[^+]`, alphanumerics), and that
      group starts with '+': so the group, if present, starts at the FIRST '+' of the text (`matchBuildRE` on the
      text from the first '+', `matchHeadRE` on the text before it);
    * `-[A-Za-z0-9]+` ends the head and the revision contains no '-': the revision is the text after the LAST '-'
      of the head, non-empty and alphanumeric; `\d{14}` is the fourteen bytes before that '-';
    * in what remains, `v[0-9]+\.`, `\d+\.` and `\d+-` are digit runs followed by a non-digit, so each run is the
      maximal one (`takeWhile isDigit`); the rest must be `0.0-` exactly (first alternative) or, after the '-',
      either `0.` or anything ending in `.0.` (second alternative: `([^+]*\.)?0\.`). -/

def isDigit (c : UInt8) : Bool := 48 ≤ c && c ≤ 57

def isAlnum (c : UInt8) : Bool :=
  (65 ≤ c && c ≤ 90) || (97 ≤ c && c ≤ 122) || (48 ≤ c && c ≤ 57)

/-- `(\+[0-9A-Za-z-]+(\.[0-9A-Za-z-]+)*)?$` on the text from the first '+' on. -/
def matchBuildRE (t : Bytes) : Bool :=
  match t with
  | [] => true
  | 43 :: rest =>
    rest.all (fun c => Semver.isIdentChar c || c == 46) && (splitOn 46 rest).all (fun s => !s.isEmpty)
  | _ => false

/-- `\d+\.\d+-([^+]*\.)?0\.` against a '+'-free text, anchored at both ends. -/
def matchAlt2 (r2 : Bytes) : Bool :=
  let d2 := r2.takeWhile isDigit
  !d2.isEmpty &&
  match r2.dropWhile isDigit with
  | 46 :: r4 =>
    let d3 := r4.takeWhile isDigit
    !d3.isEmpty &&
    match r4.dropWhile isDigit with
    | 45 :: r => r == ([48, 46] /- "0." -/ : Bytes) || hasSuffixB r (([46, 48, 46] /- ".0." -/ : Bytes))
    | _ => false
  | _ => false

/-- `^v[0-9]+\.(0\.0-|\d+\.\d+-([^+]*\.)?0\.)` against a '+'-free text, anchored at both ends. -/
def matchPrefixRE (p : Bytes) : Bool :=
  match p with
  | 118 :: r =>
    let d1 := r.takeWhile isDigit
    !d1.isEmpty &&
    match r.dropWhile isDigit with
    | 46 :: r2 => r2 == ([48, 46, 48, 45] /- "0.0-" -/ : Bytes) || matchAlt2 r2
    | _ => false
  | _ => false

/-- everything before the optional build part: the text up to the first '+'.
    `-[A-Za-z0-9]+` is the text after the last '-', `\d{14}` the fourteen bytes before that '-'. -/
def matchHeadRE (h : Bytes) : Bool :=
  match splitLast 45 h with
  | none => false
  | some (before, rev) =>
    !rev.isEmpty && rev.all isAlnum && 14 ≤ before.length &&
    (before.drop (before.length - 14)).all isDigit &&
    matchPrefixRE (before.take (before.length - 14))

/-- pseudoVersionRE.MatchString -/
def matchPseudoVersionRE (v : Bytes) : Bool :=
  matchHeadRE (v.takeWhile (· != 43)) && matchBuildRE (v.dropWhile (· != 43))

def isPseudoVersion (v : Bytes) : Bool :=
  decide (v.count 45 ≥ 2) && Semver.isValid v && matchPseudoVersionRE v

def isZeroPseudoVersion (v : Bytes) : Bool :=
  match zeroPseudoVersion (Semver.major v) with
  | .ok z => v == z
  | .error _ => false

/-! ### parsePseudoVersion and the accessors -/

structure PseudoParts where
  base : Bytes
  timestamp : Bytes
  rev : Bytes
  build : Bytes
  deriving Repr, DecidableEq

def parsePseudoVersion (v : Bytes) : Except Err PseudoParts :=
  if !isPseudoVersion v then .error .syntax else
  let build := Semver.build v
  let v := trimSuffix v build
  -- j := strings.LastIndex(v, "-") ; v, rev = v[:j], v[j+1:]
  match splitLast 45 v with
  | none => .error .panic
  | some (v, rev) =>
    -- i := strings.LastIndex(v, "-") ; if j := strings.LastIndex(v, "."); j > i
    let i : Int := match splitLast 45 v with
      | none => -1
      | some (a, _) => a.length
    match splitLast 46 v with
    | some (a, b) =>
      if (a.length : Int) > i then .ok ⟨a, b, rev, build⟩       -- "vX.Y.Z-pre.0" or "vX.Y.(Z+1)-0"
      else
        match splitLast 45 v with
        | none => .error .panic
        | some (a, b) => .ok ⟨a, b, rev, build⟩                  -- "vX.0.0"
    | none =>
      match splitLast 45 v with
      | none => .error .panic
      | some (a, b) => .ok ⟨a, b, rev, build⟩

/-! time.Parse("20060102150405", ts) on a 14-digit string: succeeds iff month 1..12, day 1..daysIn(month, year),
    hour < 24, minute < 60, second < 60 (any year 0000..9999). -/

def decVal (d : Bytes) : Nat := d.foldl (fun n c => 10 * n + (c.toNat - 48)) 0

def isLeap (y : Nat) : Bool := y % 4 == 0 && (y % 100 != 0 || y % 400 == 0)

def daysIn (m y : Nat) : Nat :=
  if m == 2 then (if isLeap y then 29 else 28)
  else if m == 4 || m == 6 || m == 9 || m == 11 then 30 else 31

def timeValid (ts : Bytes) : Bool :=
  let y := decVal (ts.take 4)
  let mo := decVal ((ts.drop 4).take 2)
  let d := decVal ((ts.drop 6).take 2)
  let h := decVal ((ts.drop 8).take 2)
  let mi := decVal ((ts.drop 10).take 2)
  let s := decVal ((ts.drop 12).take 2)
  ts.length == 14 && ts.all isDigit &&
  1 ≤ mo && mo ≤ 12 && 1 ≤ d && d ≤ daysIn mo y && h < 24 && mi < 60 && s < 60

/-- PseudoVersionTime, as the embedded time stamp (the parsed time formats back to exactly this string). -/
def pseudoVersionTime (v : Bytes) : Except Err Bytes :=
  match parsePseudoVersion v with
  | .error e => .error e
  | .ok p => if timeValid p.timestamp then .ok p.timestamp else .error .time

def pseudoVersionRev (v : Bytes) : Except Err Bytes :=
  match parsePseudoVersion v with
  | .error e => .error e
  | .ok p => .ok p.rev

def pseudoVersionBase (v : Bytes) : Except Err Bytes :=
  match parsePseudoVersion v with
  | .error e => .error e
  | .ok p =>
    let pre := Semver.prerelease p.base
    if pre.isEmpty then
      (if !p.build.isEmpty then .error .build else .ok [])
    else if pre == ([45, 48] /- "-0" -/ : Bytes) then
      let base := trimSuffix p.base pre
      match splitLast 46 base with
      | none => .error .panic
      | some (a, b) =>
        let patch := decDecimal b
        if patch.isEmpty then .error .negative
        else .ok (a ++ [46] ++ patch ++ p.build)
    else
      if !hasSuffixB p.base (([46, 48] /- ".0" -/ : Bytes)) then .error .panic
      else .ok (trimSuffix p.base (([46, 48] /- ".0" -/ : Bytes)) ++ p.build)

/-! ### the time step: Unix seconds → civil UTC fields → "20060102150405" layout -/

/-- decimal digits of `n`, most significant first, with fuel (`n < 10^fuel` suffices). -/
def natDigits : Nat → Nat → Bytes
  | 0, _ => []
  | fuel + 1, n => if n < 10 then [UInt8.ofNat (48 + n)] else natDigits fuel (n / 10) ++ [UInt8.ofNat (48 + n % 10)]

/-- time.appendInt(b, n, width) for n ≥ 0: decimal, zero-padded on the left to at least `width` digits. -/
def padDec (width n : Nat) : Bytes :=
  let ds := natDigits 40 n
  List.replicate (width - ds.length) 48 ++ ds

/-- `t.Format("20060102150405")` from the civil fields (year ≥ 0). -/
def fmtTime (Y M D h m s : Nat) : Bytes :=
  padDec 4 Y ++ padDec 2 M ++ padDec 2 D ++ padDec 2 h ++ padDec 2 m ++ padDec 2 s

/-- civil date and time of day (UTC, proleptic Gregorian, year 0 exists) of a Unix instant.
    Days-from-epoch to civil by the era/400-year-cycle computation. -/
def civilFromUnix (secs : Int) : Int × Nat × Nat × Nat × Nat × Nat :=
  let days := secs / 86400            -- Int division rounds toward -∞ for a positive divisor
  let rem := (secs % 86400).toNat     -- 0 ≤ rem < 86400
  let z := days + 719468
  let era := z / 146097
  let doe := (z - era * 146097).toNat                                    -- [0, 146096]
  let yoe := (doe - doe / 1460 + doe / 36524 - doe / 146096) / 365      -- [0, 399]
  let doy := doe - (365 * yoe + yoe / 4 - yoe / 100)                    -- [0, 365]
  let mp := (5 * doy + 2) / 153                                         -- [0, 11]
  let d := doy - (153 * mp + 2) / 5 + 1                                 -- [1, 31]
  let m := if mp < 10 then mp + 3 else mp - 9                           -- [1, 12]
  let y : Int := (yoe : Int) + era * 400 + (if m ≤ 2 then 1 else 0)
  (y, m, d, rem / 3600, rem / 60 % 60, rem % 60)

/-- `time.Unix(secs, _).UTC().Format("20060102150405")`; a negative year prints as '-' and the padded magnitude. -/
def formatUnix (secs : Int) : Bytes :=
  match civilFromUnix secs with
  | (y, m, d, hh, mm, ss) =>
    if y < 0 then [45] ++ fmtTime y.natAbs m d hh mm ss else fmtTime y.toNat m d hh mm ss

end ModVerif.Pseudo
