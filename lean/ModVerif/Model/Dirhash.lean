/-
  Model of golang.org/x/mod/sumdb/dirhash (hash.go).  One def per Go function.

  Parametric in `sha : Bytes → Bytes` (SHA-256 as a function; the driver instantiates it with
  `ModVerif.Sha256.sha256`, the theorems treat it abstractly).

  Abstractions (validated only by the correspondence run):
    * `open` is a function `Bytes → Option Bytes` (`none` = the open or the read failed);
    * `sort.Strings` is insertion sort by the bytewise order `bytesLt` (the order is total on strings, so
      the sorted result is unique - theorem `sortStrings_perm` in Proofs/Dirhash.lean);
    * a directory is `Root`: missing, a regular file, or the finite set of its regular files given as
      (slash-separated clean relative path, content) pairs; `filepath.Walk` order is the lexical order on
      component lists; symlinks, permissions and non-UTF-8 names are outside the model;
    * `filepath.Join` / `filepath.Clean` are modelled for Unix (`/` separator) by `joinPath` / `clean`;
    * a zip archive is the list of its (entry name, content) pairs in central-directory order.
-/
import ModVerif.Basic.Bytes
import ModVerif.Basic.Base64
namespace ModVerif.Dirhash
open ModVerif

inductive Err where
  | newline    -- "dirhash: filenames with newlines are not supported"
  | openFail   -- error from open(file) or from io.Copy
  | notDir     -- DirFiles: "%s is not a directory"
  | walk       -- DirFiles: error handed to the walk function (root does not exist)
  deriving DecidableEq, Repr

/-! ### `%x`, `sort.Strings` -/

def hexDigit (n : Nat) : UInt8 :=
  if n < 10 then UInt8.ofNat (48 + n) else UInt8.ofNat (87 + n)

/-- `fmt.Sprintf("%x", b)` for a byte slice: two lower-case hex digits per byte. -/
def hexEnc : Bytes → Bytes
  | [] => []
  | c :: rest => hexDigit (c.toNat / 16) :: hexDigit (c.toNat % 16) :: hexEnc rest

/-- insert `x` before the first element that is not smaller than `x` -/
def orderedInsert {α : Type} (lt : α → α → Bool) (x : α) : List α → List α
  | [] => [x]
  | y :: ys => if lt y x then y :: orderedInsert lt x ys else x :: y :: ys

def insertionSort {α : Type} (lt : α → α → Bool) : List α → List α
  | [] => []
  | x :: xs => orderedInsert lt x (insertionSort lt xs)

/-- `sort.Strings` (on a copy) -/
def sortStrings (l : List Bytes) : List Bytes := insertionSort bytesLt l

/-! ### Hash1 -/

def hasNewline (name : Bytes) : Bool := name.any (· == 10)

/-- one summary line: `"%x  %s\n"` -/
def summaryLine (digest name : Bytes) : Bytes := hexEnc digest ++ [32, 32] ++ name ++ [10]

/-- the loop of Hash1 over the already sorted list: first the newline test, then open, per file -/
def summaryLoop (sha : Bytes → Bytes) (openF : Bytes → Option Bytes) : List Bytes → Except Err Bytes
  | [] => .ok []
  | file :: rest =>
    if hasNewline file then .error .newline else
    match openF file with
    | none => .error .openFail
    | some content =>
      match summaryLoop sha openF rest with
      | .error e => .error e
      | .ok s => .ok (summaryLine (sha content) file ++ s)

/-- everything written to `h` by Hash1 -/
def summary (sha : Bytes → Bytes) (files : List Bytes) (openF : Bytes → Option Bytes) : Except Err Bytes :=
  summaryLoop sha openF (sortStrings files)

def h1Prefix : Bytes := [104, 49, 58]   -- "h1:"

def hash1 (sha : Bytes → Bytes) (files : List Bytes) (openF : Bytes → Option Bytes) : Except Err Bytes :=
  match summary sha files openF with
  | .error e => .error e
  | .ok s => .ok (h1Prefix ++ Base64.encodeStd (sha s))

/-- a file set given as (name, content) pairs: `open` finds the first pair with the name -/
def openPairs (l : List (Bytes × Bytes)) (name : Bytes) : Option Bytes := l.lookup name

def summaryPairs (sha : Bytes → Bytes) (l : List (Bytes × Bytes)) : Except Err Bytes :=
  summary sha (l.map (·.1)) (openPairs l)

def hash1Pairs (sha : Bytes → Bytes) (l : List (Bytes × Bytes)) : Except Err Bytes :=
  hash1 sha (l.map (·.1)) (openPairs l)

/-! ### `filepath.Clean`, `filepath.Join` (Unix) -/

def slash : UInt8 := 47
def dotdot : Bytes := [46, 46]

/-- one step of Clean's element loop; the stack is kept reversed (top first) -/
def cleanStep (rooted : Bool) (stack : List Bytes) (comp : Bytes) : List Bytes :=
  if comp.isEmpty || comp == [46] then stack
  else if comp == dotdot then
    match stack with
    | top :: below => if top == dotdot then comp :: stack else below
    | [] => if rooted then [] else [comp]
  else comp :: stack

/-- `path.Clean` -/
def clean (p : Bytes) : Bytes :=
  if p.isEmpty then [46] else
  let rooted := p.head? == some slash
  let stack := (splitOn slash p).foldl (cleanStep rooted) []
  let body := joinWith [slash] stack.reverse
  if rooted then slash :: body
  else if body.isEmpty then [46] else body

/-- `filepath.Join(a, b)` for two elements -/
def joinPath (a b : Bytes) : Bytes :=
  if a.isEmpty && b.isEmpty then []
  else if a.isEmpty then clean b
  else if b.isEmpty then clean a
  else clean (a ++ [slash] ++ b)

/-! ### DirFiles, HashDir -/

/-- what `dir` names on disk -/
inductive Root where
  | missing
  | file
  | dir (files : List (Bytes × Bytes))   -- regular files: clean relative slash path, content

def compsLt : List Bytes → List Bytes → Bool
  | [], [] => false
  | [], _ :: _ => true
  | _ :: _, [] => false
  | a :: as, b :: bs => if bytesLt a b then true else if bytesLt b a then false else compsLt as bs

/-- order in which `filepath.Walk` reaches two files: lexical on path elements -/
def walkLt (a b : Bytes) : Bool := compsLt (splitOn slash a) (splitOn slash b)

def walkOrder (rels : List Bytes) : List Bytes := insertionSort walkLt rels

def dirFiles (root : Root) (pfx : Bytes) : Except Err (List Bytes) :=
  match root with
  | .missing => .error .walk
  | .file => .error .notDir
  | .dir files => .ok ((walkOrder (files.map (·.1))).map fun rel => joinPath pfx rel)

/-- `strings.TrimPrefix` -/
def trimPrefix (s p : Bytes) : Bytes := if isPrefixOfB p s then s.drop p.length else s

def resolveStep (acc : Option (List Bytes)) (comp : Bytes) : Option (List Bytes) :=
  match acc with
  | none => none
  | some stack =>
    if comp.isEmpty || comp == [46] then some stack
    else if comp == dotdot then
      match stack with
      | _ :: below => some below
      | [] => none
    else some (comp :: stack)

/-- the path below `dir` that `filepath.Join(dir, t)` names, for an absolute clean `dir`;
    `none` when it leaves `dir` (the model then reports an open failure) -/
def resolveRel (t : Bytes) : Option Bytes :=
  match (splitOn slash t).foldl resolveStep (some []) with
  | none => none
  | some stack => some (joinWith [slash] stack.reverse)

/-- `os.Open(filepath.Join(dir, strings.TrimPrefix(name, prefix)))` followed by reading it all -/
def osOpen (files : List (Bytes × Bytes)) (pfx name : Bytes) : Option Bytes :=
  match resolveRel (trimPrefix name pfx) with
  | none => none
  | some rel => files.lookup rel     -- a directory or a missing file: read/open error

/-- the regular files below `dir` (nothing when `dir` is not a directory) -/
def rootFiles : Root → List (Bytes × Bytes)
  | .dir files => files
  | _ => []

def hashDir (sha : Bytes → Bytes) (root : Root) (pfx : Bytes) : Except Err Bytes :=
  match dirFiles root pfx with
  | .error e => .error e
  | .ok names => hash1 sha names (osOpen (rootFiles root) pfx)

/-! ### directory spellings: `dir = filepath.Clean(dir)` is the first statement of DirFiles, and HashDir's
    `filepath.Join(dir, ...)` cleans as well, so only the cleaned spelling of `dir` reaches the file system.
    `fs` maps a clean path to what it names. -/

def dirFilesAt (fs : Bytes → Root) (dir pfx : Bytes) : Except Err (List Bytes) :=
  dirFiles (fs (clean dir)) pfx

def hashDirAt (sha : Bytes → Bytes) (fs : Bytes → Root) (dir pfx : Bytes) : Except Err Bytes :=
  hashDir sha (fs (clean dir)) pfx

/-! ### HashZip -/

/-- `zfiles[file.Name] = file` in a loop: the last entry with a name wins -/
def lookupLast (entries : List (Bytes × Bytes)) (name : Bytes) : Option Bytes :=
  entries.reverse.lookup name

def hashZipNames (entries : List (Bytes × Bytes)) : List Bytes := entries.map (·.1)

def hashZip (sha : Bytes → Bytes) (entries : List (Bytes × Bytes)) : Except Err Bytes :=
  hash1 sha (hashZipNames entries) (lookupLast entries)

/-! ### module zips (naming only: `zip.Create` writes entry `path@version/` ++ file path, in list order;
    `zip.Unzip` writes entry `prefix ++ rel` to `dir/rel`) -/

def modPrefix (path version : Bytes) : Bytes := path ++ [64] ++ version

def modZipEntries (path version : Bytes) (files : List (Bytes × Bytes)) : List (Bytes × Bytes) :=
  files.map fun f => (modPrefix path version ++ [slash] ++ f.1, f.2)

/-- HashZip of the archive `zip.Create` writes for these (valid, not omitted) files -/
def hashModZip (sha : Bytes → Bytes) (path version : Bytes) (files : List (Bytes × Bytes)) : Except Err Bytes :=
  hashZip sha (modZipEntries path version files)

/-- HashDir of the directory that archive extracts to, under the prefix `path@version` -/
def hashUnzipped (sha : Bytes → Bytes) (path version : Bytes) (files : List (Bytes × Bytes)) : Except Err Bytes :=
  hashDir sha (.dir files) (modPrefix path version)

end ModVerif.Dirhash
