/-
  Model of golang.org/x/mod/semver (semver.go).  One def per Go function.
  Strings are byte lists; loops are takeWhile/dropWhile or structural recursion.
-/
import ModVerif.Basic.Bytes
namespace ModVerif.Semver
open ModVerif

def isDigit (c : UInt8) : Bool := 48 ≤ c && c ≤ 57

/-- isIdentChar: [A-Za-z0-9-] -/
def isIdentChar (c : UInt8) : Bool :=
  (65 ≤ c && c ≤ 90) || (97 ≤ c && c ≤ 122) || (48 ≤ c && c ≤ 57) || c == 45

structure Parsed where
  major : Bytes := []
  minor : Bytes := []
  patch : Bytes := []
  short : Bytes := []
  prerelease : Bytes := []
  build : Bytes := []
  deriving Repr, DecidableEq

/-- parseInt: (digits, rest) or none.  A number with a leading zero other than "0" fails. -/
def parseInt (v : Bytes) : Option (Bytes × Bytes) :=
  match v with
  | [] => none
  | c :: rest =>
    if !isDigit c then none else
    let ds := rest.takeWhile isDigit
    let r := rest.dropWhile isDigit
    if c == 48 && !ds.isEmpty then none else some (c :: ds, r)

/-- isBadNum: all digits, length > 1, leading zero. -/
def isBadNum (v : Bytes) : Bool :=
  v.all isDigit && v.length > 1 && v.head? == some 48

def isNum (v : Bytes) : Bool := v.all isDigit

/-- parsePrerelease: `-` then dot-separated non-empty identifiers, numeric ones without leading zeros, up to `+` or end. -/
def parsePrerelease (v : Bytes) : Option (Bytes × Bytes) :=
  match v with
  | 45 :: rest =>
    if (rest.takeWhile (· != 43)).all (fun c => isIdentChar c || c == 46)
        && (splitOn 46 (rest.takeWhile (· != 43))).all (fun s => !s.isEmpty && !isBadNum s)
    then some (45 :: rest.takeWhile (· != 43), rest.dropWhile (· != 43)) else none
  | _ => none

/-- parseBuild: `+` then dot-separated non-empty identifiers to the end. -/
def parseBuild (v : Bytes) : Option (Bytes × Bytes) :=
  match v with
  | 43 :: rest =>
    if rest.all (fun c => isIdentChar c || c == 46)
        && (splitOn 46 rest).all (fun s => !s.isEmpty)
    then some (43 :: rest, []) else none
  | _ => none

/-- `if len(v) > 0 && v[0] == '-' { p.prerelease, v, ok = parsePrerelease(v) }` -/
def parsePreOpt (p : Parsed) (v : Bytes) : Option (Parsed × Bytes) :=
  match v with
  | 45 :: _ =>
    match parsePrerelease v with
    | some (t, r) => some ({ p with prerelease := t }, r)
    | none => none
  | _ => some (p, v)

/-- `if len(v) > 0 && v[0] == '+' { p.build, v, ok = parseBuild(v) }` -/
def parseBuildOpt (p : Parsed) (v : Bytes) : Option (Parsed × Bytes) :=
  match v with
  | 43 :: _ =>
    match parseBuild v with
    | some (t, r) => some ({ p with build := t }, r)
    | none => none
  | _ => some (p, v)

/-- after patch: optional prerelease, optional build, then end of string -/
def parseTail (p : Parsed) (v : Bytes) : Option Parsed :=
  match parsePreOpt p v with
  | none => none
  | some (p1, v1) =>
    match parseBuildOpt p1 v1 with
    | none => none
    | some (p2, v2) => if v2.isEmpty then some p2 else none

def parse (v : Bytes) : Option Parsed :=
  match v with
  | 118 :: v1 =>
    match parseInt v1 with
    | none => none
    | some (maj, v2) =>
      match v2 with
      | [] => some { major := maj, minor := [48], patch := [48], short := B ".0.0" }
      | 46 :: v3 =>
        match parseInt v3 with
        | none => none
        | some (min, v4) =>
          match v4 with
          | [] => some { major := maj, minor := min, patch := [48], short := B ".0" }
          | 46 :: v5 =>
            match parseInt v5 with
            | none => none
            | some (pat, v6) => parseTail { major := maj, minor := min, patch := pat } v6
          | _ => none
      | _ => none
  | _ => none

def isValid (v : Bytes) : Bool := (parse v).isSome

def canonical (v : Bytes) : Bytes :=
  match parse v with
  | none => []
  | some p =>
    if !p.build.isEmpty then v.take (v.length - p.build.length)
    else if !p.short.isEmpty then v ++ p.short
    else v

def major (v : Bytes) : Bytes :=
  match parse v with
  | none => []
  | some p => v.take (1 + p.major.length)

def majorMinor (v : Bytes) : Bytes :=
  match parse v with
  | none => []
  | some p =>
    let i := 1 + p.major.length
    let j := i + 1 + p.minor.length
    if j ≤ v.length && v[i]? == some 46 && (v.take j).drop (i+1) == p.minor then v.take j
    else v.take i ++ [46] ++ p.minor

def prerelease (v : Bytes) : Bytes :=
  match parse v with
  | none => []
  | some p => p.prerelease

def build (v : Bytes) : Bytes :=
  match parse v with
  | none => []
  | some p => p.build

def compareInt (x y : Bytes) : Int :=
  if x = y then 0
  else if x.length < y.length then -1
  else if x.length > y.length then 1
  else if bytesLt x y then -1 else 1

/-- nextIdent: up to the next '.' -/
def nextIdent (x : Bytes) : Bytes × Bytes := (x.takeWhile (· != 46), x.dropWhile (· != 46))

def cmpIdent (dx dy : Bytes) : Int :=
  let ix := isNum dx
  let iy := isNum dy
  if ix != iy then (if ix then -1 else 1)
  else if ix && dx.length < dy.length then -1
  else if ix && dx.length > dy.length then 1
  else if bytesLt dx dy then -1 else 1

/-- the loop of comparePrerelease, on lists of identifiers (the strings minus separators). -/
def cmpIdents : List Bytes → List Bytes → Int
  | [], [] => 0
  | [], _ :: _ => -1
  | _ :: _, [] => 1
  | dx :: xs, dy :: ys => if dx = dy then cmpIdents xs ys else cmpIdent dx dy

def comparePrerelease (x y : Bytes) : Int :=
  if x = y then 0
  else if x.isEmpty then 1
  else if y.isEmpty then -1
  else cmpIdents (splitOn 46 (x.drop 1)) (splitOn 46 (y.drop 1))

def compare (v w : Bytes) : Int :=
  match parse v, parse w with
  | none, none => 0
  | none, some _ => -1
  | some _, none => 1
  | some pv, some pw =>
    let c := compareInt pv.major pw.major
    if c != 0 then c else
    let c := compareInt pv.minor pw.minor
    if c != 0 then c else
    let c := compareInt pv.patch pw.patch
    if c != 0 then c else
    comparePrerelease pv.prerelease pw.prerelease

def max (v w : Bytes) : Bytes :=
  let v := canonical v
  let w := canonical w
  if compare v w > 0 then v else w

/-- ByVersion.Less -/
def less (a b : Bytes) : Bool :=
  let c := compare a b
  if c != 0 then c < 0 else bytesLt a b

/-- insertion sort by `less` (Sort's result is unique because `less` is a strict total order; proved in Props/C04). -/
def insertSorted (x : Bytes) : List Bytes → List Bytes
  | [] => [x]
  | y :: ys => if less y x then y :: insertSorted x ys else x :: y :: ys

def sort (l : List Bytes) : List Bytes := l.foldr insertSorted []

end ModVerif.Semver

namespace ModVerif.Semver
/-- module.CanonicalVersion: semver.Canonical, but keeps exactly the "+incompatible" build suffix. -/
def canonicalVersion (v : Bytes) : Bytes :=
  let cv := canonical v
  if build v == B "+incompatible" then cv ++ B "+incompatible" else cv
end ModVerif.Semver
