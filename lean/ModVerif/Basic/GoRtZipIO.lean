/- GoRt, the external world of zip.Create / zip.checkZip / zip.Unzip: archive/zip's writer and reader, io.LimitedReader,
   and the part of the file system `Unzip` touches.  Every function here stands for a call OUT of golang.org/x/mod
   (packages archive/zip, io, os, path/filepath); its definition is the behaviour ASSUMED of that call (DESIGN §3.1b,
   trusted base).  The regenerated code threads a `world` value through these calls (go2lean `worldFns` / `worldCalls`). -/
import ModVerif.Basic.GoRt
import ModVerif.Basic.GoRtPath
namespace ModVerif.GoRt
open ModVerif

/-- `io.LimitedReader` over an already materialised content -/
structure LimitedReader where
  R : Bytes
  N : Int
  deriving DecidableEq, Repr, Inhabited

/-- everything `io.Copy(w, lr)` reads from the limited reader: at most `N` bytes; `N` is decreased by what was read -/
def limRead (lr : LimitedReader) : Bytes × LimitedReader :=
  if lr.N ≤ 0 then ([], lr)
  else (lr.R.take lr.N.toNat, { R := lr.R.drop lr.N.toNat, N := lr.N - ((lr.R.take lr.N.toNat).length : Int) })

/-- `module.Version` -/
structure ModVersion where
  Path : Bytes
  Version : Bytes
  deriving DecidableEq, Repr, Inhabited

/-! ### archive/zip writer (zip.Create): the world is the list of entries written so far -/

/-- name and content of the entries created so far, in order -/
abbrev ZipW := List (Bytes × Bytes)

def zipNewWriter (_ : Unit) : Unit := ()

/-- `zw.Create(name)`: archive/zip refuses names longer than 65535 bytes; otherwise a new, empty entry is started -/
def zwCreate (name : Bytes) (w : ZipW) : (Unit × Option String) × ZipW :=
  if name.length > 65535 then (((), some "zip: FileHeader.Name too long"), w)
  else (((), none), w ++ [(name, [])])

/-- writing to the writer returned by the last `zw.Create`: the bytes are appended to the last entry -/
def zwWrite (_ : Unit) (data : Bytes) (w : ZipW) : (Int × Option String) × ZipW :=
  match w.getLast? with
  | none => (((0 : Int), some "zip: write to closed writer"), w)
  | some (n, c) => (((data.length : Int), none), w.dropLast ++ [(n, c ++ data)])

def zwClose (w : ZipW) : Option String × ZipW := (none, w)

/-! ### archive/zip reader and the archive file (zip.checkZip) -/

/-- `*zip.File`: header fields the code reads, and the bytes the entry decompresses to -/
structure ZEntry where
  Name : Bytes
  UncompressedSize64 : Int
  content : Bytes
  deriving DecidableEq, Repr, Inhabited

/-- `*zip.Reader` -/
structure ZReader where
  File : List ZEntry
  deriving DecidableEq, Repr, Inhabited

/-- the opened archive `*os.File`: its size as reported by Stat, and what `zip.NewReader` finds in it -/
structure OsFile where
  size : Int
  statErr : Option String
  entries : List ZEntry
  readerErr : Option String
  deriving DecidableEq, Repr, Inhabited

def zipNewReader (f : OsFile) (_size : Int) : ZReader × Option String :=
  match f.readerErr with
  | some e => (default, some e)
  | none => ({ File := f.entries }, none)

/-! ### the file system as `Unzip` sees it -/

inductive FsEffect where
  | mkdirAll (p : Bytes)
  /-- `os.OpenFile(p, O_WRONLY|O_CREATE|O_EXCL)` followed by the copy; `none` = the copy failed -/
  | createExcl (p : Bytes) (content : Option Bytes)
  deriving DecidableEq, Repr

/-- world of `Unzip`: state of the target directory before the call (0 missing, 1 empty directory, 2 non-empty directory,
    3 not a directory), the archive that `os.Open(zipFile)` yields, the effects so far, the file being written and the
    error state of the entry stream opened last -/
structure FsW where
  dir : Bytes
  target : Int
  archive : OsFile
  openErr : Option String
  fx : List FsEffect
  readErr : Option String
  deriving DecidableEq, Repr, Inhabited

def fsDirPrefixesAux (racc : Bytes) : Bytes → List Bytes
  | [] => []
  | c :: rest =>
    if c == 47 then (c :: racc).reverse :: fsDirPrefixesAux (c :: racc) rest
    else fsDirPrefixesAux (c :: racc) rest

/-- the path and every ancestor directory of it -/
def fsAncestorsAndSelf (p : Bytes) : List Bytes := (fsDirPrefixesAux [] p).map List.dropLast ++ [p]

def fsCreatedFiles : List FsEffect → List Bytes
  | [] => []
  | .createExcl p _ :: rest => p :: fsCreatedFiles rest
  | .mkdirAll _ :: rest => fsCreatedFiles rest

def fsCreatedDirs : List FsEffect → List Bytes
  | [] => []
  | .mkdirAll p :: rest => fsAncestorsAndSelf p ++ fsCreatedDirs rest
  | .createExcl _ _ :: rest => fsCreatedDirs rest

/-- `os.ReadDir(dir)`: only the number of entries is used -/
def osReadDir (_dir : Bytes) (w : FsW) : (List Unit × Option String) × FsW :=
  if w.target == 2 then (([()], none), w)
  else if w.target == 1 then (([], none), w)
  else (([], some "readdir"), w)

def osOpen (_name : Bytes) (w : FsW) : (OsFile × Option String) × FsW :=
  match w.openErr with
  | some e => ((default, some e), w)
  | none => ((w.archive, none), w)

/-- `os.MkdirAll(p, perm)`: fails if `p` or an ancestor is an existing file -/
def osMkdirAll (p : Bytes) (_perm : Int) (w : FsW) : Option String × FsW :=
  if (w.target == 3 && p == w.dir) || (fsAncestorsAndSelf p).any (fun d => (fsCreatedFiles w.fx).contains d) then
    (some "mkdir: not a directory", w)
  else (none, { w with fx := w.fx ++ [.mkdirAll p] })

/-- `os.OpenFile(p, O_WRONLY|O_CREATE|O_EXCL, perm)`: fails if `p` exists (as a file or as a directory); the handle is the path -/
def osOpenFile (p : Bytes) (_flag _perm : Int) (w : FsW) : (Bytes × Option String) × FsW :=
  if (fsCreatedFiles w.fx).contains p || (fsCreatedDirs w.fx).contains p then (([], some "file exists"), w)
  else ((p, none), w)

/-- `zf.Open()`: the decompressed bytes; archive/zip's reader reports an error at the end of the stream (ErrFormat /
    ErrUnexpectedEOF) when their number differs from the declared size — remembered in the world until the copy -/
def zfOpen (zf : ZEntry) (w : FsW) : (Bytes × Option String) × FsW :=
  ((zf.content, none), { w with readErr := if (zf.content.length : Int) ≠ zf.UncompressedSize64 then some "zip: format error" else none })

/-- `io.Copy(file, lr)`: the file is created with what was read, or the copy fails with the stream's error -/
def osCopy (file : Bytes) (data : Bytes) (w : FsW) : (Int × Option String) × FsW :=
  match w.readErr with
  | some e => (((0 : Int), some e), { w with fx := w.fx ++ [.createExcl file none] })
  | none => (((data.length : Int), none), { w with fx := w.fx ++ [.createExcl file (some data)] })

def osClose (_file : Bytes) (w : FsW) : Option String × FsW := (none, w)

/-- filepath.Join(dir, name) on a slash-separated system -/
def fpJoin (dir name : Bytes) : Bytes :=
  if dir == [] then pathClean name
  else if name == [] then pathClean dir
  else pathClean (dir ++ [47] ++ name)

end ModVerif.GoRt
