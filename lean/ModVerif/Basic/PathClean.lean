/-
  Go's `path` package on byte strings: Clean, Split, Dir, Base, IsAbs.

  `path.Clean` is modelled on the list of `/`-separated components (the Go code works on a lazily
  copied buffer with a read and a write index; the component formulation below performs the same
  four rules in the same order: drop empty components, drop `.`, let `..` remove the preceding
  non-`..` component, and for rooted paths drop `..` at the root).  The stack of kept components is
  held reversed.  The correspondence op `zip.pathclean` compares it with the real `path.Clean`.
  Core-only.
-/
import ModVerif.Basic.Bytes
namespace ModVerif.PathClean
open ModVerif

def dotdot : Bytes := [46, 46]

/-- one component of the input, `stack` = components written so far (reversed). -/
def step (rooted : Bool) (stack : List Bytes) (c : Bytes) : List Bytes :=
  if c == [] then stack                      -- empty path element
  else if c == [46] then stack               -- . element
  else if c == dotdot then                   -- .. element: remove to last /
    match stack with
    | [] => if rooted then [] else [dotdot]  -- cannot backtrack: append .. unless rooted
    | top :: rest =>
      if top == dotdot then (if rooted then stack else dotdot :: stack)
      else rest                              -- can backtrack
  else c :: stack                            -- real path element

/-- the kept components of a path, in order. -/
def cleanComps (rooted : Bool) (cs : List Bytes) : List Bytes :=
  (cs.foldl (step rooted) []).reverse

def isRooted (p : Bytes) : Bool :=
  match p with
  | 47 :: _ => true
  | _ => false

/-- components kept by `path.Clean p` -/
def comps (p : Bytes) : List Bytes := cleanComps (isRooted p) (splitOn 47 p)

/-- path.Clean -/
def pathClean (p : Bytes) : Bytes :=
  if p == [] then [46]
  else
    let out := comps p
    if isRooted p then 47 :: joinWith [47] out
    else if out.isEmpty then [46]
    else joinWith [47] out

/-- path.IsAbs -/
def isAbs (p : Bytes) : Bool := isRooted p

/-- the part of `p` after the last slash (all of `p` if there is none). -/
def lastElem (p : Bytes) : Bytes := (p.reverse.takeWhile (· != 47)).reverse

/-- path.Split: `(dir, file)` with `dir` ending in the final slash (or empty) and `p = dir ++ file`. -/
def pathSplit (p : Bytes) : Bytes × Bytes :=
  let base := lastElem p
  (p.take (p.length - base.length), base)

/-- path.Dir -/
def pathDir (p : Bytes) : Bytes := pathClean (pathSplit p).1

/-- strip trailing slashes -/
def stripTrailingSlashes (p : Bytes) : Bytes := (p.reverse.dropWhile (· == 47)).reverse

/-- path.Base -/
def pathBase (p : Bytes) : Bytes :=
  if p == [] then [46]
  else
    let q := stripTrailingSlashes p
    let b := lastElem q
    if b == [] then [47] else b

end ModVerif.PathClean
