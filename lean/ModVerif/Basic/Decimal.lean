/-
  Decimal integers as Go's strconv prints and parses them (base 10 only).

    `formatNat : Nat → Bytes`, `formatInt : Int → Bytes`         strconv.FormatInt(n, 10) / fmt "%d"
    `parseDigits : Bytes → Option Nat`                            non-empty, digits only, unbounded value
    `parseInt64 : Bytes → Option Int`                             strconv.ParseInt(s, 10, 64) and strconv.Atoi on a
                                                                  64-bit platform: optional sign, digits only (no `_`),
                                                                  `none` for syntax AND range errors
    `pad3 : Nat → Bytes`                                          fmt "%03d" for a natural number
-/
import ModVerif.Basic.Bytes
namespace ModVerif.Decimal
open ModVerif

def digitChar (d : Nat) : UInt8 := UInt8.ofNat (48 + d)

/-- digits of `n`, most significant first, prepended to `acc`; fuel `n + 1` always suffices -/
def digitsAux : Nat → Nat → Bytes → Bytes
  | 0, _, acc => acc
  | f + 1, n, acc =>
    if n < 10 then digitChar n :: acc else digitsAux f (n / 10) (digitChar (n % 10) :: acc)

def formatNat (n : Nat) : Bytes := digitsAux (n + 1) n []

def formatInt : Int → Bytes
  | .ofNat n => formatNat n
  | .negSucc n => 45 :: formatNat (n + 1)

def isDigit (c : UInt8) : Bool := 48 ≤ c.toNat && c.toNat ≤ 57

/-- value of a digit string read left to right starting from `acc`; `none` on a non-digit -/
def parseDigitsAux : Bytes → Nat → Option Nat
  | [], acc => some acc
  | c :: rest, acc => if isDigit c then parseDigitsAux rest (acc * 10 + (c.toNat - 48)) else none

def parseDigits (s : Bytes) : Option Nat :=
  if s.isEmpty then none else parseDigitsAux s 0

def int64Max : Int := 9223372036854775807
def int64Min : Int := -9223372036854775808

/-- strconv.ParseInt(s, 10, 64): `none` covers ErrSyntax and ErrRange. -/
def parseInt64 (s : Bytes) : Option Int :=
  match s with
  | [] => none
  | c :: rest =>
    if c == 43 then          -- '+'
      match parseDigits rest with
      | some v => if (v : Int) ≤ int64Max then some v else none
      | none => none
    else if c == 45 then     -- '-'
      match parseDigits rest with
      | some v => if -(v : Int) ≥ int64Min then some (-(v : Int)) else none
      | none => none
    else
      match parseDigits s with
      | some v => if (v : Int) ≤ int64Max then some v else none
      | none => none

/-- fmt.Sprintf("%03d", n) for n ≥ 0 -/
def pad3 (n : Nat) : Bytes :=
  let d := formatNat n
  List.replicate (3 - d.length) 48 ++ d

#guard formatNat 0 = B "0"
#guard formatNat 1234067 = B "1234067"
#guard formatInt (-45) = B "-45"
#guard parseInt64 (B "9223372036854775807") = some 9223372036854775807
#guard parseInt64 (B "9223372036854775808") = none
#guard parseInt64 (B "-9223372036854775808") = some (-9223372036854775808)
#guard parseInt64 (B "-9223372036854775809") = none
#guard parseInt64 (B "+007") = some 7
#guard parseInt64 (B "-") = none
#guard parseInt64 (B "1_0") = none
#guard pad3 7 = B "007"
#guard pad3 1000 = B "1000"

end ModVerif.Decimal
