/- GoRt, package strconv: ParseUint for the bases the translated code uses. -/
import ModVerif.Basic.GoRt
namespace ModVerif.GoRt
open ModVerif

def digitVal (c : UInt8) : Option Nat :=
  let x := c.toNat
  if 48 ≤ x ∧ x ≤ 57 then some (x - 48)
  else if 97 ≤ x ∧ x ≤ 122 then some (x - 87)
  else if 65 ≤ x ∧ x ≤ 90 then some (x - 55)
  else none

/-- the digits of `s` in base `base` as a number; `none` if a byte is not a digit of that base -/
def parseDigits (base : Nat) : Nat → Bytes → Option Nat
  | acc, [] => some acc
  | acc, c :: rest =>
    match digitVal c with
    | none => none
    | some v => if v < base then parseDigits base (acc * base + v) rest else none

/-- strconv.ParseUint(s, base, bits) for an explicit base 2..36 (no prefixes, no underscores, no sign): syntax error on an
    empty string or a non-digit; range error (value = the maximum) when the number needs more than `bits` bits -/
def parseUint (s : Bytes) (base bits : Int) : Int × Option String :=
  if base < 2 ∨ base > 36 ∨ bits < 1 ∨ bits > 64 then (0, some "strconv.ParseUint: unsupported base or size")
  else if s.isEmpty then (0, some "strconv.ParseUint: invalid syntax")
  else match parseDigits base.toNat 0 s with
    | none => (0, some "strconv.ParseUint: invalid syntax")
    | some v => if v < 2 ^ bits.toNat then ((v : Int), none) else (((2 ^ bits.toNat - 1 : Nat) : Int), some "strconv.ParseUint: value out of range")

end ModVerif.GoRt
