/-
  Go's path.Match (path/match.go, go1.23), the boolean result only (`matched`; on ErrBadPattern Go
  returns matched = false, which is what MatchPrefixPatterns observes).  Same functions, same
  branch order: Match / scanChunk / matchChunk / getEsc.  Loops carry explicit fuel.
  Theorems about MatchPrefixPatterns are parametric in `glob`; this file is the executable instance
  used by the driver and is tied to the toolchain by the correspondence ops `module.pathmatch`
  and `module.matchprefixpatterns`.
-/
import ModVerif.Basic.Utf8
namespace ModVerif.PathMatch
open ModVerif

/-- body of scanChunk after the leading stars: (chunk, rest). -/
def scanBody : Bool → Bytes → Bytes × Bytes
  | _, [] => ([], [])
  | inr, 92 :: c :: rest => let p := scanBody inr rest; (92 :: c :: p.1, p.2)
  | inr, c :: rest =>
    if c == 91 then let p := scanBody true rest; (c :: p.1, p.2)
    else if c == 93 then let p := scanBody false rest; (c :: p.1, p.2)
    else if c == 42 && !inr then ([], c :: rest)
    else let p := scanBody inr rest; (c :: p.1, p.2)

/-- scanChunk: (star, chunk, rest) -/
def scanChunk (pattern : Bytes) : Bool × Bytes × Bytes :=
  let p := pattern.dropWhile (· == 42)
  let star := p.length < pattern.length
  let cr := scanBody false p
  (star, cr.1, cr.2)

/-- getEsc: `none` = ErrBadPattern, else (rune, remaining chunk). -/
def getEsc (chunk : Bytes) : Option (Nat × Bytes) :=
  match chunk with
  | [] => none
  | c :: rest =>
    if c == 45 || c == 93 then none else
    let chunk := if c == 92 then rest else chunk
    if chunk.isEmpty then none else
    match Utf8.decode chunk with
    | none => none                      -- r == RuneError && n == 1
    | some (r, n) =>
      let nchunk := chunk.drop n
      if nchunk.isEmpty then none else some (r, nchunk)

/-- the `for { … }` range loop of a character class.  `first` = (nrange == 0).
    Result: `none` = ErrBadPattern, else (match, remaining chunk after `]`). -/
def classLoop : Nat → Nat → Bytes → Bool → Bool → Option (Bool × Bytes)
  | 0, _, _, _, _ => none
  | fuel + 1, r, chunk, first, m =>
    match chunk, first with
    | 93 :: rest, false => some (m, rest)
    | _, _ =>
      match getEsc chunk with
      | none => none
      | some (lo, chunk1) =>
        match chunk1 with
        | 45 :: c2 =>
          match getEsc c2 with
          | none => none
          | some (hi, chunk2) => classLoop fuel r chunk2 false (m || (decide (lo ≤ r) && decide (r ≤ hi)))
        | _ => classLoop fuel r chunk1 false (m || (decide (lo ≤ r) && decide (r ≤ lo)))

inductive MC where
  | bad                 -- ErrBadPattern
  | fail                -- ok = false
  | ok (rest : Bytes)   -- ok = true, remainder of s
  deriving Repr, DecidableEq

/-- the loop of matchChunk; state = (failed, chunk, s). -/
def matchChunkLoop : Nat → Bool → Bytes → Bytes → MC
  | 0, _, _, _ => .bad
  | _ + 1, failed, [], s => if failed then .fail else .ok s
  | fuel + 1, failed, c :: chunk, s =>
    let failed := failed || s.isEmpty
    if c == 91 then
      let r := if failed then 0 else (Utf8.decodeRune s).1
      let s := if failed then s else s.drop (Utf8.decodeRune s).2
      let negated := chunk.head? == some 94
      let chunk := if negated then chunk.drop 1 else chunk
      match classLoop (chunk.length + 1) r chunk true false with
      | none => .bad
      | some (m, chunk) => matchChunkLoop fuel (failed || m == negated) chunk s
    else if c == 63 then
      if failed then matchChunkLoop fuel failed chunk s
      else matchChunkLoop fuel (s.head? == some 47) chunk (s.drop (Utf8.decodeRune s).2)
    else
      -- '\\' drops one byte of chunk first (error if nothing follows), then falls through to the literal case
      let lit : Option (UInt8 × Bytes) :=
        if c == 92 then (match chunk with | [] => none | d :: rest => some (d, rest)) else some (c, chunk)
      match lit with
      | none => .bad
      | some (d, chunk) =>
        if failed then matchChunkLoop fuel failed chunk s
        else matchChunkLoop fuel (s.head? != some d) chunk (s.drop 1)

def matchChunk (chunk s : Bytes) : MC := matchChunkLoop (chunk.length + 1) false chunk s

inductive Star where
  | bad | notFound | found (rest : Bytes)

/-- `for i := 0; i < len(name) && name[i] != '/'; i++ { matchChunk(chunk, name[i+1:]) … }` -/
def starSearch (chunk : Bytes) (last : Bool) : Bytes → Star
  | [] => .notFound
  | c :: rest =>
    if c == 47 then .notFound else
    match matchChunk chunk rest with
    | .ok t => if last && !t.isEmpty then starSearch chunk last rest else .found t
    | .bad => .bad
    | .fail => starSearch chunk last rest

def matchLoop : Nat → Bytes → Bytes → Bool
  | 0, _, _ => false
  | _ + 1, [], name => name.isEmpty
  | fuel + 1, pattern, name =>
    let sc := scanChunk pattern
    let star := sc.1
    let chunk := sc.2.1
    let rest := sc.2.2
    if star && chunk.isEmpty then !name.contains 47
    else
      let res := matchChunk chunk name
      -- `ok && (len(t) == 0 || len(pattern) > 0)`: continue with the remainder
      let cont : Option Bytes := match res with
        | .ok t => if t.isEmpty || !rest.isEmpty then some t else none
        | _ => none
      match cont with
      | some t => matchLoop fuel rest t
      | none =>
        if res == .bad then false
        else if star then
          match starSearch chunk rest.isEmpty name with
          | .found t => matchLoop fuel rest t
          | _ => false
        else false

/-- path.Match(pattern, name), first result. -/
def pathMatch (pattern name : Bytes) : Bool := matchLoop (pattern.length + 1) pattern name

end ModVerif.PathMatch
