/- GoRt: utf8.RuneCountInString through the shared model of Basic/GoStrings.lean. -/
import ModVerif.Basic.GoRt
import ModVerif.Basic.GoStrings
namespace ModVerif.GoRt
open ModVerif
def runeCount (s : Bytes) : Int := ((GoStrings.runeCount s : Nat) : Int)
end ModVerif.GoRt
