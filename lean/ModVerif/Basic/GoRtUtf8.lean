/-
  GoRt, UTF-8 part: `for i, r := range s` over a string, utf8.ValidString, string(rune).
  (Separate from GoRt.lean so that units that never touch runes do not import the UTF-8 model.)
-/
import ModVerif.Basic.GoRt
import ModVerif.Basic.Utf8
namespace ModVerif.GoRt
open ModVerif

/-- the rune starting at byte offset `i` of `s` and its width, as `range` over a string delivers them
    (ill-formed UTF-8 yields U+FFFD with width 1) -/
def decodeRuneAt (s : Bytes) (i : Int) : Int × Int :=
  let (r, w) := Utf8.decodeRune (s.drop i.toNat)
  (Int.ofNat r, Int.ofNat w)

/-- utf8.DecodeRune / DecodeRuneInString: (rune, size); the empty string gives (RuneError, 0) -/
def decodeRune (s : Bytes) : Int × Int :=
  if s.isEmpty then (65533, 0) else let (r, w) := Utf8.decodeRune s; (Int.ofNat r, Int.ofNat w)

def validUtf8 (s : Bytes) : Bool := Utf8.validString s

def encodeRune (r : Int) : Bytes := Utf8.encode r.toNat

/-- strings.ContainsRune (for a valid rune: the substring search of its UTF-8 encoding) -/
def containsRune (s : Bytes) (r : Int) : Bool := contains s (encodeRune r)

end ModVerif.GoRt
