/-
  SHA-256 (FIPS 180-4) in pure core Lean over `Bytes = List UInt8`.
  Executable only: the theorems treat hashing abstractly (DESIGN §5.4); this file exists so that the
  model drivers can produce byte-identical outputs to the Go code.  It is validated against the
  NIST vectors below (`#guard`, evaluated at build time) and against crypto/sha256 by the
  correspondence ops `tlog.sha256` / `tlog.recordhash` / `tlog.nodehash`.

  API:  `ModVerif.Sha256.sha256 : Bytes → Bytes`   (32 bytes)
        `ModVerif.Sha256.sum256Hex : Bytes → String` (lower-case hex, diagnostics)
-/
import ModVerif.Basic.Bytes
namespace ModVerif.Sha256
open ModVerif

def K : Array UInt32 := #[
  0x428a2f98, 0x71374491, 0xb5c0fbcf, 0xe9b5dba5, 0x3956c25b, 0x59f111f1, 0x923f82a4, 0xab1c5ed5,
  0xd807aa98, 0x12835b01, 0x243185be, 0x550c7dc3, 0x72be5d74, 0x80deb1fe, 0x9bdc06a7, 0xc19bf174,
  0xe49b69c1, 0xefbe4786, 0x0fc19dc6, 0x240ca1cc, 0x2de92c6f, 0x4a7484aa, 0x5cb0a9dc, 0x76f988da,
  0x983e5152, 0xa831c66d, 0xb00327c8, 0xbf597fc7, 0xc6e00bf3, 0xd5a79147, 0x06ca6351, 0x14292967,
  0x27b70a85, 0x2e1b2138, 0x4d2c6dfc, 0x53380d13, 0x650a7354, 0x766a0abb, 0x81c2c92e, 0x92722c85,
  0xa2bfe8a1, 0xa81a664b, 0xc24b8b70, 0xc76c51a3, 0xd192e819, 0xd6990624, 0xf40e3585, 0x106aa070,
  0x19a4c116, 0x1e376c08, 0x2748774c, 0x34b0bcb5, 0x391c0cb3, 0x4ed8aa4a, 0x5b9cca4f, 0x682e6ff3,
  0x748f82ee, 0x78a5636f, 0x84c87814, 0x8cc70208, 0x90befffa, 0xa4506ceb, 0xbef9a3f7, 0xc67178f2]

def H0 : Array UInt32 := #[
  0x6a09e667, 0xbb67ae85, 0x3c6ef372, 0xa54ff53a, 0x510e527f, 0x9b05688c, 0x1f83d9ab, 0x5be0cd19]

@[inline] def rotr (x : UInt32) (n : UInt32) : UInt32 := (x >>> n) ||| (x <<< (32 - n))

@[inline] def bsig0 (x : UInt32) : UInt32 := rotr x 2 ^^^ rotr x 13 ^^^ rotr x 22
@[inline] def bsig1 (x : UInt32) : UInt32 := rotr x 6 ^^^ rotr x 11 ^^^ rotr x 25
@[inline] def ssig0 (x : UInt32) : UInt32 := rotr x 7 ^^^ rotr x 18 ^^^ (x >>> 3)
@[inline] def ssig1 (x : UInt32) : UInt32 := rotr x 17 ^^^ rotr x 19 ^^^ (x >>> 10)
@[inline] def ch (x y z : UInt32) : UInt32 := (x &&& y) ^^^ ((~~~ x) &&& z)
@[inline] def maj (x y z : UInt32) : UInt32 := (x &&& y) ^^^ (x &&& z) ^^^ (y &&& z)

/-- big-endian 64-bit length field -/
def be64 (n : Nat) : Bytes :=
  (List.range 8).map fun i => UInt8.ofNat ((n >>> (8 * (7 - i))) % 256)

/-- message ‖ 0x80 ‖ 0^k ‖ len64, a multiple of 64 bytes -/
def pad (msg : Bytes) : Bytes :=
  let l := msg.length
  msg ++ [0x80] ++ List.replicate ((119 - l % 64) % 64) 0 ++ be64 (l * 8)

/-- big-endian words of a byte list (length a multiple of 4) -/
def toWords : Bytes → List UInt32
  | a :: b :: c :: d :: rest =>
    ((a.toUInt32 <<< 24) ||| (b.toUInt32 <<< 16) ||| (c.toUInt32 <<< 8) ||| d.toUInt32) :: toWords rest
  | _ => []

/-- 64-entry message schedule from the 16 words of a block -/
def schedule (block : List UInt32) : Array UInt32 :=
  (List.range 48).foldl (fun (w : Array UInt32) j =>
    let i := j + 16
    w.push (ssig1 (w.getD (i - 2) 0) + w.getD (i - 7) 0 + ssig0 (w.getD (i - 15) 0) + w.getD (i - 16) 0))
    block.toArray

structure St where
  a : UInt32
  b : UInt32
  c : UInt32
  d : UInt32
  e : UInt32
  f : UInt32
  g : UInt32
  h : UInt32

def compress (hs : Array UInt32) (block : List UInt32) : Array UInt32 :=
  let w := schedule block
  let s0 : St := ⟨hs.getD 0 0, hs.getD 1 0, hs.getD 2 0, hs.getD 3 0, hs.getD 4 0, hs.getD 5 0, hs.getD 6 0, hs.getD 7 0⟩
  let s := (List.range 64).foldl (fun (s : St) i =>
    let t1 := s.h + bsig1 s.e + ch s.e s.f s.g + K.getD i 0 + w.getD i 0
    let t2 := bsig0 s.a + maj s.a s.b s.c
    ⟨t1 + t2, s.a, s.b, s.c, s.d + t1, s.e, s.f, s.g⟩) s0
  #[s0.a + s.a, s0.b + s.b, s0.c + s.c, s0.d + s.d, s0.e + s.e, s0.f + s.f, s0.g + s.g, s0.h + s.h]

/-- fold over 16-word blocks (fuel = number of words, structural) -/
def blocks : Nat → Array UInt32 → List UInt32 → Array UInt32
  | 0, hs, _ => hs
  | fuel + 1, hs, ws =>
    if ws.isEmpty then hs else blocks fuel (compress hs (ws.take 16)) (ws.drop 16)

def wordBytes (w : UInt32) : Bytes :=
  [(w >>> 24).toUInt8, (w >>> 16).toUInt8, (w >>> 8).toUInt8, w.toUInt8]

/-- SHA-256 digest (32 bytes). -/
def sha256 (msg : Bytes) : Bytes :=
  let ws := toWords (pad msg)
  (blocks (ws.length / 16 + 1) H0 ws).toList.flatMap wordBytes

def sum256Hex (msg : Bytes) : String := Bytes.toHex (sha256 msg)

-- NIST FIPS 180-4 / CAVP example vectors (evaluated by the compiler's interpreter at build time;
-- a wrong implementation fails the build).
#guard sum256Hex [] = "e3b0c44298fc1c149afbf4c8996fb92427ae41e4649b934ca495991b7852b855"
#guard sum256Hex (B "abc") = "ba7816bf8f01cfea414140de5dae2223b00361a396177a9cb410ff61f20015ad"
#guard sum256Hex (B "abcdbcdecdefdefgefghfghighijhijkijkljklmklmnlmnomnopnopq") =
  "248d6a61d20638b8e5c026930c3e6039a33ce45964ff2167f6ecedd419db06c1"
#guard sum256Hex (B "abcdefghbcdefghicdefghijdefghijkefghijklfghijklmghijklmnhijklmnoijklmnopjklmnopqklmnopqrlmnopqrsmnopqrstnopqrstu") =
  "cf5b16a778af8380036ce59e7b0492370b249b11e8f07a51afac45037afee9d1"
#guard sum256Hex (List.replicate 1000 0x61) = "41edece42d63e8d9bf515a9ba6932e1c20cbc9f5a5d134645adb5db1b9737ea3"
#guard sum256Hex (List.replicate 55 0) = "02779466cdec163811d078815c633f21901413081449002f24aa3e80f0b88ef7"
#guard sum256Hex (List.replicate 56 0) = "d4817aa5497628e7c77e6b606107042bbba3130888c5f47a375e6179be789fbb"
#guard sum256Hex (List.replicate 64 0) = "f5a5fd42d16a20302798ef6ed309979b43003d2320d9f0e8ea9831a92759fb4b"

end ModVerif.Sha256
