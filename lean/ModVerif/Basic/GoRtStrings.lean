/- GoRt, strings part shared with the hand models: strings.TrimSpace / bytes.TrimSpace and strings.ContainsAny through
   Basic/GoStrings.lean (the very functions the modfile model uses, so the tie theorems meet on them). -/
import ModVerif.Basic.GoRt
import ModVerif.Basic.GoStrings
namespace ModVerif.GoRt
open ModVerif
def trimSpace (s : Bytes) : Bytes := GoStrings.trimSpace s
def containsAny (s chars : Bytes) : Bool := GoStrings.containsAny s chars
end ModVerif.GoRt
