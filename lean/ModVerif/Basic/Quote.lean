/-
  strconv.Quote and strconv.Unquote, the subset modfile uses:
  * `unquote`: interpreted `"…"` strings (all escapes of `UnquoteChar`) and raw `` `…` `` strings;
    anything else (including `'…'`) is a syntax error.  modfile calls Unquote only on strings that
    start with `"` or `` ` ``.
  * `quote`: strconv.Quote (double quotes, non-ASCII printable runes kept, the rest escaped).
  Go 1.23 semantics.  Core-only.
-/
import ModVerif.Basic.Bytes
import ModVerif.Basic.Utf8
import ModVerif.Basic.UnicodePrint
namespace ModVerif.Quote
open ModVerif

def unhex (c : UInt8) : Option Nat :=
  if 48 ≤ c && c ≤ 57 then some (c.toNat - 48)
  else if 97 ≤ c && c ≤ 102 then some (c.toNat - 97 + 10)
  else if 65 ≤ c && c ≤ 70 then some (c.toNat - 65 + 10)
  else none

/-- utf8.ValidRune -/
def validRune (r : Nat) : Bool := r < 0xD800 || (0xE000 ≤ r && r ≤ 0x10FFFF)

def hexValue : List UInt8 → Option Nat
  | [] => some 0
  | l => l.foldlM (fun v c => (unhex c).map fun x => v * 16 + x) 0

/-- the bytes appended for a decoded character: `byte(r)` if `r < RuneSelf || !multibyte`, else the
    UTF-8 encoding. -/
def charBytes (r : Nat) (multibyte : Bool) : Bytes :=
  if r < 0x80 || !multibyte then [UInt8.ofNat r] else Utf8.encode r

/-- strconv.UnquoteChar with quote = '"': (value, multibyte, tail) or none (ErrSyntax). -/
def unquoteChar (s : Bytes) : Option (Nat × Bool × Bytes) :=
  match s with
  | [] => none
  | c :: rest =>
    if c == 34 then none
    else if c.toNat ≥ 0x80 then
      let (r, size) := Utf8.decodeRune s
      some (r, true, s.drop size)
    else if c != 92 then some (c.toNat, false, rest)
    else
      match rest with
      | [] => none
      | e :: s2 =>
        if e == 97 then some (7, false, s2)          -- \a
        else if e == 98 then some (8, false, s2)     -- \b
        else if e == 102 then some (12, false, s2)   -- \f
        else if e == 110 then some (10, false, s2)   -- \n
        else if e == 114 then some (13, false, s2)   -- \r
        else if e == 116 then some (9, false, s2)    -- \t
        else if e == 118 then some (11, false, s2)   -- \v
        else if e == 120 || e == 117 || e == 85 then  -- \x \u \U
          let n := if e == 120 then 2 else if e == 117 then 4 else 8
          if s2.length < n then none else
          match hexValue (s2.take n) with
          | none => none
          | some v =>
            if e == 120 then some (v, false, s2.drop n)
            else if !validRune v then none
            else some (v, true, s2.drop n)
        else if 48 ≤ e && e ≤ 55 then                -- octal \ooo
          match s2 with
          | d1 :: d2 :: s3 =>
            if 48 ≤ d1 && d1 ≤ 55 && 48 ≤ d2 && d2 ≤ 55 then
              let v := (e.toNat - 48) * 64 + (d1.toNat - 48) * 8 + (d2.toNat - 48)
              if v > 255 then none else some (v, false, s3)
            else none
          | _ => none
        else if e == 92 then some (92, false, s2)
        else if e == 34 then some (34, false, s2)    -- \" (quote == '"')
        else none                                     -- includes \'

/-- the loop of `unquote` for a `"` string, after the opening quote: returns the unescaped bytes
    (reversed accumulator) and the input after the closing quote. -/
def unquoteLoop : Nat → Bytes → Bytes → Option (Bytes × Bytes)
  | 0, _, _ => none
  | fuel + 1, s, acc =>
    match s with
    | [] => none                                      -- no terminating quote
    | c :: rest =>
      if c == 34 then some (acc.reverse, rest)
      else
        match unquoteChar s with
        | none => none
        | some (r, mb, tail) =>
          if c == 10 then none
          else unquoteLoop fuel tail ((charBytes r mb).reverse ++ acc)

/-- strconv.Unquote for strings starting with `"` or `` ` ``; `none` = ErrSyntax. -/
def unquote (s : Bytes) : Option Bytes :=
  match s with
  | [] | [_] => none
  | q :: rest =>
    if !rest.contains q then none            -- no terminating quote at all
    else if q == 96 then
      let body := rest.takeWhile (· != 96)
      let rem := (rest.dropWhile (· != 96)).drop 1
      if rem.isEmpty then some (body.filter (· != 13)) else none
    else if q == 34 then
      match unquoteLoop (rest.length + 1) rest [] with
      | some (out, []) => some out
      | _ => none
    else none

def lowerhex (n : Nat) : UInt8 := if n < 10 then UInt8.ofNat (48 + n) else UInt8.ofNat (87 + n)

def hexDigits (r : Nat) : Nat → Bytes
  | 0 => []
  | k + 1 => lowerhex (r / 16 ^ k % 16) :: hexDigits r k

/-- strconv.appendEscapedRune with quote = '"', ASCIIonly = graphicOnly = false. -/
def appendEscapedRune (r : Nat) : Bytes :=
  if r == 34 || r == 92 then [92, UInt8.ofNat r]
  else if UnicodePrint.isPrint r then Utf8.encode r
  else if r == 7 then [92, 97]
  else if r == 8 then [92, 98]
  else if r == 12 then [92, 102]
  else if r == 10 then [92, 110]
  else if r == 13 then [92, 114]
  else if r == 9 then [92, 116]
  else if r == 11 then [92, 118]
  else if r < 32 || r == 0x7f then [92, 120, lowerhex (r / 16), lowerhex (r % 16)]
  else if !validRune r then [92, 117] ++ hexDigits 0xFFFD 4
  else if r < 0x10000 then [92, 117] ++ hexDigits r 4
  else [92, 85] ++ hexDigits r 8

def quoteLoop : Nat → Bytes → Bytes → Bytes
  | 0, _, acc => acc.reverse
  | fuel + 1, s, acc =>
    match s with
    | [] => acc.reverse
    | c :: _ =>
      let (r, width) := if c.toNat ≥ 0x80 then Utf8.decodeRune s else (c.toNat, 1)
      if width == 1 && r == Utf8.runeError then
        quoteLoop fuel (s.drop 1) (([92, 120, lowerhex (c.toNat / 16), lowerhex (c.toNat % 16)] : Bytes).reverse ++ acc)
      else
        quoteLoop fuel (s.drop width) ((appendEscapedRune r).reverse ++ acc)

/-- strconv.Quote -/
def quote (s : Bytes) : Bytes := 34 :: quoteLoop (s.length + 1) s [] ++ [34]

end ModVerif.Quote
