/- GoRt, pointers to heap objects.  A pointer to a struct of a configured heap type is an `Int`: 0 is nil, p > 0 is the
   p-th object allocated of that type; the objects of one type are a list held by the threaded world.  Dereferencing nil
   (or a pointer that was never allocated) is `Err.panic`, as in Go. -/
import ModVerif.Basic.GoRt
namespace ModVerif.GoRt
open ModVerif

def heapGet {α : Type} (l : List α) (p : Int) : M α :=
  if p ≤ 0 then throw Err.panic
  else match l[p.toNat - 1]? with
    | some v => pure v
    | none => throw Err.panic

def heapSet {α : Type} (l : List α) (p : Int) (v : α) : M (List α) :=
  if p ≤ 0 ∨ l.length < p.toNat then throw Err.panic
  else pure (l.set (p.toNat - 1) v)

/-- `&T{…}` / `new(T)`: a fresh object at the end of the list; its pointer is the new length -/
def heapAlloc {α : Type} (l : List α) (v : α) : Int × List α := (((l.length + 1 : Nat) : Int), l ++ [v])

end ModVerif.GoRt
