/- GoRt, package path: path.Dir / path.Clean / path.Base / path.Split through the shared model of Basic/PathClean.lean. -/
import ModVerif.Basic.GoRt
import ModVerif.Basic.PathClean
namespace ModVerif.GoRt
open ModVerif
def pathDir (p : Bytes) : Bytes := PathClean.pathDir p
def pathClean (p : Bytes) : Bytes := PathClean.pathClean p
def pathBase (p : Bytes) : Bytes := PathClean.pathBase p
def pathIsAbs (p : Bytes) : Bool := PathClean.isAbs p
end ModVerif.GoRt
