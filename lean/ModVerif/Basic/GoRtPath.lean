/- GoRt, package path: path.Dir / path.Clean / path.Base / path.Split through the shared model of Basic/PathClean.lean. -/
import ModVerif.Basic.GoRt
import ModVerif.Basic.PathClean
namespace ModVerif.GoRt
open ModVerif
def pathDir (p : Bytes) : Bytes := PathClean.pathDir p
def pathClean (p : Bytes) : Bytes := PathClean.pathClean p
def pathBase (p : Bytes) : Bytes := PathClean.pathBase p
def pathIsAbs (p : Bytes) : Bool := PathClean.isAbs p
end ModVerif.GoRt

namespace ModVerif.GoRt
open ModVerif
def pathSplit (p : Bytes) : Bytes × Bytes := PathClean.pathSplit p
/-- io.ReadAll of an already materialised content -/
def readAll (b : Bytes) : Bytes × Option String := (b, none)
/-- os.FileMode.IsRegular: no type bit set (ModeType = 0x8f280000) -/
def modeIsRegular (m : Int) : Bool := decide (band m 2401763328 = 0)
end ModVerif.GoRt
