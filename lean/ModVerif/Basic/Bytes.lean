/-
  Bytes: Go strings are byte strings.  All models work over `List UInt8`.
  Core-only (no Mathlib) so that the driver links as a `lean_exe`.
-/
namespace ModVerif

abbrev Bytes := List UInt8

namespace Bytes

def ofString (s : String) : Bytes := s.toUTF8.toList

/-- lossy, for diagnostics only -/
def toStringLossy (b : Bytes) : String := String.ofList (b.map fun c => Char.ofNat c.toNat)

def hexDigit (n : Nat) : Char :=
  if n < 10 then Char.ofNat (48 + n) else Char.ofNat (87 + n)

/-- lower-case hex of a byte string; `-` for the empty string (line protocol). -/
def toHex (b : Bytes) : String :=
  if b.isEmpty then "-" else
  String.ofList (b.flatMap fun c => [hexDigit (c.toNat / 16), hexDigit (c.toNat % 16)])

def hexVal (c : Char) : Option Nat :=
  if '0' ≤ c ∧ c ≤ '9' then some (c.toNat - 48)
  else if 'a' ≤ c ∧ c ≤ 'f' then some (c.toNat - 87)
  else none

def ofHexChars : List Char → Option Bytes
  | [] => some []
  | [_] => none
  | a :: b :: rest => do
    let x ← hexVal a
    let y ← hexVal b
    let r ← ofHexChars rest
    pure (UInt8.ofNat (x * 16 + y) :: r)

def ofHex (s : String) : Option Bytes :=
  if s == "-" then some [] else ofHexChars s.toList

end Bytes

/-- bytewise lexicographic `<` on byte strings, as Go's string `<`. -/
def bytesLt : Bytes → Bytes → Bool
  | [], [] => false
  | [], _ :: _ => true
  | _ :: _, [] => false
  | a :: as, b :: bs => if a < b then true else if b < a then false else bytesLt as bs

/-- three-way bytewise comparison (-1, 0, 1). -/
def bytesCmp (a b : Bytes) : Int :=
  if a = b then 0 else if bytesLt a b then -1 else 1

/-- split on a separator byte (like strings.Split with a one-byte separator). -/
def splitOn (sep : UInt8) : Bytes → List Bytes
  | [] => [[]]
  | c :: rest =>
    if c == sep then [] :: splitOn sep rest
    else match splitOn sep rest with
      | [] => [[c]]          -- unreachable: splitOn never returns []
      | s :: ss => (c :: s) :: ss

def joinWith (sep : Bytes) : List Bytes → Bytes
  | [] => []
  | [x] => x
  | x :: xs => x ++ sep ++ joinWith sep xs

def isPrefixOfB : Bytes → Bytes → Bool
  | [], _ => true
  | _ :: _, [] => false
  | a :: as, b :: bs => a == b && isPrefixOfB as bs

def hasSuffixB (s suf : Bytes) : Bool := isPrefixOfB suf.reverse s.reverse

def B (s : String) : Bytes := Bytes.ofString s

end ModVerif
