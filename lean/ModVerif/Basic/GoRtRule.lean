/- GoRt, vocabulary of the regenerated directive layer of modfile (rule.go parseToFile / File.add …). -/
import ModVerif.Basic.GoRtNote
namespace ModVerif.GoRt
open ModVerif

/-- an error message given as a Go string (the `format` variable of `errorf := func(format string, args ...interface{})`):
    the bytes as characters (formats are ASCII literals of the source) -/
def bytesToStr (b : Bytes) : String := String.ofList (b.map fun c => Char.ofNat c.toNat)

/-- the `Err` field of such an error -/
def errInner (name : String) (e : Option String) : Option String :=
  match e with
  | some s => if s.startsWith (name ++ "|") then some ((s.drop (name.length + 1)).toString) else none
  | none => none

end ModVerif.GoRt
