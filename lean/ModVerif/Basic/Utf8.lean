/-
  UTF-8 decoding with Go semantics (unicode/utf8): `DecodeRuneInString`, `ValidString`, and the rune
  sequence a `for _, r := range s` loop sees.  An ill-formed sequence decodes to RuneError (U+FFFD)
  with width 1.  Surrogates, overlong forms and values above U+10FFFF are ill-formed.
  Core-only; all arithmetic on `Nat` so that `omega` closes the range lemmas.
-/
import ModVerif.Basic.Bytes
namespace ModVerif.Utf8
open ModVerif

def runeError : Nat := 0xFFFD

/-- continuation byte 0x80..0xBF -/
def isCont (b : UInt8) : Bool := 0x80 ≤ b.toNat && b.toNat ≤ 0xBF

def inRange (lo hi : Nat) (b : UInt8) : Bool := lo ≤ b.toNat && b.toNat ≤ hi

/-- `decode s`: the rune encoded at the head of `s` and its width, or `none` when the head of `s`
    is not a well-formed UTF-8 sequence (also for the empty string).  This is the accept table of
    unicode/utf8 (`first`/`acceptRanges`). -/
def decode : Bytes → Option (Nat × Nat)
  | [] => none
  | b0 :: rest =>
    let x := b0.toNat
    if x < 0x80 then some (x, 1)
    else if x < 0xC2 then none
    else if x < 0xE0 then
      match rest with
      | b1 :: _ => if isCont b1 then some ((x - 0xC0) * 64 + (b1.toNat - 0x80), 2) else none
      | _ => none
    else if x < 0xF0 then
      match rest with
      | b1 :: b2 :: _ =>
        let ok1 := if x == 0xE0 then inRange 0xA0 0xBF b1
                   else if x == 0xED then inRange 0x80 0x9F b1 else inRange 0x80 0xBF b1
        if ok1 && isCont b2 then
          some ((x - 0xE0) * 4096 + (b1.toNat - 0x80) * 64 + (b2.toNat - 0x80), 3)
        else none
      | _ => none
    else if x < 0xF5 then
      match rest with
      | b1 :: b2 :: b3 :: _ =>
        let ok1 := if x == 0xF0 then inRange 0x90 0xBF b1
                   else if x == 0xF4 then inRange 0x80 0x8F b1 else inRange 0x80 0xBF b1
        if ok1 && isCont b2 && isCont b3 then
          some ((x - 0xF0) * 262144 + (b1.toNat - 0x80) * 4096 + (b2.toNat - 0x80) * 64 + (b3.toNat - 0x80), 4)
        else none
      | _ => none
    else none

/-- utf8.DecodeRuneInString on a non-empty string: (rune, width); ill-formed → (RuneError, 1).
    (On the empty string Go returns (RuneError, 0); callers here never decode an empty string.) -/
def decodeRune (s : Bytes) : Nat × Nat :=
  match decode s with
  | some rw => rw
  | none => (runeError, 1)

/-- the runes of `for _, r := range s`; first argument = bytes of the current rune still to skip. -/
def runesAux : Nat → Bytes → List Nat
  | _, [] => []
  | k + 1, _ :: rest => runesAux k rest
  | 0, b :: rest => (decodeRune (b :: rest)).1 :: runesAux ((decodeRune (b :: rest)).2 - 1) rest

def runes (s : Bytes) : List Nat := runesAux 0 s

def validAux : Nat → Bytes → Bool
  | _, [] => true
  | k + 1, _ :: rest => validAux k rest
  | 0, b :: rest =>
    match decode (b :: rest) with
    | none => false
    | some (_, w) => validAux (w - 1) rest

/-- utf8.ValidString -/
def validString (s : Bytes) : Bool := validAux 0 s

/-- utf8.AppendRune / string(rune) for a valid scalar value (used by generators of examples only). -/
def encode (r : Nat) : Bytes :=
  if r < 0x80 then [UInt8.ofNat r]
  else if r < 0x800 then [UInt8.ofNat (0xC0 + r / 64), UInt8.ofNat (0x80 + r % 64)]
  else if r < 0x10000 then [UInt8.ofNat (0xE0 + r / 4096), UInt8.ofNat (0x80 + r / 64 % 64), UInt8.ofNat (0x80 + r % 64)]
  else [UInt8.ofNat (0xF0 + r / 262144), UInt8.ofNat (0x80 + r / 4096 % 64), UInt8.ofNat (0x80 + r / 64 % 64), UInt8.ofNat (0x80 + r % 64)]

end ModVerif.Utf8
