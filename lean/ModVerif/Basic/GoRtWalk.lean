/- GoRt, path/filepath.Walk over a directory tree given as a value.  The tree stands for what the file system holds
   below the walked root: every directory lists its entries in the order os.ReadDir returns them (sorted by name).
   `walkTree` is the ASSUMED behaviour of filepath.Walk on a tree whose Lstat / ReadDir calls all succeed (trusted base):
   the callback is called for the root and then, in lexical pre-order, for every entry; `filepath.SkipDir` returned for a
   directory skips its contents, returned for a non-directory it skips the rest of the containing directory;
   `filepath.SkipAll` ends the walk; any other error ends the walk and is returned. -/
import ModVerif.Basic.GoRt
import ModVerif.Basic.GoRtPath
import ModVerif.Basic.GoRtZipIO
namespace ModVerif.GoRt
open ModVerif

/-- a file-system object with its `os.FileInfo` (type `I`) -/
inductive FsTree (I : Type) where
  | file (info : I)
  | dir (info : I) (children : List (Bytes × FsTree I))

instance {I : Type} [Inhabited I] : Inhabited (FsTree I) := ⟨.file default⟩

def FsTree.isDir {I : Type} : FsTree I → Bool
  | .dir .. => true
  | .file .. => false

def FsTree.info {I : Type} : FsTree I → I
  | .dir i _ => i
  | .file i => i

mutual
/-- filepath's `walk(path, info, fn)` -/
def walkNode {I σ : Type} (fn : Bytes → I → Option String → σ → M (Option String × σ)) :
    Nat → Bytes → FsTree I → σ → M (Option String × σ)
  | 0, _, _, _ => throw Err.fuel
  | _ + 1, path, .file info, st => fn path info none st
  | fuel + 1, path, .dir info children, st => do
    let (err1, st) ← fn path info none st
    if err1.isSome then pure (err1, st) else walkChildren fn fuel path children st
/-- the loop over the names of a directory -/
def walkChildren {I σ : Type} (fn : Bytes → I → Option String → σ → M (Option String × σ)) :
    Nat → Bytes → List (Bytes × FsTree I) → σ → M (Option String × σ)
  | 0, _, _, _ => throw Err.fuel
  | _ + 1, _, [], st => pure (none, st)
  | fuel + 1, path, (name, n) :: rest, st => do
    let (err, st) ← walkNode fn fuel (fpJoin path name) n st
    if err.isSome then
      if n.isDir && err == some "SkipDir" then walkChildren fn fuel path rest st
      else pure (err, st)
    else walkChildren fn fuel path rest st
end

/-- `filepath.Walk(root, fn)` where `tree` is what the file system holds at `root`; the closure's captured variables that
    it assigns are the state `σ`. -/
def walkTree {I σ : Type} (fn : Bytes → I → Option String → σ → M (Option String × σ)) (fuel : Nat) (root : Bytes)
    (tree : FsTree I) (st : σ) : M (Option String × σ) := do
  let (err, st) ← walkNode fn fuel root tree st
  if err == some "SkipDir" || err == some "SkipAll" then pure (none, st) else pure (err, st)

/-- `filepath.Walk(root, fn)` when the root may not exist (`none`): Lstat fails and the callback is called once with that
    error and no FileInfo (`default` stands for the nil interface value, which correct callbacks do not touch) -/
def walkTreeOpt {I σ : Type} [Inhabited I] (fn : Bytes → I → Option String → σ → M (Option String × σ)) (fuel : Nat)
    (root : Bytes) (tree : Option (FsTree I)) (st : σ) : M (Option String × σ) :=
  match tree with
  | some t => walkTree fn fuel root t st
  | none => do
    let (err, st) ← fn root default (some "lstat: no such file or directory") st
    if err == some "SkipDir" || err == some "SkipAll" then pure (none, st) else pure (err, st)

/-- filepath.Rel(base, targ) for a target that is the base itself or lies below it (the only case a walk produces): both
    are cleaned first.  Other targets (which would need `..` elements) are reported as an error here. -/
def fpRel (base targ : Bytes) : Bytes × Option String :=
  let b := pathClean base
  let t := pathClean targ
  if b == t then ([46], none)
  else if b == [46] && !(pathIsAbs t) then (t, none)
  else if b == [47] && pathIsAbs t then (t.drop 1, none)
  else if (b ++ [47]).isPrefixOf t then (t.drop (b.length + 1), none)
  else ([], some "Rel: can't make target relative to base")

end ModVerif.GoRt
