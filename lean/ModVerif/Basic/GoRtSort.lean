/- GoRt: sort.Strings (as THE sorted permutation: bytewise `<` is a strict total order, so the result of any correct
   sort is unique), %x of a byte string, and the empty accumulator of a hash.Hash. -/
import ModVerif.Basic.GoRt
namespace ModVerif.GoRt
open ModVerif

def emptyBytes : Bytes := []

def insertSorted (x : Bytes) : List Bytes → List Bytes
  | [] => [x]
  | y :: ys => if bytesLt x y then x :: y :: ys else y :: insertSorted x ys
/-- sort.Strings -/
def sortStrings (l : List Bytes) : List Bytes := l.foldr insertSorted []

def hexNibble (n : Nat) : UInt8 := if n < 10 then UInt8.ofNat (48 + n) else UInt8.ofNat (87 + n)
/-- fmt %x of a byte string: lower-case hex -/
def hexBytes (b : Bytes) : Bytes := b.flatMap fun c => [hexNibble (c.toNat / 16), hexNibble (c.toNat % 16)]

end ModVerif.GoRt
