/-
  encoding/base64 (Go 1.23) StdEncoding / RawStdEncoding, non-strict decoder.
  Arithmetic is on `Nat` with `/` and `%` (not shifts) so that `omega` can prove the round trip.

  Decoder semantics mirrored from `(*Encoding).decodeQuantum`:
    * `\r` and `\n` are skipped anywhere;
    * quanta of four alphabet characters; with padding (Std) a final quantum of 2 or 3 characters
      must be completed by `==` / `=` (newlines may be interleaved), and nothing but newlines may follow;
      without padding (RawStd) a final quantum of 2 or 3 characters is accepted and `=` is an error;
    * a final quantum of a single character is an error;
    * trailing bits of a short final quantum are ignored (non-strict).

  API:  `encodeStd, encodeRawStd : Bytes → Bytes`
        `decodeStd, decodeRawStd : Bytes → Option Bytes`     (`none` = CorruptInputError)
-/
import ModVerif.Basic.Bytes
namespace ModVerif.Base64
open ModVerif

/-- the Std alphabet: value (< 64) to character -/
def encChar (v : Nat) : UInt8 :=
  if v < 26 then UInt8.ofNat (65 + v)
  else if v < 52 then UInt8.ofNat (97 + (v - 26))
  else if v < 62 then UInt8.ofNat (48 + (v - 52))
  else if v = 62 then 43 else 47

/-- decodeMap: character to value; `none` = 0xff in the Go table -/
def decChar (c : UInt8) : Option Nat :=
  let n := c.toNat
  if 65 ≤ n ∧ n ≤ 90 then some (n - 65)
  else if 97 ≤ n ∧ n ≤ 122 then some (n - 97 + 26)
  else if 48 ≤ n ∧ n ≤ 57 then some (n - 48 + 52)
  else if n = 43 then some 62
  else if n = 47 then some 63
  else none

def padChar : UInt8 := 61

/-- encode; `pad = true` is StdEncoding, `false` RawStdEncoding -/
def encode (pad : Bool) : Bytes → Bytes
  | a :: b :: c :: rest =>
    let n := a.toNat * 65536 + b.toNat * 256 + c.toNat
    encChar (n / 262144) :: encChar (n / 4096 % 64) :: encChar (n / 64 % 64) :: encChar (n % 64) :: encode pad rest
  | [a, b] =>
    let n := a.toNat * 65536 + b.toNat * 256
    [encChar (n / 262144), encChar (n / 4096 % 64), encChar (n / 64 % 64)] ++ (if pad then [padChar] else [])
  | [a] =>
    let n := a.toNat * 65536
    [encChar (n / 262144), encChar (n / 4096 % 64)] ++ (if pad then [padChar, padChar] else [])
  | [] => []

def encodeStd : Bytes → Bytes := encode true
def encodeRawStd : Bytes → Bytes := encode false

def isNL (c : UInt8) : Bool := c == 10 || c == 13

def skipNL : Bytes → Bytes
  | [] => []
  | c :: rest => if isNL c then skipNL rest else c :: rest

/-- bytes of one quantum given its 2, 3 or 4 sextets (in order); fewer sextets give no bytes -/
def emit : List Nat → Bytes
  | [a, b, c, d] =>
    let v := a * 262144 + b * 4096 + c * 64 + d
    [UInt8.ofNat (v / 65536), UInt8.ofNat (v / 256 % 256), UInt8.ofNat (v % 256)]
  | [a, b, c] =>
    let v := a * 262144 + b * 4096 + c * 64
    [UInt8.ofNat (v / 65536), UInt8.ofNat (v / 256 % 256)]
  | [a, b] =>
    let v := a * 262144 + b * 4096
    [UInt8.ofNat (v / 65536)]
  | _ => []

/-- `q` = sextets of the current quantum collected so far (fewer than four). -/
def decodeAux (pad : Bool) : Bytes → List Nat → Option Bytes
  | [], q =>
    if q.isEmpty then some []
    else if q.length == 1 || pad then none
    else some (emit q)
  | c :: rest, q =>
    match decChar c with
    | some v =>
      if q.length == 3 then (decodeAux pad rest []).map (emit (q ++ [v]) ++ ·)
      else decodeAux pad rest (q ++ [v])
    | none =>
      if isNL c then decodeAux pad rest q
      else if !(pad && c == padChar) then none
      else if q.length < 2 then none
      else if q.length == 2 then
        match skipNL rest with
        | [] => none
        | d :: rest' =>
          if d != padChar then none
          else if !(skipNL rest').isEmpty then none
          else some (emit q)
      else
        if !(skipNL rest).isEmpty then none else some (emit q)

def decode (pad : Bool) (s : Bytes) : Option Bytes := decodeAux pad s []

def decodeStd : Bytes → Option Bytes := decode true
def decodeRawStd : Bytes → Option Bytes := decode false

#guard encodeStd (B "foobar") = B "Zm9vYmFy"
#guard encodeStd (B "fooba") = B "Zm9vYmE="
#guard encodeStd (B "foob") = B "Zm9vYg=="
#guard encodeRawStd (B "foob") = B "Zm9vYg"
#guard decodeStd (B "Zm9vYg==") = some (B "foob")
#guard decodeStd (B "Zm9v\nYg=\r=\n") = some (B "foob")
#guard decodeStd (B "Zm9vYh==") = some (B "foob")      -- non-strict: trailing bits ignored
#guard decodeStd (B "Zm9vYg") = none
#guard decodeStd (B "Zm9vYg==Zm9v") = none
#guard decodeStd (B "Zm9vY") = none
#guard decodeRawStd (B "Zm9vYg") = some (B "foob")
#guard decodeRawStd (B "Zm9vYg==") = none

end ModVerif.Base64
