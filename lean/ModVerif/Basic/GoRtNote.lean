/-
  GoRt, part used by sumdb/note: error type tests, strings.IndexFunc, binary.BigEndian.Uint32.
-/
import ModVerif.Basic.GoRtUtf8
namespace ModVerif.GoRt
open ModVerif

/-- `_, ok := err.(*T)`: the error value was built by `&T{…}` (possibly wrapping an inner error) -/
def errIs (name : String) (e : Option String) : Bool :=
  match e with
  | some s => s == name || s.startsWith (name ++ "|")
  | none => false

/-- strings.IndexFunc: byte offset of the first rune satisfying `p`, or -1 (ill-formed bytes decode to U+FFFD) -/
def indexFuncAux (p : Int → Bool) (s : Bytes) : Nat → Int → Int
  | 0, _ => -1
  | f + 1, i =>
    if i < len s then
      let (r, w) := decodeRuneAt s i
      if p r then i else indexFuncAux p s f (i + w)
    else -1
def indexFunc (s : Bytes) (p : Int → Bool) : Int := indexFuncAux p s (s.length + 1) 0

/-- binary.BigEndian.Uint32 (panics on fewer than 4 bytes) -/
def beUint32 (b : Bytes) : M Int :=
  match b with
  | a :: b :: c :: d :: _ => pure (Int.ofNat (((a.toNat * 256 + b.toNat) * 256 + c.toNat) * 256 + d.toNat))
  | _ => throw .panic

end ModVerif.GoRt

namespace ModVerif.GoRt
open ModVerif
/-- hex text of a byte string inside an error value -/
def errHex (b : Bytes) : String := Bytes.toHex b
/-- `&T{f1, f2, …}` for an error struct whose fields are kept: "T|f1|f2|…" -/
def errWith (name : String) (fields : List String) : Option String := some ("|".intercalate (name :: fields))
end ModVerif.GoRt

namespace ModVerif.GoRt
open ModVerif
/-- the empty accumulator of a fresh hash.Hash -/
def emptyBytesN : Bytes := []
/-- binary.BigEndian.PutUint32(b, v): overwrites the first four bytes (panics on a shorter slice) -/
def bePut32 (b : Bytes) (v : Int) : M Bytes :=
  if b.length < 4 then throw .panic else
  let n := (v % 4294967296).toNat
  pure ([UInt8.ofNat (n / 16777216), UInt8.ofNat (n / 65536 % 256), UInt8.ofNat (n / 256 % 256), UInt8.ofNat (n % 256)] ++ b.drop 4)
end ModVerif.GoRt
