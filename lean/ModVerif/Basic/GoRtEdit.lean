/- GoRt, vocabulary of the regenerated modfile edit operations: strings.Fields, copy into a slice at an offset for any
   element type, delete from a map. -/
import ModVerif.Basic.GoRt
import ModVerif.Basic.GoStrings
namespace ModVerif.GoRt
open ModVerif

/-- strings.Fields through the shared model of Basic/GoStrings.lean -/
def fields (s : Bytes) : List Bytes := GoStrings.fields s

/-- `copy(dst[lo:], src)` for any element type: as many elements as fit, the rest of `dst` unchanged.  The source is a
    VALUE here (evaluated before the copy), which is Go's memmove semantics for overlapping slices of one array. -/
def copyAtL {α : Type} (dst : List α) (lo : Int) (src : List α) : M (List α) :=
  if lo < 0 ∨ lo > (dst.length : Int) then throw Err.panic else
  let k := lo.toNat
  let n := min (dst.length - k) src.length
  pure (dst.take k ++ src.take n ++ dst.drop (k + n))

/-- `delete(m, k)` on a map held as an association list -/
def mapDelete {κ ν : Type} [DecidableEq κ] (m : List (κ × ν)) (k : κ) : List (κ × ν) := m.filter (fun e => e.1 ≠ k)

end ModVerif.GoRt

namespace ModVerif.GoRt
open ModVerif
/-- insert `x` (which stood to the LEFT of the elements of the list) into a list sorted by `less`: after the elements
    smaller than it, before the first `y` that is not smaller — so equal elements keep their order -/
def insertStableW {α W : Type} (less : α → α → W → M (Bool × W)) (x : α) : List α → W → M (List α × W)
  | [], w => pure ([x], w)
  | y :: ys, w => do
    let (lt, w) ← less y x w
    if lt then do
      let (r, w) ← insertStableW less x ys w
      pure (y :: r, w)
    else pure (x :: y :: ys, w)

/-- sort.SliceStable(l, less) with an element comparator that reads the world: THE stable sorted arrangement when `less`
    is a strict weak order (elements inserted from the right, so equal elements keep their order) -/
def sortStableW {α W : Type} (less : α → α → W → M (Bool × W)) : List α → W → M (List α × W)
  | [], w => pure ([], w)
  | x :: xs, w => do
    let (r, w) ← sortStableW less xs w
    insertStableW less x r w
end ModVerif.GoRt
