/-
  encoding/base64 StdEncoding (padded, NON-strict) as used by sumdb/note:
    * `b64enc`  = StdEncoding.EncodeToString
    * `b64dec`  = StdEncoding.DecodeString, `none` = any CorruptInputError
  Go's decoder skips every '\r' and '\n' of the input (before, inside and after the padding), requires
  padding (`xx==` / `xxx=` only as the final quantum, nothing after it) and, being non-strict, ignores the
  trailing bits of a padded quantum.  Core-only.  (Own copy for the note subsystem; Basic/Base64.lean of the
  tlog subsystem did not exist when this was written.)
-/
import ModVerif.Basic.Bytes
namespace ModVerif.B64
open ModVerif

/-- the StdEncoding alphabet: value (< 64) → character -/
def encChar (n : Nat) : UInt8 :=
  if n < 26 then UInt8.ofNat (65 + n)
  else if n < 52 then UInt8.ofNat (97 + (n - 26))
  else if n < 62 then UInt8.ofNat (48 + (n - 52))
  else if n = 62 then 43 else 47

/-- character → value; `none` for a byte outside the alphabet (including '=') -/
def decChar (c : UInt8) : Option Nat :=
  let x := c.toNat
  if 65 ≤ x ∧ x ≤ 90 then some (x - 65)
  else if 97 ≤ x ∧ x ≤ 122 then some (x - 97 + 26)
  else if 48 ≤ x ∧ x ≤ 57 then some (x - 48 + 52)
  else if x = 43 then some 62
  else if x = 47 then some 63
  else none

def pad : UInt8 := 61

def b64enc : Bytes → Bytes
  | [] => []
  | [a] => [encChar (a.toNat / 4), encChar (a.toNat % 4 * 16), pad, pad]
  | [a, b] => [encChar (a.toNat / 4), encChar (a.toNat % 4 * 16 + b.toNat / 16), encChar (b.toNat % 16 * 4), pad]
  | a :: b :: c :: rest =>
    encChar (a.toNat / 4) :: encChar (a.toNat % 4 * 16 + b.toNat / 16) ::
    encChar (b.toNat % 16 * 4 + c.toNat / 64) :: encChar (c.toNat % 64) :: b64enc rest

/-- decoder on input from which CR/LF have been removed -/
def decCore : Bytes → Option Bytes
  | [] => some []
  | c0 :: c1 :: c2 :: c3 :: rest =>
    match decChar c0, decChar c1 with
    | some v0, some v1 =>
      match decChar c2 with
      | some v2 =>
        match decChar c3 with
        | some v3 =>
          (decCore rest).map fun r =>
            UInt8.ofNat (v0 * 4 + v1 / 16) :: UInt8.ofNat (v1 % 16 * 16 + v2 / 4) :: UInt8.ofNat (v2 % 4 * 64 + v3) :: r
        | none =>
          if c3 == pad && rest.isEmpty then
            some [UInt8.ofNat (v0 * 4 + v1 / 16), UInt8.ofNat (v1 % 16 * 16 + v2 / 4)]
          else none
      | none =>
        if c2 == pad && c3 == pad && rest.isEmpty then some [UInt8.ofNat (v0 * 4 + v1 / 16)] else none
    | _, _ => none
  | _ => none

def isCRLF (c : UInt8) : Bool := c == 10 || c == 13

/-- base64.StdEncoding.DecodeString; `none` = error -/
def b64dec (s : Bytes) : Option Bytes := decCore (s.filter fun c => !isCRLF c)

end ModVerif.B64
