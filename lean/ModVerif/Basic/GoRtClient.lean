/- GoRt, vocabulary of the regenerated sumdb client (sumdb/client.go): the value type of its two memo tables, the text of
   an error value inside a formatted message, bytes.Replace with n = -1. -/
import ModVerif.Basic.GoRt
namespace ModVerif.GoRt
open ModVerif

/-- `type cached struct { data []byte; err error }` (declared inside Lookup and readTile): what a parCache entry holds -/
structure Cached where
  data : Bytes
  err : Option String
  deriving DecidableEq, Repr, Inhabited

/-- `%v` of an error inside a formatted message: the text that identifies it (empty for nil) -/
def errBytes (e : Option String) : Bytes := (e.getD "").toUTF8.toList

/-- bytes.Replace(s, old, new, -1) for a non-empty `old`: every non-overlapping occurrence, left to right -/
def replaceAllAux (old new : Bytes) : Nat → Bytes → Bytes
  | 0, s => s
  | _ + 1, [] => []
  | fuel + 1, c :: rest =>
    if old ≠ [] ∧ old.isPrefixOf (c :: rest) then new ++ replaceAllAux old new fuel ((c :: rest).drop old.length)
    else c :: replaceAllAux old new fuel rest

def replaceAll (s old new : Bytes) (_n : Int) : Bytes := replaceAllAux old new (s.length + 1) s

end ModVerif.GoRt
