/-
  Byte-string helpers with the semantics of Go's `strings`/`bytes` functions used by modfile:
  `TrimSpace` (Unicode white space, forward decoding on the left, `DecodeLastRune` on the right),
  `Fields`, `Index`, `Contains`, `ContainsAny`, `Cut`, `HasPrefix/HasSuffix/TrimPrefix`, `Join`.
  Core-only.
-/
import ModVerif.Basic.Bytes
import ModVerif.Basic.Utf8
import ModVerif.Basic.UnicodePrint
namespace ModVerif.GoStrings
open ModVerif

def hasPrefix (s p : Bytes) : Bool := isPrefixOfB p s

def hasSuffix (s suf : Bytes) : Bool := hasSuffixB s suf

def trimPrefix (s p : Bytes) : Bytes := if isPrefixOfB p s then s.drop p.length else s

/-- strings.Index: byte offset of the first occurrence of `sub`, if any. -/
def indexAux (sub : Bytes) : Bytes → Nat → Option Nat
  | [], i => if sub.isEmpty then some i else none
  | c :: rest, i => if isPrefixOfB sub (c :: rest) then some i else indexAux sub rest (i + 1)

def index (s sub : Bytes) : Option Nat := indexAux sub s 0

def contains (s sub : Bytes) : Bool := (index s sub).isSome

/-- strings.ContainsAny for an ASCII character set. -/
def containsAny (s chars : Bytes) : Bool := s.any fun c => chars.contains c

/-- strings.Cut with a one-byte separator. -/
def cut (s : Bytes) (sep : UInt8) : Option (Bytes × Bytes) :=
  if s.contains sep then some (s.takeWhile (· != sep), (s.dropWhile (· != sep)).drop 1) else none

/-- utf8.RuneStart -/
def runeStart (b : UInt8) : Bool := b.toNat / 64 != 2

/-- utf8.DecodeLastRuneInString on the string whose REVERSED bytes are `rev` (non-empty):
    (rune, size). -/
def decodeLastRuneRev (rev : Bytes) : Nat × Nat :=
  match rev with
  | [] => (Utf8.runeError, 0)
  | b :: _ =>
    if b.toNat < 0x80 then (b.toNat, 1) else
    -- look back over at most UTFMax = 4 bytes for a rune start
    let w := rev.take 4
    -- k = number of bytes taken from the end (1-based) at which a rune start is found, else all
    let k := match w with
      | [_] => 1
      | [_, b1] => if runeStart b1 then 2 else 2
      | [_, b1, b2] => if runeStart b1 then 2 else if runeStart b2 then 3 else 3
      | _ :: b1 :: b2 :: b3 :: _ => if runeStart b1 then 2 else if runeStart b2 then 3 else if runeStart b3 then 4 else 4
      | [] => 1
    let seg := (w.take k).reverse
    let (r, size) := Utf8.decodeRune seg
    if size != k then (Utf8.runeError, 1) else (r, size)

/-- strings.TrimLeftFunc(s, unicode.IsSpace); `fuel ≥ s.length`. -/
def trimLeftSpaceAux : Nat → Bytes → Bytes
  | 0, s => s
  | fuel + 1, s =>
    match s with
    | [] => []
    | _ :: _ =>
      let (r, w) := Utf8.decodeRune s
      if UnicodePrint.isSpace r then trimLeftSpaceAux fuel (s.drop w) else s

def trimLeftSpace (s : Bytes) : Bytes := trimLeftSpaceAux s.length s

/-- the backward scan of `lastIndexFunc(s, IsSpace, false)` on reversed bytes: returns the reversed
    prefix `s[0:i]` where `i` is the start index of the last non-space rune as seen by
    `DecodeLastRune` plus the bytes after it (reversed, i.e. `s[i:]` reversed split off), or none. -/
def trimRightScan : Nat → Bytes → Bytes → Option (Bytes × Bytes)
  | 0, _, _ => none
  | fuel + 1, rev, tail =>
    match rev with
    | [] => none
    | _ :: _ =>
      let (r, size) := decodeLastRuneRev rev
      let seg := (rev.take size).reverse
      if UnicodePrint.isSpace r then trimRightScan fuel (rev.drop size) (seg ++ tail)
      else some (rev.drop size, seg ++ tail)

/-- strings.TrimRightFunc(s, unicode.IsSpace): find the last non-space rune (decoding backwards), then
    keep it with the width of a FORWARD decode at that index (as the Go code does). -/
def trimRightSpace (s : Bytes) : Bytes :=
  match trimRightScan (s.length + 1) s.reverse [] with
  | none => []
  | some (revBefore, fromI) =>
    -- fromI = s[i:], revBefore = reverse of s[0:i]
    match fromI with
    | [] => revBefore.reverse
    | b :: _ =>
      let w := if b.toNat ≥ 0x80 then (Utf8.decodeRune fromI).2 else 1
      revBefore.reverse ++ fromI.take w

/-- strings.TrimSpace / bytes.TrimSpace (the ASCII fast path of the Go code is an optimisation of
    `TrimFunc(s, unicode.IsSpace)`). -/
def trimSpace (s : Bytes) : Bytes := trimRightSpace (trimLeftSpace s)

/-- strings.Fields: maximal runs of non-space runes (forward decoding; an ill-formed byte is the
    non-space RuneError).  `skip` = bytes of the current rune still to copy/skip. -/
def fieldsAux : Nat → Bytes → Bytes → List Bytes → List Bytes
  | 0, _, cur, acc => (if cur.isEmpty then acc else cur.reverse :: acc).reverse
  | fuel + 1, s, cur, acc =>
    match s with
    | [] => (if cur.isEmpty then acc else cur.reverse :: acc).reverse
    | _ :: _ =>
      let (r, w) := Utf8.decodeRune s
      if UnicodePrint.isSpace r then
        fieldsAux fuel (s.drop w) [] (if cur.isEmpty then acc else cur.reverse :: acc)
      else
        fieldsAux fuel (s.drop w) ((s.take w).reverse ++ cur) acc

def fields (s : Bytes) : List Bytes := fieldsAux (s.length + 1) s [] []

/-- strings.Join -/
def join (l : List Bytes) (sep : Bytes) : Bytes := joinWith sep l

/-- utf8.RuneCountInString -/
def runeCountAux : Nat → Bytes → Nat → Nat
  | 0, _, n => n
  | fuel + 1, s, n =>
    match s with
    | [] => n
    | _ :: _ => runeCountAux fuel (s.drop (Utf8.decodeRune s).2) (n + 1)

def runeCount (s : Bytes) : Nat := runeCountAux s.length s 0

end ModVerif.GoStrings
