/-
  GoRt: the run-time vocabulary of the Go-to-Lean translator (harness/cmd/extract/go2lean*.go).

  The translator turns whole Go functions of /repo into Lean definitions (lean/ModVerif/Generated/Fn*.lean,
  regenerated on every run).  Those definitions use ONLY what is defined here plus core Lean:

  * every Go integer type is `Int`; wrap-around is explicit (`toU64`, `toI64`, `toU8`, …) and, for functions
    translated in `checked` mode, every signed int/int64 arithmetic result goes through `chk64`, which fails with
    `Err.overflow` outside the int64 range (so a tie theorem `Generated.f … = .ok …` also proves absence of overflow);
  * `string` and `[]byte` are `Bytes = List UInt8`; `[]T` is `List T`; a byte read from a string is an `Int`;
  * Go panics (index / slice out of range, explicit `panic(…)`, negative shift / make) are `Err.panic`;
  * loops and recursion run on an explicit fuel argument; running out is `Err.fuel`.

  Core-only (links into the model drivers, so the generated code itself is executed against the real
  implementation by the correspondence run).
-/
import ModVerif.Basic.Bytes
namespace ModVerif.GoRt
open ModVerif

inductive Err where
  | panic      -- a Go run-time panic or an explicit panic(...)
  | fuel       -- model only: the fuel ran out (the Go loop / recursion would still be running)
  | overflow   -- checked mode only: a signed 64-bit result left the int64 range
  deriving DecidableEq, Repr

abbrev M := Except Err

def Err.toString : Err → String
  | .panic => "panic"
  | .fuel => "hang"
  | .overflow => "overflow"

/-- result of a translated loop whose body contains a `return`: either the function returned `r`,
    or the loop ended normally with the carried variables `s`. -/
inductive Ctl (ρ σ : Type) where
  | ret (r : ρ)
  | next (s : σ)

/-! ### integers -/

def two63 : Int := 9223372036854775808
def two64 : Int := 18446744073709551616

/-- checked mode: a signed 64-bit result must be in range -/
def chk64 (x : Int) : M Int := if -two63 ≤ x ∧ x < two63 then pure x else throw .overflow

/-- conversion to uint64 / uint (wraps) -/
def toU64 (x : Int) : Int := x % two64
/-- conversion to int64 / int (wraps) -/
def toI64 (x : Int) : Int := let y := x % two64; if y < two63 then y else y - two64
def toU8 (x : Int) : Int := x % 256
def toU32 (x : Int) : Int := x % 4294967296
def toI32 (x : Int) : Int := let y := x % 4294967296; if y < 2147483648 then y else y - 4294967296

/-- Go `/` on integers truncates toward zero; division by zero panics -/
def quo (a b : Int) : M Int := if b = 0 then throw .panic else pure (Int.tdiv a b)
/-- Go `%` on integers has the sign of the dividend -/
def rem (a b : Int) : M Int := if b = 0 then throw .panic else pure (Int.tmod a b)

/-- `a << k` on an unbounded integer; a negative count panics (checked mode wraps the result in `chk64`) -/
def shl (a k : Int) : M Int := if k < 0 then throw .panic else pure (a * 2 ^ k.toNat)
/-- `a >> k`: arithmetic shift = floor division -/
def shr (a k : Int) : M Int := if k < 0 then throw .panic else pure (a / 2 ^ k.toNat)

/-- bitwise and / or / xor of two values that are non-negative (uint64, or signed values the code keeps ≥ 0);
    negative signed operands are taken in 64-bit two's complement -/
def band (a b : Int) : Int := Int.ofNat (Nat.land (toU64 a).toNat (toU64 b).toNat)
def bor (a b : Int) : Int := Int.ofNat (Nat.lor (toU64 a).toNat (toU64 b).toNat)
def bxor (a b : Int) : Int := Int.ofNat (Nat.xor (toU64 a).toNat (toU64 b).toNat)
/-- `a &^ b` -/
def bandNot (a b : Int) : Int := Int.ofNat (Nat.land (toU64 a).toNat (Nat.xor (toU64 b).toNat (two64.toNat - 1)))

/-- bits.TrailingZeros64 -/
def tz64Aux : Nat → Nat → Nat
  | 0, _ => 0
  | f + 1, n => if n % 2 == 1 then 0 else 1 + tz64Aux f (n / 2)
def trailingZeros64 (x : Int) : Int :=
  let n := (toU64 x).toNat
  if n == 0 then 64 else Int.ofNat (tz64Aux 64 n)

/-- bits.Len64 -/
def len64 (x : Int) : Int :=
  let n := (toU64 x).toNat
  if n == 0 then 0 else Int.ofNat (n.log2 + 1)

/-! ### strings, byte slices, slices -/

def len {α : Type} (s : List α) : Int := Int.ofNat s.length

def mkByte (x : Int) : UInt8 := UInt8.ofNat (x % 256).toNat

/-- `s[i]` on a string / []byte: the byte as an integer -/
def idx (s : Bytes) (i : Int) : M Int :=
  if i < 0 then throw .panic else
  match s[i.toNat]? with
  | some c => pure (Int.ofNat c.toNat)
  | none => throw .panic

/-- `s[i]` on a slice -/
def idxL {α : Type} (s : List α) (i : Int) : M α :=
  if i < 0 then throw .panic else
  match s[i.toNat]? with
  | some c => pure c
  | none => throw .panic

/-- `s[lo:hi]` -/
def slice {α : Type} (s : List α) (lo hi : Int) : M (List α) :=
  if 0 ≤ lo ∧ lo ≤ hi ∧ hi ≤ len s then pure ((s.take hi.toNat).drop lo.toNat) else throw .panic
/-- `s[lo:]` -/
def sliceFrom {α : Type} (s : List α) (lo : Int) : M (List α) :=
  if 0 ≤ lo ∧ lo ≤ len s then pure (s.drop lo.toNat) else throw .panic
/-- `s[:hi]` -/
def sliceTo {α : Type} (s : List α) (hi : Int) : M (List α) :=
  if 0 ≤ hi ∧ hi ≤ len s then pure (s.take hi.toNat) else throw .panic

/-- `s[i] = x` on a []byte -/
def setIdx (s : Bytes) (i : Int) (x : Int) : M Bytes :=
  if 0 ≤ i ∧ i < len s then pure (s.set i.toNat (mkByte x)) else throw .panic
/-- `s[i] = x` on a slice -/
def setIdxL {α : Type} (s : List α) (i : Int) (x : α) : M (List α) :=
  if 0 ≤ i ∧ i < len s then pure (s.set i.toNat x) else throw .panic

/-- `make([]T, n)` -/
def makeList {α : Type} (n : Int) (zero : α) : M (List α) :=
  if n < 0 then throw .panic else pure (List.replicate n.toNat zero)

/-- string `<` -/
def strLt (a b : Bytes) : Bool := bytesLt a b

/-! ### package strings / bytes (the functions the translated code calls) -/

def hasPrefix (s p : Bytes) : Bool := isPrefixOfB p s
def hasSuffix (s p : Bytes) : Bool := hasSuffixB s p

/-- strings.IndexByte -/
def indexByteAux (c : UInt8) : Bytes → Nat → Int
  | [], _ => -1
  | x :: xs, k => if x == c then Int.ofNat k else indexByteAux c xs (k + 1)
def indexByte (s : Bytes) (c : Int) : Int := indexByteAux (mkByte c) s 0

/-- strings.LastIndexByte -/
def lastIndexByteAux (c : UInt8) : Bytes → Nat → Int → Int
  | [], _, acc => acc
  | x :: xs, k, acc => lastIndexByteAux c xs (k + 1) (if x == c then Int.ofNat k else acc)
def lastIndexByte (s : Bytes) (c : Int) : Int := lastIndexByteAux (mkByte c) s 0 (-1)

/-- strings.Index (first occurrence of a substring; "" is found at 0) -/
def indexAux (sub : Bytes) : Bytes → Nat → Int
  | [], k => if sub.isEmpty then Int.ofNat k else -1
  | x :: xs, k => if isPrefixOfB sub (x :: xs) then Int.ofNat k else indexAux sub xs (k + 1)
def index (s sub : Bytes) : Int := indexAux sub s 0

/-- strings.LastIndex -/
def lastIndexAux (sub : Bytes) : Bytes → Nat → Int → Int
  | [], k, acc => if sub.isEmpty then Int.ofNat k else acc
  | x :: xs, k, acc => lastIndexAux sub xs (k + 1) (if isPrefixOfB sub (x :: xs) then Int.ofNat k else acc)
def lastIndex (s sub : Bytes) : Int := lastIndexAux sub s 0 (-1)

def contains (s sub : Bytes) : Bool := decide (0 ≤ index s sub)

/-- strings.TrimPrefix / TrimSuffix -/
def trimPrefix (s p : Bytes) : Bytes := if isPrefixOfB p s then s.drop p.length else s
def trimSuffix (s p : Bytes) : Bytes := if hasSuffixB s p then s.take (s.length - p.length) else s

/-- strings.Count with a non-empty separator -/
def countAux (sub : Bytes) : Nat → Bytes → Nat
  | 0, _ => 0
  | _ + 1, [] => 0
  | f + 1, x :: xs =>
    if isPrefixOfB sub (x :: xs) then 1 + countAux sub f ((x :: xs).drop sub.length) else countAux sub f xs
def count (s sub : Bytes) : Int :=
  if sub.isEmpty then Int.ofNat (s.length + 1) else Int.ofNat (countAux sub (s.length + 1) s)

/-- strings.Cut -/
def cut (s sep : Bytes) : Bytes × Bytes × Bool :=
  let i := index s sep
  if i < 0 then (s, [], false) else (s.take i.toNat, s.drop (i.toNat + sep.length), true)

/-- strings.Repeat (a negative count panics) -/
def repeatB (s : Bytes) (n : Int) : M Bytes :=
  if n < 0 then throw .panic else pure ((List.replicate n.toNat s).flatten)

/-! ### decimal formatting (strconv.Itoa / FormatInt base 10, fmt %d) -/

def digitsAux : Nat → Nat → List UInt8 → List UInt8
  | 0, _, acc => acc
  | f + 1, n, acc => if n < 10 then UInt8.ofNat (48 + n) :: acc else digitsAux f (n / 10) (UInt8.ofNat (48 + n % 10) :: acc)
def natDigits (n : Nat) : Bytes := digitsAux (n + 1) n []
def itoa (x : Int) : Bytes := if x < 0 then 45 :: natDigits (-x).toNat else natDigits x.toNat

/-- zero-padded decimal of a non-negative number (`%03d`, `%02d`, …); negative numbers as Go prints them -/
def padDec (width : Nat) (x : Int) : Bytes :=
  if x < 0 then
    let d := natDigits (-x).toNat
    45 :: (List.replicate (width - 1 - d.length) 48 ++ d)
  else
    let d := natDigits x.toNat
    List.replicate (width - d.length) 48 ++ d

end ModVerif.GoRt

namespace ModVerif.GoRt
open ModVerif

/-! ### maps as association lists (`map[K]V`; iteration order is never observed by translated code) -/

def mapGet {κ ν : Type} [DecidableEq κ] (m : List (κ × ν)) (k : κ) (zero : ν) : ν × Bool :=
  match m.find? (fun p => decide (p.1 = k)) with
  | some p => (p.2, true)
  | none => (zero, false)

def mapSet {κ ν : Type} [DecidableEq κ] (m : List (κ × ν)) (k : κ) (v : ν) : List (κ × ν) :=
  if (m.find? (fun p => decide (p.1 = k))).isSome then m.map (fun p => if p.1 = k then (k, v) else p) else m ++ [(k, v)]

/-! ### strings.Split / strings.Join with a one-byte or longer separator (non-empty), strconv.Atoi, copy -/

def splitAux (sep : Bytes) : Nat → Bytes → Bytes → List Bytes
  | 0, _, cur => [cur.reverse]
  | _ + 1, [], cur => [cur.reverse]
  | f + 1, x :: xs, cur =>
    if isPrefixOfB sep (x :: xs) then cur.reverse :: splitAux sep f ((x :: xs).drop sep.length) []
    else splitAux sep f xs (x :: cur)
/-- strings.Split for a non-empty separator (the translated code never splits on "") -/
def split (s sep : Bytes) : List Bytes := splitAux sep (s.length + 1) s []

def join (l : List Bytes) (sep : Bytes) : Bytes := joinWith sep l

def atoiDigits : Bytes → Nat → Option Nat
  | [], acc => some acc
  | c :: cs, acc => if 48 ≤ c ∧ c ≤ 57 then atoiDigits cs (acc * 10 + (c.toNat - 48)) else none

/-- strconv.Atoi: optional sign, at least one decimal digit, nothing else, value in the int64 range;
    returns (value, error) with value 0 on a syntax error (the translated code never uses the value then) -/
def atoi (s : Bytes) : Int × Option String :=
  let (neg, ds) := match s with
    | 43 :: r => (false, r)
    | 45 :: r => (true, r)
    | _ => (false, s)
  if ds.isEmpty then (0, some "strconv.Atoi: syntax") else
  match atoiDigits ds 0 with
  | none => (0, some "strconv.Atoi: syntax")
  | some n =>
    let v : Int := if neg then -(Int.ofNat n) else Int.ofNat n
    if v < -two63 then (-two63, some "strconv.Atoi: range")
    else if v ≥ two63 then (two63 - 1, some "strconv.Atoi: range")
    else (v, none)

/-- `copy(dst[lo:], src)` on byte slices: overwrites min(len(dst)-lo, len(src)) bytes -/
def copyAt (dst : Bytes) (lo : Int) (src : Bytes) : M Bytes :=
  if lo < 0 ∨ lo > len dst then throw .panic else
  let k := lo.toNat
  let n := min (dst.length - k) src.length
  pure (dst.take k ++ src.take n ++ dst.drop (k + n))

end ModVerif.GoRt

namespace ModVerif.GoRt
/-- an error value that wraps an inner error (`&T{…, Err: err}`, `fmt.Errorf("…%v", err)`): outer name, `|`, inner text -/
def wrapErr (name : String) (inner : Option String) : Option String := some (name ++ "|" ++ inner.getD "")
end ModVerif.GoRt

namespace ModVerif.GoRt
open ModVerif

/-- strconv.ParseInt(s, 10, 64): same syntax and range as `atoi` on a 64-bit platform -/
def parseInt (s : Bytes) (base bits : Int) : Int × Option String :=
  if base = 10 ∧ bits = 64 then atoi s else (0, some "strconv.ParseInt: unsupported base or size")

/-- strconv.FormatInt(n, 10) -/
def formatInt (n base : Int) : Bytes := if base = 10 then itoa n else []

/-- strings.SplitN(s, sep, n) for n > 0 and a non-empty separator: at most n pieces, the last one unsplit -/
def splitNAux (sep : Bytes) : Nat → Nat → Bytes → Bytes → List Bytes
  | 0, _, rest, cur => [cur.reverse ++ rest]
  | _ + 1, 0, rest, cur => [cur.reverse ++ rest]
  | _ + 1, _ + 1, [], cur => [cur.reverse]
  | f + 1, k + 1, x :: xs, cur =>
    if k = 0 then [cur.reverse ++ (x :: xs)]
    else if isPrefixOfB sep (x :: xs) then cur.reverse :: splitNAux sep f k ((x :: xs).drop sep.length) []
    else splitNAux sep f (k + 1) xs (x :: cur)
def splitN (s sep : Bytes) (n : Int) : List Bytes :=
  if n ≤ 0 then (if n = 0 then [] else split s sep) else splitNAux sep (s.length + 1) n.toNat s []

def bytesEq (a b : Bytes) : Bool := decide (a = b)

end ModVerif.GoRt
