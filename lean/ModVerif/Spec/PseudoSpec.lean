/-
  Specification vocabulary for C18 (pseudo-versions), independent of pseudo.go:
  what a decimal number, a time stamp and a revision are.
-/
import ModVerif.Basic.Bytes
namespace ModVerif.PseudoSpec
open ModVerif

def isDigit (c : UInt8) : Bool := 48 ≤ c && c ≤ 57
def isAlnum (c : UInt8) : Bool := (65 ≤ c && c ≤ 90) || (97 ≤ c && c ≤ 122) || (48 ≤ c && c ≤ 57)

/-- value of a digit string, most significant digit first -/
def decValue : Bytes → Nat
  | [] => 0
  | c :: cs => (c.toNat - 48) * 10 ^ cs.length + decValue cs

/-- a decimal number as SemVer writes it: non-empty, digits only, no leading zero except "0" itself -/
def Num (d : Bytes) : Prop := d ≠ [] ∧ (∀ c ∈ d, isDigit c = true) ∧ (d = [48] ∨ d.head? ≠ some 48)

/-- a `20060102150405` time stamp: exactly fourteen digits -/
def Ts (ts : Bytes) : Prop := ts.length = 14 ∧ ∀ c ∈ ts, isDigit c = true

/-- a revision identifier: non-empty, letters and digits only -/
def Rev (rev : Bytes) : Prop := rev ≠ [] ∧ ∀ c ∈ rev, isAlnum c = true

/-- the `major` argument of PseudoVersion: "" (meaning v0) or "v" and a number -/
def MajorArg (major : Bytes) : Prop := major = [] ∨ ∃ m, Num m ∧ major = 118 :: m

/-- lexicographic order on six-field civil times -/
def civilLt (a b : Nat × Nat × Nat × Nat × Nat × Nat) : Prop :=
  a.1 < b.1 ∨ a.1 = b.1 ∧ (a.2.1 < b.2.1 ∨ a.2.1 = b.2.1 ∧ (a.2.2.1 < b.2.2.1 ∨ a.2.2.1 = b.2.2.1 ∧
    (a.2.2.2.1 < b.2.2.2.1 ∨ a.2.2.2.1 = b.2.2.2.1 ∧ (a.2.2.2.2.1 < b.2.2.2.2.1 ∨ a.2.2.2.2.1 = b.2.2.2.2.1 ∧
      a.2.2.2.2.2 < b.2.2.2.2.2))))

instance (d : Bytes) : Decidable (Num d) := by unfold Num; infer_instance
instance (ts : Bytes) : Decidable (Ts ts) := by unfold Ts; infer_instance
instance (rev : Bytes) : Decidable (Rev rev) := by unfold Rev; infer_instance
instance (a b : Nat × Nat × Nat × Nat × Nat × Nat) : Decidable (civilLt a b) := by unfold civilLt; infer_instance

end ModVerif.PseudoSpec
