/-
  Specification vocabulary for C07 (signed notes), independent of the loop structure of `Open`.
-/
import ModVerif.Model.Note
namespace ModVerif.Note
open ModVerif ModVerif.B64

/-- `s` is a signature that key-lookup and the key's verifier accept over `text`:
    the key is known under exactly the signature's (name, hash), the base64 payload decodes to
    hash ‖ sig, and the verifier of that key accepts `sig` over `text`. -/
def Verified (known : Verifiers) (text : Bytes) (s : Signature) : Prop :=
  ∃ k raw, known s.name s.hash = .found k ∧ k.name = s.name ∧ k.hash = s.hash ∧
    b64dec s.base64 = some raw ∧ 5 ≤ raw.length ∧ be32 raw = some s.hash ∧
    k.verify text (raw.drop 4) = true

/-- the signature line "— name base64" (without the newline) -/
def lineOf (s : Signature) : Bytes := sigPrefix ++ s.name ++ [32] ++ s.base64

/-- keep the first element for every key not in `seen` (Go: `if seen[k] { continue }; seen[k] = true`) -/
def dedupFrom {α κ : Type} [DecidableEq κ] (key : α → κ) : List κ → List α → List α
  | _, [] => []
  | seen, a :: rest =>
    if key a ∈ seen then dedupFrom key seen rest else a :: dedupFrom key (key a :: seen) rest

def isKnown (known : Verifiers) (p : SigLine) : Bool :=
  match known p.name p.hash with
  | .found _ => true
  | _ => false

def isUnknown (known : Verifiers) (p : SigLine) : Bool :=
  match known p.name p.hash with
  | .unknown => true
  | _ => false

/-- all lines are well-formed signature lines -/
def parseAll : List Bytes → Option (List SigLine)
  | [] => some []
  | l :: ls =>
    match parseSigLine l, parseAll ls with
    | some p, some ps => some (p :: ps)
    | _, _ => none

/-- the signature a signer contributes to `Sign` over text `t` (`none` if its Sign fails) -/
def sigOfSigner (t : Bytes) (s : Signer) : Option Signature :=
  (s.sign t).map fun x => ⟨s.name, s.hash, b64enc (putU32 s.hash ++ x)⟩

def sigKnown (known : Verifiers) (g : Signature) : Bool :=
  match known g.name g.hash with
  | .found _ => true
  | _ => false

def sigUnknown (known : Verifiers) (g : Signature) : Bool :=
  match known g.name g.hash with
  | .unknown => true
  | _ => false

/-- the signature block: one line "— name base64\n" per signature -/
def blockOf (gs : List Signature) : Bytes := gs.flatMap fun g => lineOf g ++ [10]

/-- valid note text: UTF-8, no ASCII control character other than newline, ends in newline -/
def ValidText (t : Bytes) : Prop := validMsg t = true ∧ t.getLast? = some 10

end ModVerif.Note
