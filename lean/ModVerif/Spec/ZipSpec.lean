/-
  Specification vocabulary for the zip properties (C17, C05, C12), independent of the control flow of
  the model: what it means for a path to be under a directory, what the parameters must satisfy, the
  documented vendoring rule, honest sizes.  Core-only.
-/
import ModVerif.Model.Zip
namespace ModVerif.ZipSpec
open ModVerif ModVerif.PathClean ModVerif.Zip

/-- all paths a report mentions: valid, then omitted, then invalid. -/
def reported (cf : CheckedFiles) : List Bytes :=
  cf.valid ++ cf.omitted.map (·.1) ++ cf.invalid.map (·.1)

/-- a path element that `path.Clean` keeps as it is -/
def NormalElem (c : Bytes) : Prop := c ≠ [] ∧ c ≠ [46] ∧ c ≠ [46, 46] ∧ (47 : UInt8) ∉ c

/-- what the theorems need from `module.CheckFilePath`: an accepted path is a non-empty sequence of
    non-empty elements none of which is `.` or `..` (CheckFilePath rejects empty elements and elements
    made only of dots). -/
def CfpSound (cfp : Bytes → Bool) : Prop :=
  ∀ p, cfp p = true → ∀ c ∈ splitOn 47 p, c ≠ [] ∧ c ≠ [46] ∧ c ≠ [46, 46]

/-- `p` lies in the directory `d` (or is `d`): after `path.Clean`, the elements of `d` are a prefix of
    the elements of `p`, both are rooted or both are not, and none of the remaining elements is `..`. -/
def IsUnder (d p : Bytes) : Prop :=
  isRooted p = isRooted d ∧ ∃ rest : List Bytes, comps p = comps d ++ rest ∧ ([46, 46] : Bytes) ∉ rest

/-- the path of an entry relative to the module prefix -/
def relName (pfx : Bytes) (e : Entry) : Bytes := e.name.drop pfx.length

/-- the content of every regular file has the size the file reports -/
def HonestFiles (files : List FileInfo) : Prop :=
  ∀ f ∈ files, f.mode = .regular → (f.content.length : Int) = f.size

/-- the content of every entry has the declared size -/
def HonestEntries (es : List Entry) : Prop := ∀ e ∈ es, e.content.length = e.declSize

/-- The documented vendoring rule for go ≥ 1.24: `vendor/modules.txt`, or a file in a package below a
    `vendor` directory: `<pre>vendor/<rest>` with `<pre>` empty or ending in a slash and a slash in
    `<rest>` (the package part). -/
def Vendored124 (name : Bytes) : Prop :=
  name = vendorModulesTxt ∨
  ∃ pre rest, name = pre ++ vendorSlash ++ rest ∧ (pre = [] ∨ pre.getLast? = some 47) ∧ (47 : UInt8) ∈ rest

/-- The rule as implemented before go 1.24 (golang.org/issue/37397): below a top-level `vendor/` as
    above; for an interior `/vendor/` the package part is taken to start at byte 8 of the name,
    wherever the `/vendor/` is. -/
def VendoredPre124 (name : Bytes) : Prop :=
  (vendorSlash <+: name ∧ (47 : UInt8) ∈ name.drop 7) ∨
  (¬ vendorSlash <+: name ∧ (∃ pre rest, name = pre ++ slashVendorSlash ++ rest) ∧ (47 : UInt8) ∈ name.drop 8)

/-- the module roots a file list declares: directories (with trailing slash) holding a regular file
    named `go.mod` in any case. -/
def IsModuleDir (files : List FileInfo) (d : Bytes) : Prop :=
  ∃ g ∈ files, g.mode = .regular ∧ equalFoldGoMod (pathSplit g.path).2 = true ∧ (pathSplit g.path).1 = d

end ModVerif.ZipSpec
