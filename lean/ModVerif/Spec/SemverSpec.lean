/-
  Independent specification of the version grammar documented in semver.go and SemVer 2.0.0
  (no reference to `parse`):

    vMAJOR[.MINOR[.PATCH[-PRERELEASE][+BUILD]]]

  numbers: decimal, no leading zeros; prerelease / build: non-empty dot-separated identifiers over
  [0-9A-Za-z-], numeric prerelease identifiers without leading zeros; shortened forms carry no
  prerelease or build.
-/
import ModVerif.Basic.Bytes
namespace ModVerif.SemverSpec
open ModVerif

def isDigit (c : UInt8) : Bool := 48 ≤ c && c ≤ 57
def isIdentChar (c : UInt8) : Bool :=
  (65 ≤ c && c ≤ 90) || (97 ≤ c && c ≤ 122) || (48 ≤ c && c ≤ 57) || c == 45

/-- a decimal number without leading zeros -/
def Num (x : Bytes) : Prop :=
  x ≠ [] ∧ x.all isDigit = true ∧ (x.head? = some 48 → x.length = 1)

/-- a build identifier: non-empty, identifier characters only -/
def Ident (s : Bytes) : Prop := s ≠ [] ∧ s.all isIdentChar = true

/-- a prerelease identifier: an identifier that, if numeric, has no leading zero -/
def PreIdent (s : Bytes) : Prop :=
  Ident s ∧ ¬ (s.all isDigit = true ∧ s.length > 1 ∧ s.head? = some 48)

def joinDots : List Bytes → Bytes
  | [] => []
  | [x] => x
  | x :: y :: rest => x ++ 46 :: joinDots (y :: rest)

/-- `-id.id…` or nothing -/
def PreOpt (pre : Bytes) : Prop :=
  pre = [] ∨ ∃ ids : List Bytes, ids ≠ [] ∧ (∀ i ∈ ids, PreIdent i) ∧ pre = 45 :: joinDots ids

/-- `+id.id…` or nothing -/
def BuildOpt (bld : Bytes) : Prop :=
  bld = [] ∨ ∃ ids : List Bytes, ids ≠ [] ∧ (∀ i ∈ ids, Ident i) ∧ bld = 43 :: joinDots ids

/-- the documented grammar -/
def Valid (v : Bytes) : Prop :=
  ∃ maj, Num maj ∧
    (v = 118 :: maj ∨
     ∃ min, Num min ∧
       (v = 118 :: maj ++ 46 :: min ∨
        ∃ pat pre bld, Num pat ∧ PreOpt pre ∧ BuildOpt bld ∧
          v = 118 :: maj ++ 46 :: min ++ 46 :: pat ++ pre ++ bld))

end ModVerif.SemverSpec
