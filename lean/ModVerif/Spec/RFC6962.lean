/-
  Independent specification for C09 / C03 / C10: RFC 6962 §2.1 Merkle tree hash, §2.1.1 audit paths,
  §2.1.2 consistency proofs (recursive definitions, transcribed from the RFC text), the stored-hash
  layout of DESIGN §6 C09, acceptance as root recomputation along the RFC recursion, and the iterative
  verification algorithms of RFC 9162 §2.1.3.2 / §2.1.4.2.

  Nothing here refers to the model (`ModVerif.Tlog`); in particular the split point is computed with
  `Nat.log2`, not with the model's `maxpow2`.  Generic in the hash type; `D` is the list of LEAF HASHES
  (`MTH({d}) = leaf d` is applied by the caller: `D = records.map leaf`).
-/
import ModVerif.Basic.Bytes
namespace ModVerif.RFC6962

/-- "let k be the largest power of two smaller than n" (n ≥ 2) -/
def splitPoint (n : Nat) : Nat := 2 ^ (n - 1).log2

section
variable {H : Type}

/-- MTH; fuel = length of the list. `empty` = hash of the empty list. -/
def mthF (node : H → H → H) (empty : H) : Nat → List H → H
  | _, [] => empty
  | _, [h] => h
  | 0, _ => empty
  | f + 1, D =>
    let k := splitPoint D.length
    node (mthF node empty f (D.take k)) (mthF node empty f (D.drop k))

def mth (node : H → H → H) (empty : H) (D : List H) : H := mthF node empty D.length D

/-- PATH(m, D[n]) -/
def pathF (node : H → H → H) (empty : H) : Nat → Nat → List H → List H
  | 0, _, _ => []
  | f + 1, m, D =>
    if D.length ≤ 1 then []
    else
      let k := splitPoint D.length
      if m < k then pathF node empty f m (D.take k) ++ [mth node empty (D.drop k)]
      else pathF node empty f (m - k) (D.drop k) ++ [mth node empty (D.take k)]

def path (node : H → H → H) (empty : H) (m : Nat) (D : List H) : List H := pathF node empty D.length m D

/-- SUBPROOF(m, D[n], b) -/
def subProofF (node : H → H → H) (empty : H) : Nat → Nat → List H → Bool → List H
  | 0, _, _, _ => []
  | f + 1, m, D, b =>
    if m = D.length then (if b then [] else [mth node empty D])
    else
      let k := splitPoint D.length
      if m ≤ k then subProofF node empty f m (D.take k) b ++ [mth node empty (D.drop k)]
      else subProofF node empty f (m - k) (D.drop k) false ++ [mth node empty (D.take k)]

/-- PROOF(m, D[n]) = SUBPROOF(m, D[n], true), 0 < m ≤ n -/
def proof (node : H → H → H) (empty : H) (m : Nat) (D : List H) : List H :=
  subProofF node empty (D.length + 1) m D true

/-! ### acceptance = root recomputation along the RFC recursion (proof consumed exactly) -/

/-- the root implied by audit path `p` (leaf-to-root order) for leaf `m` of a tree of `n` leaves -/
def inclRootF (node : H → H → H) : Nat → List H → Nat → Nat → H → Option H
  | 0, _, _, _, _ => none
  | f + 1, p, n, m, leafHash =>
    if n ≤ 1 then (if p.isEmpty then some leafHash else none)
    else
      match p.getLast? with
      | none => none
      | some last =>
        let k := splitPoint n
        if m < k then (inclRootF node f p.dropLast k m leafHash).map (node · last)
        else (inclRootF node f p.dropLast (n - k) (m - k) leafHash).map (node last ·)

/-- AcceptIncl p t n h root -/
def AcceptIncl [DecidableEq H] (node : H → H → H) (p : List H) (t n : Nat) (h root : H) : Prop :=
  n < t ∧ inclRootF node t p t n h = some root

instance [DecidableEq H] (node : H → H → H) (p : List H) (t n : Nat) (h root : H) :
    Decidable (AcceptIncl node p t n h root) := by unfold AcceptIncl; infer_instance

/-- (old root, new root) implied by consistency proof `p` for sizes `m ≤ n`; `b` as in SUBPROOF -/
def consRootsF (node : H → H → H) : Nat → List H → Nat → Nat → Bool → H → Option (H × H)
  | 0, _, _, _, _, _ => none
  | f + 1, p, n, m, b, old =>
    if m = n then
      if b then (if p.isEmpty then some (old, old) else none)
      else match p with
        | [x] => some (x, x)
        | _ => none
    else
      match p.getLast? with
      | none => none
      | some last =>
        let k := splitPoint n
        if m ≤ k then (consRootsF node f p.dropLast k m b old).map fun (o, t) => (o, node t last)
        else (consRootsF node f p.dropLast (n - k) (m - k) false old).map fun (o, t) => (node last o, node last t)

/-- AcceptCons p t n h root: tree `n` with hash `h` is a prefix of tree `t` with hash `root` -/
def AcceptCons [DecidableEq H] (node : H → H → H) (p : List H) (t n : Nat) (h root : H) : Prop :=
  1 ≤ n ∧ n ≤ t ∧ consRootsF node t p t n true h = some (h, root)

instance [DecidableEq H] (node : H → H → H) (p : List H) (t n : Nat) (h root : H) :
    Decidable (AcceptCons node p t n h root) := by unfold AcceptCons; infer_instance

/-! ### RFC 9162 iterative verification -/

/-- "right-shift both fn and sn equally until either LSB(fn) is set or fn is 0" -/
def shiftUntil : Nat → Nat → Nat → Nat × Nat
  | 0, fn, sn => (fn, sn)
  | f + 1, fn, sn => if fn % 2 = 1 ∨ fn = 0 then (fn, sn) else shiftUntil f (fn / 2) (sn / 2)

/-- RFC 9162 §2.1.3.2 steps 4–5 -/
def inclLoop [DecidableEq H] (node : H → H → H) : List H → Nat → Nat → H → Option (Nat × H)
  | [], _, sn, r => some (sn, r)
  | p :: ps, fn, sn, r =>
    if sn = 0 then none
    else if fn % 2 = 1 ∨ fn = sn then
      let (fn', sn') := if fn % 2 = 0 then shiftUntil fn fn sn else (fn, sn)
      inclLoop node ps (fn' / 2) (sn' / 2) (node p r)
    else inclLoop node ps (fn / 2) (sn / 2) (node r p)

/-- RFC 9162 §2.1.3.2: verify an inclusion proof -/
def verifyInclusion [DecidableEq H] (node : H → H → H) (p : List H) (treeSize leafIndex : Nat) (h root : H) : Bool :=
  if leafIndex ≥ treeSize then false
  else match inclLoop node p leafIndex (treeSize - 1) h with
    | some (sn, r) => sn = 0 ∧ r = root
    | none => false

/-- "right-shift both fn and sn equally until LSB(fn) is not set" -/
def shiftWhileOdd : Nat → Nat → Nat → Nat × Nat
  | 0, fn, sn => (fn, sn)
  | f + 1, fn, sn => if fn % 2 = 1 then shiftWhileOdd f (fn / 2) (sn / 2) else (fn, sn)

/-- RFC 9162 §2.1.4.2 step 6 -/
def consLoop [DecidableEq H] (node : H → H → H) : List H → Nat → Nat → H → H → Option (Nat × H × H)
  | [], _, sn, fr, sr => some (sn, fr, sr)
  | c :: cs, fn, sn, fr, sr =>
    if sn = 0 then none
    else if fn % 2 = 1 ∨ fn = sn then
      let (fn', sn') := if fn % 2 = 0 then shiftUntil fn fn sn else (fn, sn)
      consLoop node cs (fn' / 2) (sn' / 2) (node c fr) (node c sr)
    else consLoop node cs (fn / 2) (sn / 2) fr (node sr c)

/-- RFC 9162 §2.1.4.2: verify consistency between `first < second` -/
def verifyConsistency [DecidableEq H] (node : H → H → H) (p : List H) (first second : Nat) (firstHash secondHash : H) : Bool :=
  if p.isEmpty then false
  else
    let p := if first = 2 ^ first.log2 then firstHash :: p else p
    let (fn, sn) := shiftWhileOdd first (first - 1) (second - 1)
    match p with
    | [] => false
    | x :: rest =>
      match consLoop node rest fn sn x x with
      | some (sn, fr, sr) => fr = firstHash ∧ sr = secondHash ∧ sn = 0
      | none => false

end

/-! ### stored-hash layout (DESIGN §6 C09) -/

/-- trailing zeros of a positive number (0 for 0) -/
def tzF : Nat → Nat → Nat
  | 0, _ => 0
  | f + 1, n => if n % 2 = 0 ∧ n ≠ 0 then 1 + tzF f (n / 2) else 0

def tz (n : Nat) : Nat := tzF n n

/-- the hashes written when record `i` is appended: levels `0 .. tz (i+1)` -/
def layoutRec (i : Nat) : List (Nat × Nat) :=
  (List.range (tz (i + 1) + 1)).map fun l => (l, i >>> l)

/-- the dense store of a log of `n` records, as (level, offset) coordinates in storage order -/
def layout (n : Nat) : List (Nat × Nat) := (List.range n).flatMap layoutRec

/-- the leaves under coordinate `(l, k)`: records `[k·2^l, (k+1)·2^l)` -/
def leavesOf {α : Type} (D : List α) (l k : Nat) : List α := (D.drop (k * 2 ^ l)).take (2 ^ l)

end ModVerif.RFC6962
