/-
  Independent specification of the documented path rules of golang.org/x/mod/module
  (doc comments of CheckPath, CheckImportPath, CheckFilePath, SplitPathVersion, Check, CheckPathMajor,
  MatchPrefixPatterns).  Nothing here refers to the model's functions (Model/Module.lean); it uses only
  byte-list basics (`splitOn`, `joinWith`), the UTF-8 layer and semver accessors.
  `isLetter` stands for unicode.IsLetter, `glob` for path.Match.
-/
import ModVerif.Basic.Bytes
import ModVerif.Basic.Utf8
import ModVerif.Model.Semver
namespace ModVerif.PathSpec
open ModVerif

inductive Kind where
  | module | import_ | file
  deriving DecidableEq

def isAsciiLetter (r : Nat) : Prop := (65 ≤ r ∧ r ≤ 90) ∨ (97 ≤ r ∧ r ≤ 122)
def isAsciiDigit (r : Nat) : Prop := 48 ≤ r ∧ r ≤ 57

/-- "ASCII letters, ASCII digits, and limited ASCII punctuation: - . _ and ~" -/
def ModChar (r : Nat) : Prop := isAsciiLetter r ∨ isAsciiDigit r ∨ r = 45 ∨ r = 46 ∨ r = 95 ∨ r = 126

/-- import paths additionally allow '+' -/
def ImportChar (r : Nat) : Prop := ModChar r ∨ r = 43

/-- "all Unicode letters, ASCII digits, the ASCII space character (U+0020), and the ASCII punctuation
    characters !#$%&()+,-.=@[]^_{}~" -/
def FileChar (isLetter : Nat → Bool) (r : Nat) : Prop :=
  (r < 128 ∧ (isAsciiLetter r ∨ isAsciiDigit r ∨ r = 32 ∨
     r ∈ [33, 35, 36, 37, 38, 40, 41, 43, 44, 45, 46, 61, 64, 91, 93, 94, 95, 123, 125, 126])) ∨
  (128 ≤ r ∧ isLetter r = true)

def CharOK (isLetter : Nat → Bool) : Kind → Nat → Prop
  | .module => ModChar
  | .import_ => ImportChar
  | .file => FileChar isLetter

/-- the reserved file names on Windows (upper case) -/
def reserved : List Bytes :=
  [B "CON", B "PRN", B "AUX", B "NUL"] ++
  ([49, 50, 51, 52, 53, 54, 55, 56, 57].map fun d => B "COM" ++ [d]) ++
  ([49, 50, 51, 52, 53, 54, 55, 56, 57].map fun d => B "LPT" ++ [d])

def upperAscii (c : UInt8) : UInt8 := if 97 ≤ c.toNat ∧ c.toNat ≤ 122 then UInt8.ofNat (c.toNat - 32) else c

/-- "the element prefix up to the first dot" -/
def beforeFirstDot (e : Bytes) : Bytes := (splitOn 46 e).headD []

/-- "a suffix of a tilde followed by one or more ASCII digits" -/
def EndsInTildeDigits (s : Bytes) : Prop :=
  ∃ pre ds, s = pre ++ 126 :: ds ∧ ds ≠ [] ∧ ∀ d ∈ ds, isAsciiDigit d.toNat

/-- a valid path element of the given kind -/
def ValidElem (isLetter : Nat → Bool) (kind : Kind) (e : Bytes) : Prop :=
  e ≠ [] ∧
  ¬ (∀ c ∈ e, c = 46) ∧                                        -- not all dots
  (kind = .module → e.head? ≠ some 46) ∧                         -- "no path element may begin with a dot" (module paths)
  e.getLast? ≠ some 46 ∧                                         -- "must not end with a dot"
  (∀ r ∈ Utf8.runes e, CharOK isLetter kind r) ∧                 -- allowed characters
  (∀ w ∈ reserved, (beforeFirstDot e).map upperAscii ≠ w) ∧      -- reserved on Windows, regardless of case
  (kind ≠ .file → ¬ EndsInTildeDigits (beforeFirstDot e))        -- Windows short-names (not for file paths)

/-- a valid path of the given kind: well-formed UTF-8, non-empty, no leading dash (except file paths),
    and every slash-separated element valid (so no leading, trailing or doubled slash) -/
def ValidPath (isLetter : Nat → Bool) (kind : Kind) (p : Bytes) : Prop :=
  Utf8.validString p = true ∧ p ≠ [] ∧ (kind ≠ .file → p.head? ≠ some 45) ∧
  ∀ e ∈ splitOn 47 p, ValidElem isLetter kind e

/-- a decimal number without leading zero -/
def Num (n : Bytes) : Prop :=
  n ≠ [] ∧ (∀ d ∈ n, isAsciiDigit d.toNat) ∧ (n.head? = some 48 → n = [48])

/-- "/vN" with N ≥ 2 -/
def SlashMajor (maj : Bytes) : Prop := ∃ n, maj = 47 :: 118 :: n ∧ Num n ∧ n ≠ [48] ∧ n ≠ [49]

/-- gopkg.in's ".vN" or ".vN-unstable" -/
def GopkgMajor (maj : Bytes) : Prop :=
  ∃ n, Num n ∧ (maj = 46 :: 118 :: n ∨ maj = 46 :: 118 :: (n ++ B "-unstable"))

/-- the documented shape of a major-version suffix -/
def MajorSuffix (p maj : Bytes) : Prop :=
  maj = [] ∨ SlashMajor maj ∨ (isPrefixOfB (B "gopkg.in/") p = true ∧ GopkgMajor maj)

/-- the documented correspondence between a major-version suffix and a semantic version, with the three
    exceptions: "+incompatible" for paths without suffix, "v0.0.0-" pseudo-versions for gopkg.in's ".v1",
    and "-unstable" being ignored. -/
def MajorMatches (maj v : Bytes) : Prop :=
  (maj = [] ∧ (Semver.major v = B "v0" ∨ Semver.major v = B "v1" ∨ Semver.build v = B "+incompatible")) ∨
  (∃ n, maj = 47 :: 118 :: n ∧ Semver.major v = 118 :: n) ∨
  (∃ n, (∀ d ∈ n, isAsciiDigit d.toNat) ∧ (maj = 46 :: 118 :: n ∨ maj = 46 :: 118 :: (n ++ B "-unstable")) ∧
        (Semver.major v = 118 :: n ∨ (n = [49] ∧ isPrefixOfB (B "v0.0.0-") v = true)))

/-- "trailing slashes on patterns are ignored" (one slash) -/
def dropTrailingSlash (g : Bytes) : Bytes := if g.getLast? = some 47 then g.dropLast else g

/-- the first k slash-separated elements of the target, re-joined -/
def firstElems (k : Nat) (target : Bytes) : Bytes := joinWith [47] ((splitOn 47 target).take k)

/-- MatchPrefixPatterns: some non-empty pattern of the comma-separated list, with N slashes, matches
    the first N+1 path elements of the target (which must have that many). -/
def MatchSpec (glob : Bytes → Bytes → Bool) (globs target : Bytes) : Prop :=
  ∃ g ∈ splitOn 44 globs,
    dropTrailingSlash g ≠ [] ∧
    (dropTrailingSlash g).count 47 + 1 ≤ (splitOn 47 target).length ∧
    glob (dropTrailingSlash g) (firstElems ((dropTrailingSlash g).count 47 + 1) target) = true

end ModVerif.PathSpec
