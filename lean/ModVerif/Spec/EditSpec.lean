/-
  EditSpec — the keyed-collection model of a go.mod / go.work file and the abstract step semantics of
  every documented edit operation (DESIGN.md §6 "C08, C15, C16", the step table).  This file is the
  SPECIFICATION the edit model (`Model/Modfile/Edit.lean`) is compared against; it is written from
  the doc comments of modfile/rule.go and modfile/work.go, not from their bodies.

  Collections are lists with duplicates ("first line updated, others removed" needs an order); two
  abstract files are observationally equal when their collections are equal as multisets.
  Core Lean only.
-/
import ModVerif.Basic.Bytes
import ModVerif.Model.Semver
import ModVerif.Model.Module
namespace ModVerif.EditSpec
open ModVerif

/-- a requirement: path, version, indirect marking -/
structure Req where
  path : Bytes
  vers : Bytes
  indirect : Bool := false
  deriving Repr, DecidableEq, Inhabited

/-- a replacement `(oldPath, oldVers) => (newPath, newVers)`; `oldVers = []` is the wildcard form -/
structure Repl where
  oldPath : Bytes
  oldVers : Bytes
  newPath : Bytes
  newVers : Bytes
  deriving Repr, DecidableEq, Inhabited

/-- a retraction `[lo, hi]` with its rationale -/
structure Retr where
  lo : Bytes
  hi : Bytes
  rationale : Bytes
  deriving Repr, DecidableEq, Inhabited

structure AbsFile where
  module : Option Bytes := none
  go : Option Bytes := none
  toolchain : Option Bytes := none
  godebug : List (Bytes × Bytes) := []
  require : List Req := []
  exclude : List (Bytes × Bytes) := []
  replace : List Repl := []
  retract : List Retr := []
  tool : List Bytes := []
  use : List Bytes := []          -- go.work; `ModulePath` is not representable in the file
  deriving Repr, DecidableEq, Inhabited

inductive Op where
  | addModule (path : Bytes)
  | addGo (v : Bytes)
  | dropGo
  | addToolchain (n : Bytes)
  | dropToolchain
  | addGodebug (k v : Bytes)
  | dropGodebug (k : Bytes)
  | addRequire (p v : Bytes)
  | addNewRequire (p v : Bytes) (indirect : Bool)
  | dropRequire (p : Bytes)
  | setRequire (want : List Req)
  | setRequireSeparateIndirect (want : List Req)
  | addExclude (p v : Bytes)
  | dropExclude (p v : Bytes)
  | addReplace (op ov np nv : Bytes)
  | dropReplace (op ov : Bytes)
  | addRetract (lo hi why : Bytes)
  | dropRetract (lo hi : Bytes)
  | addTool (p : Bytes)
  | dropTool (p : Bytes)
  | sortBlocks
  | cleanup
  | addUse (dir modPath : Bytes)
  | addNewUse (dir modPath : Bytes)
  | dropUse (dir : Bytes)
  | setUse (want : List (Bytes × Bytes))
  deriving Repr, DecidableEq, Inhabited

/-- What counts as a valid scalar argument (the operations that can fail check exactly these). -/
structure Validity where
  goVersion : Bytes → Bool
  toolchain : Bytes → Bool
  /-- `version path v`: `v` is a canonical version matching the major version of `path` -/
  version : Bytes → Bytes → Bool

/-! ### list algebra -/

/-- the first element satisfying `m` is replaced by `u`, every later one satisfying `m` is removed -/
def updFirstDropRest {α : Type} (m : α → Bool) (u : α → α) : List α → List α
  | [] => []
  | x :: xs => if m x then u x :: xs.filter (fun y => !m y) else x :: updFirstDropRest m u xs

/-- "set the first, remove the others; none ⇒ append" -/
def setKeyed {α : Type} (m : α → Bool) (u : α → α) (new : α) (l : List α) : List α :=
  if l.any m then updFirstDropRest m u l else l ++ [new]

/-- remove every element satisfying `m` -/
def dropAll {α : Type} (m : α → Bool) (l : List α) : List α := l.filter (fun y => !m y)

/-- later entries win: an element is kept iff no later element has the same key -/
def dedupLast {α κ : Type} [BEq κ] (key : α → κ) : List α → List α
  | [] => []
  | x :: xs => if xs.any (fun y => key y == key x) then dedupLast key xs else x :: dedupLast key xs

/-- earlier entries win -/
def dedupFirst {α κ : Type} [BEq κ] (key : α → κ) (l : List α) : List α :=
  (dedupLast key l.reverse).reverse

/-- the documented de-duplication: exclude and tool — first wins; replace — last wins per `Old`;
    require and retract untouched -/
def removeDups (f : AbsFile) : AbsFile :=
  { f with
    exclude := dedupFirst id f.exclude
    replace := dedupLast (fun r => (r.oldPath, r.oldVers)) f.replace
    tool := dedupFirst id f.tool }

/-- "entries become exactly `want`": the first existing entry of each wanted key is kept in place
    (and takes the wanted value), every other existing entry is removed, missing ones are appended. -/
def setExact {α : Type} (key : α → Bytes) (want : List α) (old : List α) : List α :=
  (dedupFirst key (old.filter fun e => want.any fun w => key w == key e)).filterMap
      (fun e => want.find? fun w => key w == key e)
    ++ want.filter (fun w => !old.any fun e => key e == key w)

/-- trim of ASCII white space as `strings.TrimSpace` does on the comment text -/
def isSpace (c : UInt8) : Bool := c == 32 || c == 9 || c == 10 || c == 13 || c == 11 || c == 12
def trimSpace (s : Bytes) : Bytes := ((s.dropWhile isSpace).reverse.dropWhile isSpace).reverse

/-- the rationale read back from the comment lines written by `AddRetract` -/
def normRationale (why : Bytes) : Bytes :=
  if why.isEmpty then [] else joinWith [10] ((splitOn 10 why).map trimSpace)

/-! ### the step function -/

def replMatch (op ov : Bytes) (r : Repl) : Bool := r.oldPath == op && (ov.isEmpty || r.oldVers == ov)

/-- does the operation succeed (`false` = documented error, file unchanged) -/
def stepOk (V : Validity) (f : AbsFile) : Op → Bool
  | .addGo v => V.goVersion v
  | .addToolchain n => V.toolchain n
  | .addExclude p v => V.version p v
  | .addRetract lo hi _ => V.version (f.module.getD []) hi && V.version (f.module.getD []) lo
  | _ => true

def step (V : Validity) (f : AbsFile) (op : Op) : AbsFile :=
  if !stepOk V f op then f else
  match op with
  | .addModule p => { f with module := some p }
  | .addGo v => { f with go := some v }
  | .dropGo => { f with go := none }
  | .addToolchain n => { f with toolchain := some n }
  | .dropToolchain => { f with toolchain := none }
  | .addGodebug k v => { f with godebug := setKeyed (fun e => e.1 == k) (fun _ => (k, v)) (k, v) f.godebug }
  | .dropGodebug k => { f with godebug := dropAll (fun e => e.1 == k) f.godebug }
  | .addRequire p v =>
      { f with require := setKeyed (fun r => r.path == p) (fun r => { r with vers := v }) ⟨p, v, false⟩ f.require }
  | .addNewRequire p v i => { f with require := f.require ++ [⟨p, v, i⟩] }
  | .dropRequire p => { f with require := dropAll (fun r => r.path == p) f.require }
  | .setRequire want => removeDups { f with require := setExact Req.path want f.require }
  | .setRequireSeparateIndirect want => removeDups { f with require := setExact Req.path want f.require }
  | .addExclude p v => if f.exclude.contains (p, v) then f else { f with exclude := f.exclude ++ [(p, v)] }
  | .dropExclude p v => { f with exclude := dropAll (fun e => e == (p, v)) f.exclude }
  | .addReplace op ov np nv =>
      { f with replace := setKeyed (replMatch op ov) (fun _ => ⟨op, ov, np, nv⟩) ⟨op, ov, np, nv⟩ f.replace }
  | .dropReplace op ov => { f with replace := dropAll (fun r => r.oldPath == op && r.oldVers == ov) f.replace }
  | .addRetract lo hi why => { f with retract := f.retract ++ [⟨lo, hi, normRationale why⟩] }
  | .dropRetract lo hi => { f with retract := dropAll (fun r => r.lo == lo && r.hi == hi) f.retract }
  | .addTool p => if f.tool.contains p then f else removeDups { f with tool := f.tool ++ [p] }
  | .dropTool p => { f with tool := dropAll (fun t => t == p) f.tool }
  | .sortBlocks => removeDups f
  | .cleanup => f
  | .addUse d _ => { f with use := setKeyed (fun u => u == d) id d f.use }
  | .addNewUse d _ => { f with use := f.use ++ [d] }
  | .dropUse d => { f with use := dropAll (fun u => u == d) f.use }
  | .setUse want => removeDups { f with use := setExact id (want.map Prod.fst) f.use }

/-- a whole session; the result list says which operations succeeded -/
def run (V : Validity) (f : AbsFile) (ops : List Op) : AbsFile := ops.foldl (step V) f

def runOk (V : Validity) : AbsFile → List Op → List Bool
  | _, [] => []
  | f, op :: ops => stepOk V f op :: runOk V (step V f op) ops

/-! ### the standard validity (what the Go functions check) -/

def isDigit (c : UInt8) : Bool := 48 ≤ c && c ≤ 57
def isLower (c : UInt8) : Bool := 97 ≤ c && c ≤ 122

/-- `[1-9][0-9]*` or (when `zeroOk`) `0`, as a prefix: the rest after it -/
def numPrefix (zeroOk : Bool) : Bytes → Option Bytes
  | [] => none
  | c :: rest =>
    if c == 48 then (if zeroOk then some rest else none)
    else if isDigit c then some (rest.dropWhile isDigit) else none

/-- `([a-z]+[0-9]+)?$` -/
def goSuffixOK (s : Bytes) : Bool :=
  s.isEmpty ||
    (let a := s.takeWhile isLower
     let r := s.dropWhile isLower
     !a.isEmpty && !r.isEmpty && r.all isDigit)

/-- GoVersionRE: `^([1-9][0-9]*)\.(0|[1-9][0-9]*)(\.(0|[1-9][0-9]*))?([a-z]+[0-9]+)?$` -/
def goVersionOK (s : Bytes) : Bool :=
  match numPrefix false s with
  | some (46 :: r1) =>
    (match numPrefix true r1 with
     | some r2 =>
       (match r2 with
        | 46 :: r3 =>
          (match numPrefix true r3 with
           | some r4 => goSuffixOK r4
           | none => false)
        | _ => goSuffixOK r2)
     | none => false)
  | _ => false

/-- ToolchainRE: `^default$|^go1($|\.)` -/
def toolchainOK (s : Bytes) : Bool :=
  s == B "default" || s == B "go1" || isPrefixOfB (B "go1.") s

/-- checkCanonicalVersion: canonical, and matching the path's major version when the path splits -/
def versionOK (path v : Bytes) : Bool :=
  !v.isEmpty && Semver.canonicalVersion v == v &&
    (let (_, pathMajor, ok) := Module.splitPathVersion path
     !ok || Module.checkPathMajor v pathMajor)

def stdValidity : Validity := ⟨goVersionOK, toolchainOK, versionOK⟩

/-! ### the documented block orders (tokens of a line, without the block's verb) -/

/-- `lineLess`: lexicographic on tokens, a proper prefix first -/
def lineLess : List Bytes → List Bytes → Bool
  | [], [] => false
  | [], _ :: _ => true
  | _ :: _, [] => false
  | a :: as, b :: bs => if a == b then lineLess as bs else bytesLt a b

/-- `lineExcludeLess` on two-token lines: path by string order, version by semver order -/
def lineExcludeLess (li lj : List Bytes) : Bool :=
  match li, lj with
  | [pi, vi], [pj, vj] => if pi == pj then Semver.compare vi vj < 0 else bytesLt pi pj
  | _, _ => lineLess li lj

/-- a retract line as an interval; unknown shapes are the invalid interval -/
def interval : List Bytes → Bytes × Bytes
  | [v] => (v, v)
  | [a, lo, b, hi, c] => if a == B "[" && b == B "," && c == B "]" then (lo, hi) else ([], [])
  | _ => ([], [])

/-- `lineRetractLess`: descending by low, then by high version -/
def lineRetractLess (li lj : List Bytes) : Bool :=
  let (il, ih) := interval li
  let (jl, jh) := interval lj
  let c := Semver.compare il jl
  if c != 0 then c > 0 else Semver.compare ih jh > 0

/-- from go 1.21 exclude blocks use the semantic order (the code's test, on the go version) -/
def useSemanticSortForExclude (go : Option Bytes) : Bool :=
  match go with
  | none => false
  | some v => Semver.compare (118 :: v) (B "v1.21") ≥ 0

/-- stable insertion sort by a `less` function (`sort.SliceStable`): `x`, which stood before all of the
    list, passes exactly the elements that are less than it -/
def insertBy {α : Type} (less : α → α → Bool) (x : α) : List α → List α
  | [] => [x]
  | y :: ys => if less y x then y :: insertBy less x ys else x :: y :: ys

def sortBy {α : Type} (less : α → α → Bool) (l : List α) : List α := l.foldr (insertBy less) []

/-- no adjacent inversion -/
def sortedBy {α : Type} (less : α → α → Bool) : List α → Bool
  | [] => true
  | [_] => true
  | x :: y :: rest => !less y x && sortedBy less (y :: rest)

end ModVerif.EditSpec
