import ModVerif.AuditCmd
import ModVerif.Props.C14
#audit_module ModVerif.Props.C14
