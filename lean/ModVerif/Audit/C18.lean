import ModVerif.AuditCmd
import ModVerif.Props.C18
import ModVerif.Tie.Pseudo
import ModVerif.Tie.FnPseudo
#audit_module ModVerif.Props.C18
#audit_module ModVerif.Tie.Pseudo
#audit_module ModVerif.Tie.FnPseudo
