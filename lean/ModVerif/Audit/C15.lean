import ModVerif.AuditCmd
import ModVerif.Props.C15
#audit_module ModVerif.Props.C15
