import ModVerif.AuditCmd
import ModVerif.Props.C07
import ModVerif.Tie.Note
import ModVerif.Tie.FnNote
#audit_module ModVerif.Props.C07
#audit_module ModVerif.Tie.Note
#audit_module ModVerif.Tie.FnNote
