import ModVerif.AuditCmd
import ModVerif.Props.C16
import ModVerif.Tie.FnModfileCmp
#audit_module ModVerif.Props.C16
#audit_module ModVerif.Tie.FnModfileCmp
