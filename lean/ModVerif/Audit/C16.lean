import ModVerif.AuditCmd
import ModVerif.Props.C16
#audit_module ModVerif.Props.C16
