import ModVerif.AuditCmd
import ModVerif.Props.C10
import ModVerif.Tie.Tlog
import ModVerif.Tie.FnTile
#audit_module ModVerif.Props.C10
#audit_module ModVerif.Tie.Tlog
#audit_module ModVerif.Tie.FnTile
