import ModVerif.AuditCmd
import ModVerif.Props.C09
import ModVerif.Tie.Tlog
import ModVerif.Tie.FnTlogInt
#audit_module ModVerif.Props.C09
#audit_module ModVerif.Tie.Tlog
#audit_module ModVerif.Tie.FnTlogInt
