import ModVerif.AuditCmd
import ModVerif.Props.C03
import ModVerif.Tie.Tlog
import ModVerif.Tie.FnTlogProof
#audit_module ModVerif.Props.C03
#audit_module ModVerif.Tie.Tlog
#audit_module ModVerif.Tie.FnTlogProof
