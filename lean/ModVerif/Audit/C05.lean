import ModVerif.AuditCmd
import ModVerif.Props.C05
import ModVerif.Tie.Zip
import ModVerif.Tie.FnZip
#audit_module ModVerif.Props.C05
#audit_module ModVerif.Tie.Zip
#audit_module ModVerif.Tie.FnZip
