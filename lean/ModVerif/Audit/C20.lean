import ModVerif.AuditCmd
import ModVerif.Props.C20
import ModVerif.Tie.Modfile
import ModVerif.Tie.FnModfile
#audit_module ModVerif.Props.C20
#audit_module ModVerif.Tie.Modfile
#audit_module ModVerif.Tie.FnModfile
