import ModVerif.AuditCmd
import ModVerif.Props.C17
import ModVerif.Tie.Zip
import ModVerif.Tie.FnZip
#audit_module ModVerif.Props.C17
#audit_module ModVerif.Tie.Zip
#audit_module ModVerif.Tie.FnZip
