import ModVerif.AuditCmd
import ModVerif.Props.C12
import ModVerif.Tie.Zip
import ModVerif.Tie.FnZip
#audit_module ModVerif.Props.C12
#audit_module ModVerif.Tie.Zip
#audit_module ModVerif.Tie.FnZip
