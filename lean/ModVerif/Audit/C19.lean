import ModVerif.AuditCmd
import ModVerif.Props.C19
import ModVerif.Tie.Dirhash
#audit_module ModVerif.Props.C19
#audit_module ModVerif.Tie.Dirhash
