import ModVerif.AuditCmd
import ModVerif.Props.C08
#audit_module ModVerif.Props.C08
