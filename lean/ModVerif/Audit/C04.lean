import ModVerif.AuditCmd
import ModVerif.Props.C04
import ModVerif.Tie.Semver
import ModVerif.Tie.FnSemver
#audit_module ModVerif.Props.C04
#audit_module ModVerif.Tie.Semver
#audit_module ModVerif.Tie.FnSemver
