import ModVerif.AuditCmd
import ModVerif.Props.C11
import ModVerif.Tie.Module
import ModVerif.Tie.FnModule
#audit_module ModVerif.Props.C11
#audit_module ModVerif.Tie.Module
#audit_module ModVerif.Tie.FnModule
