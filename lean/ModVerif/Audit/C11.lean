import ModVerif.AuditCmd
import ModVerif.Props.C11
import ModVerif.Tie.Module
#audit_module ModVerif.Props.C11
#audit_module ModVerif.Tie.Module
