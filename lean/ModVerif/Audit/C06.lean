import ModVerif.AuditCmd
import ModVerif.Props.C06
import ModVerif.Tie.Module
import ModVerif.Tie.FnModule
#audit_module ModVerif.Props.C06
#audit_module ModVerif.Tie.Module
#audit_module ModVerif.Tie.FnModule
