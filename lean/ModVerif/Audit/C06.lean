import ModVerif.AuditCmd
import ModVerif.Props.C06
import ModVerif.Tie.Module
#audit_module ModVerif.Props.C06
#audit_module ModVerif.Tie.Module
