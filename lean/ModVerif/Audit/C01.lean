import ModVerif.AuditCmd
import ModVerif.Props.C01
import ModVerif.Tie.FnClientTiles
#audit_module ModVerif.Props.C01
#audit_module ModVerif.Tie.FnClientTiles
