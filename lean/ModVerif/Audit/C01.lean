import ModVerif.AuditCmd
import ModVerif.Model.Client
import ModVerif.Proofs.ClientAuth
import ModVerif.Props.C01
#audit_module ModVerif.Proofs.ClientAuth
#audit_module ModVerif.Props.C01
