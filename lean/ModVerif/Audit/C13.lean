import ModVerif.AuditCmd
import ModVerif.Props.C13
import ModVerif.Tie.FnClientMerge
#audit_module ModVerif.Props.C13
#audit_module ModVerif.Tie.FnClientMerge
