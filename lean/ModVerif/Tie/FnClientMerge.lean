/-
  Tie theorems, sumdb/client.go — the tree-head half of the client: `Client.checkTrees`, `Client.checkRecord`,
  `Client.mergeLatestMem`, `Client.mergeLatest` of the REGENERATED client (`Generated/FnClient.lean`, re-translated from the Go
  source on every check) compute what the hand model (`Model/Client.lean`: `checkTrees` with `securityHead` / `proofLines` /
  `indent`, `checkRecord`, `openTree`, `mergeLatestMem`, `mergeLatestLoop` / `mergeLatest`) says, in corresponding worlds.

  Shape (Proofs/TieFnClientRep.lean): the model world `w` is represented by the generated world `cw` (`RepRun P E w cw`; the
  generated state behind `ClientOps` is the model's state together with the model's effect trace), the generated environment
  is `envOf P E`; a tie says: the generated function returns `.ok (r', cw')` — no Go panic, no fuel exhaustion —, `cw'`
  represents the model's new world (so the two sides performed the SAME external operations with the SAME arguments, in the
  same order: `cw'.s = (w'.s, w'.tr)`), `r'` is the model's result (`RepUnit` / `RepResR`: `nil` against `.ok`, an error text
  whose abstraction `errAbs` is the model's error kind against `.error`), and the frames (`FrameG`/`FrameM`, resp.
  `FrameI`/`FrameJ`) list the fields left alone.

  Hypotheses, all explicit (Proofs/TieFnClientMergeSpec.lean):
  * `S : TileSpecs P E` — the ties of the three reads through tiles this unit calls (`readHashesW`, `treeHashW`,
    `proveTreeW` against `readHashes`, `treeHashVia`, `proveTreeVia`) with their fuel bounds.  They are PROVED below
    (`readHashesW_tie`, `treeHashW_tie`, `proveTreeW_tie`, bundled as `tileSpecs P E h32 h57`) for every `Params` with
    `hashSize = 32` (`tlog.HashSize`) and tile height `≤ 57`, by composing the world-mode ties of Tie/FnTileW.lean /
    Tie/FnTlogW.lean with the ties of the client's tile reader (Tie/FnClientTiles.lean); the `…_inst` corollaries are the
    ties of this unit with no hypothesis about generated code left;
  * fuel: `checkTreesFuel`, `checkRecordFuel`, `memFuel`, `mergeFuel` — explicit functions of those bounds along the
    model's run, of the tree sizes (`CheckTree`, the proof lines) and of the length of the message (`note.Open`);
  * execution hypotheses `CheckTreesOk`, `CheckRecordOk`, `MergeMemOk`, `MergeOk`: tree sizes `< 2^62`; the reads through
    tiles end in a value or in an error that exists in Go (`Normal`: the model-only outcomes `.fuel`, `.panic`,
    `.tlog .panic`, `.tlog .fuel` are a thrown `Err` on the generated side); the `for` loop of `mergeLatest` ends within
    `P.retries` rounds (fuel against retries: see Proofs/TieFnClientMergeLoop.lean); and in the fork branch of
    `checkTrees`, `ProveTree` does not fail.

  THE ONE DIFFERENCE between model and code in what they tell the world (`checkTrees_proveErr_tie`): when a fork is
  detected and `ProveTree` itself fails, the Go code prints `"\tinternal error: %v\n"` with the error's own text, the model
  prints the canonical kind name `Err.name` (the Go harness canonicalises the text the same way before comparing).  In
  every other case the SecurityError message is equal byte for byte: `securityHead` (the `fmt.Fprintf` sequence, with
  `bytes.Replace(…, "\n", "\n\t", -1)` = `indent`) followed by `"\tinternal error: generated inconsistent proof\n"` or by
  the proof lines `proofLines`.
-/
import ModVerif.Generated.FnClient
import ModVerif.Model.Client
import ModVerif.Proofs.TieFnClientMergeLoop
import ModVerif.Proofs.TieFnClientMergeInstTile
namespace ModVerif.Tie.FnClientMerge
open ModVerif ModVerif.GoRt ModVerif.Client ModVerif.Generated.SumdbClient ModVerif.TieFnClientRep
open ModVerif.TieFnClientMerge

section
variable {σ H : Type} [DecidableEq H] [Inhabited H] {P : Params H} {E : Env σ}

/-- ★ `Client.checkTrees(older, olderNote, newer, newerNote)`.  In particular the message handed to `SecurityError`
    (recorded in the trace of both worlds) is the model's `securityHead … ++ tail`, byte for byte. -/
theorem Client_checkTrees_tie (S : TileSpecs P E) (w : World σ H) (cw : GW σ H) (older newer : Head H)
    (olderNote newerNote : Bytes) (fuel : Nat) (hr : RepRun P E w cw) (hok : CheckTreesOk P E w older newer)
    (hf : checkTreesFuel S w older newer ≤ fuel) :
    ∃ r' cw', Client_checkTrees (envOf P E) fuel (headG older) olderNote (headG newer) newerNote cw = .ok (r', cw') ∧
      RepRun P E (checkTrees P E w older olderNote newer newerNote).2 cw' ∧
      RepUnit r' (checkTrees P E w older olderNote newer newerNote).1 ∧
      FrameG cw cw' ∧ FrameM w (checkTrees P E w older olderNote newer newerNote).2 :=
  checkTrees_eq S w cw older newer olderNote newerNote fuel hr hok hf

/-- the loop over the proof in `checkTrees`: `for _, h := range p { fmt.Fprintf(&buf, "\n\t%v", h) }` appends the model's
    `proofLines` -/
theorem Client_checkTrees_loop1_tie (cw : GW σ H) (p : List H) (fuel : Nat) (buf : Bytes) (hf : p.length + 1 ≤ fuel) :
    Client_checkTrees_loop1 (envOf P E) p cw fuel 0 buf = .ok ((p.length : Int), buf ++ proofLines P p) :=
  checkTrees_loop1_tie (envOf P E) P (fun _ => rfl) cw p fuel buf hf

omit [DecidableEq H] [Inhabited H] in
/-- the text of the report up to the recomputed hash: the `fmt.Fprintf` sequence of `checkTrees` IS `securityHead` -/
theorem securityHead_tie (olderNote newerNote : Bytes) (h : H) :
    (((((([] : Bytes) ++ ([83, 69, 67, 85, 82, 73, 84, 89, 32, 69, 82, 82, 79, 82, 10] : Bytes)) ++
      ([103, 111, 46, 115, 117, 109, 32, 100, 97, 116, 97, 98, 97, 115, 101, 32, 115, 101, 114, 118, 101, 114, 32, 109, 105, 115, 98, 101, 104, 97, 118, 105, 111, 114, 32, 100, 101, 116, 101, 99, 116, 101, 100, 33, 10, 10] : Bytes)) ++
      (([111, 108, 100, 32, 100, 97, 116, 97, 98, 97, 115, 101, 58, 10, 9] : Bytes) ++ (replaceAll olderNote ([10] : Bytes) ([10, 9] : Bytes) (-1 : Int)) ++ ([10] : Bytes))) ++
      (([110, 101, 119, 32, 100, 97, 116, 97, 98, 97, 115, 101, 58, 10, 9] : Bytes) ++ (replaceAll newerNote ([10] : Bytes) ([10, 9] : Bytes) (-1 : Int)) ++ ([10] : Bytes))) ++
      (([112, 114, 111, 111, 102, 32, 111, 102, 32, 109, 105, 115, 98, 101, 104, 97, 118, 105, 111, 114, 58, 10, 9] : Bytes) ++ ((envOf P E).hashString h))) =
    securityHead P olderNote newerNote h :=
  securityHead_eq (envOf P E) P (fun _ => rfl) olderNote newerNote h

/-- the branch excluded by `CheckTreesOk` (fork detected, `ProveTree` fails with a normal error `e`): both sides answer
    `ErrSecurity` after ONE `SecurityError` call from corresponding worlds; the texts agree up to and including
    `"\tinternal error: "` and in the final newline, and differ in between — the code prints the error text `txt`
    (`errAbs txt = e`), the model prints `e.name`. -/
theorem checkTrees_proveErr_tie (S : TileSpecs P E) (w : World σ H) (cw : GW σ H) (older newer : Head H)
    (olderNote newerNote : Bytes) (fuel : Nat) (hr : RepRun P E w cw) (ho : older.n < 2 ^ 62) (hn : newer.n < 2 ^ 62)
    (hnorm : Normal (treeHashVia P E w older.n newer).1) (h1 : H)
    (hth : (treeHashVia P E w older.n newer).1 = .ok h1) (hne : h1 ≠ older.hash) (e : Client.Err)
    (hpe : (proveTreeVia P E (treeHashVia P E w older.n newer).2 newer.n older.n newer).1 = .error e)
    (hab : ¬ Abnormal e) (hf : checkTreesFuel S w older newer ≤ fuel) :
    ∃ txt cw', Client_checkTrees (envOf P E) fuel (headG older) olderNote (headG newer) newerNote cw =
        .ok (some "ErrSecurity", cw') ∧ errAbs txt = e ∧
      cw'.s = (E.securityError (proveTreeVia P E (treeHashVia P E w older.n newer).2 newer.n older.n newer).2.s
          (securityHead P olderNote newerNote h1 ++ (B "\tinternal error: " ++ errBytes (some txt) ++ [10])),
        (proveTreeVia P E (treeHashVia P E w older.n newer).2 newer.n older.n newer).2.tr ++
          [Effect.securityError (securityHead P olderNote newerNote h1 ++ (B "\tinternal error: " ++ errBytes (some txt) ++ [10]))]) ∧
      (checkTrees P E w older olderNote newer newerNote).2.tr =
        (proveTreeVia P E (treeHashVia P E w older.n newer).2 newer.n older.n newer).2.tr ++
          [Effect.securityError (securityHead P olderNote newerNote h1 ++ (B "\tinternal error: " ++ B e.name ++ [10]))] :=
  checkTrees_proveErr S w cw older newer olderNote newerNote fuel hr ho hn hnorm h1 hth hne e hpe hab hf

/-- ★ `Client.checkRecord(id, data)`, every `id` (negative ones included: `StoredHashIndex(0, id) = 0`) -/
theorem Client_checkRecord_tie (S : TileSpecs P E) (w : World σ H) (cw : GW σ H) (id : Int) (data : Bytes) (fuel : Nat)
    (hr : RepRun P E w cw) (hok : CheckRecordOk P E w id data) (hf : checkRecordFuel S w id ≤ fuel) :
    ∃ r' cw', Client_checkRecord (envOf P E) fuel id data cw = .ok (r', cw') ∧
      RepRun P E (checkRecord P E w id data).2 cw' ∧ RepUnit r' (checkRecord P E w id data).1 ∧
      FrameG cw cw' ∧ FrameM w (checkRecord P E w id data).2 :=
  checkRecord_eq S w cw id data fuel hr hok hf

/-- ★ `Client.mergeLatestMem(msg)`: `when` is 1 / 2 / 3 for the model's `.past` / `.now` / `.future` (`RepWhen`); the loop
    of the Go function never goes around in the regenerated (sequential) client -/
theorem Client_mergeLatestMem_tie (S : TileSpecs P E) (w : World σ H) (cw : GW σ H) (msg : Bytes) (fuel : Nat)
    (hr : RepRun P E w cw) (hok : MergeMemOk P E w msg) (hf : memFuel S w msg ≤ fuel) :
    ∃ r' cw', Client_mergeLatestMem (envOf P E) fuel msg cw = .ok (r', cw') ∧
      RepRun P E (mergeLatestMem P E w msg).2 cw' ∧ RepResR RepWhen r' (mergeLatestMem P E w msg).1 ∧
      FrameI cw cw' ∧ FrameJ w (mergeLatestMem P E w msg).2 :=
  mergeLatestMem_eq S w cw msg fuel hr hok hf

/-- the `for {}` loop of `mergeLatest`: FUEL AGAINST RETRIES.  If the model's loop from `w` ends within `f` rounds
    (`MergeLoopOk P E f w`; in particular `mergeLatestLoop P E f w ≠ .fuel`), the generated loop with ANY fuel
    `g ≥ loopFuel S f w` ends (`Ctl.ret`: never falls out of the loop, never `Err.fuel`) with the model's result in the
    corresponding world. -/
theorem Client_mergeLatest_loop1_tie (S : TileSpecs P E) (f g : Nat) (w : World σ H) (cw : GW σ H)
    (hr : RepRun P E w cw) (hok : MergeLoopOk P E f w) (hf : loopFuel S f w ≤ g) :
    ∃ r' cw', Client_mergeLatest_loop1 (envOf P E) g cw = .ok (Ctl.ret (r', cw')) ∧
      RepRun P E (mergeLatestLoop P E f w).2 cw' ∧ RepUnit r' (mergeLatestLoop P E f w).1 ∧
      FrameI cw cw' ∧ FrameJ w (mergeLatestLoop P E f w).2 :=
  mergeLatest_loop1_eq S f g w cw hr hok hf

/-- ★ `Client.mergeLatest(msg)` -/
theorem Client_mergeLatest_tie (S : TileSpecs P E) (w : World σ H) (cw : GW σ H) (msg : Bytes) (fuel : Nat)
    (hr : RepRun P E w cw) (hok : MergeOk P E w msg) (hf : mergeFuel S w msg ≤ fuel) :
    ∃ r' cw', Client_mergeLatest (envOf P E) fuel msg cw = .ok (r', cw') ∧
      RepRun P E (mergeLatest P E w msg).2 cw' ∧ RepUnit r' (mergeLatest P E w msg).1 ∧
      FrameI cw cw' ∧ FrameJ w (mergeLatest P E w msg).2 :=
  mergeLatest_eq S w cw msg fuel hr hok hf

omit [DecidableEq H] [Inhabited H] in
/-- `note.Open(msg, c.verifiers)` as `mergeLatestMem` calls it (the client's own verifier table) -/
theorem noteOpenX_tie (vs : List Note.Verifier) (hv : vs.length ≤ 1) (msg : Bytes) (fuel : Nat) (hf : msg.length + 1 ≤ fuel) :
    noteOpenX (envOf P E) fuel msg (verifiersOf vs) =
      .ok (TieFnNote.embedOpen (Note.Open msg (Note.VerifierList vs))) :=
  noteOpenX_eq P E vs hv msg fuel hf

/-- `tlog.ParseTree(note.Text)` as `mergeLatestMem` calls it (hash type `H`, decoded by `P.dec`) -/
theorem parseTreeX_tie (text : Bytes) :
    parseTreeX (envOf P E) text =
      .ok (match TlogNote.parseTree text with
        | some t => (({ N := t.n, Hash := P.dec t.hash } : Generated.Tile.Tree H), none)
        | none => (default, some "errMalformedTree")) :=
  parseTreeX_eq P E text

end



/-! ### the reads through tiles (the `TileSpecs` of the ties above), proved -/

section
variable {σ H : Type} [DecidableEq H] [Inhabited H]

/-- ★ `tlog.TileHashReader(tree, &c.tileReader).ReadHashes(indexes)` of the regenerated client — the world-mode regeneration
    of `tileHashReader.ReadHashes` (Generated/FnTileW.lean) over the regenerated `tileReader.Height` / `ReadTiles` / `SaveTiles` —
    is the model's `Client.readHashes`: the same tiles read in the same order through the same caches, `SaveTiles` exactly when
    the model says so, the same hashes, resp. an error text whose abstraction is the model's error (in particular
    "TileReader returned bad result slice (%v len=%d, want %d)", `.tileLen`, exactly when a tile file has the wrong length).
    Tree size `< 2^62`, fewer than `2^56` indexes, fuel `64·len + 600`; no panic, no fuel exhaustion. -/
theorem readHashesW_tie (P : Params H) (E : Env σ) (h32 : P.hashSize = 32) (h57 : Client.tileHeight P ≤ 57)
    (w : World σ H) (cw : GW σ H) (tree : Head H) (idx : List Nat) (fuel : Nat)
    (hr : RepRun P E w cw) (htree : tree.n < 2 ^ 62) (hlen : idx.length < 2 ^ 56) (hf : 64 * idx.length + 600 ≤ fuel) :
    ∃ r' cw', readHashesW (envOf P E) fuel (headG tree) (idx.map Int.ofNat) cw = .ok (r', cw') ∧
      RepRun P E (readHashes P E w tree idx).2 cw' ∧ RepRes r' (readHashes P E w tree idx).1 ∧
      FrameG cw cw' ∧ FrameM w (readHashes P E w tree idx).2 :=
  readHashesW_eq P E h32 h57 w cw tree idx fuel hr htree hlen hf

/-- ★ `tlog.TreeHash(n, thr)` with `thr` the tile hash reader of `tree`: the model's `treeHashVia` (at most one
    `ReadHashes` call).  Fuel `treeHashFuel readHashesFuel w n tree = max (n + 127) (64·len(indexes) + 600)`. -/
theorem treeHashW_tie (P : Params H) (E : Env σ) (h32 : P.hashSize = 32) (h57 : Client.tileHeight P ≤ 57)
    (w : World σ H) (cw : GW σ H) (n : Nat) (tree : Head H) (fuel : Nat)
    (hr : RepRun P E w cw) (htree : tree.n < 2 ^ 62) (hn : n ≤ 2 ^ 62)
    (hf : treeHashFuel readHashesFuel w n tree ≤ fuel) (hnorm : Normal (treeHashVia P E w n tree).1) :
    ∃ r' cw', treeHashW (envOf P E) fuel (n : Int) (headG tree) cw = .ok (r', cw') ∧
      RepRun P E (treeHashVia P E w n tree).2 cw' ∧ RepRes r' (treeHashVia P E w n tree).1 ∧
      FrameG cw cw' ∧ FrameM w (treeHashVia P E w n tree).2 :=
  (tileSpecs P E h32 h57).treeHash w cw n tree fuel hr htree hn hf hnorm

/-- ★ `tlog.ProveTree(t, n, thr)`: the model's `proveTreeVia` -/
theorem proveTreeW_tie (P : Params H) (E : Env σ) (h32 : P.hashSize = 32) (h57 : Client.tileHeight P ≤ 57)
    (w : World σ H) (cw : GW σ H) (t n : Nat) (tree : Head H) (fuel : Nat)
    (hr : RepRun P E w cw) (htree : tree.n < 2 ^ 62) (ht : t ≤ 2 ^ 62)
    (hf : proveTreeFuel readHashesFuel w t n tree ≤ fuel) (hnorm : Normal (proveTreeVia P E w t n tree).1) :
    ∃ r' cw', proveTreeW (envOf P E) fuel (t : Int) (n : Int) (headG tree) cw = .ok (r', cw') ∧
      RepRun P E (proveTreeVia P E w t n tree).2 cw' ∧ RepRes r' (proveTreeVia P E w t n tree).1 ∧
      FrameG cw cw' ∧ FrameM w (proveTreeVia P E w t n tree).2 :=
  (tileSpecs P E h32 h57).proveTree w cw t n tree fuel hr htree ht hf hnorm

variable (P : Params H) (E : Env σ) (h32 : P.hashSize = 32) (h57 : Client.tileHeight P ≤ 57)

/-- ★ `Client.checkTrees` with nothing assumed about generated code -/
theorem Client_checkTrees_tie_inst (w : World σ H) (cw : GW σ H) (older newer : Head H)
    (olderNote newerNote : Bytes) (fuel : Nat) (hr : RepRun P E w cw) (hok : CheckTreesOk P E w older newer)
    (hf : checkTreesFuel (tileSpecs P E h32 h57) w older newer ≤ fuel) :
    ∃ r' cw', Client_checkTrees (envOf P E) fuel (headG older) olderNote (headG newer) newerNote cw = .ok (r', cw') ∧
      RepRun P E (checkTrees P E w older olderNote newer newerNote).2 cw' ∧
      RepUnit r' (checkTrees P E w older olderNote newer newerNote).1 ∧
      FrameG cw cw' ∧ FrameM w (checkTrees P E w older olderNote newer newerNote).2 :=
  Client_checkTrees_tie (tileSpecs P E h32 h57) w cw older newer olderNote newerNote fuel hr hok hf

/-- ★ `Client.checkRecord` with nothing assumed about generated code -/
theorem Client_checkRecord_tie_inst (w : World σ H) (cw : GW σ H) (id : Int) (data : Bytes) (fuel : Nat)
    (hr : RepRun P E w cw) (hok : CheckRecordOk P E w id data)
    (hf : checkRecordFuel (tileSpecs P E h32 h57) w id ≤ fuel) :
    ∃ r' cw', Client_checkRecord (envOf P E) fuel id data cw = .ok (r', cw') ∧
      RepRun P E (checkRecord P E w id data).2 cw' ∧ RepUnit r' (checkRecord P E w id data).1 ∧
      FrameG cw cw' ∧ FrameM w (checkRecord P E w id data).2 :=
  Client_checkRecord_tie (tileSpecs P E h32 h57) w cw id data fuel hr hok hf

/-- ★ `Client.mergeLatestMem` with nothing assumed about generated code -/
theorem Client_mergeLatestMem_tie_inst (w : World σ H) (cw : GW σ H) (msg : Bytes) (fuel : Nat)
    (hr : RepRun P E w cw) (hok : MergeMemOk P E w msg) (hf : memFuel (tileSpecs P E h32 h57) w msg ≤ fuel) :
    ∃ r' cw', Client_mergeLatestMem (envOf P E) fuel msg cw = .ok (r', cw') ∧
      RepRun P E (mergeLatestMem P E w msg).2 cw' ∧ RepResR RepWhen r' (mergeLatestMem P E w msg).1 ∧
      FrameI cw cw' ∧ FrameJ w (mergeLatestMem P E w msg).2 :=
  Client_mergeLatestMem_tie (tileSpecs P E h32 h57) w cw msg fuel hr hok hf

/-- ★ `Client.mergeLatest` with nothing assumed about generated code -/
theorem Client_mergeLatest_tie_inst (w : World σ H) (cw : GW σ H) (msg : Bytes) (fuel : Nat)
    (hr : RepRun P E w cw) (hok : MergeOk P E w msg) (hf : mergeFuel (tileSpecs P E h32 h57) w msg ≤ fuel) :
    ∃ r' cw', Client_mergeLatest (envOf P E) fuel msg cw = .ok (r', cw') ∧
      RepRun P E (mergeLatest P E w msg).2 cw' ∧ RepUnit r' (mergeLatest P E w msg).1 ∧
      FrameI cw cw' ∧ FrameJ w (mergeLatest P E w msg).2 :=
  Client_mergeLatest_tie (tileSpecs P E h32 h57) w cw msg fuel hr hok hf

end

/-! ### non-vacuity: both sides on concrete inputs

Hashes are byte strings; the cache is empty, the server answers every request with 32 zero bytes (a width-1 tile whose
one hash is 32 zero bytes) or fails; the environment state counts the operations. -/

def exP : Client.Params Bytes :=
  { leaf := id, node := fun a b => a ++ b, empty := [], hashSize := 32, dec := id, enc := id, height := 2, nosumdb := [],
    isLetter := fun _ => false, glob := fun _ _ => false, sha := id, edVerify := fun _ _ _ => false, retries := 2 }

def z32 : Bytes := List.replicate 32 0
def o32 : Bytes := List.replicate 32 1

/-- `cfg`: the answer of `ReadConfig`; `WriteConfig` answers ErrWriteConflict while the state is below 2 -/
def exEnv (up : Bool) (cfg : Option Bytes) : Client.Env Nat :=
  { readRemote := fun s _ => (if up then some z32 else none, s + 1)
    readCache := fun s _ => (none, s + 1)
    readConfig := fun s _ => (cfg, s + 1)
    writeCache := fun s _ _ => s + 1
    writeConfig := fun s _ _ _ => (if s < 2 then .conflict else .ok, s + 1)
    securityError := fun s _ => s + 1 }

/-- a running client whose latest tree head is `hd` -/
def exW (hd : Client.Head Bytes) : Client.World Nat Bytes :=
  { s := 0, c := { Client.newClient exP with inited := some none, latest := hd, latestMsg := B "L" }, tr := [] }
def exCW (hd : Client.Head Bytes) : GW Nat Bytes :=
  { cw0 exP 0 [] with initDone := true, latest := headG hd, latestMsg := B "L" }

example (up : Bool) (cfg : Option Bytes) (hd : Client.Head Bytes) : RepRun exP (exEnv up cfg) (exW hd) (exCW hd) :=
  { s := rfl, name := rfl, verifiers := rfl, vlen := Nat.zero_le _, nosumdb := rfl, record := fun _ => trivial,
    tileCache := fun _ _ => trivial, latestN := rfl, latestMsg := rfl, tileSaved := fun _ _ => rfl, tileHeight := rfl,
    latestHash := rfl }

/-- what is compared: the Go result, the state behind `ClientOps` and the trace -/
def obsG {α : Type} (r : M (α × GW Nat Bytes)) : Option (α × Nat × List Client.Effect) :=
  r.toOption.map fun x => (x.1, x.2.s.1, x.2.s.2)
def obsM {α : Type} (r : α × Client.World Nat Bytes) : α × Nat × List Client.Effect := (r.1, r.2.s, r.2.tr)

-- a FORK: two heads of size 1 with different hashes.  One tile is fetched (two cache misses, one remote read, one cache
-- write), the recomputed hash differs, the (empty) proof checks: the report is the head alone, byte for byte
example :
    obsG (Client_checkTrees (envOf exP (exEnv true none)) 700 (headG ⟨1, o32⟩) (B "old\nnote") (headG ⟨1, z32⟩) (B "new") (exCW ⟨0, []⟩)) =
      some (some "ErrSecurity", 5,
        [.read .cache (B "/tile/2/0/000.p/1") false, .read .cache (B "/tile/2/0/000") false,
         .read .remote (B "/tile/2/0/000.p/1") true, .writeCache (B "/tile/2/0/000.p/1") z32,
         .securityError (B "SECURITY ERROR\ngo.sum database server misbehavior detected!\n\nold database:\n\told\n\tnote\nnew database:\n\tnew\nproof of misbehavior:\n\tAAAAAAAAAAAAAAAAAAAAAAAAAAAAAAAAAAAAAAAAAAA=")]) ∧
    obsM (Client.checkTrees exP (exEnv true none) (exW ⟨0, []⟩) ⟨1, o32⟩ (B "old\nnote") ⟨1, z32⟩ (B "new")) =
      (.error .security, 5,
        [.read .cache (B "/tile/2/0/000.p/1") false, .read .cache (B "/tile/2/0/000") false,
         .read .remote (B "/tile/2/0/000.p/1") true, .writeCache (B "/tile/2/0/000.p/1") z32,
         .securityError (B "SECURITY ERROR\ngo.sum database server misbehavior detected!\n\nold database:\n\told\n\tnote\nnew database:\n\tnew\nproof of misbehavior:\n\tAAAAAAAAAAAAAAAAAAAAAAAAAAAAAAAAAAAAAAAAAAA=")]) ∧
    errAbs "ErrSecurity" = .security := by
  refine ⟨?_, ?_, ?_⟩ <;> decide +kernel

-- the server is down: the error of `TreeHash`, wrapped by "checking tree#%d: %v" (transparent for `errAbs`)
example :
    obsG (Client_checkTrees (envOf exP (exEnv false none)) 700 (headG ⟨1, o32⟩) [] (headG ⟨1, z32⟩) [] (exCW ⟨0, []⟩)) =
      some (some "checking tree#%d: %v|remote", 4,
        [.read .cache (B "/tile/2/0/000.p/1") false, .read .cache (B "/tile/2/0/000") false,
         .read .remote (B "/tile/2/0/000.p/1") false, .read .remote (B "/tile/2/0/000") false]) ∧
    obsM (Client.checkTrees exP (exEnv false none) (exW ⟨0, []⟩) ⟨1, o32⟩ [] ⟨1, z32⟩ []) =
      (.error .remote, 4,
        [.read .cache (B "/tile/2/0/000.p/1") false, .read .cache (B "/tile/2/0/000") false,
         .read .remote (B "/tile/2/0/000.p/1") false, .read .remote (B "/tile/2/0/000") false]) ∧
    errAbs "checking tree#%d: %v|remote" = .remote := by
  refine ⟨?_, ?_, ?_⟩ <;> decide +kernel

-- checkRecord: record 0 of the latest tree ⟨1, z32⟩ is authenticated against the fetched tile; another text is not
example :
    obsG (Client_checkRecord (envOf exP (exEnv true none)) 700 0 z32 (exCW ⟨1, z32⟩)) =
      some (none, 4, [.read .cache (B "/tile/2/0/000.p/1") false, .read .cache (B "/tile/2/0/000") false,
         .read .remote (B "/tile/2/0/000.p/1") true, .writeCache (B "/tile/2/0/000.p/1") z32]) ∧
    obsM (Client.checkRecord exP (exEnv true none) (exW ⟨1, z32⟩) 0 z32) =
      (.ok (), 4, [.read .cache (B "/tile/2/0/000.p/1") false, .read .cache (B "/tile/2/0/000") false,
         .read .remote (B "/tile/2/0/000.p/1") true, .writeCache (B "/tile/2/0/000.p/1") z32]) ∧
    (obsG (Client_checkRecord (envOf exP (exEnv true none)) 700 0 o32 (exCW ⟨1, z32⟩))).map (·.1) =
      some (some "cannot authenticate record data in server response") ∧
    (Client.checkRecord exP (exEnv true none) (exW ⟨1, z32⟩) 0 o32).1 = .error .recordHash ∧
    (obsG (Client_checkRecord (envOf exP (exEnv true none)) 700 1 o32 (exCW ⟨1, z32⟩))).map (·.1) =
      some (some "cannot validate record %d in tree of size %d") ∧
    (Client.checkRecord exP (exEnv true none) (exW ⟨1, z32⟩) 1 o32).1 = .error .recordId := by
  refine ⟨?_, ?_, ?_, ?_, ?_, ?_⟩ <;> decide +kernel

-- mergeLatestMem: the empty message is the empty timeline; an unsigned message is refused (no verifier is known)
example :
    obsG (Client_mergeLatestMem (envOf exP (exEnv true none)) 700 [] (exCW ⟨1, z32⟩)) = some ((1, none), 0, []) ∧
    obsM (Client.mergeLatestMem exP (exEnv true none) (exW ⟨1, z32⟩) []) = (.ok .past, 0, []) ∧
    obsG (Client_mergeLatestMem (envOf exP (exEnv true none)) 700 [] (exCW ⟨0, []⟩)) = some ((2, none), 0, []) ∧
    obsM (Client.mergeLatestMem exP (exEnv true none) (exW ⟨0, []⟩) []) = (.ok .now, 0, []) ∧
    (obsG (Client_mergeLatestMem (envOf exP (exEnv true none)) 700 (B "x\n") (exCW ⟨0, []⟩))).map (·.1) =
      some (0, some "reading tree note: %v\nnote:\n%s|errMalformedNote") ∧
    (Client.mergeLatestMem exP (exEnv true none) (exW ⟨0, []⟩) (B "x\n")).1 = .error .note ∧
    errAbs "reading tree note: %v\nnote:\n%s|errMalformedNote" = .note := by
  refine ⟨?_, ?_, ?_, ?_, ?_, ?_, ?_⟩ <;> decide +kernel

-- the `for` loop of mergeLatest: the configuration holds the empty timeline, the client is ahead (`.past`): WriteConfig
-- answers ErrWriteConflict in the first round and succeeds in the second
example :
    obsG ((Client_mergeLatest_loop1 (envOf exP (exEnv true (some []))) 700 (exCW ⟨1, z32⟩)).map
      fun c => match c with | Ctl.ret x => x | Ctl.next w => (some "fell out", w)) =
      some (none, 4, [.read .config (B "/latest") true, .writeConfig (B "/latest") [] (B "L") .conflict,
        .read .config (B "/latest") true, .writeConfig (B "/latest") [] (B "L") .ok]) ∧
    obsM (Client.mergeLatestLoop exP (exEnv true (some [])) 2 (exW ⟨1, z32⟩)) =
      (.ok (), 4, [.read .config (B "/latest") true, .writeConfig (B "/latest") [] (B "L") .conflict,
        .read .config (B "/latest") true, .writeConfig (B "/latest") [] (B "L") .ok]) ∧
    (Client.mergeLatestLoop exP (exEnv true (some [])) 1 (exW ⟨1, z32⟩)).1 = .error .fuel := by
  refine ⟨?_, ?_, ?_⟩ <;> decide +kernel

-- mergeLatest with the empty message when nothing moves forward: no operation at all
example :
    obsG (Client_mergeLatest (envOf exP (exEnv true none)) 700 [] (exCW ⟨1, z32⟩)) = some (none, 0, []) ∧
    obsM (Client.mergeLatest exP (exEnv true none) (exW ⟨1, z32⟩) []) = (.ok (), 0, []) := by
  constructor <;> decide +kernel


-- the fork example through the theorem: the hypotheses of `Client_checkTrees_tie_inst` hold for it
example : ∃ r' cw', Client_checkTrees (envOf exP (exEnv true none)) 700 (headG ⟨1, o32⟩) (B "old\nnote") (headG ⟨1, z32⟩) (B "new")
      (exCW ⟨0, []⟩) = .ok (r', cw') ∧
    RepRun exP (exEnv true none) (Client.checkTrees exP (exEnv true none) (exW ⟨0, []⟩) ⟨1, o32⟩ (B "old\nnote") ⟨1, z32⟩ (B "new")).2 cw' ∧
    RepUnit r' (Client.checkTrees exP (exEnv true none) (exW ⟨0, []⟩) ⟨1, o32⟩ (B "old\nnote") ⟨1, z32⟩ (B "new")).1 := by
  have hth : (Client.treeHashVia exP (exEnv true none) (exW ⟨0, []⟩) 1 ⟨1, z32⟩).1 = .ok z32 := by decide +kernel
  have hpr : (Client.proveTreeVia exP (exEnv true none) (Client.treeHashVia exP (exEnv true none) (exW ⟨0, []⟩) 1 ⟨1, z32⟩).2 1 1
      ⟨1, z32⟩).1 = .ok [] := by decide +kernel
  have hok : CheckTreesOk exP (exEnv true none) (exW ⟨0, []⟩) ⟨1, o32⟩ ⟨1, z32⟩ :=
    ⟨by decide, by decide, by rw [hth]; exact Normal_ok _, fun _ _ _ => ⟨[], hpr⟩⟩
  have hr : RepRun exP (exEnv true none) (exW ⟨0, []⟩) (exCW ⟨0, []⟩) :=
    { s := rfl, name := rfl, verifiers := rfl, vlen := Nat.zero_le _, nosumdb := rfl, record := fun _ => trivial,
      tileCache := fun _ _ => trivial, latestN := rfl, latestMsg := rfl, tileSaved := fun _ _ => rfl, tileHeight := rfl,
      latestHash := rfl }
  obtain ⟨r', cw', h1, h2, h3, _, _⟩ := Client_checkTrees_tie_inst exP (exEnv true none) rfl (by decide) (exW ⟨0, []⟩)
    (exCW ⟨0, []⟩) ⟨1, o32⟩ ⟨1, z32⟩ (B "old\nnote") (B "new") 700 hr hok (by decide +kernel)
  exact ⟨r', cw', h1, h2, h3⟩

/-- the two base64 decoder models of the framework are the same function (the client has ONE `b64dec` for `note.Open`
    and `tlog.ParseTree`) -/
theorem b64_models_agree (s : Bytes) : Base64.decodeStd s = B64.b64dec s := decodeStd_eq_b64dec s

end ModVerif.Tie.FnClientMerge
