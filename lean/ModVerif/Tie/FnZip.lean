/-
  Tie theorems, zip/zip.go: the definitions regenerated from the Go source by go2lean (`Generated/FnZip.lean`:
  `isVendoredPackage`, `strToFold`, `collisionChecker.check`) compute exactly what the hand model (`Model/Zip.lean`) says —
  in particular no panic and no fuel exhaustion on the stated domain.  These are the three leaf functions the properties
  C17 (checkFiles / listFilesInDir), C05 (Create) and C12 (checkZip / Unzip) rest on.

  Bridges (helpers in `Proofs/TieFnZip{Vendor,Fold,Path,CC,Div}.lean`, `Proofs/GoRtLemmasZip.lean`):
  * `isVendoredPackage`: the generated code gets the go version string and an abstract `versionCompare`; the model gets the
    boolean `ge124`; tie under `ge124 = decide (0 ≤ versionCompare vers "go1.24")`.
  * `strToFold`: `unicode.SimpleFold` is the abstract `simpleFold : Int → Int`; the model uses the committed orbit-minimum
    table `FoldTable.foldMin`.  Hypothesis `FoldsTo simpleFold K`: from every code point `r < 0x110000` the inner loop
    (`orbitMinBy`: iterate `simpleFold` until the value stops increasing) ends within `K` iterations at `foldMin r`.
    The driver's stand-in `Drv.GenZip.simpleFoldI` satisfies it with `K = 1` unconditionally (`foldsTo_simpleFoldI`).
  * `collisionChecker.check`: the Go map is an association list keyed by the folded path; `toCC` / `ofCC` (mutually inverse)
    turn it into the model's table and back; the model's `toFold` is `Zip.strToFold`; the three `fmt.Errorf` literals are
    `errText` of the model's three collision reasons; `path.Dir` is `PathClean.pathDir` on both sides.  The model bounds the
    recursion by its own fuel `n` and reports `Reason.panic` when it runs out (absolute paths: the Go code recurses for
    ever); the tie holds for every `n` that is enough for the model, and `n = p.length + 1` (the model's `ccCheckTop`) is
    enough for every clean relative path.  Where the model IS out of fuel at `n`, the generated function is out of fuel
    (`Err.fuel`) for every `fuel ≤ n` (`collisionChecker_check_tie_outOfFuel`): the two notions of "does not end" agree.
-/
import ModVerif.Generated.FnZip
import ModVerif.Model.Zip
import ModVerif.Drv.GenZip
import ModVerif.Proofs.TieFnZipVendor
import ModVerif.Proofs.TieFnZipFold
import ModVerif.Proofs.TieFnZipPath
import ModVerif.Proofs.TieFnZipCC
import ModVerif.Proofs.TieFnZipDiv
namespace ModVerif.Tie.FnZip
open ModVerif ModVerif.GoRt ModVerif.GoRtZip ModVerif.TieFnZip
open ModVerif.Generated.Zip (pathInfo)

/-! ### isVendoredPackage -/

/-- `isVendoredPackage(name, vers)` for every name, version string and comparison function; the model's flag is
    `version.Compare(vers, "go1.24") >= 0`. -/
theorem isVendoredPackage_tie (versionCompare : Bytes → Bytes → Int) (name vers : Bytes) (ge124 : Bool)
    (hg : ge124 = decide (0 ≤ versionCompare vers go124)) :
    Generated.Zip.isVendoredPackage versionCompare name vers = .ok (Zip.isVendoredPackage name ge124) :=
  isVendoredPackage_eq versionCompare name vers ge124 hg

/-- the driver's instance (`Drv/GenZip.lean`: "go1.24" compares equal, everything else below) -/
theorem isVendoredPackage_tie_driver (name vers : Bytes) :
    Generated.Zip.isVendoredPackage Drv.GenZip.versionCompareI name vers =
      .ok (Zip.isVendoredPackage name (vers == go124)) := by
  apply isVendoredPackage_eq
  unfold Drv.GenZip.versionCompareI
  have : B "go1.24" = go124 := by decide +kernel
  rw [this]
  cases vers == go124 <;> simp

-- "pkg/vendor/vendor.go": vendored before go1.24 only
example : Generated.Zip.isVendoredPackage Drv.GenZip.versionCompareI (B "pkg/vendor/vendor.go") (B "go1.23") = .ok true ∧
    Zip.isVendoredPackage (B "pkg/vendor/vendor.go") false = true := by decide +kernel
example : Generated.Zip.isVendoredPackage Drv.GenZip.versionCompareI (B "pkg/vendor/vendor.go") (B "go1.24") = .ok false ∧
    Zip.isVendoredPackage (B "pkg/vendor/vendor.go") true = false := by decide +kernel

/-! ### strToFold -/

/-- `strToFold(s)` for every byte string, for every `simpleFold` whose orbit loop agrees with the table. -/
theorem strToFold_tie (simpleFold : Int → Int) (K : Nat) (hsf : FoldsTo simpleFold K) (fuel : Nat) (s : Bytes)
    (hf : 2 * s.length + K + 2 ≤ fuel) :
    Generated.Zip.strToFold simpleFold fuel s = .ok (Zip.strToFold s) :=
  strToFold_eq simpleFold K hsf fuel s hf

/-- the driver's stand-in for `unicode.SimpleFold` jumps straight to the orbit minimum: no hypothesis needed -/
theorem foldsTo_simpleFoldI : FoldsTo Drv.GenZip.simpleFoldI 1 := foldsTo_foldMin

/-- `strToFold` as the driver runs it (fuel `2 * len + 8`) -/
theorem strToFold_tie_driver (fuel : Nat) (s : Bytes) (hf : 2 * s.length + 3 ≤ fuel) :
    Generated.Zip.strToFold Drv.GenZip.simpleFoldI fuel s = .ok (Zip.strToFold s) :=
  strToFold_eq _ 1 foldsTo_simpleFoldI fuel s hf

-- "aK" with K = U+212A KELVIN SIGN (folds to 'K' = 75, written as 'k'); "Go" takes the slow path, "go" the fast one
example : Generated.Zip.strToFold Drv.GenZip.simpleFoldI 20 [97, 0xE2, 0x84, 0xAA] = .ok [97, 107] ∧
    Zip.strToFold [97, 0xE2, 0x84, 0xAA] = [97, 107] := by decide +kernel
example : Generated.Zip.strToFold Drv.GenZip.simpleFoldI 20 (B "Go") = .ok (B "go") ∧ Zip.strToFold (B "Go") = B "go" := by
  decide +kernel
example : Generated.Zip.strToFold Drv.GenZip.simpleFoldI 20 (B "go") = .ok (B "go") ∧ Zip.strToFold (B "go") = B "go" := by
  decide +kernel

/-! ### collisionChecker.check -/

/-- `cc.check(p, isDir)` for every map, path and flag: whenever the model's recursion ends within its fuel `n` (result not
    `Reason.panic`), the generated function returns the model's error (as its format literal) and the model's table (as a
    map), given fuel for `n` levels of recursion and for `strToFold` (which receives the remaining fuel) on `p`. -/
theorem collisionChecker_check_tie (simpleFold : Int → Int) (K : Nat) (hsf : FoldsTo simpleFold K) (n fuel : Nat)
    (cc : List (Bytes × pathInfo)) (p : Bytes) (isDir : Bool)
    (hn : (Zip.ccCheck Zip.strToFold n (toCC cc) p isDir).2 ≠ some .panic)
    (hf : n + 2 * max p.length 1 + K + 2 ≤ fuel) :
    Generated.Zip.collisionChecker_check simpleFold fuel cc p isDir =
      .ok (ccOut (Zip.ccCheck Zip.strToFold n (toCC cc) p isDir)) :=
  check_eq simpleFold K hsf n fuel cc p isDir hn hf

/-- the same under the model's own fuel criterion `fuelOK n p` (the chain of `path.Dir` reaches "." within `n` steps) -/
theorem collisionChecker_check_tie_fuelOK (simpleFold : Int → Int) (K : Nat) (hsf : FoldsTo simpleFold K) (n fuel : Nat)
    (cc : List (Bytes × pathInfo)) (p : Bytes) (isDir : Bool) (hn : Proofs.ZipA.fuelOK n p)
    (hf : n + 2 * max p.length 1 + K + 2 ≤ fuel) :
    Generated.Zip.collisionChecker_check simpleFold fuel cc p isDir =
      .ok (ccOut (Zip.ccCheck Zip.strToFold n (toCC cc) p isDir)) :=
  check_eq simpleFold K hsf n fuel cc p isDir (ccCheck_ne_panic _ n _ p isDir hn) hf

/-- clean relative paths (everything `checkFiles` / `checkZip` pass to the checker): the generated function computes the
    model's top-level call `ccCheckTop` (model fuel `p.length + 1`). -/
theorem collisionChecker_check_tie_cleanRel (simpleFold : Int → Int) (K : Nat) (hsf : FoldsTo simpleFold K) (fuel : Nat)
    (cc : List (Bytes × pathInfo)) (p : Bytes) (isDir : Bool) (hp : Proofs.ZipA.CleanRel p)
    (hf : 3 * p.length + K + 5 ≤ fuel) :
    Generated.Zip.collisionChecker_check simpleFold fuel cc p isDir =
      .ok (ccOut (Zip.ccCheckTop Zip.strToFold (toCC cc) p isDir)) := by
  have hne : p ≠ [] := by
    intro h; have := hp.clean; rw [h] at this; exact absurd this (by decide)
  have hl : 1 ≤ p.length := by cases p with | nil => exact absurd rfl hne | cons _ _ => simp
  exact collisionChecker_check_tie_fuelOK simpleFold K hsf (p.length + 1) fuel cc p isDir
    (Proofs.ZipA.fuelOK_cleanRel _ p hp (by omega)) (by omega)

/-- as the driver runs it: `simpleFoldI`, fuel `4 * len + 16` -/
theorem collisionChecker_check_tie_driver (cc : List (Bytes × pathInfo)) (p : Bytes) (isDir : Bool)
    (hp : Proofs.ZipA.CleanRel p) :
    Generated.Zip.collisionChecker_check Drv.GenZip.simpleFoldI (4 * p.length + 16) cc p isDir =
      .ok (ccOut (Zip.ccCheckTop Zip.strToFold (toCC cc) p isDir)) :=
  collisionChecker_check_tie_cleanRel _ 1 foldsTo_simpleFoldI _ cc p isDir hp (by omega)

-- "a/b" as a file into the empty map registers "a/b" and "a"; then "A" as a file clashes with the directory "a"
example : Generated.Zip.collisionChecker_check Drv.GenZip.simpleFoldI 28 [] (B "a/b") false =
      .ok (none, [(B "a/b", ⟨B "a/b", false⟩), (B "a", ⟨B "a", true⟩)]) ∧
    ccOut (Zip.ccCheckTop Zip.strToFold (toCC []) (B "a/b") false) =
      (none, [(B "a/b", ⟨B "a/b", false⟩), (B "a", ⟨B "a", true⟩)]) := by decide +kernel
example : Generated.Zip.collisionChecker_check Drv.GenZip.simpleFoldI 20
      [(B "a/b", ⟨B "a/b", false⟩), (B "a", ⟨B "a", true⟩)] (B "A") false =
      .ok (some "case-insensitive file name collision: %q and %q", [(B "a/b", ⟨B "a/b", false⟩), (B "a", ⟨B "a", true⟩)]) ∧
    ccOut (Zip.ccCheckTop Zip.strToFold (toCC [(B "a/b", ⟨B "a/b", false⟩), (B "a", ⟨B "a", true⟩)]) (B "A") false) =
      (some "case-insensitive file name collision: %q and %q", [(B "a/b", ⟨B "a/b", false⟩), (B "a", ⟨B "a", true⟩)]) := by
  decide +kernel

/-- the non-terminating side: where the model runs out of ITS fuel `n` (no clash on the first `n` levels and `path.Dir` has
    not reached "." — e.g. every absolute directory path: the Go code recurses until the stack overflows), the generated
    function runs out of fuel for every `fuel ≤ n`.  Together with `collisionChecker_check_tie`: if the model ends for some
    `n`, the generated function returns its result for all large fuel; if it ends for no `n`, the generated function
    returns `Err.fuel` for every fuel. -/
theorem collisionChecker_check_tie_outOfFuel (simpleFold : Int → Int) (K : Nat) (hsf : FoldsTo simpleFold K) (n fuel : Nat)
    (cc : List (Bytes × pathInfo)) (p : Bytes) (isDir : Bool)
    (hn : (Zip.ccCheck Zip.strToFold n (toCC cc) p isDir).2 = some .panic) (hf : fuel ≤ n) :
    Generated.Zip.collisionChecker_check simpleFold fuel cc p isDir = .error .fuel :=
  check_diverges simpleFold K hsf fuel n cc p isDir hf hn

-- the directory "/": `path.Dir("/") = "/"`, the recursion never ends
example : Generated.Zip.collisionChecker_check Drv.GenZip.simpleFoldI 30 [] [47] true = .error .fuel ∧
    (Zip.ccCheck Zip.strToFold 30 (toCC []) [47] true).2 = some .panic := by decide +kernel

end ModVerif.Tie.FnZip
