/-
  C20 about the REGENERATED directive layer: `parseToFile_total`, `lax_superset` and `unknown_verb_unknownDirective` of
  Props/C20.lean restated about `Generated.Rule.parseToFile` / `Generated.Rule.File_add` (Generated/FnRule.lean,
  regenerated from modfile/rule.go on every check) through the ties of Tie/FnRuleAdd.lean.  The world parameters are the
  driver's (Drv/GenRule.lean); the syntax tree comes from `parseSynI` (the hand model's parser, tied to the regenerated
  parser by Tie/FnParse.lean, loaded into the heap); `fileM` is the driver's read-back of the typed file from the heap.
  The fuel hypothesis is `TreeFuel` on the parsed tree (decidable: `FnRuleAddP.treeFuelB`), see Tie/FnRuleAdd.lean.

  * `parseToFile_total_gen`: the regenerated Parse / ParseLax never runs out of fuel and never panics; it returns a
    pointer whose read-back is the model's file, or nil and an error value that stands for the model's NON-EMPTY error
    list — and which of the two is decided by the model.
  * `lax_superset_gen`: every file the regenerated strict parser accepts is accepted by the regenerated lax parser, with
    the same module, go, require and retract entries (read back from the two heaps).
  * `unknown_verb_unknownDirective_gen`: on a represented state the regenerated `File.add` in strict mode, for a verb
    outside `addVerbs`, appends exactly the "unknown directive" error at the start of the line and changes nothing else.
-/
import ModVerif.Tie.FnRuleAdd
import ModVerif.Props.C20
namespace ModVerif.Tie.FnRuleC20
open ModVerif ModVerif.GoRt ModVerif.Generated ModVerif.Tie.FnRuleRep
open ModVerif.Tie.FnRuleAddA ModVerif.Tie.FnRuleAddB ModVerif.Tie.FnRuleAddO ModVerif.Tie.FnRuleAddP ModVerif.Tie.FnRuleAddEx
open ModVerif.Drv.GenRule (isPrintI unquoteI laxSubI deprecatedSubI fixG parseSynI idOf idsOf fileM encErr)

/-- an error value that stands for an error list is not nil -/
theorem ErrValRep.isSome {e : Option String} {es : List Modfile.RuleErr} (h : ErrValRep e es) : e ≠ none := by
  rcases h with ⟨errs, rfl, _⟩ | ⟨_, _, _, rfl⟩ <;> simp [Rule.errListErr]

/-- **Parse / ParseLax, regenerated: a file or a NON-EMPTY error list, as the model says; never out of fuel, never a
    panic** -/
theorem parseToFile_total_gen (name data : Bytes) (fx : Option Modfile.Fixer) (strict : Bool) (F fuel : Nat)
    (hT : ∀ fs, Modfile.parse name data = .ok fs → TreeFuel F fuel fx fs) :
    (∃ fp h f, PTF fuel name data (fixG fx) strict default = .ok ((fp, none), h) ∧ fileM (idsOf name data) h fp = some f ∧
      Modfile.parseToFile name data fx strict = .ok f) ∨
    (∃ e h es, PTF fuel name data (fixG fx) strict default = .ok (((0 : Int), e), h) ∧ ErrValRep e es ∧ es ≠ [] ∧
      Modfile.parseToFile name data fx strict = .error es) := by
  have := FnRuleAdd.parseToFile_tie name data fx strict F fuel hT
  cases hm : Modfile.parseToFile name data fx strict with
  | ok f =>
    rw [hm] at this
    obtain ⟨fp, h, h1, h2⟩ := this
    exact Or.inl ⟨fp, h, f, h1, h2, rfl⟩
  | error es =>
    rw [hm] at this
    obtain ⟨e, h, h1, h2, h3⟩ := this
    exact Or.inr ⟨e, h, es, h1, h2, h3, rfl⟩

-- non-vacuity: both alternatives occur (evaluated), the fuel hypothesis holds for these inputs
set_option maxRecDepth 100000 in
example : (match PTF 5000 (B "go.mod") exMod (fixG (some Modfile.fixStub)) true default with
      | .ok ((fp, none), h) => (fileM (idsOf (B "go.mod") exMod) h fp).isSome
      | _ => false) = true ∧
    (match PTF 5000 (B "go.mod") exBad (fixG none) true default with
      | .ok ((fp, some _), _) => decide (fp = 0)
      | _ => false) = true ∧
    inputFuelB 4096 5000 (B "go.mod") exMod (some Modfile.fixStub) = true ∧ inputFuelB 4096 5000 (B "go.mod") exBad none = true := by
  decide +kernel

/-- **lax ⊇ strict, regenerated**: a file accepted by the regenerated strict parser is accepted by the regenerated lax
    parser with the same module, go, require and retract entries -/
theorem lax_superset_gen (name data : Bytes) (fx : Option Modfile.Fixer) (F fuel : Nat)
    (hT : ∀ fs, Modfile.parse name data = .ok fs → TreeFuel F fuel fx fs)
    (fp : Int) (h : Rule.Heap) (f : Modfile.File)
    (hs : PTF fuel name data (fixG fx) true default = .ok ((fp, none), h)) (hf : fileM (idsOf name data) h fp = some f) :
    ∃ fp' h' g, PTF fuel name data (fixG fx) false default = .ok ((fp', none), h') ∧ fileM (idsOf name data) h' fp' = some g ∧
      g.module = f.module ∧ g.go = f.go ∧ g.require = f.require ∧ g.retract = f.retract := by
  rcases parseToFile_total_gen name data fx true F fuel hT with ⟨fp1, h1, f1, r1, m1, hm⟩ | ⟨e, h1, es, r1, hv, _, _⟩
  · rw [hs] at r1
    cases r1
    rw [hf] at m1
    cases m1
    obtain ⟨g, hg, e1, e2, e3, e4⟩ := Props.C20.lax_superset name data fx f hm
    rcases parseToFile_total_gen name data fx false F fuel hT with ⟨fp2, h2, f2, r2, m2, hm2⟩ | ⟨_, _, es2, _, _, _, hm2⟩
    · rw [hg] at hm2
      cases hm2
      exact ⟨fp2, h2, g, r2, m2, e1, e2, e3, e4⟩
    · rw [hg] at hm2; cases hm2
  · rw [hs] at r1
    cases r1
    exact absurd rfl (ErrValRep.isSome hv)

-- non-vacuity: the strict and the lax run on the example file, the four fields agree
set_option maxRecDepth 100000 in
example : (match PTF 5000 (B "go.mod") exMod (fixG (some Modfile.fixStub)) true default,
      PTF 5000 (B "go.mod") exMod (fixG (some Modfile.fixStub)) false default with
    | .ok ((fp, none), h), .ok ((fp', none), h') =>
      (match fileM (idsOf (B "go.mod") exMod) h fp, fileM (idsOf (B "go.mod") exMod) h' fp' with
       | some f, some g => decide (g.module = f.module ∧ g.go = f.go ∧ g.require = f.require ∧ g.retract = f.retract ∧ f.retract ≠ [])
       | _, _ => false)
    | _, _ => false) = true := by decide +kernel

/-- **unknown verb, regenerated**: in strict mode the regenerated `File.add`, for a verb outside `addVerbs` (the case
    labels of File.add's switch, `Tie.modfile_addVerbs_tie`), appends the "unknown directive" error at the start of the
    line — the model's `unknown_verb_unknownDirective` result — and changes no token, no typed entry -/
theorem unknown_verb_unknownDirective_gen {ι : Int → Nat} {h : Rule.Heap} {fp : Int} {errs : List Rule.Error} {st : Modfile.AddState}
    {syn : Modfile.FileSyntax} {lp : Int} {l : Modfile.Line} {pre args : List Bytes}
    (R : RepRS ι h fp errs st syn) (hl : RLine ι h lp l) (htok : l.token = pre ++ args)
    (block : Int) (bc : Option Modfile.Comments) (verb : Bytes) (fx : Option Modfile.Fixer) (fuel : Nat)
    (hv : Modfile.verbIn verb Modfile.addVerbs = false) :
    ∃ errs' h',
      Rule.File_add deprecatedSubI Modfile.goVersionRE isPrintI laxSubI Quote.quote Modfile.toolchainRE unquoteI fuel fp errs block lp verb
        { owner := lp, lo := (pre.length : Int) } (fixG fx) true h = .ok (((), errs'), h') ∧
      StepPost ι h fp syn lp l pre (Modfile.File.add st bc l verb args fx true) errs' h' ∧
      Modfile.File.add st bc l verb args fx true = (st.err l.start .unknownDirective, args) := by
  have hm := Props.C20.unknown_verb_unknownDirective st bc l verb args fx hv
  obtain ⟨errs', h', h1, h2⟩ := FA_unknown R hl htok fuel block verb (fixG fx) hv
  exact ⟨errs', h', h1, by rw [hm]; exact h2, hm⟩

-- non-vacuity: `frob` is not a verb; the regenerated File.add reports it
set_option maxRecDepth 100000 in
example : Modfile.verbIn (B "frob") Modfile.addVerbs = false ∧
    (match Rule.File_add deprecatedSubI Modfile.goVersionRE isPrintI laxSubI Quote.quote Modfile.toolchainRE unquoteI 100 1 [] 0 1 (B "frob")
        { owner := 1, lo := 1 } none true (exLoad (B "frob x\n")) with
      | .ok ((_, errs), _) => errs.map (fun e => (e.Pos, e.Err))
      | .error _ => []) = [({ Line := 1, LineRune := 1, Byte := 0 }, some "unknown directive: %s")] := by decide +kernel

end ModVerif.Tie.FnRuleC20
