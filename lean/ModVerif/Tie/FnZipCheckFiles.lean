/-
  Tie theorem, zip/zip.go `checkFiles` (lines 217–353): the definition regenerated from the Go source by go2lean
  (`Generated/FnZip.lean`: `checkFiles` with the hoisted closures `checkFiles_addError`, `checkFiles_inSubmodule` and the
  hoisted loops `checkFiles_loop1` = go.mod pre-pass, `checkFiles_loop2` = inside `inSubmodule`, `checkFiles_loop3` = main
  pass) computes exactly what the hand model `Zip.checkFilesSt` (`Model/Zip.lean`) says — for every file list, no panic,
  no fuel exhaustion.  C17 (and C05 through `Create`) rest on this function.

  Instantiation (the one of the driver, `Drv/GenZip.lean` `handleCf`):
  * a model file `Zip.FileInfo` is the generated `File` `toGFile f` (mode bits `modeBits`, `Lstat` fails with "lstat" for
    `Mode.lstatErr`, `Open` yields the content);
  * `module.CheckFilePath` is `cfpOf E` (= `fun p => if E.cfp p then none else some "filepath"`);
  * `strings.EqualFold(·, "go.mod")` and `strings.ToLower(·) == "go.mod"` are any functions that agree with the model's
    `equalFoldGoMod` / `toLowerIsGoMod` (hypotheses `hef`, `htl`; the driver's `fun s => s.map asciiLower` satisfies `htl`
    by `rfl`);
  * `unicode.SimpleFold` is any `simpleFold` with tie-zip's `FoldsTo simpleFold K`, and the model's `E.toFold` is
    `Zip.strToFold`;
  * `parseGoVers` / `version.Lang` / `version.Compare` are arbitrary: the generated code extracts the version string
    `versOf parseGoVers versionLang files` from the last regular root `go.mod` and tests `Compare(vers, "go1.24") >= 0`;
    the model takes that boolean as its argument (`checkFiles_tie_vers`), and `checkFiles_tie` states the result for the
    model's own flag `Zip.goVers files` under the hypothesis that the two agree (`goVers_of_flags`: they do when "" compares
    below go1.24 and every regular root go.mod carries the flag its content says).

  Result representation `embedCf` (Proofs/TieFnZipCfBase.lean): `CheckedFiles` with `Valid` = the model's list, `Omitted` /
  `Invalid` = the model's lists with `Err := some (reasonText r)` (`reasonText` inverts the driver's `reasonOf`),
  `SizeError = some <format literal>` iff the model's `sizeError`; `validFiles` through `toGFile`; `validSizes` = their sizes.
  Maps inside the proof: `errPaths` ↔ `St.errPaths` (`epOf`), `haveGoMod` ↔ `Pre.haveGoMod` (`hgOf`), `collisions` ↔ `CC`
  (tie-zip's `ofCC` / `toCC`).

  No extra assumption on the paths is needed: the main pass reaches the collision check only for paths with
  `path.Clean(p) == p` and `!path.IsAbs(p)`, for which the model's fuel `p.length + 1` of `ccCheckTop` is enough
  (`Proofs.ZipA.fuelOK_cleanRel`; `CfpSound` is not used).
-/
import ModVerif.Generated.FnZip
import ModVerif.Model.Zip
import ModVerif.Drv.GenZip
import ModVerif.Tie.FnZip
import ModVerif.Proofs.TieFnZipCfTop
namespace ModVerif.Tie.FnZipCheckFiles
open ModVerif ModVerif.GoRt ModVerif.GoRtZip ModVerif.TieFnZip ModVerif.TieFnZipCf
open ModVerif.Drv.GenZip (toGFile simpleFoldI versionCompareI)

/-- `checkFiles(files)` for every file list, with the go-version flag the generated code derives itself:
    `version.Compare(vers, "go1.24") >= 0` where `vers = versOf …` is the version string of the last regular root go.mod
    ("" if there is none).  Fuel: `fuelBound K files = len(files) + 3 * (longest path) + K + 6`. -/
theorem checkFiles_tie_vers (E : Zip.Env) (equalFold : Bytes → Bytes → Bool) (parseGoVers : Bytes → Bytes → Bytes)
    (simpleFold : Int → Int) (toLower : Bytes → Bytes) (versionCompare : Bytes → Bytes → Int)
    (versionLang : Bytes → Bytes) (K : Nat)
    (hsf : FoldsTo simpleFold K) (hE : E.toFold = Zip.strToFold)
    (hef : ∀ s, equalFold s Zip.goModName = Zip.equalFoldGoMod s)
    (htl : ∀ s, decide (toLower s = Zip.goModName) = Zip.toLowerIsGoMod s)
    (files : List Zip.FileInfo) (fuel : Nat) (hfuel : fuelBound K files ≤ fuel) :
    Generated.Zip.checkFiles (cfpOf E) equalFold parseGoVers simpleFold toLower versionCompare versionLang fuel
        (files.map toGFile) =
      .ok (embedCf (Zip.checkFilesSt E files
        (decide (0 ≤ versionCompare (versOf parseGoVers versionLang files) go124)))) :=
  checkFiles_eq equalFold parseGoVers simpleFold toLower versionCompare versionLang E K hsf hE hef htl files fuel hfuel

/-- the flag the model derives from the list (`Zip.goVers`: the `goGe124` bit of the last regular root go.mod) is the
    comparison the generated code makes, when "" compares below go1.24 and every regular root go.mod carries the flag its
    content says -/
theorem goVers_of_flags (parseGoVers : Bytes → Bytes → Bytes) (versionCompare : Bytes → Bytes → Int)
    (versionLang : Bytes → Bytes) (files : List Zip.FileInfo) (h0 : versionCompare [] go124 < 0)
    (hfl : ∀ f ∈ files, f.mode = .regular → f.path = Zip.goModName →
      decide (0 ≤ versionCompare (versionLang (parseGoVers Zip.goModName f.content)) go124) = f.goGe124) :
    decide (0 ≤ versionCompare (versOf parseGoVers versionLang files) go124) = Zip.goVers files :=
  goVers_eq parseGoVers versionCompare versionLang files h0 hfl

/-- `checkFiles(files)` = the model's `checkFilesSt E files (goVers files)` (whose `.cf` is `Zip.checkFilesV E files`),
    when the version comparison of the generated code gives the model's flag (`goVers_of_flags`). -/
theorem checkFiles_tie (E : Zip.Env) (equalFold : Bytes → Bytes → Bool) (parseGoVers : Bytes → Bytes → Bytes)
    (simpleFold : Int → Int) (toLower : Bytes → Bytes) (versionCompare : Bytes → Bytes → Int)
    (versionLang : Bytes → Bytes) (K : Nat)
    (hsf : FoldsTo simpleFold K) (hE : E.toFold = Zip.strToFold)
    (hef : ∀ s, equalFold s Zip.goModName = Zip.equalFoldGoMod s)
    (htl : ∀ s, decide (toLower s = Zip.goModName) = Zip.toLowerIsGoMod s)
    (files : List Zip.FileInfo)
    (hv : decide (0 ≤ versionCompare (versOf parseGoVers versionLang files) go124) = Zip.goVers files)
    (fuel : Nat) (hfuel : fuelBound K files ≤ fuel) :
    Generated.Zip.checkFiles (cfpOf E) equalFold parseGoVers simpleFold toLower versionCompare versionLang fuel
        (files.map toGFile) =
      .ok (embedCf (Zip.checkFilesSt E files (Zip.goVers files))) := by
  rw [← hv]
  exact checkFiles_tie_vers E equalFold parseGoVers simpleFold toLower versionCompare versionLang K hsf hE hef htl files
    fuel hfuel

/-- the report alone: `CheckFiles` returns the model's `checkFilesV` -/
theorem checkFiles_tie_report (E : Zip.Env) (equalFold : Bytes → Bytes → Bool) (parseGoVers : Bytes → Bytes → Bytes)
    (simpleFold : Int → Int) (toLower : Bytes → Bytes) (versionCompare : Bytes → Bytes → Int)
    (versionLang : Bytes → Bytes) (K : Nat)
    (hsf : FoldsTo simpleFold K) (hE : E.toFold = Zip.strToFold)
    (hef : ∀ s, equalFold s Zip.goModName = Zip.equalFoldGoMod s)
    (htl : ∀ s, decide (toLower s = Zip.goModName) = Zip.toLowerIsGoMod s)
    (files : List Zip.FileInfo)
    (hv : decide (0 ≤ versionCompare (versOf parseGoVers versionLang files) go124) = Zip.goVers files)
    (fuel : Nat) (hfuel : fuelBound K files ≤ fuel) :
    (Generated.Zip.checkFiles (cfpOf E) equalFold parseGoVers simpleFold toLower versionCompare versionLang fuel
        (files.map toGFile)).map (·.1) = .ok (embCF (Zip.checkFilesV E files)) := by
  rw [checkFiles_tie E equalFold parseGoVers simpleFold toLower versionCompare versionLang K hsf hE hef htl files hv
    fuel hfuel]
  rfl

/-! ### the driver's instance -/

/-- `strings.ToLower` as the driver instantiates it -/
theorem toLower_driver (s : Bytes) :
    decide ((fun s : Bytes => s.map Zip.asciiLower) s = Zip.goModName) = Zip.toLowerIsGoMod s := by
  unfold Zip.toLowerIsGoMod Zip.lowerAscii
  rw [Bool.beq_eq_decide_eq]

/-- the driver's `parseGoVers` stand-in for the list `fs` (the harness supplies the go ≥ 1.24 bit per content) -/
def pgvDriver (fs : List Zip.FileInfo) : Bytes → Bytes → Bytes :=
  fun _ data => if fs.any (fun f => f.content == data && f.goGe124) then B "go1.24" else B "go1.0"

/-- fuel the driver passes -/
def driverFuel (fs : List Zip.FileInfo) : Nat := 8 * (fs.map fun f => f.path.length).sum + 4 * fs.length + 64

/-- `checkFiles` as the driver (`Drv.GenZip.handleCf`) runs it — `simpleFoldI`, `versionCompareI`, `version.Lang = id`,
    its `parseGoVers` stand-in, its fuel — returns the model's `checkFilesSt` with the model's own flag, for every list
    in which files with the content of a regular root go.mod agree on the go ≥ 1.24 bit (what the harness sends: the bit is
    computed from the content).  `equalFold` (the driver passes `GenModule.equalFoldI`) only has to agree with the model's
    `equalFoldGoMod` on "go.mod". -/
theorem checkFiles_tie_driver (E : Zip.Env) (hE : E.toFold = Zip.strToFold) (equalFold : Bytes → Bytes → Bool)
    (hef : ∀ s, equalFold s Zip.goModName = Zip.equalFoldGoMod s) (fs : List Zip.FileInfo)
    (hcons : ∀ f ∈ fs, f.mode = .regular → f.path = Zip.goModName → f.goGe124 = false →
      ∀ g ∈ fs, g.content = f.content → g.goGe124 = false) :
    Generated.Zip.checkFiles (cfpOf E) equalFold (pgvDriver fs) simpleFoldI (fun s => s.map Zip.asciiLower)
        versionCompareI id (driverFuel fs) (fs.map toGFile) =
      .ok (embedCf (Zip.checkFilesSt E fs (Zip.goVers fs))) := by
  have h124 : B "go1.24" = go124 := by decide +kernel
  apply checkFiles_tie E equalFold (pgvDriver fs) simpleFoldI _ versionCompareI id 1 FnZip.foldsTo_simpleFoldI hE hef
    toLower_driver fs
  · apply goVers_of_flags
    · unfold versionCompareI
      rw [h124]; decide
    · intro f hf hm hp
      unfold versionCompareI pgvDriver
      simp only [id]
      cases hg : f.goGe124 with
      | true =>
        have : fs.any (fun g => g.content == f.content && g.goGe124) = true :=
          List.any_eq_true.mpr ⟨f, hf, by simp [hg]⟩
        rw [this]; simp
      | false =>
        have : fs.any (fun g => g.content == f.content && g.goGe124) = false := by
          rw [List.any_eq_false]
          intro g hgm
          by_cases hc : g.content = f.content
          · simp [hcons f hf hm hp hg g hgm hc]
          · simp [hc]
        rw [this]
        decide +kernel
  · unfold fuelBound driverFuel
    have := maxPathLen_le_sum fs
    omega

/-! ### non-vacuity -/

def exEnv : Zip.Env := { cfp := fun p => !p.isEmpty, toFold := Zip.strToFold, modOK := fun _ _ => true }

/-- every kind of rule occurs: a root go.mod declaring go ≥ 1.24 (so `vendor/modules.txt` is omitted and `pkg/vendor/v.go`
    is kept), a case collision, a nested module, a vendored package, a symlink, an unclean path, a failing `Lstat` (once on
    a go.mod: reported by the first loop) -/
def exFiles : List Zip.FileInfo :=
  [⟨B "go.mod", .regular, 2, B "hi", true⟩, ⟨B "a/b.go", .regular, 1, B "x", false⟩, ⟨B "a/B.go", .regular, 1, B "x", false⟩,
   ⟨B "sub/go.mod", .regular, 0, [], false⟩, ⟨B "sub/c.go", .regular, 1, B "y", false⟩,
   ⟨B "vendor/p/q.go", .regular, 1, B "z", false⟩, ⟨B "vendor/modules.txt", .regular, 1, B "m", false⟩,
   ⟨B "pkg/vendor/v.go", .regular, 1, B "v", false⟩, ⟨B "link", .symlink, 0, [], false⟩, ⟨B "./x", .regular, 0, [], false⟩,
   ⟨B "t/GO.MOD", .lstatErr, 0, [], false⟩, ⟨B "gone", .lstatErr, 0, [], false⟩, ⟨B "d", .dir, 0, [], false⟩]

/-- the generated function and the model agree on the example (both sides evaluated by the kernel) … -/
example : Generated.Zip.checkFiles (cfpOf exEnv) (fun a _ => Zip.equalFoldGoMod a) (pgvDriver exFiles) simpleFoldI
      (fun s => s.map Zip.asciiLower) versionCompareI id (driverFuel exFiles) (exFiles.map toGFile) =
    .ok (embedCf (Zip.checkFilesSt exEnv exFiles (Zip.goVers exFiles))) := by decide +kernel

/-- … and this is the report -/
example : (embedCf (Zip.checkFilesSt exEnv exFiles (Zip.goVers exFiles))).1 =
    { Valid := [B "go.mod", B "a/b.go", B "pkg/vendor/v.go"],
      Omitted := [⟨B "sub/go.mod", some "errSubmoduleFile"⟩, ⟨B "sub/c.go", some "errSubmoduleFile"⟩,
        ⟨B "vendor/p/q.go", some "errVendored"⟩, ⟨B "vendor/modules.txt", some "errVendored"⟩,
        ⟨B "link", some "errSymlink"⟩, ⟨B "d", some "errNotRegular"⟩],
      Invalid := [⟨B "t/GO.MOD", some "lstat"⟩, ⟨B "a/B.go", some "case-insensitive file name collision: %q and %q"⟩,
        ⟨B "./x", some "errPathNotClean"⟩, ⟨B "gone", some "lstat"⟩],
      SizeError := none } := by decide +kernel

/-- the hypotheses of `checkFiles_tie_driver` hold for the example -/
example : exEnv.toFold = Zip.strToFold ∧ Zip.goVers exFiles = true ∧
    (∀ f ∈ exFiles, f.mode = .regular → f.path = Zip.goModName → f.goGe124 = false →
      ∀ g ∈ exFiles, g.content = f.content → g.goGe124 = false) := by
  refine ⟨rfl, by decide +kernel, ?_⟩
  decide +kernel

end ModVerif.Tie.FnZipCheckFiles
