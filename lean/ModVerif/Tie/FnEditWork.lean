/-
  Tie theorems of the go.work EDIT OPERATIONS of modfile/work.go, for the regenerated code of Generated/FnEdit.lean (pointer
  graph = heap, namespace ModVerif.Generated.Edit) against the hand model Model/Modfile/Edit.lean, as simulations over the
  representation `RepW h fp e` of Proofs/TieFnEditRep.lean ("heap `h` at the `*WorkFile` pointer `fp` represents the model
  go.work `e`": line pointer = line id, a typed entry's `Syntax` = its `lineId`, `e.next = lines.length + 1`):

    WorkFile_AddGoStmt        = workAddGoStmt         (scan `firstNonComment`)
    WorkFile_AddToolchainStmt = workAddToolchainStmt  (scan `afterGoLine`: the forward `goto` out of the loop is `Ctl.ret`)
    WorkFile_DropGoStmt       = workDropGoStmt
    WorkFile_DropToolchainStmt= workDropToolchainStmt
    WorkFile_AddGodebug       = workAddGodebug        (`firstRest`, `markAll`, `addLine`)
    WorkFile_addNewGodebug    = the `none` branch of `addGodebugCore`
    WorkFile_DropGodebug      = workDropGodebug       (`clearAll`, `markAll`)
    WorkFile_AddUse           = addUse
    WorkFile_AddNewUse        = addNewUse
    WorkFile_SetUse           = setUse … (perm := id) (the map `need` is iterated in insertion order; `permOf false`)
    WorkFile_DropUse          = dropUse
    WorkFile_AddReplace       = workAddReplace        (around the shared `addReplace`, tie of agent edit-req)
    WorkFile_DropReplace      = workDropReplace

  Shape: `match Model.op e args with | .ok e' => ∃ h', Generated.op … fuel fp args h = .ok (none, h') ∧ RepW h' fp e'
  | .error _ => <the Go method returns its error with the heap unchanged / the generated code panics>`.  The model's errors
  are `invalidGoVersion` / `invalidToolchain` (returned; the heap is unchanged) and `nilDeref` (a Go panic: `Err.panic`).
  World functions are instantiated as the driver does (`isPrintI`, `quoteI = Quote.quote`, `goVersionRE`, `toolchainRE`).

  Hypotheses besides `RepW` and fuel: for the four scalar statements `lineId ≠ 0` of `f.Go` / `f.Toolchain` — Go
  dereferences `f.Go.Syntax`, the model updates "the line with that id" (a no-op for the nil id 0); it follows from the tree
  invariant `InvW` of the property theorems (`scalarsLive_of_InvW`).  `SetUse`: `dirs` are pointers to `Use` objects
  carrying the wanted pairs (`DirsOK`), and the fuel of the final `SortBlocks` is asked of the model state before it
  (`setUsePre`).

  Built on: Tie/FnEditTree.lean (leaf functions, edit-rep), Tie/FnEditAddLine.lean (`addLine`, edit-tree),
  Tie/FnEditSort.lean (`WorkFile_SortBlocks`, edit-sort), Proofs/TieFnEditReqD.lean (`addReplace`, edit-req).
  Helper lemmas: Proofs/TieFnEditWork{A,…,F}.lean; example harness: Proofs/TieFnEditWorkEx.lean.
-/
import ModVerif.Generated.FnEdit
import ModVerif.Model.Modfile.Edit
import ModVerif.Proofs.TieFnEditRep
import ModVerif.Proofs.TieFnEditWorkB
import ModVerif.Proofs.TieFnEditWorkC
import ModVerif.Proofs.TieFnEditWorkD
import ModVerif.Proofs.TieFnEditWorkE
import ModVerif.Proofs.TieFnEditWorkF
import ModVerif.Proofs.TieFnEditWorkEx
import ModVerif.Proofs.TieFnEditReqD
import ModVerif.Proofs.EditRefineInvWork
import ModVerif.Tie.FnEditAddLine
import ModVerif.Tie.FnEditSort
set_option linter.unusedSimpArgs false
set_option linter.unusedVariables false
namespace ModVerif.Tie.FnEditWork
open ModVerif ModVerif.GoRt ModVerif.Generated.Edit ModVerif.Tie.FnEditRep ModVerif.Tie.FnEditWorkEx
open ModVerif.TieFnEditAddLine (nodeCount)
open ModVerif.Tie.FnEditWorkE (DirsOK setUsePre)
open ModVerif.Tie.FnEditSortE (workSortFuel)
open ModVerif.Drv.GenEdit (isPrintI quoteI)
open ModVerif.Modfile.Edit (EWork)

theorem ok_of_isSome {ε α : Type} {x : Except ε α} (hx : x.toOption.isSome = true) : ∃ a, x = .ok a := by
  cases x with
  | ok a => exact ⟨a, rfl⟩
  | error e => cases hx

/-- the hypothesis `lineId ≠ 0` of the scalar statements follows from the tree invariant of the edit model -/
theorem scalarsLive_of_InvW {e : EWork} (hi : Modfile.Edit.InvW e) :
    (∀ g, e.f.go = some g → g.lineId ≠ 0) ∧ (∀ t, e.f.toolchain = some t → t.lineId ≠ 0) := by
  constructor
  · intro g hg
    have hm : Modfile.Edit.entGo g ∈ Modfile.Edit.entriesW e.f := by
      simp [Modfile.Edit.entriesW, hg]
    obtain ⟨v, hv, hid, _⟩ := hi.mtch.cover _ hm
    have := hi.tree.pos _ (Modfile.Edit.view_id_mem_treeIds hv)
    rw [hid] at this
    exact this
  · intro t ht
    have hm : Modfile.Edit.entTc t ∈ Modfile.Edit.entriesW e.f := by
      simp [Modfile.Edit.entriesW, ht]
    obtain ⟨v, hv, hid, _⟩ := hi.mtch.cover _ hm
    have := hi.tree.pos _ (Modfile.Edit.view_id_mem_treeIds hv)
    rw [hid] at this
    exact this

/-! ### go / toolchain -/

/-- **`WorkFile.AddGoStmt` (work.go:121) = the model's `workAddGoStmt`** -/
theorem WorkFile_AddGoStmt_tie {h : Heap} {fp : Int} {e : EWork} (R : RepW h fp e) (version : Bytes) (fuel : Nat)
    (hlive : ∀ g, e.f.go = some g → g.lineId ≠ 0) (hf : e.f.syn.stmts.length + 1 ≤ fuel) :
    match Modfile.Edit.workAddGoStmt e version with
    | .ok e' => ∃ h', WorkFile_AddGoStmt Modfile.goVersionRE fuel fp version h = .ok (none, h') ∧ RepW h' fp e'
    | .error _ => ∃ msg, WorkFile_AddGoStmt Modfile.goVersionRE fuel fp version h = .ok (some msg, h) := by
  have S := FnEditWorkD.WorkFile_AddGoStmt_sim R version fuel hlive hf
  cases hx : Modfile.Edit.workAddGoStmt e version with
  | ok e' => exact S.1 e' hx
  | error er => exact S.2 er hx

/-- **`WorkFile.AddToolchainStmt` (work.go:147) = the model's `workAddToolchainStmt`** -/
theorem WorkFile_AddToolchainStmt_tie {h : Heap} {fp : Int} {e : EWork} (R : RepW h fp e) (name : Bytes) (fuel : Nat)
    (hlive : ∀ t, e.f.toolchain = some t → t.lineId ≠ 0) (hf : e.f.syn.stmts.length + 1 ≤ fuel) :
    match Modfile.Edit.workAddToolchainStmt e name with
    | .ok e' => ∃ h', WorkFile_AddToolchainStmt Modfile.toolchainRE fuel fp name h = .ok (none, h') ∧ RepW h' fp e'
    | .error _ => ∃ msg, WorkFile_AddToolchainStmt Modfile.toolchainRE fuel fp name h = .ok (some msg, h) := by
  have S := FnEditWorkD.WorkFile_AddToolchainStmt_sim R name fuel hlive hf
  cases hx : Modfile.Edit.workAddToolchainStmt e name with
  | ok e' => exact S.1 e' hx
  | error er => exact S.2 er hx

/-- **`WorkFile.DropGoStmt` (work.go:182) = the model's `workDropGoStmt`** -/
theorem WorkFile_DropGoStmt_tie {h : Heap} {fp : Int} {e : EWork} (R : RepW h fp e)
    (hlive : ∀ g, e.f.go = some g → g.lineId ≠ 0) :
    ∃ h', WorkFile_DropGoStmt fp h = .ok ((), h') ∧ RepW h' fp (Modfile.Edit.workDropGoStmt e) :=
  FnEditWorkD.WorkFile_DropGoStmt_sim R hlive

/-- **`WorkFile.DropToolchainStmt` (work.go:190) = the model's `workDropToolchainStmt`** -/
theorem WorkFile_DropToolchainStmt_tie {h : Heap} {fp : Int} {e : EWork} (R : RepW h fp e)
    (hlive : ∀ t, e.f.toolchain = some t → t.lineId ≠ 0) :
    ∃ h', WorkFile_DropToolchainStmt fp h = .ok ((), h') ∧ RepW h' fp (Modfile.Edit.workDropToolchainStmt e) :=
  FnEditWorkD.WorkFile_DropToolchainStmt_sim R hlive

-- the example go.work (Proofs/TieFnEditWorkEx.lean): `// c`, `go 1.21`, `use ( ./a ./b )`, `replace x.y/z => ../z`
example : runW (WorkFile_AddGoStmt Modfile.goVersionRE 64 · (B "1.22")) = modelW (Modfile.Edit.workAddGoStmt · (B "1.22")) := by
  decide +kernel
example : runW (fun fp h => do let (_, h) ← WorkFile_DropGoStmt fp h; WorkFile_AddGoStmt Modfile.goVersionRE 64 fp (B "1.22") h) =
    modelW (fun e => Modfile.Edit.workAddGoStmt (Modfile.Edit.workDropGoStmt e) (B "1.22")) := by decide +kernel
-- a returned error: the heap is untouched
example : ∃ msg, WorkFile_AddGoStmt Modfile.goVersionRE 64 exFp (B "x") exHeap = .ok (some msg, exHeap) := by
  have T := WorkFile_AddGoStmt_tie exR (B "x") 64 (by decide +kernel) (by decide +kernel)
  cases hx : Modfile.Edit.workAddGoStmt exW (B "x") with
  | ok e' =>
    have hn : (Modfile.Edit.workAddGoStmt exW (B "x")).toOption.isSome = false := by decide +kernel
    rw [hx] at hn; cases hn
  | error er => rw [hx] at T; exact T
-- the toolchain line goes after the `go` line (the `goto` branch) …
example : runW (WorkFile_AddToolchainStmt Modfile.toolchainRE 64 · (B "go1.21.0")) =
    modelW (Modfile.Edit.workAddToolchainStmt · (B "go1.21.0")) := by decide +kernel
-- … and, without a `go` line, after the leading comment blocks; a second call rewrites the line
example : runW (fun fp h => do
      let (_, h) ← WorkFile_DropGoStmt fp h
      let (_, h) ← WorkFile_AddToolchainStmt Modfile.toolchainRE 64 fp (B "go1.21.0") h
      WorkFile_AddToolchainStmt Modfile.toolchainRE 64 fp (B "go1.22.1") h) =
    modelW (fun e => do
      let e ← Modfile.Edit.workAddToolchainStmt (Modfile.Edit.workDropGoStmt e) (B "go1.21.0")
      Modfile.Edit.workAddToolchainStmt e (B "go1.22.1")) := by decide +kernel
example : runW (fun fp h => do
      let (_, h) ← WorkFile_AddToolchainStmt Modfile.toolchainRE 64 fp (B "go1.21.0") h
      WorkFile_DropToolchainStmt fp h) =
    modelW (fun e => do
      let e ← Modfile.Edit.workAddToolchainStmt e (B "go1.21.0")
      pure (Modfile.Edit.workDropToolchainStmt e)) := by decide +kernel
-- the hypotheses hold of the example (so the theorems apply to what the parser produces)
example : ∃ h', WorkFile_DropGoStmt exFp exHeap = .ok ((), h') ∧ RepW h' exFp (Modfile.Edit.workDropGoStmt exW) :=
  WorkFile_DropGoStmt_tie exR (by decide +kernel)
example : ∃ e', Modfile.Edit.workAddGoStmt exW (B "1.22") = .ok e' ∧
    ∃ h', WorkFile_AddGoStmt Modfile.goVersionRE 64 exFp (B "1.22") exHeap = .ok (none, h') ∧ RepW h' exFp e' := by
  obtain ⟨e', he'⟩ := ok_of_isSome (x := Modfile.Edit.workAddGoStmt exW (B "1.22")) (by decide +kernel)
  have T := WorkFile_AddGoStmt_tie exR (B "1.22") 64 (by decide +kernel) (by decide +kernel)
  rw [he'] at T
  exact ⟨e', he', T⟩

/-! ### godebug -/

/-- **`WorkFile.addNewGodebug` (work.go:226)**: the `none` branch of the model's `addGodebugCore` -/
theorem WorkFile_addNewGodebug_tie {h : Heap} {fp : Int} {e : EWork} (R : RepW h fp e) (key value : Bytes) (fuel : Nat)
    (hf : nodeCount e.f.syn.stmts + 3 ≤ fuel) :
    ∃ h', WorkFile_addNewGodebug fuel fp key value h = .ok ((), h') ∧
      RepW h' fp { f := { e.f with godebug := e.f.godebug ++ [{ key := key, value := value, lineId := e.next }],
                                   syn := Modfile.Edit.addLine e.f.syn none [B "godebug", key ++ [61] ++ value] e.next },
                   next := e.next + 1 } :=
  FnEditWorkC.WorkFile_addNewGodebug_sim R key value fuel hf

/-- **`WorkFile.AddGodebug` (work.go:203) = the model's `workAddGodebug`** -/
theorem WorkFile_AddGodebug_tie {h : Heap} {fp : Int} {e : EWork} (R : RepW h fp e) (key value : Bytes) (fuel : Nat)
    (hf : nodeCount e.f.syn.stmts + 3 ≤ fuel) (hf2 : e.f.godebug.length + 1 ≤ fuel) :
    match Modfile.Edit.workAddGodebug e key value with
    | .ok e' => ∃ h', WorkFile_AddGodebug fuel fp key value h = .ok (none, h') ∧ RepW h' fp e'
    | .error _ => WorkFile_AddGodebug fuel fp key value h = .error .panic := by
  have S := FnEditWorkC.WorkFile_AddGodebug_sim R key value fuel hf hf2
  cases hx : Modfile.Edit.workAddGodebug e key value with
  | ok e' => exact S.1 e' hx
  | error er => exact S.2 er hx

/-- **`WorkFile.DropGodebug` (work.go:236) = the model's `workDropGodebug`** -/
theorem WorkFile_DropGodebug_tie {h : Heap} {fp : Int} {e : EWork} (R : RepW h fp e) (key : Bytes) (fuel : Nat)
    (hf : e.f.godebug.length + 1 ≤ fuel) :
    match Modfile.Edit.workDropGodebug e key with
    | .ok e' => ∃ h', WorkFile_DropGodebug fuel fp key h = .ok (none, h') ∧ RepW h' fp e'
    | .error _ => WorkFile_DropGodebug fuel fp key h = .error .panic := by
  have S := FnEditWorkB.WorkFile_DropGodebug_sim R key fuel hf
  cases hx : Modfile.Edit.workDropGodebug e key with
  | ok e' => exact S.1 e' hx
  | error er => exact S.2 er hx

-- a new godebug line; the same key again: the line is rewritten; another key: the two lines become a block; drop
example : runW (fun fp h => do
      let (_, h) ← WorkFile_AddGodebug 64 fp (B "a") (B "1") h
      let (_, h) ← WorkFile_AddGodebug 64 fp (B "a") (B "2") h
      let (_, h) ← WorkFile_AddGodebug 64 fp (B "b") (B "3") h
      WorkFile_DropGodebug 64 fp (B "a") h) =
    modelW (fun e => do
      let e ← Modfile.Edit.workAddGodebug e (B "a") (B "1")
      let e ← Modfile.Edit.workAddGodebug e (B "a") (B "2")
      let e ← Modfile.Edit.workAddGodebug e (B "b") (B "3")
      Modfile.Edit.workDropGodebug e (B "a")) := by decide +kernel
-- dropping the empty key after a drop reaches a cleared entry: nil dereference on both sides
example : runW (fun fp h => do
      let (_, h) ← WorkFile_AddGodebug 64 fp (B "a") (B "1") h
      let (_, h) ← WorkFile_DropGodebug 64 fp (B "a") h
      WorkFile_DropGodebug 64 fp [] h) = none ∧
    modelW (fun e => do
      let e ← Modfile.Edit.workAddGodebug e (B "a") (B "1")
      let e ← Modfile.Edit.workDropGodebug e (B "a")
      Modfile.Edit.workDropGodebug e []) = none := by decide +kernel
example : ∃ e', Modfile.Edit.workAddGodebug exW (B "a") (B "1") = .ok e' ∧
    ∃ h', WorkFile_AddGodebug 64 exFp (B "a") (B "1") exHeap = .ok (none, h') ∧ RepW h' exFp e' := by
  obtain ⟨e', he'⟩ := ok_of_isSome (x := Modfile.Edit.workAddGodebug exW (B "a") (B "1")) (by decide +kernel)
  have T := WorkFile_AddGodebug_tie exR (B "a") (B "1") 64 (by decide +kernel) (by decide +kernel)
  rw [he'] at T
  exact ⟨e', he', T⟩
example : ∃ e', Modfile.Edit.workDropGodebug exW (B "a") = .ok e' ∧
    ∃ h', WorkFile_DropGodebug 64 exFp (B "a") exHeap = .ok (none, h') ∧ RepW h' exFp e' := by
  obtain ⟨e', he'⟩ := ok_of_isSome (x := Modfile.Edit.workDropGodebug exW (B "a")) (by decide +kernel)
  have T := WorkFile_DropGodebug_tie exR (B "a") 64 (by decide +kernel)
  rw [he'] at T
  exact ⟨e', he', T⟩

/-! ### use -/

/-- **`WorkFile.AddNewUse` (work.go:267) = the model's `addNewUse`** -/
theorem WorkFile_AddNewUse_tie {h : Heap} {fp : Int} {e : EWork} (R : RepW h fp e) (diskPath modulePath : Bytes) (fuel : Nat)
    (hf : nodeCount e.f.syn.stmts + 3 ≤ fuel) (hq : diskPath.length + 1 ≤ fuel) :
    ∃ h', WorkFile_AddNewUse isPrintI quoteI fuel fp diskPath modulePath h = .ok ((), h') ∧
      RepW h' fp (Modfile.Edit.addNewUse e diskPath modulePath) :=
  FnEditWorkC.WorkFile_AddNewUse_sim R diskPath modulePath fuel hf hq

/-- **`WorkFile.AddUse` (work.go:246) = the model's `addUse`** -/
theorem WorkFile_AddUse_tie {h : Heap} {fp : Int} {e : EWork} (R : RepW h fp e) (diskPath modulePath : Bytes) (fuel : Nat)
    (hf : nodeCount e.f.syn.stmts + 3 ≤ fuel) (hf2 : e.f.use.length + diskPath.length + 1 ≤ fuel) :
    match Modfile.Edit.addUse e diskPath modulePath with
    | .ok e' => ∃ h', WorkFile_AddUse isPrintI quoteI fuel fp diskPath modulePath h = .ok (none, h') ∧ RepW h' fp e'
    | .error _ => WorkFile_AddUse isPrintI quoteI fuel fp diskPath modulePath h = .error .panic := by
  have S := FnEditWorkC.WorkFile_AddUse_sim R diskPath modulePath fuel hf hf2
  cases hx : Modfile.Edit.addUse e diskPath modulePath with
  | ok e' => exact S.1 e' hx
  | error er => exact S.2 er hx

/-- **`WorkFile.DropUse` (work.go:296) = the model's `dropUse`** -/
theorem WorkFile_DropUse_tie {h : Heap} {fp : Int} {e : EWork} (R : RepW h fp e) (path : Bytes) (fuel : Nat)
    (hf : e.f.use.length + 1 ≤ fuel) :
    match Modfile.Edit.dropUse e path with
    | .ok e' => ∃ h', WorkFile_DropUse fuel fp path h = .ok (none, h') ∧ RepW h' fp e'
    | .error _ => WorkFile_DropUse fuel fp path h = .error .panic := by
  have S := FnEditWorkB.WorkFile_DropUse_sim R path fuel hf
  cases hx : Modfile.Edit.dropUse e path with
  | ok e' => exact S.1 e' hx
  | error er => exact S.2 er hx

/-- **`WorkFile.SetUse` (work.go:272) = the model's `setUse` with `perm = id`**: Go iterates the map `need` in random order,
    the regenerated code in insertion order, which is the model's `perm := fun l => l` (`permOf false`) -/
theorem WorkFile_SetUse_tie {h : Heap} {fp : Int} {e : EWork} (R : RepW h fp e) (dirs : List Int) (ws : List (Bytes × Bytes))
    (hd : DirsOK h dirs ws) (M : Nat) (hM : ∀ w ∈ ws, w.1.length ≤ M) (fuel : Nat)
    (hf1 : nodeCount e.f.syn.stmts + 3 * ws.length + 3 ≤ fuel) (hf2 : M + ws.length + 1 ≤ fuel)
    (hf3 : e.f.use.length + 1 ≤ fuel) (hf4 : ∀ e2, setUsePre e ws = .ok e2 → workSortFuel e2 ≤ fuel) :
    match Modfile.Edit.setUse e ws (Modfile.Edit.permOf false) with
    | .ok e' => ∃ h', WorkFile_SetUse isPrintI quoteI fuel fp dirs h = .ok ((), h') ∧ RepW h' fp e'
    | .error _ => WorkFile_SetUse isPrintI quoteI fuel fp dirs h = .error .panic := by
  have hp : (Modfile.Edit.permOf false : List (Bytes × Bytes) → List (Bytes × Bytes)) = fun l => l := by
    funext l; simp [Modfile.Edit.permOf]
  rw [hp]
  have S := FnEditWorkE.WorkFile_SetUse_sim workSortFuel (fun R fuel hf => FnEditSort.WorkFile_SortBlocks_tie R fuel hf)
    R dirs ws hd M hM fuel hf1 hf2 hf3 hf4
  cases hx : Modfile.Edit.setUse e ws (fun l => l) with
  | ok e' => exact S.1 e' hx
  | error er => exact S.2 er hx

example : runW (fun fp h => do
      let (_, h) ← WorkFile_AddUse isPrintI quoteI 64 fp (B "./c d") (B "m") h
      let (_, h) ← WorkFile_AddUse isPrintI quoteI 64 fp (B "./a") (B "n") h
      WorkFile_DropUse 64 fp (B "./b") h) =
    modelW (fun e => do
      let e ← Modfile.Edit.addUse e (B "./c d") (B "m")
      let e ← Modfile.Edit.addUse e (B "./a") (B "n")
      Modfile.Edit.dropUse e (B "./b")) := by decide +kernel
example : runW (WorkFile_AddNewUse isPrintI quoteI 64 · (B "./a") []) = modelW (fun e => pure (Modfile.Edit.addNewUse e (B "./a") [])) := by
  decide +kernel
-- SetUse: `./b` is kept, `./a` dropped, `./q` and `./p` added in the order of the request, the block sorted
example : runW (fun fp h =>
      let h := { h with uses := h.uses ++ [{ Path := B "./q", ModulePath := B "m", Syntax := 0 },
        { Path := B "./b", ModulePath := B "n", Syntax := 0 }, { Path := B "./p", ModulePath := [], Syntax := 0 }] }
      WorkFile_SetUse isPrintI quoteI 256 fp [3, 4, 5] h) =
    modelW (fun e => Modfile.Edit.setUse e [(B "./q", B "m"), (B "./b", B "n"), (B "./p", [])] (Modfile.Edit.permOf false)) := by
  decide +kernel
example : ∃ e', Modfile.Edit.addUse exW (B "./a") (B "n") = .ok e' ∧
    ∃ h', WorkFile_AddUse isPrintI quoteI 64 exFp (B "./a") (B "n") exHeap = .ok (none, h') ∧ RepW h' exFp e' := by
  obtain ⟨e', he'⟩ := ok_of_isSome (x := Modfile.Edit.addUse exW (B "./a") (B "n")) (by decide +kernel)
  have T := WorkFile_AddUse_tie exR (B "./a") (B "n") 64 (by decide +kernel) (by decide +kernel)
  rw [he'] at T
  exact ⟨e', he', T⟩
example : ∃ e', Modfile.Edit.dropUse exW (B "./a") = .ok e' ∧
    ∃ h', WorkFile_DropUse 64 exFp (B "./a") exHeap = .ok (none, h') ∧ RepW h' exFp e' := by
  obtain ⟨e', he'⟩ := ok_of_isSome (x := Modfile.Edit.dropUse exW (B "./a")) (by decide +kernel)
  have T := WorkFile_DropUse_tie exR (B "./a") 64 (by decide +kernel)
  rw [he'] at T
  exact ⟨e', he', T⟩
example : ∃ h', WorkFile_AddNewUse isPrintI quoteI 64 exFp (B "./c") [] exHeap = .ok ((), h') ∧
    RepW h' exFp (Modfile.Edit.addNewUse exW (B "./c") []) :=
  WorkFile_AddNewUse_tie exR (B "./c") [] 64 (by decide +kernel) (by decide +kernel)
-- SetUse with the empty request (no new `Use` objects needed): every entry is dropped
example : ∃ e', Modfile.Edit.setUse exW [] (Modfile.Edit.permOf false) = .ok e' ∧
    ∃ h', WorkFile_SetUse isPrintI quoteI 64 exFp [] exHeap = .ok ((), h') ∧ RepW h' exFp e' := by
  obtain ⟨e', he'⟩ := ok_of_isSome (x := Modfile.Edit.setUse exW [] (Modfile.Edit.permOf false)) (by decide +kernel)
  have T := WorkFile_SetUse_tie exR [] [] trivial 0 (fun _ hw => nomatch hw) 64 (by decide +kernel) (by decide +kernel)
    (by decide +kernel) (by
      intro e2 he2
      have hb : (((setUsePre exW []).toOption.map workSortFuel).getD 0) ≤ 64 := by decide +kernel
      rw [he2] at hb
      exact hb)
  rw [he'] at T
  exact ⟨e', he', T⟩

/-! ### replace -/

/-- `FileSyntax.addLine` hinted by a `*Line` that may be nil: the statement edit-req's `addReplace` tie asks for -/
theorem addLinePtrSpec : FnEditReqC.AddLinePtrSpec := by
  intro h x fs hint t0 trest fuel r ht hf
  obtain ⟨h', a, b, c, d, e, _, f, _⟩ := FnEditAddLine.addLinePtr_tie r ht hint t0 trest fuel hf
  exact ⟨h', a, b, c, d, e, f⟩

/-- **`WorkFile.AddReplace` (work.go:306) = the model's `workAddReplace`** -/
theorem WorkFile_AddReplace_tie {h : Heap} {fp : Int} {e : EWork} (R : RepW h fp e) (oldPath oldVers newPath newVers : Bytes)
    (fuel : Nat) (hf1 : oldPath.length + 1 ≤ fuel) (hf2 : newPath.length + 1 ≤ fuel) (hf3 : e.f.replace.length + 1 ≤ fuel)
    (hf4 : nodeCount e.f.syn.stmts + 3 ≤ fuel) :
    match Modfile.Edit.workAddReplace e oldPath oldVers newPath newVers with
    | .ok e' => ∃ h', WorkFile_AddReplace isPrintI quoteI fuel fp oldPath oldVers newPath newVers h = .ok (none, h') ∧ RepW h' fp e'
    | .error _ => WorkFile_AddReplace isPrintI quoteI fuel fp oldPath oldVers newPath newVers h = .error .panic := by
  have S := FnEditWorkF.WorkFile_AddReplace_sim
    (fuelOK := fun fs rp op np fuel => op.length + 1 ≤ fuel ∧ np.length + 1 ≤ fuel ∧ rp.length + 1 ≤ fuel ∧
      nodeCount fs.stmts + 3 ≤ fuel)
    (fun R op ov np nv fuel hf => FnEditReqD.addReplace_sim' addLinePtrSpec R op ov np nv fuel hf.1 hf.2.1 hf.2.2.1 hf.2.2.2)
    R oldPath oldVers newPath newVers fuel ⟨hf1, hf2, hf3, hf4⟩
  cases hx : Modfile.Edit.workAddReplace e oldPath oldVers newPath newVers with
  | ok e' => exact S.1 e' hx
  | error er => exact S.2 er hx

/-- **`WorkFile.DropReplace` (work.go:310) = the model's `workDropReplace`** -/
theorem WorkFile_DropReplace_tie {h : Heap} {fp : Int} {e : EWork} (R : RepW h fp e) (oldPath oldVers : Bytes) (fuel : Nat)
    (hf : e.f.replace.length + 1 ≤ fuel) :
    match Modfile.Edit.workDropReplace e oldPath oldVers with
    | .ok e' => ∃ h', WorkFile_DropReplace fuel fp oldPath oldVers h = .ok (none, h') ∧ RepW h' fp e'
    | .error _ => WorkFile_DropReplace fuel fp oldPath oldVers h = .error .panic := by
  have S := FnEditWorkB.WorkFile_DropReplace_sim R oldPath oldVers fuel hf
  cases hx : Modfile.Edit.workDropReplace e oldPath oldVers with
  | ok e' => exact S.1 e' hx
  | error er => exact S.2 er hx

-- the existing replacement is rewritten; a second one with the same old path becomes a block with it; drop the first
example : runW (fun fp h => do
      let (_, h) ← WorkFile_AddReplace isPrintI quoteI 64 fp (B "x.y/z") [] (B "../w") [] h
      let (_, h) ← WorkFile_AddReplace isPrintI quoteI 64 fp (B "x.y/z") (B "v1.0.0") (B "../v") [] h
      WorkFile_DropReplace 64 fp (B "x.y/z") [] h) =
    modelW (fun e => do
      let e ← Modfile.Edit.workAddReplace e (B "x.y/z") [] (B "../w") []
      let e ← Modfile.Edit.workAddReplace e (B "x.y/z") (B "v1.0.0") (B "../v") []
      Modfile.Edit.workDropReplace e (B "x.y/z") []) := by decide +kernel
example : ∃ e', Modfile.Edit.workAddReplace exW (B "a.b/c") [] (B "../c") [] = .ok e' ∧
    ∃ h', WorkFile_AddReplace isPrintI quoteI 64 exFp (B "a.b/c") [] (B "../c") [] exHeap = .ok (none, h') ∧ RepW h' exFp e' := by
  obtain ⟨e', he'⟩ := ok_of_isSome (x := Modfile.Edit.workAddReplace exW (B "a.b/c") [] (B "../c") []) (by decide +kernel)
  have T := WorkFile_AddReplace_tie exR (B "a.b/c") [] (B "../c") [] 64 (by decide +kernel) (by decide +kernel)
    (by decide +kernel) (by decide +kernel)
  rw [he'] at T
  exact ⟨e', he', T⟩
example : ∃ e', Modfile.Edit.workDropReplace exW (B "x.y/z") [] = .ok e' ∧
    ∃ h', WorkFile_DropReplace 64 exFp (B "x.y/z") [] exHeap = .ok (none, h') ∧ RepW h' exFp e' := by
  obtain ⟨e', he'⟩ := ok_of_isSome (x := Modfile.Edit.workDropReplace exW (B "x.y/z") []) (by decide +kernel)
  have T := WorkFile_DropReplace_tie exR (B "x.y/z") [] 64 (by decide +kernel)
  rw [he'] at T
  exact ⟨e', he', T⟩

end ModVerif.Tie.FnEditWork
