/-
  Tie: the go.mod PRINTER regenerated from modfile/print.go on every check (Generated/FnPrint.lean, namespace
  ModVerif.Generated.Print: Format, printer.indent / newline / trim / file / expr / tokens) computes exactly what the
  hand model (Model/Modfile/Print.lean: `Printer.indent`, `newline`, `trim`, `file`, `expr`, `tokens`, `format`) says,
  for EVERY syntax tree of the model (no well-formedness hypothesis) and all fuel above the stated bound.  The unit is
  translated in ideal integer mode (the only arithmetic is `p.margin++ / --` and loop counters), so the only hypotheses
  are fuel lower bounds.

  EMBEDDING.  Trees: `Drv.GenPrint.G.{pos, com, coms, line, lparen, rparen, expr, file}` (model tree ↦ regenerated
  structs of read.go, dropping the model's line identities; the closed sum type `Expr` makes Go's
  `default: panic("unexpected type")` unreachable) — exactly what the driver op `gmodfile.format` runs on every check.
  Printer state: `emb mp` = { Buffer := mp.bufRev.reverse  (the model keeps the output reversed),
  comment := mp.comment.map G.com, margin := (mp.margin : Int) }.  Methods with a pointer receiver return the updated
  printer as an extra last result, so each tie reads `printer_m fuel (emb mp) args = .ok ((), emb (mp.m args))`: no Go
  run-time panic (`b[len(b)-1-n]`, `b[n-1]`, `b[len(b)-2]`, `p.Truncate(n)`, `b[:len(b)-1]`, `p.comment[:0]`), no
  non-termination, and the same bytes / pending comments / margin as the model.

  FUEL.  The generated functions hand their fuel unchanged to the functions they call; every loop iteration and every
  `expr` call costs one unit; the leaf loops of trim / indent need more fuel than the buffer is long.  The bounds are sums
  over the tree (Proofs/TieFnPrintB.lean, TieFnPrintC.lean), at the margin `M` the operation can reach:
    pot M p      = len(buffer) + Σ_{pending comment c} (|TrimSpace c| + M + 2)
    cNewline M   = M + 4
    cLines M cs  = 1 + Σ_c (|TrimSpace c| + M + 5)                          -- whole-line comments
    cBefore M cs = 0 if cs is empty, else M + 2 + cLines M cs
    cToks ts     = Σ_t (|t| + 1)
    cLine M l    = cBefore + cToks + Σ_{suffix c} (|TrimSpace c| + M + 2) + 2
    cParen M c   = cBefore + Σ_{suffix} … + 3                              -- `(`, `)`, comment block
    cBlock M b   = cBefore + cToks + cParen( ( ) + 1 + Σ_l (cLine l + M + 5) + M + 4 + cParen( ) ) + Σ_{suffix} … + 3
    cFile M f    = cLines(f.before) + 1 + Σ_stmt (cExpr stmt + cLines(stmt.after) + 2 (M + 4) + 1)
  `newlineFuel p = pot p.margin p + cNewline p.margin`, `exprFuel p x = pot (p.margin+1) p + cExpr (p.margin+1) x`,
  `fileFuel` likewise, `fuelBound f = cFile 1 f` (Format starts with the empty printer at margin 0).

  Helper lemmas: Proofs/GoRtLemmasPrint.lean, Proofs/TieFnPrintA.lean (embedding; trim, indent, tab loops, tokens),
  TieFnPrintB.lean (potential; newline and its two loops), TieFnPrintC.lean (costs; model-side bounds),
  TieFnPrintD.lean (comment-line loops, expr by node type), TieFnPrintE.lean (file, Format).
-/
import ModVerif.Generated.FnPrint
import ModVerif.Model.Modfile.Print
import ModVerif.Drv.GenPrint
import ModVerif.Proofs.GoRtLemmasLex
import ModVerif.Proofs.TieFnPrintE
namespace ModVerif.Tie.FnPrint
open ModVerif ModVerif.GoRt ModVerif.Modfile ModVerif.TieFnPrint
open ModVerif.Drv.GenPrint (G.expr G.file G.run G.com)
open ModVerif.Drv (xh)

/-! ### trim, indent, tokens -/

/-- `printer.trim` (print.go:79) -/
theorem printer_trim_tie (mp : Printer) (fuel : Nat) (hf : mp.bufRev.length + 1 ≤ fuel) :
    Generated.Print.printer_trim fuel (emb mp) = .ok ((), emb mp.trim) :=
  trim_sim mp fuel hf

example : Generated.Print.printer_trim 4 (emb { bufRev := [32, 9, 97] }) = .ok ((), emb { bufRev := [97] }) ∧
    (Printer.trim { bufRev := [32, 9, 97] }).bufRev = [97] := by decide +kernel

/-- `printer.indent` (print.go:41) -/
theorem printer_indent_tie (mp : Printer) (fuel : Nat) (hf : mp.bufRev.length + 1 ≤ fuel) :
    Generated.Print.printer_indent fuel (emb mp) = .ok (mp.indent : Int) :=
  indent_sim mp fuel hf

example : Generated.Print.printer_indent 6 (emb { bufRev := [98, 97, 10, 99] }) = .ok 2 ∧
    Printer.indent { bufRev := [98, 97, 10, 99] } = 2 := by decide +kernel
-- with less fuel than the bound the generated loop does run out
example : Generated.Print.printer_indent 2 (emb { bufRev := [98, 97, 10, 99] }) = .error .fuel := by decide +kernel

/-- `printer.tokens` (print.go:172) -/
theorem printer_tokens_tie (mp : Printer) (ts : List Bytes) (fuel : Nat) (hf : ts.length + 1 ≤ fuel) :
    Generated.Print.printer_tokens fuel (emb mp) ts = .ok ((), emb (mp.tokens ts)) :=
  tokens_sim mp ts fuel hf

example : Generated.Print.printer_tokens 7 (emb {}) [[97], [40], [98], [44], [99], [41]]
      = .ok ((), emb { bufRev := [41, 99, 32, 44, 98, 40, 32, 97] }) ∧
    (Printer.tokens {} [[97], [40], [98], [44], [99], [41]]).bufRev = [41, 99, 32, 44, 98, 40, 32, 97] := by
  decide +kernel

/-! ### newline -/

/-- `printer.newline` (print.go:51), with its pending-comment loop and the two re-indent loops -/
theorem printer_newline_tie (mp : Printer) (fuel : Nat) (hf : newlineFuel mp ≤ fuel) :
    Generated.Print.printer_newline fuel (emb mp) = .ok ((), emb mp.newline) :=
  newline_sim mp.margin mp fuel (Nat.le_refl _) hf

-- `a \t` at margin 1 with the pending comments ` //c ` and `//d`: `a //c␤␉//d␤␉`
def exP : Printer :=
  { bufRev := [9, 32, 97], comment := [{ token := [32, 47, 47, 99, 32] }, { token := [47, 47, 100] }], margin := 1 }

example : newlineFuel exP = 20 := by decide +kernel
example : Generated.Print.printer_newline 20 (emb exP)
      = .ok ((), emb { bufRev := [9, 10, 100, 47, 47, 9, 10, 99, 47, 47, 32, 9, 32, 97], comment := [], margin := 1 }) ∧
    exP.newline.bufRev = [9, 10, 100, 47, 47, 9, 10, 99, 47, 47, 32, 9, 32, 97] := by
  decide +kernel

/-! ### expr, file -/

/-- `printer.expr` (print.go:118), all five node types; the mutual recursion with the loop over a block's lines -/
theorem printer_expr_tie (mp : Printer) (x : Modfile.Expr) (fuel : Nat) (hf : exprFuel mp x ≤ fuel) :
    Generated.Print.printer_expr fuel (emb mp) (G.expr x) = .ok ((), emb (mp.expr x)) :=
  expr_sim (mp.margin + 1) mp x fuel (Nat.le_refl _) hf

/-- `printer.file` (print.go:90) -/
theorem printer_file_tie (mp : Printer) (f : Modfile.FileSyntax) (fuel : Nat) (hf : fileFuel mp f ≤ fuel) :
    Generated.Print.printer_file fuel (emb mp) (G.file f) = .ok ((), emb (mp.file f)) :=
  file_sim (mp.margin + 1) mp f fuel (Nat.le_refl _) hf

/-- a tree with every node type: header comment, a line with an end-of-line comment, a comment block, a block whose
    lines carry a whole-line comment / two end-of-line comments, a blank-line placeholder before `)` -/
def exF : Modfile.FileSyntax :=
  { comments := { before := [{ token := [47, 47, 104, 32] }] },
    stmts := [
      .line { token := [[109], [120]], comments := { suffix := [{ token := [47, 47, 99], suffix := true }] } },
      .commentBlock { comments := { before := [{ token := [47, 47, 98] }] } },
      .lineBlock { token := [[114]],
                   lines := [{ token := [[97], [40], [98], [44], [99], [41]], inBlock := true,
                               comments := { before := [{ token := [47, 47, 120] }] } },
                             { token := [[100]], inBlock := true,
                               comments := { suffix := [{ token := [47, 47, 121] }, { token := [47, 47, 122] }] } }],
                   rparen := { comments := { before := [{ token := [] }] } } } ] }

/-- `//h␤m x //c␤␤//b␤␤r (␤␉//x␤␉a (b, c)␤␉d //y␤//z␤␤)␤` -/
def exOut : Bytes :=
  [47, 47, 104, 10, 109, 32, 120, 32, 47, 47, 99, 10, 10, 47, 47, 98, 10, 10, 114, 32, 40, 10, 9, 47, 47, 120, 10, 9, 97,
   32, 40, 98, 44, 32, 99, 41, 10, 9, 100, 32, 47, 47, 121, 10, 47, 47, 122, 10, 10, 41, 10]

example : (Generated.Print.printer_expr 100 (emb {}) (G.expr (exF.stmts.getD 2 default))).toOption.map (·.2.Buffer)
      = some (exOut.drop 18 |>.take 32) ∧
    ((Printer.expr {} (exF.stmts.getD 2 default)).bufRev.reverse = (exOut.drop 18 |>.take 32)) := by decide +kernel
example : (Generated.Print.printer_file 160 (emb {}) (G.file exF)).toOption.map (·.2.Buffer) = some exOut ∧
    (Printer.file {} exF).bufRev.reverse = exOut := by decide +kernel

/-! ### Format -/

/-- ★ `Format` (print.go:16): for EVERY tree of the model the regenerated printer, run on the embedded tree with fuel at
    least `fuelBound f`, returns exactly the model's `format f` (no panic, no fuel exhaustion). -/
theorem Format_tie (f : Modfile.FileSyntax) (fuel : Nat) (hf : fuelBound f ≤ fuel) :
    Generated.Print.Format fuel (G.file f) = .ok (Modfile.format f) :=
  format_sim f fuel hf

example : fuelBound exF = 157 := by decide +kernel
example : Generated.Print.Format 157 (G.file exF) = .ok exOut ∧ Modfile.format exF = exOut := by decide +kernel
-- the empty file
example : Generated.Print.Format 2 (G.file {}) = .ok [] ∧ Modfile.format {} = [] ∧ fuelBound {} = 2 := by decide +kernel
-- without fuel the generated code does run out
example : Generated.Print.Format 0 (G.file {}) = .error .fuel := by decide +kernel
example : Generated.Print.Format 5 (G.file exF) = .error .fuel := by decide +kernel

/-- the driver op `gmodfile.format` (Drv/GenPrint.lean: `G.run f n` runs `Format` with fuel `8 * n + 64`, `n` the length of
    the parsed input) prints the model's `format f` whenever that fuel reaches the bound -/
theorem run_tie (f : Modfile.FileSyntax) (n : Nat) (hn : fuelBound f ≤ 8 * n + 64) :
    G.run f n = "ok " ++ xh (Modfile.format f) := by
  unfold G.run
  rw [Format_tie f _ hn]

example : G.run exF 51 = "ok " ++ xh exOut := by decide +kernel

end ModVerif.Tie.FnPrint
