/-
  Tie: the typed LIST operations of the regenerated go.mod edit operations (Generated/FnEdit.lean, namespace
  ModVerif.Generated.Edit, re-translated from modfile/rule.go on every check; the pointer graph is a heap) compute what the
  hand model Model/Modfile/Edit.lean says:

    File_AddRequire, File_AddNewRequire, File_DropRequire, File_AddExclude, File_DropExclude,
    addReplace (the function shared with go.work; in-out `replace` slice), File_AddReplace, File_DropReplace,
    File_AddRetract, File_DropRetract
  against
    addRequire, addNewRequire, dropRequire, addExclude, dropExclude, addReplaceCore, addReplace, dropReplace, addRetract,
    dropRetract   (`firstRest`, `clearAll`, `lastWith`, `markAll`, `addLine` / `addLinePtr`).

  Shape (a simulation; representation `RepF h fp e` of Proofs/TieFnEditRep.lean: the heap `h` at the `*File` pointer `fp`
  represents the model file `e`, line id = line pointer, `e.next = #lines + 1`):
    `RepF h fp e →  match Edit.op e args with
       | .ok e'      => ∃ h', File_Op … fuel fp args h = .ok (none, h') ∧ RepF h' fp e'
       | .error err  => File_Op … fuel fp args h = .error .panic`                      (err = nilDeref: a Go nil dereference)
  and for the operations that can return an error (`AddExclude`, `AddRetract`: the version check)
       `| .error err => err = .invalidVersion ∧ ∃ s, File_Op … = .ok (some s, h)`       (heap untouched).
  The fuel hypotheses are explicit lower bounds in the sizes of the inputs (`nodeCount` = #statements + #block lines of the
  syntax tree, Proofs/TieFnEditAddLineA.lean; `nodeCount_le` bounds it by #statements + #lines).  `isPrintI` / `quoteI` are
  the `unicode.IsPrint` / `strconv.Quote` the driver passes (Drv/GenEdit.lean).
  `addReplace` is stated on the part of the representation it works on (`RepR`: syntax graph + `Replace` pointer list,
  frame `FrameR`; Proofs/TieFnEditReqC.lean) so that go.work's `WorkFile.AddReplace` uses the same theorem.

  The primitives: `FileSyntax_addLine` (Tie/FnEditAddLine.lean, edit-tree), `Line_markRemoved`, `FileSyntax_updateLine`,
  `Require_setIndirect`, `AutoQuote`, `checkCanonicalVersion` (Tie/FnEditTree.lean, edit-rep) — all proved, no hypothesis
  about them is left in the statements below.

  Helper lemmas: Proofs/TieFnEditReq{A,B,C,D,E}.lean.  Owner: edit-req.
-/
import ModVerif.Generated.FnEdit
import ModVerif.Model.Modfile.Edit
import ModVerif.Proofs.TieFnEditReqA
import ModVerif.Proofs.TieFnEditReqB
import ModVerif.Proofs.TieFnEditReqC
import ModVerif.Proofs.TieFnEditReqD
import ModVerif.Proofs.TieFnEditReqE
import ModVerif.Proofs.TieFnEditStmtEx
import ModVerif.Tie.FnEditAddLine
set_option linter.unusedSimpArgs false
set_option linter.unusedVariables false
namespace ModVerif.Tie.FnEditReq
open ModVerif ModVerif.GoRt ModVerif.Generated.Edit ModVerif.Tie.FnEditRep
open ModVerif.Tie.FnEditReqA (viG)
open ModVerif.Tie.FnEditReqB (AddLineSpec hintE)
open ModVerif.Tie.FnEditReqC (AddLinePtrSpec RepR FrameR)
open ModVerif.Tie.FnEditReqE (modPath)
open ModVerif.TieFnEditAddLine (nodeCount)
open ModVerif.Modfile.Edit (EFile)
open ModVerif.Drv.GenEdit (isPrintI quoteI)

/-! ### the two forms of the `addLine` tie the operations are proved against -/

theorem addLineSpec_holds : AddLineSpec := by
  intro h x fs hint t0 trest fuel r htok hf
  obtain ⟨h', h1, h2, h3, h4, h5, _, h7, _⟩ := Tie.FnEditAddLine.addLine_tie r htok hint t0 trest fuel hf
  refine ⟨h', ?_, h2, h3, h4, h5, h7⟩
  cases hint <;> exact h1

theorem addLinePtrSpec_holds : AddLinePtrSpec := by
  intro h x fs hint t0 trest fuel r htok hf
  obtain ⟨h', h1, h2, h3, h4, h5, _, h7, _⟩ := Tie.FnEditAddLine.addLinePtr_tie r htok hint t0 trest fuel hf
  exact ⟨h', h1, h2, h3, h4, h5, h7⟩

/-! ### require -/

/-- `File.AddNewRequire` (rule.go:1180) = the model's `addNewRequire` (no error, no panic) -/
theorem File_AddNewRequire_tie {h : Heap} {fp : Int} {e : EFile} (R : RepF h fp e) (path vers : Bytes) (indirect : Bool)
    (fuel : Nat) (hf : nodeCount e.f.syn.stmts + 3 ≤ fuel) (hq : path.length + 1 ≤ fuel) :
    ∃ h', File_AddNewRequire isPrintI quoteI fuel fp path vers indirect h = .ok ((), h') ∧
      RepF h' fp (Modfile.Edit.addNewRequire e path vers indirect) := by
  obtain ⟨o, ho, R⟩ := R
  exact FnEditReqB.File_AddNewRequire_simAt addLineSpec_holds ho R path vers indirect fuel hf hq

/-- `File.AddRequire` (rule.go:1157) = the model's `addRequire`: the first requirement of `path` gets the version and its line
    is rewritten, every later one is cleared (`*r = Require{}`, line marked removed); none: `AddNewRequire`.  A matching
    entry that is already cleared (`Syntax == nil`) is Go's nil dereference = the model's `nilDeref`. -/
theorem File_AddRequire_tie {h : Heap} {fp : Int} {e : EFile} (R : RepF h fp e) (path vers : Bytes) (fuel : Nat)
    (hf : e.f.require.length + path.length + 2 ≤ fuel) (hf2 : nodeCount e.f.syn.stmts + 3 ≤ fuel) :
    match Modfile.Edit.addRequire e path vers with
    | .ok e' => ∃ h', File_AddRequire isPrintI quoteI fuel fp path vers h = .ok (none, h') ∧ RepF h' fp e'
    | .error _ => File_AddRequire isPrintI quoteI fuel fp path vers h = .error .panic :=
  FnEditReqB.File_AddRequire_sim addLineSpec_holds R path vers fuel hf hf2

/-- `File.DropRequire` (rule.go:1468) = the model's `dropRequire` -/
theorem File_DropRequire_tie {h : Heap} {fp : Int} {e : EFile} (R : RepF h fp e) (path : Bytes) (fuel : Nat)
    (hf : e.f.require.length + 1 ≤ fuel) :
    match Modfile.Edit.dropRequire e path with
    | .ok e' => ∃ h', File_DropRequire fuel fp path h = .ok (none, h') ∧ RepF h' fp e'
    | .error _ => File_DropRequire fuel fp path h = .error .panic :=
  FnEditReqA.File_DropRequire_sim R path fuel hf

/-! ### exclude -/

/-- `File.AddExclude` (rule.go:1480) = the model's `addExclude`: the version check (a returned error, heap untouched), the
    early return at an exact match, else a new line hinted by the last exclusion of the same path (`var hint *Line`, nil when
    there is none or it is a cleared entry: the model's `addLinePtr`) -/
theorem File_AddExclude_tie {h : Heap} {fp : Int} {e : EFile} (R : RepF h fp e) (path vers : Bytes) (fuel : Nat)
    (hf1 : path.length + 1 ≤ fuel) (hf2 : 2 * vers.length ≤ fuel) (hf3 : e.f.exclude.length + 1 ≤ fuel)
    (hf4 : nodeCount e.f.syn.stmts + 3 ≤ fuel) :
    match Modfile.Edit.addExclude e path vers with
    | .ok e' => ∃ h', File_AddExclude isPrintI quoteI fuel fp path vers h = .ok (none, h') ∧ RepF h' fp e'
    | .error err => err = .invalidVersion ∧ ∃ s, File_AddExclude isPrintI quoteI fuel fp path vers h = .ok (some s, h) :=
  FnEditReqC.File_AddExclude_sim addLinePtrSpec_holds R path vers fuel hf1 hf2 hf3 hf4

/-- `File.DropExclude` (rule.go:1499) = the model's `dropExclude` -/
theorem File_DropExclude_tie {h : Heap} {fp : Int} {e : EFile} (R : RepF h fp e) (path vers : Bytes) (fuel : Nat)
    (hf : e.f.exclude.length + 1 ≤ fuel) :
    match Modfile.Edit.dropExclude e path vers with
    | .ok e' => ∃ h', File_DropExclude fuel fp path vers h = .ok (none, h') ∧ RepF h' fp e'
    | .error _ => File_DropExclude fuel fp path vers h = .error .panic :=
  FnEditReqA.File_DropExclude_sim R path vers fuel hf

/-! ### replace -/

/-- **`addReplace`** (rule.go:1513; `replace *[]*Replace` is the extra result `ps'`) = the model's `addReplaceCore`, on the
    syntax graph `x` and the `Replace` pointer list `ps` (`RepR`); everything else is left alone (`FrameR`) -/
theorem addReplace_tie {h : Heap} {x : Int} {ps : List Int} {fs : Modfile.FileSyntax} {rp : List Modfile.Replace}
    (R : RepR h x ps fs rp) (oldPath oldVers newPath newVers : Bytes) (fuel : Nat)
    (hf1 : oldPath.length + 1 ≤ fuel) (hf2 : newPath.length + 1 ≤ fuel) (hf3 : rp.length + 1 ≤ fuel)
    (hf4 : nodeCount fs.stmts + 3 ≤ fuel) :
    match Modfile.Edit.addReplaceCore fs rp (h.lines.length + 1) oldPath oldVers newPath newVers with
    | .ok (fs', rp', n') => ∃ h' ps', addReplace isPrintI quoteI fuel x ps oldPath oldVers newPath newVers h = .ok ((none, ps'), h') ∧
        RepR h' x ps' fs' rp' ∧ FrameR h h' ∧ n' = h'.lines.length + 1
    | .error _ => addReplace isPrintI quoteI fuel x ps oldPath oldVers newPath newVers h = .error .panic :=
  FnEditReqD.addReplace_sim addLinePtrSpec_holds R oldPath oldVers newPath newVers fuel hf1 hf2 hf3 hf4

/-- `File.AddReplace` (rule.go:1509) = the model's `addReplace` -/
theorem File_AddReplace_tie {h : Heap} {fp : Int} {e : EFile} (R : RepF h fp e)
    (oldPath oldVers newPath newVers : Bytes) (fuel : Nat)
    (hf1 : oldPath.length + 1 ≤ fuel) (hf2 : newPath.length + 1 ≤ fuel) (hf3 : e.f.replace.length + 1 ≤ fuel)
    (hf4 : nodeCount e.f.syn.stmts + 3 ≤ fuel) :
    match Modfile.Edit.addReplace e oldPath oldVers newPath newVers with
    | .ok e' => ∃ h', File_AddReplace isPrintI quoteI fuel fp oldPath oldVers newPath newVers h = .ok (none, h') ∧ RepF h' fp e'
    | .error _ => File_AddReplace isPrintI quoteI fuel fp oldPath oldVers newPath newVers h = .error .panic :=
  FnEditReqD.File_AddReplace_sim addLinePtrSpec_holds R oldPath oldVers newPath newVers fuel hf1 hf2 hf3 hf4

/-- `File.DropReplace` (rule.go:1551) = the model's `dropReplace` -/
theorem File_DropReplace_tie {h : Heap} {fp : Int} {e : EFile} (R : RepF h fp e) (oldPath oldVers : Bytes) (fuel : Nat)
    (hf : e.f.replace.length + 1 ≤ fuel) :
    match Modfile.Edit.dropReplace e oldPath oldVers with
    | .ok e' => ∃ h', File_DropReplace fuel fp oldPath oldVers h = .ok (none, h') ∧ RepF h' fp e'
    | .error _ => File_DropReplace fuel fp oldPath oldVers h = .error .panic :=
  FnEditReqA.File_DropReplace_sim R oldPath oldVers fuel hf

/-! ### retract -/

/-- `File.AddRetract` (rule.go:1563) = the model's `addRetract`: the two version checks against the module path (`modPath e`:
    the path of the module statement, "" without one; returned errors, heap untouched), the new `retract` line, the
    rationale lines as `//` comments before it, `Rationale` read back with `parseDirectiveComment`.  `viG vi` is the
    interval as the regenerated code has it (`{ Low := vi.low, High := vi.high }`). -/
theorem File_AddRetract_tie {h : Heap} {fp : Int} {e : EFile} (R : RepF h fp e)
    (vi : Modfile.VersionInterval) (rationale : Bytes) (fuel : Nat)
    (hf1 : (modPath e).length + 1 ≤ fuel) (hf2 : 2 * vi.high.length + 1 ≤ fuel) (hf3 : 2 * vi.low.length + 1 ≤ fuel)
    (hf4 : nodeCount e.f.syn.stmts + 3 ≤ fuel) (hf5 : rationale.length + 5 ≤ fuel) :
    match Modfile.Edit.addRetract e vi rationale with
    | .ok e' => ∃ h', File_AddRetract isPrintI quoteI fuel fp (viG vi) rationale h = .ok (none, h') ∧ RepF h' fp e'
    | .error err => err = .invalidVersion ∧ ∃ s, File_AddRetract isPrintI quoteI fuel fp (viG vi) rationale h = .ok (some s, h) :=
  FnEditReqE.File_AddRetract_sim addLineSpec_holds R vi rationale fuel hf1 (by omega) (by omega) hf4 hf5 (by omega) (by omega)

/-- `File.DropRetract` (rule.go:1594) = the model's `dropRetract` -/
theorem File_DropRetract_tie {h : Heap} {fp : Int} {e : EFile} (R : RepF h fp e) (vi : Modfile.VersionInterval) (fuel : Nat)
    (hf : e.f.retract.length + 1 ≤ fuel) :
    match Modfile.Edit.dropRetract e vi with
    | .ok e' => ∃ h', File_DropRetract fuel fp (viG vi) h = .ok (none, h') ∧ RepF h' fp e'
    | .error _ => File_DropRetract fuel fp (viG vi) h = .error .panic :=
  FnEditReqA.File_DropRetract_sim R vi fuel hf

section examples
open ModVerif.Tie.FnEditStmtEx (exH exP exE exRep run runU model modelU parsed)

/-! ### non-vacuity: kernel-evaluated on a parsed go.mod loaded with the driver's `load` -/

/-- a module statement, `a.b/c` required twice (in a block and on a line of its own), two exclusions of one path, three
    replacements (two of `a.b/c`), two retractions -/
def exReq : Bytes :=
  B "module m.n/p\n\nrequire (\n\ta.b/c v1.0.0\n\td.e/f v1.2.3 // indirect\n)\n\nrequire a.b/c v1.1.0\n\nexclude (\n\tx.y/z v1.0.0\n\tx.y/z v1.1.0\n)\n\nreplace a.b/c => ../c\n\nreplace (\n\ta.b/c v1.0.0 => g.h/i v1.0.0\n\td.e/f v1.2.3 => g.h/i v1.0.0\n)\n\nretract v1.0.1\n\nretract [v1.0.2, v1.0.5] // bad\n"

theorem exReq_rep : RepF (exH exReq) (exP exReq) (exE exReq) := exRep exReq (by decide +kernel)

/-- the result of a run: `some (true, _)` returned nil, `some (false, _)` returned an error, `none` panicked -/
def outcome (r : Option (Bool × Modfile.File)) : Option Bool := r.map (·.1)

-- File.AddNewRequire
example : ∃ h', File_AddNewRequire isPrintI quoteI 200 (exP exReq) (B "q.r/s") (B "v1.0.0") true (exH exReq) = .ok ((), h') ∧
    RepF h' (exP exReq) (Modfile.Edit.addNewRequire (exE exReq) (B "q.r/s") (B "v1.0.0") true) :=
  File_AddNewRequire_tie exReq_rep _ _ true 200 (by decide +kernel) (by decide +kernel)
example : runU exReq (fun fp h => File_AddNewRequire isPrintI quoteI 200 fp (B "q.r/s") (B "v1.0.0") true h) =
    modelU exReq (fun e => Modfile.Edit.addNewRequire e (B "q.r/s") (B "v1.0.0") true) := by decide +kernel

-- File.AddRequire: `a.b/c` occurs twice (first rewritten, second cleared); `q.r/s` is new
example : match Modfile.Edit.addRequire (exE exReq) (B "a.b/c") (B "v1.5.0") with
    | .ok e' => ∃ h', File_AddRequire isPrintI quoteI 200 (exP exReq) (B "a.b/c") (B "v1.5.0") (exH exReq) = .ok (none, h') ∧
        RepF h' (exP exReq) e'
    | .error _ => File_AddRequire isPrintI quoteI 200 (exP exReq) (B "a.b/c") (B "v1.5.0") (exH exReq) = .error .panic :=
  File_AddRequire_tie exReq_rep _ _ 200 (by decide +kernel) (by decide +kernel)
example : run exReq (fun fp h => File_AddRequire isPrintI quoteI 200 fp (B "a.b/c") (B "v1.5.0") h) =
    model exReq (fun e => Modfile.Edit.addRequire e (B "a.b/c") (B "v1.5.0")) ∧
    outcome (run exReq (fun fp h => File_AddRequire isPrintI quoteI 200 fp (B "a.b/c") (B "v1.5.0") h)) = some true := by decide +kernel
example : run exReq (fun fp h => File_AddRequire isPrintI quoteI 200 fp (B "q.r/s") (B "v1.0.0") h) =
    model exReq (fun e => Modfile.Edit.addRequire e (B "q.r/s") (B "v1.0.0")) := by decide +kernel

-- File.DropRequire; dropping the path "" afterwards reaches the cleared entries: nil dereference on both sides
example : match Modfile.Edit.dropRequire (exE exReq) (B "a.b/c") with
    | .ok e' => ∃ h', File_DropRequire 200 (exP exReq) (B "a.b/c") (exH exReq) = .ok (none, h') ∧ RepF h' (exP exReq) e'
    | .error _ => File_DropRequire 200 (exP exReq) (B "a.b/c") (exH exReq) = .error .panic :=
  File_DropRequire_tie exReq_rep _ 200 (by decide +kernel)
example : run exReq (fun fp h => File_DropRequire 200 fp (B "a.b/c") h) =
    model exReq (fun e => Modfile.Edit.dropRequire e (B "a.b/c")) ∧
    outcome (run exReq (fun fp h => File_DropRequire 200 fp (B "a.b/c") h)) = some true := by decide +kernel
example : run exReq (fun fp h => do
      let r ← File_DropRequire 200 fp (B "a.b/c") h
      File_DropRequire 200 fp [] r.2) =
    model exReq (fun e => do
      let e ← Modfile.Edit.dropRequire e (B "a.b/c")
      Modfile.Edit.dropRequire e []) ∧
    model exReq (fun e => do
      let e ← Modfile.Edit.dropRequire e (B "a.b/c")
      Modfile.Edit.dropRequire e []) = none := by decide +kernel

-- File.AddExclude: an exact match (nothing happens), a new version of a known path (hint = its last line), a new path
-- (nil hint: appended), a non-canonical version (returned error)
example : match Modfile.Edit.addExclude (exE exReq) (B "x.y/z") (B "v1.2.0") with
    | .ok e' => ∃ h', File_AddExclude isPrintI quoteI 200 (exP exReq) (B "x.y/z") (B "v1.2.0") (exH exReq) = .ok (none, h') ∧
        RepF h' (exP exReq) e'
    | .error err => err = .invalidVersion ∧
        ∃ s, File_AddExclude isPrintI quoteI 200 (exP exReq) (B "x.y/z") (B "v1.2.0") (exH exReq) = .ok (some s, exH exReq) :=
  File_AddExclude_tie exReq_rep _ _ 200 (by decide +kernel) (by decide +kernel) (by decide +kernel) (by decide +kernel)
example : run exReq (fun fp h => File_AddExclude isPrintI quoteI 200 fp (B "x.y/z") (B "v1.1.0") h) =
    model exReq (fun e => Modfile.Edit.addExclude e (B "x.y/z") (B "v1.1.0")) := by decide +kernel
example : run exReq (fun fp h => File_AddExclude isPrintI quoteI 200 fp (B "x.y/z") (B "v1.2.0") h) =
    model exReq (fun e => Modfile.Edit.addExclude e (B "x.y/z") (B "v1.2.0")) := by decide +kernel
example : run exReq (fun fp h => File_AddExclude isPrintI quoteI 200 fp (B "q.r/s") (B "v1.2.0") h) =
    model exReq (fun e => Modfile.Edit.addExclude e (B "q.r/s") (B "v1.2.0")) := by decide +kernel
example : run exReq (fun fp h => File_AddExclude isPrintI quoteI 200 fp (B "x.y/z") (B "v1.2") h) =
    model exReq (fun e => Modfile.Edit.addExclude e (B "x.y/z") (B "v1.2")) ∧
    outcome (run exReq (fun fp h => File_AddExclude isPrintI quoteI 200 fp (B "x.y/z") (B "v1.2") h)) = some false := by decide +kernel

-- File.DropExclude
example : match Modfile.Edit.dropExclude (exE exReq) (B "x.y/z") (B "v1.0.0") with
    | .ok e' => ∃ h', File_DropExclude 200 (exP exReq) (B "x.y/z") (B "v1.0.0") (exH exReq) = .ok (none, h') ∧ RepF h' (exP exReq) e'
    | .error _ => File_DropExclude 200 (exP exReq) (B "x.y/z") (B "v1.0.0") (exH exReq) = .error .panic :=
  File_DropExclude_tie exReq_rep _ _ 200 (by decide +kernel)
example : run exReq (fun fp h => File_DropExclude 200 fp (B "x.y/z") (B "v1.0.0") h) =
    model exReq (fun e => Modfile.Edit.dropExclude e (B "x.y/z") (B "v1.0.0")) := by decide +kernel

-- addReplace / File.AddReplace: all versions of `a.b/c` (first rewritten, second cleared), one version of it, a new old path
-- next to the last replacement of the same path (hint), a new path
example : match Modfile.Edit.addReplace (exE exReq) (B "a.b/c") [] (B "k.l/m") (B "v1.0.0") with
    | .ok e' => ∃ h', File_AddReplace isPrintI quoteI 200 (exP exReq) (B "a.b/c") [] (B "k.l/m") (B "v1.0.0") (exH exReq) = .ok (none, h') ∧
        RepF h' (exP exReq) e'
    | .error _ => File_AddReplace isPrintI quoteI 200 (exP exReq) (B "a.b/c") [] (B "k.l/m") (B "v1.0.0") (exH exReq) = .error .panic :=
  File_AddReplace_tie exReq_rep _ _ _ _ 200 (by decide +kernel) (by decide +kernel) (by decide +kernel) (by decide +kernel)
example : run exReq (fun fp h => File_AddReplace isPrintI quoteI 200 fp (B "a.b/c") [] (B "k.l/m") (B "v1.0.0") h) =
    model exReq (fun e => Modfile.Edit.addReplace e (B "a.b/c") [] (B "k.l/m") (B "v1.0.0")) ∧
    outcome (run exReq (fun fp h => File_AddReplace isPrintI quoteI 200 fp (B "a.b/c") [] (B "k.l/m") (B "v1.0.0") h)) = some true := by
  decide +kernel
example : run exReq (fun fp h => File_AddReplace isPrintI quoteI 200 fp (B "d.e/f") (B "v1.3.0") (B "k.l/m") (B "v1.0.0") h) =
    model exReq (fun e => Modfile.Edit.addReplace e (B "d.e/f") (B "v1.3.0") (B "k.l/m") (B "v1.0.0")) := by decide +kernel
example : run exReq (fun fp h => File_AddReplace isPrintI quoteI 200 fp (B "q.r/s") [] (B "k.l/m") (B "v1.0.0") h) =
    model exReq (fun e => Modfile.Edit.addReplace e (B "q.r/s") [] (B "k.l/m") (B "v1.0.0")) := by decide +kernel
example : match Modfile.Edit.addReplaceCore (exE exReq).f.syn (exE exReq).f.replace ((exH exReq).lines.length + 1) (B "a.b/c") [] (B "k.l/m") (B "v1.0.0") with
    | .ok (fs', rp', n') => ∃ h' ps', addReplace isPrintI quoteI 200 ((exH exReq).mods.head!).Syntax ((exH exReq).mods.head!).Replace
          (B "a.b/c") [] (B "k.l/m") (B "v1.0.0") (exH exReq) = .ok ((none, ps'), h') ∧
        RepR h' ((exH exReq).mods.head!).Syntax ps' fs' rp' ∧ FrameR (exH exReq) h' ∧ n' = h'.lines.length + 1
    | .error _ => addReplace isPrintI quoteI 200 ((exH exReq).mods.head!).Syntax ((exH exReq).mods.head!).Replace
          (B "a.b/c") [] (B "k.l/m") (B "v1.0.0") (exH exReq) = .error .panic := by
  obtain ⟨o, ho, R⟩ := exReq_rep
  have hoe : o = (exH exReq).mods.head! := by
    have : heapGet (exH exReq).mods (exP exReq) = .ok ((exH exReq).mods.head!) := by decide +kernel
    rw [this] at ho; exact (Except.ok.inj ho).symm
  subst hoe
  exact addReplace_tie (FnEditReqC.RepFAt.toRepR R) (B "a.b/c") [] (B "k.l/m") (B "v1.0.0") 200 (by decide +kernel) (by decide +kernel)
    (by decide +kernel) (by decide +kernel)

-- File.DropReplace
example : match Modfile.Edit.dropReplace (exE exReq) (B "a.b/c") (B "v1.0.0") with
    | .ok e' => ∃ h', File_DropReplace 200 (exP exReq) (B "a.b/c") (B "v1.0.0") (exH exReq) = .ok (none, h') ∧ RepF h' (exP exReq) e'
    | .error _ => File_DropReplace 200 (exP exReq) (B "a.b/c") (B "v1.0.0") (exH exReq) = .error .panic :=
  File_DropReplace_tie exReq_rep _ _ 200 (by decide +kernel)
example : run exReq (fun fp h => File_DropReplace 200 fp (B "a.b/c") (B "v1.0.0") h) =
    model exReq (fun e => Modfile.Edit.dropReplace e (B "a.b/c") (B "v1.0.0")) := by decide +kernel

-- File.AddRetract: one version with a two-line rationale, an interval without rationale, a non-canonical version
example : match Modfile.Edit.addRetract (exE exReq) { low := B "v1.0.9", high := B "v1.0.9" } (B "why\nmore") with
    | .ok e' => ∃ h', File_AddRetract isPrintI quoteI 200 (exP exReq) (viG { low := B "v1.0.9", high := B "v1.0.9" }) (B "why\nmore") (exH exReq)
          = .ok (none, h') ∧ RepF h' (exP exReq) e'
    | .error err => err = .invalidVersion ∧
        ∃ s, File_AddRetract isPrintI quoteI 200 (exP exReq) (viG { low := B "v1.0.9", high := B "v1.0.9" }) (B "why\nmore") (exH exReq)
          = .ok (some s, exH exReq) :=
  File_AddRetract_tie exReq_rep _ _ 200 (by decide +kernel) (by decide +kernel) (by decide +kernel) (by decide +kernel) (by decide +kernel)
example : run exReq (fun fp h => File_AddRetract isPrintI quoteI 200 fp { Low := B "v1.0.9", High := B "v1.0.9" } (B "why\nmore") h) =
    model exReq (fun e => Modfile.Edit.addRetract e { low := B "v1.0.9", high := B "v1.0.9" } (B "why\nmore")) ∧
    outcome (run exReq (fun fp h => File_AddRetract isPrintI quoteI 200 fp { Low := B "v1.0.9", High := B "v1.0.9" } (B "why\nmore") h)) = some true ∧
    (run exReq (fun fp h => File_AddRetract isPrintI quoteI 200 fp { Low := B "v1.0.9", High := B "v1.0.9" } (B "why\nmore") h)).map
      (fun r => r.2.retract.map (·.rationale)) = some [[], B "bad", B "why\nmore"] := by decide +kernel
example : run exReq (fun fp h => File_AddRetract isPrintI quoteI 200 fp { Low := B "v1.1.0", High := B "v1.1.5" } [] h) =
    model exReq (fun e => Modfile.Edit.addRetract e { low := B "v1.1.0", high := B "v1.1.5" } []) := by decide +kernel
example : run exReq (fun fp h => File_AddRetract isPrintI quoteI 200 fp { Low := B "v1.1.0", High := B "v1.1" } [] h) =
    model exReq (fun e => Modfile.Edit.addRetract e { low := B "v1.1.0", high := B "v1.1" } []) ∧
    outcome (run exReq (fun fp h => File_AddRetract isPrintI quoteI 200 fp { Low := B "v1.1.0", High := B "v1.1" } [] h)) = some false := by
  decide +kernel

-- File.DropRetract
example : match Modfile.Edit.dropRetract (exE exReq) { low := B "v1.0.2", high := B "v1.0.5" } with
    | .ok e' => ∃ h', File_DropRetract 200 (exP exReq) (viG { low := B "v1.0.2", high := B "v1.0.5" }) (exH exReq) = .ok (none, h') ∧
        RepF h' (exP exReq) e'
    | .error _ => File_DropRetract 200 (exP exReq) (viG { low := B "v1.0.2", high := B "v1.0.5" }) (exH exReq) = .error .panic :=
  File_DropRetract_tie exReq_rep _ 200 (by decide +kernel)
example : run exReq (fun fp h => File_DropRetract 200 fp { Low := B "v1.0.2", High := B "v1.0.5" } h) =
    model exReq (fun e => Modfile.Edit.dropRetract e { low := B "v1.0.2", high := B "v1.0.5" }) := by decide +kernel

end examples

end ModVerif.Tie.FnEditReq
