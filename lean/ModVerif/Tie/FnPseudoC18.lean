/-
  C18 transported to the regenerated code: the property theorems of Props/C18.lean (about the hand model
  Model/Pseudo.lean over Model/Semver.lean) restated about `Generated.Module.PseudoVersion / PseudoVersionBase /
  PseudoVersionRev / IsPseudoVersion / ZeroPseudoVersion / IsZeroPseudoVersion / incDecimal / decDecimal`
  (Generated/FnModule.lean, re-translated from module/pseudo.go on every run) through the tie theorems of Tie/FnPseudo.lean,
  with validity and ordering expressed by the regenerated `Generated.Semver.IsValid / Compare / Canonical / Build`
  (Generated/FnSemver.lean) through Tie/FnSemver.lean.

  Bridging hypotheses, exactly those of the ties: `fmt t "20060102150405" = ts` (`fmt` stands for
  `t.UTC().Format(layout)`, `time.Time` is an abstract type `T`) and `pseudoRE := Pseudo.matchPseudoVersionRE` (the
  deterministic matcher standing for `pseudoVersionRE.MatchString`).  Besides them the only extra hypotheses are explicit
  fuel lower bounds; where a function is applied to the PRODUCED pseudo-version `pv` the bound is `2 * pv.length ≤ f`,
  quantified over every such `f`.  A valid base version is `SemverSpec.Valid older` (the documented grammar) or the
  documented decomposition `Decomp older p`, not the model's parser; `Num`, `decValue`, `Ts`, `Rev`, `MajorArg` are the
  vocabulary of Spec/PseudoSpec.lean.  Every statement is an equation about the RESULT `.ok …`, so it also says: no panic
  (index / slice out of range, the explicit `panic` sites of PseudoVersionBase) and no fuel exhaustion.

  Not transported: `PseudoVersionTime` (calls time.Parse; not in the generated unit) and the pure calendar theorems
  (`fmtTime_mono`, `timeValid_fmtTime`, `civilFromUnix_*`, `formatUnix_*`), which are about the model of Go's time
  formatting, not about pseudo.go.  Corollaries only — nothing here is used by another module.
-/
import ModVerif.Tie.FnPseudo
import ModVerif.Tie.FnSemver
import ModVerif.Props.C18
import ModVerif.Props.C04
import ModVerif.Proofs.GenPropsUtil
namespace ModVerif.Tie.FnPseudoC18
open ModVerif ModVerif.GoRt ModVerif.PseudoSpec ModVerif.TieFnPseudo ModVerif.Tie.FnPseudo ModVerif.Tie.FnSemver
open ModVerif.GenPropsUtil

/-- the admissible bases in specification terms: a version of the documented grammar, or no base and a major prefix -/
theorem base_of_spec {major older : Bytes} (h : SemverSpec.Valid older ∨ (older = [] ∧ MajorArg major)) :
    Semver.isValid older = true ∨ (older = [] ∧ MajorArg major) :=
  h.imp (Props.C04.isValid_iff older).2 id

theorem gen_PseudoVersion_of_model {T : Type} [DecidableEq T] [Inhabited T] (fmt : T → Bytes → Bytes) (t : T) (ts : Bytes)
    (hfmt : fmt t layout = ts) (major older rev pv : Bytes) (fuel : Nat) (hf : 2 * older.length + 8 ≤ fuel)
    (h : Pseudo.pseudoVersion major older ts rev = .ok pv) :
    Generated.Module.PseudoVersion fmt fuel major older t rev = .ok pv := by
  rw [PseudoVersion_tie fmt t ts hfmt major older rev fuel hf, h]

theorem gen_Compare_of_model (v w : Bytes) (c : Int) (f : Nat) (hf : 2 * max v.length w.length ≤ f)
    (h : Semver.compare v w = c) : Generated.Semver.Compare f v w = .ok c := by
  rw [Compare_tie v w f hf, h]

/-! ### incDecimal / decDecimal -/

/-- ★ the regenerated `incDecimal` on a number of any length: no panic, the value grows by exactly one, and the result is
    again a number without leading zeros. -/
theorem gen_incDecimal_spec (d : Bytes) (hd : Num d) (fuel : Nat) (hf : d.length + 1 ≤ fuel) :
    ∃ r, Generated.Module.incDecimal fuel d = .ok r ∧ decValue r = decValue d + 1 ∧ Num r := by
  obtain ⟨r, h1, h2, h3⟩ := Props.C18.incDecimal_spec d hd
  exact ⟨r, by rw [incDecimal_tie d fuel hf, h1], h2, h3⟩

/-- ★ the regenerated `decDecimal` undoes the regenerated `incDecimal`. -/
theorem gen_decDecimal_incDecimal (d : Bytes) (hd : Num d) (fuel : Nat) (hf : d.length + 1 ≤ fuel) :
    ∃ r, Generated.Module.incDecimal fuel d = .ok r ∧
      ∀ f, r.length + 1 ≤ f → Generated.Module.decDecimal f r = .ok d := by
  obtain ⟨r, h1, h2⟩ := Props.C18.decDecimal_incDecimal d hd
  refine ⟨r, by rw [incDecimal_tie d fuel hf, h1], ?_⟩
  intro f hf'
  rw [decDecimal_tie r f hf', h2]

/-! ### the generated pseudo-version is valid and recognised -/

section
variable {T : Type} [DecidableEq T] [Inhabited T] (fmt : T → Bytes → Bytes)

/-- ★ the regenerated `PseudoVersion` never panics on admissible inputs, and its result is a valid version (regenerated
    `semver.IsValid`) that the regenerated `IsPseudoVersion` recognises. -/
theorem gen_pseudo_valid_and_recognised (t : T) (ts : Bytes) (hfmt : fmt t layout = ts) (major older rev : Bytes)
    (hbase : SemverSpec.Valid older ∨ (older = [] ∧ MajorArg major)) (hts : Ts ts) (hrev : Rev rev)
    (fuel : Nat) (hf : 2 * older.length + 8 ≤ fuel) :
    ∃ pv, Generated.Module.PseudoVersion fmt fuel major older t rev = .ok pv ∧
      ∀ f, 2 * pv.length ≤ f →
        Generated.Semver.IsValid f pv = .ok true ∧
        Generated.Module.IsPseudoVersion Pseudo.matchPseudoVersionRE f pv = .ok true := by
  obtain ⟨pv, h1, h2, h3⟩ := Props.C18.pseudo_valid_and_recognised major older ts rev (base_of_spec hbase) hts hrev
  refine ⟨pv, gen_PseudoVersion_of_model fmt t ts hfmt major older rev pv fuel hf h1, ?_⟩
  intro f hf'
  exact ⟨by rw [IsValid_tie pv f hf', h2], by rw [IsPseudoVersion_tie pv f hf', h3]⟩

/-! ### round trip -/

/-- ★ from the pseudo-version produced by the regenerated `PseudoVersion`, the regenerated `PseudoVersionBase` recovers
    the canonical base with its build suffix — regenerated `semver.Canonical(older) + semver.Build(older)`, the empty string
    when there is no base — and the regenerated `PseudoVersionRev` the revision, both with a nil error. -/
theorem gen_pseudo_roundtrip (t : T) (ts : Bytes) (hfmt : fmt t layout = ts) (major older rev : Bytes)
    (hbase : SemverSpec.Valid older ∨ (older = [] ∧ MajorArg major)) (hts : Ts ts) (hrev : Rev rev)
    (fuel : Nat) (hf : 2 * older.length + 8 ≤ fuel) :
    ∃ pv c b, Generated.Module.PseudoVersion fmt fuel major older t rev = .ok pv ∧
      Generated.Semver.Canonical fuel older = .ok c ∧ Generated.Semver.Build fuel older = .ok b ∧
      ∀ f, 2 * pv.length ≤ f →
        Generated.Module.PseudoVersionBase Pseudo.matchPseudoVersionRE f pv = .ok (c ++ b, none) ∧
        Generated.Module.PseudoVersionRev Pseudo.matchPseudoVersionRE f pv = .ok (rev, none) := by
  obtain ⟨pv, h1, h2, h3, _⟩ := Props.C18.pseudo_roundtrip major older ts rev (base_of_spec hbase) hts hrev
  refine ⟨pv, Semver.canonical older, Semver.build older,
    gen_PseudoVersion_of_model fmt t ts hfmt major older rev pv fuel hf h1,
    Canonical_tie older fuel (by omega), Build_tie older fuel (by omega), ?_⟩
  intro f hf'
  exact ⟨by rw [PseudoVersionBase_tie pv f hf', h2], by rw [PseudoVersionRev_tie pv f hf', h3]⟩

/-! ### ordering -/

/-- ★ the pseudo-version sorts — in the order of the regenerated `semver.Compare` — strictly after its base and strictly
    before the next release: for a release base vX.Y.Z that is vX.Y.(Z+1) (`z` any number with value Z+1), for a prerelease
    base vX.Y.Z-pre it is vX.Y.Z.  `p` is the documented decomposition of the base. -/
theorem gen_pseudo_between (t : T) (ts : Bytes) (hfmt : fmt t layout = ts) (major older rev : Bytes) (p : Semver.Parsed)
    (hp : Semver.Decomp older p) (hts : Ts ts) (hrev : Rev rev) (fuel : Nat) (hf : 2 * older.length + 8 ≤ fuel) :
    ∃ pv, Generated.Module.PseudoVersion fmt fuel major older t rev = .ok pv ∧
      (∀ f, 2 * max older.length pv.length ≤ f → Generated.Semver.Compare f older pv = .ok (-1)) ∧
      (p.prerelease = [] → ∀ z, Num z → decValue z = decValue p.patch + 1 →
        ∀ f, 2 * max pv.length (118 :: p.major ++ 46 :: p.minor ++ 46 :: z).length ≤ f →
          Generated.Semver.Compare f pv (118 :: p.major ++ 46 :: p.minor ++ 46 :: z) = .ok (-1)) ∧
      (p.prerelease ≠ [] →
        ∀ f, 2 * max pv.length (118 :: p.major ++ 46 :: p.minor ++ 46 :: p.patch).length ≤ f →
          Generated.Semver.Compare f pv (118 :: p.major ++ 46 :: p.minor ++ 46 :: p.patch) = .ok (-1)) := by
  obtain ⟨pv, h1, h2, h3, h4⟩ :=
    Props.C18.pseudo_between major older ts rev p ((Props.C04.parse_iff_decomp older p).2 hp) hts hrev
  refine ⟨pv, gen_PseudoVersion_of_model fmt t ts hfmt major older rev pv fuel hf h1, ?_, ?_, ?_⟩
  · intro f hf'; exact gen_Compare_of_model _ _ _ f hf' h2
  · intro he z hz hv f hf'; exact gen_Compare_of_model _ _ _ f hf' (h3 he z hz hv)
  · intro hne f hf'; exact gen_Compare_of_model _ _ _ f hf' (h4 hne)

/-- ★ a pseudo-version with no base sorts strictly below vX.0.0 (X = 0 when major is ""). -/
theorem gen_pseudo_nobase_below (t : T) (ts : Bytes) (hfmt : fmt t layout = ts) (major rev : Bytes)
    (hm : MajorArg major) (hts : Ts ts) (hrev : Rev rev) (fuel : Nat) (hf : 8 ≤ fuel) :
    ∃ pv, Generated.Module.PseudoVersion fmt fuel major [] t rev = .ok pv ∧
      ∀ f, 2 * max pv.length ((if major = [] then [118, 48] else major) ++ [46, 48, 46, 48]).length ≤ f →
        Generated.Semver.Compare f pv ((if major = [] then [118, 48] else major) ++ [46, 48, 46, 48]) = .ok (-1) := by
  obtain ⟨pv, h1, h2⟩ := Props.C18.pseudo_nobase_below major ts rev hm hts hrev
  refine ⟨pv, gen_PseudoVersion_of_model fmt t ts hfmt major [] rev pv fuel (by simpa using hf) h1, ?_⟩
  intro f hf'; exact gen_Compare_of_model _ _ _ f hf' h2

/-- ★ time monotonicity: for the same (major, base), the commit whose time formats to the bytewise smaller stamp gets the
    strictly lower pseudo-version in the order of the regenerated `semver.Compare`, whatever the two revisions are. -/
theorem gen_pseudo_time_mono (t1 t2 : T) (ts1 ts2 : Bytes) (hfmt1 : fmt t1 layout = ts1) (hfmt2 : fmt t2 layout = ts2)
    (major older rev1 rev2 : Bytes) (hbase : SemverSpec.Valid older ∨ (older = [] ∧ MajorArg major))
    (h1 : Ts ts1) (h2 : Ts ts2) (r1 : Rev rev1) (r2 : Rev rev2) (hlt : bytesLt ts1 ts2 = true)
    (fuel : Nat) (hf : 2 * older.length + 8 ≤ fuel) :
    ∃ pv1 pv2, Generated.Module.PseudoVersion fmt fuel major older t1 rev1 = .ok pv1 ∧
      Generated.Module.PseudoVersion fmt fuel major older t2 rev2 = .ok pv2 ∧
      ∀ f, 2 * max pv1.length pv2.length ≤ f → Generated.Semver.Compare f pv1 pv2 = .ok (-1) := by
  obtain ⟨pv1, pv2, a, b, c⟩ :=
    Props.C18.pseudo_time_mono major older ts1 ts2 rev1 rev2 (base_of_spec hbase) h1 h2 r1 r2 hlt
  refine ⟨pv1, pv2, gen_PseudoVersion_of_model fmt t1 ts1 hfmt1 major older rev1 pv1 fuel hf a,
    gen_PseudoVersion_of_model fmt t2 ts2 hfmt2 major older rev2 pv2 fuel hf b, ?_⟩
  intro f hf'; exact gen_Compare_of_model _ _ _ f hf' c

/-- ★ "a later time gives a higher version", from the Unix instants: if `fmt` renders the two commit times as the stamps
    of the instants `s1 < s2` (years 0001–9999; `Pseudo.formatUnix` is the model of `t.UTC().Format("20060102150405")`,
    compared with Go's time package by the correspondence run), the earlier commit gets the strictly lower pseudo-version. -/
theorem gen_pseudo_time_mono_unix (t1 t2 : T) (s1 s2 : Int) (hfmt1 : fmt t1 layout = Pseudo.formatUnix s1)
    (hfmt2 : fmt t2 layout = Pseudo.formatUnix s2) (major older rev1 rev2 : Bytes)
    (hbase : SemverSpec.Valid older ∨ (older = [] ∧ MajorArg major)) (r1 : Rev rev1) (r2 : Rev rev2)
    (h11 : -62135596800 ≤ s1) (h12 : s1 ≤ 253402300799) (h21 : -62135596800 ≤ s2) (h22 : s2 ≤ 253402300799)
    (h : s1 < s2) (fuel : Nat) (hf : 2 * older.length + 8 ≤ fuel) :
    ∃ pv1 pv2, Generated.Module.PseudoVersion fmt fuel major older t1 rev1 = .ok pv1 ∧
      Generated.Module.PseudoVersion fmt fuel major older t2 rev2 = .ok pv2 ∧
      ∀ f, 2 * max pv1.length pv2.length ≤ f → Generated.Semver.Compare f pv1 pv2 = .ok (-1) :=
  gen_pseudo_time_mono fmt t1 t2 _ _ hfmt1 hfmt2 major older rev1 rev2 hbase
    (Props.C18.formatUnix_ts s1 h11 h12) (Props.C18.formatUnix_ts s2 h21 h22) r1 r2
    (Props.C18.formatUnix_mono s1 s2 h11 h12 h21 h22 h) fuel hf

/-- ★ the zero pseudo-version produced by the regenerated `ZeroPseudoVersion("")` (under
    `time.Time{}.UTC().Format(layout) = "00010101000000"`) is "v0.0.0-00010101000000-000000000000"; the regenerated
    `IsPseudoVersion` and `IsZeroPseudoVersion` both accept it. -/
theorem gen_zeroPseudo_recognised (hz : fmt (default : T) layout = Pseudo.zeroTimestamp) (fuel f : Nat) (hf : 68 ≤ f) :
    Generated.Module.ZeroPseudoVersion fmt fuel [] =
      .ok [118, 48, 46, 48, 46, 48, 45, 48, 48, 48, 49, 48, 49, 48, 49, 48, 48, 48, 48, 48, 48, 45,
        48, 48, 48, 48, 48, 48, 48, 48, 48, 48, 48, 48] ∧
    Generated.Module.IsPseudoVersion Pseudo.matchPseudoVersionRE f
      [118, 48, 46, 48, 46, 48, 45, 48, 48, 48, 49, 48, 49, 48, 49, 48, 48, 48, 48, 48, 48, 45,
        48, 48, 48, 48, 48, 48, 48, 48, 48, 48, 48, 48] = .ok true ∧
    Generated.Module.IsZeroPseudoVersion fmt f
      [118, 48, 46, 48, 46, 48, 45, 48, 48, 48, 49, 48, 49, 48, 49, 48, 48, 48, 48, 48, 48, 45,
        48, 48, 48, 48, 48, 48, 48, 48, 48, 48, 48, 48] = .ok true := by
  obtain ⟨z, hm, hg⟩ := ZeroPseudoVersion_tie fmt hz [] fuel
  obtain ⟨p1, p2, p3⟩ := Props.C18.zeroPseudo_recognised
  rw [hm] at p1 p2 p3
  have ez : z = [118, 48, 46, 48, 46, 48, 45, 48, 48, 48, 49, 48, 49, 48, 49, 48, 48, 48, 48, 48, 48, 45,
      48, 48, 48, 48, 48, 48, 48, 48, 48, 48, 48, 48] := by simpa [Except.toOption] using p1
  subst ez
  refine ⟨hg, ?_, ?_⟩
  · have e2 : Pseudo.isPseudoVersion [118, 48, 46, 48, 46, 48, 45, 48, 48, 48, 49, 48, 49, 48, 49, 48, 48, 48, 48, 48, 48, 45,
      48, 48, 48, 48, 48, 48, 48, 48, 48, 48, 48, 48] = true := by
      simpa [Except.toOption] using p2
    rw [IsPseudoVersion_tie _ f (by simpa using hf), e2]
  · have e3 : Pseudo.isZeroPseudoVersion [118, 48, 46, 48, 46, 48, 45, 48, 48, 48, 49, 48, 49, 48, 49, 48, 48, 48, 48, 48, 48, 45,
      48, 48, 48, 48, 48, 48, 48, 48, 48, 48, 48, 48] = true := by
      simpa [Except.toOption] using p3
    rw [IsZeroPseudoVersion_tie fmt hz _ f (by simpa using hf), e3]

end

/-! ### non-vacuity (T := Unit, the clock always formats to "20060102150405" resp. the given stamp) -/

/-- "199" ↦ "200" ↦ "199"; forty nines grow to 41 digits -/
example : Num [49, 57, 57] ∧ Generated.Module.incDecimal 4 [49, 57, 57] = .ok [50, 48, 48] ∧
    Generated.Module.decDecimal 4 [50, 48, 48] = .ok [49, 57, 57] ∧ decValue [50, 48, 48] = decValue [49, 57, 57] + 1 := by
  decide +kernel

/-- the hypotheses are satisfiable: "v1.2.3+meta" is in the grammar, "20060102150405" is a stamp, "abcdefabcdef" a revision;
    "v2" is a major argument -/
example : SemverSpec.Valid [118, 49, 46, 50, 46, 51, 43, 109, 101, 116, 97] ∧ Ts exStamp ∧ Rev exRev ∧ MajorArg [118, 50] :=
  ⟨(Props.C04.isValid_iff _).1 (by decide +kernel), by decide, by decide, Or.inr ⟨[50], by decide, rfl⟩⟩

/- valid + recognised + round trip, evaluated: PseudoVersion("v1", "v1.2.3+meta", t, "abcdefabcdef") =
    "v1.2.4-0.20060102150405-abcdefabcdef+meta"; base = Canonical + Build = "v1.2.3" ++ "+meta" -/
set_option maxRecDepth 8000 in
example :
    Generated.Module.PseudoVersion (T := Unit) (fun _ _ => exStamp) 30 [118, 49]
      [118, 49, 46, 50, 46, 51, 43, 109, 101, 116, 97] () exRev = .ok (exRelease ++ [43, 109, 101, 116, 97]) ∧
    Generated.Semver.IsValid 90 (exRelease ++ [43, 109, 101, 116, 97]) = .ok true ∧
    Generated.Module.IsPseudoVersion Pseudo.matchPseudoVersionRE 90 (exRelease ++ [43, 109, 101, 116, 97]) = .ok true ∧
    Generated.Semver.Canonical 30 [118, 49, 46, 50, 46, 51, 43, 109, 101, 116, 97] = .ok [118, 49, 46, 50, 46, 51] ∧
    Generated.Semver.Build 30 [118, 49, 46, 50, 46, 51, 43, 109, 101, 116, 97] = .ok [43, 109, 101, 116, 97] ∧
    Generated.Module.PseudoVersionBase Pseudo.matchPseudoVersionRE 90 (exRelease ++ [43, 109, 101, 116, 97]) =
      .ok ([118, 49, 46, 50, 46, 51] ++ [43, 109, 101, 116, 97], none) ∧
    Generated.Module.PseudoVersionRev Pseudo.matchPseudoVersionRE 90 (exRelease ++ [43, 109, 101, 116, 97]) =
      .ok (exRev, none) := by decide +kernel

/- ordering, evaluated: "v1.2.3" < "v1.2.4-0.20060102150405-abcdefabcdef" < "v1.2.4";
    "v1.2.3-pre" < "v1.2.3-pre.0.20060102150405-abcdefabcdef" < "v1.2.3" -/
set_option maxRecDepth 8000 in
example :
    Generated.Module.PseudoVersion (T := Unit) (fun _ _ => exStamp) 30 [118, 49] [118, 49, 46, 50, 46, 51] () exRev =
      .ok exRelease ∧
    Generated.Semver.Compare 80 [118, 49, 46, 50, 46, 51] exRelease = .ok (-1) ∧
    Generated.Semver.Compare 80 exRelease [118, 49, 46, 50, 46, 52] = .ok (-1) ∧
    Generated.Module.PseudoVersion (T := Unit) (fun _ _ => exStamp) 30 [118, 49]
      [118, 49, 46, 50, 46, 51, 45, 112, 114, 101] () exRev = .ok exPre ∧
    Generated.Semver.Compare 80 [118, 49, 46, 50, 46, 51, 45, 112, 114, 101] exPre = .ok (-1) ∧
    Generated.Semver.Compare 80 exPre [118, 49, 46, 50, 46, 51] = .ok (-1) := by decide +kernel

/-- `gen_pseudo_between` instantiated on the base "v1.2.3" (decomposition: full form, empty prerelease and build) -/
example : ∃ pv, Generated.Module.PseudoVersion (T := Unit) (fun _ _ => exStamp) 30 [118, 49]
      (118 :: [49] ++ 46 :: [50] ++ 46 :: [51] ++ [] ++ []) () exRev = .ok pv ∧
    ∀ f, 2 * max pv.length (118 :: [49] ++ 46 :: [50] ++ 46 :: [52]).length ≤ f →
      Generated.Semver.Compare f pv (118 :: [49] ++ 46 :: [50] ++ 46 :: [52]) = .ok (-1) := by
  have n1 : SemverSpec.Num [49] := ⟨by simp, by decide, by simp⟩
  have n2 : SemverSpec.Num [50] := ⟨by simp, by decide, by simp⟩
  have n3 : SemverSpec.Num [51] := ⟨by simp, by decide, by simp⟩
  obtain ⟨pv, h1, _, h3, _⟩ := gen_pseudo_between (T := Unit) (fun _ _ => exStamp) () exStamp rfl [118, 49]
    (118 :: [49] ++ 46 :: [50] ++ 46 :: [51] ++ [] ++ []) exRev _
    (Semver.Decomp.full [49] [50] [51] [] [] n1 n2 n3 (Or.inl rfl) (Or.inl rfl)) (by decide) (by decide) 30 (by decide)
  exact ⟨pv, h1, h3 rfl [52] (by decide) (by decide)⟩

/- no base: PseudoVersion("v2", "", t, rev) = "v2.0.0-20060102150405-abcdefabcdef" < "v2.0.0" -/
set_option maxRecDepth 8000 in
example :
    Generated.Module.PseudoVersion (T := Unit) (fun _ _ => exStamp) 8 [118, 50] [] () exRev =
      .ok ([118, 50, 46, 48, 46, 48, 45] ++ exStamp ++ 45 :: exRev) ∧
    Generated.Semver.Compare 80 ([118, 50, 46, 48, 46, 48, 45] ++ exStamp ++ 45 :: exRev) [118, 50, 46, 48, 46, 48] = .ok (-1) := by
  decide +kernel

/- time monotonicity, evaluated with a clock `Bool → stamp`: one second apart, the earlier commit has the "larger" revision -/
set_option maxRecDepth 8000 in
example :
    bytesLt [50, 48, 50, 51, 49, 49, 49, 52, 50, 50, 49, 51, 49, 57] [50, 48, 50, 51, 49, 49, 49, 52, 50, 50, 49, 51, 50, 48] = true ∧
    Generated.Module.PseudoVersion (T := Bool)
      (fun b _ => if b then [50, 48, 50, 51, 49, 49, 49, 52, 50, 50, 49, 51, 50, 48] else [50, 48, 50, 51, 49, 49, 49, 52, 50, 50, 49, 51, 49, 57])
      30 [118, 49] [118, 49, 46, 50, 46, 51] false [122, 122] =
      .ok ([118, 49, 46, 50, 46, 52, 45, 48, 46] ++ [50, 48, 50, 51, 49, 49, 49, 52, 50, 50, 49, 51, 49, 57] ++ [45, 122, 122]) ∧
    Generated.Module.PseudoVersion (T := Bool)
      (fun b _ => if b then [50, 48, 50, 51, 49, 49, 49, 52, 50, 50, 49, 51, 50, 48] else [50, 48, 50, 51, 49, 49, 49, 52, 50, 50, 49, 51, 49, 57])
      30 [118, 49] [118, 49, 46, 50, 46, 51] true [48] =
      .ok ([118, 49, 46, 50, 46, 52, 45, 48, 46] ++ [50, 48, 50, 51, 49, 49, 49, 52, 50, 50, 49, 51, 50, 48] ++ [45, 48]) ∧
    Generated.Semver.Compare 80
      ([118, 49, 46, 50, 46, 52, 45, 48, 46] ++ [50, 48, 50, 51, 49, 49, 49, 52, 50, 50, 49, 51, 49, 57] ++ [45, 122, 122])
      ([118, 49, 46, 50, 46, 52, 45, 48, 46] ++ [50, 48, 50, 51, 49, 49, 49, 52, 50, 50, 49, 51, 50, 48] ++ [45, 48]) = .ok (-1) := by
  decide +kernel

/-- the zero pseudo-version, evaluated -/
example : Generated.Module.ZeroPseudoVersion (T := Unit) (fun _ _ => Pseudo.zeroTimestamp) 0 [] =
    .ok [118, 48, 46, 48, 46, 48, 45, 48, 48, 48, 49, 48, 49, 48, 49, 48, 48, 48, 48, 48, 48, 45,
      48, 48, 48, 48, 48, 48, 48, 48, 48, 48, 48, 48] :=
  (gen_zeroPseudo_recognised (T := Unit) (fun _ _ => Pseudo.zeroTimestamp) rfl 0 68 (by decide)).1

end ModVerif.Tie.FnPseudoC18
