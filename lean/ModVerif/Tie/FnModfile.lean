/-
  Tie: every regenerated function of the modfile unit (Generated/FnModfile.lean, namespace ModVerif.Generated.Modfile,
  re-translated from modfile/read.go and modfile/rule.go on every check) computes exactly what the hand model
  (Model/Modfile/Lex.lean: isIdent; Model/Modfile/Rule.lean: isDirectoryPath, mustQuote, autoQuote, parseString,
  modulePath) says, for ALL byte strings and all fuel above the stated bound.  The unit is translated in ideal integer
  mode; the only hypotheses are fuel lower bounds and, for isIdent, that the `int` argument is in the int32 range
  (`rune(c)` wraps outside it; the lexer only passes runes, 0 ≤ c ≤ 0x10FFFF).  Each equation also proves: no Go
  panic (index / slice out of range) and no fuel exhaustion.

  Bridging (how the translator's abstract parameters meet the model) — the instantiation is the one the driver
  Drv/GenModfile.lean executes against the real implementation on every check:
  * `isPrint, isSpace : Int → Bool` (unicode.IsPrint / IsSpace) := `isPrintI r = UnicodePrint.isPrint r.toNat`,
    `isSpaceI r = UnicodePrint.isSpace r.toNat`;
  * `quote : Bytes → Bytes` (strconv.Quote) := `Quote.quote`;
  * `unquote : Bytes → Bytes × Option String` (strconv.Unquote) := `unquoteI`, i.e. `Quote.unquote` with Go's
    `(value, error)` shape (`("", some "invalid syntax")` for the model's `none`);
  * `GoRt.trimSpace` / `GoRt.containsAny` are by definition the model's `GoStrings.trimSpace` / `containsAny`.
  * Go `error` is `Option String`: parseString's two error values are spelled out by `TieFnModfile.parseStringErr`.

  `ModulePath_agrees_partial` transfers C20's ModulePath clause to the regenerated function.

  Helper lemmas: Proofs/GoRtLemmasModfile.lean, Proofs/TieFnModfileQuote.lean, Proofs/TieFnModfilePath.lean.
-/
import ModVerif.Generated.FnModfile
import ModVerif.Model.Modfile.Lex
import ModVerif.Model.Modfile.Rule
import ModVerif.Drv.GenModfile
import ModVerif.Proofs.TieFnModfileQuote
import ModVerif.Proofs.TieFnModfilePath
import ModVerif.Proofs.ModfileC20ModFinal
namespace ModVerif.Tie.FnModfile
open ModVerif ModVerif.TieFnModfile ModVerif.Drv.GenModfile

/-- isIdent (read.go): `switch r := rune(c)` with the eight excluded punctuation runes, else
    `!unicode.IsSpace(r) && unicode.IsPrint(r)`.  `c` is a Go `int`; on the int32 range `rune(c) = c`
    (a negative `c` matches no case and is neither space nor printable, like the model at `toNat = 0`). -/
theorem isIdent_tie (c : Int) (h0 : -2147483648 ≤ c) (h1 : c < 2147483648) :
    Generated.Modfile.isIdent isPrintI isSpaceI c = Modfile.isIdent c.toNat :=
  isIdent_eq c h0 h1

/-- isIdent on a rune given as a natural number (the form the lexer model uses) -/
theorem isIdent_tie_nat (n : Nat) (h : n < 2147483648) :
    Generated.Modfile.isIdent isPrintI isSpaceI (n : Int) = Modfile.isIdent n := by
  have := isIdent_eq (n : Int) (by omega) (by omega)
  simpa using this

-- 'a' is an identifier rune, '(' and ' ' are not, U+00E9 is, U+0085 (NEL, a space) is not
example : Generated.Modfile.isIdent isPrintI isSpaceI 97 = true ∧ Modfile.isIdent 97 = true := by decide +kernel
example : Generated.Modfile.isIdent isPrintI isSpaceI 40 = false ∧ Modfile.isIdent 40 = false := by decide +kernel
example : Generated.Modfile.isIdent isPrintI isSpaceI 233 = true ∧ Modfile.isIdent 233 = true := by decide +kernel
example : Generated.Modfile.isIdent isPrintI isSpaceI 133 = false ∧ Modfile.isIdent 133 = false := by decide +kernel

/-- IsDirectoryPath (rule.go): the eight prefix tests and the drive-letter test `len(ns) >= 2 && … && ns[1] == ':'`
    (the index expressions never panic). -/
theorem IsDirectoryPath_tie (ns : Bytes) :
    Generated.Modfile.IsDirectoryPath ns = .ok (Modfile.isDirectoryPath ns) :=
  IsDirectoryPath_eq ns

-- "./x", "c:", "x/y", ""
example : Generated.Modfile.IsDirectoryPath [46, 47, 120] = .ok true ∧ Modfile.isDirectoryPath [46, 47, 120] = true := by
  decide +kernel
example : Generated.Modfile.IsDirectoryPath [99, 58] = .ok true ∧ Modfile.isDirectoryPath [99, 58] = true := by
  decide +kernel
example : Generated.Modfile.IsDirectoryPath [120, 47, 121] = .ok false ∧ Modfile.isDirectoryPath [120, 47, 121] = false := by
  decide +kernel
example : Generated.Modfile.IsDirectoryPath [] = .ok false ∧ Modfile.isDirectoryPath [] = false := by decide +kernel

/-- MustQuote (rule.go): the `for _, r := range s` loop with its three-way switch (ill-formed UTF-8 is U+FFFD of
    width 1 on both sides), then `s == "" || Contains(s, "//") || Contains(s, "/*")`. -/
theorem MustQuote_tie (s : Bytes) (fuel : Nat) (hf : s.length + 1 ≤ fuel) :
    Generated.Modfile.MustQuote isPrintI fuel s = .ok (Modfile.mustQuote s) :=
  MustQuote_eq s fuel hf

-- "a b" (space), "(" alone (no), "a(" (yes: len > 1), "a//b", "", "é" (no), a lone 0xFF byte (U+FFFD is printable: no)
example : Generated.Modfile.MustQuote isPrintI 4 [97, 32, 98] = .ok true ∧ Modfile.mustQuote [97, 32, 98] = true := by
  decide +kernel
example : Generated.Modfile.MustQuote isPrintI 2 [40] = .ok false ∧ Modfile.mustQuote [40] = false := by decide +kernel
example : Generated.Modfile.MustQuote isPrintI 3 [97, 40] = .ok true ∧ Modfile.mustQuote [97, 40] = true := by decide +kernel
example : Generated.Modfile.MustQuote isPrintI 5 [97, 47, 47, 98] = .ok true ∧ Modfile.mustQuote [97, 47, 47, 98] = true := by
  decide +kernel
example : Generated.Modfile.MustQuote isPrintI 1 [] = .ok true ∧ Modfile.mustQuote [] = true := by decide +kernel
example : Generated.Modfile.MustQuote isPrintI 3 [195, 169] = .ok false ∧ Modfile.mustQuote [195, 169] = false := by
  decide +kernel
example : Generated.Modfile.MustQuote isPrintI 2 [255] = .ok false ∧ Modfile.mustQuote [255] = false := by decide +kernel
-- with less fuel than the bound the generated loop does run out
example : Generated.Modfile.MustQuote isPrintI 1 [97] = .error .fuel := by decide +kernel

/-- AutoQuote (rule.go) -/
theorem AutoQuote_tie (s : Bytes) (fuel : Nat) (hf : s.length + 1 ≤ fuel) :
    Generated.Modfile.AutoQuote isPrintI Quote.quote fuel s = .ok (Modfile.autoQuote s) :=
  AutoQuote_eq s fuel hf

-- "a b" ↦ "\"a b\"", "ab" ↦ "ab"
example : Generated.Modfile.AutoQuote isPrintI Quote.quote 4 [97, 32, 98] = .ok [34, 97, 32, 98, 34] ∧
    Modfile.autoQuote [97, 32, 98] = [34, 97, 32, 98, 34] := by decide +kernel
example : Generated.Modfile.AutoQuote isPrintI Quote.quote 3 [97, 98] = .ok [97, 98] ∧
    Modfile.autoQuote [97, 98] = [97, 98] := by decide +kernel

/-- parseString (rule.go).  The `*string` parameter is the extra last result: on success the value, a nil error and the
    re-quoted token `AutoQuote(t)`; on failure `""`, the error, and the token left alone.  AutoQuote runs on the
    UNQUOTED value, which can be up to four times as long as the token (`TieFnModfile.unquote_length`: an ill-formed
    byte in a quoted token becomes U+FFFD), hence the fuel bound. -/
theorem parseString_tie (s : Bytes) (fuel : Nat) (hf : 4 * s.length + 1 ≤ fuel) :
    Generated.Modfile.parseString isPrintI Quote.quote unquoteI fuel s =
      .ok (match Modfile.parseString s with
        | some (t, tok) => ((t, none), tok)
        | none => (([], parseStringErr s), s)) :=
  parseString_eq s fuel hf

-- "\"a b\"" ↦ ("a b", nil), token kept quoted; "\"ab\"" ↦ ("ab", nil), token rewritten to ab;
-- "a'b" and "\"a" are errors
example : Generated.Modfile.parseString isPrintI Quote.quote unquoteI 21 [34, 97, 32, 98, 34] =
      .ok (([97, 32, 98], none), [34, 97, 32, 98, 34]) ∧
    Modfile.parseString [34, 97, 32, 98, 34] = some ([97, 32, 98], [34, 97, 32, 98, 34]) := by decide +kernel
example : Generated.Modfile.parseString isPrintI Quote.quote unquoteI 17 [34, 97, 98, 34] = .ok (([97, 98], none), [97, 98]) ∧
    Modfile.parseString [34, 97, 98, 34] = some ([97, 98], [97, 98]) := by decide +kernel
example : Generated.Modfile.parseString isPrintI Quote.quote unquoteI 13 [97, 39, 98] =
      .ok (([], some "unquoted string cannot contain quote"), [97, 39, 98]) ∧
    Modfile.parseString [97, 39, 98] = none := by decide +kernel
example : Generated.Modfile.parseString isPrintI Quote.quote unquoteI 9 [34, 97] =
      .ok (([], some "invalid syntax"), [34, 97]) ∧
    Modfile.parseString [34, 97] = none := by decide +kernel

/-- ModulePath (read.go), property C20's last clause: the Go loop peels one line per iteration with
    `bytes.IndexByte`, cuts the `//` comment, trims, tests the `module` prefix and the separating space, unquotes a
    `"`/backquote value and returns, or `continue`s; the model scans the lines of `splitOn 10 mod`.  No index or slice
    expression panics, and `len(mod) + 1` iterations suffice. -/
theorem ModulePath_tie (mod : Bytes) (fuel : Nat) (hf : mod.length + 1 ≤ fuel) :
    Generated.Modfile.ModulePath unquoteI fuel mod = .ok (Modfile.modulePath mod) :=
  ModulePath_eq mod fuel hf

-- "// c\nmodule \"a/b\" // x\ngo 1.2\n" ↦ "a/b";  "go 1\nmodule m" ↦ "m";  "modulex\n" ↦ "";  "module \"a\n" ↦ ""
example : Generated.Modfile.ModulePath unquoteI 33
      [47, 47, 32, 99, 10, 109, 111, 100, 117, 108, 101, 32, 34, 97, 47, 98, 34, 32, 47, 47, 32, 120, 10, 103, 111, 32, 49,
        46, 50, 10] = .ok [97, 47, 98] ∧
    Modfile.modulePath
      [47, 47, 32, 99, 10, 109, 111, 100, 117, 108, 101, 32, 34, 97, 47, 98, 34, 32, 47, 47, 32, 120, 10, 103, 111, 32, 49,
        46, 50, 10] = [97, 47, 98] := by decide +kernel
example : Generated.Modfile.ModulePath unquoteI 14 [103, 111, 32, 49, 10, 109, 111, 100, 117, 108, 101, 32, 109] = .ok [109] ∧
    Modfile.modulePath [103, 111, 32, 49, 10, 109, 111, 100, 117, 108, 101, 32, 109] = [109] := by decide +kernel
example : Generated.Modfile.ModulePath unquoteI 9 [109, 111, 100, 117, 108, 101, 120, 10] = .ok [] ∧
    Modfile.modulePath [109, 111, 100, 117, 108, 101, 120, 10] = [] := by decide +kernel
example : Generated.Modfile.ModulePath unquoteI 11 [109, 111, 100, 117, 108, 101, 32, 34, 97, 10] = .ok [] ∧
    Modfile.modulePath [109, 111, 100, 117, 108, 101, 32, 34, 97, 10] = [] := by decide +kernel

/-- C20's last clause (`Props.C20.modulePath_agrees_partial`) transferred to the REGENERATED ModulePath: a statement
    about `Generated.Modfile.ModulePath` and the strict parser only.  Same hypotheses as the model's theorem (strict
    Parse accepts `x`, the module directive is a top-level line naming a valid import path, the scanner skips every
    earlier source line — without the last one the clause is false, see `Props.C20.C20_violated_modulePath_*`). -/
theorem ModulePath_agrees_partial (name x : Bytes) (f : Modfile.File) (m : Modfile.Module)
    (h : Modfile.parseToFile name x none true = .ok f) (hm : f.module = some m)
    (hvalid : Module.checkImportPath m.mod.path = .ok ())
    (htop : ∃ l, Modfile.Expr.line l ∈ f.syn.stmts ∧ l.id = m.lineId ∧
      ∀ j, j + 1 < l.start.line → ∀ ln, (splitOn 10 x)[j]? = some ln → Modfile.modulePathLine ln = none)
    (fuel : Nat) (hf : x.length + 1 ≤ fuel) :
    Generated.Modfile.ModulePath unquoteI fuel x = .ok m.mod.path := by
  rw [ModulePath_tie x fuel hf, Proofs.ModfileC20.modulePath_agrees name x f m h hm hvalid htop]

/-- Non-vacuity of `ModulePath_agrees_partial`: a file with a doc comment, an indented quoted module path with a trailing
    comment and CRLF, and other directives satisfies all hypotheses; the regenerated ModulePath returns the path the
    strict parser reports. -/
example :
    let x := B "// Deprecated: no\n  module\t\"example.com/m/v2\" // c\r\n\ngo 1.21\nrequire (\n\ta.b/c v1.0.0\n)\n"
    ∃ f m, Modfile.parseToFile (B "go.mod") x none true = .ok f ∧ f.module = some m ∧
      Generated.Modfile.ModulePath unquoteI (x.length + 1) x = .ok m.mod.path := by
  intro x
  obtain ⟨f, m, h, hm, hvalid, htop⟩ :=
    Proofs.ModfileC20.modulePathHyps_spec (x := x) (by decide +kernel)
  exact ⟨f, m, h, hm, ModulePath_agrees_partial _ x f m h hm hvalid htop _ (Nat.le_refl _)⟩

end ModVerif.Tie.FnModfile
