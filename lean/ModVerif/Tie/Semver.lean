/- Tie: regenerated leaf predicates of semver.go equal the hand-written model's. -/
import ModVerif.Model.Semver
import ModVerif.Generated.Preds
namespace ModVerif.Tie

theorem semver_isIdentChar_tie :
    ∀ n, n < 256 → Semver.isIdentChar (UInt8.ofNat n) = Generated.semver_isIdentChar n := by decide +kernel

end ModVerif.Tie
