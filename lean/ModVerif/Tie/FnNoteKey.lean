/-
  Tie theorems, sumdb/note/note.go, part 3: `NewVerifier` and `NewSigner` regenerated from the Go source by go2lean
  (`Generated/FnNoteKey.lean`, with the trivial methods `verifier.Name` … `signer.Sign`) compute exactly what the hand model
  (`Model/Note.lean`: `NewVerifier`, `NewSigner`, `parseHash16`) says, for EVERY key string — in particular no panic in
  `key[0]`, `key[1:]`, `key[32:]`.

  Instantiation of the abstract parameters of the generated code, as in Drv/GenNoteKey.lean: `b64dec := b64decI`,
  `isSpace := isSpaceI` (Proofs/TieFnNoteUtf8.lean), `shaSum acc pre := pre ++ sha acc` with the model's abstract `sha`
  (`h.Sum(nil)` of a SHA-256 accumulator), `edVerify` the model's `edVerify`; for NewSigner
  `ed25519.NewKeyFromSeed seed := seed ++ edPub seed` with the model's (arbitrary) `edPub`, and any `ed25519.Sign` function
  `edSignG` on 64-byte private keys that agrees with the model's seed-indexed `edSign` (`edSignG (seed ++ edPub seed) = edSign seed`
  for 32-byte seeds; e.g. `fun key => edSign (key.take 32)`).  `strconv.ParseUint` is the run-time vocabulary
  `GoRt.parseUint` (Basic/GoRtStrconv.lean).

  `embedVerifier` / `embedSigner` (Proofs/TieFnNoteKey.lean) map the model's `Except KeyErr _` to the result of the generated
  function: `.ok v ↦ .ok (⟨v.name, v.hash.toNat, v.verify⟩, nil)`, `.error .id / .alg / .hash ↦ .ok (zero value, errVerifierID /
  errVerifierAlg / errVerifierHash)` (resp. `errSigner…`), and the model's `.error .panic` (a `sha` returning fewer than four
  bytes: `binary.BigEndian.Uint32` in `keyHash` panics) ↦ `.error .panic`, as in `keyHash_tie`.
-/
import ModVerif.Generated.FnNoteKey
import ModVerif.Model.Note
import ModVerif.Tie.FnNote
import ModVerif.Tie.FnNoteSign
import ModVerif.Proofs.TieFnNoteKey
namespace ModVerif.Tie.FnNoteKey
open ModVerif ModVerif.GoRt ModVerif.TieFnNote ModVerif.TieFnNoteSign ModVerif.TieFnNoteKey

/-- `len(hash16) == 8 && strconv.ParseUint(hash16, 16, 32)` succeeds, exactly when the model's `parseHash16` returns a value
    (exactly eight hex digits, either case); the parsed number is then that value (eight hex digits always fit 32 bits, so
    the range error of ParseUint cannot occur behind the length test) -/
theorem parseUint_hash16 (hash16 : Bytes) :
    ((len hash16 = 8 ∧ (parseUint hash16 16 32).2 = none) ↔ ∃ h, Note.parseHash16 hash16 = some h) ∧
    ∀ h, Note.parseHash16 hash16 = some h → parseUint hash16 16 32 = (Int.ofNat h.toNat, none) := by
  refine ⟨⟨fun hc => ?_, fun ⟨h, hp⟩ => ?_⟩, fun h hp => (parseHash16_some hp).2⟩
  · cases hp : Note.parseHash16 hash16 with
    | none => exact absurd hc (parseHash16_none hp)
    | some h => exact ⟨h, rfl⟩
  · obtain ⟨h8, hu⟩ := parseHash16_some hp
    exact ⟨h8, by rw [hu]⟩

example : parseUint (B "00fF0a2b") 16 32 = (16714283, none) ∧ Note.parseHash16 (B "00fF0a2b") = some 16714283 ∧
    len (B "00fF0a2b") = 8 ∧
    (parseUint (B "00fg0a2b") 16 32).2 ≠ none ∧ Note.parseHash16 (B "00fg0a2b") = none ∧
    (parseUint (B "0000001") 16 32).2 = none ∧ len (B "0000001") ≠ 8 ∧ Note.parseHash16 (B "0000001") = none ∧
    (parseUint (B "100000000") 16 32).2 ≠ none ∧ Note.parseHash16 (B "100000000") = none := by decide +kernel

/-- `NewVerifier(vkey)`, every key string, hash function and `ed25519.Verify`: the complete result, the panic of
    `binary.BigEndian.Uint32` (only with a `sha` of fewer than four bytes) included -/
theorem NewVerifier_tie (sha : Bytes → Bytes) (edVerify : Bytes → Bytes → Bytes → Bool) (vkey : Bytes) :
    Generated.NoteKey.NewVerifier b64decI edVerify isSpaceI (fun acc pre => pre ++ sha acc) vkey =
      embedVerifier (Note.NewVerifier sha edVerify vkey) :=
  NewVerifier_eq sha edVerify vkey

/-- the model's NewVerifier reports a panic only for a hash function with fewer than four bytes of output -/
theorem NewVerifier_no_panic (sha : Bytes → Bytes) (hsha : ∀ x, 4 ≤ (sha x).length)
    (edVerify : Bytes → Bytes → Bytes → Bool) (vkey : Bytes) :
    Note.NewVerifier sha edVerify vkey ≠ .error .panic := by
  have hk : ∀ n k, Note.keyHash sha n k ≠ none := fun n k h => by
    obtain ⟨kh, h', _⟩ := Tie.FnNoteSign.keyHash_tie_ok sha hsha n k
    rw [h] at h'; cases h'
  unfold Note.NewVerifier
  repeat' split
  all_goals first
    | (simp; done)
    | (exfalso; apply hk _ _; assumption)

/-- `NewVerifier` for a hash function with at least four bytes of output (SHA-256): never a panic, the result is the
    `(Verifier, error)` pair of the Go function -/
theorem NewVerifier_tie_ok (sha : Bytes → Bytes) (hsha : ∀ x, 4 ≤ (sha x).length)
    (edVerify : Bytes → Bytes → Bytes → Bool) (vkey : Bytes) :
    ∃ r, Generated.NoteKey.NewVerifier b64decI edVerify isSpaceI (fun acc pre => pre ++ sha acc) vkey = .ok r ∧
      embedVerifier (Note.NewVerifier sha edVerify vkey) = .ok r := by
  rw [NewVerifier_tie]
  have hn := NewVerifier_no_panic sha hsha edVerify vkey
  cases hr : Note.NewVerifier sha edVerify vkey with
  | ok v => exact ⟨_, rfl, rfl⟩
  | error e =>
    cases e with
    | panic => exact absurd hr hn
    | id => exact ⟨_, rfl, rfl⟩
    | alg => exact ⟨_, rfl, rfl⟩
    | hash => exact ⟨_, rfl, rfl⟩

/-- a toy hash function: always 00 00 00 01 -/
def exSha : Bytes → Bytes := fun _ => [0, 0, 0, 1]
/-- "a+00000001+" ‖ base64(0x01 ‖ 32 zero bytes): accepted with `exSha` -/
def exVkey : Bytes := [97, 43, 48, 48, 48, 48, 48, 48, 48, 49, 43] ++ B64.b64enc (1 :: List.replicate 32 0)

/-- what the examples compare (functions are not comparable): name, key hash, error -/
def obsV (r : M (GVerifier × Option String)) : Option (Bytes × Int × Option String) :=
  match r with
  | .ok (v, e) => some (v.Name, v.KeyHash, e)
  | .error _ => none

-- accepted; bad hash field (seven digits); wrong hash; unknown algorithm; short key; a `sha` of three bytes panics
example :
    obsV (Generated.NoteKey.NewVerifier b64decI (fun _ _ _ => true) isSpaceI (fun acc pre => pre ++ exSha acc) exVkey) =
      some (B "a", 1, none) ∧
    obsV (embedVerifier (Note.NewVerifier exSha (fun _ _ _ => true) exVkey)) = some (B "a", 1, none) := by decide +kernel
example :
    obsV (Generated.NoteKey.NewVerifier b64decI (fun _ _ _ => true) isSpaceI (fun acc pre => pre ++ exSha acc)
      (B "a+0000001+AQ==")) = some ([], 0, some "errVerifierID") ∧
    obsV (embedVerifier (Note.NewVerifier exSha (fun _ _ _ => true) (B "a+0000001+AQ=="))) = some ([], 0, some "errVerifierID") := by decide +kernel
example :
    obsV (Generated.NoteKey.NewVerifier b64decI (fun _ _ _ => true) isSpaceI (fun acc pre => pre ++ exSha acc)
      (B "a+00000002+AQ==")) = some ([], 0, some "errVerifierHash") ∧
    obsV (embedVerifier (Note.NewVerifier exSha (fun _ _ _ => true) (B "a+00000002+AQ=="))) = some ([], 0, some "errVerifierHash") := by decide +kernel
example :
    obsV (Generated.NoteKey.NewVerifier b64decI (fun _ _ _ => true) isSpaceI (fun acc pre => pre ++ exSha acc)
      (B "a+00000001+Ag==")) = some ([], 0, some "errVerifierAlg") ∧
    obsV (embedVerifier (Note.NewVerifier exSha (fun _ _ _ => true) (B "a+00000001+Ag=="))) = some ([], 0, some "errVerifierAlg") := by decide +kernel
example :
    obsV (Generated.NoteKey.NewVerifier b64decI (fun _ _ _ => true) isSpaceI (fun acc pre => pre ++ exSha acc)
      (B "a+00000001+AQ==")) = some ([], 0, some "errVerifierID") ∧
    obsV (embedVerifier (Note.NewVerifier exSha (fun _ _ _ => true) (B "a+00000001+AQ=="))) = some ([], 0, some "errVerifierID") := by decide +kernel
example :
    obsV (Generated.NoteKey.NewVerifier b64decI (fun _ _ _ => true) isSpaceI (fun acc pre => pre ++ (fun _ => [0, 0, 1]) acc)
      exVkey) = none ∧
    obsV (embedVerifier (Note.NewVerifier (fun _ => [0, 0, 1]) (fun _ _ _ => true) exVkey)) = none := by decide +kernel

-- the accepted verifier verifies with the 32 key bytes
example : (match Generated.NoteKey.NewVerifier b64decI (fun pub msg sig => pub == List.replicate 32 0 && msg == sig) isSpaceI
      (fun acc pre => pre ++ exSha acc) exVkey with
    | .ok (v, _) => (v.Verify [1] [1], v.Verify [1] [2])
    | .error _ => (false, false)) = (true, false) := by decide +kernel

/-- `NewSigner(skey)`, every key string, hash function, public-key derivation `edPub` and signing function: the complete
    result, the panic of `binary.BigEndian.Uint32` (only with a `sha` of fewer than four bytes) included.
    `ed25519.NewKeyFromSeed(seed) = seed ‖ edPub seed`; `edSignG` is `ed25519.Sign` on the 64-byte private key. -/
theorem NewSigner_tie (sha : Bytes → Bytes) (edPub : Bytes → Bytes) (edSign edSignG : Bytes → Bytes → Bytes)
    (hsign : ∀ seed msg, seed.length = 32 → edSignG (seed ++ edPub seed) msg = edSign seed msg) (skey : Bytes) :
    Generated.NoteKey.NewSigner b64decI (fun seed => seed ++ edPub seed) edSignG isSpaceI (fun acc pre => pre ++ sha acc) skey =
      embedSigner (Note.NewSigner sha edPub edSign skey) :=
  NewSigner_eq sha edPub edSign edSignG hsign skey

/-- the instance without any hypothesis: `ed25519.Sign(key, msg)` signs with the seed half of the private key -/
theorem NewSigner_tie_take (sha : Bytes → Bytes) (edPub : Bytes → Bytes) (edSign : Bytes → Bytes → Bytes) (skey : Bytes) :
    Generated.NoteKey.NewSigner b64decI (fun seed => seed ++ edPub seed) (fun key => edSign (key.take 32)) isSpaceI
        (fun acc pre => pre ++ sha acc) skey =
      embedSigner (Note.NewSigner sha edPub edSign skey) :=
  NewSigner_tie sha edPub edSign _ (fun seed msg hl => by simp [← hl]) skey

/-- the model's NewSigner reports a panic only for a hash function with fewer than four bytes of output -/
theorem NewSigner_no_panic (sha : Bytes → Bytes) (hsha : ∀ x, 4 ≤ (sha x).length) (edPub : Bytes → Bytes)
    (edSign : Bytes → Bytes → Bytes) (skey : Bytes) :
    Note.NewSigner sha edPub edSign skey ≠ .error .panic := by
  have hk : ∀ n k, Note.keyHash sha n k ≠ none := fun n k h => by
    obtain ⟨kh, h', _⟩ := Tie.FnNoteSign.keyHash_tie_ok sha hsha n k
    rw [h] at h'; cases h'
  unfold Note.NewSigner
  repeat' split
  all_goals first
    | (simp; done)
    | (simp only []
       split
       · exfalso; apply hk _ _; assumption
       · split <;> simp)

/-- `NewSigner` for a hash function with at least four bytes of output (SHA-256): never a panic -/
theorem NewSigner_tie_ok (sha : Bytes → Bytes) (hsha : ∀ x, 4 ≤ (sha x).length) (edPub : Bytes → Bytes)
    (edSign edSignG : Bytes → Bytes → Bytes)
    (hsign : ∀ seed msg, seed.length = 32 → edSignG (seed ++ edPub seed) msg = edSign seed msg) (skey : Bytes) :
    ∃ r, Generated.NoteKey.NewSigner b64decI (fun seed => seed ++ edPub seed) edSignG isSpaceI
        (fun acc pre => pre ++ sha acc) skey = .ok r ∧
      embedSigner (Note.NewSigner sha edPub edSign skey) = .ok r := by
  rw [NewSigner_tie sha edPub edSign edSignG hsign]
  have hn := NewSigner_no_panic sha hsha edPub edSign skey
  cases hr : Note.NewSigner sha edPub edSign skey with
  | ok v => exact ⟨_, rfl, rfl⟩
  | error e =>
    cases e with
    | panic => exact absurd hr hn
    | id => exact ⟨_, rfl, rfl⟩
    | alg => exact ⟨_, rfl, rfl⟩
    | hash => exact ⟨_, rfl, rfl⟩

/-- "PRIVATE+KEY+a+00000001+" ‖ base64(0x01 ‖ 32 bytes 07): accepted with `exSha` -/
def exSkey : Bytes :=
  [80, 82, 73, 86, 65, 84, 69, 43, 75, 69, 89, 43, 97, 43, 48, 48, 48, 48, 48, 48, 48, 49, 43] ++
    B64.b64enc (1 :: List.replicate 32 7)

def obsS (r : M (GSigner × Option String)) : Option (Bytes × Int × Bytes × Option String) :=
  match r with
  | .ok (s, e) => some (s.Name, s.KeyHash, (s.Sign [5]).1, e)
  | .error _ => none

/-- toy signature: the seed's first byte, then the message -/
def exSign : Bytes → Bytes → Bytes := fun seed msg => seed.take 1 ++ msg

-- accepted (and signs with the seed); "PRIVATE" missing; wrong hash; unknown algorithm; a `sha` of three bytes panics
example :
    obsS (Generated.NoteKey.NewSigner b64decI (fun seed => seed ++ List.replicate 32 0) (fun key => exSign (key.take 32))
      isSpaceI (fun acc pre => pre ++ exSha acc) exSkey) = some (B "a", 1, [7, 5], none) ∧
    obsS (embedSigner (Note.NewSigner exSha (fun _ => List.replicate 32 0) exSign exSkey)) = some (B "a", 1, [7, 5], none) := by decide +kernel
example :
    obsS (Generated.NoteKey.NewSigner b64decI (fun seed => seed ++ List.replicate 32 0) (fun key => exSign (key.take 32))
      isSpaceI (fun acc pre => pre ++ exSha acc) (exSkey.drop 1)) = some ([], 0, [], some "errSignerID") ∧
    obsS (embedSigner (Note.NewSigner exSha (fun _ => List.replicate 32 0) exSign (exSkey.drop 1))) =
      some ([], 0, [], some "errSignerID") := by decide +kernel
example :
    obsS (Generated.NoteKey.NewSigner b64decI (fun seed => seed ++ List.replicate 32 0) (fun key => exSign (key.take 32))
      isSpaceI (fun acc pre => pre ++ (fun _ => [0, 0, 0, 2]) acc) exSkey) = some ([], 0, [], some "errSignerHash") ∧
    obsS (embedSigner (Note.NewSigner (fun _ => [0, 0, 0, 2]) (fun _ => List.replicate 32 0) exSign exSkey)) =
      some ([], 0, [], some "errSignerHash") := by decide +kernel
example :
    obsS (Generated.NoteKey.NewSigner b64decI (fun seed => seed ++ List.replicate 32 0) (fun key => exSign (key.take 32))
      isSpaceI (fun acc pre => pre ++ exSha acc) (B "PRIVATE+KEY+a+00000001+Ag==")) = some ([], 0, [], some "errSignerAlg") ∧
    obsS (embedSigner (Note.NewSigner exSha (fun _ => List.replicate 32 0) exSign (B "PRIVATE+KEY+a+00000001+Ag=="))) =
      some ([], 0, [], some "errSignerAlg") := by decide +kernel
example :
    obsS (Generated.NoteKey.NewSigner b64decI (fun seed => seed ++ List.replicate 32 0) (fun key => exSign (key.take 32))
      isSpaceI (fun acc pre => pre ++ (fun _ => [0, 0, 1]) acc) exSkey) = none ∧
    obsS (embedSigner (Note.NewSigner (fun _ => [0, 0, 1]) (fun _ => List.replicate 32 0) exSign exSkey)) = none := by decide +kernel

end ModVerif.Tie.FnNoteKey
