/-
  Tie, COMPOSITION for go.work: whole edit sessions of the regenerated go.work operations (Generated/FnEdit.lean, from
  modfile/work.go) as the driver `Drv.GenEdit` runs them (`applyWorkOp`, `runWorkOps`, `workSession`), against the hand
  model's sessions (`Edit.applyWork`, `Edit.runOps Edit.applyWork`, `Drv.Edit.M.sessionWork`) — the go.work counterpart of
  Tie/FnEditSession.lean, over `RepW` and the operation ties of Tie/FnEditWork.lean / Tie/FnEditSort.lean.

  (1) `applyWorkOp_tie`: one operation (`.ok e'` ↔ `.ok (some true, h')` + `RepW`; returned error ↔ `.ok (some false, h)`,
      heap unchanged; `nilDeref` ↔ `.error .panic`; a go.mod-only operation ↔ `.ok (none, h)`).  Side conditions `StepOKW`:
      fuel (`stepFuelW`), and the go / toolchain entries point at a line (from `Edit.InvW`: `stepOKW_of_InvW`).  SetUse: the
      driver's fresh `Use` objects (`newUses`) satisfy edit-work's `DirsOK` (`allocUses_spec`).
  (2) `runWorkOps_tie` (under `RunOKW`), `runWorkOps_tie_valid` (under `Edit.InvW` + `Edit.RunValidW`: only `FuelOKW`;
      the model has no totality theorem for go.work sessions at the time of writing (now: Tie/FnEditC15Work.lean), so the conclusion is a correspondence, not completion).
  (3) `workSession_tie`: `gedit.worksession` prints what `edit.worksession` prints.
  Fuel: abstract, as in Tie/FnEditSession.lean (the driver's `8·|file| + 64·#ops + 4096` is not a bound in general).
  Helper file: Proofs/TieFnEditSessionW.lean.  Owner: edit-session.
-/
import ModVerif.Proofs.TieFnEditSessionW
import ModVerif.Tie.FnEditSession
set_option linter.unusedSimpArgs false
set_option linter.unusedVariables false
namespace ModVerif.Tie.FnEditSessionWork
open ModVerif ModVerif.GoRt ModVerif.Generated.Edit ModVerif.Tie.FnEditRep
open ModVerif.Tie.FnEditSessionA ModVerif.Tie.FnEditSessionW
open ModVerif.Modfile.Edit (EWork EditErr applyWork SessionResult)
open ModVerif.Drv.GenEdit (applyWorkOp opNameD Run)
open ModVerif.Tie.FnEditWorkEx (strip)
open ModVerif.Tie.FnEditSession (driverFuel)

/-! ### (1) one operation -/

/-- **`Drv.GenEdit.applyWorkOp` = `Edit.applyWork`**, every operation -/
theorem applyWorkOp_tie {h : Heap} {fp : Int} {e : EWork} (R : RepW h fp e) (op : EditSpec.Op) (fuel : Nat)
    (ok : StepOKW fuel e op) :
    match applyWork e (opM op) with
    | none => applyWorkOp fuel fp h op = .ok (none, h)
    | some (.ok e') => ∃ h', applyWorkOp fuel fp h op = .ok (some true, h') ∧ RepW h' fp e'
    | some (.error err) =>
      (err.isReturned = true ∧ applyWorkOp fuel fp h op = .ok (some false, h)) ∨
      (err.isReturned = false ∧ applyWorkOp fuel fp h op = .error .panic) :=
  applyWorkOp_out R op ok.scalars fuel ok.fuel

theorem stepOKW_of_InvW {e : EWork} {op : EditSpec.Op} {fuel : Nat} (hi : Modfile.Edit.InvW e) (hf : stepFuelW e op ≤ fuel) :
    StepOKW fuel e op := ⟨hf, scalarsLiveW_of_InvW hi⟩

/-! ### (2) an operation list -/

/-- **`Drv.GenEdit.runWorkOps` = `Edit.runOps Edit.applyWork`** -/
theorem runWorkOps_tie (fuel : Nat) (fp : Int) (ops : List EditSpec.Op) (h : Heap) (e : EWork) (R : RepW h fp e)
    (ok : RunOKW fuel e ops) :
    match Modfile.Edit.runOps applyWork e (ops.map opM) [] 0 with
    | .done e' res => ∃ h', Drv.GenEdit.runWorkOps fuel fp h ops [] = .done h' res ∧ RepW h' fp e'
    | .panic j => ∃ op, ops[j]? = some op ∧ Drv.GenEdit.runWorkOps fuel fp h ops [] = .panic (opNameD op)
    | .badOp => Drv.GenEdit.runWorkOps fuel fp h ops [] = .badOp := by
  have T := runWorkOps_rel fuel fp ops h e [] 0 R ok
  cases hx : Modfile.Edit.runOps applyWork e (ops.map opM) [] 0 with
  | done e' res => rw [hx] at T; exact T
  | panic j => rw [hx] at T; obtain ⟨op, _, h2, h3⟩ := T; exact ⟨op, h2, h3⟩
  | badOp => rw [hx] at T; exact T

/-- the same from a state satisfying the go.work invariant, for a session with valid arguments (`Edit.RunValidW`; SetUse:
    distinct non-empty directories, on live `use` entries): only fuel is asked for; when the model run completes, so does
    the regenerated one, in a heap representing a state that satisfies the invariant again -/
theorem runWorkOps_tie_valid (fuel : Nat) (fp : Int) (ops : List EditSpec.Op) (h : Heap) (e : EWork) (R : RepW h fp e)
    (hi : Modfile.Edit.InvW e) (hv : Modfile.Edit.RunValidW e (ops.map opM)) (hf : FuelOKW fuel e ops) :
    match Modfile.Edit.runOps applyWork e (ops.map opM) [] 0 with
    | .done e' res => ∃ h', Drv.GenEdit.runWorkOps fuel fp h ops [] = .done h' res ∧ RepW h' fp e' ∧ Modfile.Edit.InvW e'
    | .panic j => ∃ op, ops[j]? = some op ∧ Drv.GenEdit.runWorkOps fuel fp h ops [] = .panic (opNameD op)
    | .badOp => Drv.GenEdit.runWorkOps fuel fp h ops [] = .badOp := by
  have T := runWorkOps_tie fuel fp ops h e R (runOKW_of_valid fuel ops e hi hv hf)
  cases hx : Modfile.Edit.runOps applyWork e (ops.map opM) [] 0 with
  | done e' res =>
    rw [hx] at T
    obtain ⟨h', h1, R'⟩ := T
    exact ⟨h', h1, R', Modfile.Edit.runOpsWork_inv_all _ e [] 0 e' res hv hi hx⟩
  | panic j => rw [hx] at T; exact T
  | badOp => rw [hx] at T; exact T

/-! ### (3) the session line -/

theorem final_cleanupW {h : Heap} {fp : Int} {e : EWork} (R : RepW h fp e) (fuel : Nat) (hf : stepFuelW e .cleanup ≤ fuel) :
    ∃ h', WorkFile_Cleanup fuel fp h = .ok ((), h') ∧ RepW h' fp (Modfile.Edit.workCleanup e) ∧
      Drv.GenEdit.workM h' fp = some (strip (Modfile.Edit.workCleanup e).f) := by
  simp only [stepFuelW] at hf
  obtain ⟨h', h1, R'⟩ := FnEditSort.WorkFile_Cleanup_tie R fuel (by omega) (by omega)
  exact ⟨h', h1, R', workM_rep R'⟩

/-- **`gedit.worksession` prints what `edit.worksession` prints** -/
theorem workSession_tie (file : Bytes) (ops : List EditSpec.Op)
    (ok : ∀ f, Modfile.parseWork (B "go.work") file none = .ok f →
      RunOKW (driverFuel file ops) (Modfile.Edit.loadWork f) ops ∧ FinalFuelW (driverFuel file ops) (Modfile.Edit.loadWork f) ops) :
    Drv.GenEdit.workSession file ops = Drv.Edit.M.sessionWork file (ops.map opM) := by
  unfold Drv.GenEdit.workSession Drv.Edit.M.sessionWork
  cases hp : Modfile.parseWork (B "go.work") file none with
  | error err => rfl
  | ok f =>
    obtain ⟨hrun, hfin⟩ := ok f hp
    have R := FnEditTree.loadWork_parsed_rep hp
    have T := runWorkOps_tie (driverFuel file ops) (Drv.GenEdit.loadWork f).2 ops (Drv.GenEdit.loadWork f).1 _ R hrun
    simp only []
    show (match Drv.GenEdit.runWorkOps (driverFuel file ops) (Drv.GenEdit.loadWork f).2 (Drv.GenEdit.loadWork f).1 ops [] with
      | .badOp => "bad-op"
      | .panic n => "panic:" ++ n
      | .done h res => _) = _
    cases hx : Modfile.Edit.runOps applyWork (Modfile.Edit.loadWork f) (ops.map opM) [] 0 with
    | badOp =>
      rw [hx] at T
      simp only [T]
    | panic j =>
      rw [hx] at T
      obtain ⟨op, h1, h2⟩ := T
      simp only [h2, List.getElem?_map, h1, Option.map_some, Option.getD_some, opName_opM]
    | done e' res =>
      rw [hx] at T
      obtain ⟨h', h1, R'⟩ := T
      obtain ⟨h'', h2, R'', h3⟩ := final_cleanupW R' (driverFuel file ops) (hfin e' res hx)
      simp only [h1]
      show (match WorkFile_Cleanup (driverFuel file ops) (Drv.GenEdit.loadWork f).2 h' with
        | .error _ => "panic:final-cleanup"
        | .ok (_, h) => _) = _
      simp only [h2, h3, strip_syn, dumpWork_strip]
      rfl

/-- the form under the hypotheses of C15's `typed_eq_tree_work_from_parse` (parsed file with non-empty keys; valid
    arguments in every state: `Edit.RunValidW`): only fuel is asked for -/
theorem workSession_tie_valid (file : Bytes) (ops : List EditSpec.Op)
    (hk : ∀ f, Modfile.parseWork (B "go.work") file none = .ok f → Modfile.Edit.WorkKeys f ∧ Modfile.Edit.NoBlockSuffix f.syn)
    (hv : ∀ f, Modfile.parseWork (B "go.work") file none = .ok f → Modfile.Edit.RunValidW (Modfile.Edit.loadWork f) (ops.map opM))
    (hf : ∀ f, Modfile.parseWork (B "go.work") file none = .ok f →
      FuelOKW (driverFuel file ops) (Modfile.Edit.loadWork f) ops ∧ FinalFuelW (driverFuel file ops) (Modfile.Edit.loadWork f) ops) :
    Drv.GenEdit.workSession file ops = Drv.Edit.M.sessionWork file (ops.map opM) := by
  refine workSession_tie file ops fun f hp => ⟨?_, (hf f hp).2⟩
  exact runOKW_of_valid _ ops _ (Modfile.Edit.parseWork_invW hp (hk f hp).1 (hk f hp).2) (hv f hp) (hf f hp).1

/-! ### non-vacuity: a kernel-evaluated session on a parsed go.work (a comment block, `go`, a two-line `use` block, a
    `replace` line, a `godebug` line) -/

section examples

def exWork : Bytes := B "// c\n\ngo 1.21\n\nuse (\n\t./a\n\t\"./b c\" // note\n)\n\nreplace example.com/a => ../a\n\ngodebug x=y\n"

def exWorkOps : List EditSpec.Op :=
  [.addUse (B "./d") [], .dropUse (B "./a"), .addGo (B "1.x"), .addToolchain (B "go1.22.0"), .cleanup,
   .setUse [(B "./b c", B "m"), (B "./e", [])], .addReplace (B "x.y/z") [] (B "../z") [], .addGodebug (B "k") (B "v"), .sortBlocks]

/-- a session that panics: the second drop of the key "" hits the cleared godebug entry -/
def exWorkBad : List EditSpec.Op := [.dropGodebug (B "x"), .dropGo, .dropGodebug [], .cleanup]

theorem exWork_ok : ∀ f, Modfile.parseWork (B "go.work") exWork none = .ok f →
    RunOKW (driverFuel exWork exWorkOps) (Modfile.Edit.loadWork f) exWorkOps ∧
      FinalFuelW (driverFuel exWork exWorkOps) (Modfile.Edit.loadWork f) exWorkOps :=
  of_parsedW exWork (fun f => runOKWB (driverFuel exWork exWorkOps) (Modfile.Edit.loadWork f) exWorkOps &&
      finalFuelWB (driverFuel exWork exWorkOps) (Modfile.Edit.loadWork f) exWorkOps)
    (fun f h => by
      simp only [Bool.and_eq_true] at h
      exact ⟨runOKWB_sound _ _ _ h.1, finalFuelWB_sound h.2⟩)
    (by decide +kernel)

-- `workSession_tie`: the two drivers print the same line
example : Drv.GenEdit.workSession exWork exWorkOps = Drv.Edit.M.sessionWork exWork (exWorkOps.map opM) :=
  workSession_tie exWork exWorkOps exWork_ok

-- the regenerated session is kernel-evaluated and compared with the model session (results, typed lists, whole tree)
example : genWorkSession (driverFuel exWork exWorkOps) exWork exWorkOps = modelWorkSession exWork exWorkOps ∧
    (genWorkSession (driverFuel exWork exWorkOps) exWork exWorkOps).map (·.1) =
      some [true, true, false, true, true, true, true, true, true] := by decide +kernel

-- the hypotheses of `workSession_tie_valid` / `runWorkOps_tie_valid` hold of the example
example : Drv.GenEdit.workSession exWork exWorkOps = Drv.Edit.M.sessionWork exWork (exWorkOps.map opM) :=
  workSession_tie_valid exWork exWorkOps
    (of_parsedW exWork (fun f => Modfile.Edit.workStartOKb f && FnEditSessionE.noBlockSuffixB f.syn)
      (fun f h => by
        simp only [Bool.and_eq_true] at h
        have s := Modfile.Edit.workStartOKb_sound f h.1
        exact ⟨⟨s.godebug, s.use, s.replace⟩, FnEditSessionE.noBlockSuffixB_sound h.2⟩)
      (by decide +kernel))
    (of_parsedW exWork (fun f => Modfile.Edit.runValidWB (Modfile.Edit.loadWork f) (exWorkOps.map opM))
      (fun f h => Modfile.Edit.runValidWB_sound _ _ h) (by decide +kernel))
    (of_parsedW exWork (fun f => fuelOKWB (driverFuel exWork exWorkOps) (Modfile.Edit.loadWork f) exWorkOps &&
        finalFuelWB (driverFuel exWork exWorkOps) (Modfile.Edit.loadWork f) exWorkOps)
      (fun f h => by
        simp only [Bool.and_eq_true] at h
        exact ⟨fuelOKWB_sound _ _ _ h.1, finalFuelWB_sound h.2⟩)
      (by decide +kernel))

-- a panicking session: same `panic:` line
example : Drv.GenEdit.workSession exWork exWorkBad = Drv.Edit.M.sessionWork exWork (exWorkBad.map opM) :=
  workSession_tie exWork exWorkBad
    (of_parsedW exWork (fun f => runOKWB (driverFuel exWork exWorkBad) (Modfile.Edit.loadWork f) exWorkBad &&
        finalFuelWB (driverFuel exWork exWorkBad) (Modfile.Edit.loadWork f) exWorkBad)
      (fun f h => by
        simp only [Bool.and_eq_true] at h
        exact ⟨runOKWB_sound _ _ _ h.1, finalFuelWB_sound h.2⟩)
      (by decide +kernel))

example : (match Modfile.parseWork (B "go.work") exWork none with
    | .ok f =>
      (match Modfile.Edit.runOps applyWork (Modfile.Edit.loadWork f) (exWorkBad.map opM) [] 0 with
       | .panic j => j == 2
       | _ => false) &&
      (match Drv.GenEdit.runWorkOps (driverFuel exWork exWorkBad) (Drv.GenEdit.loadWork f).2 (Drv.GenEdit.loadWork f).1 exWorkBad [] with
       | .panic n => n == "dropgodebug"
       | _ => false)
    | .error _ => false) = true := by decide +kernel

end examples

end ModVerif.Tie.FnEditSessionWork
