/-
  Tie: every regenerated function of module/pseudo.go (Generated/FnModule.lean, namespace
  ModVerif.Generated.Module, re-translated from the Go source on every check) computes exactly what the hand model
  (Model/Pseudo.lean over Model/Semver.lean) says, for ALL byte strings and all fuel above the stated bound.
  The unit is translated in ideal integer mode (no int64 checks), so a fuel lower bound is the only hypothesis
  besides the bridging hypotheses below.  Each equation also proves: no fuel exhaustion, and a Go panic exactly
  where the model says `.panic` / `none`.

  Bridging (how the translator's abstractions meet the model):
  * `time.Time` is an abstract type `T`; `fmtTime : T → Bytes → Bytes` stands for `t.UTC().Format(layout)`.  The model
    takes the formatted stamp `ts` directly: PseudoVersion is tied under `fmtTime t "20060102150405" = ts`,
    ZeroPseudoVersion / IsZeroPseudoVersion under `fmtTime default "20060102150405" = Pseudo.zeroTimestamp`
    (`default : T` is `time.Time{}`; Tie/Pseudo.lean pins the layout constant and the zero stamp).
  * `pseudoRE : Bytes → Bool` stands for `pseudoVersionRE.MatchString`; it is instantiated with the model's
    deterministic matcher `Pseudo.matchPseudoVersionRE` (the expression's source text is pinned in Tie/Pseudo.lean,
    the matcher is compared with Go's regexp engine by the correspondence run).
  * Go `error` is `Option String`; the model has `Except Pseudo.Err`.  `TieFnPseudo.errOf` gives the error value
    the translator renders for each kind: `.syntax` ↔ `InvalidVersionError|errPseudoSyntax`,
    `.build` ↔ `InvalidVersionError|lacks base version, but has build metadata %q`,
    `.negative` ↔ `InvalidVersionError|version before %s would have negative patch number`;
    the model's `.panic` (and `none` of incDecimal) ↔ `Err.panic` of the generated code's monad.
  * semver.* calls go through `Generated.Semver.*`, tied to Model/Semver.lean by Tie/FnSemver.lean.

  Helper lemmas: Proofs/GoRtLemmasPseudo.lean, Proofs/TieFnPseudo{Dec,Parse,Make,Base}.lean.
-/
import ModVerif.Generated.FnModule
import ModVerif.Model.Pseudo
import ModVerif.Proofs.TieFnPseudoDec
import ModVerif.Proofs.TieFnPseudoParse
import ModVerif.Proofs.TieFnPseudoMake
import ModVerif.Proofs.TieFnPseudoBase
namespace ModVerif.Tie.FnPseudo
open ModVerif ModVerif.TieFnPseudo

/-- incDecimal: the byte-slice loop with `digits[i] = '0'`, the final `digits[i]++` (uint8, wrapping) or
    `digits[0] = '1'; append(digits, '0')`.  The index panic of `digits[0]` on the empty string is the model's `none`. -/
theorem incDecimal_tie (decimal : Bytes) (fuel : Nat) (hf : decimal.length + 1 ≤ fuel) :
    Generated.Module.incDecimal fuel decimal =
      (match Pseudo.incDecimal decimal with
       | some r => .ok r
       | none => .error .panic) := by
  rw [incDecimal_ok decimal fuel hf]; cases Pseudo.incDecimal decimal <;> rfl

/-- on every non-empty string incDecimal returns (no panic) -/
theorem incDecimal_tie_nonempty (decimal : Bytes) (hne : decimal ≠ []) (fuel : Nat) (hf : decimal.length + 1 ≤ fuel) :
    ∃ r, Pseudo.incDecimal decimal = some r ∧ Generated.Module.incDecimal fuel decimal = .ok r := by
  cases h : Pseudo.incDecimal decimal with
  | some r => exact ⟨r, rfl, by rw [incDecimal_tie decimal fuel hf, h]⟩
  | none =>
    exfalso
    unfold Pseudo.incDecimal at h
    cases decimal with
    | nil => exact hne rfl
    | cons c cs =>
      simp only [Pseudo.incAux] at h
      split at h
      · split at h <;> simp at h
      · simp at h

-- "199" ↦ "200", "99" ↦ "100", "" panics
example : Generated.Module.incDecimal 4 [49, 57, 57] = .ok [50, 48, 48] ∧
    Pseudo.incDecimal [49, 57, 57] = some [50, 48, 48] ∧
    Generated.Module.incDecimal 3 [57, 57] = .ok [49, 48, 48] ∧ Pseudo.incDecimal [57, 57] = some [49, 48, 48] ∧
    Generated.Module.incDecimal 1 [] = .error .panic ∧ Pseudo.incDecimal [] = none := by
  repeat' constructor

theorem decDecimal_tie (decimal : Bytes) (fuel : Nat) (hf : decimal.length + 1 ≤ fuel) :
    Generated.Module.decDecimal fuel decimal = .ok (Pseudo.decDecimal decimal) :=
  decDecimal_ok decimal fuel hf

-- "200" ↦ "199", "100" ↦ "99", "00" ↦ "", "1" ↦ "0"
example : Generated.Module.decDecimal 4 [50, 48, 48] = .ok [49, 57, 57] ∧ Pseudo.decDecimal [50, 48, 48] = [49, 57, 57] ∧
    Generated.Module.decDecimal 4 [49, 48, 48] = .ok [57, 57] ∧ Pseudo.decDecimal [49, 48, 48] = [57, 57] ∧
    Generated.Module.decDecimal 3 [48, 48] = .ok [] ∧ Pseudo.decDecimal [48, 48] = [] ∧
    Generated.Module.decDecimal 2 [49] = .ok [48] ∧ Pseudo.decDecimal [49] = [48] := by
  repeat' constructor

/-- IsPseudoVersion with `pseudoVersionRE.MatchString` instantiated by the model's matcher
    (`TieFnPseudo.IsPseudoVersion_ok` is the same equation for an arbitrary `pseudoRE`). -/
theorem IsPseudoVersion_tie (v : Bytes) (fuel : Nat) (hf : 2 * v.length ≤ fuel) :
    Generated.Module.IsPseudoVersion Pseudo.matchPseudoVersionRE fuel v = .ok (Pseudo.isPseudoVersion v) :=
  IsPseudoVersion_ok Pseudo.matchPseudoVersionRE v fuel hf

example : Generated.Module.IsPseudoVersion Pseudo.matchPseudoVersionRE 72 exRelease = .ok true ∧
    Pseudo.isPseudoVersion exRelease = true ∧
    Generated.Module.IsPseudoVersion Pseudo.matchPseudoVersionRE 12 [118, 49, 46, 50, 46, 51] = .ok false ∧
    Pseudo.isPseudoVersion [118, 49, 46, 50, 46, 51] = false := by
  repeat' constructor

/-- parsePseudoVersion: the five results; the syntax error leaves the four strings empty; the slice-bounds panics
    of `v[:j]` / `v[:i]` with index -1 are the model's `.panic`. -/
theorem parsePseudoVersion_tie (v : Bytes) (fuel : Nat) (hf : 2 * v.length ≤ fuel) :
    Generated.Module.parsePseudoVersion Pseudo.matchPseudoVersionRE fuel v =
      (match Pseudo.parsePseudoVersion v with
       | .ok p => .ok (p.base, p.timestamp, p.rev, p.build, none)
       | .error .panic => .error .panic
       | .error e => .ok ([], [], [], [], errOf e)) := by
  rw [parsePseudoVersion_ok v fuel hf]
  cases Pseudo.parsePseudoVersion v with
  | ok p => rfl
  | error e => cases e <;> rfl

-- base "v1.2.4-0", the stamp, the revision, no build; and the syntax error on "v1.2.3"
example : Generated.Module.parsePseudoVersion Pseudo.matchPseudoVersionRE 72 exRelease =
      .ok ([118, 49, 46, 50, 46, 52, 45, 48], exStamp, exRev, [], none) ∧
    Pseudo.parsePseudoVersion exRelease = .ok ⟨[118, 49, 46, 50, 46, 52, 45, 48], exStamp, exRev, []⟩ ∧
    Generated.Module.parsePseudoVersion Pseudo.matchPseudoVersionRE 12 [118, 49, 46, 50, 46, 51] =
      .ok ([], [], [], [], some "InvalidVersionError|errPseudoSyntax") ∧
    Pseudo.parsePseudoVersion [118, 49, 46, 50, 46, 51] = .error .syntax := by
  repeat' constructor

/-- PseudoVersion under `t.UTC().Format("20060102150405") = ts`.  (The model's only failure is the incDecimal
    panic on an empty patch string, which no canonical version produces.) -/
theorem PseudoVersion_tie {T : Type} [DecidableEq T] [Inhabited T] (fmtTime : T → Bytes → Bytes) (t : T) (ts : Bytes)
    (hts : fmtTime t [50, 48, 48, 54, 48, 49, 48, 50, 49, 53, 48, 52, 48, 53] = ts)
    (major older rev : Bytes) (fuel : Nat) (hf : 2 * older.length + 8 ≤ fuel) :
    Generated.Module.PseudoVersion fmtTime fuel major older t rev =
      (match Pseudo.pseudoVersion major older ts rev with
       | .ok r => .ok r
       | .error _ => .error .panic) := by
  rw [PseudoVersion_ok fmtTime t ts hts major older rev fuel hf]
  cases Pseudo.pseudoVersion major older ts rev <;> rfl

-- PseudoVersion("v1", "v1.2.3+meta", t, "abcdefabcdef") = "v1.2.4-0.20060102150405-abcdefabcdef+meta"
example : Generated.Module.PseudoVersion (T := Unit) (fun _ _ => exStamp) 30 [118, 49]
      [118, 49, 46, 50, 46, 51, 43, 109, 101, 116, 97] () exRev = .ok (exRelease ++ [43, 109, 101, 116, 97]) ∧
    Pseudo.pseudoVersion [118, 49] [118, 49, 46, 50, 46, 51, 43, 109, 101, 116, 97] exStamp exRev =
      .ok (exRelease ++ [43, 109, 101, 116, 97]) := by
  repeat' constructor

/-- ZeroPseudoVersion under `time.Time{}.UTC().Format("20060102150405") = "00010101000000"`: no loop runs
    (older = ""), so there is no fuel hypothesis at all. -/
theorem ZeroPseudoVersion_tie {T : Type} [DecidableEq T] [Inhabited T] (fmtTime : T → Bytes → Bytes)
    (hz : fmtTime (default : T) [50, 48, 48, 54, 48, 49, 48, 50, 49, 53, 48, 52, 48, 53] = Pseudo.zeroTimestamp)
    (major : Bytes) (fuel : Nat) :
    ∃ z, Pseudo.zeroPseudoVersion major = .ok z ∧ Generated.Module.ZeroPseudoVersion fmtTime fuel major = .ok z :=
  ⟨zeroPV major, zeroPseudoVersion_model major, ZeroPseudoVersion_ok fmtTime hz major fuel⟩

-- ZeroPseudoVersion("v2") = "v2.0.0-00010101000000-000000000000", with no fuel
example : Generated.Module.ZeroPseudoVersion (T := Unit) (fun _ _ => Pseudo.zeroTimestamp) 0 [118, 50] =
      .ok [118, 50, 46, 48, 46, 48, 45, 48, 48, 48, 49, 48, 49, 48, 49, 48, 48, 48, 48, 48, 48, 45, 48, 48, 48, 48, 48, 48, 48,
        48, 48, 48, 48, 48] ∧
    Pseudo.zeroPseudoVersion [118, 50] =
      .ok [118, 50, 46, 48, 46, 48, 45, 48, 48, 48, 49, 48, 49, 48, 49, 48, 48, 48, 48, 48, 48, 45, 48, 48, 48, 48, 48, 48, 48,
        48, 48, 48, 48, 48] := by
  repeat' constructor

theorem IsZeroPseudoVersion_tie {T : Type} [DecidableEq T] [Inhabited T] (fmtTime : T → Bytes → Bytes)
    (hz : fmtTime (default : T) [50, 48, 48, 54, 48, 49, 48, 50, 49, 53, 48, 52, 48, 53] = Pseudo.zeroTimestamp)
    (v : Bytes) (fuel : Nat) (hf : 2 * v.length ≤ fuel) :
    Generated.Module.IsZeroPseudoVersion fmtTime fuel v = .ok (Pseudo.isZeroPseudoVersion v) :=
  IsZeroPseudoVersion_ok fmtTime hz v fuel hf

example : Generated.Module.IsZeroPseudoVersion (T := Unit) (fun _ _ => Pseudo.zeroTimestamp) 68
      [118, 50, 46, 48, 46, 48, 45, 48, 48, 48, 49, 48, 49, 48, 49, 48, 48, 48, 48, 48, 48, 45, 48, 48, 48, 48, 48, 48, 48,
        48, 48, 48, 48, 48] = .ok true ∧
    Pseudo.isZeroPseudoVersion [118, 50, 46, 48, 46, 48, 45, 48, 48, 48, 49, 48, 49, 48, 49, 48, 48, 48, 48, 48, 48, 45, 48,
        48, 48, 48, 48, 48, 48, 48, 48, 48, 48, 48] = true ∧
    Generated.Module.IsZeroPseudoVersion (T := Unit) (fun _ _ => Pseudo.zeroTimestamp) 72 exRelease = .ok false ∧
    Pseudo.isZeroPseudoVersion exRelease = false := by
  repeat' constructor

theorem PseudoVersionRev_tie (v : Bytes) (fuel : Nat) (hf : 2 * v.length ≤ fuel) :
    Generated.Module.PseudoVersionRev Pseudo.matchPseudoVersionRE fuel v =
      (match Pseudo.pseudoVersionRev v with
       | .ok r => .ok (r, none)
       | .error .panic => .error .panic
       | .error e => .ok ([], errOf e)) := by
  rw [PseudoVersionRev_ok v fuel hf]
  cases Pseudo.pseudoVersionRev v with
  | ok p => rfl
  | error e => cases e <;> rfl

example : Generated.Module.PseudoVersionRev Pseudo.matchPseudoVersionRE 72 exRelease = .ok (exRev, none) ∧
    Pseudo.pseudoVersionRev exRelease = .ok exRev ∧
    Generated.Module.PseudoVersionRev Pseudo.matchPseudoVersionRE 12 [118, 49, 46, 50, 46, 51] =
      .ok ([], some "InvalidVersionError|errPseudoSyntax") ∧
    Pseudo.pseudoVersionRev [118, 49, 46, 50, 46, 51] = .error .syntax := by
  repeat' constructor

/-- PseudoVersionBase: all three switch arms, the two explicit `panic(...)` sites (`.panic`), and the two error
    returns ("lacks base version…" = `.build`, "version before…" = `.negative`). -/
theorem PseudoVersionBase_tie (v : Bytes) (fuel : Nat) (hf : 2 * v.length ≤ fuel) :
    Generated.Module.PseudoVersionBase Pseudo.matchPseudoVersionRE fuel v =
      (match Pseudo.pseudoVersionBase v with
       | .ok r => .ok (r, none)
       | .error .panic => .error .panic
       | .error e => .ok ([], errOf e)) := by
  rw [PseudoVersionBase_ok v fuel hf]
  cases Pseudo.pseudoVersionBase v with
  | ok p => rfl
  | error e => cases e <;> rfl

-- the three arms and both error returns: "v1.2.4-0.…" ↦ "v1.2.3"; "v1.2.3-pre.0.…" ↦ "v1.2.3-pre";
-- "v1.0.0-…+incompatible" ↦ lacks base version; "v1.0.0-0.…" ↦ negative patch number
set_option maxRecDepth 8000 in
example : Generated.Module.PseudoVersionBase Pseudo.matchPseudoVersionRE 72 exRelease = .ok ([118, 49, 46, 50, 46, 51], none) ∧
    Pseudo.pseudoVersionBase exRelease = .ok [118, 49, 46, 50, 46, 51] ∧
    Generated.Module.PseudoVersionBase Pseudo.matchPseudoVersionRE 80 exPre =
      .ok ([118, 49, 46, 50, 46, 51, 45, 112, 114, 101], none) ∧
    Pseudo.pseudoVersionBase exPre = .ok [118, 49, 46, 50, 46, 51, 45, 112, 114, 101] ∧
    Generated.Module.PseudoVersionBase Pseudo.matchPseudoVersionRE 94 exNoBaseBuild =
      .ok ([], some "InvalidVersionError|lacks base version, but has build metadata %q") ∧
    Pseudo.pseudoVersionBase exNoBaseBuild = .error .build ∧
    Generated.Module.PseudoVersionBase Pseudo.matchPseudoVersionRE 72 exNegative =
      .ok ([], some "InvalidVersionError|version before %s would have negative patch number") ∧
    Pseudo.pseudoVersionBase exNegative = .error .negative := by
  repeat' constructor

end ModVerif.Tie.FnPseudo
