/-
  C03 transported to the regenerated code: the property theorems of Props/C03.lean (about the hand model) restated
  about `Generated.Tlog.CheckRecord / CheckTree / ProveRecord / ProveTree / TreeHash` (Generated/FnTlog.lean, re-translated
  from the Go source on every run, checked int64 arithmetic) through the tie theorems of Tie/FnTlogProof.lean.
  Every statement is an equation / equivalence about the result of the generated function, so it also says: no panic, no
  int64 overflow, no fuel exhaustion.  Corollaries only — nothing here is used by another module.
-/
import ModVerif.Tie.FnTlogProof
import ModVerif.Props.C03
namespace ModVerif.Tie.FnTlogProofC03
open ModVerif ModVerif.GoRt ModVerif.Tlog ModVerif.TlogTH ModVerif.TieFnTlogInt ModVerif.Tie.FnTlogProof

theorem encErr_eq_none_iff (inv : String) (r : Except Tlog.Err Unit) : encErr inv r = none ↔ r = .ok () := by
  cases r with
  | ok u => simp [encErr]
  | error e => simp [encErr]

section
variable {H : Type} [DecidableEq H] [Inhabited H] (node : H → H → H)

/-- ★ the regenerated `CheckRecord` returns nil exactly on the tuples accepted by root recomputation along the RFC 6962
    recursion with the proof consumed exactly — every size of the int64 range. -/
theorem gen_CheckRecord_iff (fuel : Nat) (p : List H) (t n : Int) (th h : H)
    (ht : t < 2 ^ 63) (hp : p.length < 2 ^ 63) (hf : t.toNat ≤ fuel) :
    Generated.Tlog.CheckRecord node fuel p t th n h = .ok none ↔
      0 ≤ t ∧ 0 ≤ n ∧ RFC6962.AcceptIncl node p t.toNat n.toNat h th := by
  rw [CheckRecord_tie node fuel p t th n h ht hp hf, ← Props.C03.checkRecord_iff node p t n th h (by omega)]
  constructor
  · intro hc; exact (encErr_eq_none_iff _ _).mp (Except.ok.inj hc)
  · intro hc; rw [(encErr_eq_none_iff _ _).mpr hc]

/-- ★ … and exactly on the tuples accepted by the iterative RFC 9162 §2.1.3.2 algorithm. -/
theorem gen_CheckRecord_iff_rfc9162 (fuel : Nat) (p : List H) (t n : Int) (th h : H)
    (ht : t < 2 ^ 63) (hp : p.length < 2 ^ 63) (hf : t.toNat ≤ fuel) :
    Generated.Tlog.CheckRecord node fuel p t th n h = .ok none ↔
      0 ≤ t ∧ 0 ≤ n ∧ RFC6962.verifyInclusion node p t.toNat n.toNat h th = true := by
  rw [gen_CheckRecord_iff node fuel p t n th h ht hp hf, Props.C03.rfc9162_incl_equiv]

/-- ★ the regenerated `CheckTree` returns nil exactly on the tuples whose proof reproduces BOTH roots along the RFC 6962
    SUBPROOF recursion. -/
theorem gen_CheckTree_iff (fuel : Nat) (p : List H) (t n : Int) (th h : H)
    (ht : t < 2 ^ 63) (hp : p.length < 2 ^ 63) (hf : t.toNat ≤ fuel) :
    Generated.Tlog.CheckTree node fuel p t th n h = .ok none ↔
      0 ≤ t ∧ 0 ≤ n ∧ RFC6962.AcceptCons node p t.toNat n.toNat h th := by
  rw [CheckTree_tie node fuel p t th n h ht hp hf, ← Props.C03.checkTree_iff node p t n th h (by omega)]
  constructor
  · intro hc; exact (encErr_eq_none_iff _ _).mp (Except.ok.inj hc)
  · intro hc; rw [(encErr_eq_none_iff _ _).mpr hc]

/-- ★ … and, for `0 < n < t`, exactly on the tuples accepted by RFC 9162 §2.1.4.2. -/
theorem gen_CheckTree_iff_rfc9162 (fuel : Nat) (p : List H) (t n : Int) (th h : H)
    (ht : t < 2 ^ 63) (hp : p.length < 2 ^ 63) (hf : t.toNat ≤ fuel) (h0 : 0 < n) (hn : n < t) :
    Generated.Tlog.CheckTree node fuel p t th n h = .ok none ↔
      RFC6962.verifyConsistency node p n.toNat t.toNat h th = true := by
  rw [CheckTree_tie node fuel p t th n h ht hp hf, ← Props.C03.checkTree_iff_rfc9162 node p t n th h (by omega) h0 hn]
  constructor
  · intro hc; exact (encErr_eq_none_iff _ _).mp (Except.ok.inj hc)
  · intro hc; rw [(encErr_eq_none_iff _ _).mpr hc]

/-- ★ totality of the regenerated checkers: nil, "invalid inputs" or errProofFailed — never a panic, an overflow or
    non-termination — for every tree size of the int64 range (also beyond 2^62) and every proof. -/
theorem gen_CheckRecord_total (fuel : Nat) (p : List H) (t n : Int) (th h : H)
    (ht : t < 2 ^ 63) (hp : p.length < 2 ^ 63) (hf : t.toNat ≤ fuel) :
    Generated.Tlog.CheckRecord node fuel p t th n h = .ok none ∨
    Generated.Tlog.CheckRecord node fuel p t th n h = .ok (some "tlog: invalid inputs in CheckRecord") ∨
    Generated.Tlog.CheckRecord node fuel p t th n h = .ok (some "errProofFailed") := by
  rw [CheckRecord_tie node fuel p t th n h ht hp hf]
  rcases Props.C03.checkRecord_total node p t n th h with hc | hc | hc <;> rw [hc]
  · left; rfl
  · right; left; rfl
  · right; right; rfl

theorem gen_CheckTree_total (fuel : Nat) (p : List H) (t n : Int) (th h : H)
    (ht : t < 2 ^ 63) (hp : p.length < 2 ^ 63) (hf : t.toNat ≤ fuel) :
    Generated.Tlog.CheckTree node fuel p t th n h = .ok none ∨
    Generated.Tlog.CheckTree node fuel p t th n h = .ok (some "tlog: invalid inputs in CheckTree") ∨
    Generated.Tlog.CheckTree node fuel p t th n h = .ok (some "errProofFailed") := by
  rw [CheckTree_tie node fuel p t th n h ht hp hf]
  rcases Props.C03.checkTree_total node p t n th h with hc | hc | hc <;> rw [hc]
  · left; rfl
  · right; left; rfl
  · right; right; rfl

end

section
variable {H : Type} [DecidableEq H] [Inhabited H] (leaf : Bytes → H) (node : H → H → H) (empty : H)

/-- ★ `mutation_rejected` for the regenerated `CheckRecord`, under collision freedom: against the true root ANY proof
    other than the RFC 6962 audit path and ANY other leaf hash is answered with errProofFailed. -/
theorem gen_mutation_rejected_record (hcf : RFC6962.CF leaf node) (fuel : Nat) (D : List Bytes) (p : List H) (n : Nat) (h : H)
    (hn : n < D.length) (hD : D.length < 2 ^ 63) (hp : p.length < 2 ^ 63) (hf : D.length ≤ fuel)
    (hmut : p ≠ RFC6962.path node empty n (D.map leaf) ∨ h ≠ leaf D[n]) :
    Generated.Tlog.CheckRecord node fuel p D.length (RFC6962.mth node empty (D.map leaf)) n h =
      .ok (some "errProofFailed") := by
  rw [CheckRecord_tie node fuel p _ _ _ h (by omega) hp (by omega),
    Props.C03.mutation_rejected_record leaf node empty hcf D p n h hn (by omega) hmut]
  rfl

/-- ★ `mutation_rejected` for the regenerated `CheckTree`. -/
theorem gen_mutation_rejected_tree (hcf : RFC6962.CF leaf node) (fuel : Nat) (D : List Bytes) (p : List H) (n : Nat) (h : H)
    (h1 : 1 ≤ n) (h2 : n ≤ D.length) (hD : D.length < 2 ^ 63) (hp : p.length < 2 ^ 63) (hf : D.length ≤ fuel)
    (hmut : p ≠ RFC6962.proof node empty n (D.map leaf) ∨ h ≠ RFC6962.mth node empty ((D.map leaf).take n)) :
    Generated.Tlog.CheckTree node fuel p D.length (RFC6962.mth node empty (D.map leaf)) n h =
      .ok (some "errProofFailed") := by
  rw [CheckTree_tie node fuel p _ _ _ h (by omega) hp (by omega),
    Props.C03.mutation_rejected_tree leaf node empty hcf D p n h h1 h2 (by omega) hmut]
  rfl

/-- ★ the regenerated `ProveRecord(t, n)`, reading through ANY reader `r` that behaves like a dense store satisfying the
    C09 store invariant for the records `D`, returns exactly the RFC 6962 audit path of `D[0:t]` and a nil error. -/
theorem gen_ProveRecord_eq_PATH (fuel : Nat) (D : List Bytes) (st : List H) (hst : StoreOK leaf node empty D st)
    (r : List Int → List H × Option String) (hr : readerOf r = storeReader st)
    (t n : Nat) (hn : n < t) (ht : t ≤ D.length) (hr62 : t ≤ 2 ^ 62) (hf : t + 127 ≤ fuel) :
    Generated.Tlog.ProveRecord node fuel t n r =
      .ok (RFC6962.path node empty n ((D.map leaf).take t), none) := by
  rw [ProveRecord_tie node fuel t n r (by omega) (by omega), hr,
    Props.C03.proveRecord_eq_PATH_of_storeOK leaf node empty D st hst t n hn ht (by omega)]
  rfl

/-- ★ the regenerated `ProveTree(t, n)` returns exactly the RFC 6962 consistency proof. -/
theorem gen_ProveTree_eq_PROOF (fuel : Nat) (D : List Bytes) (st : List H) (hst : StoreOK leaf node empty D st)
    (r : List Int → List H × Option String) (hr : readerOf r = storeReader st)
    (t n : Nat) (h1 : 1 ≤ n) (hn : n ≤ t) (ht : t ≤ D.length) (hr62 : t ≤ 2 ^ 62) (hf : t + 127 ≤ fuel) :
    Generated.Tlog.ProveTree node fuel t n r =
      .ok (RFC6962.proof node empty n ((D.map leaf).take t), none) := by
  rw [ProveTree_tie node fuel t n r (by omega) (by omega), hr,
    Props.C03.proveTree_eq_PROOF_of_storeOK leaf node empty D st hst t n h1 hn ht (by omega)]
  rfl

omit [DecidableEq H] [Inhabited H] in
theorem pathF_length_le : ∀ f m (X : List H), (RFC6962.pathF node empty f m X).length ≤ f := by
  intro f
  induction f with
  | zero => intro m X; simp [RFC6962.pathF]
  | succ f ih =>
    intro m X
    unfold RFC6962.pathF
    split
    · simp
    · simp only []
      split
      · have := ih m (X.take (RFC6962.splitPoint X.length)); simp; omega
      · have := ih (m - RFC6962.splitPoint X.length) (X.drop (RFC6962.splitPoint X.length)); simp; omega

omit [DecidableEq H] [Inhabited H] in
theorem subProofF_length_le : ∀ f m (X : List H) b, (RFC6962.subProofF node empty f m X b).length ≤ f := by
  intro f
  induction f with
  | zero => intro m X b; simp [RFC6962.subProofF]
  | succ f ih =>
    intro m X b
    unfold RFC6962.subProofF
    split
    · split <;> simp
    · simp only []
      split
      · have := ih m (X.take (RFC6962.splitPoint X.length)) b; simp; omega
      · have := ih (m - RFC6962.splitPoint X.length) (X.drop (RFC6962.splitPoint X.length)) false; simp; omega

/-- ★ C03, first sentence, END TO END on the regenerated code: the proof produced by the regenerated `ProveRecord` for
    record `n` of the whole log is accepted by the regenerated `CheckRecord` against the RFC 6962 root. -/
theorem gen_proveRecord_accepted (fuel : Nat) (D : List Bytes) (st : List H) (hst : StoreOK leaf node empty D st)
    (r : List Int → List H × Option String) (hr : readerOf r = storeReader st)
    (n : Nat) (hn : n < D.length) (hD : D.length ≤ 2 ^ 62) (hf : D.length + 127 ≤ fuel) :
    ∃ p, Generated.Tlog.ProveRecord node fuel D.length n r = .ok (p, none) ∧
      Generated.Tlog.CheckRecord node fuel p D.length (RFC6962.mth node empty (D.map leaf)) n (leaf D[n]) = .ok none := by
  refine ⟨_, gen_ProveRecord_eq_PATH leaf node empty fuel D st hst r hr D.length n hn (Nat.le_refl _) hD hf, ?_⟩
  have : (D.map leaf).take D.length = D.map leaf := by
    rw [List.take_of_length_le]; simp
  rw [this]
  have hlen : (RFC6962.path node empty n (D.map leaf)).length < 2 ^ 63 := by
    have := pathF_length_le node empty (D.map leaf).length n (D.map leaf)
    unfold RFC6962.path
    simp only [List.length_map] at this ⊢
    omega
  rw [CheckRecord_tie node fuel _ _ _ _ _ (by omega) hlen (by omega),
    Props.C03.checkRecord_complete leaf node empty D n hn (by omega)]
  rfl

/-- ★ … and the proof produced by the regenerated `ProveTree` for "tree `n` is a prefix of the whole log" is accepted by
    the regenerated `CheckTree` against the two RFC 6962 roots. -/
theorem gen_proveTree_accepted (fuel : Nat) (D : List Bytes) (st : List H) (hst : StoreOK leaf node empty D st)
    (r : List Int → List H × Option String) (hr : readerOf r = storeReader st)
    (n : Nat) (h1 : 1 ≤ n) (hn : n ≤ D.length) (hD : D.length ≤ 2 ^ 62) (hf : D.length + 127 ≤ fuel) :
    ∃ p, Generated.Tlog.ProveTree node fuel D.length n r = .ok (p, none) ∧
      Generated.Tlog.CheckTree node fuel p D.length (RFC6962.mth node empty (D.map leaf)) n
        (RFC6962.mth node empty ((D.map leaf).take n)) = .ok none := by
  refine ⟨_, gen_ProveTree_eq_PROOF leaf node empty fuel D st hst r hr D.length n h1 hn (Nat.le_refl _) hD hf, ?_⟩
  have : (D.map leaf).take D.length = D.map leaf := by
    rw [List.take_of_length_le]; simp
  rw [this]
  have hlen : (RFC6962.proof node empty n (D.map leaf)).length < 2 ^ 63 := by
    have := subProofF_length_le node empty ((D.map leaf).length + 1) n (D.map leaf) true
    unfold RFC6962.proof
    simp only [List.length_map] at this ⊢
    omega
  rw [CheckTree_tie node fuel _ _ _ _ _ (by omega) hlen (by omega),
    Props.C03.checkTree_complete leaf node empty D n h1 hn (by omega)]
  rfl

end

/-! ### non-vacuity: the hypotheses are satisfiable (13-record log in the term algebra, honest reader `genReader`) -/

example : ∃ st, StoreOK TH.leaf TH.node TH.empty (recs 13) st ∧ readerOf (genReader st) = storeReader st ∧
    (2 : Nat) < 7 ∧ 7 ≤ (recs 13).length ∧ (7 : Nat) ≤ 2 ^ 62 := by
  obtain ⟨st, _, h2⟩ := Props.C09.store_invariant TH.leaf TH.node TH.empty (recs 13) (by decide)
  exact ⟨st, h2, readerOf_genReader st, by decide, by decide, by decide⟩

/-- both sides of `gen_ProveRecord_eq_PATH` / `gen_proveRecord_accepted` evaluated on this instance -/
example :
    okIs (Generated.Tlog.ProveRecord TH.node 140 13 2 (genReader (store 13)))
      (RFC6962.path TH.node TH.empty 2 ((recs 13).map TH.leaf), none) = true ∧
    okIs (Generated.Tlog.CheckRecord TH.node 140 (RFC6962.path TH.node TH.empty 2 ((recs 13).map TH.leaf)) 13 (root 13) 2
      (TH.leaf [2])) none = true ∧
    okIs (Generated.Tlog.ProveTree TH.node 140 13 5 (genReader (store 13)))
      (RFC6962.proof TH.node TH.empty 5 ((recs 13).map TH.leaf), none) = true ∧
    okIs (Generated.Tlog.CheckTree TH.node 140 (RFC6962.proof TH.node TH.empty 5 ((recs 13).map TH.leaf)) 13 (root 13) 5
      (root 5)) none = true := by decide +kernel

/-- `gen_mutation_rejected_record` applies to a forged one-hash proof for record 2 of the 7-record log -/
example : Generated.Tlog.CheckRecord TH.node 7 [TH.junk 0] (recs 7).length (root 7) 2 (TH.leaf [2]) =
    .ok (some "errProofFailed") :=
  gen_mutation_rejected_record TH.leaf TH.node TH.empty Props.C03.cf_term_algebra 7 (recs 7) [TH.junk 0] 2 (TH.leaf [2])
    (by decide) (by decide) (by decide) (by decide) (Or.inl (by decide +kernel))

/-- `gen_CheckRecord_iff` on an accepted tuple -/
example : Generated.Tlog.CheckRecord TH.node 7 (RFC6962.path TH.node TH.empty 2 ((recs 7).map TH.leaf)) 7 (root 7) 2
    (TH.leaf [2]) = .ok none :=
  (gen_CheckRecord_iff TH.node 7 _ 7 2 (root 7) (TH.leaf [2]) (by omega) (by decide +kernel) (by decide)).mpr
    ⟨by omega, by omega, by decide +kernel⟩

end ModVerif.Tie.FnTlogProofC03
