/-
  Tie, CLOSED FUEL of the go.mod edit sessions (agent edit-fuel).  The session ties of Tie/FnEditSession.lean
  (`runOps_tie_valid`, `session_tie_valid`) and C15 on the regenerated code (Tie/FnEditC15.lean: `nilDeref_unreachable_gen`,
  `typed_eq_tree_gen`) carry the abstract, state-following fuel hypotheses `FuelOK` / `FinalFuel`.  Here they are DERIVED
  from a size of the inputs, for sessions that do not use `SetRequireSeparateIndirect` (`NotSep`; `SetRequire` IS covered):

      sessSize f ops = W (Edit.load f) + Σ_ops (4 · opSize op + 32)            (`FnEditFuelB.W`, `opSize`, `G`)
      3 * sessSize f ops + 1 ≤ fuel   ⊢   FuelOK fuel (Edit.load f) ops ∧ FinalFuel fuel (Edit.load f) ops

  — LINEAR, no square.  `W (Edit.load f)` is the weight of the parsed file (Σ over statements and block lines of
  `2·bytes + #tokens + 1`, plus the typed-list lengths, `|go version|`, `|module path|`: an explicit function of the PARSED file,
  evaluated once, not along the run); `opSize op` is the total byte length of the operation's arguments, an argument written
  through `AutoQuote` counted with its quoted form as well.  The growth lemmas behind it (Proofs/TieFnEditFuel{A,B,C,D,E}.lean; E: `SetRequire` — `setRequireLoop_W`, `addAll_W`, `fuel3_le`):
  every operation increases `W` by at most `4 · opSize op + 32` (`applyMod_W`: `addLine_treeW`, `updateLine_treeW`,
  `markAll_treeW`, `cleanupStmts_treeW`, `dropKilled_treeW`, `sortStmts_treeW`), and the demand of its tie is at most
  `3 · (W + 4 · opSize op + 32)` (`stepFuel_le`; `sortFuel_le : sortFuel e ≤ 3 · W e + 12`).

  `…_partial`: see lean/PENDING.md, section "FnEdit — edit-fuel", for what is missing (`SetRequireSeparateIndirect`;
  `W (load f)` in terms of the byte length of the file text).
-/
import ModVerif.Proofs.TieFnEditFuelE
import ModVerif.Tie.FnEditC15
set_option linter.unusedSimpArgs false
set_option linter.unusedVariables false
namespace ModVerif.Tie.FnEditClosed
open ModVerif ModVerif.GoRt ModVerif.Generated.Edit ModVerif.Tie.FnEditRep
open ModVerif.Tie.FnEditFuelB ModVerif.Tie.FnEditFuelC ModVerif.Tie.FnEditFuelD ModVerif.Tie.FnEditFuelE
open ModVerif.Tie.FnEditSessionA ModVerif.Tie.FnEditSessionB ModVerif.Tie.FnEditSessionC ModVerif.Tie.FnEditSessionE
open ModVerif.Tie.FnEditSession
open ModVerif.Modfile (parseToFile)
open ModVerif.Modfile.Edit (EFile applyMod)
open ModVerif.Drv.GenEdit (applyOp)
open ModVerif.Tie.FnEditStmtEx (zeroIds)

/-- **the size of a session**: the weight of the parsed file plus, per operation, four times the size of its arguments + 32 -/
def sessSize (f : Modfile.File) (ops : List EditSpec.Op) : Nat := W (Modfile.Edit.load f) + opsG ops

/-- **`FuelOK` / `FinalFuel` from the size of the session** (linear), from ANY state satisfying the model invariant; sessions
    without `SetRequireSeparateIndirect` -/
theorem fuelOK_of_state_partial (fuel : Nat) (ops : List EditSpec.Op) (e : EFile) (hi : Modfile.Edit.P.Inv e)
    (hv : Modfile.Edit.RunValidLive e (ops.map opM)) (hb : ∀ op ∈ ops, NotSep op)
    (hf : 3 * (W e + opsG ops) + 1 ≤ fuel) : FuelOK fuel e ops ∧ FinalFuel fuel e ops :=
  ⟨fuelOK_of_W' fuel ops e hi hv hb (by omega), finalFuel_of_W' fuel ops e hi hv hb (by omega)⟩

/-- **`FuelOK` / `FinalFuel` of a session on a strictly parsed file from `sessSize`**.  Partial: sessions without
    `SetRequireSeparateIndirect`; the file enters through the weight of its parse `W (Edit.load f)`, not through its byte length. -/
theorem fuelOK_of_size_partial (name file : Bytes) (f : Modfile.File) (ops : List EditSpec.Op) (fuel : Nat)
    (hp : Modfile.parseStrict name file none = .ok f) (hk : Modfile.Edit.WellFormedKeys f) (hs : Modfile.Edit.NoBlockSuffix f.syn)
    (hv : Modfile.Edit.StaticValid false (ops.map opM)) (hb : ∀ op ∈ ops, NotSep op)
    (hf : 3 * sessSize f ops + 1 ≤ fuel) :
    FuelOK fuel (Modfile.Edit.load f) ops ∧ FinalFuel fuel (Modfile.Edit.load f) ops := by
  have hi := Modfile.Edit.P.Inv.ofFull (Modfile.Edit.parseStrict_inv hp hk hs)
  have hl := Modfile.Edit.StaticValid.runValidLive _ false (Modfile.Edit.load f) hv (fun hc => by cases hc)
  exact fuelOK_of_state_partial fuel ops _ hi hl hb (by unfold sessSize at hf; omega)

/-- `runOps_tie_valid` with the size hypothesis only -/
theorem runOps_tie_closed_partial (name file : Bytes) (f : Modfile.File) (ops : List EditSpec.Op) (fuel : Nat)
    (hp : Modfile.parseStrict name file none = .ok f) (hk : Modfile.Edit.WellFormedKeys f) (hs : Modfile.Edit.NoBlockSuffix f.syn)
    (hv : Modfile.Edit.StaticValid false (ops.map opM)) (hm : ∀ op ∈ ops.map opM, Modfile.Edit.IsModOp op)
    (hb : ∀ op ∈ ops, NotSep op) (hf : 3 * sessSize f ops + 1 ≤ fuel) :
    ∃ e' res h', Modfile.Edit.runOps applyMod (Modfile.Edit.load f) (ops.map opM) [] 0 = .done e' res ∧
      Drv.GenEdit.runOps fuel (Drv.GenEdit.load f).2 (Drv.GenEdit.load f).1 ops [] = .done h' res ∧
      RepF h' (Drv.GenEdit.load f).2 e' ∧ Modfile.Edit.P.Inv e' :=
  runOps_tie_valid fuel _ ops _ _ (FnEditTree.load_parsed_rep hp)
    (Modfile.Edit.P.Inv.ofFull (Modfile.Edit.parseStrict_inv hp hk hs))
    (Modfile.Edit.StaticValid.runValidLive _ false _ hv (fun hc => by cases hc)) hm
    (fuelOK_of_size_partial name file f ops fuel hp hk hs hv hb hf).1

/-- **`session_tie_valid` with the size hypothesis only**: the two drivers print the same `gedit.session` / `edit.session` line
    whenever the driver's fuel `8·|file| + 64·#ops + 4096` dominates three times the size of the session -/
theorem session_tie_closed_partial (file : Bytes) (ops : List EditSpec.Op)
    (hk : ∀ f, Modfile.parseStrict (B "go.mod") file none = .ok f → Modfile.Edit.WellFormedKeys f ∧ Modfile.Edit.NoBlockSuffix f.syn)
    (hv : Modfile.Edit.StaticValid false (ops.map opM)) (hb : ∀ op ∈ ops, NotSep op)
    (hf : ∀ f, Modfile.parseStrict (B "go.mod") file none = .ok f → 3 * sessSize f ops + 1 ≤ driverFuel file ops) :
    Drv.GenEdit.session file ops = Drv.Edit.M.sessionMod file (ops.map opM) :=
  session_tie_valid file ops hk hv fun f hp =>
    fuelOK_of_size_partial (B "go.mod") file f ops _ hp (hk f hp).1 (hk f hp).2 hv hb (hf f hp)

/-- **C15 `nilDeref_unreachable` on the regenerated operations, closed fuel**: the conclusion of
    `FnEditC15.nilDeref_unreachable_gen` with the size hypothesis `3 * sessSize f ops + 1 ≤ fuel` only -/
theorem nilDeref_unreachable_gen_closed_partial (name data : Bytes) (f : Modfile.File) (ops : List EditSpec.Op) (fuel : Nat)
    (hf : parseToFile name data none true = .ok f) (hk : Modfile.Edit.WellFormedKeys f) (hs : Modfile.Edit.NoBlockSuffix f.syn)
    (hv : Modfile.Edit.StaticValid false (ops.map opM)) (hmod : ∀ op ∈ ops.map opM, Modfile.Edit.IsModOp op)
    (hb : ∀ op ∈ ops, NotSep op) (hfu : 3 * sessSize f ops + 1 ≤ fuel) :
    ∃ h' res, Drv.GenEdit.runOps fuel (Drv.GenEdit.load f).2 (Drv.GenEdit.load f).1 ops [] = .done h' res ∧
      (∀ (pre : List EditSpec.Op) (op : EditSpec.Op) (post : List EditSpec.Op), ops = pre ++ op :: post →
        ∃ h1 r1, Drv.GenEdit.runOps fuel (Drv.GenEdit.load f).2 (Drv.GenEdit.load f).1 pre [] = .done h1 r1 ∧
          applyOp fuel (Drv.GenEdit.load f).2 h1 op ≠ .error .panic ∧
          ∃ b h2, applyOp fuel (Drv.GenEdit.load f).2 h1 op = .ok (some b, h2)) ∧
      (∃ e', Modfile.Edit.runOps applyMod (Modfile.Edit.load f) (ops.map opM) [] 0 = .done e' res) ∧
      ∃ h'' e'', File_Cleanup fuel (Drv.GenEdit.load f).2 h' = .ok ((), h'') ∧ RepF h'' (Drv.GenEdit.load f).2 e'' ∧
        Modfile.Edit.P.Inv e'' :=
  have F := fuelOK_of_size_partial name data f ops fuel hf hk hs hv hb hfu
  FnEditC15.nilDeref_unreachable_gen name data f ops fuel hf hk hs hv hmod F.1 F.2

/-- **C15 `typed_eq_tree` (partial 4, static form) on the regenerated operations, closed fuel** -/
theorem typed_eq_tree_gen_closed_partial (name data : Bytes) (f : Modfile.File) (ops : List EditSpec.Op) (fuel : Nat) (h' : Heap)
    (res : List Bool) (hf : parseToFile name data none true = .ok f) (hk : Modfile.Edit.WellFormedKeys f)
    (hs : Modfile.Edit.NoBlockSuffix f.syn) (hm : Modfile.Edit.MarkersSettable f.syn.stmts)
    (hv : Modfile.Edit.StaticValid false (ops.map opM)) (hb : ∀ op ∈ ops, NotSep op) (hfu : 3 * sessSize f ops + 1 ≤ fuel)
    (hrun : Drv.GenEdit.runOps fuel (Drv.GenEdit.load f).2 (Drv.GenEdit.load f).1 ops [] = .done h' res) :
    ∃ h'' e' e'', Modfile.Edit.runOps applyMod (Modfile.Edit.load f) (ops.map opM) [] 0 = .done e' res ∧
      e'' = Modfile.Edit.cleanup e' ∧
      File_Cleanup fuel (Drv.GenEdit.load f).2 h' = .ok ((), h'') ∧ RepF h'' (Drv.GenEdit.load f).2 e'' ∧
      Modfile.Edit.Inv e'' ∧ Modfile.Edit.MarkersSettable e''.f.syn.stmts ∧
      Drv.GenEdit.fileM h'' (Drv.GenEdit.load f).2 = some (zeroIds e''.f) :=
  have F := fuelOK_of_size_partial name data f ops fuel hf hk hs hv hb hfu
  FnEditC15.typed_eq_tree_gen name data f ops fuel h' res hf hk hs hm hv F.1 F.2 hrun

/-! ### non-vacuity: a session on the example file of Tie/FnEditSession.lean, with the DRIVER's fuel -/

section examples

/-- the bulk setter SetRequire (after a Cleanup) and every kind of simple operation that changes the tree: scalar statements, godebug, requirements, exclude, replace, retract,
    tool (SortBlocks), a returned error, drops, SortBlocks, Cleanup -/
def exOps : List EditSpec.Op :=
  [.addRequire (B "example.com/d") (B "v1.0.0"), .addGo (B "1.x"), .addGo (B "1.22"), .addModule (B "example.com/n"),
   .addGodebug (B "a") (B "c"), .addExclude (B "example.com/d") (B "v1.1.0"),
   .addReplace (B "example.com/a") [] (B "../a") [], .addRetract (B "v1.3.0") (B "v1.3.0") (B "why not"),
   .addTool (B "example.com/t"), .dropRequire (B "example.com/b"), .dropGodebug (B "a"), .sortBlocks, .cleanup,
   .setRequire [⟨B "example.com/a", B "v1.5.0", true⟩, ⟨B "example.com/z", B "v0.1.0", false⟩]]

theorem ex_notSep : ∀ op ∈ exOps, NotSep op := by
  intro op h
  simp only [exOps, List.mem_cons, List.mem_nil_iff, or_false] at h
  rcases h with rfl | rfl | rfl | rfl | rfl | rfl | rfl | rfl | rfl | rfl | rfl | rfl | rfl | rfl <;> trivial

theorem ex_static : Modfile.Edit.StaticValid false (exOps.map opM) :=
  Modfile.Edit.staticValidB_sound _ _ (by decide +kernel)

/-- the size hypothesis holds of the example with the fuel the driver uses (`|file| = 223`, `W (load f) = 363`, `sessSize = 1959`, `driverFuel = 6776`) -/
theorem ex_size : ∀ f, Modfile.parseStrict (B "go.mod") exFile none = .ok f → 3 * sessSize f exOps + 1 ≤ driverFuel exFile exOps :=
  of_parsed exFile (fun f => decide (3 * sessSize f exOps + 1 ≤ driverFuel exFile exOps)) (fun f h => of_decide_eq_true h)
    (by decide +kernel)

-- `session_tie_closed_partial` on the example: the two drivers print the same line
example : Drv.GenEdit.session exFile exOps = Drv.Edit.M.sessionMod exFile (exOps.map opM) :=
  session_tie_closed_partial exFile exOps FnEditSession.ex_keys ex_static ex_notSep ex_size

-- … and `nilDeref_unreachable_gen_closed_partial`: the regenerated run and the final Cleanup complete
example : ∃ f, parseToFile (B "go.mod") exFile none true = .ok f ∧
    ∃ h' res, Drv.GenEdit.runOps (driverFuel exFile exOps) (Drv.GenEdit.load f).2 (Drv.GenEdit.load f).1 exOps [] = .done h' res ∧
      ∃ h'' e'', File_Cleanup (driverFuel exFile exOps) (Drv.GenEdit.load f).2 h' = .ok ((), h'') ∧
        RepF h'' (Drv.GenEdit.load f).2 e'' ∧ Modfile.Edit.P.Inv e'' := by
  obtain ⟨f, hf⟩ := FnEditC15.ex_parsed
  obtain ⟨h', res, h1, _, _, h4⟩ := nilDeref_unreachable_gen_closed_partial (B "go.mod") exFile f exOps (driverFuel exFile exOps) hf
    (FnEditSession.ex_keys f hf).1 (FnEditSession.ex_keys f hf).2 ex_static (isModOpB_sound (by decide +kernel)) ex_notSep (ex_size f hf)
  exact ⟨f, hf, h', res, h1, h4⟩

end examples

end ModVerif.Tie.FnEditClosed
