/-
  Tie, corollaries: property theorems of C20 (and one of C02) restated about the REGENERATED parser
  (Generated/FnParse.lean, run as the driver composes it: `Tie.FnParse.runParse`), through `Tie.FnParse.parse_tie`
  (regenerated parse = model's `parse`, tree read back from the heap graph by `fileOf`) and, for the C02 clause,
  `Tie.FnPrint.Format_tie` (regenerated `Format` = model's `format`).  Names: `<original>_gen`.

  The generated code reports a syntax error as `.error .panic` (Go's `in.Error` panics, `parse` recovers) without a
  position, so the error halves of the originals have no counterpart beyond "both fail".
-/
import ModVerif.Tie.FnParse
import ModVerif.Tie.FnPrint
import ModVerif.Props.C20
import ModVerif.Props.C02
namespace ModVerif.Tie.FnParseC20
open ModVerif ModVerif.GoRt ModVerif.Modfile ModVerif.Tie.FnParse
open ModVerif.Tie.FnParseHeap (fileOf)
open ModVerif.Drv.GenPrint (G.file)
open ModVerif.TieFnPrint (fuelBound)

/-- `parse_total` (Props/C20.lean) for the regenerated parser: for every file name, every input and every fuel
    ≥ `len(data) + 16`, the run either returns a heap whose graph at `in.file` reads back as a tree — the model's — or
    is the recovered panic of a syntax error — and the model reports one; it never runs out of fuel, never panics for
    another reason (nil / dangling pointer, index or slice out of range), never leaves an unreadable heap. -/
theorem parse_total_gen (name data : Bytes) (fuel : Nat) (hf : data.length + 16 ≤ fuel) :
    (∃ gi h t, runParse fuel name data = .ok (gi, h) ∧ fileOf h gi.file = some t ∧ Modfile.parse name data = .ok t) ∨
    (runParse fuel name data = .error .panic ∧ ∃ e, Modfile.parse name data = .error e) := by
  have key := parse_tie name data fuel hf
  cases hp : Modfile.parse name data with
  | ok t =>
    rw [hp] at key
    obtain ⟨gi, h, hG, _, _, hfo⟩ := key
    exact Or.inl ⟨gi, h, t, hG, hfo, rfl⟩
  | error e =>
    rw [hp] at key
    exact Or.inr ⟨key, e, rfl⟩

/-- what a successful run of the regenerated parser returns: the model's tree -/
theorem runParse_ok {name data : Bytes} {fuel : Nat} (hf : data.length + 16 ≤ fuel) {gi : Generated.Parse.input}
    {h : Generated.Parse.Heap} (hrun : runParse fuel name data = .ok (gi, h)) :
    ∃ t, fileOf h gi.file = some t ∧ Modfile.parse name data = .ok t := by
  rcases parse_total_gen name data fuel hf with ⟨gi', h', t, hG, hfo, hp⟩ | ⟨hG, _⟩
  · rw [hrun] at hG
    cases hG
    exact ⟨t, hfo, hp⟩
  · rw [hrun] at hG; cases hG

example : (runParse 73 [] ex1).toOption.isSome = true := by decide +kernel

open Proofs.ModfileC20 in
/-- `pos_consistent` (Props/C20.lean) for the regenerated parser: every position stored in the graph the regenerated
    parser builds (read back as a tree) is consistent with the input: `FileOK data t`. -/
theorem pos_consistent_gen (name data : Bytes) (fuel : Nat) (hf : data.length + 16 ≤ fuel)
    (gi : Generated.Parse.input) (h : Generated.Parse.Heap) (hrun : runParse fuel name data = .ok (gi, h)) :
    ∃ t, fileOf h gi.file = some t ∧ FileOK data t := by
  obtain ⟨t, hfo, hp⟩ := runParse_ok hf hrun
  have := Props.C20.pos_consistent name data
  rw [hp] at this
  exact ⟨t, hfo, this⟩

open Proofs.ModfileSrc Proofs.ModfileEol Proofs.ModfileFmtTree in
/-- `format_parse_syntax_src` (Props/C02.lean) for regenerated Format ∘ regenerated parse: for every input the
    regenerated parser accepts and in which no token spans two source lines, the regenerated `Format` (Generated/
    FnPrint.lean) of the tree read back from the graph succeeds (fuel ≥ `fuelBound t`), and the regenerated parser
    accepts its output, giving a graph that reads back as the old tree in normal form.  (The regenerated printer works
    on its own value-tree structures: `G.file t` is the embedding of the read-back tree, Drv/GenPrint.lean.) -/
theorem format_parse_syntax_src_gen (name x : Bytes) (fuel : Nat) (hf : x.length + 16 ≤ fuel)
    (gi : Generated.Parse.input) (h : Generated.Parse.Heap) (hrun : runParse fuel name x = .ok (gi, h))
    (hN : NoMultiLineToken x) :
    ∃ t, fileOf h gi.file = some t ∧ ∀ fuelF, fuelBound t ≤ fuelF →
      ∃ out, Generated.Print.Format fuelF (G.file t) = .ok out ∧ ∀ fuel', out.length + 16 ≤ fuel' →
        ∃ gi' h' t', runParse fuel' name out = .ok (gi', h') ∧ fileOf h' gi'.file = some t' ∧
          eraseFile t' = normFileE t ∧ EolCount t' := by
  obtain ⟨t, hfo, hp⟩ := runParse_ok hf hrun
  refine ⟨t, hfo, fun fuelF hF => ⟨Modfile.format t, Tie.FnPrint.Format_tie t fuelF hF, fun fuel' hf' => ?_⟩⟩
  obtain ⟨t', hp', he, hc⟩ := Props.C02.format_parse_syntax_src name x t hp hN
  have key := parse_tie name (Modfile.format t) fuel' hf'
  rw [hp'] at key
  obtain ⟨gi', h', hG, _, _, hfo'⟩ := key
  exact ⟨gi', h', t', hG, hfo', he, hc⟩

-- non-vacuity on `// c⏎⏎module m // s⏎⏎require (⏎⇥a v1 // x⏎⏎⇥// w⏎⇥b v2⏎)⏎`: the regenerated parser accepts it, the
-- regenerated Format of the read-back tree is the model's `format`, and the regenerated parser accepts that output
example : (match (runParse 73 [] ex1).toOption.bind (fun p => fileOf p.2 p.1.file) with
    | some t => decide (Generated.Print.Format (fuelBound t) (G.file t) = .ok (Modfile.format t)) &&
        (runParse ((Modfile.format t).length + 16) [] (Modfile.format t)).toOption.isSome
    | none => false) = true := by
  decide +kernel

-- … and the source condition of `format_parse_syntax_src_gen` holds for it
example : Proofs.ModfileSrc.NoMultiLineToken ex1 := by decide +kernel

end ModVerif.Tie.FnParseC20
