/-
  Tie for module/pseudo.go: the timestamp layout constant and the source text of pseudoVersionRE,
  regenerated from /repo on every check, are pinned to the literal values that the hand-written
  `fmtTime` and `matchPseudoVersionRE` were translated from.  An edit to either breaks these theorems.
-/
import ModVerif.Model.Pseudo
import ModVerif.Generated.Facts
namespace ModVerif.Tie
open ModVerif

/-- ASCII string literal as bytes, in a form the kernel evaluates. -/
def asciiBytes (s : String) : Bytes := s.toList.map (fun c => UInt8.ofNat c.toNat)

/-- the layout that `Pseudo.fmtTime` implements: year(4) month(2) day(2) hour(2) minute(2) second(2). -/
def assumedTimestampFormat : String := "20060102150405"

/-- the regular expression that `Pseudo.matchPseudoVersionRE` was translated from. -/
def assumedPseudoVersionRE : String :=
  "^v[0-9]+\\.(0\\.0-|\\d+\\.\\d+-([^+]*\\.)?0\\.)\\d{14}-[A-Za-z0-9]+(\\+[0-9A-Za-z-]+(\\.[0-9A-Za-z-]+)*)?$"

/-- the body of IsPseudoVersion that `Pseudo.isPseudoVersion` was translated from. -/
def assumedIsPseudoVersionExpr : String :=
  "strings.Count(v, \"-\") >= 2 && semver.IsValid(v) && pseudoVersionRE.MatchString(v)"

theorem pseudo_TimestampFormat_tie :
    Generated.pseudo_TimestampFormat = asciiBytes assumedTimestampFormat := by decide

/-- Go's layout string is its reference time (2006-01-02 15:04:05) written in that layout: the model's
    `fmtTime` applied to the reference time reproduces the regenerated constant. -/
theorem pseudo_fmtTime_reference_tie :
    Pseudo.fmtTime 2006 1 2 15 4 5 = Generated.pseudo_TimestampFormat := by decide

theorem pseudo_pseudoVersionRE_tie :
    Generated.pseudo_pseudoVersionRE = asciiBytes assumedPseudoVersionRE := by decide

theorem pseudo_IsPseudoVersion_expr_tie :
    Generated.pseudo_IsPseudoVersion_expr = asciiBytes assumedIsPseudoVersionExpr := by decide

/-- `time.Time{}` is 0001-01-01 00:00:00 UTC, Unix second -62135596800: the zero timestamp the model uses. -/
theorem pseudo_zeroTimestamp_tie : Pseudo.formatUnix (-62135596800) = Pseudo.zeroTimestamp := by decide

end ModVerif.Tie
