/-
  Tie theorems, sumdb/client.go, part 4 (the top of the client): `Client.initWork`, `Client.init`, `Client.skip`,
  `Client.Lookup` with its `c.record.Do` closure and its prefix filter, regenerated from the Go source by go2lean
  (`Generated/FnClient.lean`: `Client_initWork`, `Client_init`, `Client_skip`, `Client_Lookup`, `Client_Lookup_cacheFn1`,
  `Client_Lookup_loop2`), against the hand model (`Model/Client.lean`: `initWork`, `init`, `lookupWork`, `trimGoMod`,
  `filterLines`, `lookup`, `newClient`, `setInit`).

  Shape (Proofs/TieFnClientRep.lean): the generated code runs in the environment `envOf P E` built from the model's
  `Params` / `Env`; the generated world `cw` carries the model's state and effect trace; `RepW P E w cw` says that `cw`
  represents the model world `w`; a Go `error` text `g` represents the model's error kind `e` when `errAbs` maps it there
  (`RepErr`, `RepRes`, `RepCached`); the wrappers `"%s@%s: %v"` and `"initializing sumdb.Client: %v"` are transparent.
  Every tie says: from related worlds, with enough fuel, the generated function RETURNS (no panic, no fuel exhaustion),
  its result represents the model's result and its world represents the model's world — effects included, because the
  trace is part of the world.

  What is assumed:
  * `MergeLatestSpec P E AM` / `CheckRecordSpec P E AC`: the same statement for `Client_mergeLatest` / `Client_checkRecord`
    (unit of Tie/FnClientMerge.lean), with their side conditions `AM fuel w msg` / `AC fuel w id data` (fuel bound along
    the model's run, exclusion of the model-only outcomes); they are threaded through `InitAdm` / `LookupWorkAdm` /
    `LookupAdm`, which evaluate them at exactly the worlds in which the model makes the calls;
  * `hsha`: the key-hash function returns at least four bytes (SHA-256 returns 32): otherwise `binary.BigEndian.Uint32`
    panics inside `note.NewVerifier` (the model records `.key .panic`, the code panics);
  * explicit fuel: the `GONOSUMDB` scan, `EscapePath`, `EscapeVersion`, `ParseRecord` and the `strings.Split` filter need
    `|nosumdb| + |path| + 1`, `2|path| + 24`, `|vers'| + 23`, `|data| + 1`, `|data| + 2` units.
  `RepL` = `RepW` + "nothing is marked saved before `initWork` has run" (the Go `initWork` resets `c.tileSaved`; the model
  starts from the empty list and never touches it before): it holds initially (`newClient_tie`) and every `Lookup` keeps it.

  Helper lemmas: Proofs/TieFnClientLookup{Pure,Frame,Gen,Init,Main}.lean.
-/
import ModVerif.Proofs.TieFnClientLookupMain
set_option linter.unusedSectionVars false
namespace ModVerif.Tie.FnClientLookup
open ModVerif ModVerif.GoRt ModVerif.Generated.SumdbClient ModVerif.TieFnClientRep ModVerif.TieFnClientLookup

section
variable {σ H : Type} [DecidableEq H] [Inhabited H]

/-! ### pure pieces -/

/-- `strings.TrimSuffix(vers, "/go.mod")` -/
theorem trimGoMod_tie (vers : Bytes) :
    trimSuffix vers ([47, 103, 111, 46, 109, 111, 100] : Bytes) = Client.trimGoMod vers :=
  trimSuffix_gomod vers

example : trimSuffix (B "v1.0.0/go.mod") ([47, 103, 111, 46, 109, 111, 100] : Bytes) = B "v1.0.0" ∧
    Client.trimGoMod (B "v1.0.0/go.mod") = B "v1.0.0" := by decide +kernel

/-- loop 2 of `Lookup` over `strings.Split(data, "\n")`: the lines with the prefix, i.e. the model's `filterLines` -/
theorem filterLines_tie (E : ClientEnv σ H) (result : Cached) (pre data : Bytes) (world : CW σ H) (fuel : Nat)
    (hf : data.length + 2 ≤ fuel) :
    Client_Lookup_loop2 E (split data ([10] : Bytes)) result pre world fuel (0 : Int) ([] : List Bytes) =
      .ok (len (split data ([10] : Bytes)), Client.filterLines pre data) :=
  loop2_filterLines E result pre data world fuel hf

/-- `Client.skip`: `module.MatchPrefixPatterns(c.nosumdb, target)` with the model's `glob` as `path.Match` -/
theorem Client_skip_tie (P : Client.Params H) (E : Client.Env σ) (fuel : Nat) (target : Bytes) (cw : GW σ H)
    (hf : cw.nosumdb.length + target.length + 1 ≤ fuel) :
    Client_skip (envOf P E) fuel target cw = .ok (Module.matchPrefixPatterns P.glob cw.nosumdb target, cw) := by
  unfold Client_skip
  have h : matchPrefixPatternsX (envOf P E) fuel cw.nosumdb target =
      .ok (Module.matchPrefixPatterns P.glob cw.nosumdb target) :=
    Tie.FnModule.MatchPrefixPatterns_tie (fun p n => (P.glob p n, none)) cw.nosumdb target fuel hf
  rw [h]; rfl

/-! ### the world -/

/-- `NewClient` (+ `SetTileHeight`, `SetGONOSUMDB`): the initial worlds correspond; `z` is the zero hash of `NewClient` -/
theorem newClient_tie (P : Client.Params H) (E : Client.Env σ) (s : σ) (z : H) :
    RepL P E { s := s, c := Client.newClient P, tr := [] } (cw0 P s z) :=
  ⟨rep_init P E s z, fun _ => rfl⟩

/-- **`Client.initWork`**, run by `Client.init` after it has set `initDone`, from a world in which `initOnce` has not run -/
theorem Client_initWork_tie (P : Client.Params H) (E : Client.Env σ) (AM : Nat → Client.World σ H → Bytes → Prop)
    (hM : MergeLatestSpec P E AM) (hsha : ∀ x, 4 ≤ (P.sha x).length)
    (w : Client.World σ H) (cw : GW σ H) (fuel : Nat) (h : RepW P E w cw)
    (hin : w.c.inited = none) (hts : w.c.tileSaved = []) (ha : InitAdm P E AM fuel w) :
    ∃ cw', Client_initWork (envOf P E) fuel { cw with initDone := true } = .ok ((), cw') ∧
      RepW P E (Client.initWork P E w) cw' :=
  initWork_tie P E AM hM hsha w cw fuel h hin hts ha

/-- **`Client.init`**: `c.initOnce.Do(c.initWork)`, the result is `c.initErr` -/
theorem Client_init_tie (P : Client.Params H) (E : Client.Env σ) (AM : Nat → Client.World σ H → Bytes → Prop)
    (hM : MergeLatestSpec P E AM) (hsha : ∀ x, 4 ≤ (P.sha x).length)
    (w : Client.World σ H) (cw : GW σ H) (fuel : Nat) (h : RepL P E w cw)
    (ha : w.c.inited = none → InitAdm P E AM fuel w) :
    ∃ cw', Client_init (envOf P E) fuel cw = .ok (cw'.initErr, cw') ∧ RepL P E (Client.init P E w) cw' ∧
      (match (Client.init P E w).c.inited with
       | some (some e) => RepErr cw'.initErr e
       | _ => cw'.initErr = none) := by
  obtain ⟨cw', h1, h2⟩ := init_tie P E AM hM hsha w cw fuel h.1 h.2 ha
  refine ⟨cw', h1, ⟨h2, fun h0 => absurd h0 (init_inited P E w)⟩, ?_⟩
  have hi := h2.init
  unfold RepInit at hi
  cases hin : (Client.init P E w).c.inited with
  | none => exact absurd hin (init_inited P E w)
  | some x =>
    rw [hin] at hi
    cases x with
    | none => exact hi.2.1
    | some e => exact hi.2

/-- **the closure of `Lookup`** passed to `c.record.Do` (`Client_Lookup_cacheFn1`): cache, else server; `ParseRecord`,
    `mergeLatest`, `checkRecord`, `WriteCache` -/
theorem Client_Lookup_cacheFn1_tie (P : Client.Params H) (E : Client.Env σ) (AM : Nat → Client.World σ H → Bytes → Prop)
    (AC : Nat → Client.World σ H → Int → Bytes → Prop) (hM : MergeLatestSpec P E AM) (hC : CheckRecordSpec P E AC)
    (w : Client.World σ H) (cw : GW σ H) (fuel : Nat) (file remotePath : Bytes) (hr : RepRun P E w cw)
    (ha : LookupWorkAdm P E AM AC fuel w file remotePath) :
    ∃ cv cw', Client_Lookup_cacheFn1 (envOf P E) fuel remotePath file cw = .ok (cv, cw') ∧
      RepRun P E (Client.lookupWork P E w file remotePath).2 cw' ∧
      RepCached cv (Client.lookupWork P E w file remotePath).1 ∧
      cw'.initDone = cw.initDone ∧ cw'.initErr = cw.initErr :=
  lookupWork_tie P E AM AC hM hC w cw fuel file remotePath hr ha

/-- ★ **`Client.Lookup`**: from related worlds the regenerated `Lookup` returns; its `(lines, error)` represents the
    model's result (equal lines, or an error text of the model's error kind) and its world — state behind `ClientOps`,
    trace of all external operations, both memo tables, latest tree head — represents the model's world. -/
theorem Lookup_tie (P : Client.Params H) (E : Client.Env σ) (AM : Nat → Client.World σ H → Bytes → Prop)
    (AC : Nat → Client.World σ H → Int → Bytes → Prop) (hM : MergeLatestSpec P E AM) (hC : CheckRecordSpec P E AC)
    (hsha : ∀ x, 4 ≤ (P.sha x).length)
    (w : Client.World σ H) (cw : GW σ H) (fuel : Nat) (path vers : Bytes) (h : RepL P E w cw)
    (ha : LookupAdm P E AM AC fuel w path vers) :
    ∃ r' cw', Client_Lookup (envOf P E) fuel path vers cw = .ok (r', cw') ∧
      RepL P E (Client.lookup P E w path vers).2 cw' ∧ RepRes r' (Client.lookup P E w path vers).1 :=
  Lookup_tie_aux P E AM AC hM hC hsha w cw fuel path vers h ha

/-- … in particular the lines are the model's lines and the effect trace is the model's trace -/
theorem Lookup_tie_lines (P : Client.Params H) (E : Client.Env σ) (AM : Nat → Client.World σ H → Bytes → Prop)
    (AC : Nat → Client.World σ H → Int → Bytes → Prop) (hM : MergeLatestSpec P E AM) (hC : CheckRecordSpec P E AC)
    (hsha : ∀ x, 4 ≤ (P.sha x).length)
    (w : Client.World σ H) (cw : GW σ H) (fuel : Nat) (path vers : Bytes) (h : RepL P E w cw)
    (ha : LookupAdm P E AM AC fuel w path vers) :
    ∃ r' cw', Client_Lookup (envOf P E) fuel path vers cw = .ok (r', cw') ∧
      cw'.s = ((Client.lookup P E w path vers).2.s, (Client.lookup P E w path vers).2.tr) ∧
      (∀ lines, r' = (lines, none) ↔ (Client.lookup P E w path vers).1 = .ok lines) := by
  obtain ⟨r', cw', h1, h2, h3⟩ := Lookup_tie P E AM AC hM hC hsha w cw fuel path vers h ha
  refine ⟨r', cw', h1, h2.1.s, fun lines => ?_⟩
  cases hr : (Client.lookup P E w path vers).1 with
  | ok l =>
    rw [hr] at h3
    rw [(RepRes_ok_iff r' l).mp h3]
    constructor
    · intro e; cases e; rfl
    · intro e; cases e; rfl
  | error e =>
    rw [hr] at h3
    obtain ⟨s, hs, _⟩ := h3
    constructor
    · intro e'; rw [e'] at hs; cases hs
    · intro e'; cases e'

end

/-! ### non-vacuity: a concrete client (toy hashes), an environment in which every read fails -/

def xP : Client.Params UInt8 :=
  { leaf := fun _ => 7, node := fun a b => a + b, empty := 0, hashSize := 1, dec := fun b => b.headD 0, enc := fun h => [h],
    height := 2, nosumdb := B "x.y", isLetter := fun _ => false, glob := fun p n => p == n, sha := fun _ => [0, 0, 0, 0],
    edVerify := fun _ _ _ => true, retries := 1 }

def xE : Client.Env Unit :=
  { readRemote := fun s _ => (none, s), readCache := fun s _ => (none, s), readConfig := fun s _ => (none, s),
    writeCache := fun s _ _ => s, writeConfig := fun s _ _ _ => (.ok, s), securityError := fun s _ => s }

def xW : Client.World Unit UInt8 := { s := (), c := Client.newClient xP, tr := [] }

/-- what a generated call returned, without the world -/
def resOf {α : Type} (r : M (α × GW Unit UInt8)) : Option α :=
  match r with
  | .ok (a, _) => some a
  | .error _ => none

-- skip: the module is excluded; both sides answer ErrGONOSUMDB
example : resOf (Client_skip (envOf xP xE) 20 (B "x.y") (cw0 xP () 0)) = some true ∧
    Module.matchPrefixPatterns xP.glob xP.nosumdb (B "x.y") = true ∧
    resOf (Client_Lookup (envOf xP xE) 20 (B "x.y") (B "v1.0.0") (cw0 xP () 0)) = some ([], some "ErrGONOSUMDB") ∧
    (Client.lookup xP xE xW (B "x.y") (B "v1.0.0")).1 = .error .gonosumdb ∧ errAbs "ErrGONOSUMDB" = .gonosumdb := by
  decide +kernel

-- init: the key cannot be read; both sides record the configuration error, Lookup returns it (wrapped twice)
example : resOf (Client_init (envOf xP xE) 60 (cw0 xP () 0)) = some (some "initializing sumdb.Client: %v|config") ∧
    (Client.init xP xE xW).c.inited = some (some .config) ∧
    resOf (Client_Lookup (envOf xP xE) 60 (B "a.b/c") (B "v1.0.0") (cw0 xP () 0)) =
      some ([], some "%s@%s: %v|initializing sumdb.Client: %v|config") ∧
    (Client.lookup xP xE xW (B "a.b/c") (B "v1.0.0")).1 = .error .config ∧
    errAbs "%s@%s: %v|initializing sumdb.Client: %v|config" = .config ∧
    (Client.lookup xP xE xW (B "a.b/c") (B "v1.0.0")).2.tr = [.read .config (B "key") false] := by
  decide +kernel

-- the closure: neither the cache nor the server answers
example : (resOf (Client_Lookup_cacheFn1 (envOf xP xE) 10 (B "/lookup/a.b/c@v1.0.0") (B "k/lookup/a.b/c@v1.0.0") (cw0 xP () 0))).map
      (fun c => (c.data, c.err)) = some ([], some "remote") ∧
    (Client.lookupWork xP xE xW (B "k/lookup/a.b/c@v1.0.0") (B "/lookup/a.b/c@v1.0.0")).1 = .error .remote ∧
    errAbs "remote" = .remote := by
  decide +kernel

-- the filter
example : Client_Lookup_loop2 (envOf xP xE) (split (B "a 1 x\nb 1 y\na 1 z") [10]) default (B "a 1 ") (cw0 xP () 0) 20 0 [] =
      .ok (3, [B "a 1 x", B "a 1 z"]) ∧
    Client.filterLines (B "a 1 ") (B "a 1 x\nb 1 y\na 1 z") = [B "a 1 x", B "a 1 z"] := by
  decide +kernel

end ModVerif.Tie.FnClientLookup
