/-
  C07 transported to the regenerated code: the Sign → Open round-trip theorems of Props/C07.lean (about the hand model
  Model/Note.lean) restated about `Generated.Note.Sign` and `Generated.Note.Open` (Generated/FnNote.lean, re-translated
  from sumdb/note/note.go on every run) through the tie theorems `Sign_tie` (Tie/FnNoteSign.lean) and `Open_tie`
  (Tie/FnNote.lean).

  Bridging, exactly that of the ties (= the instantiation the driver Drv/GenNote.lean runs): `b64dec := b64decI`,
  `b64enc := B64.b64enc`, `isSpace := isSpaceI`; the signers are model `Signer`s passed as `gsigner s`, the lookup function a
  model `Verifiers` passed as `knownG known`, notes and signatures are images `gnote n` / `gsig s` of model values
  (`gen_open_ok_inv`: every note the generated `Open` returns without error IS such an image, so nothing is lost).
  Besides the hypotheses of the model theorems the only extra hypotheses are explicit fuel lower bounds, quantified over
  every sufficiently large fuel.  Every statement is an equation about the RESULT `.ok (…, none)`, so it also says: no
  panic and no fuel exhaustion in either function.  `ValidText`, `sigOfSigner`, `blockOf`, `dedupFrom`, `sigKnown`,
  `sigUnknown` are the vocabulary of Spec/NoteSpec.lean.  Corollaries only — nothing here is used by another module.
-/
import ModVerif.Tie.FnNote
import ModVerif.Tie.FnNoteSign
import ModVerif.Props.C07
namespace ModVerif.Tie.FnNoteSignC07
open ModVerif ModVerif.GoRt ModVerif.Note ModVerif.TieFnNote ModVerif.TieFnNoteSign
open ModVerif.Tie.FnNote ModVerif.Tie.FnNoteSign

/-- the generated `Open` returned `(gn, nil)`: then `gn` is the image of the note the model's `Open` returns -/
theorem gen_open_ok_inv {msg : Bytes} {known : Verifiers} {fuel : Nat} (hf : msg.length + 1 ≤ fuel)
    {gn : Generated.Note.Note}
    (h : Generated.Note.Open b64decI isSpaceI fuel msg (knownG known) = .ok (gn, none)) :
    ∃ n, Note.Open msg known = .ok n ∧ gn = gnote n :=
  Open_ok_inv hf h

theorem gen_Sign_of_model {n : Note} {ss : List Signer} {m : Bytes} (h : Note.Sign n ss = .ok m) (fuel : Nat)
    (hf : fuelBound n ss ≤ fuel) :
    Generated.Note.Sign b64decI B64.b64enc isSpaceI fuel (gnote n) (ss.map gsigner) = .ok (m, none) := by
  rw [Sign_tie n ss fuel hf, h]; rfl

theorem gen_Open_of_model {msg : Bytes} {known : Verifiers} {n : Note} (h : Note.Open msg known = .ok n) (fuel : Nat)
    (hf : msg.length + 1 ≤ fuel) :
    Generated.Note.Open b64decI isSpaceI fuel msg (knownG known) = .ok (gnote n, none) := by
  rw [Open_tie msg known fuel hf, h]; rfl

/-- ★ `sign_open_roundtrip` for the regenerated code.  Same hypotheses as `Props.C07.sign_open_roundtrip`.  The regenerated
    `Sign` of the unsigned note produces `t ‖ "\n" ‖ one line per signer` (no error), and the regenerated `Open` of that
    message returns (no error) exactly `t`, the signatures of known keys as verified (first per key, in signing order) and
    those of unknown keys as unverified (identical lines once). -/
theorem gen_sign_open_roundtrip {t : Bytes} {ss : List Signer} {known : Verifiers}
    (ht : ValidText t)
    (hnames : ∀ s ∈ ss, isValidName s.name = true)
    (hcount : ss.length ≤ maxSigs)
    (hsign : ∀ s ∈ ss, ∃ x, s.sign t = some x ∧ x ≠ [])
    (hlook : ∀ s ∈ ss, ∀ x, s.sign t = some x →
      known s.name s.hash = .unknown ∨
      ∃ k, known s.name s.hash = .found k ∧ k.name = s.name ∧ k.hash = s.hash ∧ k.verify t x = true)
    (hone : ∃ s ∈ ss, ∃ k, known s.name s.hash = .found k) :
    let made := ss.filterMap (sigOfSigner t)
    let m := t ++ [10] ++ blockOf made
    (∀ fuel, ss.length + 3 ≤ fuel →
      Generated.Note.Sign b64decI B64.b64enc isSpaceI fuel (gnote ⟨t, [], []⟩) (ss.map gsigner) = .ok (m, none)) ∧
    (∀ fuel, m.length + 1 ≤ fuel →
      Generated.Note.Open b64decI isSpaceI fuel m (knownG known) = .ok (gnote ⟨t,
        dedupFrom (fun g : Signature => (g.name, g.hash)) [] (made.filter (sigKnown known)),
        dedupFrom (fun g : Signature => g.name ++ [32] ++ g.base64) [] (made.filter (sigUnknown known))⟩, none)) := by
  intro made m
  obtain ⟨h1, h2⟩ := Props.C07.sign_open_roundtrip ht hnames hcount hsign hlook hone
  exact ⟨fun fuel hf => gen_Sign_of_model h1 fuel (by simpa [fuelBound] using hf),
    fun fuel hf => gen_Open_of_model h2 fuel hf⟩

/-- `sign_open_roundtrip_verifierList` for the regenerated code: the lookup function is `VerifierList vs`; hypotheses as in
    `Props.C07.sign_open_roundtrip_verifierList` (no signer's key listed twice, listed verifiers honest, one key listed). -/
theorem gen_sign_open_roundtrip_verifierList {t : Bytes} {ss : List Signer} {vs : List Verifier}
    (ht : ValidText t)
    (hnames : ∀ s ∈ ss, isValidName s.name = true)
    (hcount : ss.length ≤ maxSigs)
    (hsign : ∀ s ∈ ss, ∃ x, s.sign t = some x ∧ x ≠ [])
    (hunamb : ∀ s ∈ ss, VerifierList vs s.name s.hash ≠ .ambiguous)
    (honest : ∀ s ∈ ss, ∀ v ∈ vs, v.name = s.name → v.hash = s.hash → ∀ x, s.sign t = some x → v.verify t x = true)
    (hone : ∃ s ∈ ss, ∃ v ∈ vs, v.name = s.name ∧ v.hash = s.hash) :
    let made := ss.filterMap (sigOfSigner t)
    let m := t ++ [10] ++ blockOf made
    (∀ fuel, ss.length + 3 ≤ fuel →
      Generated.Note.Sign b64decI B64.b64enc isSpaceI fuel (gnote ⟨t, [], []⟩) (ss.map gsigner) = .ok (m, none)) ∧
    (∀ fuel, m.length + 1 ≤ fuel →
      Generated.Note.Open b64decI isSpaceI fuel m (knownG (VerifierList vs)) = .ok (gnote ⟨t,
        dedupFrom (fun g : Signature => (g.name, g.hash)) [] (made.filter (sigKnown (VerifierList vs))),
        dedupFrom (fun g : Signature => g.name ++ [32] ++ g.base64) [] (made.filter (sigUnknown (VerifierList vs)))⟩,
        none)) := by
  intro made m
  obtain ⟨h1, h2⟩ := Props.C07.sign_open_roundtrip_verifierList ht hnames hcount hsign hunamb honest hone
  exact ⟨fun fuel hf => gen_Sign_of_model h1 fuel (by simpa [fuelBound] using hf),
    fun fuel hf => gen_Open_of_model h2 fuel hf⟩

/-- `sign_open_roundtrip_unverified` for the regenerated code: when no signer's key is known, the regenerated `Open` of the
    signed message returns `*UnverifiedNoteError` carrying the note (same text, every signature unverified). -/
theorem gen_sign_open_roundtrip_unverified {t : Bytes} {ss : List Signer} {known : Verifiers}
    (ht : ValidText t)
    (hnames : ∀ s ∈ ss, isValidName s.name = true)
    (hcount : ss.length ≤ maxSigs)
    (hsign : ∀ s ∈ ss, ∃ x, s.sign t = some x ∧ x ≠ [])
    (hunk : ∀ s ∈ ss, known s.name s.hash = .unknown)
    (hss : ss ≠ []) :
    let made := ss.filterMap (sigOfSigner t)
    let m := t ++ [10] ++ blockOf made
    (∀ fuel, ss.length + 3 ≤ fuel →
      Generated.Note.Sign b64decI B64.b64enc isSpaceI fuel (gnote ⟨t, [], []⟩) (ss.map gsigner) = .ok (m, none)) ∧
    (∀ fuel, m.length + 1 ≤ fuel →
      Generated.Note.Open b64decI isSpaceI fuel m (knownG known) = .ok (gnote ⟨t, [],
        dedupFrom (fun g : Signature => g.name ++ [32] ++ g.base64) [] made⟩, some "UnverifiedNoteError")) := by
  intro made m
  obtain ⟨h1, h2⟩ := Props.C07.sign_open_roundtrip_unverified ht hnames hcount hsign hunk hss
  refine ⟨fun fuel hf => gen_Sign_of_model h1 fuel (by simpa [fuelBound] using hf), fun fuel hf => ?_⟩
  rw [Open_tie _ known fuel hf, h2]; rfl

/-- ★ `sign_existing_roundtrip` for the regenerated code: re-signing an opened note.  `gn` is ANY note the regenerated
    `Open` returned without error for some message; it is the image `gnote n` of a model note `n` (first conjunct), and for
    further signers as in `Props.C07.sign_existing_roundtrip` the regenerated `Sign gn ss` produces `n.text ‖ "\n" ‖` the
    kept existing lines (byte for byte) followed by one line per new signer, and the regenerated `Open` of that message
    returns exactly the same text with the partition of the signatures. -/
theorem gen_sign_existing_roundtrip {msg : Bytes} {known : Verifiers} {gn : Generated.Note.Note} {ss : List Signer}
    {fuel0 : Nat} (hf0 : msg.length + 1 ≤ fuel0)
    (hopen : Generated.Note.Open b64decI isSpaceI fuel0 msg (knownG known) = .ok (gn, none))
    (hnames : ∀ s ∈ ss, isValidName s.name = true)
    (hcount : gn.Sigs.length + gn.UnverifiedSigs.length + ss.length ≤ maxSigs)
    (hsign : ∀ s ∈ ss, ∃ x, s.sign gn.Text = some x ∧ x ≠ [])
    (hlook : ∀ s ∈ ss, ∀ x, s.sign gn.Text = some x →
      known s.name s.hash = .unknown ∨
      ∃ k, known s.name s.hash = .found k ∧ k.name = s.name ∧ k.hash = s.hash ∧ k.verify gn.Text x = true) :
    ∃ n : Note, gn = gnote n ∧
      let kept := (n.sigs ++ n.unverifiedSigs).filter
        (fun g => !(ss.map fun s => (s.name, s.hash)).contains (g.name, g.hash))
      let all := kept ++ ss.filterMap (sigOfSigner n.text)
      let m := n.text ++ [10] ++ blockOf all
      (∀ fuel, gn.Sigs.length + gn.UnverifiedSigs.length + ss.length + 3 ≤ fuel →
        Generated.Note.Sign b64decI B64.b64enc isSpaceI fuel gn (ss.map gsigner) = .ok (m, none)) ∧
      (∀ fuel, m.length + 1 ≤ fuel →
        Generated.Note.Open b64decI isSpaceI fuel m (knownG known) = .ok (gnote ⟨n.text,
          dedupFrom (fun g : Signature => (g.name, g.hash)) [] (all.filter (sigKnown known)),
          dedupFrom (fun g : Signature => g.name ++ [32] ++ g.base64) [] (all.filter (sigUnknown known))⟩, none)) := by
  obtain ⟨n, hn, rfl⟩ := gen_open_ok_inv hf0 hopen
  have hl1 : (gnote n).Sigs.length = n.sigs.length := by simp [gnote]
  have hl2 : (gnote n).UnverifiedSigs.length = n.unverifiedSigs.length := by simp [gnote]
  have hT : (gnote n).Text = n.text := rfl
  rw [hl1, hl2] at hcount
  rw [hT] at hsign hlook
  obtain ⟨h1, h2⟩ := Props.C07.sign_existing_roundtrip hn hnames hcount hsign hlook
  refine ⟨n, rfl, ?_⟩
  intro kept all m
  exact ⟨fun fuel hf => gen_Sign_of_model h1 fuel (by rw [hl1, hl2] at hf; simpa [fuelBound] using hf),
    fun fuel hf => gen_Open_of_model h2 fuel hf⟩

/-- `sign_existing_no_new` for the regenerated code: every note the regenerated `Open` returns can be signed again as it
    is by the regenerated `Sign` (no new signers), and the regenerated `Open` of the re-written message gives the same text. -/
theorem gen_sign_existing_no_new {msg : Bytes} {known : Verifiers} {gn : Generated.Note.Note}
    {fuel0 : Nat} (hf0 : msg.length + 1 ≤ fuel0)
    (hopen : Generated.Note.Open b64decI isSpaceI fuel0 msg (knownG known) = .ok (gn, none))
    (hcount : gn.Sigs.length + gn.UnverifiedSigs.length ≤ maxSigs) :
    ∃ msg' gn', gn'.Text = gn.Text ∧
      (∀ fuel, gn.Sigs.length + gn.UnverifiedSigs.length + 3 ≤ fuel →
        Generated.Note.Sign b64decI B64.b64enc isSpaceI fuel gn [] = .ok (msg', none)) ∧
      (∀ fuel, msg'.length + 1 ≤ fuel →
        Generated.Note.Open b64decI isSpaceI fuel msg' (knownG known) = .ok (gn', none)) := by
  obtain ⟨n, hgn, h1, h2⟩ := gen_sign_existing_roundtrip (ss := []) hf0 hopen (by simp) (by simpa using hcount)
    (by simp) (by simp)
  refine ⟨_, _, ?_, fun fuel hf => h1 fuel (by simpa using hf), h2⟩
  rw [hgn]; rfl

/-! ## Non-vacuity -/

/-- `gen_sign_open_roundtrip` / `gen_sign_existing_roundtrip`, evaluated on the regenerated code alone: the text with its
    embedded blank line and signature-like line comes back from Sign → Open, and re-signing the opened note with a further
    signer and opening again keeps the text (hypotheses: the `example`s of Props/C07.lean for the same values). -/
example :
    (match Generated.Note.Sign b64decI B64.b64enc isSpaceI 8 (gnote ⟨Props.C07.Ex.t2, [], []⟩)
        ([Props.C07.Ex.sA, Props.C07.Ex.sB].map gsigner) with
      | .ok (m, none) =>
        (match Generated.Note.Open b64decI isSpaceI (m.length + 1) m (knownG Props.C07.Ex.known2) with
          | .ok (gn, none) =>
            (match Generated.Note.Sign b64decI B64.b64enc isSpaceI 8 gn ([Props.C07.Ex.sB].map gsigner) with
              | .ok (m2, none) =>
                (match Generated.Note.Open b64decI isSpaceI (m2.length + 1) m2 (knownG Props.C07.Ex.known2) with
                  | .ok (gn2, none) => some (gn.Text, gn.Sigs.length, gn.UnverifiedSigs.length, gn2.Text, gn2 == gn)
                  | _ => none)
              | _ => none)
          | _ => none)
      | _ => none) = some (Props.C07.Ex.t2, 1, 1, Props.C07.Ex.t2, true) := by decide +kernel

end ModVerif.Tie.FnNoteSignC07
