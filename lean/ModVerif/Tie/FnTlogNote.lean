/-
  Tie theorems, sumdb/tlog/note.go: the definitions regenerated from the Go source by go2lean
  (`Generated/FnTlogNote.lean`) compute exactly what the hand model (`Model/TlogNote.lean`) says, for ALL inputs —
  in particular no panic (the three `lines[i]` index expressions of ParseTree, the slice expressions of ParseRecord and
  of the rune loop) and no fuel exhaustion.

  Instantiation of the abstract parameters of the generated code (as in Drv/GenTlog.lean, `GenTlogNote`):
  hash type `H := Bytes`, `ofBytes := id` (`copy(hash[:], h)` after the `len(h) != HashSize` test),
  `hashString := TlogNote.hashString` (`Hash.String`, base64), `b64dec := b64decI` (the model's `Base64.decodeStd` with
  Go's `(value, error)` result shape).  Result embeddings (Proofs/TieFnTlogNote*.lean): `toGen` (tree head), `ptOut`,
  `frOut`, `prOut` map the model's `Option` results to the `(values…, error)` tuples of the Go functions, with the
  zero values the Go code returns next to `errMalformedTree` / `errMalformedRecord`.
-/
import ModVerif.Generated.FnTlogNote
import ModVerif.Model.TlogNote
import ModVerif.Proofs.TieFnTlogNote
import ModVerif.Proofs.TieFnTlogNoteRec
namespace ModVerif.Tie.FnTlogNote
open ModVerif ModVerif.GoRt ModVerif.TieFnTlogNote

/-- `FormatTree(tree)`, every tree head (any `N`, any hash bytes) -/
theorem FormatTree_tie (n : Int) (h : Bytes) :
    Generated.TlogNote.FormatTree TlogNote.hashString ({ N := n, Hash := h } : GTree) =
      TlogNote.formatTree { n := n, hash := h } :=
  FormatTree_eq n h

example : Generated.TlogNote.FormatTree TlogNote.hashString ({ N := -7, Hash := [1, 2, 3] } : GTree) =
      (B "go.sum database tree\n-7\nAQID\n") ∧
    TlogNote.formatTree { n := -7, hash := [1, 2, 3] } = (B "go.sum database tree\n-7\nAQID\n") := by
  decide +kernel

/-- `ParseTree(text)`, every byte string; `ptOut none = (Tree{}, errMalformedTree)` -/
theorem ParseTree_tie (text : Bytes) :
    Generated.TlogNote.ParseTree b64decI id text = .ok (ptOut (TlogNote.parseTree text)) :=
  ParseTree_eq text

example : Generated.TlogNote.ParseTree b64decI id
      (B "go.sum database tree\n5\nAAAAAAAAAAAAAAAAAAAAAAAAAAAAAAAAAAAAAAAAAAA=\nmore") =
      .ok (({ N := 5, Hash := List.replicate 32 0 } : GTree), none) ∧
    ptOut (TlogNote.parseTree (B "go.sum database tree\n5\nAAAAAAAAAAAAAAAAAAAAAAAAAAAAAAAAAAAAAAAAAAA=\nmore")) =
      (({ N := 5, Hash := List.replicate 32 0 } : GTree), none) := by
  decide +kernel

example : Generated.TlogNote.ParseTree b64decI id (B "go.sum database tree\n05\nAAAA\n") =
      .ok ((default : GTree), some "errMalformedTree") ∧
    ptOut (TlogNote.parseTree (B "go.sum database tree\n05\nAAAA\n")) = ((default : GTree), some "errMalformedTree") := by
  decide +kernel

/-- `isValidRecordText(text)`, every byte string; fuel: one unit per rune plus one -/
theorem isValidRecordText_tie (text : Bytes) (fuel : Nat) (hf : text.length + 1 ≤ fuel) :
    Generated.TlogNote.isValidRecordText fuel text = .ok (TlogNote.isValidRecordText text) :=
  isValidRecordText_eq text fuel hf

example : Generated.TlogNote.isValidRecordText 20 (B "a é\nb\n") = .ok true ∧
    TlogNote.isValidRecordText (B "a é\nb\n") = true := by decide +kernel

example : Generated.TlogNote.isValidRecordText 20 (B "a\n\nb\n") = .ok false ∧
    TlogNote.isValidRecordText (B "a\n\nb\n") = false := by decide +kernel

/-- `FormatRecord(id, text)`, every id and text; `frOut none = (nil, errMalformedRecord)` -/
theorem FormatRecord_tie (id : Int) (text : Bytes) (fuel : Nat) (hf : text.length + 1 ≤ fuel) :
    Generated.TlogNote.FormatRecord fuel id text = .ok (frOut (TlogNote.formatRecord id text)) :=
  FormatRecord_eq id text fuel hf

example : Generated.TlogNote.FormatRecord 20 12 (B "x y\n") = .ok ((B "12\nx y\n\n"), none) ∧
    frOut (TlogNote.formatRecord 12 (B "x y\n")) = ((B "12\nx y\n\n"), none) := by decide +kernel

/-- `ParseRecord(msg)`, every byte string; `prOut none = (0, nil, nil, errMalformedRecord)` -/
theorem ParseRecord_tie (msg : Bytes) (fuel : Nat) (hf : msg.length + 1 ≤ fuel) :
    Generated.TlogNote.ParseRecord fuel msg = .ok (prOut (TlogNote.parseRecord msg)) :=
  ParseRecord_eq msg fuel hf

example : Generated.TlogNote.ParseRecord 20 (B "12\nx y\n\nrest") = .ok (12, (B "x y\n"), (B "rest"), none) ∧
    prOut (TlogNote.parseRecord (B "12\nx y\n\nrest")) = (12, (B "x y\n"), (B "rest"), none) := by decide +kernel

example : Generated.TlogNote.ParseRecord 20 (B "12\nx y\n") = .ok (0, [], [], some "errMalformedRecord") ∧
    prOut (TlogNote.parseRecord (B "12\nx y\n")) = (0, [], [], some "errMalformedRecord") := by decide +kernel

end ModVerif.Tie.FnTlogNote
