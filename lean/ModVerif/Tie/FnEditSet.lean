/-
  TIE THEOREMS of the two bulk setters of the regenerated go.mod edit operations (Generated/FnEdit.lean, re-translated from
  /repo/modfile/rule.go on every run): `File.SetRequire` and `File.SetRequireSeparateIndirect` are the hand model's
  `setRequire` / `setRequireSeparateIndirect` (Model/Modfile/Edit.lean) on every heap that represents a model file
  (`FnEditRep.RepF`), for all sufficiently large fuel.

  * The local map `need` of both functions is an association list iterated in INSERTION order: the ties are for the model's
    parameter `perm = id` (= `permOf false`, what the drivers use).
  * The `[]*Require` argument is a list of pointers to `Require` objects of the heap: for SetRequire only their `Mod` and
    `Indirect` are read (`ReqArgs`); SetRequireSeparateIndirect appends the objects to `f.Require`, so they are FRESH
    (`ReqArgsS`: `Syntax == nil`) and not yet in `f.Require` — what the driver's `newReqs` / `allocReqs` below produces
    (`allocReqs_spec`).
  * The model's errors `conflictingVersions`, `nilDeref`, `badStatement` are Go panics: `.error .panic`.
  * SetRequireSeparateIndirect has one more hypothesis, `InTree`: the syntax line of every requirement is nil or a line OF THE
    TREE.  Without it model and code differ by design (moveReq copies the line object also when it is no longer in the graph;
    the model's `moveExisting` finds nothing and does nothing).  It holds for loaded files and is kept by the operations.
  * Fuel: `fuelSetRequire` / `fuelSep` are explicit (computable) functions of the model file and the request: one per loop
    iteration, plus what `AddNewRequire` (`nodeCount + 3`, `len(path) + 1`) and `SortBlocks` (`sortFuel`) ask for in the
    states the model passes through.
  Everything used is proved: `IndirectIdxOK` by FnEditTreeC.indirectIdx_all (edit-rep), `AddNewRequire` by Tie/FnEditReq
  (edit-req), `SortBlocks` by Tie/FnEditSort (edit-sort), `AutoQuote` by Tie/FnModfile.
-/
import ModVerif.Proofs.TieFnEditSetP
import ModVerif.Proofs.TieFnEditSetQ
import ModVerif.Proofs.TieFnEditTreeC
import ModVerif.Proofs.TieFnEditSortEx
import ModVerif.Tie.FnEditTree
import ModVerif.Tie.FnEditReq
import ModVerif.Tie.FnEditSort
set_option linter.unusedSimpArgs false
set_option linter.unusedVariables false
namespace ModVerif.Tie.FnEditSet
open ModVerif ModVerif.GoRt ModVerif.Generated.Edit ModVerif.Tie.FnEditRep
open ModVerif.Tie.FnEditSetA (ReqArgs ReqArg)
open ModVerif.Tie.FnEditSetB (IndirectIdxOK)
open ModVerif.Tie.FnEditSetC (AddNewRequireSpec SortBlocksSpec fuelSetRequire)
open ModVerif.Tie.FnEditSetD (ReqArgsS wantReq)
open ModVerif.Tie.FnEditSetH (AutoQuoteSpec)
open ModVerif.Tie.FnEditSetP (fuelSep)
open ModVerif.Tie.FnEditSetQ (allocReqs allocReqs_spec allocReqs_fresh InTree exMixed exFlat exReq exReqBad setRequireOp setRequireSepOp
  orSelf panics modelFails)
open ModVerif.Tie.FnEditSortE (sortFuel)
open ModVerif.Tie.FnEditSortEx (runFile modelFile exSortOld)
open ModVerif.TieFnEditAddLine (nodeCount)
open ModVerif.Modfile.Edit (EFile Want setRequire setRequireSeparateIndirect treeIds)
open ModVerif.Drv.GenEdit (isPrintI quoteI)

/-! ### the primitives, discharged -/

theorem indirectIdxOK : IndirectIdxOK := FnEditTreeC.indirectIdx_all

/-- fuel demand of `File_AddNewRequire` (Tie/FnEditReq.File_AddNewRequire_tie) -/
def addNewFuel (e : EFile) (path : Bytes) : Nat := max (nodeCount e.f.syn.stmts + 3) (path.length + 1)

theorem addNewRequireSpec : AddNewRequireSpec isPrintI quoteI addNewFuel := by
  intro h fp e path vers ind fuel R hf
  unfold addNewFuel at hf
  exact FnEditReq.File_AddNewRequire_tie R path vers ind fuel (by omega) (by omega)

theorem sortBlocksSpec : SortBlocksSpec sortFuel := fun h fp e fuel R hf => FnEditSort.File_SortBlocks_tie R fuel hf

theorem autoQuoteSpec : AutoQuoteSpec isPrintI quoteI := fun s fuel hf => FnEditReqB.AutoQuote_ok s fuel hf

/-! ### File.SetRequire -/

/-- **`File.SetRequire` (rule.go:1204) = the model's `setRequire` with `perm = id`**: on a heap that represents `e`, with
    the request `ps` pointing at `Require` objects carrying the data of `req`, the regenerated function returns a heap that
    represents the model's result; where the model fails (`conflictingVersions`: two versions for one path;
    `nilDeref`: an existing entry already cleared) Go panics. -/
theorem File_SetRequire_tie {h : Heap} {fp : Int} {e : EFile} {ps : List Int} {req : List Want} {fuel : Nat}
    (R : RepF h fp e) (hq : ReqArgs h.requires ps req) (hf : fuelSetRequire addNewFuel sortFuel e req ≤ fuel) :
    match setRequire e req id with
    | .ok e' => ∃ h', File_SetRequire isPrintI quoteI fuel fp ps h = .ok ((), h') ∧ RepF h' fp e'
    | .error _ => File_SetRequire isPrintI quoteI fuel fp ps h = .error .panic :=
  FnEditSetC.File_SetRequire_sim indirectIdxOK addNewRequireSpec sortBlocksSpec R hq hf

/-- the form for the driver: the request allocated by `allocReqs` -/
theorem File_SetRequire_alloc_tie {h : Heap} {fp : Int} {e : EFile} (req : List Want) {fuel : Nat}
    (R : RepF h fp e) (hf : fuelSetRequire addNewFuel sortFuel e req ≤ fuel) :
    match setRequire e req id with
    | .ok e' => ∃ h', File_SetRequire isPrintI quoteI fuel fp (allocReqs req h).1 (allocReqs req h).2 = .ok ((), h') ∧ RepF h' fp e'
    | .error _ => File_SetRequire isPrintI quoteI fuel fp (allocReqs req h).1 (allocReqs req h).2 = .error .panic := by
  obtain ⟨R', hargs, _⟩ := allocReqs_spec req R
  exact File_SetRequire_tie R' hargs.toArgs hf


-- a require line and a block: `a.b/c` gets a new version and the indirect mark, `d.e/f` loses its mark, `x.y/z` is removed,
-- `g.h/i` and `k.l/m` are added (in the order of the request), SortBlocks
example : runFile exMixed (setRequireOp exReq 400) = modelFile exMixed (orSelf fun e => setRequire e exReq id) ∧
    (runFile exMixed (setRequireOp exReq 400)).isSome = true := by decide +kernel

-- two versions for one path: the panic of SetRequire = the model's `conflictingVersions`
example : panics exMixed (setRequireOp exReqBad 400) = true ∧ modelFails exMixed (fun e => setRequire e exReqBad id) = true := by
  decide +kernel

/-- the hypotheses of `File_SetRequire_alloc_tie` hold for the loaded example file with the fuel of the example -/
example : ∃ f, Modfile.parseStrict (B "go.mod") exMixed none = .ok f ∧
    RepF (Drv.GenEdit.load f).1 (Drv.GenEdit.load f).2 (Modfile.Edit.load f) ∧
    fuelSetRequire addNewFuel sortFuel (Modfile.Edit.load f) exReq ≤ 400 := by
  have h : (match Modfile.parseStrict (B "go.mod") exMixed none with
      | .ok f => decide (fuelSetRequire addNewFuel sortFuel (Modfile.Edit.load f) exReq ≤ 400) | .error _ => false) = true := by
    decide +kernel
  cases hp : Modfile.parseStrict (B "go.mod") exMixed none with
  | error e => rw [hp] at h; cases h
  | ok f =>
    rw [hp] at h
    exact ⟨f, rfl, FnEditTree.load_parsed_rep hp, of_decide_eq_true h⟩

/-! ### File.SetRequireSeparateIndirect -/

/-- **`File.SetRequireSeparateIndirect` (rule.go:1260) = the model's `setRequireSeparateIndirect` with `perm = id`**: the
    scan of the statements, `oneFlatUncommentedBlock`, the direct and the indirect block (inserted, or the existing line /
    block), the loop over the existing requirements (update / delete / move with `moveReq`), the additions, `SortBlocks`.
    The request objects are fresh (`ReqArgsS`) and not in `f.Require`; `InTree e`.  Where the model fails (`nilDeref`,
    `badStatement`) Go panics. -/
theorem File_SetRequireSeparateIndirect_tie {h : Heap} {fp : Int} {e : EFile} {ps : List Int} {req : List Want} {fuel : Nat}
    (R : RepF h fp e) (hq : ReqArgsS h.requires ps req)
    (hdis : ∀ o, heapGet h.mods fp = .ok o → ∀ p ∈ ps, p ∉ o.Require) (hT : InTree e)
    (hf : fuelSep sortFuel e req ≤ fuel) :
    match setRequireSeparateIndirect e req id with
    | .ok e' => ∃ h', File_SetRequireSeparateIndirect isPrintI quoteI fuel fp ps h = .ok ((), h') ∧ RepF h' fp e'
    | .error _ => File_SetRequireSeparateIndirect isPrintI quoteI fuel fp ps h = .error .panic :=
  FnEditSetP.File_SetRequireSeparateIndirect_sim indirectIdxOK autoQuoteSpec sortBlocksSpec R hq hdis hT hf

/-- the form for the driver: the request allocated by `allocReqs` -/
theorem File_SetRequireSeparateIndirect_alloc_tie {h : Heap} {fp : Int} {e : EFile} (req : List Want) {fuel : Nat}
    (R : RepF h fp e) (hT : InTree e) (hf : fuelSep sortFuel e req ≤ fuel) :
    match setRequireSeparateIndirect e req id with
    | .ok e' => ∃ h', File_SetRequireSeparateIndirect isPrintI quoteI fuel fp (allocReqs req h).1 (allocReqs req h).2 = .ok ((), h') ∧
        RepF h' fp e'
    | .error _ => File_SetRequireSeparateIndirect isPrintI quoteI fuel fp (allocReqs req h).1 (allocReqs req h).2 = .error .panic := by
  obtain ⟨R', hargs, _⟩ := allocReqs_spec req R
  exact File_SetRequireSeparateIndirect_tie R' hargs (allocReqs_fresh req R) hT hf

-- a require line and a mixed block: the line is wrapped into the direct block, a new indirect block is inserted after it,
-- `a.b/c` (now indirect) stays where it is (commented blocks / lines of other blocks are not moved), new entries go to
-- their blocks
example : runFile exMixed (setRequireSepOp exReq 400) = modelFile exMixed (orSelf fun e => setRequireSeparateIndirect e exReq id) ∧
    (runFile exMixed (setRequireSepOp exReq 400)).isSome = true := by decide +kernel

-- one flat uncommented block: split into a direct and an indirect block (`moveReq` of existing requirements)
example : runFile exFlat (setRequireSepOp exReq 400) = modelFile exFlat (orSelf fun e => setRequireSeparateIndirect e exReq id) ∧
    (runFile exFlat (setRequireSepOp exReq 400)).isSome = true := by decide +kernel

/-- the hypotheses of `File_SetRequireSeparateIndirect_alloc_tie` hold for the loaded example files with the fuel of the
    examples -/
example : ∃ f, Modfile.parseStrict (B "go.mod") exFlat none = .ok f ∧
    RepF (Drv.GenEdit.load f).1 (Drv.GenEdit.load f).2 (Modfile.Edit.load f) ∧ InTree (Modfile.Edit.load f) ∧
    fuelSep sortFuel (Modfile.Edit.load f) exReq ≤ 400 := by
  have h : (match Modfile.parseStrict (B "go.mod") exFlat none with
      | .ok f => decide (InTree (Modfile.Edit.load f)) && decide (fuelSep sortFuel (Modfile.Edit.load f) exReq ≤ 400)
      | .error _ => false) = true := by
    decide +kernel
  cases hp : Modfile.parseStrict (B "go.mod") exFlat none with
  | error e => rw [hp] at h; cases h
  | ok f =>
    rw [hp] at h
    simp only [Bool.and_eq_true, decide_eq_true_eq] at h
    exact ⟨f, rfl, FnEditTree.load_parsed_rep hp, h.1, h.2⟩

end ModVerif.Tie.FnEditSet
