/-
  Tie theorems (a simulation) of the SCALAR-STATEMENT, GODEBUG and TOOL edit operations of go.mod files, for the code
  regenerated from modfile/rule.go into Generated/FnEdit.lean (pointer graph = heap) against the hand model
  Model/Modfile/Edit.lean:

    File_AddModuleStmt      ↔ addModuleStmt        File_AddGodebug (+ loop 1)   ↔ addGodebug (addGodebugCore, firstRest)
    File_AddGoStmt          ↔ addGoStmt            File_addNewGodebug           ↔ the `first = none` branch of addGodebugCore
    File_DropGoStmt         ↔ dropGoStmt           File_DropGodebug (+ loop 1)  ↔ dropGodebug (clearAll)
    File_AddToolchainStmt   ↔ addToolchainStmt     File_AddTool (+ loop 1)      ↔ addTool
    File_DropToolchainStmt  ↔ dropToolchainStmt    File_DropTool (+ loop 1)     ↔ dropTool (clearAll)

  Shape (Proofs/TieFnEditRep.lean: `RepF h fp e` = the heap `h` at the `*File` pointer `fp` represents the model `EFile` `e`,
  line id = line pointer, `e.next = h.lines.length + 1`):
    `RepF h fp e → ∃ h', File_Op … fuel fp args h = .ok (none, h') ∧ RepF h' fp e'`      where `Edit.op e args = .ok e'`,
    `File_Op … = .ok (some msg, h)` (heap unchanged) where the model returns a "returned" error (invalid go version / toolchain),
    `File_Op … = .error .panic`                                   where the model gives `nilDeref` (a cleared list entry).
  Fuel hypotheses are explicit: `nodeCount e.f.syn.stmts + 3` (statements + block lines; `FileSyntax_addLine`),
  `path.length + 1` (`AutoQuote`), `list.length + 1` (the loops over `f.Godebug` / `f.Tool`).

  SCALAR POINTERS.  `f.Module`, `f.Go`, `f.Toolchain` are optional entries; the model's scalar operations do not check their
  `lineId` (`updateLine`/`markRemoved` of `nilId` are no-ops, the hint `some nilId` appends), Go dereferences `.Syntax`
  (panic) resp. tests `.Syntax != nil` before using it as a hint.  The two agree when the entry's `lineId ≠ 0` — true of
  every file made by the parser and by these operations (the new entry gets `lineId = e.next ≥ 1`).  These are the
  hypotheses `hm`/`hg`/`ht` below; the `…_nil` theorems state what the regenerated code does otherwise (it panics).

  `File.AddTool` ends with `f.SortBlocks()`: `File_AddTool_tie_partial` takes the tie of `File_SortBlocks` as the explicit
  hypothesis `SortSpec sortFuel`; `File_AddTool_tie` discharges it with edit-sort's `File_SortBlocks_sim`
  (Tie/FnEditSort.lean) and is unconditional.  `FileSyntax_addLine` is discharged by `Tie.FnEditAddLine.addLine_tie`,
  `Line_markRemoved` / `FileSyntax_updateLine` by Proofs/TieFnEditTreeA.lean, `AutoQuote` by `Tie.FnModfile.AutoQuote_tie`.

  Bridging: `isPrint := Drv.GenModfile.isPrintI`, `quote := Quote.quote`, `goVersionRE := Modfile.goVersionRE`,
  `toolchainRE := Modfile.toolchainRE` — the driver's instantiation (Drv/GenEdit.lean), run against Go on every check.

  Helper lemmas: Proofs/TieFnEditStmtA.lean (frame lemmas for `RepFAt`, scalar statements), …StmtB.lean (godebug),
  …StmtC.lean (tool).  Examples: the driver's `load` of a parsed go.mod (`FnEditRep.load_rep`), kernel-evaluated.
-/
import ModVerif.Generated.FnEdit
import ModVerif.Model.Modfile.Edit
import ModVerif.Proofs.TieFnEditRep
import ModVerif.Proofs.TieFnEditStmtA
import ModVerif.Proofs.TieFnEditStmtB
import ModVerif.Proofs.TieFnEditStmtC
import ModVerif.Tie.FnEditAddLine
import ModVerif.Proofs.TieFnEditStmtEx
import ModVerif.Tie.FnEditSort
set_option linter.unusedSimpArgs false
set_option linter.unusedVariables false
namespace ModVerif.Tie.FnEditStmt
open ModVerif ModVerif.GoRt ModVerif.Generated.Edit ModVerif.Tie.FnEditRep
open ModVerif.Tie.FnEditStmtA ModVerif.Tie.FnEditStmtB ModVerif.Tie.FnEditStmtC
open ModVerif.TieFnEditAddLine (nodeCount)
open ModVerif.Modfile.Edit (EFile EditErr)

/-- `FileSyntax_addLine` simulates the model's `addLine` (edit-tree's `addLine_tie`) -/
theorem addLineSpec : AddLineSpec := by
  intro h x fs hint t0 trest fuel r htok hf
  obtain ⟨h', a, b, c, d, e, _, f, _⟩ := ModVerif.Tie.FnEditAddLine.addLine_tie r htok hint t0 trest fuel hf
  refine ⟨h', ?_, b, c, d, e, f⟩
  cases hint <;> exact a

/-! ### module -/

/-- **File.AddModuleStmt** (rule.go:198).  `f.Syntax == nil` does not occur under `RepF`. -/
theorem File_AddModuleStmt_tie {h : Heap} {fp : Int} {e : EFile} (R : RepF h fp e)
    (hm : ∀ m, e.f.module = some m → m.lineId ≠ 0) (path : Bytes) (fuel : Nat)
    (hf : nodeCount e.f.syn.stmts + 3 ≤ fuel) (hq : path.length + 1 ≤ fuel) :
    ∃ h', File_AddModuleStmt Drv.GenModfile.isPrintI Quote.quote fuel fp path h = .ok (none, h') ∧
      RepF h' fp (Modfile.Edit.addModuleStmt e path) := by
  cases hmm : e.f.module with
  | none =>
    obtain ⟨h', h1, h2⟩ := File_AddModuleStmt_insert addLineSpec R hmm path fuel hf hq
    refine ⟨h', h1, ?_⟩
    simp only [Modfile.Edit.addModuleStmt, hmm]
    exact h2
  | some m =>
    obtain ⟨h', h1, h2⟩ := File_AddModuleStmt_update R hmm (hm m hmm) path fuel hq
    refine ⟨h', h1, ?_⟩
    simp only [Modfile.Edit.addModuleStmt, hmm]
    exact h2

/-- a `Module` entry without a line: `updateLine(nil, …)` is a nil dereference -/
theorem File_AddModuleStmt_nil {h : Heap} {fp : Int} {e : EFile} (R : RepF h fp e) {m : Modfile.Module}
    (hs : e.f.module = some m) (h0 : m.lineId = 0) (path : Bytes) (fuel : Nat) (hq : path.length + 1 ≤ fuel) :
    File_AddModuleStmt Drv.GenModfile.isPrintI Quote.quote fuel fp path h = .error .panic :=
  File_AddModuleStmt_update_nil R hs h0 path fuel hq

/-! ### go -/

/-- **File.AddGoStmt** (rule.go:1052) -/
theorem File_AddGoStmt_tie {h : Heap} {fp : Int} {e : EFile} (R : RepF h fp e)
    (hg : ∀ g, e.f.go = some g → g.lineId ≠ 0) (hm : ∀ m, e.f.module = some m → m.lineId ≠ 0) (version : Bytes) (fuel : Nat)
    (hf : nodeCount e.f.syn.stmts + 3 ≤ fuel) :
    match Modfile.Edit.addGoStmt e version with
    | .ok e' => ∃ h', File_AddGoStmt Modfile.goVersionRE fuel fp version h = .ok (none, h') ∧ RepF h' fp e'
    | .error err => err = .invalidGoVersion ∧
        File_AddGoStmt Modfile.goVersionRE fuel fp version h = .ok (some "invalid language version %q", h) := by
  cases hv : Modfile.goVersionRE version with
  | false =>
    simp only [Modfile.Edit.addGoStmt, hv, Bool.not_false, if_true]
    exact ⟨trivial, File_AddGoStmt_invalid fuel fp version h hv⟩
  | true =>
    cases hgg : e.f.go with
    | none =>
      simp only [Modfile.Edit.addGoStmt, hv, Bool.not_true, Bool.false_eq_true, if_false, hgg]
      exact File_AddGoStmt_insert addLineSpec R hgg hm version hv fuel hf
    | some g =>
      simp only [Modfile.Edit.addGoStmt, hv, Bool.not_true, Bool.false_eq_true, if_false, hgg]
      exact File_AddGoStmt_update R hgg (hg g hgg) version hv fuel

/-- a `Go` entry without a line: `updateLine(nil, …)` is a nil dereference -/
theorem File_AddGoStmt_nil {h : Heap} {fp : Int} {e : EFile} (R : RepF h fp e) {g : Modfile.Go}
    (hs : e.f.go = some g) (h0 : g.lineId = 0) (version : Bytes) (hv : Modfile.goVersionRE version = true) (fuel : Nat) :
    File_AddGoStmt Modfile.goVersionRE fuel fp version h = .error .panic :=
  File_AddGoStmt_update_nil R hs h0 version hv fuel

/-- **File.DropGoStmt** (rule.go:1075) -/
theorem File_DropGoStmt_tie {h : Heap} {fp : Int} {e : EFile} (R : RepF h fp e) (hg : ∀ g, e.f.go = some g → g.lineId ≠ 0) :
    ∃ h', File_DropGoStmt fp h = .ok ((), h') ∧ RepF h' fp (Modfile.Edit.dropGoStmt e) := by
  cases hgg : e.f.go with
  | none =>
    refine ⟨h, File_DropGoStmt_none R hgg, ?_⟩
    simp only [Modfile.Edit.dropGoStmt, hgg]
    exact R
  | some g => exact File_DropGoStmt_some R hgg (hg g hgg)

/-- a `Go` entry without a line: `f.Go.Syntax.markRemoved()` is a nil dereference -/
theorem File_DropGoStmt_nil {h : Heap} {fp : Int} {e : EFile} (R : RepF h fp e) {g : Modfile.Go}
    (hs : e.f.go = some g) (h0 : g.lineId = 0) : File_DropGoStmt fp h = .error .panic :=
  FnEditStmtA.File_DropGoStmt_nil R hs h0

/-! ### toolchain -/

/-- **File.AddToolchainStmt** (rule.go:1090) -/
theorem File_AddToolchainStmt_tie {h : Heap} {fp : Int} {e : EFile} (R : RepF h fp e)
    (ht : ∀ t, e.f.toolchain = some t → t.lineId ≠ 0) (hg : ∀ g, e.f.go = some g → g.lineId ≠ 0)
    (hm : ∀ m, e.f.module = some m → m.lineId ≠ 0) (name : Bytes) (fuel : Nat) (hf : nodeCount e.f.syn.stmts + 3 ≤ fuel) :
    match Modfile.Edit.addToolchainStmt e name with
    | .ok e' => ∃ h', File_AddToolchainStmt Modfile.toolchainRE fuel fp name h = .ok (none, h') ∧ RepF h' fp e'
    | .error err => err = .invalidToolchain ∧
        File_AddToolchainStmt Modfile.toolchainRE fuel fp name h = .ok (some "invalid toolchain name %q", h) := by
  cases hv : Modfile.toolchainRE name with
  | false =>
    simp only [Modfile.Edit.addToolchainStmt, hv, Bool.not_false, if_true]
    exact ⟨trivial, File_AddToolchainStmt_invalid fuel fp name h hv⟩
  | true =>
    cases htt : e.f.toolchain with
    | none =>
      simp only [Modfile.Edit.addToolchainStmt, hv, Bool.not_true, Bool.false_eq_true, if_false, htt]
      exact File_AddToolchainStmt_insert addLineSpec R htt hg hm name hv fuel hf
    | some t =>
      simp only [Modfile.Edit.addToolchainStmt, hv, Bool.not_true, Bool.false_eq_true, if_false, htt]
      exact File_AddToolchainStmt_update R htt (ht t htt) name hv fuel

/-- a `Toolchain` entry without a line: `updateLine(nil, …)` is a nil dereference -/
theorem File_AddToolchainStmt_nil {h : Heap} {fp : Int} {e : EFile} (R : RepF h fp e) {t : Modfile.Toolchain}
    (hs : e.f.toolchain = some t) (h0 : t.lineId = 0) (name : Bytes) (hv : Modfile.toolchainRE name = true) (fuel : Nat) :
    File_AddToolchainStmt Modfile.toolchainRE fuel fp name h = .error .panic :=
  File_AddToolchainStmt_update_nil R hs h0 name hv fuel

/-- **File.DropToolchainStmt** (rule.go:1083) -/
theorem File_DropToolchainStmt_tie {h : Heap} {fp : Int} {e : EFile} (R : RepF h fp e)
    (ht : ∀ t, e.f.toolchain = some t → t.lineId ≠ 0) :
    ∃ h', File_DropToolchainStmt fp h = .ok ((), h') ∧ RepF h' fp (Modfile.Edit.dropToolchainStmt e) := by
  cases htt : e.f.toolchain with
  | none =>
    refine ⟨h, File_DropToolchainStmt_none R htt, ?_⟩
    simp only [Modfile.Edit.dropToolchainStmt, htt]
    exact R
  | some t => exact File_DropToolchainStmt_some R htt (ht t htt)

/-- a `Toolchain` entry without a line: nil dereference -/
theorem File_DropToolchainStmt_nil {h : Heap} {fp : Int} {e : EFile} (R : RepF h fp e) {t : Modfile.Toolchain}
    (hs : e.f.toolchain = some t) (h0 : t.lineId = 0) : File_DropToolchainStmt fp h = .error .panic :=
  FnEditStmtA.File_DropToolchainStmt_nil R hs h0

/-! ### godebug -/

/-- **File.AddGodebug** (rule.go:1118): the first entry with this key is updated (object and line), every later one is
    cleared and its line marked removed, else `addNewGodebug`; a matching CLEARED entry (`Syntax == nil`, the model's
    `nilDeref`) is a Go panic. -/
theorem File_AddGodebug_tie {h : Heap} {fp : Int} {e : EFile} (R : RepF h fp e) (key value : Bytes) (fuel : Nat)
    (hf1 : e.f.godebug.length + 1 ≤ fuel) (hf2 : nodeCount e.f.syn.stmts + 3 ≤ fuel) :
    match Modfile.Edit.addGodebug e key value with
    | .ok e' => ∃ h', File_AddGodebug fuel fp key value h = .ok (none, h') ∧ RepF h' fp e'
    | .error _ => File_AddGodebug fuel fp key value h = .error .panic := by
  cases hm : Modfile.Edit.addGodebug e key value with
  | ok e' => exact File_AddGodebug_ok addLineSpec R key value fuel hf1 hf2 hm
  | error err => exact File_AddGodebug_err R key value fuel hf1 hm

/-- **File.addNewGodebug** (rule.go:1141): the branch `first = none` of the model's `addGodebugCore` -/
theorem File_addNewGodebug_tie {h : Heap} {fp : Int} {e : EFile} (R : RepF h fp e) (key value : Bytes) (fuel : Nat)
    (hf : nodeCount e.f.syn.stmts + 3 ≤ fuel) :
    ∃ h', File_addNewGodebug fuel fp key value h = .ok ((), h') ∧
      RepF h' fp { f := { e.f with godebug := e.f.godebug ++ [{ key := key, value := value, lineId := e.next }],
                                   syn := Modfile.Edit.addLine e.f.syn none [B "godebug", key ++ [61] ++ value] e.next },
                   next := e.next + 1 } :=
  File_addNewGodebug_sim addLineSpec R key value fuel hf

/-- **File.DropGodebug** (rule.go:1458) -/
theorem File_DropGodebug_tie {h : Heap} {fp : Int} {e : EFile} (R : RepF h fp e) (key : Bytes) (fuel : Nat)
    (hf1 : e.f.godebug.length + 1 ≤ fuel) :
    match Modfile.Edit.dropGodebug e key with
    | .ok e' => ∃ h', File_DropGodebug fuel fp key h = .ok (none, h') ∧ RepF h' fp e'
    | .error _ => File_DropGodebug fuel fp key h = .error .panic := by
  cases hm : Modfile.Edit.dropGodebug e key with
  | ok e' => exact File_DropGodebug_ok R key fuel hf1 hm
  | error err => exact File_DropGodebug_err R key fuel hf1 hm

/-! ### tool -/

/-- **File.AddTool** (rule.go:1606), PARTIAL: the tie of the final `f.SortBlocks()` is the hypothesis `hSort`
    (`SortSpec sortFuel`: `RepF h fp e → sortFuel e ≤ fuel → ∃ h', File_SortBlocks fuel fp h = .ok ((), h') ∧
    RepF h' fp (sortBlocks e)` — edit-sort's `File_SortBlocks_sim`); `hf3` is its fuel bound at the file after the
    insertion.  Nothing else is missing. -/
theorem File_AddTool_tie_partial {sortFuel : EFile → Nat} (hSort : SortSpec sortFuel)
    {h : Heap} {fp : Int} {e : EFile} (R : RepF h fp e) (path : Bytes) (fuel : Nat)
    (hf1 : e.f.tool.length + 1 ≤ fuel) (hf2 : nodeCount e.f.syn.stmts + 3 ≤ fuel)
    (hf3 : sortFuel { f := { e.f with tool := e.f.tool ++ [{ path := path, lineId := e.next }],
                                      syn := Modfile.Edit.addLine e.f.syn none [B "tool", path] e.next }, next := e.next + 1 } ≤ fuel) :
    ∃ h', File_AddTool fuel fp path h = .ok (none, h') ∧ RepF h' fp (Modfile.Edit.addTool e path) := by
  cases hp : e.f.tool.any (·.path == path) with
  | true =>
    refine ⟨h, File_AddTool_present R path fuel hf1 hp, ?_⟩
    simp only [Modfile.Edit.addTool, hp, if_true]
    exact R
  | false => exact File_AddTool_new addLineSpec hSort R path fuel hf1 hf2 hf3 hp

/-- `File_SortBlocks` simulates the model's `sortBlocks` (edit-sort's `File_SortBlocks_sim`, Tie/FnEditSort.lean) -/
theorem sortSpec : SortSpec ModVerif.Tie.FnEditSortE.sortFuel :=
  fun h fp e fuel R hf => ModVerif.Tie.FnEditSort.File_SortBlocks_sim R hf

/-- **File.AddTool** (rule.go:1606): nothing if the path is present, else a new `tool` line (`addLine` with the no-hint
    search), a new `Tool` object at the end of `f.Tool`, then `f.SortBlocks()`.  `hf3` is edit-sort's fuel bound of
    SortBlocks (`FnEditSortE.sortFuel`: typed-list lengths, statements, lines, token bytes, go version) at the file after
    the insertion. -/
theorem File_AddTool_tie {h : Heap} {fp : Int} {e : EFile} (R : RepF h fp e) (path : Bytes) (fuel : Nat)
    (hf1 : e.f.tool.length + 1 ≤ fuel) (hf2 : nodeCount e.f.syn.stmts + 3 ≤ fuel)
    (hf3 : ModVerif.Tie.FnEditSortE.sortFuel
      { f := { e.f with tool := e.f.tool ++ [{ path := path, lineId := e.next }],
                        syn := Modfile.Edit.addLine e.f.syn none [B "tool", path] e.next }, next := e.next + 1 } ≤ fuel) :
    ∃ h', File_AddTool fuel fp path h = .ok (none, h') ∧ RepF h' fp (Modfile.Edit.addTool e path) :=
  File_AddTool_tie_partial sortSpec R path fuel hf1 hf2 hf3

/-- **File.AddTool when the path is present** (no SortBlocks): unconditional -/
theorem File_AddTool_present_tie {h : Heap} {fp : Int} {e : EFile} (R : RepF h fp e) (path : Bytes) (fuel : Nat)
    (hf1 : e.f.tool.length + 1 ≤ fuel) (hp : e.f.tool.any (·.path == path) = true) :
    File_AddTool fuel fp path h = .ok (none, h) ∧ Modfile.Edit.addTool e path = e := by
  refine ⟨File_AddTool_present R path fuel hf1 hp, ?_⟩
  simp only [Modfile.Edit.addTool, hp, if_true]

/-- **File.DropTool** (rule.go:1624) -/
theorem File_DropTool_tie {h : Heap} {fp : Int} {e : EFile} (R : RepF h fp e) (path : Bytes) (fuel : Nat)
    (hf1 : e.f.tool.length + 1 ≤ fuel) :
    match Modfile.Edit.dropTool e path with
    | .ok e' => ∃ h', File_DropTool fuel fp path h = .ok (none, h') ∧ RepF h' fp e'
    | .error _ => File_DropTool fuel fp path h = .error .panic := by
  cases hm : Modfile.Edit.dropTool e path with
  | ok e' => exact File_DropTool_ok R path fuel hf1 hm
  | error err => exact File_DropTool_err R path fuel hf1 hm

/-! ### non-vacuity

  (a) every theorem is instantiated on the heap that the driver's `load` builds from a parsed go.mod
      (`FnEditStmtEx.exRep`: `RepF (exH file) (exP file) (exE file)`), all hypotheses discharged by kernel evaluation;
  (b) for every operation both sides are kernel-evaluated on that heap and compared (`run … = model …`: the regenerated
      operation, the file read back with the driver's `fileM`, against the hand model on `Edit.load` of the file);
  (c) for the `…_nil` theorems a represented state with a scalar entry without a line is built from the loaded one. -/

section examples
open ModVerif.Tie.FnEditStmtEx

-- File.AddModuleStmt: `module m` is rewritten / a module line is added to a file without one
example : ∃ h', File_AddModuleStmt Drv.GenModfile.isPrintI Quote.quote 200 (exP exFile) (B "n/x") (exH exFile) = .ok (none, h') ∧
    RepF h' (exP exFile) (Modfile.Edit.addModuleStmt (exE exFile) (B "n/x")) :=
  File_AddModuleStmt_tie (exRep exFile (by decide +kernel)) (optOK_sound (by decide +kernel)) (B "n/x") 200
    (by decide +kernel) (by decide +kernel)
example : run exFile (fun fp h => File_AddModuleStmt Drv.GenModfile.isPrintI Quote.quote 200 fp (B "n/x") h) =
    modelU exFile (fun e => Modfile.Edit.addModuleStmt e (B "n/x")) := by decide +kernel
example : run exFile0 (fun fp h => File_AddModuleStmt Drv.GenModfile.isPrintI Quote.quote 200 fp (B "n x") h) =
    modelU exFile0 (fun e => Modfile.Edit.addModuleStmt e (B "n x")) := by decide +kernel
example : ∃ h', File_AddModuleStmt Drv.GenModfile.isPrintI Quote.quote 200 (exP exFile0) (B "n x") (exH exFile0) = .ok (none, h') ∧
    RepF h' (exP exFile0) (Modfile.Edit.addModuleStmt (exE exFile0) (B "n x")) :=
  File_AddModuleStmt_tie (exRep exFile0 (by decide +kernel)) (optOK_sound (by decide +kernel)) (B "n x") 200
    (by decide +kernel) (by decide +kernel)

-- File.AddGoStmt: update of `go 1.21`, insertion after the module line / into a file without module, invalid version
example : match Modfile.Edit.addGoStmt (exE exFile) (B "1.22") with
    | .ok e' => ∃ h', File_AddGoStmt Modfile.goVersionRE 200 (exP exFile) (B "1.22") (exH exFile) = .ok (none, h') ∧
        RepF h' (exP exFile) e'
    | .error err => err = .invalidGoVersion ∧
        File_AddGoStmt Modfile.goVersionRE 200 (exP exFile) (B "1.22") (exH exFile) = .ok (some "invalid language version %q", exH exFile) :=
  File_AddGoStmt_tie (exRep exFile (by decide +kernel)) (optOK_sound (by decide +kernel)) (optOK_sound (by decide +kernel))
    (B "1.22") 200 (by decide +kernel)
example : run exFile (fun fp h => File_AddGoStmt Modfile.goVersionRE 200 fp (B "1.22") h) =
    model exFile (fun e => Modfile.Edit.addGoStmt e (B "1.22")) := by decide +kernel
example : run exFile2 (fun fp h => File_AddGoStmt Modfile.goVersionRE 200 fp (B "1.22") h) =
    model exFile2 (fun e => Modfile.Edit.addGoStmt e (B "1.22")) := by decide +kernel
example : run exFile0 (fun fp h => File_AddGoStmt Modfile.goVersionRE 200 fp (B "1.22") h) =
    model exFile0 (fun e => Modfile.Edit.addGoStmt e (B "1.22")) := by decide +kernel
example : run exFile0 (fun fp h => File_AddGoStmt Modfile.goVersionRE 200 fp (B "x") h) =
    model exFile0 (fun e => Modfile.Edit.addGoStmt e (B "x")) ∧
    (run exFile0 (fun fp h => File_AddGoStmt Modfile.goVersionRE 200 fp (B "x") h)).map (·.1) = some false := by decide +kernel

-- File.DropGoStmt
example : ∃ h', File_DropGoStmt (exP exFile) (exH exFile) = .ok ((), h') ∧
    RepF h' (exP exFile) (Modfile.Edit.dropGoStmt (exE exFile)) :=
  File_DropGoStmt_tie (exRep exFile (by decide +kernel)) (optOK_sound (by decide +kernel))
example : runU exFile (fun fp h => File_DropGoStmt fp h) = modelU exFile Modfile.Edit.dropGoStmt := by decide +kernel
example : runU exFile0 (fun fp h => File_DropGoStmt fp h) = modelU exFile0 Modfile.Edit.dropGoStmt := by decide +kernel

-- File.AddToolchainStmt: update, insertion after the go line (exFile minus toolchain is exFile after the drop), after the
-- module line (exFile2), at the end (exFile0), invalid name
example : match Modfile.Edit.addToolchainStmt (exE exFile) (B "go1.22.1") with
    | .ok e' => ∃ h', File_AddToolchainStmt Modfile.toolchainRE 200 (exP exFile) (B "go1.22.1") (exH exFile) = .ok (none, h') ∧
        RepF h' (exP exFile) e'
    | .error err => err = .invalidToolchain ∧
        File_AddToolchainStmt Modfile.toolchainRE 200 (exP exFile) (B "go1.22.1") (exH exFile) =
          .ok (some "invalid toolchain name %q", exH exFile) :=
  File_AddToolchainStmt_tie (exRep exFile (by decide +kernel)) (optOK_sound (by decide +kernel)) (optOK_sound (by decide +kernel))
    (optOK_sound (by decide +kernel)) (B "go1.22.1") 200 (by decide +kernel)
example : run exFile (fun fp h => File_AddToolchainStmt Modfile.toolchainRE 200 fp (B "go1.22.1") h) =
    model exFile (fun e => Modfile.Edit.addToolchainStmt e (B "go1.22.1")) := by decide +kernel
example : run exFile (fun fp h => do
      let r ← File_DropToolchainStmt fp h
      File_AddToolchainStmt Modfile.toolchainRE 200 fp (B "go1.22.1") r.2) =
    model exFile (fun e => Modfile.Edit.addToolchainStmt (Modfile.Edit.dropToolchainStmt e) (B "go1.22.1")) := by decide +kernel
example : run exFile2 (fun fp h => File_AddToolchainStmt Modfile.toolchainRE 200 fp (B "default") h) =
    model exFile2 (fun e => Modfile.Edit.addToolchainStmt e (B "default")) := by decide +kernel
example : run exFile0 (fun fp h => File_AddToolchainStmt Modfile.toolchainRE 200 fp (B "go1.22.1") h) =
    model exFile0 (fun e => Modfile.Edit.addToolchainStmt e (B "go1.22.1")) := by decide +kernel
example : run exFile0 (fun fp h => File_AddToolchainStmt Modfile.toolchainRE 200 fp (B "1.22") h) =
    model exFile0 (fun e => Modfile.Edit.addToolchainStmt e (B "1.22")) := by decide +kernel

-- File.DropToolchainStmt
example : ∃ h', File_DropToolchainStmt (exP exFile) (exH exFile) = .ok ((), h') ∧
    RepF h' (exP exFile) (Modfile.Edit.dropToolchainStmt (exE exFile)) :=
  File_DropToolchainStmt_tie (exRep exFile (by decide +kernel)) (optOK_sound (by decide +kernel))
example : runU exFile (fun fp h => File_DropToolchainStmt fp h) = modelU exFile Modfile.Edit.dropToolchainStmt := by
  decide +kernel

-- File.AddGodebug: `a` occurs twice in exFile2 (the first is updated, the second cleared), `q` does not occur (new line)
example : match Modfile.Edit.addGodebug (exE exFile2) (B "a") (B "z") with
    | .ok e' => ∃ h', File_AddGodebug 200 (exP exFile2) (B "a") (B "z") (exH exFile2) = .ok (none, h') ∧ RepF h' (exP exFile2) e'
    | .error _ => File_AddGodebug 200 (exP exFile2) (B "a") (B "z") (exH exFile2) = .error .panic :=
  File_AddGodebug_tie (exRep exFile2 (by decide +kernel)) (B "a") (B "z") 200 (by decide +kernel) (by decide +kernel)
example : run exFile2 (fun fp h => File_AddGodebug 200 fp (B "a") (B "z") h) =
    model exFile2 (fun e => Modfile.Edit.addGodebug e (B "a") (B "z")) := by decide +kernel
example : run exFile2 (fun fp h => File_AddGodebug 200 fp (B "q") (B "z") h) =
    model exFile2 (fun e => Modfile.Edit.addGodebug e (B "q") (B "z")) := by decide +kernel
-- after that the list has a CLEARED entry (key ""): AddGodebug / DropGodebug of the key "" dereference its nil `Syntax`
example : run exFile2 (fun fp h => do
      let r ← File_AddGodebug 200 fp (B "a") (B "z") h
      File_AddGodebug 200 fp [] (B "z") r.2) = none ∧
    model exFile2 (fun e => do
      let e1 ← Modfile.Edit.addGodebug e (B "a") (B "z")
      Modfile.Edit.addGodebug e1 [] (B "z")) = none := by decide +kernel

-- File.addNewGodebug
example : ∃ h', File_addNewGodebug 200 (exP exFile) (B "k") (B "v") (exH exFile) = .ok ((), h') ∧
    RepF h' (exP exFile)
      { f := { (exE exFile).f with godebug := (exE exFile).f.godebug ++ [{ key := B "k", value := B "v", lineId := (exE exFile).next }],
                                   syn := Modfile.Edit.addLine (exE exFile).f.syn none [B "godebug", B "k" ++ [61] ++ B "v"] (exE exFile).next },
        next := (exE exFile).next + 1 } :=
  File_addNewGodebug_tie (exRep exFile (by decide +kernel)) (B "k") (B "v") 200 (by decide +kernel)
example : runU exFile (fun fp h => File_addNewGodebug 200 fp (B "k") (B "v") h) =
    model exFile (fun e => Modfile.Edit.addGodebug e (B "k") (B "v")) := by decide +kernel

-- File.DropGodebug
example : match Modfile.Edit.dropGodebug (exE exFile2) (B "a") with
    | .ok e' => ∃ h', File_DropGodebug 200 (exP exFile2) (B "a") (exH exFile2) = .ok (none, h') ∧ RepF h' (exP exFile2) e'
    | .error _ => File_DropGodebug 200 (exP exFile2) (B "a") (exH exFile2) = .error .panic :=
  File_DropGodebug_tie (exRep exFile2 (by decide +kernel)) (B "a") 200 (by decide +kernel)
example : run exFile2 (fun fp h => File_DropGodebug 200 fp (B "a") h) =
    model exFile2 (fun e => Modfile.Edit.dropGodebug e (B "a")) := by decide +kernel
example : run exFile2 (fun fp h => do
      let r ← File_DropGodebug 200 fp (B "a") h
      File_DropGodebug 200 fp [] r.2) = none ∧
    model exFile2 (fun e => do
      let e1 ← Modfile.Edit.dropGodebug e (B "a")
      Modfile.Edit.dropGodebug e1 []) = none := by decide +kernel

-- File.AddTool: a present path (nothing happens); a new path (new line, converted to a block, sorted) — evaluated
example : File_AddTool 200 (exP exFile2) (B "x.y/z") (exH exFile2) = .ok (none, exH exFile2) ∧
    Modfile.Edit.addTool (exE exFile2) (B "x.y/z") = exE exFile2 :=
  File_AddTool_present_tie (exRep exFile2 (by decide +kernel)) (B "x.y/z") 200 (by decide +kernel) (by decide +kernel)
example : ∃ h', File_AddTool 400 (exP exFile2) (B "a.b/c") (exH exFile2) = .ok (none, h') ∧
    RepF h' (exP exFile2) (Modfile.Edit.addTool (exE exFile2) (B "a.b/c")) :=
  File_AddTool_tie (exRep exFile2 (by decide +kernel)) (B "a.b/c") 400 (by decide +kernel) (by decide +kernel) (by decide +kernel)
example : ∃ h', File_AddTool 400 (exP exFile2) (B "a.b/c") (exH exFile2) = .ok (none, h') ∧
    RepF h' (exP exFile2) (Modfile.Edit.addTool (exE exFile2) (B "a.b/c")) :=
  File_AddTool_tie_partial sortSpec (exRep exFile2 (by decide +kernel)) (B "a.b/c") 400 (by decide +kernel) (by decide +kernel)
    (by decide +kernel)
example : run exFile2 (fun fp h => File_AddTool 200 fp (B "a.b/c") h) =
    modelU exFile2 (fun e => Modfile.Edit.addTool e (B "a.b/c")) := by decide +kernel
example : run exFile0 (fun fp h => File_AddTool 200 fp (B "a.b/c") h) =
    modelU exFile0 (fun e => Modfile.Edit.addTool e (B "a.b/c")) := by decide +kernel

-- File.DropTool
example : match Modfile.Edit.dropTool (exE exFile2) (B "x.y/z") with
    | .ok e' => ∃ h', File_DropTool 200 (exP exFile2) (B "x.y/z") (exH exFile2) = .ok (none, h') ∧ RepF h' (exP exFile2) e'
    | .error _ => File_DropTool 200 (exP exFile2) (B "x.y/z") (exH exFile2) = .error .panic :=
  File_DropTool_tie (exRep exFile2 (by decide +kernel)) (B "x.y/z") 200 (by decide +kernel)
example : run exFile2 (fun fp h => File_DropTool 200 fp (B "x.y/z") h) =
    model exFile2 (fun e => Modfile.Edit.dropTool e (B "x.y/z")) := by decide +kernel
example : run exFile2 (fun fp h => do
      let r ← File_DropTool 200 fp (B "x.y/z") h
      File_DropTool 200 fp [] r.2) = none ∧
    model exFile2 (fun e => do
      let e1 ← Modfile.Edit.dropTool e (B "x.y/z")
      Modfile.Edit.dropTool e1 []) = none := by decide +kernel

-- the `…_nil` theorems: a represented file whose scalar entry has no line exists (exFile0 plus such an entry), and there
-- the regenerated operation panics
example : ∃ h fp e g, RepF h fp e ∧ e.f.go = some g ∧ g.lineId = 0 ∧ File_DropGoStmt fp h = .error .panic ∧
    File_AddGoStmt Modfile.goVersionRE 200 fp (B "1.22") h = .error .panic := by
  obtain ⟨o, ho, R⟩ := exRep exFile0 (by decide +kernel)
  let g0 : Modfile.Go := { version := B "1.21", lineId := 0 }
  have R' := RepF_ofSetMods (fp := exP exFile0) (h := { exH exFile0 with gos := (exH exFile0).gos ++ [goG g0] }) ho
    (RepFAt_replaceGo R ((exH exFile0).gos ++ [goG g0]) _ (some g0) ⟨heapGet_alloc_new _ _, Nat.zero_le _⟩)
  exact ⟨_, _, _, g0, R', rfl, rfl, File_DropGoStmt_nil R' rfl rfl, File_AddGoStmt_nil R' rfl rfl (B "1.22") (by decide +kernel) 200⟩

example : ∃ h fp e t, RepF h fp e ∧ e.f.toolchain = some t ∧ t.lineId = 0 ∧ File_DropToolchainStmt fp h = .error .panic ∧
    File_AddToolchainStmt Modfile.toolchainRE 200 fp (B "default") h = .error .panic := by
  obtain ⟨o, ho, R⟩ := exRep exFile0 (by decide +kernel)
  let t0 : Modfile.Toolchain := { name := B "default", lineId := 0 }
  have R' := RepF_ofSetMods (fp := exP exFile0)
    (h := { exH exFile0 with toolchains := (exH exFile0).toolchains ++ [toolchainG t0] }) ho
    (RepFAt_replaceToolchain R ((exH exFile0).toolchains ++ [toolchainG t0]) _ (some t0) ⟨heapGet_alloc_new _ _, Nat.zero_le _⟩)
  exact ⟨_, _, _, t0, R', rfl, rfl, File_DropToolchainStmt_nil R' rfl rfl,
    File_AddToolchainStmt_nil R' rfl rfl (B "default") (by decide +kernel) 200⟩

example : ∃ h fp e m, RepF h fp e ∧ e.f.module = some m ∧ m.lineId = 0 ∧
    File_AddModuleStmt Drv.GenModfile.isPrintI Quote.quote 200 fp (B "n") h = .error .panic := by
  obtain ⟨o, ho, R⟩ := exRep exFile0 (by decide +kernel)
  let m0 : Modfile.Module := { mod := { path := B "m" }, lineId := 0 }
  have R' := RepF_ofSetMods (fp := exP exFile0) (h := { exH exFile0 with modules := (exH exFile0).modules ++ [moduleG m0] }) ho
    (RepFAt_replaceModule R ((exH exFile0).modules ++ [moduleG m0]) _ (some m0) ⟨heapGet_alloc_new _ _, Nat.zero_le _⟩)
  exact ⟨_, _, _, m0, R', rfl, rfl, File_AddModuleStmt_nil R' rfl rfl (B "n") 200 (by decide +kernel)⟩

end examples

end ModVerif.Tie.FnEditStmt
