/-
  Closed fuel of the FnEdit (go.mod) session ties, part 4 (agent edit-fuel4): `NotSep` is gone — the bulk setter
  `File.SetRequireSeparateIndirect` is covered, so the fuel hypotheses `FuelOK` / `FinalFuel` of EVERY go.mod session follow
  from the byte length of the file text and the raw sizes of the operation arguments alone.

  * `Proofs/TieFnEditFuelK.lean`: the phases on the tree weight — `sepPlan_treeW` (the scan plan: `ensureBlock` / the inserted
    empty `require` blocks add ≤ 32), `moveExisting_treeW` (a moved line adds ≤ 1: `kill_treeW`, the emptied old line pays for
    the copy), `addSepNew_wantW` / `addMissing_W`, `fuel5_le`; line ids pairwise different and below `next` through every phase
    (`IdOK`, `sepPlan_ids`, `moveExisting_idOK`).
  * `Proofs/TieFnEditFuelL.lean`: `sepLoop_W` (potential `treeW + Σ_{need, path not yet kept} wantW`), `sep_stepFuel_le`
    (`fuelSep sortFuel e req ≤ 3·(W e + G op) + 12`), `sep_W` (`W e' ≤ W e + G op`), sessions `fuelOK_of_W_all`, `run_W_all`,
    `finalFuel_of_W_all`.
  * here: `fuelOK_of_state`, `fuelOK_of_length`, `runOps_tie_closed_length`, `nilDeref_unreachable_gen_closed`,
    `typed_eq_tree_gen_closed` — size hypothesis `3 · sessLen file ops + 13 ≤ fuel` (12 more than the `_partial` versions: the
    two new blocks of an EMPTY request are not paid by `G`).
-/
import ModVerif.Tie.FnEditClosed3
import ModVerif.Proofs.TieFnEditFuelL
set_option linter.unusedSimpArgs false
set_option linter.unusedVariables false
namespace ModVerif.Tie.FnEditClosed4
open ModVerif ModVerif.GoRt ModVerif.Generated.Edit ModVerif.Tie.FnEditRep
open ModVerif.Tie.FnEditFuelA ModVerif.Tie.FnEditFuelB ModVerif.Tie.FnEditFuelC ModVerif.Tie.FnEditFuelD ModVerif.Tie.FnEditFuelE
open ModVerif.Tie.FnEditFuelF ModVerif.Tie.FnEditFuelK ModVerif.Tie.FnEditFuelL
open ModVerif.Tie.FnEditSessionA ModVerif.Tie.FnEditSessionB ModVerif.Tie.FnEditSessionC ModVerif.Tie.FnEditSessionE
open ModVerif.Tie.FnEditSession ModVerif.Tie.FnEditClosed ModVerif.Tie.FnEditClosed2 ModVerif.Tie.FnEditClosed3
open ModVerif.Modfile (parseToFile)
open ModVerif.Modfile.Edit (EFile applyMod)
open ModVerif.Drv.GenEdit (applyOp)
open ModVerif.Tie.FnEditStmtEx (zeroIds)

/-- **fuel demand of one `File.SetRequireSeparateIndirect`**: linear in the potential and the request -/
theorem sep_stepFuel_le (e : EFile) (l : List EditSpec.Req) (hi : Modfile.Edit.P.Inv e)
    (hg : Modfile.Edit.GoodWant (l.map toWant)) :
    stepFuel e (.setRequireSeparateIndirect l) ≤ 3 * (W e + G (.setRequireSeparateIndirect l)) + 12 :=
  FnEditFuelL.sep_stepFuel_le e l (idOK_of_inv hi) hg

/-- **`FuelOK` / `FinalFuel` from the potential of ANY state with the invariant** — every operation -/
theorem fuelOK_of_state (fuel : Nat) (ops : List EditSpec.Op) (e : EFile) (hi : Modfile.Edit.P.Inv e)
    (hv : Modfile.Edit.RunValidLive e (ops.map opM)) (hf : 3 * (W e + opsG ops) + 13 ≤ fuel) :
    FuelOK fuel e ops ∧ FinalFuel fuel e ops :=
  ⟨fuelOK_of_W_all fuel ops e hi hv (by omega), finalFuel_of_W_all fuel ops e hi hv (by omega)⟩

/-- **`FuelOK` / `FinalFuel` of every go.mod session from `file.length + Σ rawSize` alone** -/
theorem fuelOK_of_length (name file : Bytes) (f : Modfile.File) (ops : List EditSpec.Op) (fuel : Nat)
    (hp : Modfile.parseStrict name file none = .ok f) (hk : Modfile.Edit.WellFormedKeys f) (hs : Modfile.Edit.NoBlockSuffix f.syn)
    (hv : Modfile.Edit.StaticValid false (ops.map opM)) (hf : 3 * sessLen file ops + 13 ≤ fuel) :
    FuelOK fuel (Modfile.Edit.load f) ops ∧ FinalFuel fuel (Modfile.Edit.load f) ops := by
  have hi := Modfile.Edit.P.Inv.ofFull (Modfile.Edit.parseStrict_inv hp hk hs)
  have hl := Modfile.Edit.StaticValid.runValidLive _ false (Modfile.Edit.load f) hv (fun hc => by cases hc)
  have h1 := sessSizeR_le name file f ops hp
  have h2 := sessSize_le f ops
  exact fuelOK_of_state fuel ops _ hi hl (by unfold sessSize at h2; omega)

/-- `runOps_tie_valid` with the byte-length hypothesis only, every operation -/
theorem runOps_tie_closed_length (name file : Bytes) (f : Modfile.File) (ops : List EditSpec.Op) (fuel : Nat)
    (hp : Modfile.parseStrict name file none = .ok f) (hk : Modfile.Edit.WellFormedKeys f) (hs : Modfile.Edit.NoBlockSuffix f.syn)
    (hv : Modfile.Edit.StaticValid false (ops.map opM)) (hm : ∀ op ∈ ops.map opM, Modfile.Edit.IsModOp op)
    (hf : 3 * sessLen file ops + 13 ≤ fuel) :
    ∃ e' res h', Modfile.Edit.runOps applyMod (Modfile.Edit.load f) (ops.map opM) [] 0 = .done e' res ∧
      Drv.GenEdit.runOps fuel (Drv.GenEdit.load f).2 (Drv.GenEdit.load f).1 ops [] = .done h' res ∧
      RepF h' (Drv.GenEdit.load f).2 e' ∧ Modfile.Edit.P.Inv e' :=
  runOps_tie_valid fuel _ ops _ _ (FnEditTree.load_parsed_rep hp)
    (Modfile.Edit.P.Inv.ofFull (Modfile.Edit.parseStrict_inv hp hk hs))
    (Modfile.Edit.StaticValid.runValidLive _ false _ hv (fun hc => by cases hc)) hm
    (fuelOK_of_length name file f ops fuel hp hk hs hv hf).1

/-- **C15 `nilDeref_unreachable` on the regenerated operations, closed fuel, every operation** -/
theorem nilDeref_unreachable_gen_closed (name data : Bytes) (f : Modfile.File) (ops : List EditSpec.Op) (fuel : Nat)
    (hf : parseToFile name data none true = .ok f) (hk : Modfile.Edit.WellFormedKeys f) (hs : Modfile.Edit.NoBlockSuffix f.syn)
    (hv : Modfile.Edit.StaticValid false (ops.map opM)) (hmod : ∀ op ∈ ops.map opM, Modfile.Edit.IsModOp op)
    (hfu : 3 * sessLen data ops + 13 ≤ fuel) :
    ∃ h' res, Drv.GenEdit.runOps fuel (Drv.GenEdit.load f).2 (Drv.GenEdit.load f).1 ops [] = .done h' res ∧
      (∀ (pre : List EditSpec.Op) (op : EditSpec.Op) (post : List EditSpec.Op), ops = pre ++ op :: post →
        ∃ h1 r1, Drv.GenEdit.runOps fuel (Drv.GenEdit.load f).2 (Drv.GenEdit.load f).1 pre [] = .done h1 r1 ∧
          applyOp fuel (Drv.GenEdit.load f).2 h1 op ≠ .error .panic ∧
          ∃ b h2, applyOp fuel (Drv.GenEdit.load f).2 h1 op = .ok (some b, h2)) ∧
      (∃ e', Modfile.Edit.runOps applyMod (Modfile.Edit.load f) (ops.map opM) [] 0 = .done e' res) ∧
      ∃ h'' e'', File_Cleanup fuel (Drv.GenEdit.load f).2 h' = .ok ((), h'') ∧ RepF h'' (Drv.GenEdit.load f).2 e'' ∧
        Modfile.Edit.P.Inv e'' :=
  have F := fuelOK_of_length name data f ops fuel hf hk hs hv hfu
  FnEditC15.nilDeref_unreachable_gen name data f ops fuel hf hk hs hv hmod F.1 F.2

/-- **C15 `typed_eq_tree` (partial 4, static form) on the regenerated operations, closed fuel, every operation** -/
theorem typed_eq_tree_gen_closed (name data : Bytes) (f : Modfile.File) (ops : List EditSpec.Op) (fuel : Nat) (h' : Heap)
    (res : List Bool) (hf : parseToFile name data none true = .ok f) (hk : Modfile.Edit.WellFormedKeys f)
    (hs : Modfile.Edit.NoBlockSuffix f.syn) (hm : Modfile.Edit.MarkersSettable f.syn.stmts)
    (hv : Modfile.Edit.StaticValid false (ops.map opM)) (hfu : 3 * sessLen data ops + 13 ≤ fuel)
    (hrun : Drv.GenEdit.runOps fuel (Drv.GenEdit.load f).2 (Drv.GenEdit.load f).1 ops [] = .done h' res) :
    ∃ h'' e' e'', Modfile.Edit.runOps applyMod (Modfile.Edit.load f) (ops.map opM) [] 0 = .done e' res ∧
      e'' = Modfile.Edit.cleanup e' ∧
      File_Cleanup fuel (Drv.GenEdit.load f).2 h' = .ok ((), h'') ∧ RepF h'' (Drv.GenEdit.load f).2 e'' ∧
      Modfile.Edit.Inv e'' ∧ Modfile.Edit.MarkersSettable e''.f.syn.stmts ∧
      Drv.GenEdit.fileM h'' (Drv.GenEdit.load f).2 = some (zeroIds e''.f) :=
  have F := fuelOK_of_length name data f ops fuel hf hk hs hv hfu
  FnEditC15.typed_eq_tree_gen name data f ops fuel h' res hf hk hs hm hv F.1 F.2 hrun

/-! ### non-vacuity: a session WITH `SetRequireSeparateIndirect` on the example file of Tie/FnEditSession.lean -/

section examples

/-- the session of Tie/FnEditClosed.lean followed by a Cleanup (the bulk setters are valid after a Cleanup only) and a
    `SetRequireSeparateIndirect` that keeps one requirement (flipping it to
    direct), drops the others and adds a new indirect one -/
def exOps4 : List EditSpec.Op :=
  FnEditClosed.exOps ++
    [.cleanup, .setRequireSeparateIndirect [⟨B "example.com/a", B "v1.6.0", false⟩, ⟨B "example.com/y", B "v0.2.0", true⟩],
     .cleanup]

theorem ex_static4 : Modfile.Edit.StaticValid false (exOps4.map opM) :=
  Modfile.Edit.staticValidB_sound _ _ (by decide +kernel)

/-- the byte-length hypothesis: `|file| = 223`, fuel 300000 suffices -/
theorem ex_length4 : 3 * sessLen exFile exOps4 + 13 ≤ 300000 := by decide +kernel

-- `fuelOK_of_length` on the example
example : ∀ f, Modfile.parseStrict (B "go.mod") exFile none = .ok f →
    FuelOK 300000 (Modfile.Edit.load f) exOps4 ∧ FinalFuel 300000 (Modfile.Edit.load f) exOps4 :=
  fun f hp => fuelOK_of_length (B "go.mod") exFile f exOps4 300000 hp (FnEditSession.ex_keys f hp).1
    (FnEditSession.ex_keys f hp).2 ex_static4 ex_length4

-- the step bound is met with room on the loaded example file: the fuel of the bulk setter against `3·(W + G) + 12`
example : ∀ f, Modfile.parseStrict (B "go.mod") exFile none = .ok f →
    0 < stepFuel (Modfile.Edit.load f) (.setRequireSeparateIndirect [⟨B "example.com/a", B "v1.6.0", false⟩]) :=
  of_parsed exFile (fun f => decide (0 < stepFuel (Modfile.Edit.load f) (.setRequireSeparateIndirect [⟨B "example.com/a", B "v1.6.0", false⟩])))
    (fun f h => of_decide_eq_true h) (by decide +kernel)

-- `nilDeref_unreachable_gen_closed`: the regenerated run (SetRequireSeparateIndirect included) and the final Cleanup complete
example : ∃ f, parseToFile (B "go.mod") exFile none true = .ok f ∧
    ∃ h' res, Drv.GenEdit.runOps 300000 (Drv.GenEdit.load f).2 (Drv.GenEdit.load f).1 exOps4 [] = .done h' res ∧
      ∃ h'' e'', File_Cleanup 300000 (Drv.GenEdit.load f).2 h' = .ok ((), h'') ∧
        RepF h'' (Drv.GenEdit.load f).2 e'' ∧ Modfile.Edit.P.Inv e'' := by
  obtain ⟨f, hf⟩ := FnEditC15.ex_parsed
  obtain ⟨h', res, h1, _, _, h4⟩ := nilDeref_unreachable_gen_closed (B "go.mod") exFile f exOps4 300000 hf
    (FnEditSession.ex_keys f hf).1 (FnEditSession.ex_keys f hf).2 ex_static4 (isModOpB_sound (by decide +kernel)) ex_length4
  exact ⟨f, hf, h', res, h1, h4⟩

end examples

end ModVerif.Tie.FnEditClosed4
