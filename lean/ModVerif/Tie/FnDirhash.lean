/-
  Tie theorem for the dirhash unit: the regenerated `Hash1` (Generated/FnDirhash.lean, re-translated from
  sumdb/dirhash/hash.go on every run) computes exactly the hand model `Dirhash.hash1` (Model/Dirhash.lean), for ALL
  file lists (duplicates, empty names, names with newlines at any position), every `open` function and every fuel
  `≥ files.length + 1`.

  Reading of the parameters of the generated function (see the header of Generated/FnDirhash.lean):
    * the two `sha256.New()` hashers are byte accumulators, `shaSum acc prefix` is `h.Sum(prefix)`; here
      `shaSum := fun acc pre => pre ++ sha acc` for an abstract `sha : Bytes → Bytes`;
    * `b64enc` is `base64.StdEncoding.EncodeToString`; here `Base64.encodeStd`;
    * `open_ name` is the `open` callback whose reader is read to the end: `(content, nil)` or `(_, err)`; here it is
      `(c, none)` when the model's `openF name = some c` and `([], some e)` (any error text `e`) when `openF name = none`.

  Tie theorems only; helper lemmas in Proofs/TieFnDirhash.lean.
-/
import ModVerif.Generated.FnDirhash
import ModVerif.Model.Dirhash
import ModVerif.Proofs.TieFnDirhash
namespace ModVerif.Tie.FnDirhash
open ModVerif ModVerif.GoRt ModVerif.TieFnDirhash

/-- `sort.Strings` of the run-time vocabulary is the model's `sortStrings` (both return THE sorted permutation). -/
theorem sortStrings_tie (l : List Bytes) : GoRt.sortStrings l = Dirhash.sortStrings l := sortStrings_eq l

/-- `%x` of the run-time vocabulary is the model's `hexEnc`. -/
theorem hexBytes_tie (b : Bytes) : GoRt.hexBytes b = Dirhash.hexEnc b := hexBytes_eq b

/-- `strings.Contains(file, "\n")` is the model's `hasNewline`. -/
theorem contains_newline_tie (file : Bytes) : GoRt.contains file [10] = Dirhash.hasNewline file :=
  contains_newline file

/-- ★ `Hash1` = `Dirhash.hash1`: the returned pair `(string, error)` is `(hash, nil)` when the model returns the hash,
    `("", errors.New("dirhash: filenames with newlines are not supported"))` when the model reports `newline`, and
    `("", e)` with the error of `open` when the model reports `openFail`.  No panic, no fuel exhaustion. -/
theorem Hash1_tie (sha : Bytes → Bytes) (files : List Bytes) (openF : Bytes → Option Bytes) (e : String) (fuel : Nat)
    (hf : files.length + 1 ≤ fuel) :
    Generated.Dirhash.Hash1 Base64.encodeStd (fun acc pre => pre ++ sha acc) fuel files
        (fun name => match openF name with
          | some c => (c, none)
          | none => ([], some e))
      = .ok (match Dirhash.hash1 sha files openF with
          | .ok h => (h, none)
          | .error .newline => ([], some "dirhash: filenames with newlines are not supported")
          | .error _ => ([], some e)) := by
  have hlen : (Dirhash.sortStrings files).length < fuel := by
    rw [(Dirhash.sortStrings_perm files).length_eq]; omega
  have hloop := Hash1_loop1_eq Base64.encodeStd sha openF e (Dirhash.sortStrings files) [] [] fuel hlen
  simp only [List.nil_append, List.length_nil] at hloop
  unfold Generated.Dirhash.Hash1
  simp only [emptyBytes, List.nil_append, sortStrings_eq]
  show (Generated.Dirhash.Hash1_loop1 Base64.encodeStd (fun acc pre => pre ++ sha acc) (Dirhash.sortStrings files)
      (openOf openF e) fuel ((0 : Nat) : Int) [] >>= _) = _
  rw [hloop]
  unfold Dirhash.hash1 Dirhash.summary
  cases hs : Dirhash.summaryLoop sha openF (Dirhash.sortStrings files) with
  | error er => cases er <;> simp [loopRes, bind, Except.bind, pure, Except.pure, newlineMsg]
  | ok s => simp [loopRes, bind, Except.bind, pure, Except.pure, Dirhash.h1Prefix]

/-- the same with the named embedding `embed e` of the model's result (`.error .openFail ↦ ("", e)`) -/
theorem Hash1_tie_embed (sha : Bytes → Bytes) (files : List Bytes) (openF : Bytes → Option Bytes) (e : String)
    (fuel : Nat) (hf : files.length + 1 ≤ fuel) :
    Generated.Dirhash.Hash1 Base64.encodeStd (fun acc pre => pre ++ sha acc) fuel files (openOf openF e)
      = .ok (embed e (Dirhash.hash1 sha files openF)) := by
  have h := Hash1_tie sha files openF e fuel hf
  have he : embed e (Dirhash.hash1 sha files openF) = (match Dirhash.hash1 sha files openF with
          | .ok h => (h, none)
          | .error .newline => ([], some "dirhash: filenames with newlines are not supported")
          | .error _ => ([], some e)) := by
    cases Dirhash.hash1 sha files openF with
    | ok h => rfl
    | error er => cases er <;> rfl
  rw [he]; exact h

/-- ★ the same for an ARBITRARY `open` callback (error texts may depend on the name, a failing call may return any
    content): the model's `open` function is `openFOf open_` (the content when the error is nil), and in the error case
    the returned error is `firstErr`: that of the first name, in sorted order, that contains a newline (the fixed text)
    or cannot be opened (the callback's own error).  `Hash1_tie` is the instance with a constant error text. -/
theorem Hash1_tie_anyOpen (sha : Bytes → Bytes) (files : List Bytes) (open_ : Bytes → Bytes × Option String)
    (fuel : Nat) (hf : files.length + 1 ≤ fuel) :
    Generated.Dirhash.Hash1 Base64.encodeStd (fun acc pre => pre ++ sha acc) fuel files open_
      = .ok (match Dirhash.hash1 sha files (openFOf open_) with
          | .ok h => (h, none)
          | .error _ => ([], firstErr open_ (Dirhash.sortStrings files))) := by
  have hlen : (Dirhash.sortStrings files).length < fuel := by
    rw [(Dirhash.sortStrings_perm files).length_eq]; omega
  have hloop := Hash1_loop1_any Base64.encodeStd sha open_ (Dirhash.sortStrings files) [] [] fuel hlen
  simp only [List.nil_append, List.length_nil] at hloop
  unfold Generated.Dirhash.Hash1
  simp only [emptyBytes, List.nil_append, sortStrings_eq]
  show (Generated.Dirhash.Hash1_loop1 Base64.encodeStd (fun acc pre => pre ++ sha acc) (Dirhash.sortStrings files)
      open_ fuel ((0 : Nat) : Int) [] >>= _) = _
  rw [hloop]
  unfold Dirhash.hash1 Dirhash.summary
  cases hs : Dirhash.summaryLoop sha (openFOf open_) (Dirhash.sortStrings files) with
  | error er => simp [loopResAny, bind, Except.bind, pure, Except.pure]
  | ok s => simp [loopResAny, bind, Except.bind, pure, Except.pure, Dirhash.h1Prefix]

/-- in `Hash1_tie_anyOpen` the returned error is non-nil exactly when the model reports an error -/
theorem firstErr_isSome_iff (sha : Bytes → Bytes) (files : List Bytes) (open_ : Bytes → Bytes × Option String) :
    (∃ er, Dirhash.hash1 sha files (openFOf open_) = .error er) ↔
      (firstErr open_ (Dirhash.sortStrings files)).isSome = true := by
  rw [← summaryLoop_error_iff sha open_]
  unfold Dirhash.hash1 Dirhash.summary
  cases hs : Dirhash.summaryLoop sha (openFOf open_) (Dirhash.sortStrings files) with
  | error er => simp
  | ok s => simp

/-- the catch-all branch of `Hash1_tie` is the `openFail` branch: the model's `hash1` reports no other error -/
theorem hash1_error_cases (sha : Bytes → Bytes) (files : List Bytes) (openF : Bytes → Option Bytes)
    (er : Dirhash.Err) (h : Dirhash.hash1 sha files openF = .error er) : er = .newline ∨ er = .openFail :=
  hash1_err sha files openF er h

/-! ### non-vacuity: both sides evaluated on concrete inputs (`sha := id`) -/

/-- two files listed out of order, both readable: the hash -/
example : Generated.Dirhash.Hash1 Base64.encodeStd (fun acc pre => pre ++ id acc) 3 [[98], [97]]
      (fun name => match (fun n => if n = [97] then some [1] else some [2]) name with
        | some c => (c, none) | none => ([], some "E"))
    = .ok (match Dirhash.hash1 id [[98], [97]] (fun n => if n = [97] then some [1] else some [2]) with
        | .ok h => (h, none)
        | .error .newline => ([], some "dirhash: filenames with newlines are not supported")
        | .error _ => ([], some "E")) := by decide

example : Generated.Dirhash.Hash1 Base64.encodeStd (fun acc pre => pre ++ id acc) 3 [[98], [97]]
      (fun name => match (fun n => if n = [97] then some [1] else some [2]) name with
        | some c => (c, none) | none => ([], some "E"))
    = .ok ([104, 49, 58] ++ Base64.encodeStd [48, 49, 32, 32, 97, 10, 48, 50, 32, 32, 98, 10], none) := by decide

/-- a name with a newline (sorted after a readable name): the newline error -/
example : Generated.Dirhash.Hash1 Base64.encodeStd (fun acc pre => pre ++ id acc) 3 [[98, 10], [97]]
      (fun name => match (fun _ => some []) name with | some c => (c, none) | none => ([], some "E"))
    = .ok ([], some "dirhash: filenames with newlines are not supported") := by decide

example : Dirhash.hash1 id [[98, 10], [97]] (fun _ => some []) = .error .newline := by decide

/-- an unreadable file sorted BEFORE a newline name: the error of `open` -/
example : Generated.Dirhash.Hash1 Base64.encodeStd (fun acc pre => pre ++ id acc) 3 [[98, 10], [97]]
      (fun name => match (fun _ => (none : Option Bytes)) name with | some c => (c, none) | none => ([], some "E"))
    = .ok ([], some "E") := by decide

example : Dirhash.hash1 id [[98, 10], [97]] (fun _ => none) = .error .openFail := by decide

/-- `Hash1_tie_anyOpen`: error texts that depend on the name; the first failing name in SORTED order decides -/
example : Generated.Dirhash.Hash1 Base64.encodeStd (fun acc pre => pre ++ id acc) 3 [[98], [97]]
      (fun n => ([7], some (if n = [97] then "Ea" else "Eb")))
    = .ok ([], some "Ea") := by decide

example : (match Dirhash.hash1 id [[98], [97]] (openFOf fun n => ([7], some (if n = [97] then "Ea" else "Eb"))) with
      | .ok h => (h, none)
      | .error _ => ([], firstErr (fun n => ([7], some (if n = [97] then "Ea" else "Eb")))
          (Dirhash.sortStrings [[98], [97]]))) = ([], some "Ea") := by decide

/-- the fuel bound is sharp: with `files.length` units of fuel the loop runs out -/
example : Generated.Dirhash.Hash1 Base64.encodeStd (fun acc pre => pre ++ id acc) 2 [[98], [97]]
      (fun _ => ([], none)) = .error .fuel := by decide

/-- the two sorts on a list with duplicates and an empty name -/
example : GoRt.sortStrings [[98], [], [97, 0], [98], [97]] = [[], [97], [97, 0], [98], [98]] ∧
    Dirhash.sortStrings [[98], [], [97, 0], [98], [97]] = [[], [97], [97, 0], [98], [98]] := by decide

end ModVerif.Tie.FnDirhash
