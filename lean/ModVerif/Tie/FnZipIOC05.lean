/-
  C05 transported to the regenerated code: the theorems of Props/C05.lean that are about `Zip.create` (hand model,
  Model/Zip.lean) restated about `Generated.Zip.Create` (Generated/FnZip.lean, re-translated from zip/zip.go on every
  run; archive/zip's writer as the threaded world `GoRt.ZipW` of Basic/GoRtZipIO.lean) through the tie theorem
  `Create_tie` (Tie/FnZipIOCreate.lean), and — for the file check — about `Generated.Zip.checkFiles` /
  `Generated.Zip.CheckedFiles_Err` through `checkFiles_tie` / `CheckedFiles_Err_tie`.

  "Creation succeeds" is `Create … [] = .ok (none, w)`: no panic, no fuel exhaustion, nil error, `w` = the entries
  (name, content) the writer received, in order.  `entriesOfW w` reads them back as archive entries whose declared size
  is the length of their content (what archive/zip's writer records; the driver `Drv/GenZipIO.lean` does the same).

  `create_checkZip_gen` / `create_unzip_gen`: the archive written by the REGENERATED `Create` passes the zip check and
  extracts to exactly the valid files — the check and the extraction are still the hand model's `Zip.checkZip` /
  `Zip.unzip` here (their ties, `checkZip_tie` / `Unzip_tie`, are another unit: Tie/FnZipIOUnzip.lean).
  Corollaries only — nothing here is used by another module.
-/
import ModVerif.Tie.FnZipIOCreate
import ModVerif.Tie.FnZipC17
import ModVerif.Props.C05
namespace ModVerif.Tie.FnZipIOC05
open ModVerif ModVerif.TieFnZip ModVerif.TieFnZipCf ModVerif.TieFnZipIOCreate
open ModVerif.GoRt (ZipW M)
open ModVerif.PathClean ModVerif.Zip ModVerif.ZipSpec
open ModVerif.Drv.GenZip (toGFile simpleFoldI versionCompareI)
open ModVerif.Tie.FnZipC17 (Inst)

/-- the entries the writer received, as archive entries (declared size = length of the content) -/
def entriesOfW (w : ZipW) : List Entry := w.map fun e => ⟨e.1, e.2.length, e.2⟩

theorem entriesOfW_entryPair (es : List Entry) (h : ∀ e ∈ es, e.declSize = e.content.length) :
    entriesOfW (es.map entryPair) = es := by
  unfold entriesOfW
  rw [List.map_map]
  conv => rhs; rw [← List.map_id es]
  apply List.map_congr_left
  intro e he
  have := h e he
  cases e
  simp only [Function.comp, entryPair, id] at this ⊢
  rw [this]

section
variable (E : Env) (canonicalVersion : Bytes → Bytes) (equalFold : Bytes → Bytes → Bool)
  (moduleCheck : Bytes → Bytes → Option String) (parseGoVers : Bytes → Bytes → Bytes) (simpleFold : Int → Int)
  (toLower : Bytes → Bytes) (versionCompare : Bytes → Bytes → Int) (versionLang : Bytes → Bytes) (K : Nat)

/-- the generated `Create` on the translated list, from the empty writer world -/
abbrev genCreate (fuel : Nat) (p v : Bytes) (files : List FileInfo) : M (Option String × ZipW) :=
  Generated.Zip.Create canonicalVersion (cfpOf E) equalFold moduleCheck parseGoVers simpleFold toLower versionCompare
    versionLang fuel () { Path := p, Version := v } (files.map toGFile) []

/-- the generated `checkFiles` on the translated list -/
abbrev genCheckFiles (fuel : Nat) (files : List FileInfo) :
    M (Generated.Zip.CheckedFiles × List Generated.Zip.File × List Int) :=
  Generated.Zip.checkFiles (cfpOf E) equalFold parseGoVers simpleFold toLower versionCompare versionLang fuel
    (files.map toGFile)

/-- the regenerated `Create` succeeds with world `w` exactly when the model creates the entries `entriesOfW w`
    (and then `w` is those entries as pairs) -/
theorem genCreate_ok_iff (I : Inst E equalFold simpleFold toLower K) (p v : Bytes)
    (hmod : (canonicalVersion v = v ∧ moduleCheck p v = none) ↔ E.modOK p v = true) (files : List FileInfo)
    (hv : decide (0 ≤ versionCompare (versOf parseGoVers versionLang files) go124) = goVers files)
    (fuel : Nat) (hfuel : fuelBound K files ≤ fuel) (w : ZipW) :
    genCreate E canonicalVersion equalFold moduleCheck parseGoVers simpleFold toLower versionCompare versionLang fuel
        p v files = .ok (none, w) ↔
      (create E p v files = .ok (entriesOfW w) ∧ w = (entriesOfW w).map entryPair) := by
  unfold genCreate
  rw [FnZipIOCreate.Create_tie E canonicalVersion equalFold moduleCheck parseGoVers simpleFold toLower versionCompare
    versionLang K I.foldsTo I.toFold I.equalFold I.toLower p v hmod files hv fuel hfuel]
  constructor
  · intro h
    cases hc : create E p v files with
    | error c => rw [hc] at h; simp [embCreateRes, embCreateErr] at h
    | ok es =>
      have hw : createWorld E p v files = w := by
        injection h with h; exact (Prod.mk.inj h).2
      rw [FnZipIOCreate.createWorld_ok E p v files es hc] at hw
      have he := entriesOfW_entryPair es (FnZipIOCreate.create_declSize E p v files es hc)
      rw [← hw, he]
      exact ⟨rfl, rfl⟩
  · rintro ⟨hc, hw⟩
    rw [hc, FnZipIOCreate.createWorld_ok E p v files _ hc, ← hw]
    rfl

/-- ★ C05 `create_ok_iff_partial` on the regenerated code: for an accepted module path/version and files whose content has
    the size they report, the regenerated `Create` succeeds exactly when the regenerated `checkFiles` returns a report
    whose `Err()` is nil — PARTIAL as the original: under the hypothesis that every valid file's entry name
    `<module>@<version>/<path>` is at most 65535 bytes long (without it: `long_name_finding_gen`). -/
theorem create_ok_iff_partial_gen (I : Inst E equalFold simpleFold toLower K) (p v : Bytes)
    (hmod : (canonicalVersion v = v ∧ moduleCheck p v = none) ↔ E.modOK p v = true) (files : List FileInfo)
    (hv : decide (0 ≤ versionCompare (versOf parseGoVers versionLang files) go124) = goVers files)
    (fuel : Nat) (hfuel : fuelBound K files ≤ fuel)
    (hm : canonicalVersion v = v ∧ moduleCheck p v = none) (hh : HonestFiles files)
    (hlen : ∀ cf vf vs, genCheckFiles E equalFold parseGoVers simpleFold toLower versionCompare versionLang fuel files =
        .ok (cf, vf, vs) → ∀ q ∈ cf.Valid, (zipPrefix p v ++ q).length ≤ 65535) :
    (∃ w, genCreate E canonicalVersion equalFold moduleCheck parseGoVers simpleFold toLower versionCompare versionLang
        fuel p v files = .ok (none, w)) ↔
      (∃ cf vf vs, genCheckFiles E equalFold parseGoVers simpleFold toLower versionCompare versionLang fuel files =
        .ok (cf, vf, vs) ∧ Generated.Zip.CheckedFiles_Err cf = none) := by
  have hcf := FnZipCheckFiles.checkFiles_tie E equalFold parseGoVers simpleFold toLower versionCompare versionLang K
    I.foldsTo I.toFold I.equalFold I.toLower files hv fuel hfuel
  have hlen' : ∀ q ∈ (checkFilesV E files).valid, (zipPrefix p v ++ q).length ≤ 65535 :=
    hlen _ _ _ hcf
  have hmain := Props.C05.create_ok_iff_partial E p v files (hmod.mp hm) hh hlen'
  have herr : (∃ cf vf vs, genCheckFiles E equalFold parseGoVers simpleFold toLower versionCompare versionLang fuel
      files = .ok (cf, vf, vs) ∧ Generated.Zip.CheckedFiles_Err cf = none) ↔ (checkFilesV E files).err = none := by
    unfold genCheckFiles
    rw [hcf]
    constructor
    · rintro ⟨cf, vf, vs, h, he⟩
      injection h with h
      have : cf = embCF (checkFilesSt E files (goVers files)).cf := (Prod.mk.inj h).1.symm
      rw [this, CheckedFiles_Err_eq] at he
      cases hx : (checkFilesSt E files (goVers files)).cf.err with
      | none => exact hx
      | some k => rw [hx] at he; cases he
    · intro h
      refine ⟨_, _, _, rfl, ?_⟩
      rw [CheckedFiles_Err_eq]
      have : (checkFilesSt E files (goVers files)).cf.err = none := h
      rw [this]; rfl
  rw [herr, ← hmain]
  constructor
  · rintro ⟨w, h⟩
    exact ⟨_, ((genCreate_ok_iff E canonicalVersion equalFold moduleCheck parseGoVers simpleFold toLower versionCompare
      versionLang K I p v hmod files hv fuel hfuel w).mp h).1⟩
  · rintro ⟨es, h⟩
    refine ⟨es.map entryPair, ?_⟩
    exact FnZipIOCreate.Create_tie_ok E canonicalVersion equalFold moduleCheck parseGoVers simpleFold toLower
      versionCompare versionLang K I.foldsTo I.toFold I.equalFold I.toLower p v hmod files hv fuel hfuel es h

/-- ★ C05 `create_entries` on the regenerated code: when the regenerated `Create` succeeds, the module was accepted, the
    regenerated file check reported `Valid` with a nil `Err()`, and the writer received exactly the valid files, in that
    order, each under the module prefix and with the content the file yields (byte for byte). -/
theorem create_entries_gen (I : Inst E equalFold simpleFold toLower K) (p v : Bytes)
    (hmod : (canonicalVersion v = v ∧ moduleCheck p v = none) ↔ E.modOK p v = true) (files : List FileInfo)
    (hv : decide (0 ≤ versionCompare (versOf parseGoVers versionLang files) go124) = goVers files)
    (fuel : Nat) (hfuel : fuelBound K files ≤ fuel) (w : ZipW)
    (h : genCreate E canonicalVersion equalFold moduleCheck parseGoVers simpleFold toLower versionCompare versionLang
        fuel p v files = .ok (none, w)) :
    (canonicalVersion v = v ∧ moduleCheck p v = none) ∧
    (∃ cf vf vs, genCheckFiles E equalFold parseGoVers simpleFold toLower versionCompare versionLang fuel files =
        .ok (cf, vf, vs) ∧ Generated.Zip.CheckedFiles_Err cf = none ∧ w.map (·.1) = cf.Valid.map (zipPrefix p v ++ ·)) ∧
    (∀ e ∈ w, ∃ f ∈ files, f.mode = .regular ∧ e.1 = zipPrefix p v ++ f.path ∧ e.2 = f.content) := by
  obtain ⟨hc, hw⟩ := (genCreate_ok_iff E canonicalVersion equalFold moduleCheck parseGoVers simpleFold toLower
    versionCompare versionLang K I p v hmod files hv fuel hfuel w).mp h
  obtain ⟨h1, h2, h3, _, h5⟩ := Props.C05.create_entries E p v files _ hc
  have hcf := FnZipCheckFiles.checkFiles_tie E equalFold parseGoVers simpleFold toLower versionCompare versionLang K
    I.foldsTo I.toFold I.equalFold I.toLower files hv fuel hfuel
  refine ⟨hmod.mpr h1, ⟨_, _, _, hcf, ?_, ?_⟩, ?_⟩
  · rw [CheckedFiles_Err_eq]
    have : (checkFilesSt E files (goVers files)).cf.err = none := h2
    rw [this]; rfl
  · have : w.map (·.1) = (entriesOfW w).map (·.name) := by simp [entriesOfW]
    rw [this, h3]; rfl
  · intro e he
    obtain ⟨f, hf, hr, hn, hcn⟩ := h5 ⟨e.1, e.2.length, e.2⟩ (List.mem_map.mpr ⟨e, he, rfl⟩)
    exact ⟨f, hf, hr, hn, hcn⟩

/-- ★ C05 `create_restrictions` on the regenerated code: every entry the regenerated `Create` writes obeys the documented
    restrictions — its name is the module prefix followed by a clean, relative path that `CheckFilePath` accepts; a last
    path element `go.mod` (any case) is the root `go.mod`; `go.mod` and `LICENSE` respect their size limits; and no two
    entries have the same case-folded path. -/
theorem create_restrictions_gen (I : Inst E equalFold simpleFold toLower K) (p v : Bytes)
    (hmod : (canonicalVersion v = v ∧ moduleCheck p v = none) ↔ E.modOK p v = true) (files : List FileInfo)
    (hv : decide (0 ≤ versionCompare (versOf parseGoVers versionLang files) go124) = goVers files)
    (fuel : Nat) (hfuel : fuelBound K files ≤ fuel) (w : ZipW)
    (h : genCreate E canonicalVersion equalFold moduleCheck parseGoVers simpleFold toLower versionCompare versionLang
        fuel p v files = .ok (none, w)) :
    (∀ e ∈ w, ∃ rel, e.1 = zipPrefix p v ++ rel ∧
        pathClean rel = rel ∧ isAbs rel = false ∧ E.cfp rel = true ∧
        (equalFoldGoMod (lastElem rel) = true → rel = goModName) ∧
        (rel = goModName → e.2.length ≤ MaxGoMod) ∧
        (rel = licenseName → e.2.length ≤ MaxLICENSE)) ∧
    w.Pairwise (fun a b => E.toFold (a.1.drop (zipPrefix p v).length) ≠ E.toFold (b.1.drop (zipPrefix p v).length)) := by
  obtain ⟨hc, hw⟩ := (genCreate_ok_iff E canonicalVersion equalFold moduleCheck parseGoVers simpleFold toLower
    versionCompare versionLang K I p v hmod files hv fuel hfuel w).mp h
  obtain ⟨r1, r2⟩ := Props.C05.create_restrictions E p v files _ hc
  refine ⟨?_, ?_⟩
  · intro e he
    exact r1 ⟨e.1, e.2.length, e.2⟩ (List.mem_map.mpr ⟨e, he, rfl⟩)
  · unfold entriesOfW at r2
    rw [List.pairwise_map] at r2
    exact r2

/-- ★ C05 `create_checkZip` for the archive the regenerated `Create` writes: it passes the zip check (hand model
    `Zip.checkZip`; its tie is another unit) with no invalid entries and no size error, and the check's valid list is
    the list of entry names. -/
theorem create_checkZip_gen (I : Inst E equalFold simpleFold toLower K) (p v : Bytes)
    (hmod : (canonicalVersion v = v ∧ moduleCheck p v = none) ↔ E.modOK p v = true) (files : List FileInfo)
    (hv : decide (0 ≤ versionCompare (versOf parseGoVers versionLang files) go124) = goVers files)
    (fuel : Nat) (hfuel : fuelBound K files ≤ fuel) (w : ZipW) (zipSize : Nat)
    (h : genCreate E canonicalVersion equalFold moduleCheck parseGoVers simpleFold toLower versionCompare versionLang
        fuel p v files = .ok (none, w)) (hz : zipSize ≤ MaxZipFile) :
    ∃ cf, checkZip E p v zipSize (entriesOfW w) = .ok cf ∧ cf.invalid = [] ∧ cf.sizeError = false ∧
      cf.valid = w.map (·.1) ∧ cf.err = none := by
  obtain ⟨hc, _⟩ := (genCreate_ok_iff E canonicalVersion equalFold moduleCheck parseGoVers simpleFold toLower
    versionCompare versionLang K I p v hmod files hv fuel hfuel w).mp h
  obtain ⟨cf, c1, c2, c3, c4, c5⟩ := Props.C05.create_checkZip E p v files _ zipSize hc hz
  refine ⟨cf, c1, c2, c3, ?_, c5⟩
  rw [c4]; simp [entriesOfW]

/-- ★ C05 `create_unzip` for the archive the regenerated `Create` writes: it extracts (hand model `Zip.unzip`; its tie is
    another unit) without error into a missing or empty target directory, and the created files are exactly the written
    entries at their destinations, pairwise distinct, each with its complete content. -/
theorem create_unzip_gen (I : Inst E equalFold simpleFold toLower K) (hEs : CfpSound E.cfp) (dir : Bytes)
    (hdir : dir = [] ∨ pathClean dir = dir ∨ ([46, 46] : Bytes) ∉ splitOn 47 dir) (t : Target)
    (ht : t = .missing ∨ t = .emptyDir) (p v : Bytes)
    (hmod : (canonicalVersion v = v ∧ moduleCheck p v = none) ↔ E.modOK p v = true) (files : List FileInfo)
    (hv : decide (0 ≤ versionCompare (versOf parseGoVers versionLang files) go124) = goVers files)
    (fuel : Nat) (hfuel : fuelBound K files ≤ fuel) (w : ZipW) (zipSize : Nat)
    (h : genCreate E canonicalVersion equalFold moduleCheck parseGoVers simpleFold toLower versionCompare versionLang
        fuel p v files = .ok (none, w)) (hz : zipSize ≤ MaxZipFile) :
    (unzip E dir t p v zipSize (entriesOfW w)).err = none ∧
    (unzip E dir t p v zipSize (entriesOfW w)).effects =
      .mkdirAll dir :: w.flatMap (fun e =>
        [.mkdirAll (pathDir (fpJoin dir (e.1.drop (zipPrefix p v).length))),
         .createExcl (fpJoin dir (e.1.drop (zipPrefix p v).length)) (some e.2)]) ∧
    createdFiles (unzip E dir t p v zipSize (entriesOfW w)).effects =
      w.map (fun e => fpJoin dir (e.1.drop (zipPrefix p v).length)) ∧
    (w.map (fun e => fpJoin dir (e.1.drop (zipPrefix p v).length))).Nodup := by
  obtain ⟨hc, _⟩ := (genCreate_ok_iff E canonicalVersion equalFold moduleCheck parseGoVers simpleFold toLower
    versionCompare versionLang K I p v hmod files hv fuel hfuel w).mp h
  obtain ⟨u1, u2, u3, u4⟩ := Props.C05.create_unzip E hEs dir hdir t ht p v files _ zipSize hc hz
  refine ⟨u1, ?_, ?_, ?_⟩
  · rw [u2]; simp [entriesOfW, List.flatMap_map, dstOf, Zip.fpJoin]
  · rw [u3]; simp [entriesOfW, dstOf, Zip.fpJoin, Function.comp_def]
  · have : (entriesOfW w).map (dstOf dir (zipPrefix p v)) =
        w.map (fun e => Zip.fpJoin dir (e.1.drop (zipPrefix p v).length)) := by
      simp [entriesOfW, dstOf, Function.comp_def]
    rw [this] at u4; exact u4

end

/-! ### the known finding on the regenerated code, and non-vacuity -/

def exEnv : Env := { cfp := fun p => !p.isEmpty, toFold := Zip.strToFold, modOK := fun _ _ => true }

/-- the general form of the finding, for the driver's instantiation: a single file that the file check accepts and whose
    entry name is too long for archive/zip -/
theorem long_name_gen (E : Env) (hE : E.toFold = Zip.strToFold) (p v : Bytes) (hm : E.modOK p v = true)
    (fs : List FileInfo) (f : FileInfo) (hfs : fs = [f]) (hg : f.goGe124 = false)
    (a1 : (checkFilesV E fs).err = none) (a2 : (checkFilesV E fs).valid = [f.path])
    (hlong : (zipPrefix p v ++ f.path).length > 65535) :
    (∃ cf vf vs, Generated.Zip.checkFiles (cfpOf E) (fun a _ => equalFoldGoMod a)
        (FnZipCheckFiles.pgvDriver fs) simpleFoldI (fun s => s.map asciiLower) versionCompareI id
        (FnZipCheckFiles.driverFuel fs) (fs.map toGFile) =
        .ok (cf, vf, vs) ∧ Generated.Zip.CheckedFiles_Err cf = none ∧ cf.Valid = [f.path]) ∧
    Generated.Zip.Create id (cfpOf E) (fun a _ => equalFoldGoMod a)
        (fun p v => if (fun _ _ => true) p v then none else some "badmodule")
        (FnZipCheckFiles.pgvDriver fs) simpleFoldI (fun s => s.map asciiLower) versionCompareI id
        (FnZipCheckFiles.driverFuel fs) () { Path := p, Version := v } (fs.map toGFile) [] =
      .ok (some "zipError|zip: FileHeader.Name too long", []) := by
  have ecf : checkFilesV E fs = (checkFilesSt E fs (goVers fs)).cf := rfl
  rw [ecf] at a1 a2
  have hcons : ∀ f ∈ fs, f.mode = .regular → f.path = goModName → f.goGe124 = false →
      ∀ g ∈ fs, g.content = f.content → g.goGe124 = false := by
    intro f' _ _ _ _ g hgm _
    rw [hfs] at hgm
    rw [List.mem_singleton.mp hgm]; exact hg
  refine ⟨?_, ?_⟩
  · have hcf := FnZipCheckFiles.checkFiles_tie_driver E hE (fun a _ => equalFoldGoMod a) (fun _ => rfl) fs hcons
    refine ⟨_, _, _, hcf, ?_, a2⟩
    rw [CheckedFiles_Err_eq, a1]; rfl
  · have hcr := FnZipIOCreate.Create_tie_driver E hE (fun a _ => equalFoldGoMod a) (fun _ => rfl) id
      (fun _ _ => true) p v (by simp [hm]) fs hcons
    rw [hcr]
    obtain ⟨hv1, hv2⟩ := Proofs.Zip.checkFilesSt_validFiles E (goVers fs) fs
    rw [a2] at hv2
    have hvf : (checkFilesSt E fs (goVers fs)).validFiles = [f] := by
      generalize (checkFilesSt E fs (goVers fs)).validFiles = vf at hv1 hv2
      match vf, hv1, hv2 with
      | [], _, h => cases h
      | [g], hv1, _ =>
        have := (hv1 g List.mem_cons_self).1
        rw [hfs] at this
        rw [List.mem_singleton.mp this]
      | _ :: _ :: _, _, h => simp at h
    have hcw : createWorld E p v fs = [] := by
      unfold createWorld
      rw [a1, hvf]
      simp only [hm, Bool.not_true, Bool.false_eq_true, if_false]
      unfold writtenW
      rw [if_pos hlong]
    have hc : create E p v fs = .error .nameTooLong := by
      rw [Proofs.Zip.create_eq, a1, hvf]
      simp only [hm, Bool.not_true, Bool.false_eq_true, if_false]
      unfold addFiles
      rw [if_pos hlong]
    rw [hcw, hc]
    rfl

/-- 65515 × `a` -/
def longPath : Bytes := List.replicate 65515 97

/-- the single regular file `aaa…` with content `x` (honest size) -/
def longFile : FileInfo := ⟨longPath, .regular, 1, [120], false⟩

/-- **Known finding (entry names longer than 65535 bytes) on the regenerated code.**  For the module
    `example.com/m@v1.0.0` and the single regular file whose path is 65515 × `a` (content `x`, honest size), with the
    driver's instantiation: the regenerated `checkFiles` reports the file valid with a nil `Err()` — and the regenerated
    `Create` fails with archive/zip's `zip: FileHeader.Name too long` (nothing written).  So `create_ok_iff_partial_gen`
    without its hypothesis on the name length is false.  (Through the tie: nothing is evaluated over the 65 kB path.) -/
theorem long_name_finding_gen :
    HonestFiles [longFile] ∧
    (∃ cf vf vs, Generated.Zip.checkFiles (cfpOf exEnv) (fun a _ => equalFoldGoMod a)
        (FnZipCheckFiles.pgvDriver [longFile]) simpleFoldI (fun s => s.map asciiLower) versionCompareI id
        (FnZipCheckFiles.driverFuel [longFile]) ([longFile].map toGFile) =
        .ok (cf, vf, vs) ∧ Generated.Zip.CheckedFiles_Err cf = none ∧ cf.Valid = [longFile.path]) ∧
    Generated.Zip.Create id (cfpOf exEnv) (fun a _ => equalFoldGoMod a)
        (fun p v => if (fun _ _ => true) p v then none else some "badmodule")
        (FnZipCheckFiles.pgvDriver [longFile]) simpleFoldI (fun s => s.map asciiLower) versionCompareI id
        (FnZipCheckFiles.driverFuel [longFile]) () { Path := B "example.com/m", Version := B "v1.0.0" }
        ([longFile].map toGFile) [] =
      .ok (some "zipError|zip: FileHeader.Name too long", []) := by
  have hns : (47 : UInt8) ∉ longPath := by
    unfold longPath
    intro h; have := (List.mem_replicate.mp h).2; exact absurd this (by decide)
  have hlp : longPath.length = 65515 := by unfold longPath; rw [List.length_replicate]
  have hlen : 20 < longPath.length := by rw [hlp]; decide
  have hvd : isPrefixOfB vendorSlash longPath = false := by
    show isPrefixOfB vendorSlash (List.replicate (65514 + 1) (97 : UInt8)) = false
    rw [List.replicate_succ]; rfl
  have hcfp : exEnv.cfp longPath = true := by
    show (!(List.replicate (65514 + 1) (97 : UInt8)).isEmpty) = true
    rw [List.replicate_succ]; rfl
  have h1 : (B "example.com/m").length = 13 := by decide +kernel
  have h2 : (B "v1.0.0").length = 6 := by decide +kernel
  have hlong : (zipPrefix (B "example.com/m") (B "v1.0.0") ++ longPath).length > 65535 := by
    simp only [zipPrefix, List.length_append, hlp, h1, h2, List.length_cons, List.length_nil]
    decide
  have hfs : (⟨longPath, .regular, (([120] : Bytes).length : Int), [120], false⟩ : FileInfo) = longFile := rfl
  have hnt := Proofs.ZipA.create_nameTooLong exEnv (B "example.com/m") (B "v1.0.0")
    longPath [120] rfl hns hlen hvd hcfp (by unfold MaxZipFile; simp) hlong
  rw [hfs] at hnt
  obtain ⟨a1, a2, a3, _⟩ := hnt
  exact ⟨a3, long_name_gen exEnv rfl (B "example.com/m") (B "v1.0.0") rfl [longFile] longFile rfl rfl a1 a2 hlong⟩

/-! ### non-vacuity of the corollaries: the driver's instantiation on a small module -/

/-- the driver's instantiation satisfies `Inst` -/
theorem inst_driver : Inst exEnv (fun a _ => equalFoldGoMod a) simpleFoldI (fun s => s.map asciiLower) 1 :=
  ⟨FnZip.foldsTo_simpleFoldI, rfl, fun _ => rfl, FnZipCheckFiles.toLower_driver⟩

/-- the hypotheses of the corollaries hold on the example of Tie/FnZipIOCreate.lean, and the regenerated `Create`
    succeeds there with two entries (evaluated by the kernel) -/
example :
    ((id (B "v1") = B "v1" ∧ (fun _ _ => (none : Option String)) (B "m") (B "v1") = none) ↔
      exEnv.modOK (B "m") (B "v1") = true) ∧
    decide (0 ≤ versionCompareI (versOf (FnZipCheckFiles.pgvDriver FnZipIOCreate.exFiles) id FnZipIOCreate.exFiles) go124) =
      goVers FnZipIOCreate.exFiles ∧
    fuelBound 1 FnZipIOCreate.exFiles ≤ FnZipCheckFiles.driverFuel FnZipIOCreate.exFiles ∧
    HonestFiles FnZipIOCreate.exFiles ∧
    genCreate exEnv id (fun a _ => equalFoldGoMod a) (fun _ _ => none) (FnZipCheckFiles.pgvDriver FnZipIOCreate.exFiles)
        simpleFoldI (fun s => s.map asciiLower) versionCompareI id (FnZipCheckFiles.driverFuel FnZipIOCreate.exFiles)
        (B "m") (B "v1") FnZipIOCreate.exFiles =
      .ok (none, [(B "m@v1/go.mod", B "hi"), (B "m@v1/a/b.go", B "x")]) := by
  refine ⟨by simp [exEnv], by decide +kernel, by decide +kernel, ?_, by decide +kernel⟩
  intro f hf _
  simp [FnZipIOCreate.exFiles] at hf
  rcases hf with rfl | rfl | rfl | rfl | rfl | rfl <;> decide +kernel

end ModVerif.Tie.FnZipIOC05
