/-
  Tie: facts regenerated from /repo's working tree by harness/cmd/extract (extra_tlog.go) equal the
  texts and constants the hand-written tlog / tile / note models were written against.
  An edit to a guard, a loop bound, a loop start (`i := nstx`), a domain-separation prefix or a
  constant of sumdb/tlog changes the regenerated definition and the corresponding theorem here fails.
-/
import ModVerif.Model.Tlog
import ModVerif.Model.TlogNote
import ModVerif.Model.Tile
import ModVerif.Drv.TlogUtil
import ModVerif.Generated.Facts
namespace ModVerif.Tie.Tlog
open ModVerif

theorem hashSize_tie : Generated.tlog_HashSize = Tlog.HashSize := rfl

theorem pathBase_tie : Generated.tile_pathBase = Tile.pathBase := rfl

theorem treePrefix_tie : Generated.tlog_treePrefix = TlogNote.treePrefix := by decide +kernel

/-- the driver's hash instance uses the code's domain-separation prefixes -/
theorem leafPrefix_tie : ∀ d, Drv.TlogUtil.leafH d = Sha256.sha256 (UInt8.ofNat Generated.tlog_leafPrefix :: d) := fun _ => rfl

theorem nodePrefix_tie : ∀ a b, Drv.TlogUtil.nodeH a b = Sha256.sha256 (UInt8.ofNat Generated.tlog_nodePrefix :: (a ++ b)) := fun _ _ => rfl

/-- `emptyHash` in tlog.go is SHA-256 of the empty string, which is what the driver passes as `emptyHash` -/
theorem emptyHash_tie : Generated.tlog_emptyHash = Drv.TlogUtil.emptyH := by decide +kernel

theorem tlog_headers_maxpow2_tie : Generated.tlog_headers_maxpow2 = [
  "for ; l < 62 && 1<<uint(l+1) < n; "] := by decide

theorem tlog_headers_StoredHashIndex_tie : Generated.tlog_headers_StoredHashIndex = [
  "for l := level; l > 0; l--",
  "for ; n > 0; n >>= 1"] := by decide

theorem tlog_headers_SplitStoredHashIndex_tie : Generated.tlog_headers_SplitStoredHashIndex = [
  "if indexN > index",
  "for ; ; ",
  "if x > index"] := by decide

theorem tlog_headers_StoredHashCount_tie : Generated.tlog_headers_StoredHashCount = [
  "if n == 0",
  "for i := uint64(n - 1); i&1 != 0; i >>= 1"] := by decide

theorem tlog_headers_StoredHashesForRecordHash_tie : Generated.tlog_headers_StoredHashesForRecordHash = [
  "for i := 0; i < m; i++",
  "if err != nil",
  "if len(old) != len(indexes)",
  "for i := 0; i < m; i++"] := by decide

theorem tlog_headers_TreeHash_tie : Generated.tlog_headers_TreeHash = [
  "if n == 0",
  "if err != nil",
  "if len(hashes) != len(indexes)",
  "if len(hashes) != 0"] := by decide

theorem tlog_headers_subTreeIndex_tie : Generated.tlog_headers_subTreeIndex = [
  "for ; lo < hi; ",
  "if lo&(k-1) != 0"] := by decide

theorem tlog_headers_subTreeHash_tie : Generated.tlog_headers_subTreeHash = [
  "for ; lo < hi; ",
  "if lo&(k-1) != 0 || lo >= hi",
  "if len(hashes) < numTree",
  "for i := numTree - 2; i >= 0; i--"] := by decide

theorem tlog_headers_ProveRecord_tie : Generated.tlog_headers_ProveRecord = [
  "if t < 0 || n < 0 || n >= t",
  "if len(indexes) == 0",
  "if err != nil",
  "if len(hashes) != len(indexes)",
  "if len(hashes) != 0"] := by decide

theorem tlog_headers_leafProofIndex_tie : Generated.tlog_headers_leafProofIndex = [
  "if !(lo <= n && n < hi)",
  "if lo+1 == hi",
  "if k, _ := maxpow2(hi - lo); n < lo+k"] := by decide

theorem tlog_headers_leafProof_tie : Generated.tlog_headers_leafProof = [
  "if !(lo <= n && n < hi)",
  "if lo+1 == hi",
  "if k, _ := maxpow2(hi - lo); n < lo+k"] := by decide

theorem tlog_headers_CheckRecord_tie : Generated.tlog_headers_CheckRecord = [
  "if t < 0 || n < 0 || n >= t",
  "if err != nil",
  "if th2 == th"] := by decide

theorem tlog_headers_runRecordProof_tie : Generated.tlog_headers_runRecordProof = [
  "if !(lo <= n && n < hi)",
  "if lo+1 == hi",
  "if len(p) != 0",
  "if len(p) == 0",
  "if n < lo+k",
  "if err != nil",
  "if err != nil"] := by decide

theorem tlog_headers_ProveTree_tie : Generated.tlog_headers_ProveTree = [
  "if t < 1 || n < 1 || n > t",
  "if len(indexes) == 0",
  "if err != nil",
  "if len(hashes) != len(indexes)",
  "if len(hashes) != 0"] := by decide

theorem tlog_headers_treeProofIndex_tie : Generated.tlog_headers_treeProofIndex = [
  "if !(lo < n && n <= hi)",
  "if n == hi",
  "if lo == 0",
  "if k, _ := maxpow2(hi - lo); n <= lo+k"] := by decide

theorem tlog_headers_treeProof_tie : Generated.tlog_headers_treeProof = [
  "if !(lo < n && n <= hi)",
  "if n == hi",
  "if lo == 0",
  "if k, _ := maxpow2(hi - lo); n <= lo+k"] := by decide

theorem tlog_headers_CheckTree_tie : Generated.tlog_headers_CheckTree = [
  "if t < 1 || n < 1 || n > t",
  "if err != nil",
  "if th2 == th && h2 == h"] := by decide

theorem tlog_headers_runTreeProof_tie : Generated.tlog_headers_runTreeProof = [
  "if !(lo < n && n <= hi)",
  "if n == hi",
  "if lo == 0",
  "if len(p) != 0",
  "if len(p) != 1",
  "if len(p) == 0",
  "if n <= lo+k",
  "if err != nil",
  "if err != nil"] := by decide

theorem tlog_headers_HashFromTile_tie : Generated.tlog_headers_HashFromTile = [
  "if t.H < 1 || t.H > 30 || t.L < 0 || t.L >= 64 || t.W < 1 || t.W > 1<<uint(t.H)",
  "if len(data) < t.W*HashSize",
  "if t.L != t1.L || t.N != t1.N || t.W < t1.W"] := by decide

theorem tlog_headers_tileHash_tie : Generated.tlog_headers_tileHash = [
  "if len(data) == 0",
  "if len(data) == HashSize"] := by decide

theorem tlog_headers_NewTiles_tie : Generated.tlog_headers_NewTiles = [
  "if h <= 0",
  "for level := uint(0); newTreeSize>>(H*level) > 0; level++",
  "if oldN == newN",
  "for n := oldN >> H; n < newN>>H; n++",
  "if w := int(newN - n<<H); w > 0"] := by decide

theorem tlog_headers_ReadTileData_tie : Generated.tlog_headers_ReadTileData = [
  "if size == 0",
  "for i := 0; i < size; i++",
  "if err != nil",
  "if len(hashes) != len(indexes)",
  "for i := 0; i < size; i++"] := by decide

theorem tlog_headers_Path_tie : Generated.tlog_headers_Path = [
  "for ; n >= pathBase; ",
  "if t.W != 1<<uint(t.H)",
  "if t.L == -1"] := by decide

theorem tlog_headers_ParseTilePath_tie : Generated.tlog_headers_ParseTilePath = [
  "if len(f) < 4 || f[0] != \"tile\"",
  "if f[2] == \"data\"",
  "if err1 != nil || err2 != nil || h < 1 || l < 0 || h > 30",
  "if dotP := f[len(f)-2]; strings.HasSuffix(dotP, \".p\")",
  "if err != nil || ww <= 0 || ww >= w",
  "range f",
  "if err != nil || nn < 0 || nn >= pathBase",
  "if isData",
  "if path != t.Path()"] := by decide

theorem tlog_headers_tileParent_tie : Generated.tlog_headers_tileParent = [
  "if max := n >> uint(t.L*t.H); t.N<<uint(t.H)+int64(t.W) >= max",
  "if t.N<<uint(t.H) >= max"] := by decide

theorem tlog_headers_ReadHashes_tie : Generated.tlog_headers_ReadHashes = [
  "range stx",
  "if j, ok := tileOrder[tile]; ok",
  "range indexes",
  "if x >= StoredHashIndex(0, r.tree.N)",
  "for ; ; k++",
  "if j, ok := tileOrder[p]; ok",
  "if k == 0",
  "for k--; k >= 0; k--",
  "if p.W != 1<<uint(p.H)",
  "if k == 0",
  "if len(stx) == 0",
  "if err != nil",
  "if len(data) != len(tiles)",
  "range tiles",
  "if len(data[i]) != tile.W*HashSize",
  "if err != nil",
  "for i := len(stx) - 2; i >= 0; i--",
  "if err != nil",
  "if th != r.tree.Hash",
  "for i := nstx; i < len(tiles); i++",
  "if !ok",
  "if err != nil",
  "if h != tileHash(data[i])",
  "range indexes",
  "if err != nil"] := by decide

theorem tlog_headers_ParseTree_tie : Generated.tlog_headers_ParseTree = [
  "if !bytes.HasPrefix(text, treePrefix) || bytes.Count(text, []byte(\"\\n\")) < 3 || len(text) > 1e6",
  "if err != nil || n < 0 || lines[1] != strconv.FormatInt(n, 10)",
  "if err != nil || len(h) != HashSize"] := by decide

theorem tlog_headers_isValidRecordText_tie : Generated.tlog_headers_isValidRecordText = [
  "for i := 0; i < len(text); ",
  "if r < 0x20 && r != '\\n' || r == utf8.RuneError && size == 1 || last == '\\n' && r == '\\n'",
  "if last != '\\n'"] := by decide

theorem tlog_headers_ParseRecord_tie : Generated.tlog_headers_ParseRecord = [
  "if i < 0",
  "if err != nil",
  "if i < 0",
  "if !isValidRecordText(text)"] := by decide

theorem tlog_stmts_tileForIndex_tie : Generated.tlog_stmts_tileForIndex = [
  "level, n := SplitStoredHashIndex(index)",
  "t.H = h",
  "t.L = level / h",
  "level -= t.L * h",
  "t.N = n << uint(level) >> uint(t.H)",
  "n -= t.N << uint(t.H) >> uint(level)",
  "t.W = int((n + 1) << uint(level))",
  "return t, int(n<<uint(level)) * HashSize, int((n+1)<<uint(level)) * HashSize"] := by decide

end ModVerif.Tie.Tlog
