/-
  Tie, CLOSED FUEL of the go.mod edit sessions, third part (agent edit-fuel3): the fuel hypotheses of the session ties from
  the BYTE LENGTH of the file text and the byte lengths of the operation arguments alone.

  Tie/FnEditClosed2.lean has `3 · sessSizeR f ops + 1 ≤ fuel` with `sessSizeR f ops = W (Edit.load f) + Σ (20·rawSize op + 32)`
  and `treeW (parse name data).stmts ≤ 4·|data| + 1`.  Here the step through the directive layer and `Edit.load`:

    * `file_add_growth` : one `File.add` step (strict; no fixer, or the identity fixer `File.add` uses for `retract`) maps the
         arguments to arguments of weight `≤ 16 · tokW args + 80` (tokens are rewritten only to `AutoQuote (unquote tok)`,
         `≤ 16·|tok| + 2`, or to the canonical version of the unquoted token, `≤ 4·|tok| + 17`; at most four per line) and
         adds at most `4 · tokW args + 1` to the typed part `fileP` of the potential (ONE typed entry per line at most;
         a recorded go version / module path is `≤ 4·|tok|`);
    * `parseStrict_growth` : `treeW f.syn.stmts + fileP f ≤ 102 · treeW (parse name data).stmts`;
    * `treeW_load` : `Edit.load` (`shiftSyntax`) renumbers ids only — the tree weight is unchanged; `W_load`;
    * `W_load_le` : `parseStrict name file none = .ok f → W (Edit.load f) ≤ 408 · |file| + 102`;
    * `fuelOK_of_length_partial`, `runOps_tie_closed_length_partial` : `3 · sessLen file ops + 1 ≤ fuel`,
         `sessLen file ops = 408·|file| + 102 + Σ_ops (20 · rawSize op + 32)` — no parsed object in the hypothesis.

  `…_partial`: `SetRequireSeparateIndirect` is still excluded (`NotSep`); see lean/PENDING.md, "FnEdit — edit-fuel3".
-/
import ModVerif.Tie.FnEditClosed2
import ModVerif.Proofs.TieFnEditFuelI
import ModVerif.Proofs.TieFnEditFuelJ
set_option linter.unusedSimpArgs false
set_option linter.unusedVariables false
namespace ModVerif.Tie.FnEditClosed3
open ModVerif ModVerif.GoRt ModVerif.Generated.Edit ModVerif.Tie.FnEditRep
open ModVerif.Tie.FnEditFuelA ModVerif.Tie.FnEditFuelB ModVerif.Tie.FnEditFuelC ModVerif.Tie.FnEditFuelD ModVerif.Tie.FnEditFuelE
open ModVerif.Tie.FnEditFuelF ModVerif.Tie.FnEditFuelG ModVerif.Tie.FnEditFuelI
open ModVerif.Tie.FnEditSessionA ModVerif.Tie.FnEditSessionB ModVerif.Tie.FnEditSessionC ModVerif.Tie.FnEditSessionE
open ModVerif.Tie.FnEditSession ModVerif.Tie.FnEditClosed ModVerif.Tie.FnEditClosed2
open ModVerif.Modfile.Edit (EFile applyMod)

/-- **growth of one `File.add` step** (every verb; strict; `fix = none` or the identity fixer): rewritten arguments
    `≤ 16 · tokW args + 80`, typed part of the potential `+ ≤ 4 · tokW args + 1` -/
theorem file_add_growth (st : Modfile.AddState) (block : Option Modfile.Comments) (line : Modfile.Line) (verb : Bytes)
    (args : List Bytes) (fix : Option Modfile.Fixer) (hfix : fix = none ∨ fix = some Modfile.dontFixRetract) :
    tokW (Modfile.File.add st block line verb args fix true).2 ≤ 16 * tokW args + 80 ∧
      fileP (Modfile.File.add st block line verb args fix true).1.file ≤ fileP st.file + 4 * tokW args + 1 :=
  add_growth st block line verb args hfix

-- a `replace` line with an old version: three tokens are rewritten (unquoted path, canonical versions stay)
example : (Modfile.File.add {} none {} (B "replace") [B "\"a.b/c\"", B "v1.0.0", B "=>", B "\"d.e/f\"", B "v1.2.3"] none true).2 =
    [B "a.b/c", B "v1.0.0", B "=>", B "d.e/f", B "v1.2.3"] := by decide +kernel

/-- **the typed file of a strict parse (tree + typed lists + go version + module path) weighs at most 102 times the parsed tree** -/
theorem parseStrict_growth (name data : Bytes) (f : Modfile.File) (h : Modfile.parseStrict name data none = .ok f) :
    ∃ fs, Modfile.parse name data = .ok fs ∧ treeW f.syn.stmts + fileP f ≤ 102 * treeW fs.stmts :=
  FnEditFuelJ.parseStrict_growth h

/-- **`Edit.load` keeps the tree weight** (`shiftSyntax` changes ids only) -/
theorem treeW_load (f : Modfile.File) : treeW (Modfile.Edit.load f).f.syn.stmts = treeW f.syn.stmts :=
  FnEditFuelJ.shiftSyntax_treeW f.syn

/-- the potential of the loaded file: the tree weight plus the typed part of the parsed file -/
theorem W_load (f : Modfile.File) : W (Modfile.Edit.load f) = treeW f.syn.stmts + fileP f := FnEditFuelJ.W_load f

/-- **the potential of the loaded file is linear in the byte length of the file text** -/
theorem W_load_le (name file : Bytes) (f : Modfile.File) (h : Modfile.parseStrict name file none = .ok f) :
    W (Modfile.Edit.load f) ≤ 408 * file.length + 102 := FnEditFuelJ.W_load_le h

-- on the example file (223 bytes): positive, and within the bound
example : ∀ f, Modfile.parseStrict (B "go.mod") exFile none = .ok f →
    0 < W (Modfile.Edit.load f) ∧ W (Modfile.Edit.load f) ≤ 408 * exFile.length + 102 :=
  of_parsed exFile (fun f => decide (0 < W (Modfile.Edit.load f) ∧ W (Modfile.Edit.load f) ≤ 408 * exFile.length + 102))
    (fun f h => of_decide_eq_true h) (by decide +kernel)

/-- **the size of a session from byte lengths alone**: the file text and the operation arguments -/
def sessLen (file : Bytes) (ops : List EditSpec.Op) : Nat := 408 * file.length + 102 + opsR ops

theorem sessSizeR_le (name file : Bytes) (f : Modfile.File) (ops : List EditSpec.Op)
    (hp : Modfile.parseStrict name file none = .ok f) : sessSizeR f ops ≤ sessLen file ops := by
  have := W_load_le name file f hp
  unfold sessSizeR sessLen; omega

/-- **`FuelOK` / `FinalFuel` from `file.length + Σ rawSize` alone.**  Partial: sessions without `SetRequireSeparateIndirect`. -/
theorem fuelOK_of_length_partial (name file : Bytes) (f : Modfile.File) (ops : List EditSpec.Op) (fuel : Nat)
    (hp : Modfile.parseStrict name file none = .ok f) (hk : Modfile.Edit.WellFormedKeys f) (hs : Modfile.Edit.NoBlockSuffix f.syn)
    (hv : Modfile.Edit.StaticValid false (ops.map opM)) (hb : ∀ op ∈ ops, NotSep op)
    (hf : 3 * sessLen file ops + 1 ≤ fuel) :
    FuelOK fuel (Modfile.Edit.load f) ops ∧ FinalFuel fuel (Modfile.Edit.load f) ops :=
  fuelOK_of_rawsize_partial name file f ops fuel hp hk hs hv hb (by have := sessSizeR_le name file f ops hp; omega)

/-- `runOps_tie_valid` with the byte-length hypothesis only -/
theorem runOps_tie_closed_length_partial (name file : Bytes) (f : Modfile.File) (ops : List EditSpec.Op) (fuel : Nat)
    (hp : Modfile.parseStrict name file none = .ok f) (hk : Modfile.Edit.WellFormedKeys f) (hs : Modfile.Edit.NoBlockSuffix f.syn)
    (hv : Modfile.Edit.StaticValid false (ops.map opM)) (hm : ∀ op ∈ ops.map opM, Modfile.Edit.IsModOp op)
    (hb : ∀ op ∈ ops, NotSep op) (hf : 3 * sessLen file ops + 1 ≤ fuel) :
    ∃ e' res h', Modfile.Edit.runOps applyMod (Modfile.Edit.load f) (ops.map opM) [] 0 = .done e' res ∧
      Drv.GenEdit.runOps fuel (Drv.GenEdit.load f).2 (Drv.GenEdit.load f).1 ops [] = .done h' res ∧
      RepF h' (Drv.GenEdit.load f).2 e' ∧ Modfile.Edit.P.Inv e' :=
  runOps_tie_closed_raw_partial name file f ops fuel hp hk hs hv hm hb (by have := sessSizeR_le name file f ops hp; omega)

/-- the byte-length hypothesis of the example session of Tie/FnEditClosed.lean: `|file| = 223`, fuel 300000 suffices -/
theorem ex_length : 3 * sessLen exFile FnEditClosed.exOps + 1 ≤ 300000 := by decide +kernel

-- `fuelOK_of_length_partial` on the example
example : ∀ f, Modfile.parseStrict (B "go.mod") exFile none = .ok f →
    FuelOK 300000 (Modfile.Edit.load f) FnEditClosed.exOps ∧ FinalFuel 300000 (Modfile.Edit.load f) FnEditClosed.exOps :=
  fun f hp => fuelOK_of_length_partial (B "go.mod") exFile f FnEditClosed.exOps 300000 hp (FnEditSession.ex_keys f hp).1
    (FnEditSession.ex_keys f hp).2 FnEditClosed.ex_static FnEditClosed.ex_notSep ex_length

end ModVerif.Tie.FnEditClosed3
