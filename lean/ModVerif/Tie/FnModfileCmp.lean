/-
  Tie: the block-sorting comparators and the version check of modfile/rule.go (lines 1763-1850), regenerated on every
  check in Generated/FnModfile.lean (namespace ModVerif.Generated.Modfile) — `lineLess` (one loop over token indexes),
  `lineExcludeLess`, `lineRetractLess` with its hoisted closure `lineRetractLess_interval`, `checkCanonicalVersion` —
  compute exactly what the hand model (Model/Modfile/Edit.lean: `Edit.lineLess`, `Edit.lineExcludeLess`,
  `Edit.retractInterval`, `Edit.lineRetractLess`, `Edit.checkCanonicalVersion`) says, for ALL `Line` structures (any
  token list, any comments/positions) and all fuel above the stated bound.  The only hypotheses are fuel lower bounds.
  Each equation also proves: no Go panic (`Token[k]` never out of range) and no fuel exhaustion.

  * Go `error` is `Option String` (`nil` = `none`); `checkCanonicalVersion_tie` gives the error VALUE in every case
    (`TieFnModfileCmp.canonErrOf`), `checkCanonicalVersion_nil_iff` relates `nil` to the model's Boolean.
  * The translator keeps only the format string of `fmt.Errorf(…)`; the ARGUMENTS `module.PathMajorPrefix(pathMajor)`
    (which has two `panic` sites) and `semver.Major(vers)` are not evaluated by the regenerated `checkCanonicalVersion`.
    `checkCanonicalVersion_errarg_no_panic` closes that gap: on the suffix `SplitPathVersion` returns — with or without
    ok — the regenerated `PathMajorPrefix` returns normally, and `semver.Major` is total (`Tie.FnSemver.Major_tie`).
  * `*_tie_driver`: the bound is met by the fuel Drv/CmpOps.lean passes (`4 * total bytes + 64`); for the loop of
    `lineLess` this needs the tokens of one of the two lines to be non-empty strings (as the lexer guarantees): the loop
    makes one iteration per common token, and a line of n empty tokens has n tokens and 0 bytes.

  The last section carries the C16 comparator theorems (Props/C16.lean: strict weak / total orders, sorted
  permutation, idempotence, independence of the map-iteration order) over to the regenerated functions.

  Helper lemmas: Proofs/TieFnModfileCmp.lean, Proofs/TieFnModfileCmpOrd.lean.
-/
import ModVerif.Generated.FnModfile
import ModVerif.Model.Modfile.Edit
import ModVerif.Proofs.TieFnModfileCmp
import ModVerif.Proofs.TieFnModfileCmpOrd
import ModVerif.Props.C16
import ModVerif.Props.C08
namespace ModVerif.Tie.FnModfileCmp
open ModVerif ModVerif.GoRt ModVerif.Modfile ModVerif.TieFnModfileCmp

/-! ### lineLess -/

/-- lineLess (rule.go:1763): the loop `for k := 0; k < len(li.Token) && k < len(lj.Token); k++` with the early
    `return li.Token[k] < lj.Token[k]`, then `len(li.Token) < len(lj.Token)`. -/
theorem lineLess_tie (fuel : Nat) (la lb : Generated.Modfile.Line)
    (hf : min la.Token.length lb.Token.length + 1 ≤ fuel) :
    Generated.Modfile.lineLess fuel la lb = .ok (Edit.lineLess la.Token lb.Token) :=
  lineLess_ok fuel la lb hf

-- ["a","b"] < ["a","c"];  ["a"] < ["a","b"] (proper prefix first);  not ["a","b"] < ["a"]
example : Generated.Modfile.lineLess 3 (mkLine [B "a", B "b"]) (mkLine [B "a", B "c"]) = .ok true ∧
    Edit.lineLess [B "a", B "b"] [B "a", B "c"] = true ∧
    Generated.Modfile.lineLess 2 (mkLine [B "a"]) (mkLine [B "a", B "b"]) = .ok true ∧
    Edit.lineLess [B "a"] [B "a", B "b"] = true ∧
    Generated.Modfile.lineLess 2 (mkLine [B "a", B "b"]) (mkLine [B "a"]) = .ok false := by
  decide +kernel

/-- with the fuel the driver passes; the tokens of one of the two lines are non-empty strings -/
theorem lineLess_tie_driver (fuel : Nat) (la lb : Generated.Modfile.Line)
    (hne : (∀ t ∈ la.Token, t ≠ []) ∨ (∀ t ∈ lb.Token, t ≠ []))
    (hf : 4 * ((la.Token ++ lb.Token).map List.length).sum + 64 ≤ fuel) :
    Generated.Modfile.lineLess fuel la lb = .ok (Edit.lineLess la.Token lb.Token) := by
  have := min_length_le la.Token lb.Token hne
  unfold tokBytes at this
  exact lineLess_ok fuel la lb (by omega)

/-! ### lineExcludeLess -/

/-- lineExcludeLess (rule.go:1774): falls back to `lineLess` unless both lines have exactly two tokens; then path by
    string order, version by `semver.Compare`.  (`getD 1 []` is the version token when there is one.) -/
theorem lineExcludeLess_tie (fuel : Nat) (la lb : Generated.Modfile.Line)
    (hf1 : min la.Token.length lb.Token.length + 1 ≤ fuel)
    (hf2 : 2 * max (la.Token.getD 1 []).length (lb.Token.getD 1 []).length ≤ fuel) :
    Generated.Modfile.lineExcludeLess fuel la lb = .ok (Edit.lineExcludeLess la.Token lb.Token) :=
  lineExcludeLess_ok fuel la lb hf1 hf2

-- same path: v1.9.0 before v1.10.0 (semver, not string order); different length: lexical fallback
example : Generated.Modfile.lineExcludeLess 20 (mkLine [B "a", B "v1.9.0"]) (mkLine [B "a", B "v1.10.0"]) = .ok true ∧
    Edit.lineExcludeLess [B "a", B "v1.9.0"] [B "a", B "v1.10.0"] = true ∧
    Generated.Modfile.lineExcludeLess 20 (mkLine [B "a", B "v1.10.0"]) (mkLine [B "a", B "v1.9.0"]) = .ok false ∧
    Generated.Modfile.lineExcludeLess 20 (mkLine [B "a", B "v1.10.0"]) (mkLine [B "a", B "v1.9.0", B "x"]) = .ok true ∧
    Edit.lineExcludeLess [B "a", B "v1.10.0"] [B "a", B "v1.9.0", B "x"] = true := by
  decide +kernel

theorem lineExcludeLess_tie_driver (fuel : Nat) (la lb : Generated.Modfile.Line)
    (hne : (∀ t ∈ la.Token, t ≠ []) ∨ (∀ t ∈ lb.Token, t ≠ []))
    (hf : 4 * ((la.Token ++ lb.Token).map List.length).sum + 64 ≤ fuel) :
    Generated.Modfile.lineExcludeLess fuel la lb = .ok (Edit.lineExcludeLess la.Token lb.Token) := by
  have h0 := min_length_le la.Token lb.Token hne
  have h1 := getD_length_le_tokBytes la.Token 1
  have h2 := getD_length_le_tokBytes lb.Token 1
  rw [tokBytes_append] at h0
  have h3 := tokBytes_append la.Token lb.Token
  unfold tokBytes at h0 h1 h2 h3
  exact lineExcludeLess_ok fuel la lb (by omega) (by omega)

/-! ### lineRetractLess and its closure -/

/-- the closure `interval` of lineRetractLess (rule.go:1794), hoisted by the translator: a one-token line is the
    interval [v, v], a five-token line `[ lo , hi ]` is [lo, hi], anything else the zero interval.  No fuel needed. -/
theorem lineRetractLess_interval_tie (fuel : Nat) (l : Generated.Modfile.Line) :
    Generated.Modfile.lineRetractLess_interval fuel l =
      .ok { Low := (Edit.retractInterval l.Token).low, High := (Edit.retractInterval l.Token).high } :=
  interval_ok fuel l

example : Generated.Modfile.lineRetractLess_interval 0 (mkLine [B "[", B "v1.0.0", B ",", B "v1.2.0", B "]"]) =
      .ok { Low := B "v1.0.0", High := B "v1.2.0" } ∧
    Edit.retractInterval [B "[", B "v1.0.0", B ",", B "v1.2.0", B "]"] = { low := B "v1.0.0", high := B "v1.2.0" } ∧
    Generated.Modfile.lineRetractLess_interval 0 (mkLine [B "v1.0.0"]) = .ok { Low := B "v1.0.0", High := B "v1.0.0" } ∧
    Generated.Modfile.lineRetractLess_interval 0 (mkLine [B "(", B "v1.0.0", B ",", B "v1.2.0", B "]"]) =
      .ok { Low := [], High := [] } := by
  decide +kernel

/-- lineRetractLess (rule.go:1793): descending by low version, then by high version -/
theorem lineRetractLess_tie (fuel : Nat) (la lb : Generated.Modfile.Line)
    (hf1 : 2 * max (Edit.retractInterval la.Token).low.length (Edit.retractInterval lb.Token).low.length ≤ fuel)
    (hf2 : 2 * max (Edit.retractInterval la.Token).high.length (Edit.retractInterval lb.Token).high.length ≤ fuel) :
    Generated.Modfile.lineRetractLess fuel la lb = .ok (Edit.lineRetractLess la.Token lb.Token) :=
  lineRetractLess_ok fuel la lb hf1 hf2

-- v1.9.0 sorts before the interval [v1.2.0, v1.3.0] (descending), which sorts before v1.0.0
example : Generated.Modfile.lineRetractLess 20 (mkLine [B "v1.9.0"]) (mkLine [B "[", B "v1.2.0", B ",", B "v1.3.0", B "]"])
      = .ok true ∧
    Edit.lineRetractLess [B "v1.9.0"] [B "[", B "v1.2.0", B ",", B "v1.3.0", B "]"] = true ∧
    Generated.Modfile.lineRetractLess 20 (mkLine [B "[", B "v1.2.0", B ",", B "v1.3.0", B "]"]) (mkLine [B "v1.0.0"])
      = .ok true ∧
    Generated.Modfile.lineRetractLess 20 (mkLine [B "v1.0.0"]) (mkLine [B "v1.9.0"]) = .ok false := by
  decide +kernel

/-- with the fuel the driver passes — for ALL token lists (no loop over tokens here) -/
theorem lineRetractLess_tie_driver (fuel : Nat) (la lb : Generated.Modfile.Line)
    (hf : 4 * ((la.Token ++ lb.Token).map List.length).sum + 64 ≤ fuel) :
    Generated.Modfile.lineRetractLess fuel la lb = .ok (Edit.lineRetractLess la.Token lb.Token) := by
  have h1 := retractInterval_le_tokBytes la.Token
  have h2 := retractInterval_le_tokBytes lb.Token
  have h3 := tokBytes_append la.Token lb.Token
  unfold tokBytes at h1 h2 h3
  exact lineRetractLess_ok fuel la lb (by omega) (by omega)

/-! ### checkCanonicalVersion -/

/-- checkCanonicalVersion (rule.go:1817): the exact `error` value in every case (`canonErrOf`: "must be of the form
    v1.2.3" / "must be of the form %s.2.3" when `vers` is empty or not `module.CanonicalVersion(vers)`;
    CheckPathMajor's error, or "should be %s+incompatible (or module %s/%v)" for a path without major suffix, when the
    path splits and the majors do not match; `nil` otherwise). -/
theorem checkCanonicalVersion_tie (fuel : Nat) (path vers : Bytes)
    (hf1 : path.length + 1 ≤ fuel) (hf2 : 2 * vers.length ≤ fuel) :
    Generated.Modfile.checkCanonicalVersion fuel path vers = .ok (canonErrOf path vers) :=
  checkCanonicalVersion_ok fuel path vers hf1 hf2

/-- `canonErrOf` spelled out, so that the statement above can be read without the helper file -/
theorem canonErrOf_eq (path vers : Bytes) :
    canonErrOf path vers =
      (if vers = [] ∨ vers ≠ Semver.canonicalVersion vers then
        (if (Module.splitPathVersion path).2.1 = [] then
           wrapErr "InvalidVersionError" (some "must be of the form v1.2.3")
         else wrapErr "InvalidVersionError" (some "must be of the form %s.2.3"))
       else if (Module.splitPathVersion path).2.2 = true ∧
            Module.checkPathMajor vers (Module.splitPathVersion path).2.1 = false then
        (if (Module.splitPathVersion path).2.1 = [] then
           wrapErr "InvalidVersionError" (some "should be %s+incompatible (or module %s/%v)")
         else wrapErr "InvalidVersionError" (some "should be %s, not %s"))
       else none) := rfl

/-- the error is `nil` exactly when the model's Boolean check holds -/
theorem checkCanonicalVersion_nil_iff (fuel : Nat) (path vers : Bytes)
    (hf1 : path.length + 1 ≤ fuel) (hf2 : 2 * vers.length ≤ fuel) :
    ∃ e, Generated.Modfile.checkCanonicalVersion fuel path vers = .ok e ∧
      (e = none ↔ Edit.checkCanonicalVersion path vers = true) :=
  ⟨_, checkCanonicalVersion_ok fuel path vers hf1 hf2, canonErrOf_none_iff path vers⟩

/-- with the fuel the driver passes -/
theorem checkCanonicalVersion_tie_driver (fuel : Nat) (path vers : Bytes)
    (hf : 4 * (path.length + vers.length) + 64 ≤ fuel) :
    Generated.Modfile.checkCanonicalVersion fuel path vers = .ok (canonErrOf path vers) :=
  checkCanonicalVersion_ok fuel path vers (by omega) (by omega)

example : Generated.Modfile.checkCanonicalVersion 40 (B "a.b/v2") (B "v2.1.0") = .ok none ∧
    Edit.checkCanonicalVersion (B "a.b/v2") (B "v2.1.0") = true ∧
    Generated.Modfile.checkCanonicalVersion 40 (B "a.b/v2") (B "v1.0.0")
      = .ok (some "InvalidVersionError|should be %s, not %s") ∧
    Edit.checkCanonicalVersion (B "a.b/v2") (B "v1.0.0") = false ∧
    Generated.Modfile.checkCanonicalVersion 40 (B "a.b") (B "v2.0.0")
      = .ok (some "InvalidVersionError|should be %s+incompatible (or module %s/%v)") ∧
    Generated.Modfile.checkCanonicalVersion 40 (B "a.b") (B "v2.0.0+incompatible") = .ok none ∧
    Generated.Modfile.checkCanonicalVersion 40 (B "a.b/v2") (B "v2.1")
      = .ok (some "InvalidVersionError|must be of the form %s.2.3") ∧
    Generated.Modfile.checkCanonicalVersion 40 (B "a.b") []
      = .ok (some "InvalidVersionError|must be of the form v1.2.3") ∧
    Generated.Modfile.checkCanonicalVersion 40 (B "a.b/v1") (B "v3.0.0") = .ok none ∧
    Edit.checkCanonicalVersion (B "a.b/v1") (B "v3.0.0") = true := by
  decide +kernel

/-- **The dropped error-message arguments cannot panic.**  `fmt.Errorf("must be of the form %s.2.3",
    module.PathMajorPrefix(pathMajor))` calls a function with two `panic` sites
    (`Tie.FnModule.PathMajorPrefix_tie`: panic exactly where the model is `none`); the translator keeps only the format
    string.  For the `pathMajor` that `SplitPathVersion(path)` returns (ok or not: a failed split returns "") the
    regenerated `PathMajorPrefix` returns normally — "" or "vN" — so the Go function has no panic the regenerated
    `checkCanonicalVersion` misses.  (`semver.Major(vers)`, the other dropped argument, is total.) -/
theorem checkCanonicalVersion_errarg_no_panic (fuel : Nat) (path vers : Bytes)
    (hf : 2 * path.length ≤ fuel) (hf2 : 2 * vers.length ≤ fuel) :
    (∃ m, Generated.Module.PathMajorPrefix fuel (Module.splitPathVersion path).2.1 = .ok m) ∧
    Generated.Semver.Major fuel vers = .ok (Semver.major vers) := by
  refine ⟨pathMajorPrefix_ok_on_split path fuel ?_, Tie.FnSemver.Major_tie vers fuel hf2⟩
  have := splitPathVersion_major_le path
  omega

example : Generated.Module.PathMajorPrefix 20 (Module.splitPathVersion (B "a.b/v2")).2.1 = .ok (B "v2") ∧
    Generated.Module.PathMajorPrefix 20 (Module.splitPathVersion (B "a.b/v02")).2.1 = .ok [] ∧
    Generated.Module.PathMajorPrefix 20 (B "/v02") = .error .panic := by
  decide +kernel

/-- C08's validity predicate for versions (`EditSpec.stdValidity.version`, the precondition of AddRequire, AddExclude,
    AddReplace, AddRetract … in the specification) is exactly "the regenerated checkCanonicalVersion returns nil". -/
theorem checkCanonicalVersion_nil_iff_valid (fuel : Nat) (path vers : Bytes)
    (hf1 : path.length + 1 ≤ fuel) (hf2 : 2 * vers.length ≤ fuel) :
    Generated.Modfile.checkCanonicalVersion fuel path vers = .ok none ↔
      EditSpec.stdValidity.version path vers = true := by
  rw [checkCanonicalVersion_ok fuel path vers hf1 hf2, ← Props.C08.validity_checks_eq.2.2 path vers,
    ← canonErrOf_none_iff]
  constructor
  · intro h; injection h
  · intro h; rw [h]

/-! ### the C16 comparator theorems, transferred to the regenerated code

  `genLess fuelOf f a b` is the Boolean the regenerated comparator `f` returns on the lines with token lists `a`, `b`,
  run with fuel `fuelOf a b`; every `fuelOf ≥ cmpFuel` (`min #tokens + 1 + 2 * total bytes`) will do.  The model has
  been eliminated: the statements are about the regenerated functions and the specification's order notions only. -/

/-- the regenerated comparators ARE the specification's documented block orders -/
theorem genLess_eq_spec (fuelOf : List Bytes → List Bytes → Nat) (hfu : ∀ a b, cmpFuel a b ≤ fuelOf a b) :
    genLess fuelOf Generated.Modfile.lineLess = EditSpec.lineLess ∧
    genLess fuelOf Generated.Modfile.lineExcludeLess = EditSpec.lineExcludeLess ∧
    genLess fuelOf Generated.Modfile.lineRetractLess = EditSpec.lineRetractLess :=
  ⟨genLess_lineLess fuelOf hfu, genLess_lineExcludeLess fuelOf hfu, genLess_lineRetractLess fuelOf hfu⟩

/-- C16 `lineLess_strict_total`: the regenerated lineLess is a strict weak order, and total -/
theorem lineLess_strict_total (fuelOf : List Bytes → List Bytes → Nat) (hfu : ∀ a b, cmpFuel a b ≤ fuelOf a b) :
    EditSpec.StrictWeak (genLess fuelOf Generated.Modfile.lineLess) ∧
    ∀ a b, genLess fuelOf Generated.Modfile.lineLess a b = false →
      genLess fuelOf Generated.Modfile.lineLess b a = false → a = b := by
  rw [genLess_lineLess fuelOf hfu]
  exact Props.C16.lineLess_strict_total

/-- the same facts without `genLess`: on any lines, with any sufficient fuel -/
theorem lineLess_irrefl_asymm_total (fuel : Nat) (la lb : Generated.Modfile.Line)
    (hf : max la.Token.length lb.Token.length + 1 ≤ fuel) :
    Generated.Modfile.lineLess fuel la la = .ok false ∧
    (Generated.Modfile.lineLess fuel la lb = .ok true → Generated.Modfile.lineLess fuel lb la = .ok false) ∧
    (Generated.Modfile.lineLess fuel la lb = .ok false → Generated.Modfile.lineLess fuel lb la = .ok false →
      la.Token = lb.Token) := by
  have hsw := Props.C16.lineLess_strict_total
  rw [lineLess_ok fuel la la (by omega), lineLess_ok fuel la lb (by omega), lineLess_ok fuel lb la (by omega),
    Edit.lineLess_eq_spec, Edit.lineLess_eq_spec, Edit.lineLess_eq_spec]
  refine ⟨by rw [hsw.1.irrefl], ?_, ?_⟩
  · intro h; injection h with h; rw [hsw.1.asymm _ _ h]
  · intro h1 h2; injection h1 with h1; injection h2 with h2; exact hsw.2 _ _ h1 h2

/-- C16 `lineExcludeLess_strictWeak_on_pairs`: on two-token lines the regenerated lineExcludeLess is the strict weak
    order "path by string order, then version by semver order" -/
theorem lineExcludeLess_strictWeak_on_pairs (fuel : Nat) (la lb : Generated.Modfile.Line) (p v q w : Bytes)
    (ha : la.Token = [p, v]) (hb : lb.Token = [q, w]) (hf : 2 * max v.length w.length ≤ fuel) (hf0 : 3 ≤ fuel) :
    EditSpec.StrictWeak EditSpec.excludeLess2 ∧
    Generated.Modfile.lineExcludeLess fuel la lb = .ok (EditSpec.excludeLess2 (p, v) (q, w)) := by
  refine ⟨Props.C16.lineExcludeLess_strictWeak_on_pairs.1, ?_⟩
  rw [lineExcludeLess_ok fuel la lb (by rw [ha, hb]; simpa using hf0) (by rw [ha, hb]; simpa using hf), ha, hb,
    Edit.lineExcludeLess_model_eq_spec, Props.C16.lineExcludeLess_strictWeak_on_pairs.2]

/-- C16 `lineExcludeLess_cycle_on_mixed_lengths`, on the regenerated code: why "two-token lines" is needed -/
theorem lineExcludeLess_cycle_on_mixed_lengths :
    Generated.Modfile.lineExcludeLess 64 (mkLine [B "p", B "v1.10.0"]) (mkLine [B "p", B "v1.5.0", B "x"]) = .ok true ∧
    Generated.Modfile.lineExcludeLess 64 (mkLine [B "p", B "v1.5.0", B "x"]) (mkLine [B "p", B "v1.9.0"]) = .ok true ∧
    Generated.Modfile.lineExcludeLess 64 (mkLine [B "p", B "v1.9.0"]) (mkLine [B "p", B "v1.10.0"]) = .ok true := by
  decide +kernel

/-- C16 `lineRetractLess_strict_weak`: the regenerated lineRetractLess is a strict weak order on ALL token lists -/
theorem lineRetractLess_strict_weak (fuelOf : List Bytes → List Bytes → Nat) (hfu : ∀ a b, cmpFuel a b ≤ fuelOf a b) :
    EditSpec.StrictWeak (genLess fuelOf Generated.Modfile.lineRetractLess) := by
  rw [genLess_lineRetractLess fuelOf hfu]
  exact Props.C16.lineRetractLess_strict_weak

/-- C16 `sort_sorted_perm` + `sort_idempotent` for the two regenerated comparators that are strict weak orders
    everywhere: the stable sort by them yields a sorted permutation and is idempotent -/
theorem sort_sorted_perm_idem (fuelOf : List Bytes → List Bytes → Nat) (hfu : ∀ a b, cmpFuel a b ≤ fuelOf a b)
    (l : List (List Bytes)) :
    (EditSpec.Sorted (genLess fuelOf Generated.Modfile.lineLess) (EditSpec.sortBy (genLess fuelOf Generated.Modfile.lineLess) l) ∧
      (EditSpec.sortBy (genLess fuelOf Generated.Modfile.lineLess) l).Perm l ∧
      EditSpec.sortBy (genLess fuelOf Generated.Modfile.lineLess) (EditSpec.sortBy (genLess fuelOf Generated.Modfile.lineLess) l) =
        EditSpec.sortBy (genLess fuelOf Generated.Modfile.lineLess) l) ∧
    (EditSpec.Sorted (genLess fuelOf Generated.Modfile.lineRetractLess)
        (EditSpec.sortBy (genLess fuelOf Generated.Modfile.lineRetractLess) l) ∧
      (EditSpec.sortBy (genLess fuelOf Generated.Modfile.lineRetractLess) l).Perm l ∧
      EditSpec.sortBy (genLess fuelOf Generated.Modfile.lineRetractLess)
          (EditSpec.sortBy (genLess fuelOf Generated.Modfile.lineRetractLess) l) =
        EditSpec.sortBy (genLess fuelOf Generated.Modfile.lineRetractLess) l) := by
  have h1 := (lineLess_strict_total fuelOf hfu).1
  have h2 := lineRetractLess_strict_weak fuelOf hfu
  exact ⟨⟨(Props.C16.sort_sorted_perm h1 l).1, (Props.C16.sort_sorted_perm h1 l).2.1, Props.C16.sort_idempotent h1 l⟩,
    ⟨(Props.C16.sort_sorted_perm h2 l).1, (Props.C16.sort_sorted_perm h2 l).2.1, Props.C16.sort_idempotent h2 l⟩⟩

/-- C16 `sort_lineLess_perm_invariant`: sorting by the regenerated lineLess gives a result that depends only on the
    multiset of lines — the order in which Go's map iteration appended new lines is unobservable -/
theorem sort_lineLess_perm_invariant (fuelOf : List Bytes → List Bytes → Nat) (hfu : ∀ a b, cmpFuel a b ≤ fuelOf a b)
    (l1 l2 : List (List Bytes)) (hp : l1.Perm l2) :
    EditSpec.sortBy (genLess fuelOf Generated.Modfile.lineLess) l1 =
      EditSpec.sortBy (genLess fuelOf Generated.Modfile.lineLess) l2 := by
  rw [genLess_lineLess fuelOf hfu]
  exact Props.C16.sort_lineLess_perm_invariant l1 l2 hp

-- non-vacuity: `cmpFuel` itself is an admissible fuel function, and `genLess` evaluates
example : genLess cmpFuel Generated.Modfile.lineLess [B "a"] [B "b"] = true ∧
    genLess cmpFuel Generated.Modfile.lineRetractLess [B "v1.9.0"] [B "v1.0.0"] = true ∧
    EditSpec.sortBy (genLess cmpFuel Generated.Modfile.lineLess) [[B "b"], [B "a", B "x"], [B "a"]] =
      [[B "a"], [B "a", B "x"], [B "b"]] := by
  decide +kernel

end ModVerif.Tie.FnModfileCmp
