/-
  Closed fuel of the FnEdit go.work session ties (agent edit-fuel5): the fuel hypotheses `FuelOKW` / `FinalFuelW` of
  Tie/FnEditSessionWork.lean (`runWorkOps_tie_valid`, `workSession_tie_valid`) derived from a SIZE — the potential
  `WW (Edit.loadWork f)` of the loaded go.work file (tree weight + the three typed-list lengths + |go version|) and the raw
  byte lengths of the operation arguments (`opsR ops = Σ (20·rawSize op + 32)`, the allowance of Tie/FnEditClosed2.lean).

  * `Proofs/TieFnEditFuelM.lean`: `WW`, `stepFuelW_le` (`stepFuelW e op ≤ 3·(WW e + GR op)`), the growth lemmas
    `workAddGoStmt_WW` … `workCleanup_WW`, `applyWork_WW` (`WW e' ≤ WW e + GR op`), `fuelOKW_of_WW`, `runW_WW`,
    `finalFuelW_of_WW` — every operation but the bulk setter (`NotSetUse`).
  * `Proofs/TieFnEditFuelN.lean`: the bulk setter `WorkFile.SetUse` (`setUseLoop_WW`, `useNeedMap_needW`, `setUsePre_WW`,
    `setUse_stepFuelW_le`, `setUse_WW`) and the sessions with EVERY operation (`fuelOKW_of_WW_all`, `runW_WW_all`, `finalFuelW_of_WW_all`).
  * here: `fuelOKW_of_state_partial`, `fuelOKW_of_size_partial`, `runWorkOps_tie_closed_partial`, `workSession_tie_closed_partial`
    (sessions without SetUse, as first asked for), and the same with every operation: `fuelOKW_of_state`, `fuelOKW_of_size`,
    `runWorkOps_tie_closed`, `workSession_tie_closed`.  Size hypothesis: `3 · sessSizeW f ops + 1 ≤ fuel`,
    `sessSizeW f ops = WW (Edit.loadWork f) + Σ (20·rawSize op + 32)`.
  * `Proofs/TieFnEditFuelO.lean`: `WW_loadWork_le : parseWork name file none = .ok f → WW (Edit.loadWork f) ≤ 408·|file| + 102` (the
    `parseWork` analogue of `W_load_le`); here `fuelOKW_of_length`, `runWorkOps_tie_closed_length` with the ONLY size hypothesis
    `3 · sessLenW file ops + 1 ≤ fuel`, `sessLenW file ops = 408·|file| + 102 + Σ (20·rawSize op + 32)`.
-/
import ModVerif.Tie.FnEditSessionWork
import ModVerif.Tie.FnEditClosed2
import ModVerif.Proofs.TieFnEditFuelM
import ModVerif.Proofs.TieFnEditFuelN
import ModVerif.Proofs.TieFnEditFuelO
set_option linter.unusedSimpArgs false
set_option linter.unusedVariables false
namespace ModVerif.Tie.FnEditClosed5
open ModVerif ModVerif.GoRt ModVerif.Generated.Edit ModVerif.Tie.FnEditRep
open ModVerif.Tie.FnEditFuelA ModVerif.Tie.FnEditFuelF ModVerif.Tie.FnEditFuelM ModVerif.Tie.FnEditFuelN ModVerif.Tie.FnEditFuelO
open ModVerif.Tie.FnEditSessionA ModVerif.Tie.FnEditSessionW ModVerif.Tie.FnEditSessionWork
open ModVerif.Tie.FnEditSession (driverFuel)
open ModVerif.Modfile.Edit (EWork applyWork)

/-- the size of a go.work session: the potential of the loaded file plus the raw allowances of the operations -/
def sessSizeW (f : Modfile.WorkFile) (ops : List EditSpec.Op) : Nat := WW (Modfile.Edit.loadWork f) + opsR ops

/-- **fuel demand of one go.work operation (not SetUse)**: linear in the potential and the raw argument lengths -/
theorem stepFuelW_le (e : EWork) (op : EditSpec.Op) (hb : NotSetUse op) : stepFuelW e op ≤ 3 * (WW e + (20 * rawSize op + 32)) :=
  FnEditFuelM.stepFuelW_le e op hb

/-- **growth of the potential under one go.work operation (not SetUse)** -/
theorem applyWork_WW (e e' : EWork) (op : EditSpec.Op) (hb : NotSetUse op) (hi : Modfile.Edit.InvW e)
    (h : applyWork e (opM op) = some (.ok e')) : WW e' ≤ WW e + (20 * rawSize op + 32) :=
  FnEditFuelM.applyWork_WW e e' op hb hi.tree.nodup h

/-- **`FuelOKW` / `FinalFuelW` from the potential of ANY state with the go.work invariant** (sessions without SetUse) -/
theorem fuelOKW_of_state_partial (fuel : Nat) (ops : List EditSpec.Op) (e : EWork) (hi : Modfile.Edit.InvW e)
    (hv : Modfile.Edit.RunValidW e (ops.map opM)) (hb : ∀ op ∈ ops, NotSetUse op) (hf : 3 * (WW e + opsR ops) + 1 ≤ fuel) :
    FuelOKW fuel e ops ∧ FinalFuelW fuel e ops :=
  ⟨fuelOKW_of_WW fuel ops e hi hv hb (by omega), finalFuelW_of_WW fuel ops e hi hv hb (by omega)⟩

/-- **`FuelOKW` / `FinalFuelW` of a go.work session (without SetUse) from the size of the loaded file and the raw sizes** -/
theorem fuelOKW_of_size_partial (name file : Bytes) (f : Modfile.WorkFile) (ops : List EditSpec.Op) (fuel : Nat)
    (hp : Modfile.parseWork name file none = .ok f) (hk : Modfile.Edit.WorkKeys f) (hs : Modfile.Edit.NoBlockSuffix f.syn)
    (hv : Modfile.Edit.RunValidW (Modfile.Edit.loadWork f) (ops.map opM)) (hb : ∀ op ∈ ops, NotSetUse op)
    (hf : 3 * sessSizeW f ops + 1 ≤ fuel) :
    FuelOKW fuel (Modfile.Edit.loadWork f) ops ∧ FinalFuelW fuel (Modfile.Edit.loadWork f) ops :=
  fuelOKW_of_state_partial fuel ops _ (Modfile.Edit.parseWork_invW hp hk hs) hv hb (by unfold sessSizeW at hf; omega)

/-- `runWorkOps_tie_valid` with the size hypothesis only (sessions without SetUse) -/
theorem runWorkOps_tie_closed_partial (name file : Bytes) (f : Modfile.WorkFile) (ops : List EditSpec.Op) (fuel : Nat)
    (hp : Modfile.parseWork name file none = .ok f) (hk : Modfile.Edit.WorkKeys f) (hs : Modfile.Edit.NoBlockSuffix f.syn)
    (hv : Modfile.Edit.RunValidW (Modfile.Edit.loadWork f) (ops.map opM)) (hb : ∀ op ∈ ops, NotSetUse op)
    (hf : 3 * sessSizeW f ops + 1 ≤ fuel) :
    match Modfile.Edit.runOps applyWork (Modfile.Edit.loadWork f) (ops.map opM) [] 0 with
    | .done e' res => ∃ h', Drv.GenEdit.runWorkOps fuel (Drv.GenEdit.loadWork f).2 (Drv.GenEdit.loadWork f).1 ops [] = .done h' res ∧
        RepW h' (Drv.GenEdit.loadWork f).2 e' ∧ Modfile.Edit.InvW e'
    | .panic j => ∃ op, ops[j]? = some op ∧
        Drv.GenEdit.runWorkOps fuel (Drv.GenEdit.loadWork f).2 (Drv.GenEdit.loadWork f).1 ops [] = .panic (Drv.GenEdit.opNameD op)
    | .badOp => Drv.GenEdit.runWorkOps fuel (Drv.GenEdit.loadWork f).2 (Drv.GenEdit.loadWork f).1 ops [] = .badOp :=
  runWorkOps_tie_valid fuel _ ops _ _ (FnEditTree.loadWork_parsed_rep hp) (Modfile.Edit.parseWork_invW hp hk hs) hv
    (fuelOKW_of_size_partial name file f ops fuel hp hk hs hv hb hf).1

/-- `workSession_tie_valid` with the size hypothesis against the driver's fixed fuel (sessions without SetUse) -/
theorem workSession_tie_closed_partial (file : Bytes) (ops : List EditSpec.Op)
    (hk : ∀ f, Modfile.parseWork (B "go.work") file none = .ok f → Modfile.Edit.WorkKeys f ∧ Modfile.Edit.NoBlockSuffix f.syn)
    (hv : ∀ f, Modfile.parseWork (B "go.work") file none = .ok f → Modfile.Edit.RunValidW (Modfile.Edit.loadWork f) (ops.map opM))
    (hb : ∀ op ∈ ops, NotSetUse op)
    (hf : ∀ f, Modfile.parseWork (B "go.work") file none = .ok f → 3 * sessSizeW f ops + 1 ≤ driverFuel file ops) :
    Drv.GenEdit.workSession file ops = Drv.Edit.M.sessionWork file (ops.map opM) :=
  workSession_tie_valid file ops hk hv fun f hp =>
    fuelOKW_of_size_partial (B "go.work") file f ops _ hp (hk f hp).1 (hk f hp).2 (hv f hp) hb (hf f hp)

/-! ### every go.work operation, the bulk setter `WorkFile.SetUse` included (`Proofs/TieFnEditFuelN.lean`) -/

/-- **fuel demand of one go.work operation**, every operation -/
theorem stepFuelW_le_all (e : EWork) (op : EditSpec.Op) : stepFuelW e op ≤ 3 * (WW e + (20 * rawSize op + 32)) :=
  FnEditFuelN.stepFuelW_le_all e op

/-- **growth of the potential under one go.work operation**, every operation -/
theorem applyWork_WW_all (e e' : EWork) (op : EditSpec.Op) (hi : Modfile.Edit.InvW e)
    (h : applyWork e (opM op) = some (.ok e')) : WW e' ≤ WW e + (20 * rawSize op + 32) :=
  FnEditFuelN.applyWork_WW_all e e' op hi.tree.nodup h

/-- **`FuelOKW` / `FinalFuelW` from the potential of ANY state with the go.work invariant** — every operation -/
theorem fuelOKW_of_state (fuel : Nat) (ops : List EditSpec.Op) (e : EWork) (hi : Modfile.Edit.InvW e)
    (hv : Modfile.Edit.RunValidW e (ops.map opM)) (hf : 3 * (WW e + opsR ops) + 1 ≤ fuel) :
    FuelOKW fuel e ops ∧ FinalFuelW fuel e ops :=
  ⟨fuelOKW_of_WW_all fuel ops e hi hv (by omega), finalFuelW_of_WW_all fuel ops e hi hv (by omega)⟩

/-- **`FuelOKW` / `FinalFuelW` of EVERY go.work session from the size of the loaded file and the raw sizes** -/
theorem fuelOKW_of_size (name file : Bytes) (f : Modfile.WorkFile) (ops : List EditSpec.Op) (fuel : Nat)
    (hp : Modfile.parseWork name file none = .ok f) (hk : Modfile.Edit.WorkKeys f) (hs : Modfile.Edit.NoBlockSuffix f.syn)
    (hv : Modfile.Edit.RunValidW (Modfile.Edit.loadWork f) (ops.map opM)) (hf : 3 * sessSizeW f ops + 1 ≤ fuel) :
    FuelOKW fuel (Modfile.Edit.loadWork f) ops ∧ FinalFuelW fuel (Modfile.Edit.loadWork f) ops :=
  fuelOKW_of_state fuel ops _ (Modfile.Edit.parseWork_invW hp hk hs) hv (by unfold sessSizeW at hf; omega)

/-- `runWorkOps_tie_valid` with the size hypothesis only, every operation -/
theorem runWorkOps_tie_closed (name file : Bytes) (f : Modfile.WorkFile) (ops : List EditSpec.Op) (fuel : Nat)
    (hp : Modfile.parseWork name file none = .ok f) (hk : Modfile.Edit.WorkKeys f) (hs : Modfile.Edit.NoBlockSuffix f.syn)
    (hv : Modfile.Edit.RunValidW (Modfile.Edit.loadWork f) (ops.map opM)) (hf : 3 * sessSizeW f ops + 1 ≤ fuel) :
    match Modfile.Edit.runOps applyWork (Modfile.Edit.loadWork f) (ops.map opM) [] 0 with
    | .done e' res => ∃ h', Drv.GenEdit.runWorkOps fuel (Drv.GenEdit.loadWork f).2 (Drv.GenEdit.loadWork f).1 ops [] = .done h' res ∧
        RepW h' (Drv.GenEdit.loadWork f).2 e' ∧ Modfile.Edit.InvW e'
    | .panic j => ∃ op, ops[j]? = some op ∧
        Drv.GenEdit.runWorkOps fuel (Drv.GenEdit.loadWork f).2 (Drv.GenEdit.loadWork f).1 ops [] = .panic (Drv.GenEdit.opNameD op)
    | .badOp => Drv.GenEdit.runWorkOps fuel (Drv.GenEdit.loadWork f).2 (Drv.GenEdit.loadWork f).1 ops [] = .badOp :=
  runWorkOps_tie_valid fuel _ ops _ _ (FnEditTree.loadWork_parsed_rep hp) (Modfile.Edit.parseWork_invW hp hk hs) hv
    (fuelOKW_of_size name file f ops fuel hp hk hs hv hf).1

/-- `workSession_tie_valid` with the size hypothesis against the driver's fixed fuel, every operation -/
theorem workSession_tie_closed (file : Bytes) (ops : List EditSpec.Op)
    (hk : ∀ f, Modfile.parseWork (B "go.work") file none = .ok f → Modfile.Edit.WorkKeys f ∧ Modfile.Edit.NoBlockSuffix f.syn)
    (hv : ∀ f, Modfile.parseWork (B "go.work") file none = .ok f → Modfile.Edit.RunValidW (Modfile.Edit.loadWork f) (ops.map opM))
    (hf : ∀ f, Modfile.parseWork (B "go.work") file none = .ok f → 3 * sessSizeW f ops + 1 ≤ driverFuel file ops) :
    Drv.GenEdit.workSession file ops = Drv.Edit.M.sessionWork file (ops.map opM) :=
  workSession_tie_valid file ops hk hv fun f hp =>
    fuelOKW_of_size (B "go.work") file f ops _ hp (hk f hp).1 (hk f hp).2 (hv f hp) (hf f hp)

/-! ### the byte length of the go.work text (`Proofs/TieFnEditFuelO.lean`) -/

/-- **the potential of the loaded go.work file is linear in the length of the file text** -/
theorem WW_loadWork_le {name file : Bytes} {f : Modfile.WorkFile} (h : Modfile.parseWork name file none = .ok f) :
    WW (Modfile.Edit.loadWork f) ≤ 408 * file.length + 102 := FnEditFuelO.WW_loadWork_le h

/-- the size of a go.work session from the byte length of the file text and the raw sizes of the operation arguments -/
def sessLenW (file : Bytes) (ops : List EditSpec.Op) : Nat := 408 * file.length + 102 + opsR ops

theorem sessSizeW_le (name file : Bytes) (f : Modfile.WorkFile) (ops : List EditSpec.Op)
    (hp : Modfile.parseWork name file none = .ok f) : sessSizeW f ops ≤ sessLenW file ops := by
  have := WW_loadWork_le hp; unfold sessSizeW sessLenW; omega

/-- **`FuelOKW` / `FinalFuelW` of every go.work session from `file.length + Σ rawSize` alone** -/
theorem fuelOKW_of_length (name file : Bytes) (f : Modfile.WorkFile) (ops : List EditSpec.Op) (fuel : Nat)
    (hp : Modfile.parseWork name file none = .ok f) (hk : Modfile.Edit.WorkKeys f) (hs : Modfile.Edit.NoBlockSuffix f.syn)
    (hv : Modfile.Edit.RunValidW (Modfile.Edit.loadWork f) (ops.map opM)) (hf : 3 * sessLenW file ops + 1 ≤ fuel) :
    FuelOKW fuel (Modfile.Edit.loadWork f) ops ∧ FinalFuelW fuel (Modfile.Edit.loadWork f) ops :=
  fuelOKW_of_size name file f ops fuel hp hk hs hv (by have := sessSizeW_le name file f ops hp; omega)

/-- `runWorkOps_tie_valid` with the byte-length hypothesis only, every operation -/
theorem runWorkOps_tie_closed_length (name file : Bytes) (f : Modfile.WorkFile) (ops : List EditSpec.Op) (fuel : Nat)
    (hp : Modfile.parseWork name file none = .ok f) (hk : Modfile.Edit.WorkKeys f) (hs : Modfile.Edit.NoBlockSuffix f.syn)
    (hv : Modfile.Edit.RunValidW (Modfile.Edit.loadWork f) (ops.map opM)) (hf : 3 * sessLenW file ops + 1 ≤ fuel) :
    match Modfile.Edit.runOps applyWork (Modfile.Edit.loadWork f) (ops.map opM) [] 0 with
    | .done e' res => ∃ h', Drv.GenEdit.runWorkOps fuel (Drv.GenEdit.loadWork f).2 (Drv.GenEdit.loadWork f).1 ops [] = .done h' res ∧
        RepW h' (Drv.GenEdit.loadWork f).2 e' ∧ Modfile.Edit.InvW e'
    | .panic j => ∃ op, ops[j]? = some op ∧
        Drv.GenEdit.runWorkOps fuel (Drv.GenEdit.loadWork f).2 (Drv.GenEdit.loadWork f).1 ops [] = .panic (Drv.GenEdit.opNameD op)
    | .badOp => Drv.GenEdit.runWorkOps fuel (Drv.GenEdit.loadWork f).2 (Drv.GenEdit.loadWork f).1 ops [] = .badOp :=
  runWorkOps_tie_closed name file f ops fuel hp hk hs hv (by have := sessSizeW_le name file f ops hp; omega)

/-! ### non-vacuity: the session of Tie/FnEditSessionWork.lean without its SetUse, on the same go.work file -/

section examples

def exOps5 : List EditSpec.Op :=
  [.addUse (B "./d") [], .dropUse (B "./a"), .addGo (B "1.x"), .addToolchain (B "go1.22.0"), .cleanup,
   .addNewUse (B "./b c") (B "m"), .addReplace (B "x.y/z") [] (B "../z") [], .addGodebug (B "k") (B "v"), .dropGodebug (B "x"),
   .dropReplace (B "example.com/a") [], .dropGo, .dropToolchain, .sortBlocks]

theorem ex_notSetUse5 : ∀ op ∈ exOps5, NotSetUse op := by
  intro op h
  simp only [exOps5, List.mem_cons, List.mem_nil_iff, or_false] at h
  rcases h with rfl | rfl | rfl | rfl | rfl | rfl | rfl | rfl | rfl | rfl | rfl | rfl | rfl <;> trivial

theorem ex_keys5 : ∀ f, Modfile.parseWork (B "go.work") exWork none = .ok f →
    Modfile.Edit.WorkKeys f ∧ Modfile.Edit.NoBlockSuffix f.syn :=
  of_parsedW exWork (fun f => Modfile.Edit.workStartOKb f && FnEditSessionE.noBlockSuffixB f.syn)
    (fun f h => by
      simp only [Bool.and_eq_true] at h
      have s := Modfile.Edit.workStartOKb_sound f h.1
      exact ⟨⟨s.godebug, s.use, s.replace⟩, FnEditSessionE.noBlockSuffixB_sound h.2⟩)
    (by decide +kernel)

theorem ex_valid5 : ∀ f, Modfile.parseWork (B "go.work") exWork none = .ok f →
    Modfile.Edit.RunValidW (Modfile.Edit.loadWork f) (exOps5.map opM) :=
  of_parsedW exWork (fun f => Modfile.Edit.runValidWB (Modfile.Edit.loadWork f) (exOps5.map opM))
    (fun f h => Modfile.Edit.runValidWB_sound _ _ h) (by decide +kernel)

/-- the size hypothesis holds with EXACTLY the driver's fuel -/
theorem ex_size5 : ∀ f, Modfile.parseWork (B "go.work") exWork none = .ok f →
    3 * sessSizeW f exOps5 + 1 ≤ driverFuel exWork exOps5 :=
  of_parsedW exWork (fun f => decide (3 * sessSizeW f exOps5 + 1 ≤ driverFuel exWork exOps5))
    (fun f h => of_decide_eq_true h) (by decide +kernel)

-- `fuelOKW_of_size_partial` on the example
example : ∀ f, Modfile.parseWork (B "go.work") exWork none = .ok f →
    FuelOKW (driverFuel exWork exOps5) (Modfile.Edit.loadWork f) exOps5 ∧
      FinalFuelW (driverFuel exWork exOps5) (Modfile.Edit.loadWork f) exOps5 :=
  fun f hp => fuelOKW_of_size_partial (B "go.work") exWork f exOps5 _ hp (ex_keys5 f hp).1 (ex_keys5 f hp).2 (ex_valid5 f hp)
    ex_notSetUse5 (ex_size5 f hp)

-- `workSession_tie_closed_partial`: the two drivers print the same line
example : Drv.GenEdit.workSession exWork exOps5 = Drv.Edit.M.sessionWork exWork (exOps5.map opM) :=
  workSession_tie_closed_partial exWork exOps5 ex_keys5 ex_valid5 ex_notSetUse5 ex_size5

-- the model run of the example completes (so the `.done` branch of `runWorkOps_tie_closed_partial` is the one taken)
example : (match Modfile.parseWork (B "go.work") exWork none with
    | .ok f =>
      (match Modfile.Edit.runOps applyWork (Modfile.Edit.loadWork f) (exOps5.map opM) [] 0 with
       | .done _ res => res == [true, true, false, true, true, true, true, true, true, true, true, true, true]
       | _ => false)
    | .error _ => false) = true := by decide +kernel

-- the session of Tie/FnEditSessionWork.lean WITH its SetUse (`exWorkOps`), again with exactly the driver's fuel
theorem ex_valid5s : ∀ f, Modfile.parseWork (B "go.work") exWork none = .ok f →
    Modfile.Edit.RunValidW (Modfile.Edit.loadWork f) (exWorkOps.map opM) :=
  of_parsedW exWork (fun f => Modfile.Edit.runValidWB (Modfile.Edit.loadWork f) (exWorkOps.map opM))
    (fun f h => Modfile.Edit.runValidWB_sound _ _ h) (by decide +kernel)

theorem ex_size5s : ∀ f, Modfile.parseWork (B "go.work") exWork none = .ok f →
    3 * sessSizeW f exWorkOps + 1 ≤ driverFuel exWork exWorkOps :=
  of_parsedW exWork (fun f => decide (3 * sessSizeW f exWorkOps + 1 ≤ driverFuel exWork exWorkOps))
    (fun f h => of_decide_eq_true h) (by decide +kernel)

example : ∀ f, Modfile.parseWork (B "go.work") exWork none = .ok f →
    FuelOKW (driverFuel exWork exWorkOps) (Modfile.Edit.loadWork f) exWorkOps ∧
      FinalFuelW (driverFuel exWork exWorkOps) (Modfile.Edit.loadWork f) exWorkOps :=
  fun f hp => fuelOKW_of_size (B "go.work") exWork f exWorkOps _ hp (ex_keys5 f hp).1 (ex_keys5 f hp).2 (ex_valid5s f hp)
    (ex_size5s f hp)

example : Drv.GenEdit.workSession exWork exWorkOps = Drv.Edit.M.sessionWork exWork (exWorkOps.map opM) :=
  workSession_tie_closed exWork exWorkOps ex_keys5 ex_valid5s ex_size5s

-- the sizes of the example (|file| = 89): potential of the loaded file, allowance of the session, the driver's fuel (3·(136+1288)+1 = 4273 ≤ 5384)
example : (match Modfile.parseWork (B "go.work") exWork none with
    | .ok f => (WW (Modfile.Edit.loadWork f), opsR exWorkOps, driverFuel exWork exWorkOps) == (136, 1288, 5384)
    | .error _ => false) = true := by decide +kernel

-- the byte-length hypothesis: `|file| = 89`, fuel 300000 suffices (`3·(408·89 + 102 + 1288) + 1 = 113107`)
theorem ex_length5 : 3 * sessLenW exWork exWorkOps + 1 ≤ 300000 := by decide +kernel

example : ∀ f, Modfile.parseWork (B "go.work") exWork none = .ok f →
    FuelOKW 300000 (Modfile.Edit.loadWork f) exWorkOps ∧ FinalFuelW 300000 (Modfile.Edit.loadWork f) exWorkOps :=
  fun f hp => fuelOKW_of_length (B "go.work") exWork f exWorkOps 300000 hp (ex_keys5 f hp).1 (ex_keys5 f hp).2 (ex_valid5s f hp)
    ex_length5

end examples

end ModVerif.Tie.FnEditClosed5
