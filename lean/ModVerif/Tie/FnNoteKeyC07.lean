/-
  C07 transported to the regenerated code: the two key-binding theorems of Props/C07.lean (`newVerifier_binds_key`,
  `newSigner_binds_key`, anchor "NewVerifier/NewSigner bind key hash to name+key", about the hand model Model/Note.lean)
  restated about `Generated.NoteKey.NewVerifier` / `Generated.NoteKey.NewSigner` (Generated/FnNoteKey.lean, re-translated from
  sumdb/note/note.go on every run) through the tie theorems `NewVerifier_tie` / `NewSigner_tie` (Tie/FnNoteKey.lean), with the
  facts about name and key hash ALSO expressed by the regenerated `isValidName` and `keyHash` (`isValidName_tie`, `keyHash_tie`),
  and the rejection of every key string whose hash field is not exactly eight hex digits.

  Instantiation exactly that of the ties (= the one Drv/GenNoteKey.lean runs): `b64decI`, `isSpaceI`,
  `shaSum acc pre = pre ++ sha acc`, `ed25519.NewKeyFromSeed seed = seed ‖ edPub seed`, and an `ed25519.Sign` function `edSignG`
  on private keys agreeing with the model's seed-indexed `edSign`.  A hypothesis `… = .ok (x, none)` says: the regenerated
  function returned `x` with a nil error (no panic).  Corollaries only — nothing here is used by another module.
-/
import ModVerif.Tie.FnNoteKey
import ModVerif.Props.C07
namespace ModVerif.Tie.FnNoteKeyC07
open ModVerif ModVerif.GoRt ModVerif.Note ModVerif.TieFnNote ModVerif.TieFnNoteSign ModVerif.TieFnNoteKey
open ModVerif.Tie.FnNote ModVerif.Tie.FnNoteSign ModVerif.Tie.FnNoteKey

/-- the regenerated `NewVerifier` returned `(gv, nil)`: then `gv` is the image of the verifier the model returns -/
theorem gen_NewVerifier_ok_inv {sha : Bytes → Bytes} {ed : Bytes → Bytes → Bytes → Bool} {vkey : Bytes} {gv : GVerifier}
    (h : Generated.NoteKey.NewVerifier b64decI ed isSpaceI (fun acc pre => pre ++ sha acc) vkey = .ok (gv, none)) :
    ∃ v, NewVerifier sha ed vkey = .ok v ∧
      gv = { Name := v.name, KeyHash := Int.ofNat v.hash.toNat, Verify := v.verify } := by
  rw [NewVerifier_tie] at h
  exact embedVerifier_ok_inv h

theorem gen_NewVerifier_of_model {sha : Bytes → Bytes} {ed : Bytes → Bytes → Bytes → Bool} {vkey : Bytes} {v : Verifier}
    (h : NewVerifier sha ed vkey = .ok v) :
    Generated.NoteKey.NewVerifier b64decI ed isSpaceI (fun acc pre => pre ++ sha acc) vkey =
      .ok ({ Name := v.name, KeyHash := Int.ofNat v.hash.toNat, Verify := v.verify }, none) := by
  rw [NewVerifier_tie, h]; rfl

/-- the regenerated `NewSigner` returned `(gs, nil)`: then `gs` is the image of the signer the model returns -/
theorem gen_NewSigner_ok_inv {sha : Bytes → Bytes} {edPub : Bytes → Bytes} {edSign edSignG : Bytes → Bytes → Bytes}
    (hsign : ∀ seed msg, seed.length = 32 → edSignG (seed ++ edPub seed) msg = edSign seed msg) {skey : Bytes} {gs : GSigner}
    (h : Generated.NoteKey.NewSigner b64decI (fun seed => seed ++ edPub seed) edSignG isSpaceI
      (fun acc pre => pre ++ sha acc) skey = .ok (gs, none)) :
    ∃ s, NewSigner sha edPub edSign skey = .ok s ∧ gs = gsigner s := by
  rw [NewSigner_tie sha edPub edSign edSignG hsign] at h
  exact embedSigner_ok_inv h

theorem gen_NewSigner_of_model {sha : Bytes → Bytes} {edPub : Bytes → Bytes} {edSign edSignG : Bytes → Bytes → Bytes}
    (hsign : ∀ seed msg, seed.length = 32 → edSignG (seed ++ edPub seed) msg = edSign seed msg) {skey : Bytes} {s : Signer}
    (h : NewSigner sha edPub edSign skey = .ok s) :
    Generated.NoteKey.NewSigner b64decI (fun seed => seed ++ edPub seed) edSignG isSpaceI
      (fun acc pre => pre ++ sha acc) skey = .ok (gsigner s, none) := by
  rw [NewSigner_tie sha edPub edSign edSignG hsign, h]; rfl

/-- `newVerifier_binds_key` for the regenerated code.  A key string the regenerated `NewVerifier` accepts has the form
    `name+hash16+base64(0x01 ‖ pub)`: the verifier's name is the first field and the regenerated `isValidName` accepts it;
    `hash16` is exactly eight hex digits (`len = 8` and `strconv.ParseUint(hash16, 16, 32)` succeeds) whose value is the
    verifier's key hash; the key is 32 bytes behind the algorithm byte 1; the key hash is what the regenerated `keyHash` computes:
    the first four bytes of `sha(name ‖ "\n" ‖ 0x01 ‖ pub)`; and the verifier verifies with `pub`. -/
theorem gen_newVerifier_binds_key {sha : Bytes → Bytes} {ed : Bytes → Bytes → Bytes → Bool} {vkey : Bytes} {gv : GVerifier}
    (h : Generated.NoteKey.NewVerifier b64decI ed isSpaceI (fun acc pre => pre ++ sha acc) vkey = .ok (gv, none)) :
    ∃ hash16 key64 pub, ∃ hsh : UInt32,
      Generated.Note.chop vkey [43] = .ok (gv.Name, (chop vkey [43]).2) ∧
      Generated.Note.chop (chop vkey [43]).2 [43] = .ok (hash16, key64) ∧
      Generated.Note.isValidName isSpaceI gv.Name = true ∧
      len hash16 = 8 ∧ parseUint hash16 16 32 = (gv.KeyHash, none) ∧
      parseHash16 hash16 = some hsh ∧ gv.KeyHash = Int.ofNat hsh.toNat ∧
      b64decI key64 = (1 :: pub, none) ∧ pub.length = 32 ∧
      Generated.Note.keyHash (fun acc pre => pre ++ sha acc) gv.Name (1 :: pub) = .ok gv.KeyHash ∧
      keyHash sha gv.Name (1 :: pub) = some hsh ∧ be32 (sha (gv.Name ++ [10] ++ 1 :: pub)) = some hsh ∧
      gv.Verify = ed pub := by
  obtain ⟨v, hv, rfl⟩ := gen_NewVerifier_ok_inv h
  obtain ⟨hash16, key64, pub, hname, hchop, hvalid, hparse, hb64, hlen, hkh, hver⟩ := Props.C07.newVerifier_binds_key hv
  obtain ⟨h8, hu⟩ := parseHash16_some hparse
  refine ⟨hash16, key64, pub, v.hash, ?_, ?_, ?_, h8, hu, hparse, rfl, ?_, hlen, ?_, hkh, hkh, hver⟩
  · rw [chop_tie]; simp only [hname]
  · rw [chop_tie, ← hchop]
  · rw [isValidName_tie]; exact hvalid
  · simp [b64decI, hb64]
  · rw [keyHash_tie, hkh]; rfl

/-- `newSigner_binds_key` for the regenerated code.  A key string the regenerated `NewSigner` accepts has the form
    `PRIVATE+KEY+name+hash16+base64(0x01 ‖ seed)` with a name the regenerated `isValidName` accepts, exactly eight hex digits,
    a 32-byte seed, and `hash16` equal to what the regenerated `keyHash` computes for the PUBLIC key `0x01 ‖ edPub seed` —
    the (name, hash) the regenerated `NewVerifier` binds to that public key; the signer signs with the seed. -/
theorem gen_newSigner_binds_key {sha : Bytes → Bytes} {edPub : Bytes → Bytes} {edSign edSignG : Bytes → Bytes → Bytes}
    (hsign : ∀ seed msg, seed.length = 32 → edSignG (seed ++ edPub seed) msg = edSign seed msg) {skey : Bytes} {gs : GSigner}
    (h : Generated.NoteKey.NewSigner b64decI (fun seed => seed ++ edPub seed) edSignG isSpaceI
      (fun acc pre => pre ++ sha acc) skey = .ok (gs, none)) :
    ∃ hash16 key64 seed, ∃ hsh : UInt32,
      (chop skey [43]).1 = B "PRIVATE" ∧ (chop (chop skey [43]).2 [43]).1 = B "KEY" ∧
      gs.Name = (chop (chop (chop skey [43]).2 [43]).2 [43]).1 ∧
      Generated.Note.chop (chop (chop (chop skey [43]).2 [43]).2 [43]).2 [43] = .ok (hash16, key64) ∧
      Generated.Note.isValidName isSpaceI gs.Name = true ∧
      len hash16 = 8 ∧ parseUint hash16 16 32 = (gs.KeyHash, none) ∧
      parseHash16 hash16 = some hsh ∧ gs.KeyHash = Int.ofNat hsh.toNat ∧
      b64decI key64 = (1 :: seed, none) ∧ seed.length = 32 ∧
      Generated.Note.keyHash (fun acc pre => pre ++ sha acc) gs.Name (1 :: edPub seed) = .ok gs.KeyHash ∧
      keyHash sha gs.Name (1 :: edPub seed) = some hsh ∧
      gs.Sign = fun msg => (edSign seed msg, none) := by
  obtain ⟨s, hs, rfl⟩ := gen_NewSigner_ok_inv hsign h
  obtain ⟨hash16, key64, seed, hp1, hp2, hname, hchop, hvalid, hparse, hb64, hlen, hkh, hsg⟩ :=
    Props.C07.newSigner_binds_key hs
  obtain ⟨h8, hu⟩ := parseHash16_some hparse
  refine ⟨hash16, key64, seed, s.hash, hp1, hp2, hname, ?_, ?_, h8, hu, hparse, rfl, ?_, hlen, ?_, hkh, ?_⟩
  · rw [chop_tie, ← hchop]
  · rw [isValidName_tie]; exact hvalid
  · simp [b64decI, hb64]
  · rw [keyHash_tie]
    show (match keyHash sha s.name (1 :: edPub seed) with | some h => _ | none => _) = _
    rw [hkh]; rfl
  · simp only [gsigner, hsg]

/-- The regenerated `NewVerifier` rejects (errVerifierID) every key string whose second `+`-separated field is not exactly
    eight hex digits — whatever the rest of the string, the hash function and the key. -/
theorem gen_newVerifier_rejects_bad_hash (sha : Bytes → Bytes) (ed : Bytes → Bytes → Bytes → Bool) (vkey : Bytes)
    (hbad : parseHash16 (chop (chop vkey [43]).2 [43]).1 = none) :
    Generated.NoteKey.NewVerifier b64decI ed isSpaceI (fun acc pre => pre ++ sha acc) vkey =
      .ok (default, some "errVerifierID") := by
  have hm : NewVerifier sha ed vkey = .error .id := by
    unfold NewVerifier
    rcases hc1 : chop vkey [43] with ⟨name, v1⟩
    rw [hc1] at hbad
    rcases hc2 : chop v1 [43] with ⟨h16, k64⟩
    simp only [hc2] at hbad
    simp only [hc2, hbad]
  rw [NewVerifier_tie, hm]; rfl

/-- likewise the regenerated `NewSigner` (errSignerID) for its fourth field -/
theorem gen_newSigner_rejects_bad_hash (sha : Bytes → Bytes) (edPub : Bytes → Bytes) (edSign edSignG : Bytes → Bytes → Bytes)
    (hsign : ∀ seed msg, seed.length = 32 → edSignG (seed ++ edPub seed) msg = edSign seed msg) (skey : Bytes)
    (hbad : parseHash16 (chop (chop (chop (chop skey [43]).2 [43]).2 [43]).2 [43]).1 = none) :
    Generated.NoteKey.NewSigner b64decI (fun seed => seed ++ edPub seed) edSignG isSpaceI
      (fun acc pre => pre ++ sha acc) skey = .ok (default, some "errSignerID") := by
  have hm : NewSigner sha edPub edSign skey = .error .id := by
    unfold NewSigner
    rcases hc1 : chop skey [43] with ⟨p1, s1⟩
    rw [hc1] at hbad
    rcases hc2 : chop s1 [43] with ⟨p2, s2⟩
    simp only [hc2] at hbad
    rcases hc3 : chop s2 [43] with ⟨name, s3⟩
    simp only [hc3] at hbad
    rcases hc4 : chop s3 [43] with ⟨h16, k64⟩
    simp only [hc4] at hbad
    simp only [hc2, hc3, hc4, hbad]
  rw [NewSigner_tie sha edPub edSign edSignG hsign, hm]; rfl

/-! ### non-vacuity: the hypotheses hold for the example keys of Tie/FnNoteKey.lean -/

/-- `gen_newVerifier_binds_key`, `gen_NewVerifier_ok_inv`: the example key string is accepted (nil error) -/
example : ∃ gv, Generated.NoteKey.NewVerifier b64decI (fun _ _ _ => true) isSpaceI (fun acc pre => pre ++ exSha acc) exVkey =
    .ok (gv, none) :=
  ⟨_, gen_NewVerifier_of_model (v := ⟨[97], 1, fun _ _ => true⟩) (by rfl)⟩

/-- `gen_NewVerifier_of_model`: the model accepts the example key -/
example : (NewVerifier exSha (fun _ _ _ => true) exVkey).toOption.map (fun v => (v.name, v.hash)) = some (B "a", 1) := by
  decide +kernel

/-- `gen_newSigner_binds_key`, `gen_NewSigner_ok_inv`: the example signer key is accepted (nil error), with a signing
    function satisfying `hsign` -/
example : (∀ seed msg, seed.length = 32 →
      (fun key => exSign (key.take 32)) (seed ++ (fun _ => List.replicate 32 0) seed) msg = exSign seed msg) ∧
    ∃ gs, Generated.NoteKey.NewSigner b64decI (fun seed => seed ++ (fun _ => List.replicate 32 0) seed)
      (fun key => exSign (key.take 32)) isSpaceI (fun acc pre => pre ++ exSha acc) exSkey = .ok (gs, none) := by
  have hs : ∀ seed msg, seed.length = 32 →
      (fun key => exSign (key.take 32)) (seed ++ (fun _ => List.replicate 32 0) seed) msg = exSign seed msg :=
    fun seed msg hl => by simp [← hl]
  refine ⟨hs, ?_⟩
  have h : obsS (Generated.NoteKey.NewSigner b64decI (fun seed => seed ++ (fun _ => List.replicate 32 0) seed)
      (fun key => exSign (key.take 32)) isSpaceI (fun acc pre => pre ++ exSha acc) exSkey) = some (B "a", 1, [7, 5], none) := by
    decide +kernel
  revert h
  generalize Generated.NoteKey.NewSigner b64decI (fun seed => seed ++ (fun _ => List.replicate 32 0) seed)
      (fun key => exSign (key.take 32)) isSpaceI (fun acc pre => pre ++ exSha acc) exSkey = r
  intro h
  match r, h with
  | .ok (s, e), h =>
    simp only [obsS, Option.some.injEq, Prod.mk.injEq] at h
    exact ⟨s, by rw [h.2.2.2]⟩
  | .error _, h => simp [obsS] at h

/-- `gen_NewSigner_of_model`: the model accepts the example signer key -/
example : (NewSigner exSha (fun _ => List.replicate 32 0) exSign exSkey).toOption.map (fun s => (s.name, s.hash)) =
    some (B "a", 1) := by decide +kernel

/-- `gen_newVerifier_rejects_bad_hash` / `gen_newSigner_rejects_bad_hash`: seven digits, a non-hex digit, nine digits -/
example : parseHash16 (chop (chop (B "a+0000001+AQ==") [43]).2 [43]).1 = none ∧
    parseHash16 (chop (chop (B "a+0000000g+AQ==") [43]).2 [43]).1 = none ∧
    parseHash16 (chop (chop (B "a+000000001+AQ==") [43]).2 [43]).1 = none ∧
    parseHash16 (chop (chop (chop (chop (B "PRIVATE+KEY+a+0000001+AQ==") [43]).2 [43]).2 [43]).2 [43]).1 = none := by
  decide +kernel

end ModVerif.Tie.FnNoteKeyC07
