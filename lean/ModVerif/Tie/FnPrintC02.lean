/-
  C02 transported to the regenerated code: the property theorems of Props/C02.lean that speak about the hand model's
  `Modfile.format` restated about `Generated.Print.Format` (Generated/FnPrint.lean, re-translated from modfile/print.go on
  every run) through `Tie.FnPrint.Format_tie`.  The tree handed to the regenerated printer is the embedding
  `Drv.GenPrint.G.file` of the model's tree (what the driver op `gmodfile.format` runs); the parser is still the hand
  model `Modfile.parse` (the regenerated lexer is tied separately in Tie/FnLex.lean; the parser is not regenerated).
  Every statement holds for ALL fuel at or above `fuelBound` of the tree that is printed and is an equation about the
  result `.ok …`, so it also says: no panic and no fuel exhaustion.  Corollaries only.
-/
import ModVerif.Tie.FnPrint
import ModVerif.Props.C02
namespace ModVerif.Tie.FnPrintC02
open ModVerif ModVerif.GoRt ModVerif.Modfile ModVerif.TieFnPrint ModVerif.Tie.FnPrint
open ModVerif.Drv.GenPrint (G.file)

/-- the regenerated `Format` never ends its output with a blank line -/
theorem gen_format_no_trailing_blank_line (f : FileSyntax) (fuel : Nat) (hf : fuelBound f ≤ fuel) :
    ∃ b, Generated.Print.Format fuel (G.file f) = .ok b ∧ b ≠ [10] ∧ ∀ pre, b ≠ pre ++ [10, 10] :=
  ⟨_, Format_tie f fuel hf, Props.C02.format_no_trailing_blank_line f⟩

example : ∃ b, Generated.Print.Format 157 (G.file exF) = .ok b ∧ b ≠ [10] ∧ ∀ pre, b ≠ pre ++ [10, 10] :=
  gen_format_no_trailing_blank_line exF 157 (by decide +kernel)

open Proofs.ModfileEol Proofs.ModfileFmtTree in
/-- ★ clause 1 on the regenerated printer: for an accepted input whose tree satisfies `EolCount`, the output of the
    regenerated `Format` re-parses to the same tree up to positions / line identities with comment texts trimmed. -/
theorem gen_format_parse_syntax_partial2 (name x : Bytes) (t : FileSyntax) (h : parse name x = .ok t) (hok : EolCount t)
    (fuel : Nat) (hf : fuelBound t ≤ fuel) :
    ∃ b t', Generated.Print.Format fuel (G.file t) = .ok b ∧ parse name b = .ok t' ∧
      eraseFile t' = normFileE t ∧ EolCount t' := by
  obtain ⟨t', h1, h2, h3⟩ := Props.C02.format_parse_syntax_partial2 name x t h hok
  exact ⟨_, t', Format_tie t fuel hf, h1, h2, h3⟩

open Proofs.ModfileEol in
/-- ★ clause 2 on the regenerated printer: formatting the re-parsed output again gives the same bytes (hypothesis
    `EolCount`, without which the statement is false: `Props.C02.C02_violated_format_not_idempotent`). -/
theorem gen_format_idempotent_partial2 (name x : Bytes) (t t' : FileSyntax) (h : parse name x = .ok t) (hok : EolCount t)
    (b : Bytes) (fuel fuel' : Nat) (hf : fuelBound t ≤ fuel) (hf' : fuelBound t' ≤ fuel')
    (hb : Generated.Print.Format fuel (G.file t) = .ok b) (h' : parse name b = .ok t') :
    Generated.Print.Format fuel' (G.file t') = .ok b := by
  rw [Format_tie t fuel hf] at hb
  cases hb
  rw [Format_tie t' fuel' hf', Props.C02.format_idempotent_partial2 name x t t' h hok h']

end ModVerif.Tie.FnPrintC02
