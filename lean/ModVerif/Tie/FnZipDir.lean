/-
  Tie theorems, zip/zip.go, the directory functions: `listFilesInDir` (line 948, with its walk closure
  `listFilesInDir_walkFn1`), `dirFile.Path/Lstat/Open` (752–754), `CheckFiles` (193), `CheckDir` (368, with its three
  path-rewriting loops) and `CreateFromDir` (585), as regenerated from the Go source by go2lean (`Generated/FnZip.lean`),
  compute exactly what the hand model (`Model/Zip.lean`, section "directory trees": `Zip.listFilesInDir` = `Zip.walkChildren`,
  `Zip.checkDir`, `Zip.createFromDir`; `Zip.checkFilesV`) says — no panic, no fuel exhaustion.

  World.  `filepath.Walk(dir, fn)` is translated as `GoRt.walkTree fn fuel dir (walkRoot dir) (omitted, files)`
  (Basic/GoRtWalk.lean: the ASSUMED behaviour of Walk over a directory tree given as a value, `SkipDir` included — trusted
  base, proved against as it is).  `walkRoot`, `os.ReadFile`, `os.Lstat`, `os.Open` are parameters: what the file system
  holds.  The theorems hold for EVERY directory path `d` (clean or not, relative or absolute, "." and "/" included) and all
  parameters that present one model tree `children`:
  * `walkRoot d = toFs (.dir children)` (`toFs`: Drv/GenZipDir.lean — a file node becomes its `FileInfo` with the mode bits
    `modeBits`, a directory lists its entries in the given order);
  * `ChildrenOK osLstat osOpenRead d [] children` (Proofs/TieFnZipDirWalk.lean), a recursive predicate over the tree: every
    name is an ordinary path element (`NormalElem`: not empty, not "." or "..", no slash — as ReadDir returns them); no file
    node has `Mode.lstatErr` (the walk's own Lstat calls succeeded: `GoRt.walkTree` assumes that); `os.Open` of the file
    path `fp d rel` (= `filepath.Join(d, rel)`) of every REGULAR file yields the node's content; and for every directory
    below the root, `os.Lstat(filepath.Join(<its file path>, "go.mod"))` succeeds with a non-directory exactly when the
    directory has a non-directory entry "go.mod" (`lstatGoMod … = Zip.hasGoModFile cs`);
  * the go ≥ 1.24 flag of the model is `version.Compare(vers, "go1.24") >= 0` for the version string `versDir` the code
    extracts itself: `version.Lang(parseGoVers("go.mod", data))` when `os.ReadFile(filepath.Join(d, "go.mod"))` succeeds,
    "" otherwise.  `parseGoVers`, `version.Lang`, `version.Compare` stay arbitrary.
  `driver_reads_tree` proves that the functions the driver builds from a model tree (`Drv/GenZipDir.lean`: `lookup` by name
  below the root "t") satisfy these hypotheses for every tree with ordinary, pairwise distinct sibling names and no failed
  Lstat; the examples evaluate both sides in the kernel.

  Results.  Files are the model's `FileInfo` through the driver's `toGFile` (Path = slash path, Lstat = the node's info,
  Open = the content); the omitted list carries `Err := some (reasonTextD r)` ("errVendored" / "errVCS" / "errSubmoduleDir" /
  "errNotRegular").  `CheckDir` returns `embDir d (Zip.checkDir …)`: the model's report with every path `filepath.Join(d, ·)`,
  omitted entries with `reasonTextD`, invalid entries with `reasonText` (the texts of `checkFiles`), and as error the text of
  the model's `.err`.  `CheckFiles` / `CheckDir` / `CreateFromDir` take the remaining hypotheses of `checkFiles_tie` and
  `Create_tie` (Tie/FnZipCheckFiles.lean, Tie/FnZipIOCreate.lean) unchanged: `FoldsTo`, `E.toFold = Zip.strToFold`,
  `EqualFold`/`ToLower` agree with the model on "go.mod", `hv` (the flag `checkFiles` derives from the listed files is the
  model's `Zip.goVers`; `goVers_of_flags` there reduces it to facts about the go.mod contents) and, for `CreateFromDir`,
  `hmod`.  `CreateFromDir_tie` uses `Create_tie` of Tie/FnZipIOCreate.lean (no hypothesis about `Create` is left).

  Fuel: `listFuel children + 1` for the walk (one unit per node and per end of a directory);
  `dirFuel K ge124 children = 3 * listFuel children + fuelBound K <listed files>` for `CheckDir` / `CreateFromDir`.
-/
import ModVerif.Generated.FnZip
import ModVerif.Model.Zip
import ModVerif.Drv.GenZip
import ModVerif.Drv.GenZipDir
import ModVerif.Tie.FnZipCheckFiles
import ModVerif.Tie.FnZipIOCreate
import ModVerif.Proofs.TieFnZipDirCheck
import ModVerif.Proofs.TieFnZipDirDrv
namespace ModVerif.Tie.FnZipDir
open ModVerif ModVerif.GoRt ModVerif.GoRtZip ModVerif.TieFnZip ModVerif.TieFnZipCf ModVerif.TieFnZipIOCreate
open ModVerif.TieFnZipDir ModVerif.ZipSpec
open ModVerif.Generated.Zip (File FileError FileInfo CheckedFiles)
open ModVerif.Drv.GenZip (toGFile modeBits simpleFoldI versionCompareI)
open ModVerif.Drv.GenZipDir (toFs toFsList dirInfo lookup)
open ModVerif.Drv.Zip (tdir)

section
variable (osLstat : Bytes → (FileInfo × Option String)) (osOpenRead : Bytes → (Bytes × Option String))
  (osReadFile : Bytes → (Bytes × Option String)) (parseGoVers : Bytes → Bytes → Bytes)
  (versionCompare : Bytes → Bytes → Int) (versionLang : Bytes → Bytes) (walkRoot : Bytes → FsTree FileInfo)

/-- ★ `listFilesInDir(d)`: the files and the omitted entries are the model's listing, in walk order; no error. -/
theorem listFilesInDir_tie (d : Bytes) (ge124 : Bool)
    (hg : ge124 = decide (0 ≤ versionCompare (versDir osReadFile parseGoVers versionLang d) go124))
    (children : List (Bytes × Zip.Node)) (hroot : walkRoot d = toFs (.dir children))
    (hok : ChildrenOK osLstat osOpenRead d [] children) (fuel : Nat) (hfuel : listFuel children + 1 ≤ fuel) :
    Generated.Zip.listFilesInDir osLstat osOpenRead osReadFile parseGoVers versionCompare versionLang walkRoot fuel d =
      .ok ((Zip.listFilesInDir ge124 children).files.map toGFile,
           (Zip.listFilesInDir ge124 children).omitted.map embOm, none) :=
  listFilesInDir_eq osLstat osOpenRead osReadFile parseGoVers versionCompare versionLang walkRoot d ge124 hg children hroot
    hok fuel hfuel

/-- the simulation behind it: the assumed walk over the entries of a directory with slash path `rel`, running the closure
    of `listFilesInDir`, appends the model's `Zip.walkChildren` to the captured variables and ends without error -/
theorem walkChildren_tie (d vers : Bytes) (fuel0 : Nat) (ge124 : Bool)
    (hg : ge124 = decide (0 ≤ versionCompare vers go124)) (cs : List (Bytes × Zip.Node)) (rel : Bytes)
    (st : List FileError × List File) (fuel : Nat) (hr : RelOK rel) (hok : ChildrenOK osLstat osOpenRead d rel cs)
    (hfuel : listFuel cs ≤ fuel) :
    GoRt.walkChildren (cb osLstat osOpenRead osReadFile parseGoVers versionCompare versionLang walkRoot fuel0 d vers) fuel
        (fp d rel) (toFsList cs) st =
      .ok (none, addL st (Zip.walkChildren ge124 rel cs)) :=
  walkChildren_sim osLstat osOpenRead osReadFile parseGoVers versionCompare versionLang walkRoot fuel0 d vers ge124 hg cs rel
    st fuel hr hok hfuel

end

/-! ### dirFile -/

/-- `dirFile.Path` is the slash path -/
theorem dirFile_Path_tie (f : Generated.Zip.dirFile) : Generated.Zip.dirFile_Path f = f.slashPath := rfl

/-- `dirFile.Lstat` is the info the walk handed over, without error -/
theorem dirFile_Lstat_tie (f : Generated.Zip.dirFile) : Generated.Zip.dirFile_Lstat f = (f.info, none) := rfl

/-- `dirFile.Open` opens the file path -/
theorem dirFile_Open_tie (osOpenRead : Bytes → (Bytes × Option String)) (f : Generated.Zip.dirFile) :
    Generated.Zip.dirFile_Open osOpenRead f = osOpenRead f.filePath := rfl

/-- the `File` the walk appends for a regular file node is the model's file through `toGFile` -/
theorem dirFile_tie (osOpenRead : Bytes → (Bytes × Option String)) (d rel : Bytes) (size : Int) (content : Bytes) (g : Bool)
    (hopen : osOpenRead (fp d rel) = (content, none)) :
    let f : Generated.Zip.dirFile :=
      { filePath := fp d rel, slashPath := rel, info := { Mode := modeBits .regular, IsDir := false, Size := size } }
    ({ Path := Generated.Zip.dirFile_Path f, Lstat := Generated.Zip.dirFile_Lstat f,
       Open := Generated.Zip.dirFile_Open osOpenRead f } : File) = toGFile ⟨rel, .regular, size, content, g⟩ := by
  simp [Generated.Zip.dirFile_Path, Generated.Zip.dirFile_Lstat, Generated.Zip.dirFile_Open, hopen, toGFile, modeBits]

/-! ### CheckFiles, CheckDir, CreateFromDir -/

section
variable (E : Zip.Env) (equalFold : Bytes → Bytes → Bool)
  (osLstat : Bytes → (FileInfo × Option String)) (osOpenRead : Bytes → (Bytes × Option String))
  (osReadFile : Bytes → (Bytes × Option String)) (parseGoVers : Bytes → Bytes → Bytes) (simpleFold : Int → Int)
  (toLower : Bytes → Bytes) (versionCompare : Bytes → Bytes → Int) (versionLang : Bytes → Bytes)
  (walkRoot : Bytes → FsTree FileInfo) (K : Nat)

/-- ★ `CheckFiles(files)`: the model's report `Zip.checkFilesV` and the text of its `.err` -/
theorem CheckFiles_tie (hsf : FoldsTo simpleFold K) (hE : E.toFold = Zip.strToFold)
    (hef : ∀ s, equalFold s Zip.goModName = Zip.equalFoldGoMod s)
    (htl : ∀ s, decide (toLower s = Zip.goModName) = Zip.toLowerIsGoMod s) (files : List Zip.FileInfo)
    (hv : decide (0 ≤ versionCompare (versOf parseGoVers versionLang files) go124) = Zip.goVers files)
    (fuel : Nat) (hfuel : fuelBound K files ≤ fuel) :
    Generated.Zip.CheckFiles (cfpOf E) equalFold parseGoVers simpleFold toLower versionCompare versionLang fuel
        (files.map toGFile) =
      .ok (embCF (Zip.checkFilesV E files), (Zip.checkFilesV E files).err.map errKindText) :=
  CheckFiles_eq E equalFold parseGoVers simpleFold toLower versionCompare versionLang K hsf hE hef htl files hv fuel hfuel

/-- ★ `CheckDir(d)`: the model's `Zip.checkDir` with every path joined with `d`, and the text of its `.err` -/
theorem CheckDir_tie (hsf : FoldsTo simpleFold K) (hE : E.toFold = Zip.strToFold)
    (hef : ∀ s, equalFold s Zip.goModName = Zip.equalFoldGoMod s)
    (htl : ∀ s, decide (toLower s = Zip.goModName) = Zip.toLowerIsGoMod s)
    (d : Bytes) (ge124 : Bool)
    (hg : ge124 = decide (0 ≤ versionCompare (versDir osReadFile parseGoVers versionLang d) go124))
    (children : List (Bytes × Zip.Node)) (hroot : walkRoot d = toFs (.dir children))
    (hok : ChildrenOK osLstat osOpenRead d [] children)
    (hv : decide (0 ≤ versionCompare (versOf parseGoVers versionLang (Zip.listFilesInDir ge124 children).files) go124) =
      Zip.goVers (Zip.listFilesInDir ge124 children).files)
    (fuel : Nat) (hfuel : dirFuel K ge124 children ≤ fuel) :
    Generated.Zip.CheckDir (cfpOf E) equalFold osLstat osOpenRead osReadFile parseGoVers simpleFold toLower versionCompare
        versionLang walkRoot fuel d =
      .ok (embDir d (Zip.checkDir E ge124 children), (Zip.checkDir E ge124 children).err.map errKindText) :=
  CheckDir_eq E equalFold osLstat osOpenRead osReadFile parseGoVers simpleFold toLower versionCompare versionLang walkRoot d
    K hsf hE hef htl ge124 hg children hroot hok hv fuel hfuel

/-- ★ `CreateFromDir(w, m, d)` from the empty writer world: the error is the embedding of the model's
    `Zip.createFromDir` (`none` iff it succeeds; a `zipError` passes the deferred wrapper unchanged), the world is what
    `Create` wrote for the listed files (`createWorld`, Proofs/TieFnZipIOCreate.lean) -/
theorem CreateFromDir_tie (canonicalVersion : Bytes → Bytes) (moduleCheck : Bytes → Bytes → Option String)
    (hsf : FoldsTo simpleFold K) (hE : E.toFold = Zip.strToFold)
    (hef : ∀ s, equalFold s Zip.goModName = Zip.equalFoldGoMod s)
    (htl : ∀ s, decide (toLower s = Zip.goModName) = Zip.toLowerIsGoMod s)
    (p v : Bytes) (hmod : (canonicalVersion v = v ∧ moduleCheck p v = none) ↔ E.modOK p v = true)
    (d : Bytes) (ge124 : Bool)
    (hg : ge124 = decide (0 ≤ versionCompare (versDir osReadFile parseGoVers versionLang d) go124))
    (children : List (Bytes × Zip.Node)) (hroot : walkRoot d = toFs (.dir children))
    (hok : ChildrenOK osLstat osOpenRead d [] children)
    (hv : decide (0 ≤ versionCompare (versOf parseGoVers versionLang (Zip.listFilesInDir ge124 children).files) go124) =
      Zip.goVers (Zip.listFilesInDir ge124 children).files)
    (fuel : Nat) (hfuel : dirFuel K ge124 children ≤ fuel) :
    Generated.Zip.CreateFromDir canonicalVersion (cfpOf E) equalFold moduleCheck osLstat osOpenRead osReadFile parseGoVers
        simpleFold toLower versionCompare versionLang walkRoot fuel () { Path := p, Version := v } d [] =
      .ok (embCreateRes (badModuleText canonicalVersion moduleCheck p v) (Zip.createFromDir E p v ge124 children),
           createWorld E p v (Zip.listFilesInDir ge124 children).files) :=
  CreateFromDir_eq E equalFold osLstat osOpenRead osReadFile parseGoVers simpleFold toLower versionCompare versionLang
    walkRoot d K canonicalVersion moduleCheck hsf hE hef htl p v hmod ge124 hg children hroot hok hv fuel hfuel

/-- success: when the model creates the entries `es` from the directory, the generated `CreateFromDir` returns no error and
    has written exactly these entries (name, content), in order -/
theorem CreateFromDir_tie_ok (canonicalVersion : Bytes → Bytes) (moduleCheck : Bytes → Bytes → Option String)
    (hsf : FoldsTo simpleFold K) (hE : E.toFold = Zip.strToFold)
    (hef : ∀ s, equalFold s Zip.goModName = Zip.equalFoldGoMod s)
    (htl : ∀ s, decide (toLower s = Zip.goModName) = Zip.toLowerIsGoMod s)
    (p v : Bytes) (hmod : (canonicalVersion v = v ∧ moduleCheck p v = none) ↔ E.modOK p v = true)
    (d : Bytes) (ge124 : Bool)
    (hg : ge124 = decide (0 ≤ versionCompare (versDir osReadFile parseGoVers versionLang d) go124))
    (children : List (Bytes × Zip.Node)) (hroot : walkRoot d = toFs (.dir children))
    (hok : ChildrenOK osLstat osOpenRead d [] children)
    (hv : decide (0 ≤ versionCompare (versOf parseGoVers versionLang (Zip.listFilesInDir ge124 children).files) go124) =
      Zip.goVers (Zip.listFilesInDir ge124 children).files)
    (fuel : Nat) (hfuel : dirFuel K ge124 children ≤ fuel) (es : List Zip.Entry)
    (h : Zip.createFromDir E p v ge124 children = .ok es) :
    Generated.Zip.CreateFromDir canonicalVersion (cfpOf E) equalFold moduleCheck osLstat osOpenRead osReadFile parseGoVers
        simpleFold toLower versionCompare versionLang walkRoot fuel () { Path := p, Version := v } d [] =
      .ok (none, es.map (fun e => (e.name, e.content))) := by
  rw [CreateFromDir_tie E equalFold osLstat osOpenRead osReadFile parseGoVers simpleFold toLower versionCompare versionLang
    walkRoot K canonicalVersion moduleCheck hsf hE hef htl p v hmod d ge124 hg children hroot hok hv fuel hfuel, h,
    Tie.FnZipIOCreate.createWorld_ok E p v _ es h]
  rfl

end

/-! ### the driver's file system and non-vacuity -/

/-- ★ the file system the driver builds from a model tree (`drvWalkRoot`, `drvLstat`, `drvOpen`: Proofs/TieFnZipDirDrv.lean,
    transcribed from `Drv/GenZipDir.lean` `env`: the tree sits at the directory "t", paths are looked up by name) satisfies
    the hypotheses of the ties for EVERY tree with ordinary, pairwise distinct sibling names and no failed `Lstat`
    (`DrvChildren`) -/
theorem driver_reads_tree (root : List (Bytes × Zip.Node)) (h : DrvChildren root) :
    drvWalkRoot root tdir = toFs (.dir root) ∧ ChildrenOK (drvLstat root) (drvOpen root) tdir [] root :=
  driver_reads root h

/-- `listFilesInDir` as the driver runs it -/
theorem listFilesInDir_tie_driver (g : Bool) (fs : List Zip.FileInfo) (root : List (Bytes × Zip.Node))
    (h : DrvChildren root) (ge124 : Bool)
    (hg : ge124 = decide (0 ≤ versionCompareI (versDir (drvReadFile g root) (drvPgv fs) id tdir) go124))
    (fuel : Nat) (hfuel : listFuel root + 1 ≤ fuel) :
    Generated.Zip.listFilesInDir (drvLstat root) (drvOpen root) (drvReadFile g root) (drvPgv fs) versionCompareI id
        (drvWalkRoot root) fuel tdir =
      .ok ((Zip.listFilesInDir ge124 root).files.map toGFile, (Zip.listFilesInDir ge124 root).omitted.map embOm, none) :=
  listFilesInDir_tie (drvLstat root) (drvOpen root) (drvReadFile g root) (drvPgv fs) versionCompareI id (drvWalkRoot root)
    tdir ge124 hg root (driver_reads root h).1 (driver_reads root h).2 fuel hfuel

/-- the flat list the example's `parseGoVers` stand-in knows: the root go.mod declares go 1.24 -/
def exFs : List Zip.FileInfo := [⟨B "go.mod", .regular, 7, B "go 1.24", true⟩]

def exPgv : Bytes → Bytes → Bytes := drvPgv exFs

def exEnv : Zip.Env := { cfp := fun p => !p.isEmpty, toFold := Zip.strToFold, modOK := fun _ _ => true }

/-- every rule of the walk occurs: a VCS directory (skipped), a nested module (skipped), a symbolic link (omitted), a
    vendored package directory (reported AND walked: its file is reported, too), `vendor/modules.txt` (omitted from
    go 1.24 on), and regular files at the root and below -/
def exTree : List (Bytes × Zip.Node) :=
  [(B ".git", .dir [(B "config", .file .regular 1 (B "c") false)]),
   (B "a", .dir [(B "b.go", .file .regular 1 (B "x") false)]),
   (B "go.mod", .file .regular 7 (B "go 1.24") true),
   (B "link", .file .symlink 0 [] false),
   (B "sub", .dir [(B "c.go", .file .regular 1 (B "y") false), (B "go.mod", .file .regular 0 [] false)]),
   (B "vendor", .dir [(B "modules.txt", .file .regular 1 (B "m") false),
     (B "p", .dir [(B "q", .dir [(B "r.go", .file .regular 1 (B "z") false)])])])]

/-- the hypotheses of the ties hold on the example tree with the driver's file system -/
theorem driverOK : DrvChildren exTree ∧
    true = decide (0 ≤ versionCompareI (versDir (drvReadFile true exTree) exPgv id tdir) go124) ∧
    decide (0 ≤ versionCompareI (versOf exPgv id (Zip.listFilesInDir true exTree).files) go124) =
      Zip.goVers (Zip.listFilesInDir true exTree).files := by
  refine ⟨?_, by decide +kernel, by decide +kernel⟩
  simp only [exTree, DrvChildren, DrvNode, NormalElem, List.forall_mem_cons, List.not_mem_nil, false_imp_iff, implies_true,
    and_true]
  repeat' apply And.intro
  all_goals first | trivial | decide +kernel

/-- `listFilesInDir` on the example: the generated function and the model agree (both sides evaluated by the kernel) … -/
example : Generated.Zip.listFilesInDir (drvLstat exTree) (drvOpen exTree) (drvReadFile true exTree) exPgv versionCompareI id
      (drvWalkRoot exTree) (listFuel exTree + 1) tdir =
    .ok ((Zip.listFilesInDir true exTree).files.map toGFile, (Zip.listFilesInDir true exTree).omitted.map embOm, none) := by
  decide +kernel

/-- … and this is the listing -/
example : (Zip.listFilesInDir true exTree).files.map (·.path) = [B "a/b.go", B "go.mod"] ∧
    (Zip.listFilesInDir true exTree).omitted.map embOm =
      [⟨B ".git", some "errVCS"⟩, ⟨B "link", some "errNotRegular"⟩, ⟨B "sub", some "errSubmoduleDir"⟩,
       ⟨B "vendor/modules.txt", some "errVendored"⟩, ⟨B "vendor/p/q", some "errVendored"⟩,
       ⟨B "vendor/p/q/r.go", some "errVendored"⟩] := by decide +kernel

/-- `CheckFiles` on the example list of Tie/FnZipCheckFiles.lean (every rule of `checkFiles` occurs): report and error -/
example : Generated.Zip.CheckFiles (cfpOf FnZipCheckFiles.exEnv) (fun a _ => Zip.equalFoldGoMod a)
      (FnZipCheckFiles.pgvDriver FnZipCheckFiles.exFiles) simpleFoldI (fun s => s.map Zip.asciiLower) versionCompareI id
      (FnZipCheckFiles.driverFuel FnZipCheckFiles.exFiles) (FnZipCheckFiles.exFiles.map toGFile) =
    .ok (embCF (Zip.checkFilesV FnZipCheckFiles.exEnv FnZipCheckFiles.exFiles), some "FileErrorList") ∧
    (Zip.checkFilesV FnZipCheckFiles.exEnv FnZipCheckFiles.exFiles).err.map errKindText = some "FileErrorList" := by
  decide +kernel

/-- `CheckDir` on the example: generated = embedded model; the paths carry the directory -/
example : Generated.Zip.CheckDir (cfpOf exEnv) (fun a _ => Zip.equalFoldGoMod a) (drvLstat exTree) (drvOpen exTree)
      (drvReadFile true exTree) exPgv simpleFoldI (fun s => s.map Zip.asciiLower) versionCompareI id (drvWalkRoot exTree)
      (dirFuel 1 true exTree) tdir =
    .ok (embDir tdir (Zip.checkDir exEnv true exTree), (Zip.checkDir exEnv true exTree).err.map errKindText) ∧
    (embDir tdir (Zip.checkDir exEnv true exTree)).Valid = [B "t/a/b.go", B "t/go.mod"] := by decide +kernel

/-- `CreateFromDir` on the example: the two listed files are written -/
example : Generated.Zip.CreateFromDir id (cfpOf exEnv) (fun a _ => Zip.equalFoldGoMod a) (fun _ _ => none)
      (drvLstat exTree) (drvOpen exTree) (drvReadFile true exTree) exPgv simpleFoldI (fun s => s.map Zip.asciiLower)
      versionCompareI id (drvWalkRoot exTree) (dirFuel 1 true exTree) () { Path := B "m", Version := B "v1.0.0" } tdir [] =
    .ok (none, [(B "m@v1.0.0/a/b.go", B "x"), (B "m@v1.0.0/go.mod", B "go 1.24")]) ∧
    Zip.createFromDir exEnv (B "m") (B "v1.0.0") true exTree =
      .ok [⟨B "m@v1.0.0/a/b.go", 1, B "x"⟩, ⟨B "m@v1.0.0/go.mod", 7, B "go 1.24"⟩] := by decide +kernel

end ModVerif.Tie.FnZipDir
