/-
  Tie theorems, sumdb/client.go, the tile layer of the client: the definitions regenerated from the Go source by go2lean
  (`Generated/FnClient.lean`: `Client.tileCacheKey`, `Client.tileRemotePath`, `Client.markTileSaved`, `Client.readTile` with
  the closure passed to `c.tileCache.Do`, `tileReader.Height`, `tileReader.ReadTiles`, `tileReader.SaveTiles` and their
  loops) compute what the hand model (`Model/Client.lean`: `tileCacheKey`, `tileRemotePath`, `markTileSaved`,
  `readTileWork`, `readTile`, `readTilesAll`/`firstError`/`readTiles`, `saveTiles`) says — result, world, and every
  external operation in order (the effect trace is part of the represented state).

  Representation (Proofs/TieFnClientRep.lean): the generated world `cw : CW (σ × List Effect) H` represents the model world
  `w` (`RepCore P E w cw`: state and trace, name, the parCache tables and `tileSaved` pointwise, …), the generated
  environment is `envOf P E`, tiles are embedded by `toGen` (Proofs/TieFnTile.lean), error texts are abstracted by `errAbs`
  (`RepRes`, `RepCached`).  Every theorem has the shape
      `RepCore P E w cw → ∃ r' cw', Generated.f (envOf P E) fuel args cw = .ok (r', cw') ∧ RepCore P E (Model.f …).2 cw' ∧
        RepRes r' (Model.f …).1 ∧ FrameG cw cw' ∧ FrameM w (Model.f …).2`
  (`FrameG`/`FrameM`: the fields left alone, so that `RepRun` / `RepW` carry over: `RepRun.of_frame`, `RepW.of_frame`).

  Hypotheses: `TRange t` for every tile handled (`toGen` injective on it, `H ≤ 62` and `N < 2^63`: `Tile.Path` is the
  model's `tilePath`; `W ≤ 2^H`: the slice `data[:len(data)/full.W*tile.W]` is within `data` — for a wider tile the Go
  expression can panic where the model's `take` does not; `TileHashReader` only asks for tiles with `W ≤ 2^H`), and fuel:
  constant 8 for one tile (`Tile.Path`), `len(tiles) + 9` for the loops.  `SaveTiles` needs `len(data) = len(tiles)`
  (`data[i]` would panic otherwise; `ReadHashes` checks it before).
  Helper lemmas: Proofs/TieFnClientTiles{A,B,C}.lean.
-/
import ModVerif.Generated.FnClient
import ModVerif.Model.Client
import ModVerif.Proofs.TieFnClientRep
import ModVerif.Proofs.TieFnClientTilesA
import ModVerif.Proofs.TieFnClientTilesB
import ModVerif.Proofs.TieFnClientTilesC
set_option linter.unusedSectionVars false
namespace ModVerif.Tie.FnClientTiles
open ModVerif ModVerif.GoRt ModVerif.Generated.SumdbClient ModVerif.TieFnClientRep ModVerif.TieFnClientTiles
open ModVerif.TieFnTile (toGen)

section
variable {σ H : Type} [DecidableEq H] [Inhabited H] {P : Client.Params H} {E : Client.Env σ}
  {w : Client.World σ H} {cw : GW σ H}

/-- `c.tileCacheKey(tile)`: the name of the represented client, "/", `tile.Path()`; the world is not touched -/
theorem Client_tileCacheKey_tie (hc : RepCore P E w cw) (t : Tile.Tile) (hh : t.h ≤ 62) (hn : t.n < 2 ^ 63)
    (fuel : Nat) (hf : 8 ≤ fuel) :
    Client_tileCacheKey fuel (toGen t) cw = .ok (Client.tileCacheKey w.c.name t, cw) := by
  rw [tileCacheKey_eq fuel t hh hn hf cw, hc.name]

/-- `c.tileRemotePath(tile)` -/
theorem Client_tileRemotePath_tie (t : Tile.Tile) (hh : t.h ≤ 62) (hn : t.n < 2 ^ 63) (fuel : Nat) (hf : 8 ≤ fuel)
    (cw : GW σ H) :
    Client_tileRemotePath fuel (toGen t) cw = .ok (Client.tileRemotePath t, cw) :=
  tileRemotePath_eq fuel t hh hn hf cw

/-- `c.markTileSaved(tile)` -/
theorem Client_markTileSaved_tie (hc : RepCore P E w cw) (t : Tile.Tile) (ht : TOk t) :
    ∃ cw', Client_markTileSaved (toGen t) cw = ((), cw') ∧ RepCore P E (Client.markTileSaved w t) cw' ∧
      FrameG cw cw' ∧ FrameM w (Client.markTileSaved w t) :=
  ⟨_, markTileSaved_eq _ _, markTileSaved_core hc t ht, markG_frame _ _, markM_frame _ _⟩

/-- the closure passed to `c.tileCache.Do` in `readTile` = `readTileWork`: on-disk cache (requested tile, then the full
    tile), then the server (requested tile, then the full tile); the result as a `cached{data, err}` value -/
theorem Client_readTile_cacheFn1_tie (hc : RepCore P E w cw) (t : Tile.Tile) (ht : TRange t) (fuel : Nat) (hf : 8 ≤ fuel) :
    ∃ c cw', Client_readTile_cacheFn1 (envOf P E) fuel (toGen t) cw = .ok (c, cw') ∧
      RepCore P E (Client.readTileWork E w t).2 cw' ∧ RepCached c (Client.readTileWork E w t).1 ∧
      FrameG cw cw' ∧ FrameM w (Client.readTileWork E w t).2 := by
  obtain ⟨c, cw', h1, h2, h3, h4, h5, _, _⟩ := cacheFn1_eq hc t ht fuel hf
  exact ⟨c, cw', h1, h2, h3, h4, h5⟩

/-- `c.readTile(tile)` = `readTile`: the memo table, and on a miss the closure and the new entry -/
theorem Client_readTile_tie (hc : RepCore P E w cw) (t : Tile.Tile) (ht : TRange t) (fuel : Nat) (hf : 8 ≤ fuel) :
    ∃ p cw', Client_readTile (envOf P E) fuel (toGen t) cw = .ok (p, cw') ∧
      RepCore P E (Client.readTile E w t).2 cw' ∧ RepRes p (Client.readTile E w t).1 ∧
      FrameG cw cw' ∧ FrameM w (Client.readTile E w t).2 :=
  readTile_eq hc t ht fuel hf

/-- `tileReader.Height()` of the running client: the model's `tileHeight P` -/
theorem tileReader_Height_tie (hr : RepRun P E w cw) :
    tileReader_Height cw = ((Client.tileHeight P : Int), cw) := by
  unfold tileReader_Height
  rw [hr.tileHeight]

/-- `tileReader.ReadTiles(tiles)` = `readTiles`: every tile is read, in list order; the first error in list order, or
    all the data -/
theorem tileReader_ReadTiles_tie (hc : RepCore P E w cw) (tiles : List Tile.Tile) (hr : ∀ t ∈ tiles, TRange t)
    (fuel : Nat) (hf : tiles.length + 9 ≤ fuel) :
    ∃ p cw', tileReader_ReadTiles (envOf P E) fuel (tiles.map toGen) cw = .ok (p, cw') ∧
      RepCore P E (Client.readTiles E w tiles).2 cw' ∧ RepRes p (Client.readTiles E w tiles).1 ∧
      FrameG cw cw' ∧ FrameM w (Client.readTiles E w tiles).2 :=
  ReadTiles_eq hc tiles hr fuel hf

/-- `tileReader.SaveTiles(tiles, data)` = `saveTiles` on the pairs: every tile not yet marked is marked and written -/
theorem tileReader_SaveTiles_tie (hc : RepCore P E w cw) (tiles : List Tile.Tile) (data : List Bytes)
    (hlen : data.length = tiles.length) (hr : ∀ t ∈ tiles, TRange t) (fuel : Nat) (hf : tiles.length + 9 ≤ fuel) :
    ∃ cw', tileReader_SaveTiles (envOf P E) fuel (tiles.map toGen) data cw = .ok ((), cw') ∧
      RepCore P E (Client.saveTiles E w (tiles.zip data)) cw' ∧
      FrameG cw cw' ∧ FrameM w (Client.saveTiles E w (tiles.zip data)) := by
  obtain ⟨cw', h1, h2, h3, h4, _, _⟩ := SaveTiles_eq hc tiles data hlen hr fuel hf
  exact ⟨cw', h1, h2, h3, h4⟩

/-! ### the running client (`RepRun`) is preserved -/

theorem tileReader_ReadTiles_run (hr : RepRun P E w cw) (tiles : List Tile.Tile) (ht : ∀ t ∈ tiles, TRange t)
    (fuel : Nat) (hf : tiles.length + 9 ≤ fuel) :
    ∃ p cw', tileReader_ReadTiles (envOf P E) fuel (tiles.map toGen) cw = .ok (p, cw') ∧
      RepRun P E (Client.readTiles E w tiles).2 cw' ∧ RepRes p (Client.readTiles E w tiles).1 ∧
      FrameG cw cw' ∧ FrameM w (Client.readTiles E w tiles).2 := by
  obtain ⟨p, cw', h1, h2, h3, h4, h5⟩ := tileReader_ReadTiles_tie hr.toRepCore tiles ht fuel hf
  exact ⟨p, cw', h1, hr.of_frame h2 h4 h5, h3, h4, h5⟩

theorem tileReader_SaveTiles_run (hr : RepRun P E w cw) (tiles : List Tile.Tile) (data : List Bytes)
    (hlen : data.length = tiles.length) (ht : ∀ t ∈ tiles, TRange t) (fuel : Nat) (hf : tiles.length + 9 ≤ fuel) :
    ∃ cw', tileReader_SaveTiles (envOf P E) fuel (tiles.map toGen) data cw = .ok ((), cw') ∧
      RepRun P E (Client.saveTiles E w (tiles.zip data)) cw' ∧
      FrameG cw cw' ∧ FrameM w (Client.saveTiles E w (tiles.zip data)) := by
  obtain ⟨cw', h1, h2, h3, h4⟩ := tileReader_SaveTiles_tie hr.toRepCore tiles data hlen ht fuel hf
  exact ⟨cw', h1, hr.of_frame h2 h3 h4, h3, h4⟩

end

/-! ### non-vacuity: both sides on concrete inputs -/

/-- parameters with byte strings as hashes -/
def exP : Client.Params Bytes :=
  { leaf := id, node := fun a b => a ++ b, empty := [], hashSize := 32, dec := id, enc := id, height := 2, nosumdb := [],
    isLetter := fun _ => false, glob := fun _ _ => false, sha := id, edVerify := fun _ _ _ => false, retries := 1 }

/-- an environment that counts the operations: the cache is empty, the server answers a request with its path
    (`up = true`) or fails (`up = false`) -/
def exEnv (up : Bool) : Client.Env Nat :=
  { readRemote := fun s p => (if up then some p else none, s + 1)
    readCache := fun s _ => (none, s + 1)
    readConfig := fun s _ => (none, s + 1)
    writeCache := fun s _ _ => s + 1
    writeConfig := fun s _ _ _ => (.ok, s + 1)
    securityError := fun s _ => s + 1 }

def exW : Client.World Nat Bytes := { s := 0, c := Client.newClient exP, tr := [] }
def exCW : GW Nat Bytes := cw0 exP 0 []
/-- a partial tile (width 1 of 4) and the full tile next to it -/
def exT : Tile.Tile := ⟨2, 0, 0, 1, false⟩
def exT2 : Tile.Tile := ⟨2, 0, 1, 4, false⟩

example : RepCore exP (exEnv true) exW exCW := (rep_init exP (exEnv true) 0 []).toRepCore
example : TRange exT ∧ TRange exT2 := by
  refine ⟨⟨?_, ?_, ?_, ?_⟩, ⟨?_, ?_, ?_, ?_⟩⟩ <;> first | (intro h; cases h) | decide

example : (Client_tileCacheKey 8 (toGen exT) exCW).toOption.map (·.1) = some (B "/tile/2/0/000.p/1") ∧
    Client.tileCacheKey exW.c.name exT = B "/tile/2/0/000.p/1" := by constructor <;> decide +kernel

example : (Client_tileRemotePath 8 (toGen exT2) exCW).toOption.map (·.1) = some (B "/tile/2/0/001") ∧
    Client.tileRemotePath exT2 = B "/tile/2/0/001" := by constructor <;> decide +kernel

example : (mapGet (Client_markTileSaved (toGen exT) exCW).2.tileSaved (toGen exT) false).1 = true ∧
    (Client.markTileSaved exW exT).c.tileSaved.contains exT = true := by constructor <;> decide +kernel

-- the server answers: two cache misses (requested tile, full tile), then the requested tile from the server
example : (Client_readTile_cacheFn1 (envOf exP (exEnv true)) 8 (toGen exT) exCW).toOption.map (fun r => (r.1, r.2.s)) =
      some ({ data := B "/tile/2/0/000.p/1", err := none },
        (3, [.read .cache (B "/tile/2/0/000.p/1") false, .read .cache (B "/tile/2/0/000") false,
             .read .remote (B "/tile/2/0/000.p/1") true])) ∧
    (fun r => (r.1, r.2.s, r.2.tr)) (Client.readTileWork (exEnv true) exW exT) =
      (.ok (B "/tile/2/0/000.p/1"), 3, [.read .cache (B "/tile/2/0/000.p/1") false, .read .cache (B "/tile/2/0/000") false,
             .read .remote (B "/tile/2/0/000.p/1") true]) := by constructor <;> decide +kernel

-- the server is down: the error of the first remote read, after four reads
example : (Client_readTile (envOf exP (exEnv false)) 8 (toGen exT) exCW).toOption.map (fun r => (r.1, r.2.s.1)) =
      some (([], some "remote"), 4) ∧
    (fun r => (r.1, r.2.s)) (Client.readTile (exEnv false) exW exT) = (.error .remote, 4) ∧
    errAbs "remote" = .remote := by refine ⟨?_, ?_, ?_⟩ <;> decide +kernel

example : tileReader_Height exCW = (2, exCW) ∧ Client.tileHeight exP = 2 := ⟨rfl, rfl⟩

-- two tiles, the first one twice: the third read is answered from the memo table (five external reads in all)
example : (tileReader_ReadTiles (envOf exP (exEnv true)) 12 ([exT, exT2, exT].map toGen) exCW).toOption.map
        (fun r => (r.1, r.2.s.1)) =
      some (([B "/tile/2/0/000.p/1", B "/tile/2/0/001", B "/tile/2/0/000.p/1"], none), 5) ∧
    (fun r => (r.1, r.2.s)) (Client.readTiles (exEnv true) exW [exT, exT2, exT]) =
      (.ok [B "/tile/2/0/000.p/1", B "/tile/2/0/001", B "/tile/2/0/000.p/1"], 5) := by constructor <;> decide +kernel

example : (tileReader_ReadTiles (envOf exP (exEnv false)) 12 ([exT, exT2].map toGen) exCW).toOption.map
        (fun r => (r.1, r.2.s.1)) = some (([], some "remote"), 6) ∧
    (fun r => (r.1, r.2.s)) (Client.readTiles (exEnv false) exW [exT, exT2]) = (.error .remote, 6) := by
  constructor <;> decide +kernel

-- a tile given twice is written once
example : (tileReader_SaveTiles (envOf exP (exEnv true)) 12 ([exT, exT2, exT].map toGen) [[1], [2], [3]] exCW).toOption.map
        (fun r => r.2.s) =
      some (2, [.writeCache (B "/tile/2/0/000.p/1") [1], .writeCache (B "/tile/2/0/001") [2]]) ∧
    (fun r => (r.s, r.tr)) (Client.saveTiles (exEnv true) exW ([exT, exT2, exT].zip [[1], [2], [3]])) =
      (2, [.writeCache (B "/tile/2/0/000.p/1") [1], .writeCache (B "/tile/2/0/001") [2]]) := by
  constructor <;> decide +kernel

end ModVerif.Tie.FnClientTiles
