/-
  C09 transported to the regenerated code: the property theorems of Props/C09.lean about the integer kernels of
  sumdb/tlog (hand model Model/Tlog.lean) restated about `Generated.Tlog.maxpow2 / StoredHashIndex / SplitStoredHashIndex /
  StoredHashCount / subTreeIndex / StoredHashesForRecordHash / TreeHash` (Generated/FnTlog.lean, re-translated from tlog.go
  on every run in CHECKED mode: every int64 result goes through `chk64`) through the tie theorems of Tie/FnTlogInt.lean
  (and `TreeHash_tie` of Tie/FnTlogProof.lean).

  Every statement is an equation about the RESULT `.ok …` of the generated function, so it also says: no panic
  ("bad math"), no fuel exhaustion and NO INT64 OVERFLOW on the stated range.  The statements mention the generated
  functions, the independent specification (Spec/RFC6962.lean: `layout`, `tz`, `splitPoint`, `mth`, `leavesOf`), the
  specification-level predicates `StoreOK`, `Cover`, `Aligned` (written over the spec notions) and ordinary data.
  The only extra hypotheses are fuel lower bounds (constants) and the range hypotheses of the ties: logs of fewer than
  `2^62` records (positions below `MaxInt64`), where Props/C09 allows `2^63` / `2^64` for the unbounded model.

  The model's own no-overflow bookkeeping (`storedHashIndex_int64`, `split_int64`, `subTreeIndex_int64`, for logs below
  `2^61`) is subsumed: the equations below hold up to `2^62` and a checked-mode `.ok` excludes overflow.
  Not transported here: the text codecs of C09 (FormatTree / ParseTree / FormatRecord / … : unit Tie/FnTlogNote.lean).
  Corollaries only — nothing here is used by another module.
-/
import ModVerif.Tie.FnTlogInt
import ModVerif.Tie.FnTlogProof
import ModVerif.Props.C09
import ModVerif.Proofs.GenPropsUtil
namespace ModVerif.Tie.FnTlogIntC09
open ModVerif ModVerif.GoRt ModVerif.Tlog ModVerif.TlogTH ModVerif.TlogStore ModVerif.TieFnTlogInt ModVerif.Tie.FnTlogInt
open ModVerif.Tie.FnTlogProof ModVerif.GenPropsUtil

/-! ### maxpow2 is the RFC 6962 split point -/

/-- ★ the regenerated `maxpow2(n) = (k, l)`: `k = 2^l`, `k < n ≤ 2k`, for every `n` of the int64 range (`1 < n ≤ 2^63`). -/
theorem gen_maxpow2_spec (fuel : Nat) (n : Int) (h1 : 1 < n) (h2 : n ≤ 2 ^ 63) (hf : 63 ≤ fuel) :
    ∃ k l : Nat, Generated.Tlog.maxpow2 fuel n = .ok ((k : Int), (l : Int)) ∧ k = 2 ^ l ∧ (k : Int) < n ∧ n ≤ 2 * (k : Int) := by
  obtain ⟨a, b, c⟩ := Props.C09.maxpow2_spec n.toNat (by omega) (by omega)
  exact ⟨_, _, maxpow2_tie fuel n hf, a, by omega, by omega⟩

/-- ★ … and its first component is the specification's split point (largest power of two smaller than `n`). -/
theorem gen_maxpow2_eq_splitPoint (fuel : Nat) (n : Int) (h1 : 1 < n) (h2 : n ≤ 2 ^ 63) (hf : 63 ≤ fuel) :
    ∃ l : Nat, Generated.Tlog.maxpow2 fuel n = .ok ((RFC6962.splitPoint n.toNat : Nat), (l : Int)) ∧
      RFC6962.splitPoint n.toNat = 2 ^ l := by
  obtain ⟨a, _, _⟩ := Props.C09.maxpow2_spec n.toNat (by omega) (by omega)
  have e := Props.C09.maxpow2_eq_splitPoint n.toNat (by omega) (by omega)
  refine ⟨(Tlog.maxpow2 n.toNat).2, ?_, by rw [← e]; exact a⟩
  rw [maxpow2_tie fuel n hf, e]
  rfl

/-- beyond the int64 range the regenerated loop stops at `2^62` instead of running forever (F7) -/
theorem gen_maxpow2_terminates_beyond_range (fuel : Nat) (hf : 63 ≤ fuel) :
    Generated.Tlog.maxpow2 fuel (2 ^ 64 + 5) = .ok (2 ^ 62, 62) := by
  rw [maxpow2_tie fuel _ hf]
  have e : ((2 : Int) ^ 64 + 5).toNat = 2 ^ 64 + 5 := by decide
  rw [e, Props.C09.maxpow2_terminates_beyond_range]
  rfl

/-! ### the dense layout -/

theorem index_range {N l k : Nat} (hN : N ≤ 2 ^ 62) (h : (k + 1) * 2 ^ l ≤ N) : (k + 1) * 2 ^ l ≤ 2 ^ 62 :=
  Nat.le_trans h hN

/-- the regenerated `StoredHashIndex` on a complete subtree of a log of at most `2^62` records, as a natural number -/
theorem gen_StoredHashIndex_ok (fuel N l k : Nat) (hN : N ≤ 2 ^ 62) (h : (k + 1) * 2 ^ l ≤ N) (hf : 64 ≤ fuel) :
    Generated.Tlog.StoredHashIndex fuel (l : Int) (k : Int) = .ok ((storedHashIndex l k : Nat) : Int) := by
  have := StoredHashIndex_tie_of_le fuel (l : Int) (k : Int) (by omega) (by omega)
    (by simpa using index_range hN h) hf
  simpa using this

/-- ★ `StoredHashIndex(level, k)` is the position of coordinate `(level, k)` in the specification's layout (records in
    order, for record `i` the levels `0 .. tz (i+1)`) of every log of at most `2^62` records that contains the complete
    subtree `(level, k)`. -/
theorem gen_StoredHashIndex_layout (fuel N l k : Nat) (hN : N ≤ 2 ^ 62) (h : (k + 1) * 2 ^ l ≤ N) (hf : 64 ≤ fuel) :
    ∃ p : Nat, Generated.Tlog.StoredHashIndex fuel (l : Int) (k : Int) = .ok (p : Int) ∧
      (RFC6962.layout N)[p]? = some (l, k) :=
  ⟨_, gen_StoredHashIndex_ok fuel N l k hN h hf, Props.C09.storedHashIndex_layout N l k h⟩

/-- ★ hence the position map is injective on the coordinates of a log. -/
theorem gen_StoredHashIndex_injective (fuel N l k l' k' : Nat) (hN : N ≤ 2 ^ 62) (h : (k + 1) * 2 ^ l ≤ N)
    (h' : (k' + 1) * 2 ^ l' ≤ N) (hf : 64 ≤ fuel)
    (heq : Generated.Tlog.StoredHashIndex fuel (l : Int) (k : Int) = Generated.Tlog.StoredHashIndex fuel (l' : Int) (k' : Int)) :
    l = l' ∧ k = k' := by
  rw [gen_StoredHashIndex_ok fuel N l k hN h hf, gen_StoredHashIndex_ok fuel N l' k' hN h' hf] at heq
  have e : storedHashIndex l k = storedHashIndex l' k' := by
    have := Except.ok.inj heq
    omega
  exact Props.C09.storedHashIndex_injective N l k l' k' h h' e

theorem count_lt {n : Nat} (hn : n < 2 ^ 62) : storedHashCount n < 2 ^ 63 := by
  have := Props.C09.storedHashCount_int64 n (by omega)
  omega

/-- ★ the regenerated `StoredHashCount(n)` is the length of the specification's layout of a log of `n` records … -/
theorem gen_StoredHashCount_eq_layout_length (fuel n : Nat) (hn : n < 2 ^ 62) (hf : 64 ≤ fuel) :
    Generated.Tlog.StoredHashCount fuel (n : Int) = .ok (((RFC6962.layout n).length : Nat) : Int) := by
  have := StoredHashCount_tie fuel (n : Int) (by omega) (by simpa using count_lt hn) hf
  rw [this]
  simp only [Int.toNat_natCast]
  rw [Props.C09.storedHashCount_eq n (by omega)]
  rfl

/-- ★ … and the position at which the next record's hashes are to be stored: `StoredHashCount(n) = StoredHashIndex(0, n)`,
    both sides regenerated code. -/
theorem gen_StoredHashCount_eq_next_leaf (fuel n : Nat) (hn : n < 2 ^ 62) (hf : 64 ≤ fuel) :
    Generated.Tlog.StoredHashCount fuel (n : Int) = Generated.Tlog.StoredHashIndex fuel 0 (n : Int) := by
  have h1 := StoredHashCount_tie fuel (n : Int) (by omega) (by simpa using count_lt hn) hf
  have h2 := gen_StoredHashIndex_ok fuel (n + 1) 0 n (by omega) (by simp) hf
  simp only [Int.toNat_natCast] at h1
  rw [h1, Props.C09.storedHashCount_eq_next_leaf n (by omega)]
  exact h2.symm

/-- ★ "each new record n adds 1 + trailingZeros(n+1) hashes": consecutive leaf positions of the regenerated
    `StoredHashIndex` differ by `1 + tz (n+1)` (`tz` the specification's 2-adic valuation). -/
theorem gen_StoredHashIndex_zero_succ (fuel n : Nat) (hn : n + 1 < 2 ^ 62) (hf : 64 ≤ fuel) :
    ∃ p : Nat, Generated.Tlog.StoredHashIndex fuel 0 (n : Int) = .ok (p : Int) ∧
      Generated.Tlog.StoredHashIndex fuel 0 ((n : Int) + 1) = .ok ((p + 1 + RFC6962.tz (n + 1) : Nat) : Int) := by
  refine ⟨_, gen_StoredHashIndex_ok fuel (n + 1) 0 n (by omega) (by simp) hf, ?_⟩
  have := gen_StoredHashIndex_ok fuel (n + 2) 0 (n + 1) (by omega) (by simp) hf
  rw [Props.C09.storedHashIndex_zero_succ n] at this
  simpa using this

/-! ### position ↔ (level, offset): the two regenerated functions are mutually inverse -/

/-- ★ `SplitStoredHashIndex(StoredHashIndex(l, k)) = (l, k)` on the regenerated code, for every complete subtree of a log
    of fewer than `2^62` records. -/
theorem gen_Split_StoredHashIndex (fuel N l k : Nat) (hN : N < 2 ^ 62) (h : (k + 1) * 2 ^ l ≤ N) (hf : 64 ≤ fuel) :
    ∃ p : Nat, Generated.Tlog.StoredHashIndex fuel (l : Int) (k : Int) = .ok (p : Int) ∧
      Generated.Tlog.SplitStoredHashIndex fuel (p : Int) = .ok ((l : Int), (k : Int)) := by
  refine ⟨_, gen_StoredHashIndex_ok fuel N l k (by omega) h hf, ?_⟩
  obtain ⟨hlt, hsp⟩ := (Props.C09.position_coordinate_bijection N hN).2 l k h
  have hc := Props.C09.storedHashCount_int64 N (by omega)
  have := SplitStoredHashIndex_tie fuel ((storedHashIndex l k : Nat) : Int) (by omega) (by omega) hf
  rw [this]
  simp only [Int.toNat_natCast]
  rw [hsp]
  rfl

/-- ★ the same in hypothesis form, for ANY int64 arguments: whenever the regenerated `StoredHashIndex(l, k)` returns a
    position `p < MaxInt64` (without overflow), the regenerated `SplitStoredHashIndex(p)` returns `(l, k)`. -/
theorem gen_Split_of_StoredHashIndex (fuel l k : Nat) (p : Int) (hl : l < 2 ^ 63) (hk : k < 2 ^ 63) (hf : l + 64 ≤ fuel)
    (h : Generated.Tlog.StoredHashIndex fuel (l : Int) (k : Int) = .ok p) (hp : p < 2 ^ 63 - 1) :
    Generated.Tlog.SplitStoredHashIndex fuel p = .ok ((l : Int), (k : Int)) := by
  by_cases hr : storedHashIndex l k < 2 ^ 63
  · have e := StoredHashIndex_tie fuel (l : Int) (k : Int) (by omega) (by omega) (by simpa using hr) (by omega)
    simp only [Int.toNat_natCast] at e
    rw [e] at h
    have hp' : p = ((storedHashIndex l k : Nat) : Int) := (Except.ok.inj h).symm
    subst hp'
    have := SplitStoredHashIndex_tie fuel ((storedHashIndex l k : Nat) : Int) (by omega) hp (by omega)
    rw [this]
    simp only [Int.toNat_natCast]
    rw [Props.C09.split_storedHashIndex l k hr]
    rfl
  · have e := StoredHashIndex_tie_overflow fuel (l : Int) (k : Int) (by omega) (by omega) (by omega) (by omega)
      (by simpa using Nat.le_of_not_lt hr) (by simpa using hf)
    rw [e] at h
    cases h

/-- ★ `StoredHashIndex(SplitStoredHashIndex(p)) = p` on the regenerated code, and `SplitStoredHashIndex` is TOTAL — its
    "bad math" panic is unreachable, its loop ends, nothing overflows — for every position `0 ≤ p < MaxInt64`. -/
theorem gen_StoredHashIndex_Split (fuel : Nat) (p : Int) (h0 : 0 ≤ p) (hp : p < 2 ^ 63 - 1) (hf : 64 ≤ fuel) :
    ∃ l k : Nat, Generated.Tlog.SplitStoredHashIndex fuel p = .ok ((l : Int), (k : Int)) ∧
      Generated.Tlog.StoredHashIndex fuel (l : Int) (k : Int) = .ok p := by
  obtain ⟨l, k, hs⟩ := Props.C09.splitStoredHashIndex_total p.toNat (by omega)
  have hb := Props.C09.storedHashIndex_split p.toNat l k (by omega) hs
  refine ⟨l, k, ?_, ?_⟩
  · rw [SplitStoredHashIndex_tie fuel p h0 hp hf, hs]; rfl
  · have e := StoredHashIndex_tie fuel (l : Int) (k : Int) (by omega) (by omega) (by simp only [Int.toNat_natCast]; omega) hf
    simp only [Int.toNat_natCast] at e
    rw [e, hb]
    congr 1
    exact Int.toNat_of_nonneg h0

/-- ★ on the dense store of `N < 2^62` records the two regenerated functions are mutually inverse bijections between the
    positions `[0, |layout N|)` (`= StoredHashCount N`, `gen_StoredHashCount_eq_layout_length`) and the complete subtrees
    `(l, k)`, `(k+1)·2^l ≤ N`, and `SplitStoredHashIndex` reads off the specification's layout. -/
theorem gen_position_coordinate_bijection (fuel N : Nat) (hN : N < 2 ^ 62) (hf : 64 ≤ fuel) :
    (∀ p : Nat, p < (RFC6962.layout N).length →
      ∃ l k : Nat, Generated.Tlog.SplitStoredHashIndex fuel (p : Int) = .ok ((l : Int), (k : Int)) ∧
        (RFC6962.layout N)[p]? = some (l, k) ∧ (k + 1) * 2 ^ l ≤ N ∧
        Generated.Tlog.StoredHashIndex fuel (l : Int) (k : Int) = .ok (p : Int)) ∧
    (∀ l k : Nat, (k + 1) * 2 ^ l ≤ N →
      ∃ p : Nat, Generated.Tlog.StoredHashIndex fuel (l : Int) (k : Int) = .ok (p : Int) ∧
        p < (RFC6962.layout N).length ∧
        Generated.Tlog.SplitStoredHashIndex fuel (p : Int) = .ok ((l : Int), (k : Int))) := by
  obtain ⟨b1, b2⟩ := Props.C09.position_coordinate_bijection N hN
  have hlen := Props.C09.storedHashCount_eq N (by omega)
  have hc := Props.C09.storedHashCount_int64 N (by omega)
  constructor
  · intro p hp
    obtain ⟨l, k, c1, c2, c3, c4⟩ := b1 p (by omega)
    refine ⟨l, k, ?_, c2, c3, ?_⟩
    · rw [SplitStoredHashIndex_tie fuel (p : Int) (by omega) (by omega) hf]
      simp only [Int.toNat_natCast]
      rw [c1]; rfl
    · rw [gen_StoredHashIndex_ok fuel N l k (by omega) c3 hf, c4]
  · intro l k h
    obtain ⟨c1, c2⟩ := b2 l k h
    refine ⟨_, gen_StoredHashIndex_ok fuel N l k (by omega) h hf, by omega, ?_⟩
    rw [SplitStoredHashIndex_tie fuel _ (by omega) (by omega) hf]
    simp only [Int.toNat_natCast]
    rw [c2]; rfl

/-! ### subTreeIndex -/

/-- ★ the regenerated `subTreeIndex(lo, hi, need)` (no panic, no overflow) appends to `need` the positions — as computed
    by the regenerated `StoredHashIndex` — of the maximal complete subtrees `cs` covering `[lo, hi)` from left to right,
    for every interval inside one aligned block (in particular `lo = 0`) with `hi ≤ 2^62`. -/
theorem gen_subTreeIndex_spec (fuel lo hi : Nat) (need : List Int) (hle : lo ≤ hi) (hal : Aligned lo hi) (hr : hi ≤ 2 ^ 62)
    (hf : 127 ≤ fuel) :
    ∃ (cs : List (Nat × Nat)) (idx : List Int),
      Generated.Tlog.subTreeIndex fuel (lo : Int) (hi : Int) need = .ok (need ++ idx) ∧ Cover cs lo hi ∧
      idx.length = cs.length ∧
      ∀ (i : Nat) (c : Nat × Nat) (x : Int), cs[i]? = some c → idx[i]? = some x →
        Generated.Tlog.StoredHashIndex fuel (c.1 : Int) (c.2 : Int) = .ok x := by
  obtain ⟨cs, c1, _, c3⟩ := Props.C09.subTreeIndex_spec lo hi hle hal (by omega)
  refine ⟨cs, (cs.map fun c => storedHashIndex c.1 c.2).map Int.ofNat, ?_, c3, by simp, ?_⟩
  · have := subTreeIndex_tie fuel (lo : Int) (hi : Int) need (by omega) (by omega) hf
    simp only [Int.toNat_natCast] at this
    rw [this, c1]
    rfl
  · intro i c x hc hx
    simp only [List.map_map, List.getElem?_map, hc, Option.map_some, Function.comp, Option.some.injEq] at hx
    have hb := cover_bound cs lo hi c3 c (List.mem_of_getElem? hc)
    rw [gen_StoredHashIndex_ok fuel hi c.1 c.2 hr hb (by omega), ← hx]
    rfl

/-! ### the store invariant and the tree hash, for every log -/

section
variable {H : Type} [DecidableEq H] [Inhabited H] (leaf : Bytes → H) (node : H → H → H) (empty : H)

/-- ★ one step of the store invariant on the regenerated code.  Let `st` be a dense store satisfying the C09 invariant for
    the records `D` (`|D| < 2^62`) and `r` ANY reader that behaves like `st`.  Then the regenerated
    `StoredHashesForRecordHash(|D|, leaf d, r)` returns — nil error, no panic, no overflow — exactly `1 + tz(|D|+1)` hashes
    `hs`, and `st ++ hs` satisfies the invariant for `D ++ [d]`: every position whose layout coordinate is `(l, k)` holds
    the RFC 6962 tree hash of the records `[k·2^l, (k+1)·2^l)`. -/
theorem gen_StoredHashes_step (fuel : Nat) (D : List Bytes) (d : Bytes) (st : List H)
    (hst : StoreOK leaf node empty D st) (r : List Int → List H × Option String) (hr : readerOf r = storeReader st)
    (hD : D.length < 2 ^ 62) (hf : 128 ≤ fuel) :
    ∃ hs, Generated.Tlog.StoredHashesForRecordHash node fuel (D.length : Int) (leaf d) r = .ok (hs, none) ∧
      hs.length = 1 + RFC6962.tz (D.length + 1) ∧ StoreOK leaf node empty (D ++ [d]) (st ++ hs) := by
  obtain ⟨hs, h1, h2, _⟩ := storedHashes_ok leaf node empty D d st hst (by omega)
  obtain ⟨st', a1, a2⟩ := appendRecord_ok leaf node empty D d st hst (by omega)
  have e : st' = st ++ hs := by
    simp only [appendRecord, bind, Except.bind, h1, pure, Except.pure, Except.ok.injEq, Prod.mk.injEq] at a1
    exact a1.2.symm
  subst e
  refine ⟨hs, ?_, h2, a2⟩
  have := StoredHashesForRecordHash_tie_of_lt node fuel (D.length : Int) (leaf d) r (by omega) (by omega) hf
  simp only [Int.toNat_natCast] at this
  rw [this, hr]
  have h1' : storedHashesForRecordHash node D.length (leaf d) (storeReader st) = .ok hs := h1
  rw [h1']
  rfl

/-- the usage the documentation prescribes, with the REGENERATED `StoredHashesForRecordHash` as the only computation:
    append the records one at a time, each time reading through the honest reader `genReader` over the store so far and
    writing the returned hashes at the end of the store.  `none` = any error (reader error, panic, int64 overflow, fuel). -/
def stepOut (s : Nat × List H) : M (List H × Option String) → Option (Nat × List H)
  | .ok (hs, none) => some (s.1 + 1, s.2 ++ hs)
  | _ => none

def genAppendStep (fuel : Nat) (s : Nat × List H) (d : Bytes) : Option (Nat × List H) :=
  stepOut s (Generated.Tlog.StoredHashesForRecordHash node fuel (s.1 : Int) (leaf d) (genReader s.2))

def genAppendAll (fuel : Nat) : List Bytes → Nat × List H → Option (Nat × List H)
  | [], s => some s
  | d :: ds, s => (genAppendStep leaf node fuel s d).bind (genAppendAll fuel ds)

/-- the store after appending `records` to the empty log -/
def genBuildStore (fuel : Nat) (records : List Bytes) : Option (List H) :=
  (genAppendAll leaf node fuel records (0, [])).map (·.2)

theorem genAppendAll_cons (fuel : Nat) (d : Bytes) (ds : List Bytes) (s : Nat × List H) :
    genAppendAll leaf node fuel (d :: ds) s = (genAppendStep leaf node fuel s d).bind (genAppendAll leaf node fuel ds) := rfl

theorem genAppendStep_ok (fuel n : Nat) (st hs : List H) (d : Bytes)
    (h : Generated.Tlog.StoredHashesForRecordHash node fuel (n : Int) (leaf d) (genReader st) = .ok (hs, none)) :
    genAppendStep leaf node fuel (n, st) d = some (n + 1, st ++ hs) := by
  show stepOut (n, st) (Generated.Tlog.StoredHashesForRecordHash node fuel (n : Int) (leaf d) (genReader st)) = _
  rw [h]
  rfl

theorem genAppendAll_ok (fuel : Nat) (hf : 128 ≤ fuel) : ∀ (ds pre : List Bytes) (st : List H),
    StoreOK leaf node empty pre st → (pre ++ ds).length < 2 ^ 62 →
    ∃ st', genAppendAll leaf node fuel ds (pre.length, st) = some ((pre ++ ds).length, st') ∧
      StoreOK leaf node empty (pre ++ ds) st' := by
  intro ds
  induction ds with
  | nil =>
    intro pre st hok _
    rw [List.append_nil]
    exact ⟨st, rfl, hok⟩
  | cons d ds ih =>
    intro pre st hok hr
    have hr' : pre.length < 2 ^ 62 := by simp at hr; omega
    obtain ⟨hs, h1, _, h3⟩ := gen_StoredHashes_step leaf node empty fuel pre d st hok (genReader st)
      (readerOf_genReader st) hr' hf
    have e : pre ++ d :: ds = (pre ++ [d]) ++ ds := by simp
    obtain ⟨st2, h4, h5⟩ := ih (pre ++ [d]) (st ++ hs) h3 (by rw [← e]; exact hr)
    refine ⟨st2, ?_, by rw [e]; exact h5⟩
    have hlen : (pre ++ [d]).length = pre.length + 1 := by rw [List.length_append, List.length_singleton]
    rw [genAppendAll_cons, genAppendStep_ok leaf node fuel pre.length st hs d h1, e, ← hlen]
    exact h4

/-- ★ Store invariant on the regenerated code.  For every sequence `D` of fewer than `2^62` records, every `leaf`/`node`
    and every `empty`: appending the records one at a time with the regenerated `StoredHashesForRecordHash` never fails,
    the store has the length of the specification's layout, and every position `p`, whose layout coordinate is `(l, k)`,
    holds the RFC 6962 tree hash of the records `[k·2^l, (k+1)·2^l)`. -/
theorem gen_store_invariant (fuel : Nat) (D : List Bytes) (hD : D.length < 2 ^ 62) (hf : 128 ≤ fuel) :
    ∃ st, genBuildStore leaf node fuel D = some st ∧ st.length = (RFC6962.layout D.length).length ∧
      ∀ p l k : Nat, (RFC6962.layout D.length)[p]? = some (l, k) →
        st[p]? = some (RFC6962.mth node empty (RFC6962.leavesOf (D.map leaf) l k)) := by
  obtain ⟨st, h1, h2⟩ := genAppendAll_ok leaf node empty fuel hf D [] [] (storeOK_nil leaf node empty)
    (by rw [List.nil_append]; exact hD)
  rw [List.nil_append] at h1 h2
  have h2' : StoreOK leaf node empty D st := h2
  refine ⟨st, ?_, by rw [h2'.1, Tlog.layout_length], h2'.2⟩
  have : genAppendAll leaf node fuel D (0, []) = some (D.length, st) := h1
  simp only [genBuildStore, this, Option.map_some]

/-- ★ the regenerated `TreeHash(m)`, reading through ANY reader that behaves like a dense store satisfying the invariant
    for `D`, is the RFC 6962 Merkle tree hash of the first `m` records, with a nil error, for every `m ≤ |D|`, `m ≤ 2^62`. -/
theorem gen_TreeHash_eq_MTH (fuel : Nat) (D : List Bytes) (st : List H) (hst : StoreOK leaf node empty D st)
    (r : List Int → List H × Option String) (hr : readerOf r = storeReader st)
    (m : Nat) (hm : m ≤ D.length) (hr62 : m ≤ 2 ^ 62) (hf : m + 127 ≤ fuel) :
    Generated.Tlog.TreeHash empty node fuel (m : Int) r =
      .ok (RFC6962.mth node empty ((D.map leaf).take m), none) := by
  have := TreeHash_tie node empty fuel (m : Int) r (by omega) (by omega) (by simpa using hf)
  simp only [Int.toNat_natCast] at this
  rw [this, hr, treeHash_of_storeOK leaf node empty D st hst m hm (by omega)]
  rfl

/-- ★★ Property C09 in one statement, on the regenerated code.  For every sequence `D` of fewer than `2^62` records:
    building the store with the regenerated `StoredHashesForRecordHash` succeeds and yields `st` such that
    (1) its length is the regenerated `StoredHashCount(|D|)`;
    (2) every position `p` of the store is split by the regenerated `SplitStoredHashIndex` into the coordinate `(l, k)` of
        a complete subtree of the log, the regenerated `StoredHashIndex(l, k)` is `p`, and `st[p]` is the RFC 6962 hash of
        the records `[k·2^l, (k+1)·2^l)`;
    (3) conversely every complete subtree `(l, k)` of the log has its position inside the store and splits back;
    (4) for every `m ≤ |D|` the regenerated `TreeHash(m)` over the store is the RFC 6962 tree hash of the first `m` records. -/
theorem gen_C09_main (fuel : Nat) (D : List Bytes) (hD : D.length < 2 ^ 62) (hf : D.length + 128 ≤ fuel) :
    ∃ st, genBuildStore leaf node fuel D = some st ∧
      Generated.Tlog.StoredHashCount fuel (D.length : Int) = .ok ((st.length : Nat) : Int) ∧
      (∀ p : Nat, p < st.length →
        ∃ l k : Nat, Generated.Tlog.SplitStoredHashIndex fuel (p : Int) = .ok ((l : Int), (k : Int)) ∧
          Generated.Tlog.StoredHashIndex fuel (l : Int) (k : Int) = .ok (p : Int) ∧ (k + 1) * 2 ^ l ≤ D.length ∧
          st[p]? = some (RFC6962.mth node empty (RFC6962.leavesOf (D.map leaf) l k))) ∧
      (∀ l k : Nat, (k + 1) * 2 ^ l ≤ D.length →
        ∃ p : Nat, Generated.Tlog.StoredHashIndex fuel (l : Int) (k : Int) = .ok (p : Int) ∧ p < st.length ∧
          Generated.Tlog.SplitStoredHashIndex fuel (p : Int) = .ok ((l : Int), (k : Int))) ∧
      (∀ m : Nat, m ≤ D.length →
        Generated.Tlog.TreeHash empty node fuel (m : Int) (genReader st) =
          .ok (RFC6962.mth node empty ((D.map leaf).take m), none)) := by
  obtain ⟨st, h1, h2, h3⟩ := gen_store_invariant leaf node empty fuel D hD (by omega)
  obtain ⟨b1, b2⟩ := gen_position_coordinate_bijection fuel D.length hD (by omega)
  have hok : StoreOK leaf node empty D st := ⟨by rw [h2, Tlog.layout_length], h3⟩
  refine ⟨st, h1, ?_, ?_, ?_, ?_⟩
  · rw [h2]; exact gen_StoredHashCount_eq_layout_length fuel D.length hD (by omega)
  · intro p hp
    obtain ⟨l, k, c1, c2, c3, c4⟩ := b1 p (by omega)
    exact ⟨l, k, c1, c4, c3, h3 p l k c2⟩
  · intro l k hk
    rw [h2]
    exact b2 l k hk
  · intro m hm
    exact gen_TreeHash_eq_MTH leaf node empty fuel D st hok (genReader st) (readerOf_genReader st) m hm (by omega) (by omega)

end

/-! ### non-vacuity -/

example : Generated.Tlog.maxpow2 63 13 = .ok (8, 3) ∧ RFC6962.splitPoint 13 = 8 ∧
    Generated.Tlog.maxpow2 63 (2 ^ 63) = .ok (2 ^ 62, 62) := by decide +kernel

/-- `gen_maxpow2_spec` at the top of the range -/
example : ∃ k l : Nat, Generated.Tlog.maxpow2 63 (2 ^ 63) = .ok ((k : Int), (l : Int)) ∧ k = 2 ^ l ∧
    (k : Int) < 2 ^ 63 ∧ (2 ^ 63 : Int) ≤ 2 * (k : Int) :=
  gen_maxpow2_spec 63 (2 ^ 63) (by decide) (by decide) (by decide)

/-- the layout of the 13-record log: coordinate (2, 1) of the complete subtree of records [4, 8) sits at position 13; the
    two regenerated functions invert each other there; the count is the layout length -/
example : (1 + 1) * 2 ^ 2 ≤ 13 ∧ (13 : Nat) < 2 ^ 62 ∧
    Generated.Tlog.StoredHashIndex 64 2 1 = .ok 13 ∧ (RFC6962.layout 13)[13]? = some (2, 1) ∧
    Generated.Tlog.SplitStoredHashIndex 64 13 = .ok (2, 1) ∧
    Generated.Tlog.StoredHashCount 64 13 = .ok 23 ∧ (RFC6962.layout 13).length = 23 ∧
    Generated.Tlog.StoredHashIndex 64 0 13 = .ok 23 ∧
    Generated.Tlog.StoredHashIndex 64 0 11 = .ok 19 ∧ Generated.Tlog.StoredHashIndex 64 0 12 = .ok 22 ∧
    RFC6962.tz 12 = 2 := by decide +kernel

/-- `gen_StoredHashIndex_Split` near the top of the int64 range: position `MaxInt64 - 1` -/
example : ∃ l k : Nat, Generated.Tlog.SplitStoredHashIndex 64 (2 ^ 63 - 2) = .ok ((l : Int), (k : Int)) ∧
    Generated.Tlog.StoredHashIndex 64 (l : Int) (k : Int) = .ok (2 ^ 63 - 2) :=
  gen_StoredHashIndex_Split 64 (2 ^ 63 - 2) (by decide) (by decide) (by decide)

/-- `gen_Split_of_StoredHashIndex` instantiated -/
example : Generated.Tlog.SplitStoredHashIndex 70 92 = .ok (3, 5) :=
  gen_Split_of_StoredHashIndex 70 3 5 92 (by decide) (by decide) (by decide) (by decide +kernel) (by decide)

/-- `gen_subTreeIndex_spec`: [0, 13) is covered by the complete subtrees (3,0), (2,2), (0,12) at positions 14, 21, 22 -/
example : Aligned 0 13 ∧ Cover [(3, 0), (2, 2), (0, 12)] 0 13 ∧
    Generated.Tlog.subTreeIndex 127 0 13 [7] = .ok [7, 14, 21, 22] ∧
    Generated.Tlog.StoredHashIndex 127 3 0 = .ok 14 ∧ Generated.Tlog.StoredHashIndex 127 2 2 = .ok 21 ∧
    Generated.Tlog.StoredHashIndex 127 0 12 = .ok 22 := by
  refine ⟨aligned_zero 13, by simp [Cover], by decide +kernel, by decide +kernel, by decide +kernel, by decide +kernel⟩

/-- the store built by the regenerated code for the 13-record example log in the term algebra is the model's store, and
    the regenerated `TreeHash` over it yields the RFC 6962 roots -/
example : genBuildStore TH.leaf TH.node 128 (recs 13) = some (store 13) ∧
    okIs (Generated.Tlog.TreeHash TH.empty TH.node 141 13 (genReader (store 13)))
      (RFC6962.mth TH.node TH.empty ((recs 13).map TH.leaf), none) = true ∧
    okIs (Generated.Tlog.TreeHash TH.empty TH.node 141 7 (genReader (store 13)))
      (RFC6962.mth TH.node TH.empty (((recs 13).map TH.leaf).take 7), none) = true := by decide +kernel

/-- the hypotheses of `gen_StoredHashes_step` / `gen_TreeHash_eq_MTH` are satisfiable -/
example : ∃ st, StoreOK TH.leaf TH.node TH.empty (recs 13) st ∧ readerOf (genReader st) = storeReader st ∧
    (recs 13).length < 2 ^ 62 := by
  obtain ⟨st, _, h2, h3⟩ := gen_store_invariant TH.leaf TH.node TH.empty 128 (recs 13) (by decide) (by decide)
  exact ⟨st, ⟨by rw [h2, Tlog.layout_length], h3⟩, readerOf_genReader st, by decide⟩

end ModVerif.Tie.FnTlogIntC09
