/-
  Tie: the LEAF FUNCTIONS of the directive layer of go.mod / go.work parsing, regenerated from modfile/rule.go on every check
  (Generated/FnRule.lean, namespace ModVerif.Generated.Rule): MustQuote, AutoQuote, IsDirectoryPath, isIndirect,
  parseString, parseVersion, parseVersionInterval, modulePathMajor, parseDirectiveComment, parseDeprecation, parseReplace
  compute what the hand model (Model/Modfile/Rule.lean) says.

  The generated code works on a HEAP (`Rule.Heap`); a Go `[]string` that aliases the tail of a line's tokens is a VIEW
  `TokRef = (owner line pointer, offset)`.  Vocabulary (Proofs/TieFnRuleRep.lean): `lineG l` is the heap object of the
  model line `l`; `TokView h r pre toks` says that the view `r` denotes the tokens `toks` of its owner line, which come
  after the tokens `pre` of that line; `setToksH h p ts` is the heap after the tokens of the line at `p` were replaced by
  `ts` (every other object untouched: `setToksH_*`, `heapGet_setToksH_other`); `errAbs e k`: the Go error value `e` is an
  error of the model's kind `k` (`errStrs`: one format literal per kind, wrapped errors as `Outer|inner`).

  Parameters of the regenerated code are instantiated as the driver Drv/GenRule.lean runs them against the real
  implementation on every check: `isPrintI`, `Quote.quote`, `unquoteI`, `deprecatedSubI`, and the version fixer `fixG fx` for
  a model fixer `fx : Option Modfile.Fixer` (plain error ↦ "fix-plain", `*module.ModuleError` ↦ "ModuleError|fix-mod").

  Shape of the statements.  Functions with an in-out `*string` return `(((value, err), new token), heap)`.
  * `parseString_tie`, `parseVersion_tie`: equations with `psOut` / `pvOut`, which are the model's `parseString` /
    `parseVersion` in Go's result shape (`pvOut_ok`, `pvOut_error`; `parseVersion_error_kind`: the error is of the model's
    kind); the token is rewritten exactly when the model rewrites it, the heap is unchanged.
  * `parseVersionInterval_tie`, `parseReplace_tie`: equations with `pviOut` / `prOut`, the Go function on a token LIST in
    rule.go's branch order; `parseVersionInterval_model` / `parseReplace_model` state that these are the hand model's
    functions (`PviRel`, `PrRel`): same rewritten tokens, same interval / a NEW `Replace` object with the model's fields /
    a NEW `Error` object at the line's start with an error of the model's kind; `parseVersionInterval_view`: the returned
    view denotes the model's remaining tokens.  `parseVersionInterval_sim`, `parseReplace_sim` put both together.
  * Fuel: `4·|token| + 1` (parseString: AutoQuote runs on the unquoted value), `8·|token| + 1` (parseVersion),
    `8·Σ|tokens| + 1` (parseVersionInterval, parseReplace), plus for parseReplace `2·|old version|` for
    module.CheckPathMajor (the fixed version is not bounded by the token: `(prOut …).vlen`); number of comments + 3
    (parseDirectiveComment).

  Helper lemmas: Proofs/TieFnRuleRep.lean (shared), Proofs/TieFnRuleLeaf{A..D}.lean.
-/
import ModVerif.Generated.FnRule
import ModVerif.Model.Modfile.Rule
import ModVerif.Drv.GenRule
import ModVerif.Proofs.TieFnRuleRep
import ModVerif.Proofs.TieFnRuleLeafA
import ModVerif.Proofs.TieFnRuleLeafB
import ModVerif.Proofs.TieFnRuleLeafC
import ModVerif.Proofs.TieFnRuleLeafD
namespace ModVerif.Tie.FnRuleLeaf
open ModVerif ModVerif.GoRt ModVerif.Generated ModVerif.Tie.FnRuleRep
open ModVerif.Tie.FnRuleLeafA ModVerif.Tie.FnRuleLeafB ModVerif.Tie.FnRuleLeafC ModVerif.Tie.FnRuleLeafD
open ModVerif.Drv.GenModfile (isPrintI unquoteI)
open ModVerif.Drv.GenRule (fixG deprecatedSubI parseSynI)

/-! ### MustQuote, AutoQuote, IsDirectoryPath (the same text as in Generated/FnModfile.lean) -/

theorem MustQuote_tie (s : Bytes) (fuel : Nat) (hf : s.length + 1 ≤ fuel) :
    Rule.MustQuote isPrintI fuel s = .ok (Modfile.mustQuote s) := by
  rw [MustQuote_eq]; exact Tie.FnModfile.MustQuote_tie s fuel hf

example : Rule.MustQuote isPrintI 4 [97, 32, 98] = .ok true ∧ Modfile.mustQuote [97, 32, 98] = true := by decide +kernel
example : Rule.MustQuote isPrintI 2 [40] = .ok false ∧ Modfile.mustQuote [40] = false := by decide +kernel

theorem AutoQuote_tie (s : Bytes) (fuel : Nat) (hf : s.length + 1 ≤ fuel) :
    Rule.AutoQuote isPrintI Quote.quote fuel s = .ok (Modfile.autoQuote s) :=
  AutoQuote_spec s fuel hf

example : Rule.AutoQuote isPrintI Quote.quote 4 [97, 32, 98] = .ok [34, 97, 32, 98, 34] ∧
    Modfile.autoQuote [97, 32, 98] = [34, 97, 32, 98, 34] := by decide +kernel

theorem IsDirectoryPath_tie (ns : Bytes) : Rule.IsDirectoryPath ns = .ok (Modfile.isDirectoryPath ns) :=
  IsDirectoryPath_spec ns

example : Rule.IsDirectoryPath [46, 47, 120] = .ok true ∧ Modfile.isDirectoryPath [46, 47, 120] = true := by decide +kernel
example : Rule.IsDirectoryPath [120, 47, 121] = .ok false ∧ Modfile.isDirectoryPath [120, 47, 121] = false := by decide +kernel

/-! ### a concrete heap for the examples: a small go.mod loaded by the driver's `parseSynI` -/

/-- five statements; the line pointers are 1 … 5 in this order -/
def exSrc : Bytes := B ("require a.b/c v1.0.0 // indirect\n" ++ "retract [v1.0.0, \"v1.1.0\"] // why\n" ++
  "replace a.b/c v1.0.0 => ./d\n" ++ "// Deprecated: use x\nmodule m\n" ++ "replace a.b/c => a.b/d@v1\n")

def exHeap : Rule.Heap :=
  match parseSynI (B "go.mod") exSrc default with
  | .ok (_, h) => h
  | .error _ => default

/-- the model's tree -/
def exLines : List Modfile.Line :=
  match Modfile.parse (B "go.mod") exSrc with
  | .ok fs => fs.allLines
  | .error _ => []

def exLine (i : Nat) : Modfile.Line := exLines.getD i default

/-- the five line objects of the loaded heap are the embeddings of the model's five lines -/
example : exLines.length = 5 ∧ ∀ i ∈ [0, 1, 2, 3, 4], heapGet exHeap.lines ((i + 1 : Nat) : Int) = .ok (lineG (exLine i)) := by
  decide +kernel

/-! ### isIndirect -/

theorem isIndirect_tie {w : Rule.Heap} {p : Int} {l : Modfile.Line} (hg : heapGet w.lines p = .ok (lineG l)) :
    Rule.isIndirect p w = .ok (Modfile.isIndirect l, w) :=
  isIndirect_spec hg

-- the `require` line is marked indirect, the `retract` line is not
example : (Rule.isIndirect 1 exHeap).toOption.map (·.1) = some true ∧ Modfile.isIndirect (exLine 0) = true ∧
    (Rule.isIndirect 2 exHeap).toOption.map (·.1) = some false ∧ Modfile.isIndirect (exLine 1) = false := by decide +kernel

/-! ### parseString -/

/-- parseString: value, error, rewritten token are the model's (`psOut`), the heap is unchanged -/
theorem parseString_tie (s : Bytes) (fuel : Nat) (hf : 4 * s.length + 1 ≤ fuel) (w : Rule.Heap) :
    Rule.parseString isPrintI Quote.quote unquoteI fuel s w =
      .ok ((match Modfile.parseString s with
            | some (t, tok) => ((t, none), tok)
            | none => (([], TieFnModfile.parseStringErr s), s)), w) :=
  parseString_spec s fuel hf w

-- "\"ab\"" ↦ value ab, token rewritten to ab;  a'b is an error, token kept
example : (Rule.parseString isPrintI Quote.quote unquoteI 17 [34, 97, 98, 34] exHeap).toOption.map (·.1) =
      some (([97, 98], none), [97, 98]) ∧ Modfile.parseString [34, 97, 98, 34] = some ([97, 98], [97, 98]) := by decide +kernel
example : (Rule.parseString isPrintI Quote.quote unquoteI 13 [97, 39, 98] exHeap).toOption.map (·.1) =
      some (([], some "unquoted string cannot contain quote"), [97, 39, 98]) ∧ Modfile.parseString [97, 39, 98] = none := by
  decide +kernel

/-! ### parseVersion -/

/-- parseVersion, every branch (unquote error, fixer plain error, fixer ModuleError, not canonical, success): value, error
    and rewritten token are `pvOut`, i.e. the model's `parseVersion` in Go's shape; the heap is unchanged -/
theorem parseVersion_tie (verb path s : Bytes) (fx : Option Modfile.Fixer) (fuel : Nat) (hf : 8 * s.length + 1 ≤ fuel)
    (w : Rule.Heap) :
    Rule.parseVersion isPrintI Quote.quote unquoteI fuel verb path s (fixG fx) w =
      .ok ((match Modfile.parseVersion path s fx with
            | (tok, .ok v) => ((v, none), tok)
            | (tok, .error k) => (([], parseVersionErr s k), tok)), w) :=
  parseVersion_spec verb path s fx fuel hf w

/-- the error value is of the model's kind -/
theorem parseVersion_error_kind {path s : Bytes} {fx : Option Modfile.Fixer} {tok : Bytes} {k : Modfile.RuleErrKind}
    (h : Modfile.parseVersion path s fx = (tok, .error k)) : errAbs (parseVersionErr s k) k :=
  parseVersion_errAbs h

-- no fixer: v1.2 is canonicalised (token rewritten), "x" is not a version; with the stub fixer: latest ↦ v1.0.0,
-- bad… a plain error, modbad… a ModuleError
example : (Rule.parseVersion isPrintI Quote.quote unquoteI 40 [] [97] (B "v1.2") (fixG none) exHeap).toOption.map (·.1) =
      some ((B "v1.2.0", none), B "v1.2.0") ∧ Modfile.parseVersion [97] (B "v1.2") none = (B "v1.2.0", .ok (B "v1.2.0")) := by
  decide +kernel
example : (Rule.parseVersion isPrintI Quote.quote unquoteI 40 [] [97] (B "x") (fixG none) exHeap).toOption.map (·.1) =
      some (([], some "Error|InvalidVersionError|must be of the form v1.2.3"), B "x") ∧
    Modfile.parseVersion [97] (B "x") none = (B "x", .error .versionNotCanonical) := by decide +kernel
example : (Rule.parseVersion isPrintI Quote.quote unquoteI 60 [] [97] (B "latest") (fixG (some Modfile.fixStub)) exHeap).toOption.map (·.1) =
      some ((B "v1.0.0", none), B "v1.0.0") ∧
    Modfile.parseVersion [97] (B "latest") (some Modfile.fixStub) = (B "v1.0.0", .ok (B "v1.0.0")) := by decide +kernel
example : (Rule.parseVersion isPrintI Quote.quote unquoteI 60 [] [97] (B "badx") (fixG (some Modfile.fixStub)) exHeap).toOption.map (·.1) =
      some (([], some "fix-plain"), B "badx") ∧
    Modfile.parseVersion [97] (B "badx") (some Modfile.fixStub) = (B "badx", .error .fixError) := by decide +kernel
example : (Rule.parseVersion isPrintI Quote.quote unquoteI 60 [] [97] (B "modbadx") (fixG (some Modfile.fixStub)) exHeap).toOption.map (·.1) =
      some (([], some "Error|fix-mod"), B "modbadx") ∧
    Modfile.parseVersion [97] (B "modbadx") (some Modfile.fixStub) = (B "modbadx", .error .fixModuleError) := by decide +kernel
example : (Rule.parseVersion isPrintI Quote.quote unquoteI 60 [] [97] (B "\"v1") (fixG none) exHeap).toOption.map (·.1) =
      some (([], some "Error|InvalidVersionError|invalid syntax"), B "\"v1") ∧
    Modfile.parseVersion [97] (B "\"v1") none = (B "\"v1", .error .versionString) := by decide +kernel

/-! ### modulePathMajor -/

theorem modulePathMajor_tie (path : Bytes) (fuel : Nat) (hf : path.length + 1 ≤ fuel) :
    Rule.modulePathMajor fuel path = .ok (match Modfile.modulePathMajor path with
      | some major => (major, none)
      | none => ([], some "invalid module path")) :=
  modulePathMajor_spec path fuel hf

example : Rule.modulePathMajor 10 (B "a.b/v2") = .ok (B "/v2", none) ∧ Modfile.modulePathMajor (B "a.b/v2") = some (B "/v2") ∧
    Rule.modulePathMajor 10 (B "a.b/v1") = .ok ([], some "invalid module path") ∧ Modfile.modulePathMajor (B "a.b/v1") = none := by
  decide +kernel

/-! ### parseDirectiveComment, parseDeprecation -/

/-- `block` is nil (`bc = none`) or a block object of the heap whose comments are `bc` (`BlockArg`) -/
theorem parseDirectiveComment_tie {w : Rule.Heap} {block p : Int} {l : Modfile.Line} {bc : Option Modfile.Comments}
    (hg : heapGet w.lines p = .ok (lineG l)) (hb : BlockArg w block bc) (fuel : Nat)
    (hf : comLen l.comments + (bc.map comLen).getD 0 + 3 ≤ fuel) :
    Rule.parseDirectiveComment fuel block p w = .ok (Modfile.parseDirectiveComment bc l.comments, w) :=
  parseDirectiveComment_spec hg hb fuel hf

theorem parseDeprecation_tie {w : Rule.Heap} {block p : Int} {l : Modfile.Line} {bc : Option Modfile.Comments}
    (hg : heapGet w.lines p = .ok (lineG l)) (hb : BlockArg w block bc) (fuel : Nat)
    (hf : comLen l.comments + (bc.map comLen).getD 0 + 3 ≤ fuel) :
    Rule.parseDeprecation deprecatedSubI fuel block p w = .ok (Modfile.parseDeprecation bc l.comments, w) :=
  parseDeprecation_spec hg hb fuel hf

-- the rationale of the retract line, the deprecation message of the module line
example : (Rule.parseDirectiveComment 10 0 2 exHeap).toOption.map (·.1) = some (B "why") ∧
    Modfile.parseDirectiveComment none (exLine 1).comments = B "why" := by decide +kernel
example : (Rule.parseDeprecation deprecatedSubI 10 0 4 exHeap).toOption.map (·.1) = some (B "use x") ∧
    Modfile.parseDeprecation none (exLine 3).comments = B "use x" := by decide +kernel

/-! ### parseVersionInterval -/

/-- parseVersionInterval on a view: interval, error, the returned view (the argument advanced by the number of consumed
    tokens) and the heap (the line's tokens after the in-place stores of parseVersion) are those of `pviOut`, the Go
    function on the token list -/
theorem parseVersionInterval_tie {h : Rule.Heap} {r : Rule.TokRef} {pre toks : List Bytes} (v : TokView h r pre toks)
    (verb path : Bytes) (fx : Option Modfile.Fixer) (fuel : Nat) (hf : 8 * tokSum toks + 1 ≤ fuel) :
    Rule.parseVersionInterval isPrintI Quote.quote unquoteI fuel verb path r (fixG fx) h =
      .ok ((((pviOut path toks fx).vi, (pviOut path toks fx).err), { r with lo := r.lo + (pviOut path toks fx).dropped }),
        setToksH h r.owner (pre ++ (pviOut path toks fx).toks)) :=
  parseVersionInterval_spec v verb path fx fuel hf

/-- `pviOut` is the hand model's parseVersionInterval: the same tokens are rewritten; on success the same interval and the
    remaining tokens are the model's, on failure an error of the model's kind -/
theorem parseVersionInterval_model (path : Bytes) (toks : List Bytes) (fx : Option Modfile.Fixer) :
    PviRel (pviOut path toks fx) (Modfile.parseVersionInterval path toks fx) :=
  pviOut_model path toks fx

/-- the returned view denotes the remaining tokens in the new heap -/
theorem parseVersionInterval_view {h : Rule.Heap} {r : Rule.TokRef} {pre toks : List Bytes} (v : TokView h r pre toks) (path : Bytes)
    (fx : Option Modfile.Fixer) :
    TokView (setToksH h r.owner (pre ++ (pviOut path toks fx).toks)) { r with lo := r.lo + (pviOut path toks fx).dropped }
      (pre ++ (pviOut path toks fx).toks.take (pviOut path toks fx).dropped.toNat)
      ((pviOut path toks fx).toks.drop (pviOut path toks fx).dropped.toNat) :=
  pviOut_view v path fx

/-- all of it in one statement about the model -/
theorem parseVersionInterval_sim {h : Rule.Heap} {r : Rule.TokRef} {pre toks : List Bytes} (v : TokView h r pre toks)
    (verb path : Bytes) (fx : Option Modfile.Fixer) (fuel : Nat) (hf : 8 * tokSum toks + 1 ≤ fuel) :
    ∃ vi err r', Rule.parseVersionInterval isPrintI Quote.quote unquoteI fuel verb path r (fixG fx) h =
        .ok (((vi, err), r'), setToksH h r.owner (pre ++ (Modfile.parseVersionInterval path toks fx).1)) ∧ r'.owner = r.owner ∧
      match (Modfile.parseVersionInterval path toks fx).2 with
      | .ok (mvi, rest) => err = none ∧ vi = viG mvi ∧
          ∃ pre', TokView (setToksH h r.owner (pre ++ (Modfile.parseVersionInterval path toks fx).1)) r' pre' rest
      | .error k => errAbs err k ∧ vi = default ∧ r' = r := by
  have hm := pviOut_model path toks fx
  have hv := pviOut_view v path fx
  refine ⟨(pviOut path toks fx).vi, (pviOut path toks fx).err, { r with lo := r.lo + (pviOut path toks fx).dropped }, ?_, rfl, ?_⟩
  · rw [parseVersionInterval_spec v verb path fx fuel hf, hm.1]
  · obtain ⟨h1, h2⟩ := hm
    rcases hr : (Modfile.parseVersionInterval path toks fx).2 with k | ⟨mvi, rest⟩
    · rw [hr] at h2
      refine ⟨h2.1, h2.2.1, ?_⟩
      rw [h2.2.2]; cases r; simp
    · rw [hr] at h2
      obtain ⟨e1, e2, _, _, e5⟩ := h2
      rw [h1, e5] at hv
      exact ⟨e1, e2, _, hv⟩

-- the arguments of the `retract` line (pointer 2, after the verb): `[ v1.0.0 , "v1.1.0" ]`; the quoted bound is rewritten
example : (Rule.parseVersionInterval isPrintI Quote.quote unquoteI 200 (B "retract") [] { owner := 2, lo := 1 }
        (fixG (some Modfile.dontFixRetract)) exHeap).toOption.map (fun x => (x.1, (heapGet x.2.lines 2).toOption.map (·.Token))) =
      some ((({ Low := B "v1.0.0", High := B "v1.1.0" }, none), { owner := 2, lo := 6 }),
        some [B "retract", B "[", B "v1.0.0", B ",", B "v1.1.0", B "]"]) ∧
    Modfile.parseVersionInterval [] ((exLine 1).token.drop 1) (some Modfile.dontFixRetract) =
      ([B "[", B "v1.0.0", B ",", B "v1.1.0", B "]"], .ok ({ low := B "v1.0.0", high := B "v1.1.0" }, [])) := by
  decide +kernel
-- … and the hypothesis of the tie holds there
example : TokView exHeap { owner := 2, lo := 1 } [B "retract"] ((exLine 1).token.drop 1) :=
  ⟨lineG (exLine 1), by decide +kernel, by decide +kernel, rfl⟩

/-! ### parseReplace -/

/-- parseReplace on a view `r` of the arguments of its own line (`r.owner` is the `line` argument, `L` its object): the
    result pointers and the heap are `prFinal h (prOut …)`: the tokens after the stores, plus ONE allocation — a `Replace`
    object (`(p, nil)`) or an `Error` object (`(nil, p)`) -/
theorem parseReplace_tie {h : Rule.Heap} {r : Rule.TokRef} {pre args : List Bytes}
    (v : TokView h r pre args) {L : Rule.Line} (hg : heapGet h.lines r.owner = .ok L) (fn verb : Bytes)
    (fx : Option Modfile.Fixer) (fuel : Nat) (hf : 8 * tokSum args + 1 ≤ fuel)
    (hv : 2 * (prOut fn L.Start r.owner verb args fx).vlen ≤ fuel) :
    Rule.parseReplace isPrintI Quote.quote unquoteI fuel fn r.owner verb r (fixG fx) h =
      .ok (prFinal h (prOut fn L.Start r.owner verb args fx) r.owner pre) :=
  parseReplace_spec v hg fn verb fx fuel hf hv

/-- `prOut` is the hand model's parseReplace: same rewritten tokens; the new `Replace` object has the model's fields and
    `Syntax = line`; the new `Error` object is at `pos` with an error of the model's kind -/
theorem parseReplace_model (fn : Bytes) (pos : Rule.Position) (line : Int) (verb : Bytes) (fx : Option Modfile.Fixer) (lineId : Nat)
    (args : List Bytes) :
    PrRel pos line (prOut fn pos line verb args fx) (Modfile.parseReplace lineId args fx) :=
  prOut_model fn pos line verb fx lineId args

/-- the fuel for module.CheckPathMajor in terms of the model: twice the length of the old version, when there is one (a
    fixer may return a version of any length) -/
theorem parseReplace_fuel (fn : Bytes) (pos : Rule.Position) (line : Int) (verb : Bytes) (args : List Bytes) (fx : Option Modfile.Fixer)
    (fuel : Nat)
    (hv : ∀ a0 a1 rest s a0' a1' v, args = a0 :: a1 :: rest → Modfile.parseString a0 = some (s, a0') →
      Modfile.parseVersion s a1 fx = (a1', .ok v) → 2 * v.length ≤ fuel) :
    2 * (prOut fn pos line verb args fx).vlen ≤ fuel := by
  rcases prOut_vlen_cases fn pos line verb args fx with h0 | ⟨a0, a1, rest, s, a0', a1', v, h1, h2, h3, h4⟩
  · rw [h0]; omega
  · rw [h4]; exact hv a0 a1 rest s a0' a1' v h1 h2 h3

/-- both together, on a represented line: the result pointer is a NEW Replace object / a NEW Error object with the model's
    content, the line's tokens are the model's new arguments -/
theorem parseReplace_sim {h : Rule.Heap} {r : Rule.TokRef} {pre args : List Bytes} (v : TokView h r pre args) {l : Modfile.Line}
    (hg : heapGet h.lines r.owner = .ok (lineG l)) (fn verb : Bytes) (fx : Option Modfile.Fixer) (fuel : Nat)
    (hf : 8 * tokSum args + 1 ≤ fuel)
    (hv : ∀ a0 a1 rest s a0' a1' v, args = a0 :: a1 :: rest → Modfile.parseString a0 = some (s, a0') →
      Modfile.parseVersion s a1 fx = (a1', .ok v) → 2 * v.length ≤ fuel) (lineId : Nat) :
    match (Modfile.parseReplace lineId args fx).2 with
    | .ok R => ∃ obj, obj.Old = mvG R.old ∧ obj.New = mvG R.new ∧ obj.Syntax = r.owner ∧
        Rule.parseReplace isPrintI Quote.quote unquoteI fuel fn r.owner verb r (fixG fx) h =
          .ok ((((h.replaces.length + 1 : Nat) : Int), 0),
            { setToksH h r.owner (pre ++ (Modfile.parseReplace lineId args fx).1) with replaces := h.replaces ++ [obj] })
    | .error k => ∃ e, e.Pos = posG l.start ∧ errAbs e.Err k ∧
        Rule.parseReplace isPrintI Quote.quote unquoteI fuel fn r.owner verb r (fixG fx) h =
          .ok ((0, ((h.errors.length + 1 : Nat) : Int)),
            { setToksH h r.owner (pre ++ (Modfile.parseReplace lineId args fx).1) with errors := h.errors ++ [e] }) := by
  have hs := parseReplace_spec v hg fn verb fx fuel hf (parseReplace_fuel fn _ r.owner verb args fx fuel hv)
  have hm := prOut_model fn (posG l.start) r.owner verb fx lineId args
  simp only [lineG_Start] at hs
  obtain ⟨h1, h2⟩ := hm
  rcases hr : (Modfile.parseReplace lineId args fx).2 with k | R
  · rw [hr] at h2
    obtain ⟨e, he, hp, ha⟩ := h2
    refine ⟨e, hp, ha, ?_⟩
    rw [hs, prFinal, he, h1]
  · rw [hr] at h2
    obtain ⟨obj, ho, h3, h4, h5⟩ := h2
    refine ⟨obj, h3, h4, h5, ?_⟩
    rw [hs, prFinal, ho, h1]

-- the first `replace` line (pointer 3): a NEW Replace object, the tokens unchanged;
-- the second one (pointer 5): `a.b/d@v1` is no directory path: a NEW Error object at the line's start
example : (Rule.parseReplace isPrintI Quote.quote unquoteI 400 (B "go.mod") 3 (B "replace") { owner := 3, lo := 1 } (fixG none)
        exHeap).toOption.map (fun x => (x.1, x.2.replaces, x.2.errors)) =
      some ((1, 0), [{ Old := { Path := B "a.b/c", Version := B "v1.0.0" }, New := { Path := B "./d", Version := [] }, Syntax := 3 }], []) ∧
    Modfile.parseReplace (exLine 2).id ((exLine 2).token.drop 1) none =
      ([B "a.b/c", B "v1.0.0", B "=>", B "./d"],
        .ok { old := { path := B "a.b/c", version := B "v1.0.0" }, new := { path := B "./d", version := [] }, lineId := (exLine 2).id }) := by
  decide +kernel
example : (Rule.parseReplace isPrintI Quote.quote unquoteI 400 (B "go.mod") 5 (B "replace") { owner := 5, lo := 1 } (fixG none)
        exHeap).toOption.map (fun x => (x.1, x.2.replaces, x.2.errors.map (fun e => (e.Pos, e.Err)))) =
      some ((0, 1), [], [(posG (exLine 4).start,
        some "replacement module must match format 'path version', not 'path@version'")]) ∧
    (Modfile.parseReplace (exLine 4).id ((exLine 4).token.drop 1) none).2 = .error .replaceAtVersion := by
  decide +kernel
example : TokView exHeap { owner := 3, lo := 1 } [B "replace"] ((exLine 2).token.drop 1) :=
  ⟨lineG (exLine 2), by decide +kernel, by decide +kernel, rfl⟩

end ModVerif.Tie.FnRuleLeaf
