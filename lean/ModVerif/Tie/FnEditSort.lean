/-
  Tie: `File.SortBlocks`, `File.removeDups`, `File.Cleanup` and the go.work counterparts `WorkFile.SortBlocks`,
  `WorkFile.removeDups`, `WorkFile.Cleanup` of the regenerated edit operations (Generated/FnEdit.lean, namespace
  ModVerif.Generated.Edit; pointer graph = heap) are the hand model's `sortBlocks`, `removeDups`, `cleanup`,
  `workSortBlocks`, `workCleanup` (Model/Modfile/Edit.lean).

  Shape: a simulation on the shared representation of Proofs/TieFnEditRep.lean.  For an operation `op` (all six are total on
  the model: no `EditErr`):
      RepF h fp e → bound e ≤ fuel → ∃ h', File_Op fuel fp h = .ok ((), h') ∧ RepF h' fp (Edit.op e)
  (`RepW` / `EWork` for go.work): the regenerated function terminates without a panic and without running out of fuel, and
  the heap it returns represents the model's result — line ids = line pointers are kept, no object is allocated, the
  `*File` pointer `fp` is unchanged.  `BlockTokOK` (every block has a verb; Go evaluates `block.Token[0]` in SortBlocks) is
  a field of `RepF`.  The fuel bounds are explicit functions of the model file (`dupsSize`, `sortFuel`, `cleanFuel`, …:
  typed-list lengths, number of statements and block lines, for the comparators `2 · bytes + #tokens + 1` per line, for
  `semver.Compare` of the go version `2·|version|`).

  Method (helper files Proofs/TieFnEditSort{A,…,G}.lean):
  * removeDups: the `kill` map (keys `*Line` pointers) is related to the model's list of killed ids as a SET (`KillRel`; the
    model concatenates `killLater`/`killEarlier` lists, Go inserts into a map: order differs, membership is all that is
    read), the `have…` maps to the model's `seen` lists (`SeenRel`); the typed lists are zipped pointer/entry lists
    (`ZEnts`), the filter loops are `List.filter`; the statement loop (`loop7`/`loop8`) is `dropKilled` on `RStmts`, it
    overwrites the `Line` list of every block, also of the dropped ones (they become garbage);
  * SortBlocks: `GoRt.sortStableW` with the world-reading comparator is the model's `stableSort`/`insertLine` on
    represented lines (`sortStableW_spec`); the comparators are the ties of Tie/FnEditTree.lean; the go-version test is
    `Tie.FnSemver.Compare_tie`;
  * Cleanup: the two-pointer compaction `f.X[w] = r; w++ … f.X = f.X[:w]` is `List.filter` (`compactF_spec`); the tree part
    is `FnEditAddLine.Cleanup_tie` (owner edit-tree).
  The go.work loops are literally the go.mod ones (`wloop3_eq`) or instances of the same generic loops.
-/
import ModVerif.Generated.FnEdit
import ModVerif.Model.Modfile.Edit
import ModVerif.Proofs.TieFnEditRep
import ModVerif.Proofs.TieFnEditSortE
import ModVerif.Proofs.TieFnEditSortG
import ModVerif.Tie.FnEditAddLine
import ModVerif.Proofs.TieFnEditSortEx
set_option linter.unusedSimpArgs false
set_option linter.unusedVariables false
namespace ModVerif.Tie.FnEditSort
open ModVerif ModVerif.GoRt ModVerif.Generated.Edit ModVerif.Tie.FnEditRep
open ModVerif.Tie.FnEditSortB (nodes)
open ModVerif.Tie.FnEditSortC (removeDupsE workRemoveDupsE dupsSize workDupsSize)
open ModVerif.Tie.FnEditSortE (sortFuel workSortFuel)
open ModVerif.Tie.FnEditSortG (cleanSize workCleanSize CleanHyp)
open ModVerif.Modfile.Edit (EFile EWork sortBlocks workSortBlocks cleanup workCleanup removeDups)
open ModVerif.Tie.FnEditSortEx

/-! ### removeDups -/

/-- **`f.removeDups()` (rule.go:1671, the inlined generic `removeDups`)**: the model's `removeDups` on the three typed lists
    and the syntax tree (`removeDupsE e` = `e` with the four components of
    `Edit.removeDups e.f.syn (some e.f.exclude) e.f.replace (some e.f.tool)`);
    fuel: `#exclude + #replace + #tool + #statements + #block lines < fuel`. -/
theorem File_removeDups_tie {h : Heap} {fp : Int} {e : EFile} (R : RepF h fp e) (fuel : Nat) (hf : dupsSize e < fuel) :
    ∃ h', File_removeDups fuel fp h = .ok ((), h') ∧ RepF h' fp (removeDupsE e) :=
  FnEditSortC.File_removeDups_sim R fuel hf

-- a duplicate exclude (first wins), a duplicate replacement (last wins), a duplicate tool (first wins)
example : runFile exSort (fun fp h => File_removeDups 100 fp h) = modelFile exSort removeDupsE ∧
    (runFile exSort (fun fp h => File_removeDups 100 fp h)).map (fun f => (f.exclude.length, f.replace.length, f.tool.length)) =
      some (2, 2, 2) := by decide +kernel

/-- what `removeDupsE` is -/
theorem removeDupsE_spec (e : EFile) :
    removeDupsE e = { e with f := { e.f with
      exclude := ((removeDups e.f.syn (some e.f.exclude) e.f.replace (some e.f.tool)).2.1).getD []
      replace := (removeDups e.f.syn (some e.f.exclude) e.f.replace (some e.f.tool)).2.2.1
      tool := ((removeDups e.f.syn (some e.f.exclude) e.f.replace (some e.f.tool)).2.2.2).getD []
      syn := (removeDups e.f.syn (some e.f.exclude) e.f.replace (some e.f.tool)).1 } } := rfl

/-- **`f.removeDups()` of a go.work (work.go:343)**: `removeDups(syntax, nil, &replace, nil)` -/
theorem WorkFile_removeDups_tie {h : Heap} {fp : Int} {e : EWork} (R : RepW h fp e) (fuel : Nat) (hf : workDupsSize e < fuel) :
    ∃ h', WorkFile_removeDups fuel fp h = .ok ((), h') ∧ RepW h' fp (workRemoveDupsE e) :=
  FnEditSortC.WorkFile_removeDups_sim R fuel hf

example : runWork exWork (fun fp h => WorkFile_removeDups 100 fp h) = modelWork exWork workRemoveDupsE ∧
    (runWork exWork (fun fp h => WorkFile_removeDups 100 fp h)).map (fun f => f.replace.length) = some 2 := by decide +kernel

theorem workRemoveDupsE_spec (e : EWork) :
    workRemoveDupsE e = { e with f := { e.f with
      replace := (removeDups e.f.syn none e.f.replace none).2.2.1
      syn := (removeDups e.f.syn none e.f.replace none).1 } } := rfl

/-! ### SortBlocks -/

/-- **`File.SortBlocks` (rule.go:1634) = the model's `sortBlocks`**; fuel `sortFuel e`:
    `dupsSize e + #statements + Σ_lines (2·bytes + #tokens + 1) + 2·|go version| + 12`. -/
theorem File_SortBlocks_tie {h : Heap} {fp : Int} {e : EFile} (R : RepF h fp e) (fuel : Nat) (hf : sortFuel e ≤ fuel) :
    ∃ h', File_SortBlocks fuel fp h = .ok ((), h') ∧ RepF h' fp (sortBlocks e) :=
  FnEditSortE.File_SortBlocks_sim R fuel hf

-- go 1.21: the exclude block in semantic order (v1.2.0 before v1.10.0), retract block newest first, duplicates removed;
-- without a go directive: lexical order
example : runFile exSort (fun fp h => File_SortBlocks 400 fp h) = modelFile exSort sortBlocks ∧
    (runFile exSort (fun fp h => File_SortBlocks 400 fp h)).isSome = true ∧
    runFile exSortOld (fun fp h => File_SortBlocks 400 fp h) = modelFile exSortOld sortBlocks ∧
    (runFile exSortOld (fun fp h => File_SortBlocks 400 fp h)).isSome = true := by decide +kernel

/-- the hypotheses of `File_SortBlocks_tie` hold for the loaded example file with the fuel of the example -/
example : ∃ f, Modfile.parseStrict (B "go.mod") exSort none = .ok f ∧
    RepF (Drv.GenEdit.load f).1 (Drv.GenEdit.load f).2 (Modfile.Edit.load f) ∧ sortFuel (Modfile.Edit.load f) ≤ 400 := by
  have h : (match Modfile.parseStrict (B "go.mod") exSort none with
      | .ok f => loadOKB f && decide (sortFuel (Modfile.Edit.load f) ≤ 400) | .error _ => false) = true := by decide +kernel
  cases hp : Modfile.parseStrict (B "go.mod") exSort none with
  | error e => rw [hp] at h; cases h
  | ok f =>
    rw [hp] at h
    simp only [Bool.and_eq_true, decide_eq_true_eq] at h
    exact ⟨f, rfl, load_rep f (loadOKB_sound h.1), h.2⟩

/-- the name other operation proofs use (`File_AddTool` ends with `SortBlocks`) -/
theorem File_SortBlocks_sim {h : Heap} {fp : Int} {e : EFile} (R : RepF h fp e) {fuel : Nat} (hf : sortFuel e ≤ fuel) :
    ∃ h', File_SortBlocks fuel fp h = .ok ((), h') ∧ RepF h' fp (sortBlocks e) :=
  File_SortBlocks_tie R fuel hf

/-- **`WorkFile.SortBlocks` (work.go:320) = the model's `workSortBlocks`** -/
theorem WorkFile_SortBlocks_tie {h : Heap} {fp : Int} {e : EWork} (R : RepW h fp e) (fuel : Nat) (hf : workSortFuel e ≤ fuel) :
    ∃ h', WorkFile_SortBlocks fuel fp h = .ok ((), h') ∧ RepW h' fp (workSortBlocks e) :=
  FnEditSortE.WorkFile_SortBlocks_sim R fuel hf

example : runWork exWork (fun fp h => WorkFile_SortBlocks 200 fp h) = modelWork exWork workSortBlocks ∧
    (runWork exWork (fun fp h => WorkFile_SortBlocks 200 fp h)).isSome = true := by decide +kernel

/-! ### Cleanup -/

theorem nodeCount_eq_nodes : ∀ ss : List Modfile.Expr, TieFnEditAddLine.nodeCount ss = nodes ss
  | [] => rfl
  | s :: ss => by
    cases s <;> simp only [TieFnEditAddLine.nodeCount, nodes, nodeCount_eq_nodes ss] <;> omega

/-- the `FileSyntax.Cleanup` tie of Tie/FnEditAddLine.lean in the form the compaction proofs use -/
theorem cleanHyp : CleanHyp (fun fs => nodes fs.stmts + 1) := by
  intro h x fs fuel r htok hf
  obtain ⟨h', a, b, c, d, e, _, F, _⟩ := FnEditAddLine.Cleanup_tie r htok fuel (by rw [nodeCount_eq_nodes]; exact hf)
  exact ⟨h', a, b, c, d, e,
    ⟨F.excludes, F.mods, F.gos, F.godebugs, F.modules, F.replaces, F.requires, F.retracts, F.tools, F.toolchains, F.uses, F.works⟩⟩

/-- **`File.Cleanup` (rule.go:994) = the model's `cleanup`**: the six typed lists are compacted (entries with an empty
    key / path / interval dropped, order kept), then `f.Syntax.Cleanup()`;
    fuel: the six list lengths together `< fuel`, `#statements + #block lines + 1 ≤ fuel`. -/
theorem File_Cleanup_tie {h : Heap} {fp : Int} {e : EFile} (R : RepF h fp e) (fuel : Nat)
    (hf : cleanSize e < fuel) (hf2 : nodes e.f.syn.stmts + 1 ≤ fuel) :
    ∃ h', File_Cleanup fuel fp h = .ok ((), h') ∧ RepF h' fp (cleanup e) :=
  FnEditSortG.File_Cleanup_sim _ cleanHyp R fuel hf hf2

-- an exclude, a replacement and a tool are dropped, then `Cleanup`: 3 → 2 entries each, the lines leave the tree
example : runFile exSort dropThenCleanup = modelFile exSort dropThenCleanupM ∧
    (runFile exSort dropThenCleanup).map (fun f => (f.exclude.length, f.replace.length, f.tool.length)) = some (2, 2, 2) := by
  decide +kernel

/-- **`WorkFile.Cleanup` (work.go:90) = the model's `workCleanup`** -/
theorem WorkFile_Cleanup_tie {h : Heap} {fp : Int} {e : EWork} (R : RepW h fp e) (fuel : Nat)
    (hf : workCleanSize e < fuel) (hf2 : nodes e.f.syn.stmts + 1 ≤ fuel) :
    ∃ h', WorkFile_Cleanup fuel fp h = .ok ((), h') ∧ RepW h' fp (workCleanup e) :=
  FnEditSortG.WorkFile_Cleanup_sim _ cleanHyp R fuel hf hf2

example : runWork exWork wDropThenCleanup = modelWork exWork wDropThenCleanupM ∧
    (runWork exWork wDropThenCleanup).map (fun f => (f.use.length, f.replace.length)) = some (1, 2) := by decide +kernel

end ModVerif.Tie.FnEditSort
