/-
  C19 transported to the regenerated directory code: the property theorem of Props/C19.lean that is about
  `Dirhash.dirFiles` / `Dirhash.hashDir` (`zip_dir_agree`, hand model Model/Dirhash.lean) restated about
  `Generated.Dirhash.HashDir` / `DirFiles` / `Hash1` (Generated/FnDirhash.lean, re-translated from sumdb/dirhash/hash.go on
  every run) through the tie theorems of Tie/FnDirhashDir.lean and Tie/FnDirhash.lean.

  Setting of every statement: `files` is a well-formed flat directory listing (`WF`, decidable), the file system holds its
  name-sorted trie at `filepath.Clean(d)` (`walkRoot (pathClean d) = treeOf (.dir files)`), reading
  `filepath.Join(d, rel)` yields the content of the listed file `rel`, `d` is non-empty and does not clean to `/`,
  the `Hash` argument is the regenerated `Hash1` (`genHash sha`), the prefix `path@version` is a clean relative path.
  Every statement is about the RESULT `.ok (string, error)` of the generated function, so it also says: no index panic
  (`file[len(dir)+1:]`) and no fuel exhaustion.

  Corollaries only — nothing here is used by another module.
-/
import ModVerif.Tie.FnDirhashDir
import ModVerif.Props.C19
namespace ModVerif.Tie.FnDirhashDirC19
open ModVerif ModVerif.GoRt ModVerif.Dirhash ModVerif.TieFnDirhashDir ModVerif.Tie.FnDirhashDir
open ModVerif.Generated.Dirhash (FileInfo DirFiles HashDir)
open ModVerif.Drv.GenDirhash (treeOf)

/-- the regenerated Hash1 over an abstract SHA-256 -/
abbrev genHash1 (sha : Bytes → Bytes) (fuel : Nat) (files : List Bytes) (open_ : Bytes → Bytes × Option String) :
    GoRt.M (Bytes × Option String) :=
  Generated.Dirhash.Hash1 Base64.encodeStd (fun acc pre => pre ++ sha acc) fuel files open_

/-- the regenerated HashDir applied to a directory that holds `files`, as the result of the model's `hashUnzipped`
    (= `hashDir` of that directory under the prefix `path@version`) -/
theorem hashUnzipped_gen (sha : Bytes → Bytes) (path version : Bytes) (files : List (Bytes × Bytes))
    (hpfx : CleanRel (modPrefix path version)) (hwf : WF files)
    (osOpenRead : Bytes → Bytes × Option String) (walkRoot : Bytes → Option (FsTree FileInfo)) (d : Bytes) (e : String)
    (fuel : Nat) (hw : walkRoot (pathClean d) = treeOf (.dir files)) (hd : pathClean d ≠ [47]) (hne : d ≠ [])
    (hf : walkFuel files + 2 ≤ fuel) (hopen : ∀ f ∈ files, osOpenRead (fpJoin d f.1) = (f.2, none)) :
    HashDir osOpenRead walkRoot fuel d (modPrefix path version) (genHash sha) =
      .ok (embedHash e (hashUnzipped sha path version files)) :=
  HashDir_tie_fs sha osOpenRead walkRoot (.dir files) d (modPrefix path version) e fuel hw hd hne hwf hpfx hf hopen

/-- ★ Zip/directory agreement (C19 `zip_dir_agree`) between the two REGENERATED functions: `HashDir` of the directory a
    module zip extracts to, under the prefix `path@version`, returns what `Hash1` returns on the listing of the archive
    `zip.Create` writes (entries `path@version/rel` in list order, opened through the last entry of a name, which is how
    `HashZip` calls `Hash1`).  `e` is the text of a failing zip `open` (none fails here). -/
theorem zip_dir_agree_gen (sha : Bytes → Bytes) (path version : Bytes) (files : List (Bytes × Bytes))
    (hpfx : CleanRel (modPrefix path version)) (hwf : WF files)
    (osOpenRead : Bytes → Bytes × Option String) (walkRoot : Bytes → Option (FsTree FileInfo)) (d : Bytes) (e : String)
    (fuel fuelZ : Nat) (hw : walkRoot (pathClean d) = treeOf (.dir files)) (hd : pathClean d ≠ [47]) (hne : d ≠ [])
    (hf : walkFuel files + 2 ≤ fuel) (hfz : files.length + 1 ≤ fuelZ)
    (hopen : ∀ f ∈ files, osOpenRead (fpJoin d f.1) = (f.2, none)) :
    HashDir osOpenRead walkRoot fuel d (modPrefix path version) (genHash sha) =
      genHash1 sha fuelZ (hashZipNames (modZipEntries path version files))
        (TieFnDirhash.openOf (lookupLast (modZipEntries path version files)) e) := by
  rw [hashUnzipped_gen sha path version files hpfx hwf osOpenRead walkRoot d e fuel hw hd hne hf hopen]
  unfold genHash1
  rw [Tie.FnDirhash.Hash1_tie_embed sha _ _ e fuelZ (by simpa [hashZipNames, modZipEntries] using hfz)]
  rw [← Props.C19.zip_dir_agree sha path version files hpfx hwf.cleanRel hwf.nodup]
  unfold hashModZip hashZip
  rw [embedHash_hash1]

/-- the same against the hand model of `HashZip` on the created archive -/
theorem zip_dir_agree_gen_model (sha : Bytes → Bytes) (path version : Bytes) (files : List (Bytes × Bytes))
    (hpfx : CleanRel (modPrefix path version)) (hwf : WF files)
    (osOpenRead : Bytes → Bytes × Option String) (walkRoot : Bytes → Option (FsTree FileInfo)) (d : Bytes) (e : String)
    (fuel : Nat) (hw : walkRoot (pathClean d) = treeOf (.dir files)) (hd : pathClean d ≠ [47]) (hne : d ≠ [])
    (hf : walkFuel files + 2 ≤ fuel) (hopen : ∀ f ∈ files, osOpenRead (fpJoin d f.1) = (f.2, none)) :
    HashDir osOpenRead walkRoot fuel d (modPrefix path version) (genHash sha) =
      .ok (embedHash e (hashModZip sha path version files)) := by
  rw [hashUnzipped_gen sha path version files hpfx hwf osOpenRead walkRoot d e fuel hw hd hne hf hopen,
    Props.C19.zip_dir_agree sha path version files hpfx hwf.cleanRel hwf.nodup]

/-- ★ The documented formula (C19 `hash1_formula`) for the regenerated HashDir of a module directory: for ANY listing `s`
    of the pairs (`path@version/rel`, content) in strictly increasing bytewise name order and newline-free names,
    HashDir = ("h1:" ++ base64 (sha256 (concatenation of the documented lines of `s`)), nil).  (The names are listed
    in WALK order by DirFiles and sorted again by Hash1: the walk order does not reach the result.) -/
theorem gen_HashDir_formula (sha : Bytes → Bytes) (path version : Bytes) (files s : List (Bytes × Bytes))
    (hpfx : CleanRel (modPrefix path version)) (hwf : WF files)
    (hperm : s.Perm (modZipEntries path version files)) (hsorted : s.Pairwise (fun a b => bytesLt a.1 b.1 = true))
    (hnl : ∀ p ∈ modZipEntries path version files, (10 : UInt8) ∉ p.1)
    (osOpenRead : Bytes → Bytes × Option String) (walkRoot : Bytes → Option (FsTree FileInfo)) (d : Bytes)
    (fuel : Nat) (hw : walkRoot (pathClean d) = treeOf (.dir files)) (hd : pathClean d ≠ [47]) (hne : d ≠ [])
    (hf : walkFuel files + 2 ≤ fuel) (hopen : ∀ f ∈ files, osOpenRead (fpJoin d f.1) = (f.2, none)) :
    HashDir osOpenRead walkRoot fuel d (modPrefix path version) (genHash sha) =
      .ok ([104, 49, 58] ++ Base64.encodeStd (sha (s.flatMap (Props.C19.docLine sha))), none) := by
  rw [zip_dir_agree_gen_model sha path version files hpfx hwf osOpenRead walkRoot d "" fuel hw hd hne hf hopen]
  have hsn : (s.map (·.1)).Pairwise (fun a b => bytesLt a b = true) := List.pairwise_map.2 hsorted
  have hnd : ((modZipEntries path version files).map (·.1)).Nodup :=
    ((hperm.map (·.1)).nodup_iff).1 (strictSorted_nodup bytesLt_strictTotal hsn)
  have hndr : ((modZipEntries path version files).reverse.map (·.1)).Nodup := by
    rw [List.map_reverse]
    unfold List.Nodup
    rw [List.pairwise_reverse]
    exact List.Pairwise.imp (fun h e => h e.symm) hnd
  have hcongr : hashModZip sha path version files = hash1Pairs sha (modZipEntries path version files) := by
    unfold hashModZip hashZip hash1Pairs hashZipNames
    apply TieFnDirhash.hash1_congr
    intro n hn
    obtain ⟨p, hp, rfl⟩ := List.mem_map.1 hn
    unfold lookupLast openPairs
    rw [lookup_of_mem_nodup _ p.1 p.2 hnd hp, lookup_of_mem_nodup _ p.1 p.2 hndr (List.mem_reverse.2 hp)]
  rw [hcongr, Props.C19.hash1_formula sha _ s hperm hsorted hnl]
  rfl

/-- the list DirFiles returns for a module directory: the entry names `path@version/rel` of the created zip, in walk
    order (C19: both sides of the zip/directory agreement list the same names) -/
theorem gen_DirFiles_names (path version : Bytes) (files : List (Bytes × Bytes))
    (hpfx : CleanRel (modPrefix path version)) (hwf : WF files)
    (walkRoot : Bytes → Option (FsTree FileInfo)) (d : Bytes) (fuel : Nat)
    (hw : walkRoot (pathClean d) = treeOf (.dir files)) (hd : pathClean d ≠ [47]) (hf : walkFuel files + 2 ≤ fuel) :
    ∃ names, DirFiles walkRoot fuel d (modPrefix path version) = .ok (names, none) ∧
      names.Perm (hashZipNames (modZipEntries path version files)) := by
  refine ⟨_, DirFiles_tie walkRoot (.dir files) d (modPrefix path version) fuel hw hd hwf hf, ?_⟩
  have hwalk : (walkOrder (files.map (·.1))).Perm (files.map (·.1)) := insertionSort_perm _
  have : hashZipNames (modZipEntries path version files) =
      (files.map (·.1)).map (fun rel => joinPath (modPrefix path version) rel) := by
    simp only [hashZipNames, modZipEntries, List.map_map]
    apply List.map_congr_left
    intro f hf'
    simp [joinPath_cleanRel hpfx (hwf.cleanRel f hf')]
  rw [this]
  exact hwalk.map _

/-! ### non-vacuity -/

/-- the hypotheses of `zip_dir_agree_gen` hold for the module `m@v` with the files `b`, `a/c` extracted to `/r`
    (`sha := id`), and both sides evaluate to the same hash -/
example : CleanRel (modPrefix [109] [118]) ∧ WF [([98], [1]), ([97, 47, 99], [2])] :=
  ⟨cleanRel_of_check _ (by decide), by decide⟩

example : HashDir (fun p => if p = [47, 114, 47, 98] then ([1], none) else if p = [47, 114, 47, 97, 47, 99] then ([2], none)
        else ([], some "open"))
      (fun p => if p = [47, 114] then treeOf (.dir [([98], [1]), ([97, 47, 99], [2])]) else none) 32 [47, 114]
      (modPrefix [109] [118]) (genHash id)
    = genHash1 id 3 (hashZipNames (modZipEntries [109] [118] [([98], [1]), ([97, 47, 99], [2])]))
        (TieFnDirhash.openOf (lookupLast (modZipEntries [109] [118] [([98], [1]), ([97, 47, 99], [2])])) "E") := by
  decide

/-- a sorted listing as `gen_HashDir_formula` wants it -/
example : ∃ s : List (Bytes × Bytes),
    s.Perm (modZipEntries [109] [118] [([98], [1]), ([97, 47, 99], [2])]) ∧
    s.Pairwise (fun a b => bytesLt a.1 b.1 = true) ∧
    (∀ p ∈ modZipEntries [109] [118] [([98], [1]), ([97, 47, 99], [2])], (10 : UInt8) ∉ p.1) :=
  ⟨[([109, 64, 118, 47, 97, 47, 99], [2]), ([109, 64, 118, 47, 98], [1])], List.Perm.swap _ _ _, by decide, by decide⟩

end ModVerif.Tie.FnDirhashDirC19
