/-
  Tie theorems of the two TREE operations every typed edit operation of modfile/rule.go and work.go is built on, for the
  regenerated code of Generated/FnEdit.lean (pointer graph = heap) against the hand model Model/Modfile/Edit.lean:

  * `addLine_tie`  — `FileSyntax.addLine` (read.go:104; hinted insertion: the no-hint search from the end of the file, the
    walk over `x.Stmt`, conversion of a line into a block, insertion after the hint inside a block, `newLineAfter`)
    = the model's `addLine` (`lastStmtWith`, `addLineWalk`).  The result pointer is the NEW line, its pointer is the model's
    fresh id `new = lines.length + 1` (= `EFile.next` under `RepF`).
  * `addLinePtr_tie` — the same for the model's `addLinePtr` (a nil `*Line` passed as the hint: `Expr.Line 0`).
  * `Cleanup_tie` — `FileSyntax.Cleanup` (read.go:209; two-pointer compaction of `x.Stmt` and of every block, removal of dead
    lines, collapse of a one-line block into its line keeping the Line object) = the model's `cleanupSyntax`.

  Representation: `RepSyn h x fs` of Proofs/TieFnEditRep.lean (line pointer = line id; no aliasing).  `BlockTokOK`: every
  block has a verb (Go evaluates `stmt.Token[0]`, the model `headIs`) — a field of `RepF`; both operations preserve it.
  Hypotheses besides the representation: `tokens = t0 :: trest` (Go evaluates `tokens[0]`; no caller passes none) and the
  fuel bound `nodeCount fs.stmts + 3 ≤ fuel` (`nodeCount` = statements + block lines).  The hint need NOT be a line of the
  graph (then the line is appended at the end, on both sides).
  Frame (what operation proofs need): `Frame` — `cbs`, `mods`, `works` and the ten typed object lists are untouched;
  `lines.length` grows by one (addLine) / is unchanged (Cleanup); other `FileSyntax` objects untouched; `LinesG` preserved.

  Helper lemmas: Proofs/TieFnEditAddLine{A,…,H}.lean.  Examples: the harness of Proofs/TieFnEditTreeEx.lean (a parsed
  two-block go.mod loaded with the driver's `load`, the graph read back with `synM`, kernel-evaluated).
-/
import ModVerif.Generated.FnEdit
import ModVerif.Model.Modfile.Edit
import ModVerif.Proofs.TieFnEditRep
import ModVerif.Proofs.TieFnEditAddLineH
import ModVerif.Proofs.TieFnEditTreeEx
set_option linter.unusedSimpArgs false
set_option linter.unusedVariables false
namespace ModVerif.Tie.FnEditAddLine
open ModVerif ModVerif.GoRt ModVerif.Generated.Edit ModVerif.Tie.FnEditRep ModVerif.Tie.FnEditTreeEx
open ModVerif.TieFnEditAddLine (Frame CFrame nodeCount hintG)
open ModVerif.Modfile.Edit (mkLine)

/-! ### FileSyntax.addLine (read.go:104) = the model's `addLine` -/

/-- **`x.addLine(hint, tokens...)` on a represented syntax graph**: returns the pointer `lines.length + 1` of a NEW line
    object, and the new heap represents the model's `addLine fs hint tokens new` with that `new`.
    `hintG none = Expr.nil`, `hintG (some id) = Expr.Line id`. -/
theorem addLine_tie {h : Heap} {x : Int} {fs : Modfile.FileSyntax} (r : RepSyn h x fs) (htok : BlockTokOK fs.stmts)
    (hint : Option Nat) (t0 : Bytes) (trest : List Bytes) (fuel : Nat) (hfu : nodeCount fs.stmts + 3 ≤ fuel) :
    ∃ h', FileSyntax_addLine fuel x (hintG hint) (t0 :: trest) h = .ok (((h.lines.length + 1 : Nat) : Int), h') ∧
      RepSyn h' x (Modfile.Edit.addLine fs hint (t0 :: trest) (h.lines.length + 1)) ∧
      BlockTokOK (Modfile.Edit.addLine fs hint (t0 :: trest) (h.lines.length + 1)).stmts ∧
      (LinesG h → LinesG h') ∧ h'.lines.length = h.lines.length + 1 ∧ h.blocks.length ≤ h'.blocks.length ∧
      Frame h h' ∧ (∀ q, q ≠ x → heapGet h'.files q = heapGet h.files q) := by
  obtain ⟨es, r⟩ := r
  obtain ⟨h', h1, h2, h3, h4, h5, h6, h7, h8⟩ := TieFnEditAddLine.addLine_sim r htok hint t0 trest fuel hfu
  refine ⟨h', h1, ?_, h3, h4, h5, h6, h7, h8⟩
  have e : ({ fs with stmts := (Modfile.Edit.addLine fs hint (t0 :: trest) (h.lines.length + 1)).stmts } :
      Modfile.FileSyntax) = Modfile.Edit.addLine fs hint (t0 :: trest) (h.lines.length + 1) := by
    cases hint with
    | none => rw [TieFnEditAddLine.addLine_none]
    | some id => rw [TieFnEditAddLine.addLine_some]
  rw [← e]; exact h2

/-- the walk hinted by the nil line id finds nothing in a tree whose ids are positive -/
theorem addLineWalk_nil (tokens : List Bytes) (new : Nat) : ∀ (ss : List Modfile.Expr) (k : Nat),
    (∀ i ∈ TieFnEditAddLine.stmtIds ss, i ≠ 0) → Modfile.Edit.addLineWalk (.line 0) tokens new ss k = none
  | [], _, _ => rfl
  | s :: ss, k, hpos => by
    have hpos' : ∀ i ∈ TieFnEditAddLine.stmtIds ss, i ≠ 0 := by
      intro i hi
      refine hpos i ?_
      rw [TieFnEditAddLine.stmtIds_cons]; exact List.mem_append_right _ hi
    have ih := addLineWalk_nil tokens new ss (k + 1) hpos'
    cases s with
    | commentBlock c => rw [TieFnEditAddLine.walk_cb, ih]; rfl
    | lparen c => show (Modfile.Edit.addLineWalk _ _ _ ss (k + 1)).map _ = none; rw [ih]; rfl
    | rparen c => show (Modfile.Edit.addLineWalk _ _ _ ss (k + 1)).map _ = none; rw [ih]; rfl
    | line l =>
      have hl : l.id ≠ 0 := hpos l.id (by simp [TieFnEditAddLine.stmtIds])
      rw [TieFnEditAddLine.walk_line]
      have c : ((Modfile.Edit.Hint.line 0 == Modfile.Edit.Hint.line l.id) ||
          (Modfile.Edit.Hint.line 0 == Modfile.Edit.Hint.stmt k)) = false := by
        have : ¬ (0 = l.id) := fun e => hl e.symm
        simp [this]
      rw [c, ih]; rfl
    | lineBlock b =>
      rw [TieFnEditAddLine.walk_block]
      have c1 : (Modfile.Edit.Hint.line 0 == Modfile.Edit.Hint.stmt k) = false := by simp
      have c2 : b.lines.any (·.id == 0) = false := by
        cases hc : b.lines.any (·.id == 0) with
        | false => rfl
        | true =>
          obtain ⟨l, hl, he⟩ := List.any_eq_true.1 hc
          simp only [beq_iff_eq] at he
          exact absurd he (hpos l.id (by
            simp only [TieFnEditAddLine.stmtIds, TieFnEditAddLine.lineIds, List.mem_append]
            exact Or.inl (List.mem_map.2 ⟨l, hl, rfl⟩)))
      rw [c1]
      simp only [Bool.false_eq_true, if_false, c2, ih]
      rfl

/-- on a represented graph (all line ids positive) the model's pointer-hinted `addLinePtr` (hint `none` = a nil `*Line`
    variable, `some 0` = the nil `Syntax` of a cleared entry) is `addLine` hinted by that pointer -/
theorem addLinePtr_eq_addLine {h : Heap} {x : Int} {fs : Modfile.FileSyntax} (r : RepSyn h x fs) (hint : Option Nat)
    (tokens : List Bytes) (new : Nat) :
    Modfile.Edit.addLinePtr fs hint tokens new = Modfile.Edit.addLine fs (some (hint.getD 0)) tokens new := by
  obtain ⟨es, r⟩ := r
  have hw := addLineWalk_nil tokens new fs.stmts 0 (fun i hi => by
    rw [← TieFnEditAddLine.treeIds_eq_stmtIds] at hi
    have := (r.stmts.treeIds_le i hi).1
    omega)
  have h0 : Modfile.Edit.addLine fs (some 0) tokens new =
      { fs with stmts := fs.stmts ++ [.line (mkLine new tokens false)] } := by
    rw [TieFnEditAddLine.addLine_some, hw]
  unfold Modfile.Edit.addLinePtr
  cases hint with
  | none => exact h0.symm
  | some id =>
    by_cases hid : id = 0
    · subst hid
      simp only [Option.getD_some, h0]
      rfl
    · have : (id == Modfile.Edit.nilId) = false := by simpa [Modfile.Edit.nilId] using hid
      simp only [this, Bool.false_eq_true, if_false, Option.getD_some]

/-- **`addLine` with a `*Line` variable as the hint, which may be nil** (`var hint *Line`, `Exclude.Syntax` /
    `Replace.Syntax` of a cleared entry): the regenerated call is `FileSyntax_addLine … (Expr.Line hint) …` with `hint = 0`
    for nil, the model is `addLinePtr` -/
theorem addLinePtr_tie {h : Heap} {x : Int} {fs : Modfile.FileSyntax} (r : RepSyn h x fs) (htok : BlockTokOK fs.stmts)
    (hint : Option Nat) (t0 : Bytes) (trest : List Bytes) (fuel : Nat) (hfu : nodeCount fs.stmts + 3 ≤ fuel) :
    ∃ h', FileSyntax_addLine fuel x (Expr.Line ((hint.getD 0 : Nat) : Int)) (t0 :: trest) h =
        .ok (((h.lines.length + 1 : Nat) : Int), h') ∧
      RepSyn h' x (Modfile.Edit.addLinePtr fs hint (t0 :: trest) (h.lines.length + 1)) ∧
      BlockTokOK (Modfile.Edit.addLinePtr fs hint (t0 :: trest) (h.lines.length + 1)).stmts ∧
      (LinesG h → LinesG h') ∧ h'.lines.length = h.lines.length + 1 ∧ h.blocks.length ≤ h'.blocks.length ∧
      Frame h h' ∧ (∀ q, q ≠ x → heapGet h'.files q = heapGet h.files q) := by
  rw [addLinePtr_eq_addLine r]
  exact addLine_tie r htok (some (hint.getD 0)) t0 trest fuel hfu

/-- the new line object itself (what the typed operations store in `Syntax`) -/
theorem addLine_new_line {h' : Heap} {x : Int} {fs' : Modfile.FileSyntax} (r : RepSyn h' x fs') {new : Nat} {l : Modfile.Line}
    (hf : fs'.findLine new = some l) : heapGet h'.lines (new : Int) = .ok (lineG l) := (r.findLine hf).1

/-! non-vacuity: the file of Proofs/TieFnEditTreeEx.lean (`module m`, a two-line require block, an exclude block); the
    pointers of its lines are 1 (module), 2, 3 (require block), 4 (exclude block) -/

/-- run `addLine` on the loaded heap, read the graph back -/
def runAdd (hint : Expr) (tokens : List Bytes) : Option (Int × Option Modfile.FileSyntax) :=
  runVal exFile fun fp h => do
    let o ← heapGet h.mods fp
    let (p, h') ← FileSyntax_addLine 64 o.Syntax hint tokens h
    pure (p, Drv.GenEdit.synM h' o.Syntax)

def modelAdd (hint : Option Nat) (tokens : List Bytes) : Option (Int × Option Modfile.FileSyntax) :=
  modelVal exFile fun e => some ((e.next : Int), some (Modfile.Edit.addLine e.f.syn hint tokens e.next))

-- hint inside a block of the same verb: inserted after the hint
example : runAdd (Expr.Line 2) [B "require", B "q.r/s", B "v1.1.0"] = modelAdd (some 2) [B "require", B "q.r/s", B "v1.1.0"] := by
  decide +kernel
-- hint inside a block of another verb: a new line after the block
example : runAdd (Expr.Line 3) [B "tool", B "q.r/s"] = modelAdd (some 3) [B "tool", B "q.r/s"] := by decide +kernel
-- hint = a top-level line of the same verb: the line becomes a block
example : runAdd (Expr.Line 1) [B "module", B "n"] = modelAdd (some 1) [B "module", B "n"] := by decide +kernel
-- no hint, the last statement with the verb is a block: appended to the block
example : runAdd Expr.nil [B "exclude", B "q.r/s", B "v1.1.0"] = modelAdd none [B "exclude", B "q.r/s", B "v1.1.0"] := by
  decide +kernel
-- no hint, the last statement with the verb is a line: block conversion
example : runAdd Expr.nil [B "module", B "n"] = modelAdd none [B "module", B "n"] := by decide +kernel
-- no hint, no statement with the verb: appended to the file
example : runAdd Expr.nil [B "go", B "1.21"] = modelAdd none [B "go", B "1.21"] := by decide +kernel
-- a hint that is not in the graph (also the nil `*Line`): appended to the file
example : runAdd (Expr.Line 0) [B "require", B "q.r/s", B "v1.1.0"] = modelAdd (some 0) [B "require", B "q.r/s", B "v1.1.0"] := by
  decide +kernel
example : runAdd (Expr.Line 0) [B "exclude", B "q.r/s", B "v1.1.0"] =
    modelVal exFile (fun e => some ((e.next : Int), some (Modfile.Edit.addLinePtr e.f.syn none [B "exclude", B "q.r/s", B "v1.1.0"] e.next))) := by
  decide +kernel
-- Go's `tokens[0]` on no tokens panics
example : runAdd (Expr.Line 2) [] = none := by decide +kernel

/-! ### FileSyntax.Cleanup (read.go:209) = the model's `cleanupSyntax` -/

/-- **`x.Cleanup()` on a represented syntax graph** -/
theorem Cleanup_tie {h : Heap} {x : Int} {fs : Modfile.FileSyntax} (r : RepSyn h x fs) (htok : BlockTokOK fs.stmts)
    (fuel : Nat) (hfu : nodeCount fs.stmts + 1 ≤ fuel) :
    ∃ h', FileSyntax_Cleanup fuel x h = .ok ((), h') ∧ RepSyn h' x (Modfile.Edit.cleanupSyntax fs) ∧
      BlockTokOK (Modfile.Edit.cleanupSyntax fs).stmts ∧
      (LinesG h → LinesG h') ∧ h'.lines.length = h.lines.length ∧ h'.blocks.length = h.blocks.length ∧
      Frame h h' ∧ (∀ q, q ≠ x → heapGet h'.files q = heapGet h.files q) := by
  obtain ⟨es, r⟩ := r
  obtain ⟨h', h1, h2, h3, h4⟩ := TieFnEditAddLine.Cleanup_sim r htok fuel hfu
  exact ⟨h', h1, h2, h3, h4.linesG, h4.llen, h4.blen, h4.frame, h4.files⟩

/-- mark the lines `ids` removed, run `Cleanup`, read the graph back -/
def runClean (ids : List Int) : Option (Option Modfile.FileSyntax) :=
  runVal exFile fun fp h => do
    let o ← heapGet h.mods fp
    let h ← ids.foldlM (fun h p => do let (_, h) ← Line_markRemoved p h; pure h) h
    let (_, h') ← FileSyntax_Cleanup 64 o.Syntax h
    pure (Drv.GenEdit.synM h' o.Syntax)

def modelClean (ids : List Nat) : Option (Option Modfile.FileSyntax) :=
  modelVal exFile fun e => some (some (Modfile.Edit.cleanupSyntax (ids.foldl Modfile.Edit.markRemoved e.f.syn)))

-- nothing removed
example : runClean [] = modelClean [] := by decide +kernel
-- one of two lines of a block removed: the block collapses into the remaining line
example : runClean [2] = modelClean [2] := by decide +kernel
-- all lines of a block, and a top-level line, removed
example : runClean [1, 4] = modelClean [1, 4] := by decide +kernel
example : runClean [2, 3] = modelClean [2, 3] := by decide +kernel

/-! the hypotheses of the ties are satisfiable: the driver's `load` of the parsed example file is a represented graph
    (`load_rep` of Proofs/TieFnEditRep.lean), so `addLine_tie` / `Cleanup_tie` apply to it -/

def exF : Modfile.File :=
  match Modfile.parseStrict (B "go.mod") exFile none with
  | .ok f => f
  | .error _ => default

example : ∃ o h', heapGet (Drv.GenEdit.load exF).1.mods (Drv.GenEdit.load exF).2 = .ok o ∧
    FileSyntax_addLine 64 o.Syntax (Expr.Line 2) [B "require", B "q.r/s", B "v1.1.0"] (Drv.GenEdit.load exF).1 =
      .ok ((((Drv.GenEdit.load exF).1.lines.length + 1 : Nat) : Int), h') ∧
    RepSyn h' o.Syntax (Modfile.Edit.addLine (Modfile.Edit.load exF).f.syn (some 2) [B "require", B "q.r/s", B "v1.1.0"]
      ((Drv.GenEdit.load exF).1.lines.length + 1)) := by
  obtain ⟨o, ho, rep⟩ := load_rep exF (loadOKB_sound (by decide +kernel))
  obtain ⟨h', h1, h2, _⟩ := addLine_tie rep.syn rep.tok (some 2) (B "require") [B "q.r/s", B "v1.1.0"] 64
    (by decide +kernel)
  exact ⟨o, h', ho, h1, h2⟩

example : ∃ o h', heapGet (Drv.GenEdit.load exF).1.mods (Drv.GenEdit.load exF).2 = .ok o ∧
    FileSyntax_Cleanup 64 o.Syntax (Drv.GenEdit.load exF).1 = .ok ((), h') ∧
    RepSyn h' o.Syntax (Modfile.Edit.cleanupSyntax (Modfile.Edit.load exF).f.syn) := by
  obtain ⟨o, ho, rep⟩ := load_rep exF (loadOKB_sound (by decide +kernel))
  obtain ⟨h', h1, h2, _⟩ := Cleanup_tie rep.syn rep.tok 64 (by decide +kernel)
  exact ⟨o, h', ho, h1, h2⟩

end ModVerif.Tie.FnEditAddLine
