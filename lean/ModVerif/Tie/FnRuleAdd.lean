/-
  Tie: the DIRECTIVE LAYER of go.mod / go.work parsing regenerated from modfile/rule.go and work.go on every check
  (Generated/FnRule.lean, namespace ModVerif.Generated.Rule): `File.add`, `WorkFile.add`, `File.fixRetract`, `parseToFile`,
  `ParseWork` compute what the hand model (Model/Modfile/Rule.lean, Work.lean) says.

  The generated code works on a HEAP (`Rule.Heap`: one object list per Go struct type, a pointer is a 1-based position;
  `args = x.Token[1:]` is a VIEW `TokRef` into the line object, so `parseString(&args[0])` rewrites the token in place);
  the hand model works on a VALUE tree whose lines carry an id and returns the rewritten tokens next to its result.  The
  relation between the two is `RepRS ι h fp errs st syn` / `RepR` (go.mod) and `RepWS` / `RepW` (go.work) of
  Proofs/TieFnRuleRep.lean (owner rule-leaf): the heap at the `*File` pointer `fp`, with the in-out error list `errs`,
  represents the model state `st` (typed file + reversed error list), the syntax graph representing the tree `syn`;
  `ι` maps line pointers to line ids.  The world parameters are those of the driver (Drv/GenRule.lean): regexps and
  strconv bound to the model's matchers, the version fixer `fixG fx`, `parseSyn = parseSynI` (the hand model's parser —
  tied to the regenerated parser by Tie/FnParse.lean — with its tree loaded into the heap).

  * `File_add_tie`: one call on a represented state (line object at `lp`, the arguments the tokens after `pre`) succeeds,
    and the new heap / error list represent the model's `File.add` result (`StepPost`): typed entries allocated and
    linked, errors appended at the line's start with an inner error of the model's kind, the tokens of THIS line
    replaced by the model's rewritten arguments, no other syntax object touched.
  * `WorkFile_add_tie`: the same for go.work.
  * `File_fixRetract_tie`: on a represented state whose retract entries point to represented lines with a token
    (`RetInv`, what `parseToFile` establishes), the result represents the model's `fixRetract`; the error list only grows.
  * `parseToFile_tie`: for EVERY input, fixer and `strict`: a pointer whose read-back `fileM` (the driver's) is the
    model's `File`, or an error value standing for the model's non-empty error list (`ErrValRep`).
  * `ParseWork_tie`: the same for go.work (`workM`).

  Fuel.  The loops pass their own decreasing fuel to the leaf functions, and a version fixer may return a version of any
  length (`module.CheckPathMajor` runs on it); the hypotheses are therefore stated on the parsed tree: `LineFuel F …`
  for one line (32 × the token lengths + 1 — `fixRetract` re-reads tokens that `File.add` rewrote, at most 4 × as long —,
  the number of comments of line and block + 3, twice the length of every version the fixer returns for the line) and
  `TreeFuel F fuel fx fs` for the file (`LineFuel` for every line, `fuel ≥ F` + statements + largest block + 2 and
  `F` + lines + 1).  They are explicit functions of the model's parse result; `parseToFile_tie` has no other hypothesis.

  Helper lemmas: Proofs/TieFnRuleAdd{A..O}.lean; leaf functions: Tie/FnRuleLeaf.lean (owner rule-leaf).
-/
import ModVerif.Proofs.TieFnRuleAddO
import ModVerif.Proofs.TieFnRuleAddP
import ModVerif.Proofs.TieFnRuleAddEx
namespace ModVerif.Tie.FnRuleAdd
open ModVerif ModVerif.GoRt ModVerif.Generated ModVerif.Tie.FnRuleRep
open ModVerif.Tie.FnRuleAddA ModVerif.Tie.FnRuleAddC ModVerif.Tie.FnRuleAddD ModVerif.Tie.FnRuleAddE ModVerif.Tie.FnRuleAddF
open ModVerif.Tie.FnRuleAddH ModVerif.Tie.FnRuleAddI ModVerif.Tie.FnRuleAddM ModVerif.Tie.FnRuleAddO
open ModVerif.Drv.GenRule (isPrintI unquoteI laxSubI deprecatedSubI fixG parseSynI idOf idsOf fileM workM encErr)
open ModVerif.Tie.FnRuleAddP ModVerif.Tie.FnRuleAddEx

/-- **`File.add`**: one call on a represented state = the model's `File.add` -/
theorem File_add_tie {ι : Int → Nat} {h : Rule.Heap} {fp : Int} {errs : List Rule.Error} {st : Modfile.AddState} {syn : Modfile.FileSyntax}
    {lp : Int} {l : Modfile.Line} {pre args : List Bytes}
    (R : RepRS ι h fp errs st syn) (hl : RLine ι h lp l) (htok : l.token = pre ++ args)
    (block : Int) (bc : Option Modfile.Comments) (hb : BlockRep h block bc) (verb : Bytes) (fx : Option Modfile.Fixer) (strict : Bool)
    (F fuel : Nat) (hF : LineFuel F bc fx l args) (hfuel : F ≤ fuel) :
    ∃ errs' h',
      Rule.File_add deprecatedSubI Modfile.goVersionRE isPrintI laxSubI Quote.quote Modfile.toolchainRE unquoteI fuel fp errs block lp verb
        { owner := lp, lo := (pre.length : Int) } (fixG fx) strict h = .ok (((), errs'), h') ∧
      StepPost ι h fp syn lp l pre (Modfile.File.add st bc l verb args fx strict) errs' h' :=
  FA_step R hl htok fuel block bc verb fx strict (AddLeaf_of htok hF fuel hfuel h lp hl hb)

-- lax go-version fix: the token `1.21-foo` is rewritten to `1.21` in the line object, the `Go` entry is the model's
set_option maxRecDepth 100000 in
example :
    (match Rule.File_add deprecatedSubI Modfile.goVersionRE isPrintI laxSubI Quote.quote Modfile.toolchainRE unquoteI 100 1 [] 0 1 (B "go")
        { owner := 1, lo := 1 } none false (exLoad (B "go 1.21-foo\n")) with
      | .ok ((_, errs), h) => (errs.length, (heapGet h.lines 1).toOption.map (·.Token),
          (fileM (idsOf (B "go.mod") (B "go 1.21-foo\n")) h 1).map (·.go))
      | .error _ => (1, none, none)) =
      (0, some [B "go", B "1.21"], some (some { version := B "1.21", lineId := 0 })) ∧
    (let r := Modfile.File.add {} none (exLine (B "go 1.21-foo\n")) (B "go") [B "1.21-foo"] none false
     (r.1.errsRev.length, r.2, r.1.file.go)) = (0, [B "1.21"], some { version := B "1.21", lineId := 0 }) := by decide +kernel
-- an unknown directive in strict mode: one error at the start of the line, of the model's kind
set_option maxRecDepth 100000 in
example :
    (match Rule.File_add deprecatedSubI Modfile.goVersionRE isPrintI laxSubI Quote.quote Modfile.toolchainRE unquoteI 100 1 [] 0 1 (B "frob")
        { owner := 1, lo := 1 } none true (exLoad (B "frob x\n")) with
      | .ok ((_, errs), _) => errs.map (fun e => (e.Pos, e.Err))
      | .error _ => []) = [({ Line := 1, LineRune := 1, Byte := 0 }, some "unknown directive: %s")] ∧
    (Modfile.File.add {} none (exLine (B "frob x\n")) (B "frob") [B "x"] none true).1.errsRev =
      [⟨{ line := 1, lineRune := 1, byte := 0 }, .unknownDirective⟩] := by decide +kernel
-- the fuel hypothesis is decidable (`lineFuelB`)
example : LineFuel 1000 none none (exLine (B "go 1.21-foo\n")) [B "1.21-foo"] := lineFuelB_spec (by decide +kernel)

/-- **`WorkFile.add`**: one call on a represented state = the model's `WorkFile.add` -/
theorem WorkFile_add_tie {ι : Int → Nat} {h : Rule.Heap} {fp : Int} {errs : List Rule.Error} {st : Modfile.WorkState} {syn : Modfile.FileSyntax}
    {lp : Int} {l : Modfile.Line} {pre args : List Bytes}
    (R : RepWS ι h fp errs st syn) (hl : RLine ι h lp l) (htok : l.token = pre ++ args)
    (verb : Bytes) (fx : Option Modfile.Fixer) (F fuel : Nat) (hF : LineFuel F none fx l args) (hfuel : F ≤ fuel) :
    ∃ errs' h',
      Rule.WorkFile_add Modfile.goVersionRE isPrintI Quote.quote Modfile.toolchainRE unquoteI fuel fp errs lp verb
        { owner := lp, lo := (pre.length : Int) } (fixG fx) h = .ok (((), errs'), h') ∧
      StepPostW ι h fp syn lp l pre (Modfile.WorkFile.add st l verb args fx) errs' h' :=
  WA_step R hl htok fuel verb fx (WorkLeaf_of htok hF fuel hfuel h lp hl)

set_option maxRecDepth 100000 in
example :
    (match Rule.WorkFile_add Modfile.goVersionRE isPrintI Quote.quote Modfile.toolchainRE unquoteI 100 1 [] 1 (B "use")
        { owner := 1, lo := 1 } none (exLoad (B "use \"./a\"\n")) with
      | .ok ((_, errs), h) => (errs.length, (heapGet h.lines 1).toOption.map (·.Token),
          (workM (idsOf (B "go.mod") (B "use \"./a\"\n")) h 1).map (·.use))
      | .error _ => (1, none, none)) =
      (0, some [B "use", B "./a"], some [{ path := B "./a", lineId := 0 }]) ∧
    (let r := Modfile.WorkFile.add {} (exLine (B "use \"./a\"\n")) (B "use") [B "\"./a\""] none
     (r.1.errsRev.length, r.2, r.1.file.use)) = (0, [B "./a"], [{ path := B "./a", lineId := 0 }]) := by decide +kernel

/-- **`File.fixRetract`** on a represented state = the model's `fixRetract` -/
theorem File_fixRetract_tie {ι : Int → Nat} {h : Rule.Heap} {fp : Int} {errs : List Rule.Error} {st : Modfile.AddState}
    (R : RepR ι h fp errs st) (fx : Option Modfile.Fixer) (F fuel : Nat)
    (hfuel : F + st.file.retract.length + 1 ≤ fuel)
    (hinv : ∀ o, heapGet h.mods fp = .ok o → RetInv ι h o (QF F) st) :
    ∃ errs' h',
      Rule.File_fixRetract isPrintI Quote.quote unquoteI fuel fp (fixG fx) errs h = .ok (((), errs'), h') ∧
      RepR ι h' fp errs' (Modfile.fixRetract st fx) ∧ errs <+: errs' :=
  FR_spec R fx (QF F) F fuel hfuel hinv (fun fx' m _ _ _ => FixLeaf_of ι F m.mod.path fx')

-- inside `parseToFile`: the retract interval is re-read with the fixer (`latest` ↦ v1.0.0) and the token rewritten
set_option maxRecDepth 100000 in
example : (match PTF 5000 (B "go.mod") exMod (fixG (some Modfile.fixStub)) true default with
    | .ok ((fp, none), h) => ((fileM (idsOf (B "go.mod") exMod) h fp).map (·.retract), (heapGet h.lines 4).toOption.map (·.Token))
    | _ => (none, none)) =
    (some [{ interval := { low := B "v1.0.0", high := B "v1.0.0" }, rationale := B "bad", lineId := 3 }],
     some [B "retract", B "[", B "v1.0.0", B ",", B "v1.0.0", B "]"]) := by decide +kernel

/-- **`parseToFile`** (`Parse` / `ParseLax`), every input, fixer and `strict`: the model's `File` read back from the heap,
    or an error value that stands for the model's error list -/
theorem parseToFile_tie (name data : Bytes) (fx : Option Modfile.Fixer) (strict : Bool) (F fuel : Nat)
    (hT : ∀ fs, Modfile.parse name data = .ok fs → TreeFuel F fuel fx fs) :
    match Modfile.parseToFile name data fx strict with
    | .ok f => ∃ fp h,
        Rule.parseToFile deprecatedSubI Modfile.goVersionRE isPrintI laxSubI parseSynI Quote.quote Modfile.toolchainRE unquoteI
          fuel name data (fixG fx) strict default = .ok ((fp, none), h) ∧
        fileM (idsOf name data) h fp = some f
    | .error es => ∃ e h,
        Rule.parseToFile deprecatedSubI Modfile.goVersionRE isPrintI laxSubI parseSynI Quote.quote Modfile.toolchainRE unquoteI
          fuel name data (fixG fx) strict default = .ok (((0 : Int), e), h) ∧
        ErrValRep e es ∧ es ≠ [] := by
  cases hp : Modfile.parse name data with
  | ok fs => exact PTF_spec hp fx strict F fuel (hT fs hp)
  | error e =>
    have hm : Modfile.parseToFile name data fx strict = .error [⟨e.pos, .syn e.kind⟩] := by
      unfold Modfile.parseToFile; rw [hp]
    rw [hm]
    exact ⟨_, _, PTF_synErr hp fx strict fuel, Or.inr ⟨e.pos, e.kind, rfl, rfl⟩, by simp⟩

/-- the fuel hypothesis decided on the parsed tree -/
theorem parseToFile_tie_dec (name data : Bytes) (fx : Option Modfile.Fixer) (strict : Bool) (F fuel : Nat)
    (hB : inputFuelB F fuel name data fx = true) :
    match Modfile.parseToFile name data fx strict with
    | .ok f => ∃ fp h,
        Rule.parseToFile deprecatedSubI Modfile.goVersionRE isPrintI laxSubI parseSynI Quote.quote Modfile.toolchainRE unquoteI
          fuel name data (fixG fx) strict default = .ok ((fp, none), h) ∧
        fileM (idsOf name data) h fp = some f
    | .error es => ∃ e h,
        Rule.parseToFile deprecatedSubI Modfile.goVersionRE isPrintI laxSubI parseSynI Quote.quote Modfile.toolchainRE unquoteI
          fuel name data (fixG fx) strict default = .ok (((0 : Int), e), h) ∧
        ErrValRep e es ∧ es ≠ [] :=
  parseToFile_tie name data fx strict F fuel (treeFuel_of_input hB)

-- the hypothesis holds for the example files with the driver's fuel
set_option maxRecDepth 100000 in
example : inputFuelB 4096 5000 (B "go.mod") exMod (some Modfile.fixStub) = true ∧ inputFuelB 4096 5000 (B "go.mod") exBad none = true ∧
    inputFuelB 4096 5000 (B "go.work") exWork none = true := by decide +kernel
-- success: the file read back from the heap is the model's
set_option maxRecDepth 100000 in
example : (match PTF 5000 (B "go.mod") exMod (fixG (some Modfile.fixStub)) true default with
    | .ok ((fp, none), h) => fileM (idsOf (B "go.mod") exMod) h fp
    | _ => none) = (Modfile.parseToFile (B "go.mod") exMod (some Modfile.fixStub) true).toOption ∧
    (Modfile.parseToFile (B "go.mod") exMod (some Modfile.fixStub) true).toOption.isSome = true := by decide +kernel
-- errors: the regenerated code returns nil and an error value, the model the error list
set_option maxRecDepth 100000 in
example : (match PTF 5000 (B "go.mod") exBad (fixG none) true default with
    | .ok ((fp, some _), _) => fp
    | _ => 1) = 0 ∧
    (match Modfile.parseToFile (B "go.mod") exBad none true with
     | .error es => es.map (fun (e : ModVerif.Modfile.RuleErr) => (e.pos.line, e.pos.lineRune, e.pos.byte, e.kind))
     | .ok _ => []) = [(2, 1, 8, .unknownDirective)] := by decide +kernel

/-- **`ParseWork`**, every input and fixer -/
theorem ParseWork_tie (name data : Bytes) (fx : Option Modfile.Fixer) (F fuel : Nat)
    (hT : ∀ fs, Modfile.parse name data = .ok fs → TreeFuel F fuel fx fs) :
    match Modfile.parseWork name data fx with
    | .ok f => ∃ fp h,
        Rule.ParseWork Modfile.goVersionRE isPrintI parseSynI Quote.quote Modfile.toolchainRE unquoteI fuel name data (fixG fx) default =
          .ok ((fp, none), h) ∧
        workM (idsOf name data) h fp = some f
    | .error es => ∃ e h,
        Rule.ParseWork Modfile.goVersionRE isPrintI parseSynI Quote.quote Modfile.toolchainRE unquoteI fuel name data (fixG fx) default =
          .ok (((0 : Int), e), h) ∧
        ErrValRep e es ∧ es ≠ [] := by
  cases hp : Modfile.parse name data with
  | ok fs => exact PWK_spec hp fx F fuel (hT fs hp)
  | error e =>
    have hm : Modfile.parseWork name data fx = .error [⟨e.pos, .syn e.kind⟩] := by
      unfold Modfile.parseWork; rw [hp]
    rw [hm]
    exact ⟨_, _, PWK_synErr hp fx fuel, Or.inr ⟨e.pos, e.kind, rfl, rfl⟩, by simp⟩

set_option maxRecDepth 100000 in
example : (match PWK 5000 (B "go.work") exWork (fixG none) default with
    | .ok ((fp, none), h) => workM (idsOf (B "go.work") exWork) h fp
    | _ => none) = (Modfile.parseWork (B "go.work") exWork none).toOption ∧
    (Modfile.parseWork (B "go.work") exWork none).toOption.isSome = true := by decide +kernel

end ModVerif.Tie.FnRuleAdd
