/-
  Tie theorems, sumdb/note/note.go: the definitions regenerated from the Go source by go2lean
  (`Generated/FnNote.lean`: isValidName, chop, Open with its two loops) compute exactly what the hand model
  (`Model/Note.lean`) says, for ALL inputs — in particular no panic (the slice expressions of chop and of Open,
  `sigs[len(sigs)-1]`, `binary.BigEndian.Uint32(sig[0:4])`, `sig[4:]`) and no fuel exhaustion.

  Instantiation of the abstract parameters of the generated code (Proofs/TieFnNoteUtf8.lean, as in Drv/GenNote.lean):
  `isSpace := isSpaceI` (the model's `unicode.IsSpace` table on a rune given as an integer), `b64dec := b64decI` (the
  model's `B64.b64dec` with Go's `(value, error)` result shape).

  Bridging for Open (Proofs/TieFnNoteOpen.lean, definitions copied from Drv/GenNote.lean): the model's
  `known : Verifiers = Bytes → UInt32 → Lookup` is passed to the generated code as `knownG known`
  (`found v ↦ (toGV v, nil)`, `unknown ↦ &UnknownVerifierError{name, hash}`, `ambiguous ↦` the ambiguity error of
  `VerifierList`, `otherErr ↦` some other error); a `uint32` key hash `h` is the integer `hashI h = h.toNat` on the
  generated side; `embedOpen` maps the model's `Except OpenErr Note` to the `(note, error)` pair of the Go function:
  `*UnverifiedNoteError{n}` carries the note in the first component, every other error comes with the zero note,
  `*InvalidSignatureError{name, hash}` is `errWith "InvalidSignatureError" [errHex name, toString hash]`.
  The maps `seen` / `seenUnverified` of the generated loop are association lists (`GoRt.mapGet` / `mapSet`); the loop
  invariant `TieFnNote.Rel` relates them to the model's lists.
-/
import ModVerif.Generated.FnNote
import ModVerif.Model.Note
import ModVerif.Proofs.TieFnNoteUtf8
import ModVerif.Proofs.TieFnNoteOpen
namespace ModVerif.Tie.FnNote
open ModVerif ModVerif.GoRt ModVerif.TieFnNote

/-- `isValidName(name)`, every byte string -/
theorem isValidName_tie (name : Bytes) : Generated.Note.isValidName isSpaceI name = Note.isValidName name :=
  isValidName_eq name

example : Generated.Note.isValidName isSpaceI (B "sum.golang.org") = true ∧ Note.isValidName (B "sum.golang.org") = true ∧
    Generated.Note.isValidName isSpaceI (B "a b") = false ∧ Note.isValidName (B "a b") = false ∧
    Generated.Note.isValidName isSpaceI (B "a\x01") = false ∧ Note.isValidName (B "a\x01") = false ∧
    Generated.Note.isValidName isSpaceI [0xFF] = false ∧ Note.isValidName [0xFF] = false := by decide +kernel

/-- `chop(s, sep)`, every pair of byte strings (also the empty separator) -/
theorem chop_tie (s sep : Bytes) : Generated.Note.chop s sep = .ok (Note.chop s sep) :=
  chop_eq s sep

example : Generated.Note.chop (B "name+hash+key") (B "+") = .ok (B "name", B "hash+key") ∧
    Note.chop (B "name+hash+key") (B "+") = (B "name", B "hash+key") ∧
    Generated.Note.chop (B "abc") (B "+") = .ok (B "abc", []) ∧ Note.chop (B "abc") (B "+") = (B "abc", []) := by
  decide +kernel

/-- `Open(msg, known)`, every message and every lookup function `known`; fuel: one unit per rune of the message
    (first loop) resp. per signature line (second loop) plus one -/
theorem Open_tie (msg : Bytes) (known : Note.Verifiers) (fuel : Nat) (hf : msg.length + 1 ≤ fuel) :
    Generated.Note.Open b64decI isSpaceI fuel msg (knownG known) = .ok (embedOpen (Note.Open msg known)) :=
  Open_eq msg known fuel hf

/-- every key is known and every signature verifies -/
def exKnown : Note.Verifiers := fun name hash => .found { name := name, hash := hash, verify := fun _ _ => true }

-- one verified signature (key hash 0x01020304 = 16909060), the duplicate line is dropped
example : Generated.Note.Open b64decI isSpaceI 64 (B "hi\n\n— a AQIDBAU=\n— a AQIDBAU=\n") (knownG exKnown) =
      .ok ({ Text := B "hi\n", Sigs := [{ Name := B "a", Hash := 16909060, Base64 := B "AQIDBAU=" }], UnverifiedSigs := [] },
        none) ∧
    embedOpen (Note.Open (B "hi\n\n— a AQIDBAU=\n— a AQIDBAU=\n") exKnown) =
      ({ Text := B "hi\n", Sigs := [{ Name := B "a", Hash := 16909060, Base64 := B "AQIDBAU=" }], UnverifiedSigs := [] },
        none) := by decide +kernel

-- no signature block
example : Generated.Note.Open b64decI isSpaceI 64 (B "hi\n") (knownG exKnown) =
      .ok ((default : GNote), some "errMalformedNote") ∧
    embedOpen (Note.Open (B "hi\n") exKnown) = ((default : GNote), some "errMalformedNote") := by decide +kernel

-- an unknown key: `*UnverifiedNoteError` with the note in the first component (the duplicate line is dropped)
example : Generated.Note.Open b64decI isSpaceI 64 (B "hi\n\n— a AQIDBAU=\n— a AQIDBAU=\n") (knownG fun _ _ => .unknown) =
      .ok ({ Text := B "hi\n", Sigs := [], UnverifiedSigs := [{ Name := B "a", Hash := 16909060, Base64 := B "AQIDBAU=" }] },
        some "UnverifiedNoteError") ∧
    embedOpen (Note.Open (B "hi\n\n— a AQIDBAU=\n— a AQIDBAU=\n") fun _ _ => .unknown) =
      ({ Text := B "hi\n", Sigs := [], UnverifiedSigs := [{ Name := B "a", Hash := 16909060, Base64 := B "AQIDBAU=" }] },
        some "UnverifiedNoteError") := by decide +kernel

end ModVerif.Tie.FnNote
