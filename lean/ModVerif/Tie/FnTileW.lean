/-
  Tie theorems for the WORLD-MODE regeneration of `tileHashReader.ReadHashes` (sumdb/tlog/tile.go:300;
  `Generated/FnTileW.lean`, namespace ModVerif.Generated.TileW): the same Go code as `Generated/FnTile.lean`'s, but
  `r.tr.Height()`, `r.tr.ReadTiles(tiles)`, `r.tr.SaveTiles(tiles, data)` are WORLD functions
  `height : W → M (Int × W)`, `readTiles : List Tile → W → M ((data, err) × W)`, `saveTiles : … → W → M (Unit × W)`
  and the world is threaded.

  What the code does with the world (read off the generated definition, proved below for ANY world type and ANY world
  functions): ONE `height` call first; then — only if planning succeeds and the tree is not empty — ONE `readTiles`
  call on the planned tiles (tree-hash tiles first, then the index tiles with their parents), in the world after
  `height`; then — only if every check passed — ONE `saveTiles` call on exactly those tiles and the data read, in the
  world after `readTiles`.  Everything else is pure.

  Part 1 (`tileHashReader_ReadHashes_world`): reduction to the PURE regeneration `Generated.Tile.tileHashReader_ReadHashes`
  run with the reader `{Height := h, ReadTiles := readTilesAt readTiles w1}` (what the world functions answered):
  `stagedW` (Proofs/TieFnTileWMain.lean) = `planG` (the planning phase: is `ReadTiles` called, with which tiles), the
  `readTiles` call, the pure result `(value, effect log)` and `saveLog` (`saveTiles` on each entry of the pure version's
  effect log).  No range or fuel hypothesis.  The statement is "same successful results": an `M`-level failure (fuel,
  panic, overflow; an `M`-error of a world function) happens on both sides together, but when the pure part AND
  `saveTiles` both fail at `M` level, which of the two errors is reported is not tracked.

  Part 2 (`tileHashReader_ReadHashes_world_tie`): the same in terms of the hand model `Tile.readHashes` through
  `Tie.FnTile.tileHashReader_ReadHashes_tie`, with its range hypotheses (`N < 2^62`, `1 ≤ h ≤ 57`, `len(indexes) < 2^56`)
  and fuel `64 * len(indexes) + 500`.

  Part 3: the C10 security theorems for the world-mode regeneration.
-/
import ModVerif.Generated.FnTileW
import ModVerif.Model.Tile
import ModVerif.Proofs.TieFnTileW
import ModVerif.Proofs.TieFnTileWMain
import ModVerif.Proofs.TieFnTileWPlan
import ModVerif.Tie.FnTile
namespace ModVerif.Tie.FnTileW
open ModVerif ModVerif.GoRt ModVerif.TieFnTile ModVerif.TieFnTlogInt ModVerif.TieFnTileW
open ModVerif.Generated.Tile (Tile Tree TileReader)

section
variable {H : Type} [DecidableEq H] [Inhabited H] {W : Type} (height : W → M (Int × W))
  (node : H → H → H) (ofBytes : Bytes → H)
  (readTiles : List Tile → W → M ((List Bytes × Option String) × W))
  (saveTiles : List Tile → List Bytes → W → M (Unit × W))

/-! ### Part 1: world mode = pure mode, any world -/

/-- an `M`-error of `Height` aborts the function -/
theorem tileHashReader_ReadHashes_world_height_error (fuel : Nat) (r : Generated.TileW.tileHashReader H)
    (indexes : List Int) (w : W) (e : Err) (hh : height w = .error e) :
    Generated.TileW.tileHashReader_ReadHashes height node ofBytes readTiles saveTiles fuel r indexes w = .error e := by
  unfold Generated.TileW.tileHashReader_ReadHashes
  rw [hh]
  rfl

/-- ★ `ReadHashes` in world mode, after `Height` answered `h` in world `w1`: its successful results are those of
    `stagedW` over the pure regeneration run with the reader `{h, readTilesAt readTiles w1}`. -/
theorem tileHashReader_ReadHashes_world (fuel : Nat) (r : Generated.TileW.tileHashReader H) (indexes : List Int)
    (w w1 : W) (h : Int) (hh : height w = .ok (h, w1)) (a : (List H × Option String) × W) :
    Generated.TileW.tileHashReader_ReadHashes height node ofBytes readTiles saveTiles fuel r indexes w = .ok a ↔
      stagedW node ofBytes readTiles saveTiles fuel
        { tree := r.tree, tr := { Height := h, ReadTiles := readTilesAt readTiles w1 } } indexes w1 = .ok a :=
  ReadHashes_staged node ofBytes height readTiles saveTiles fuel r _ indexes w w1 h hh rfl rfl rfl a

/-- … and it fails (at `M` level) when `stagedW` does -/
theorem tileHashReader_ReadHashes_world_error (fuel : Nat) (r : Generated.TileW.tileHashReader H) (indexes : List Int)
    (w w1 : W) (h : Int) (hh : height w = .ok (h, w1)) (e : Err)
    (hs : stagedW node ofBytes readTiles saveTiles fuel
        { tree := r.tree, tr := { Height := h, ReadTiles := readTilesAt readTiles w1 } } indexes w1 = .error e) :
    ∃ e', Generated.TileW.tileHashReader_ReadHashes height node ofBytes readTiles saveTiles fuel r indexes w = .error e' :=
  EqE.error_left (ReadHashes_staged node ofBytes height readTiles saveTiles fuel r _ indexes w w1 h hh rfl rfl rfl) e hs

/-! ### Part 2: in terms of the hand model

`stagedM`: the model's outcome `out = Tile.readHashes node N th h idx serve` in the world: if `planCall h N idx = none`
(planning failed — an index outside the tree — or the tree is empty) the world after `Height` is returned unchanged
(`saved_none_of_planCall_none`: the model's `saved` is `none` then); otherwise ONE `readTiles` call on the planned tiles
and, iff the model says `saved = some _`, ONE `saveTiles` call on the planned tiles and the data read (`rhOut` /
`finishW`).  `serve` is related to what `readTiles` answered by `ServeRel` exactly as in the pure tie theorem. -/

def stagedM (h N : Nat) (idx : List Nat) (w1 : W) (out : Tile.ReadOut H) (msg : Option String) :
    M ((List H × Option String) × W) :=
  let gt := (planTiles h N idx).map toGen
  let res := rhOut out gt (readTilesAt readTiles w1 gt).1 msg
  match planCall h N idx with
  | none => finishW saveTiles w1 (.ok res)
  | some _ =>
    match readTiles gt w1 with
    | .error e => .error e
    | .ok (_, w2) => finishW saveTiles w2 (.ok res)

/-- ★ world-mode `ReadHashes` = the model's `readHashes` against every server `serve` related (on the planned tiles)
    to what `readTiles` answers in the world after `Height`. -/
theorem tileHashReader_ReadHashes_world_tie (fuel h N : Nat) (th : H) (idx : List Nat) (w w1 : W)
    (serve : Tile.Tile → Option (List H))
    (hh : height w = .ok ((h : Int), w1)) (h1 : 1 ≤ h) (h57 : h ≤ 57) (hN : N < 2 ^ 62) (hidx : idx.length < 2 ^ 56)
    (hserve : ServeRel ofBytes (readTilesAt readTiles w1) serve (planTiles h N idx))
    (hf : 64 * idx.length + 500 ≤ fuel) :
    ∃ msg, (∀ a, Generated.TileW.tileHashReader_ReadHashes height node ofBytes readTiles saveTiles fuel
          { tree := { N := (N : Int), Hash := th }, tr := () } (idx.map Int.ofNat) w = .ok a ↔
        stagedM readTiles saveTiles h N idx w1 (Tile.readHashes node N th h idx serve) msg = .ok a) ∧
      ∀ e, (Tile.readHashes node N th h idx serve).result = .error e →
        MsgOK (readTilesAt readTiles w1 ((planTiles h N idx).map toGen)).2 e msg := by
  obtain ⟨msg, hp, hm⟩ := Tie.FnTile.tileHashReader_ReadHashes_tie node ofBytes fuel h N th idx
    (readTilesAt readTiles w1) serve h1 h57 hN hidx hserve hf
  refine ⟨msg, ?_, hm⟩
  intro a
  rw [tileHashReader_ReadHashes_world height node ofBytes readTiles saveTiles fuel _ _ w w1 h hh a]
  have hpl := planG_eq node ofBytes fuel h N idx
    ({ tree := { N := (N : Int), Hash := th }, tr := { Height := (h : Int), ReadTiles := readTilesAt readTiles w1 } } :
      Generated.Tile.tileHashReader H) h1 h57 hN rfl rfl (by omega)
  unfold stagedW stagedM
  simp only [hpl, hp]
  cases hc : planCall h N idx with
  | none => exact Iff.rfl
  | some tiles =>
    have := planCall_some h N idx tiles hc
    subst this
    exact Iff.rfl

/-- ★ … and for ANY world functions there is such a server (so every C10 theorem that holds against all servers speaks
    about the world-mode regeneration). -/
theorem tileHashReader_ReadHashes_world_tie_any (fuel h N : Nat) (th : H) (idx : List Nat) (w w1 : W)
    (hh : height w = .ok ((h : Int), w1)) (h1 : 1 ≤ h) (h57 : h ≤ 57) (hN : N < 2 ^ 62) (hidx : idx.length < 2 ^ 56)
    (hf : 64 * idx.length + 500 ≤ fuel) :
    ∃ (serve : Tile.Tile → Option (List H)) (msg : Option String),
      ServeRel ofBytes (readTilesAt readTiles w1) serve (planTiles h N idx) ∧
      (∀ a, Generated.TileW.tileHashReader_ReadHashes height node ofBytes readTiles saveTiles fuel
          { tree := { N := (N : Int), Hash := th }, tr := () } (idx.map Int.ofNat) w = .ok a ↔
        stagedM readTiles saveTiles h N idx w1 (Tile.readHashes node N th h idx serve) msg = .ok a) ∧
      ∀ e, (Tile.readHashes node N th h idx serve).result = .error e →
        MsgOK (readTilesAt readTiles w1 ((planTiles h N idx).map toGen)).2 e msg := by
  have hnd : (planTiles h N idx).Nodup := by
    unfold planTiles
    cases hp : Tile.plan h N idx with
    | error e => simp
    | ok p => exact (TileAuth.plan_parents_first h N h1 hN idx p hp).2.2.1
  obtain ⟨serve, hs⟩ := exists_serve ofBytes (readTilesAt readTiles w1) (planTiles h N idx) hnd
  obtain ⟨msg, h2, h3⟩ := tileHashReader_ReadHashes_world_tie height node ofBytes readTiles saveTiles fuel h N th idx w w1
    serve hh h1 h57 hN hidx hs hf
  exact ⟨serve, msg, hs, h2, h3⟩

/-- under the range hypotheses the world-mode function terminates (no panic, no fuel exhaustion, no int64 overflow)
    whenever the world functions `readTiles` and `saveTiles` do -/
theorem tileHashReader_ReadHashes_world_terminates (fuel h N : Nat) (th : H) (idx : List Nat) (w w1 : W)
    (hh : height w = .ok ((h : Int), w1)) (h1 : 1 ≤ h) (h57 : h ≤ 57) (hN : N < 2 ^ 62) (hidx : idx.length < 2 ^ 56)
    (hf : 64 * idx.length + 500 ≤ fuel)
    (hrt : ∀ ts w, ∃ v, readTiles ts w = .ok v) (hst : ∀ ts ds w, ∃ v, saveTiles ts ds w = .ok v) :
    ∃ a, Generated.TileW.tileHashReader_ReadHashes height node ofBytes readTiles saveTiles fuel
      { tree := { N := (N : Int), Hash := th }, tr := () } (idx.map Int.ofNat) w = .ok a := by
  obtain ⟨serve, msg, _, h2, _⟩ := tileHashReader_ReadHashes_world_tie_any height node ofBytes readTiles saveTiles fuel h N th
    idx w w1 hh h1 h57 hN hidx hf
  have hfin : ∀ (w2 : W) (res : (List H × Option String) × Log), ∃ a, finishW saveTiles w2 (.ok res) = .ok a := by
    intro w2 res
    obtain ⟨v, log⟩ := res
    have hsl : ∀ (log : Log) (w2 : W), ∃ w3, saveLog saveTiles log w2 = .ok w3 := by
      intro log
      induction log with
      | nil => intro w2; exact ⟨w2, rfl⟩
      | cons e rest ih =>
        intro w2
        obtain ⟨ts, ds⟩ := e
        obtain ⟨⟨u, w3⟩, hv⟩ := hst ts ds w2
        obtain ⟨w4, h4⟩ := ih w3
        exact ⟨w4, by simp only [saveLog, hv, h4]⟩
    obtain ⟨w3, h3⟩ := hsl log w2
    exact ⟨(v, w3), by simp only [finishW, h3]⟩
  have : ∃ a, stagedM readTiles saveTiles h N idx w1 (Tile.readHashes node N th h idx serve) msg = .ok a := by
    unfold stagedM
    simp only
    cases planCall h N idx with
    | none => exact hfin _ _
    | some tiles =>
      obtain ⟨⟨de, w2⟩, hv⟩ := hrt ((planTiles h N idx).map toGen) w1
      simp only [hv]
      exact hfin _ _
  obtain ⟨a, ha⟩ := this
  exact ⟨a, (h2 a).2 ha⟩

end

/-! ### Part 3: the C10 security theorems, for the world-mode regeneration

`Tie.FnTile.tileHashReader_ReadHashes_authenticated` / `…_error_saves_nothing` (statements about the pure regeneration
against ANY `ReadTiles` function) carried over by Part 1: no model function occurs in the conclusions. -/

section
variable {H : Type} [DecidableEq H] [Inhabited H] {W : Type} (height : W → M (Int × W))
  (leaf : Bytes → H) (node : H → H → H) (empty : H) (ofBytes : Bytes → H)
  (readTiles : List Tile → W → M ((List Bytes × Option String) × W))
  (saveTiles : List Tile → List Bytes → W → M (Unit × W))

/-- ★ Against ANY world functions, for the true tree head of a log `D` of fewer than `2^62` records and a collision-free
    `NodeHash`, tile height `1 ≤ h ≤ 57`: whenever the world-mode `ReadHashes` returns `((hashes, err), w')`, (1) if
    `err = nil` the hashes are the true stored hashes of the requested positions; (2) `w'` is the world after `Height`,
    or after ONE `readTiles` call in it, followed by `saveTiles` calls (`saveLog`) whose every (tile, data) argument is
    the true tile content. -/
theorem tileHashReader_ReadHashes_world_authenticated (D : List Bytes) (st : List H)
    (hst : Tlog.buildStore leaf node D = .ok st) (hR : D.length < 2 ^ 62)
    (hcf : ∀ a b c d : H, node a b = node c d → a = c ∧ b = d)
    (h : Nat) (h1 : 1 ≤ h) (h57 : h ≤ 57) (idx : List Nat) (hidx : idx.length < 2 ^ 56)
    (fuel : Nat) (hf : 64 * idx.length + 500 ≤ fuel) (w w1 : W) (hh : height w = .ok ((h : Int), w1))
    (res : List H × Option String) (w' : W)
    (hok : Generated.TileW.tileHashReader_ReadHashes height node ofBytes readTiles saveTiles fuel
      { tree := { N := (D.length : Int), Hash := RFC6962.mth node empty (D.map leaf) }, tr := () }
      (idx.map Int.ofNat) w = .ok (res, w')) :
    (res.2 = none → idx.mapM (st[·]?) = some res.1) ∧
    ∃ (log : Log) (w2 : W), (w2 = w1 ∨ ∃ tiles de, readTiles tiles w1 = .ok (de, w2)) ∧
      saveLog saveTiles log w2 = .ok w' ∧
      ∀ entry ∈ log, entry.2.length = entry.1.length ∧
        ∀ i (_ : i < entry.1.length) (_ : i < entry.2.length),
          Tile.trueTile st (ofGen entry.1[i]) = some (unflatS ofBytes entry.2[i]) := by
  have hs := (tileHashReader_ReadHashes_world height node ofBytes readTiles saveTiles fuel _ _ w w1 h hh (res, w')).1 hok
  obtain ⟨log, w2, hp, hw2, hsl⟩ := stagedW_ok_pure node ofBytes readTiles saveTiles fuel _ _ w1 res w' hs
  obtain ⟨res', hp', ha, hb⟩ := Tie.FnTile.tileHashReader_ReadHashes_authenticated leaf node empty ofBytes D st hst hR hcf
    h h1 h57 idx hidx (readTilesAt readTiles w1) fuel hf
  rw [hp] at hp'
  cases hp'
  exact ⟨ha, log, w2, hw2, hsl, hb⟩

/-- ★ … and for `h ≤ 30`: `err ≠ nil` implies that `saveTiles` was not called — the returned world is the world after
    `Height`, or after the one `readTiles` call. -/
theorem tileHashReader_ReadHashes_world_error_saves_nothing (D : List Bytes) (st : List H)
    (hst : Tlog.buildStore leaf node D = .ok st) (hR : D.length < 2 ^ 62)
    (hcf : ∀ a b c d : H, node a b = node c d → a = c ∧ b = d)
    (h : Nat) (h1 : 1 ≤ h) (h30 : h ≤ 30) (idx : List Nat) (hidx : idx.length < 2 ^ 56)
    (fuel : Nat) (hf : 64 * idx.length + 500 ≤ fuel) (w w1 : W) (hh : height w = .ok ((h : Int), w1))
    (res : List H × Option String) (w' : W)
    (hok : Generated.TileW.tileHashReader_ReadHashes height node ofBytes readTiles saveTiles fuel
      { tree := { N := (D.length : Int), Hash := RFC6962.mth node empty (D.map leaf) }, tr := () }
      (idx.map Int.ofNat) w = .ok (res, w'))
    (herr : res.2 ≠ none) :
    w' = w1 ∨ ∃ tiles de, readTiles tiles w1 = .ok (de, w') := by
  have hs := (tileHashReader_ReadHashes_world height node ofBytes readTiles saveTiles fuel _ _ w w1 h hh (res, w')).1 hok
  obtain ⟨log, w2, hp, hw2, hsl⟩ := stagedW_ok_pure node ofBytes readTiles saveTiles fuel _ _ w1 res w' hs
  obtain ⟨res', hp', ha⟩ := Tie.FnTile.tileHashReader_ReadHashes_error_saves_nothing leaf node empty ofBytes D st hst hR hcf
    h h1 h30 idx hidx (readTilesAt readTiles w1) fuel hf
  rw [hp] at hp'
  cases hp'
  have hl : log = [] := ha herr
  subst hl
  simp only [saveLog, Except.ok.injEq] at hsl
  subst hsl
  exact hw2

end
/-! ### non-vacuity: the 7-record example log of C10 (as in Tie/FnTile.lean), tile height 2, stored hash 0.  The world
    records the calls: the tile lists `readTiles` was asked for and the (tiles, data) pairs `saveTiles` was given. -/

abbrev ExW := List (List Tile) × List (List Tile × List Bytes)

def exHeight : ExW → M (Int × ExW) := fun w => .ok (2, w)

def exReadTiles (RT : List Tile → List Bytes × Option String) : List Tile → ExW → M ((List Bytes × Option String) × ExW) :=
  fun ts w => .ok (RT ts, (w.1 ++ [ts], w.2))

def exSaveTiles : List Tile → List Bytes → ExW → M (Unit × ExW) := fun ts ds w => .ok ((), (w.1, w.2 ++ [(ts, ds)]))

set_option synthInstance.maxSize 512 in
open ModVerif.TlogTH ModVerif.Tie.FnTile in
/-- the honest run: one `readTiles` call and one `saveTiles` call on the three planned tiles, the true hash returned;
    the model side (`stagedM` over the honest model server) evaluates to the same value and world -/
example :
    ((Generated.TileW.tileHashReader_ReadHashes exHeight Tlog.TH.node exOfBytes (exReadTiles exRT) exSaveTiles 600
        ⟨⟨7, root 7⟩, ()⟩ [0] ([], [])).toOption.map fun r => (r.1, r.2.1, r.2.2.map (·.1))) =
      some (([Tlog.TH.leaf [0]], none), [[⟨2, 1, 0, 1⟩, ⟨2, 0, 1, 3⟩, ⟨2, 0, 0, 4⟩]],
        [[⟨2, 1, 0, 1⟩, ⟨2, 0, 1, 3⟩, ⟨2, 0, 0, 4⟩]]) ∧
    ((stagedM (exReadTiles exRT) exSaveTiles 2 7 [0] ([], [])
        (Tile.readHashes Tlog.TH.node 7 (root 7) 2 [0] (fun t => Tile.trueTile (store 7) t)) none).toOption.map
          fun r => (r.1, r.2.1, r.2.2.map (·.1))) =
      some (([Tlog.TH.leaf [0]], none), [[⟨2, 1, 0, 1⟩, ⟨2, 0, 1, 3⟩, ⟨2, 0, 0, 4⟩]],
        [[⟨2, 1, 0, 1⟩, ⟨2, 0, 1, 3⟩, ⟨2, 0, 0, 4⟩]]) ∧
    planCall 2 7 [0] = some [⟨2, 1, 0, 1, false⟩, ⟨2, 0, 1, 3, false⟩, ⟨2, 0, 0, 4, false⟩] := by
  decide +kernel

set_option synthInstance.maxSize 512 in
open ModVerif.TlogTH ModVerif.Tie.FnTile in
/-- a forged tile: refused, `readTiles` was called, `saveTiles` was not; an index outside the tree: no call at all -/
example :
    (Generated.TileW.tileHashReader_ReadHashes exHeight Tlog.TH.node exOfBytes (exReadTiles exRTevil) exSaveTiles 600
        ⟨⟨7, root 7⟩, ()⟩ [0] ([], [])).toOption =
      some (([], some "downloaded inconsistent tile"), [[⟨2, 1, 0, 1⟩, ⟨2, 0, 1, 3⟩, ⟨2, 0, 0, 4⟩]], []) ∧
    (Generated.TileW.tileHashReader_ReadHashes exHeight Tlog.TH.node exOfBytes (exReadTiles exRT) exSaveTiles 600
        ⟨⟨7, root 7⟩, ()⟩ [99] ([], [])).toOption = some (([], some "indexes not in tree"), [], []) ∧
    planCall 2 7 [99] = none := by
  decide +kernel

open ModVerif.TlogTH ModVerif.Tie.FnTile in
/-- the hypotheses of the tie theorem are satisfiable (the example above is an instance) -/
example : ∃ (serve : Tile.Tile → Option (List Tlog.TH)) (msg : Option String),
    ServeRel exOfBytes (readTilesAt (exReadTiles exRT) ([], [])) serve (planTiles 2 7 [0]) ∧
    (∀ a, Generated.TileW.tileHashReader_ReadHashes exHeight Tlog.TH.node exOfBytes (exReadTiles exRT) exSaveTiles 600
        ⟨⟨((7 : Nat) : Int), root 7⟩, ()⟩ ([0].map Int.ofNat) ([], []) = .ok a ↔
      stagedM (exReadTiles exRT) exSaveTiles 2 7 [0] ([], [])
        (Tile.readHashes Tlog.TH.node 7 (root 7) 2 [0] serve) msg = .ok a) ∧
    ∀ e, (Tile.readHashes Tlog.TH.node 7 (root 7) 2 [0] serve).result = .error e →
      MsgOK (readTilesAt (exReadTiles exRT) ([], []) ((planTiles 2 7 [0]).map toGen)).2 e msg :=
  tileHashReader_ReadHashes_world_tie_any exHeight Tlog.TH.node exOfBytes (exReadTiles exRT) exSaveTiles 600 2 7 (root 7)
    [0] ([], []) ([], []) rfl (by omega) (by omega) (by omega) (by decide) (by decide)

end ModVerif.Tie.FnTileW
