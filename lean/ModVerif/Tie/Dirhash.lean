/- Tie: the literals of dirhash.Hash1 regenerated from hash.go equal what the hand-written model uses. -/
import ModVerif.Model.Dirhash
import ModVerif.Generated.Facts
namespace ModVerif.Tie
open ModVerif ModVerif.Dirhash

/-- Printf reading of a format with the two verbs Hash1 uses: `%x` prints the first argument (a byte
    slice) in lower-case hex, `%s` prints the second argument (a string); every other byte is literal. -/
def dirhashRender (digest name : Bytes) : Bytes → Bytes
  | 37 :: 120 :: rest => hexEnc digest ++ dirhashRender digest name rest
  | 37 :: 115 :: rest => name ++ dirhashRender digest name rest
  | c :: rest => c :: dirhashRender digest name rest
  | [] => []

/-- the model's summary line is the source's format string applied to (digest, name) -/
theorem dirhash_lineFormat_tie (digest name : Bytes) :
    dirhashRender digest name Generated.dirhash_Hash1_lineFormat = summaryLine digest name := by
  simp [Generated.dirhash_Hash1_lineFormat, dirhashRender, summaryLine]

/-- the format's arguments are the per-file digest and the file name, in this order: `hf.Sum(nil),file` -/
theorem dirhash_lineArgs_tie :
    Generated.dirhash_Hash1_lineArgs = [104, 102, 46, 83, 117, 109, 40, 110, 105, 108, 41, 44, 102, 105, 108, 101] := by
  decide

/-- the refused substring is the one-byte string "\n", which is what `hasNewline` tests -/
theorem dirhash_refused_tie (name : Bytes) :
    hasNewline name = name.any (fun c => [c] == Generated.dirhash_Hash1_refused) := by
  unfold hasNewline
  congr 1
  funext c
  simp [Generated.dirhash_Hash1_refused]

theorem dirhash_prefix_tie : Generated.dirhash_Hash1_prefix = h1Prefix := by decide

/-- the outer digest is encoded by `base64.StdEncoding.EncodeToString(h.Sum(nil))` (the model uses Base64.encodeStd) -/
theorem dirhash_encoder_tie :
    Generated.dirhash_Hash1_encoder = [98, 97, 115, 101, 54, 52, 46, 83, 116, 100, 69, 110, 99, 111, 100, 105, 110, 103, 46,
      69, 110, 99, 111, 100, 101, 84, 111, 83, 116, 114, 105, 110, 103, 40, 104, 46, 83, 117, 109, 40, 110, 105, 108, 41, 41] := by
  decide

end ModVerif.Tie
